/-
  Proofs/Criterion5.lean — the exactness hypothesis `hGx` of `C11.buchberger_criterion` can be
  dropped.  `LdOK o g` : the model's `Ld g` is a stored exponent and no stored exponent is above it
  for the mathematical order `tlt o` (the model's `Ld` is RIGHT for `g`).
   1. all generators `LdOK`                → the proof of the criterion goes through
      (`sPairsOK_of_ldOK`, `criterion_of_ldOK`);
   2. one generator `LdOK`, another not    → the guard `RunSafe` is violated (`mixed_false`): the
      true leading term of the wrong one survives in their S-polynomial and is inexact;
   3. no generator `LdOK`                  → no guarded division can make a step, all S-polynomials
      are the zero list, the S-polynomials for the TRUE leading exponents vanish as well, so `G` is
      a Gröbner basis for the true leading exponents (`Crit.criterion`) and every nonzero element of
      the ideal has an inexact leading exponent: the conclusion holds vacuously (`none_vacuous`).
  Result: `criterion_model_noexact`.
-/
import Algobra.Proofs.Criterion4
import Algobra.Proofs.Counting

namespace Algobra
namespace BPoly

open AddMonoidAlgebra (single)
open Algobra.Order

variable {α : Type} {F : FOps α} {K : Type} [Field K]

/-- the model's `Ld g` is the leading exponent of `g` for the mathematical order -/
def LdOK (o : Order) (g : BPoly α) : Prop :=
  ld o g ∈ keys g ∧ ∀ d ∈ keys g, ¬ tlt o (ld o g) d

theorem ldOK_of_exact {o : Order} (hadm : Admissible o) {g : BPoly α} (hne : g ≠ [])
    (hx : ∀ d ∈ keys g, Exact o d) : LdOK o g := ld_spec hadm hne hx

section Case1
variable (L : Lawful F K)

theorem genOK_of_ldOK {o : Order} {G : List (BPoly α)} (hG : ∀ g ∈ G, WF L g)
    (hld : ∀ g ∈ G, LdOK o g) : Crit.GenOK (tlt o) (genOf L G) (exOf o G) := by
  intro i
  have hm : G[i] ∈ G := List.getElem_mem _
  obtain ⟨h1, h2⟩ := hld _ hm
  exact ⟨(mem_keys_iff L (hG _ hm) _).1 h1, fun d hd => h2 d ((mem_keys_iff L (hG _ hm) d).2 hd)⟩

/-- case 1: the hypothesis of the abstract criterion, when every `Ld` is right -/
theorem sPairsOK_of_ldOK {o : Order} (hadm : Admissible o) {G : List (BPoly α)}
    (hG : ∀ g ∈ G, WF L g ∧ g ≠ [] ∧ Bounded g) (hld : ∀ g ∈ G, LdOK o g)
    (hpairs : ∀ (i j : Nat) (_ : i < j) (hj : j < G.length), ∃ s qs,
      sPoly F o (G[i]'(by omega)) G[j] = some s ∧
      quoRemLoop F o none G divFuel s (G.map fun _ => []) [] = some (qs, []) ∧
      (∀ d ∈ keys s, NoOverflow o d) ∧ RunOK F o none G divFuel s) :
    Crit.SPairsOK (tlt o) (genOf L G) (exOf o G) := by
  have H := tlt_monOrd hadm
  have hGok := genOK_of_ldOK L (fun g hg => (hG g hg).1) hld
  apply Crit.SPairsOK_of_lt
  intro i j hij
  obtain ⟨s, qs, hs, hq, hno, hrun⟩ := hpairs i.1 j.1 hij j.2
  have hi : G[i] ∈ G := List.getElem_mem _
  have hj : G[j] ∈ G := List.getElem_mem _
  have li := (hld _ hi).1
  have lj := (hld _ hj).1
  obtain ⟨ws, -, ts⟩ := sPoly_exact L (hG _ hi).1 (hG _ hj).1 li lj (hG _ hi).2.2 (hG _ hj).2.2 hs
  have hsp : toMv L s = Crit.sPol (genOf L G) (exOf o G) i j := by
    rw [sPol_genOf L (fun g hg => (hG g hg).1), ts]
  rw [← hsp]
  by_cases hs0 : s = []
  · subst hs0; rw [toMv_nil]; exact Submodule.zero_mem _
  · have hsx : ∀ d ∈ keys s, Exact o d := fun d hd => Or.inr (hno d hd)
    obtain ⟨ls1, -⟩ := ld_spec hadm hs0 hsx
    have hlt : tlt o (ld o s) (Crit.lcmD (exOf o G i) (exOf o G j)) := by
      apply Crit.sPol_supp H hGok i j
      rw [← hsp]
      exact (mem_keys_iff L ws _).1 ls1
    obtain ⟨-, -, -, e, -, qok⟩ := quoRemLoop_init_spec L hadm (fun g hg => (hG g hg).1.cv) ws hno
      hrun hq
    rw [e, toMv_nil, add_zero]
    apply dot_mem_submodule
    intro k q g hqk hgk
    apply toMv_mul_mem
    intro t ht
    obtain ⟨hsh, hle⟩ := qok k q g hqk hgk t ht
    obtain ⟨hk, rfl⟩ := List.getElem?_eq_some_iff.1 hgk
    have hgm : G[k] ∈ G := List.getElem_mem _
    have lk := (hld _ hgm).1
    have hx1 : Exact o ((ld o G[k]).1 + t.1, (ld o G[k]).2 + t.2) := Or.inr (hsh _ lk)
    have hle' := (cmp_le_iff o hx1 (hsx _ ls1)).1 hle
    refine Submodule.subset_span ⟨⟨k, hk⟩, t, ?_, rfl⟩
    have e2 : t + exOf o G ⟨k, hk⟩ = ((ld o G[k]).1 + t.1, (ld o G[k]).2 + t.2) := by
      show t + ld o G[k] = _
      exact Prod.ext (Nat.add_comm _ _) (Nat.add_comm _ _)
    rw [e2]
    exact H.lt_of_le_of_lt hle' hlt

/-- case 1: the criterion when every `Ld` is right -/
theorem criterion_of_ldOK {o : Order} (hadm : Admissible o) {G : List (BPoly α)}
    (hG : ∀ g ∈ G, WF L g ∧ g ≠ [] ∧ Bounded g) (hld : ∀ g ∈ G, LdOK o g)
    (hpairs : ∀ (i j : Nat) (_ : i < j) (hj : j < G.length), ∃ s qs,
      sPoly F o (G[i]'(by omega)) G[j] = some s ∧
      quoRemLoop F o none G divFuel s (G.map fun _ => []) [] = some (qs, []) ∧
      (∀ d ∈ keys s, NoOverflow o d) ∧ RunOK F o none G divFuel s)
    {f : BPoly α} (wf : WF L f) (hne : f ≠ []) (hfx : ∀ d ∈ keys f, Exact o d)
    (hmem : toMv L f ∈ Ideal.span ((toMv L) '' {g | g ∈ G})) :
    ∃ g ∈ G, subDegs (ld o f) (ld o g) ≠ none := by
  have H := tlt_monOrd hadm
  have hGok := genOK_of_ldOK L (fun g hg => (hG g hg).1) hld
  have hS := sPairsOK_of_ldOK L hadm hG hld hpairs
  rw [← range_genOf] at hmem
  have hf0 : toMv L f ≠ 0 := fun h0 => hne (eq_nil_of_toMv_eq_zero L wf h0)
  obtain ⟨i, a, h1, h2⟩ := Crit.criterion H hGok hS hmem hf0
  obtain ⟨l1, l2⟩ := ld_spec hadm hne hfx
  have hk : a + exOf o G i ∈ keys f := (mem_keys_iff L wf _).2 h1
  have heq : ld o f = a + exOf o G i :=
    H.eq_of_le_of_le (h2 _ ((mem_keys_iff L wf _).1 l1)) (l2 _ hk)
  refine ⟨G[i], List.getElem_mem _, ?_⟩
  have : subDegs (ld o f) (ld o G[i]) = some a := by
    rw [subDegs_eq_some_iff, heq, add_comm]; rfl
  rw [this]; exact Option.some_ne_none _

end Case1

/-! ### helpers for the other two cases -/

section Helpers

/-- a leading exponent (for `tlt o`) of `g`, in terms of stored exponents -/
def IsLead (o : Order) (g : BPoly α) (A : Deg) : Prop :=
  A ∈ keys g ∧ ∀ d ∈ keys g, ¬ tlt o A d

theorem exists_isLead (L : Lawful F K) {o : Order} (hadm : Admissible o) {g : BPoly α} (wg : WF L g)
    (hne : g ≠ []) : ∃ A, IsLead o g A := by
  have h0 : toMv L g ≠ 0 := fun h => hne (eq_nil_of_toMv_eq_zero L wg h)
  obtain ⟨A, h1, h2⟩ := Crit.exists_lead (tlt_monOrd hadm) h0
  exact ⟨A, (mem_keys_iff L wg A).2 h1, fun d hd => h2 d ((mem_keys_iff L wg d).1 hd)⟩

/-- a generator whose leading exponent has a word-size weighted degree has exact exponents -/
theorem noOverflow_of_small_lead {o : Order} {g : BPoly α} (bg : Bounded g) {A : Deg}
    (hA : IsLead o g A) (hs : weightedDeg o A < 2 ^ 64) : ∀ d ∈ keys g, NoOverflow o d := by
  intro d hd
  have hb := (Bounded_iff_KeysIn g).1 bg d hd
  refine ⟨hb.1, hb.2, ?_⟩
  by_contra hc
  exact hA.2 d hd (Or.inl (by omega))

/-- the leading exponent of a generator whose `Ld` is wrong has a weighted degree `≥ 2^64` -/
theorem inexact_lead {o : Order} (hadm : Admissible o) {g : BPoly α} (hne : g ≠ [])
    (bg : Bounded g) (hbad : ¬ LdOK o g) {A : Deg} (hA : IsLead o g A) :
    2 ^ 64 ≤ weightedDeg o A := by
  by_contra hc
  exact hbad (ldOK_of_exact hadm hne
    (fun d hd => Or.inr (noOverflow_of_small_lead bg hA (by omega) d hd)))

/-- a generator that is not `LdOK` has an inexact exponent, hence cannot be shifted in a guarded
    division step -/
theorem not_shiftNO_of_bad {o : Order} (hadm : Admissible o) {g : BPoly α} (hne : g ≠ [])
    (hbad : ¬ LdOK o g) (t : Deg) : ¬ ShiftNO o g t := by
  intro hsh
  exact hbad (ldOK_of_exact hadm hne (fun d hd =>
    Or.inr (NoOverflow_mono (hsh d hd) (Nat.le_add_right _ _) (Nat.le_add_right _ _))))

theorem lt_eq_nil_of_ld_not_mem (L : Lawful F K) {o : Order} {f : BPoly α} (h : ld o f ∉ keys f) :
    lt F o f = [] := by
  have hz : F.isZero (lc F o f) = true := by
    unfold lc; rw [coef_of_not_mem h]
    exact (L.isZero_iff _ L.zero_valid).2 L.embed_zero
  unfold lt setCoef
  rw [if_pos hz]; rfl

/-- dividing a monomial by the list `[[]]` (a zero leading term) never terminates -/
theorem monoDiv_nil_none (L : Lawful F K) (o : Order) (γ : Deg) (fuel : Nat) (qs : List (BPoly α)) (r : BPoly α) :
    quoRemLoop F o none [[]] fuel [(γ, F.one)] qs r = none := by
  apply quoRemLoop_stuck (by simp)
  unfold nextP
  have hb : ((none : Option Nat) == some 0) = false := rfl
  have hld : ld o ([] : BPoly α) = (0, 0) := rfl
  have hsd : subDegs (ld o ([(γ, F.one)] : BPoly α)) (0, 0)
      = some (ld o ([(γ, F.one)] : BPoly α)) := by simp [subDegs]
  simp only [firstDiv, hb, Bool.false_eq_true, if_false, hld, hsd]
  apply subShiftScale_of_isZero
  exact lcQuot_isZero L (CV_nil L) (Or.inr rfl)

/-- `SPolynomial` returns a value only if both `Ld`s are stored exponents -/
theorem sPoly_ld_mem (L : Lawful F K) {o : Order} {f g s : BPoly α} (h : sPoly F o f g = some s) :
    ld o f ∈ keys f ∧ ld o g ∈ keys g := by
  constructor
  · by_contra hn
    have ef := lt_eq_nil_of_ld_not_mem L hn
    unfold sPoly at h
    simp only at h
    rw [ef] at h
    split at h
    · rename_i q1 r1 q2 r2 h1 h2
      have hm : monomialLcm F o [] (lt F o g) = [(_, F.one)] := rfl
      rw [hm, monoDiv_nil_none L] at h1
      cases h1
    · cases h
  · by_contra hn
    have eg := lt_eq_nil_of_ld_not_mem L hn
    unfold sPoly at h
    simp only at h
    rw [eg] at h
    split at h
    · rename_i q1 r1 q2 r2 h1 h2
      have hm : monomialLcm F o (lt F o f) [] = [(_, F.one)] := rfl
      rw [hm, monoDiv_nil_none L] at h2
      cases h2
    · cases h

end Helpers

end BPoly

/-! ### abstract lemmas: a surviving term; vanishing S-polynomials -/

namespace Crit
open AddMonoidAlgebra (single)

section Abstract
variable {K : Type*} [Field K] {lt : D → D → Prop}

/-- if `e₁` is not the leading exponent `A` of `p₁` while `e₂` bounds `p₂`, the term `m₁ + A` of
    `c₁ X^{m₁} p₁` survives in the difference with `c₂ X^{m₂} p₂` (`m₁ + e₁ = m₂ + e₂`) -/
theorem survive (H : MonOrd lt) {p1 p2 : AddMonoidAlgebra K D} {m1 m2 : D} {c1 c2 : K}
    (hc1 : c1 ≠ 0) {A e1 e2 : D} (hA : p1.coeff A ≠ 0) (he : lt e1 A)
    (hp2 : ∀ d, p2.coeff d ≠ 0 → ¬ lt e2 d) (hγ : m1 + e1 = m2 + e2) :
    (single m1 c1 * p1 - single m2 c2 * p2).coeff (m1 + A) ≠ 0 ∧
    (single m2 c2 * p2 - single m1 c1 * p1).coeff (m1 + A) ≠ 0 := by
  have h1 : (single m1 c1 * p1).coeff (m1 + A) ≠ 0 := by
    rw [AddMonoidAlgebra.coeff_single_mul_add]
    exact mul_ne_zero hc1 hA
  have h2 : (single m2 c2 * p2).coeff (m1 + A) = 0 := by
    by_contra hne
    obtain ⟨d, hd, hsum⟩ := coeff_single_mul_ne_zero hne
    have := H.add_le_left m2 (hp2 d hd)
    rw [← hsum, ← hγ] at this
    exact this (H.add_left m1 he)
  constructor
  · rw [AddMonoidAlgebra.coeff_sub, Finsupp.sub_apply, h2, sub_zero]; exact h1
  · rw [AddMonoidAlgebra.coeff_sub, Finsupp.sub_apply, h2, zero_sub, neg_ne_zero]; exact h1

theorem single_mul_cancel (w : D) {T : AddMonoidAlgebra K D} (h : single w (1 : K) * T = 0) :
    T = 0 := by
  apply AddMonoidAlgebra.coeff_injective
  ext d
  have := congrArg (fun p => p.coeff (w + d)) h
  simp only [AddMonoidAlgebra.coeff_single_mul_add, one_mul] at this
  simpa using this

variable {ι : Type*} {gen : ι → AddMonoidAlgebra K D} {ex : ι → D}

/-- if two generators have a common monomial multiple (as polynomials, up to scalars), their
    S-polynomial (for their true leading exponents `ex`) vanishes -/
theorem sPol_eq_zero_of_prop (H : MonOrd lt) (hG : GenOK lt gen ex) {a b : ι} {m1 m2 : D}
    {c1 c2 : K} (hc1 : c1 ≠ 0) (hc2 : c2 ≠ 0)
    (heq : single m1 c1 * gen a = single m2 c2 * gen b) : sPol gen ex a b = 0 := by
  -- the common polynomial has leading exponent `m1 + ex a = m2 + ex b`
  have la : (single m1 c1 * gen a).coeff (m1 + ex a) ≠ 0 := by
    rw [AddMonoidAlgebra.coeff_single_mul_add]; exact mul_ne_zero hc1 (hG a).1
  have lb : (single m2 c2 * gen b).coeff (m2 + ex b) ≠ 0 := by
    rw [AddMonoidAlgebra.coeff_single_mul_add]; exact mul_ne_zero hc2 (hG b).1
  have sa : ∀ d, (single m1 c1 * gen a).coeff d ≠ 0 → ¬ lt (m1 + ex a) d := by
    intro d hd
    obtain ⟨d', h1, rfl⟩ := coeff_single_mul_ne_zero hd
    exact H.add_le_left m1 ((hG a).2 d' h1)
  have sb : ∀ d, (single m2 c2 * gen b).coeff d ≠ 0 → ¬ lt (m2 + ex b) d := by
    intro d hd
    obtain ⟨d', h1, rfl⟩ := coeff_single_mul_ne_zero hd
    exact H.add_le_left m2 ((hG b).2 d' h1)
  have hδ : m1 + ex a = m2 + ex b := by
    apply H.eq_of_le_of_le
    · exact sb _ (by rw [← heq]; exact la)
    · exact sa _ (by rw [heq]; exact lb)
  have hcoef : c1 * (gen a).coeff (ex a) = c2 * (gen b).coeff (ex b) := by
    have := congrArg (fun p => p.coeff (m1 + ex a)) heq
    change (single m1 c1 * gen a).coeff (m1 + ex a) = (single m2 c2 * gen b).coeff (m1 + ex a)
      at this
    rw [AddMonoidAlgebra.coeff_single_mul_add, hδ, AddMonoidAlgebra.coeff_single_mul_add] at this
    exact this
  -- the shift
  have e1 := congrArg Prod.fst hδ
  have e2 := congrArg Prod.snd hδ
  simp only [Prod.fst_add, Prod.snd_add] at e1 e2
  set w : D := (m1 + ex a) - lcmD (ex a) (ex b) with hw
  have hwa : w + (lcmD (ex a) (ex b) - ex a) = m1 := by
    rw [hw]; unfold lcmD
    ext
    · simp only [Prod.fst_add, Prod.fst_sub]; omega
    · simp only [Prod.snd_add, Prod.snd_sub]; omega
  have hwb : w + (lcmD (ex a) (ex b) - ex b) = m2 := by
    rw [hw]; unfold lcmD
    ext
    · simp only [Prod.fst_add, Prod.fst_sub]; omega
    · simp only [Prod.snd_add, Prod.snd_sub]; omega
  apply single_mul_cancel w
  unfold sPol
  rw [mul_sub, mshift_shift, mshift_shift, hwa, hwb]
  unfold mshift
  have ha' : single m1 (1 : K) * gen a = c1⁻¹ • (single m1 c1 * gen a) := by
    rw [single_eq_smul_mul m1 c1, smul_smul, inv_mul_cancel₀ hc1, one_smul]
  have hb' : single m2 (1 : K) * gen b = c2⁻¹ • (single m1 c1 * gen a) := by
    rw [heq, single_eq_smul_mul m2 c2, smul_smul, inv_mul_cancel₀ hc2, one_smul]
  rw [ha', hb', smul_smul, smul_smul, ← sub_smul]
  have : ((gen a).coeff (ex a))⁻¹ * c1⁻¹ - ((gen b).coeff (ex b))⁻¹ * c2⁻¹ = 0 := by
    rw [← mul_inv, ← mul_inv, mul_comm _ c1, mul_comm _ c2, hcoef, sub_self]
  rw [this, zero_smul]

end Abstract
end Crit

namespace BPoly

open AddMonoidAlgebra (single)
open Algobra.Order

variable {α : Type} {F : FOps α} {K : Type} [Field K]

/-! ### case 2 -/

section Case2
variable (L : Lawful F K)

theorem isLead_coeff {o : Order} {g : BPoly α} (wg : WF L g) {A : Deg} (hA : IsLead o g A) :
    (toMv L g).coeff A ≠ 0 ∧ ∀ d, (toMv L g).coeff d ≠ 0 → ¬ tlt o A d :=
  ⟨(mem_keys_iff L wg A).1 hA.1, fun d hd => hA.2 d ((mem_keys_iff L wg d).2 hd)⟩

/-- case 2: two generators whose S-polynomial exists and has exact exponents are both `LdOK` or
    both not -/
theorem ldOK_iff_of_sPoly {o : Order} (hadm : Admissible o) {f g s : BPoly α}
    (hf : WF L f ∧ f ≠ [] ∧ Bounded f) (hg : WF L g ∧ g ≠ [] ∧ Bounded g)
    (h : sPoly F o f g = some s) (hno : ∀ d ∈ keys s, NoOverflow o d) :
    LdOK o f ↔ LdOK o g := by
  have H := tlt_monOrd hadm
  obtain ⟨lf, lg⟩ := sPoly_ld_mem L h
  obtain ⟨ws, -, ts⟩ := sPoly_exact L hf.1 hg.1 lf lg hf.2.2 hg.2.2 h
  have nf : (L.embed (lc F o f))⁻¹ ≠ 0 := inv_ne_zero (coef_ne_zero L hf.1 lf)
  have ng : (L.embed (lc F o g))⁻¹ ≠ 0 := inv_ne_zero (coef_ne_zero L hg.1 lg)
  have hγ : (Crit.lcmD (ld o f) (ld o g) - ld o f) + ld o f
      = (Crit.lcmD (ld o f) (ld o g) - ld o g) + ld o g := by
    rw [Crit.lcmD_sub_add_left, Crit.lcmD_sub_add_right]
  -- the generic argument: `x` wrong, `y` right, the term `m_x + A` survives
  have key : ∀ (x : BPoly α), WF L x ∧ x ≠ [] ∧ Bounded x → ld o x ∈ keys x → ¬ LdOK o x →
      ∀ (m : Deg), (∀ A, IsLead o x A → tlt o (ld o x) A → (toMv L s).coeff (m + A) ≠ 0) →
      False := by
    intro x hx lx hbad m hsurv
    obtain ⟨A, hA⟩ := exists_isLead L hadm hx.1 hx.2.1
    have hne : ld o x ≠ A := by
      intro he; exact hbad ⟨lx, by rw [he]; exact hA.2⟩
    have hlt : tlt o (ld o x) A := H.lt_of_le_of_ne (hA.2 _ lx) hne
    have hk := (mem_keys_iff L ws _).2 (hsurv A hA hlt)
    have hn := (hno _ hk).2.2
    rw [weightedDeg_add'] at hn
    have := inexact_lead hadm hx.2.1 hx.2.2 hbad hA
    omega
  constructor
  · intro okf
    by_contra hbad
    refine key g hg lg hbad (Crit.lcmD (ld o f) (ld o g) - ld o g) ?_
    intro A hA hlt
    rw [ts]
    exact (Crit.survive H ng (isLead_coeff L hg.1 hA).1 hlt
      (fun d hd => okf.2 d ((mem_keys_iff L hf.1 d).2 hd)) hγ.symm).2
  · intro okg
    by_contra hbad
    refine key f hf lf hbad (Crit.lcmD (ld o f) (ld o g) - ld o f) ?_
    intro A hA hlt
    rw [ts]
    exact (Crit.survive H nf (isLead_coeff L hf.1 hA).1 hlt
      (fun d hd => okg.2 d ((mem_keys_iff L hg.1 d).2 hd)) hγ).1

end Case2

/-! ### case 3 and the result -/

section Case3
variable (L : Lawful F K)

/-- case 3: if no generator is `LdOK`, the ideal contains no nonzero polynomial with exact
    exponents -/
theorem none_vacuous {o : Order} (hadm : Admissible o) {G : List (BPoly α)}
    (hG : ∀ g ∈ G, WF L g ∧ g ≠ [] ∧ Bounded g) (hnone : ∀ g ∈ G, ¬ LdOK o g)
    (hpairs : ∀ (i j : Nat) (_ : i < j) (hj : j < G.length), ∃ s qs,
      sPoly F o (G[i]'(by omega)) G[j] = some s ∧
      quoRemLoop F o none G divFuel s (G.map fun _ => []) [] = some (qs, []) ∧
      (∀ d ∈ keys s, NoOverflow o d) ∧ RunOK F o none G divFuel s)
    {f : BPoly α} (wf : WF L f) (hne : f ≠ []) (hfx : ∀ d ∈ keys f, Exact o d)
    (hmem : toMv L f ∈ Ideal.span ((toMv L) '' {g | g ∈ G})) : False := by
  have H := tlt_monOrd hadm
  -- the true leading exponents
  have hex : ∀ i : Fin G.length, ∃ A, IsLead o G[i] A := fun i =>
    exists_isLead L hadm (hG _ (List.getElem_mem _)).1 (hG _ (List.getElem_mem _)).2.1
  choose ex' hex' using hex
  have hGok : Crit.GenOK (tlt o) (genOf L G) ex' := fun i =>
    isLead_coeff L (hG _ (List.getElem_mem _)).1 (hex' i)
  -- all S-polynomials for the true leading exponents vanish
  have hS : Crit.SPairsOK (tlt o) (genOf L G) ex' := by
    apply Crit.SPairsOK_of_lt
    intro i j hij
    obtain ⟨s, qs, hs, hq, hno, hrun⟩ := hpairs i.1 j.1 hij j.2
    have hi : G[i] ∈ G := List.getElem_mem _
    have hj : G[j] ∈ G := List.getElem_mem _
    obtain ⟨li, lj⟩ := sPoly_ld_mem L hs
    obtain ⟨ws, -, ts⟩ := sPoly_exact L (hG _ hi).1 (hG _ hj).1 li lj (hG _ hi).2.2 (hG _ hj).2.2 hs
    obtain ⟨-, -, -, e, -, qok⟩ := quoRemLoop_init_spec L hadm (fun g hg => (hG g hg).1.cv) ws hno
      hrun hq
    have hdot : dot L qs G = 0 := by
      have : dot L qs G ∈ (⊥ : Submodule K (AddMonoidAlgebra K (ℕ × ℕ))) := by
        apply dot_mem_submodule
        intro k q g hqk hgk
        have hq0 : q = [] := by
          cases q with
          | nil => rfl
          | cons x t =>
            exfalso
            obtain ⟨hsh, -⟩ := qok k _ g hqk hgk x.1 (by simp [keys])
            have hgm : g ∈ G := List.mem_of_getElem? hgk
            exact not_shiftNO_of_bad hadm (hG g hgm).2.1 (hnone g hgm) _ hsh
        rw [hq0, toMv_nil, zero_mul]
        exact Submodule.zero_mem _
      simpa using this
    have hs0 : toMv L s = 0 := by rw [e, hdot, toMv_nil, add_zero]
    rw [hs0] at ts
    have heq := sub_eq_zero.1 ts.symm
    have z := Crit.sPol_eq_zero_of_prop (gen := genOf L G) (ex := ex') H hGok (a := i) (b := j)
      (inv_ne_zero (coef_ne_zero L (hG _ hi).1 li)) (inv_ne_zero (coef_ne_zero L (hG _ hj).1 lj)) heq
    rw [z]
    exact Submodule.zero_mem _
  rw [← range_genOf] at hmem
  have hf0 : toMv L f ≠ 0 := fun h0 => hne (eq_nil_of_toMv_eq_zero L wf h0)
  obtain ⟨i, a, h1, -⟩ := Crit.criterion H hGok hS hmem hf0
  have hk : a + ex' i ∈ keys f := (mem_keys_iff L wf _).2 h1
  have hgi : G[i] ∈ G := List.getElem_mem _
  have hbig := inexact_lead hadm (hG _ hgi).2.1 (hG _ hgi).2.2 (hnone _ hgi) (hex' i)
  rcases hfx _ hk with hlex | hn
  · -- for Lex every generator is `LdOK`
    exact hnone _ hgi (ldOK_of_exact hadm (hG _ hgi).2.1 (fun _ _ => Or.inl hlex))
  · have := hn.2.2
    rw [weightedDeg_add'] at this
    omega

/-- **the criterion without the exactness hypothesis on `G`** -/
theorem criterion_model_noexact {o : Order} (hadm : Admissible o) {G : List (BPoly α)}
    (hG : ∀ g ∈ G, WF L g ∧ g ≠ [] ∧ Bounded g)
    (hpairs : ∀ (i j : Nat) (_ : i < j) (hj : j < G.length), ∃ s qs,
      sPoly F o (G[i]'(by omega)) G[j] = some s ∧
      quoRemLoop F o none G divFuel s (G.map fun _ => []) [] = some (qs, []) ∧
      (∀ d ∈ keys s, NoOverflow o d) ∧ RunOK F o none G divFuel s)
    {f : BPoly α} (wf : WF L f) (hne : f ≠ []) (hfx : ∀ d ∈ keys f, Exact o d)
    (hmem : toMv L f ∈ Ideal.span ((toMv L) '' {g | g ∈ G})) :
    ∃ g ∈ G, subDegs (ld o f) (ld o g) ≠ none := by
  by_cases hall : ∀ g ∈ G, LdOK o g
  · exact criterion_of_ldOK L hadm hG hall hpairs wf hne hfx hmem
  · by_cases hnone : ∀ g ∈ G, ¬ LdOK o g
    · exact (none_vacuous L hadm hG hnone hpairs wf hne hfx hmem).elim
    · exfalso
      obtain ⟨g0, hg0, hbad⟩ : ∃ g0 ∈ G, ¬ LdOK o g0 := by
        by_contra hc
        exact hall (fun g hg => by by_contra hb; exact hc ⟨g, hg, hb⟩)
      obtain ⟨g1, hg1, hok⟩ : ∃ g1 ∈ G, LdOK o g1 := by
        by_contra hc
        exact hnone (fun g hg hb => hc ⟨g, hg, hb⟩)
      obtain ⟨i0, hi0, rfl⟩ := List.getElem_of_mem hg0
      obtain ⟨i1, hi1, rfl⟩ := List.getElem_of_mem hg1
      have hne01 : i0 ≠ i1 := by rintro rfl; exact hbad hok
      rcases Nat.lt_or_gt_of_ne hne01 with hlt | hlt
      · obtain ⟨s, qs, hs, -, hno, -⟩ := hpairs i0 i1 hlt hi1
        exact hbad ((ldOK_iff_of_sPoly L hadm (hG _ hg0) (hG _ hg1) hs hno).2 hok)
      · obtain ⟨s, qs, hs, -, hno, -⟩ := hpairs i1 i0 hlt hi0
        exact hbad ((ldOK_iff_of_sPoly L hadm (hG _ hg1) (hG _ hg0) hs hno).1 hok)

end Case3

end BPoly

end Algobra
