/-
  Proofs/Interp.lean — helper lemmas for C14 (Lagrange interpolation, /repo/univariate/interpolation.go):
  `eraseDups` and `allDistinct`, the combination sum of `coefK` as an elementary symmetric sum (Vieta),
  `ignoreIndex`, the coefficient loop and the denominator loop of `lagrangeBasis`, the main loop of
  `interpolate`.
-/
import Mathlib.RingTheory.Polynomial.Vieta
import Mathlib.LinearAlgebra.Lagrange
import Algobra.Proofs.UPolyRefine
import Algobra.Props.C19

namespace Algobra
namespace Interp

open Polynomial

/-! ### `List.eraseDups` -/

theorem eraseDups_length_le {β : Type} [BEq β] (l : List β) : l.eraseDups.length ≤ l.length := by
  induction h : l.length using Nat.strong_induction_on generalizing l with
  | _ n ih =>
    cases l with
    | nil => simp
    | cons a as =>
      rw [List.eraseDups_cons]
      simp only [List.length_cons] at h ⊢
      have h1 := List.length_filter_le (fun b => !b == a) as
      have := ih (as.filter fun b => !b == a).length (by omega) _ rfl
      omega

theorem eraseDups_length_eq_iff {β : Type} [BEq β] [LawfulBEq β] (l : List β) :
    l.eraseDups.length = l.length ↔ l.Nodup := by
  induction h : l.length using Nat.strong_induction_on generalizing l with
  | _ n ih =>
    subst h
    cases l with
    | nil => simp
    | cons a as =>
      rw [List.eraseDups_cons]
      simp only [List.length_cons, List.nodup_cons, Nat.add_right_cancel_iff]
      have h1 := List.length_filter_le (fun b => !b == a) as
      have h2 := eraseDups_length_le (as.filter fun b => !b == a)
      have ih' := ih as.length (by simp) as rfl
      constructor
      · intro he
        have hfl : (as.filter fun b => !b == a).length = as.length := by omega
        have hall := List.length_filter_eq_length_iff.1 hfl
        have hf : as.filter (fun b => !b == a) = as := List.filter_eq_self.2 hall
        rw [hf] at he
        refine ⟨?_, ih'.1 he⟩
        intro ha
        have := hall a ha
        simp at this
      · rintro ⟨ha, hnd⟩
        have hf : as.filter (fun b => !b == a) = as := by
          rw [List.filter_eq_self]
          intro b hb
          have : b ≠ a := fun hba => ha (hba ▸ hb)
          simpa using this
        rw [hf]
        exact ih'.2 hnd

/-! ### Vieta over a `Finset` of indices -/

theorem finset_prod_X_sub_C_coeff {σ : Type} {K : Type} [Field K] (s : Finset σ) (r : σ → K) {k : ℕ}
    (h : k ≤ s.card) :
    (∏ i ∈ s, (X - C (r i))).coeff k =
      (-1) ^ (s.card - k) * ∑ t ∈ s.powersetCard (s.card - k), ∏ i ∈ t, r i := by
  have := Finset.prod_X_add_C_coeff s (fun i => - r i) h
  simp only [map_neg, ← sub_eq_add_neg] at this
  rw [this, Finset.mul_sum]
  refine Finset.sum_congr rfl fun t ht => ?_
  rw [Finset.prod_neg, (Finset.mem_powersetCard.1 ht).2]

/-- the sum over the iterator's combinations avoiding `idx` is the elementary symmetric sum over
    the index set without `idx` -/
theorem combos_sum {K : Type} [Field K] (n k idx : ℕ) (hk : k ≤ n) (e : ℕ → K) :
    (((Auxmath.combinations n k).filter (fun c => !c.contains idx)).map
        (fun c => (c.map e).prod)).sum
      = ∑ t ∈ ((Finset.range n).erase idx).powersetCard k, ∏ i ∈ t, e i := by
  obtain ⟨_, hm, hnd, _⟩ := C19.combinations_spec hk
  obtain ⟨hnd', hmem'⟩ := C19.combinations_subsets hk
  have h1 : ((Auxmath.combinations n k).filter (fun c => !c.contains idx)).map
        (fun c => (c.map e).prod) =
      (((Auxmath.combinations n k).filter (fun c => !c.contains idx)).map List.toFinset).map
        (fun t => ∏ i ∈ t, e i) := by
    rw [List.map_map]
    apply List.map_congr_left
    intro c hc
    obtain ⟨_, h2, _⟩ := (hm c).1 (List.mem_filter.1 hc).1
    have hcn : c.Nodup := h2.imp (fun h => Nat.ne_of_lt h)
    simp [List.prod_toFinset _ hcn]
  have hnd2 : (((Auxmath.combinations n k).filter (fun c => !c.contains idx)).map
      List.toFinset).Nodup := hnd'.sublist (List.filter_sublist.map _)
  rw [h1, ← List.sum_toFinset _ hnd2]
  refine Finset.sum_congr ?_ (fun _ _ => rfl)
  ext t
  simp only [List.mem_toFinset, List.mem_map, List.mem_filter, Finset.mem_powersetCard]
  constructor
  · rintro ⟨c, ⟨hc, hci⟩, rfl⟩
    have := (hmem' c.toFinset).1 (List.mem_map.2 ⟨c, hc, rfl⟩)
    rw [Finset.mem_powersetCard] at this
    refine ⟨?_, this.2⟩
    intro x hx
    rw [Finset.mem_erase]
    refine ⟨?_, this.1 hx⟩
    rintro rfl
    simp at hci
    exact hci (List.mem_toFinset.1 hx)
  · rintro ⟨hsub, hcard⟩
    have : t ∈ (Finset.range n).powersetCard k :=
      Finset.mem_powersetCard.2 ⟨hsub.trans (Finset.erase_subset _ _), hcard⟩
    obtain ⟨c, hc, rfl⟩ := List.mem_map.1 ((hmem' t).2 this)
    refine ⟨c, ⟨hc, ?_⟩, rfl⟩
    have : idx ∉ c.toFinset := fun h => (Finset.mem_erase.1 (hsub h)).1 rfl
    simpa using this

/-! ### the loops of `coefK` -/

section Model
variable {α : Type} {F : FOps α} {K : Type} [Field K] (L : Lawful F K)

/-- the embedded point with index `j` (zero beyond the end) -/
noncomputable def pt (points : List α) (j : ℕ) : K := L.embed (points.getD j F.zero)

theorem getD_valid {points : List α} (hp : ∀ p ∈ points, L.valid p) (j : ℕ) :
    L.valid (points.getD j F.zero) := by
  rcases Nat.lt_or_ge j points.length with h | h
  · rw [List.getD_eq_getElem _ _ h]; exact hp _ (List.getElem_mem h)
  · rw [List.getD_eq_default _ _ h]; exact L.zero_valid

/-- inner loop: the product of the chosen points -/
theorem inner_fold {points : List α} (hp : ∀ p ∈ points, L.valid p) (combo : List ℕ) (t0 : α)
    (ht0 : L.valid t0) :
    L.valid (combo.foldl (fun t i => F.mul t (points.getD i F.zero)) t0) ∧
    L.embed (combo.foldl (fun t i => F.mul t (points.getD i F.zero)) t0) =
      L.embed t0 * (combo.map (pt L points)).prod := by
  induction combo generalizing t0 with
  | nil => simp [ht0]
  | cons i c ih =>
    have hv := L.mul_valid t0 _ ht0 (getD_valid L hp i)
    obtain ⟨h1, h2⟩ := ih (F.mul t0 (points.getD i F.zero)) hv
    refine ⟨h1, ?_⟩
    simp only [List.foldl_cons, List.map_cons, List.prod_cons]
    rw [h2, L.embed_mul _ _ ht0 (getD_valid L hp i), pt, mul_assoc]

/-- outer loop: sum over the combinations not containing `idx` -/
theorem outer_fold {points : List α} (hp : ∀ p ∈ points, L.valid p)
    (hone : L.valid (F.ofNat 1) ∧ L.embed (F.ofNat 1) = 1) (idx : ℕ)
    (combos : List (List ℕ)) (out0 : α) (hout0 : L.valid out0) :
    L.valid (combos.foldl (fun out combo =>
      if combo.contains idx then out
      else F.add out (combo.foldl (fun t i => F.mul t (points.getD i F.zero)) (F.ofNat 1))) out0) ∧
    L.embed (combos.foldl (fun out combo =>
      if combo.contains idx then out
      else F.add out (combo.foldl (fun t i => F.mul t (points.getD i F.zero)) (F.ofNat 1))) out0) =
      L.embed out0 + ((combos.filter (fun c => !c.contains idx)).map
        (fun c => (c.map (pt L points)).prod)).sum := by
  induction combos generalizing out0 with
  | nil => simp [hout0]
  | cons c cs ih =>
    simp only [List.foldl_cons]
    by_cases hc : c.contains idx = true
    · rw [if_pos hc]
      obtain ⟨h1, h2⟩ := ih out0 hout0
      refine ⟨h1, ?_⟩
      rw [h2, List.filter_cons_of_neg (by simpa using hc)]
    · rw [if_neg hc]
      obtain ⟨i1, i2⟩ := inner_fold L hp c (F.ofNat 1) hone.1
      obtain ⟨h1, h2⟩ := ih _ (L.add_valid _ _ hout0 i1)
      refine ⟨h1, ?_⟩
      rw [h2, List.filter_cons_of_pos (by simpa using hc), L.embed_add _ _ hout0 i1, i2, hone.2]
      simp only [List.map_cons, List.sum_cons, one_mul]
      ring

/-- `coefK` is the coefficient of `X^k` in `∏_{j ≠ idx} (X - p_j)` -/
theorem coefK_spec {points : List α} (hp : ∀ p ∈ points, L.valid p)
    (hone : L.valid (F.ofNat 1) ∧ L.embed (F.ofNat 1) = 1) {idx k : ℕ}
    (hidx : idx < points.length) (hk : k < points.length) :
    L.valid (UPoly.coefK F points idx k) ∧
    L.embed (UPoly.coefK F points idx k) =
      (∏ j ∈ (Finset.range points.length).erase idx, (X - C (pt L points j))).coeff k := by
  have hcard : ((Finset.range points.length).erase idx).card = points.length - 1 := by
    rw [Finset.card_erase_of_mem (Finset.mem_range.2 hidx), Finset.card_range]
  obtain ⟨h1, h2⟩ := outer_fold L hp hone idx
    (Auxmath.combinations points.length (points.length - 1 - k)) F.zero L.zero_valid
  rw [finset_prod_X_sub_C_coeff _ _ (by rw [hcard]; omega), hcard,
    ← combos_sum points.length (points.length - 1 - k) idx (by omega)]
  unfold UPoly.coefK
  simp only []
  rw [L.embed_zero, zero_add] at h2
  split
  · next hodd =>
    refine ⟨L.neg_valid _ h1, ?_⟩
    rw [L.embed_neg _ h1, h2, Odd.neg_one_pow (Nat.odd_iff.2 (by omega))]
    ring
  · next heven =>
    refine ⟨h1, ?_⟩
    rw [h2, Even.neg_one_pow (Nat.even_iff.2 (by omega))]
    ring

/-! ### the loops of `lagrangeBasis` -/

/-- `ignoreIndex` finds the index of `ignore` when it occurs exactly once -/
theorem ignoreIndex_spec (points : List α) (ignore : α) (hp : ∀ p ∈ points, L.valid p)
    (hign : L.valid ignore) {idx : ℕ} (hidx : idx < points.length)
    (hi : points.getD idx F.zero = ignore)
    (huniq : ∀ j, j < points.length → points.getD j F.zero = ignore → j = idx) :
    UPoly.ignoreIndex F points ignore = idx := by
  unfold UPoly.ignoreIndex
  induction points using List.reverseRecOn with
  | nil => simp at hidx
  | append_singleton l a ih =>
    have ha : L.valid a := hp a (by simp)
    rw [List.zipIdx_append, List.foldl_append]
    simp only [List.zipIdx_cons, List.zipIdx_nil, List.foldl_cons, List.foldl_nil, Nat.zero_add]
    rw [List.length_append, List.length_singleton] at hidx huniq
    rcases Nat.lt_or_ge idx l.length with hlt | hge
    · have hne : a ≠ ignore := by
        intro hae
        have := huniq l.length (by omega) (by simp [hae])
        omega
      have hb : F.beq a ignore = false := by
        rw [← Bool.not_eq_true, L.beq_iff a ignore ha hign]; exact hne
      rw [hb]
      simp only [Bool.false_eq_true, if_false]
      refine ih (fun p hp' => hp p (by simp [hp'])) hlt ?_ ?_
      · rw [← hi, List.getD_append _ _ _ _ hlt]
      · intro j hj hje
        exact huniq j (by omega) (by rw [List.getD_append _ _ _ _ hj]; exact hje)
    · have hidx' : idx = l.length := by omega
      have hae : a = ignore := by rw [← hi, hidx']; simp
      have hb : F.beq a ignore = true := (L.beq_iff a ignore ha hign).2 hae
      rw [hb]
      simp [hidx']

/-- the denominator loop: `∏_{j ≠ idx} (ignore - p_j)` -/
theorem denom_fold (points : List α) (ignore : α) (idx : ℕ) (hp : ∀ p ∈ points, L.valid p)
    (hign : L.valid ignore) (e : ℕ → K)
    (he : ∀ j < points.length, e j = L.embed (points.getD j F.zero)) :
    L.valid ((points.zipIdx).foldl
      (fun d (p, i) => if i = idx then d else F.mul d (F.sub ignore p)) F.one) ∧
    L.embed ((points.zipIdx).foldl
      (fun d (p, i) => if i = idx then d else F.mul d (F.sub ignore p)) F.one) =
      ∏ j ∈ (Finset.range points.length).erase idx, (L.embed ignore - e j) := by
  induction points using List.reverseRecOn with
  | nil => simp [L.one_valid, L.embed_one]
  | append_singleton l a ih =>
    have ha : L.valid a := hp a (by simp)
    obtain ⟨h1, h2⟩ := ih (fun p hp' => hp p (by simp [hp'])) (fun j hj => by
      rw [he j (by simp; omega), List.getD_append _ _ _ _ hj])
    have hea : e l.length = L.embed a := by rw [he l.length (by simp)]; simp
    rw [List.zipIdx_append, List.foldl_append]
    simp only [List.zipIdx_cons, List.zipIdx_nil, List.foldl_cons, List.foldl_nil, Nat.zero_add]
    rw [List.length_append, List.length_singleton, Finset.range_add_one]
    by_cases hl : l.length = idx
    · rw [if_pos hl]
      refine ⟨h1, ?_⟩
      have hni : l.length ∉ Finset.range l.length := by simp
      rw [h2, ← hl, Finset.erase_insert hni, Finset.erase_eq_of_notMem hni]
    · rw [if_neg hl]
      have hsv := L.sub_valid _ _ hign ha
      refine ⟨L.mul_valid _ _ h1 hsv, ?_⟩
      rw [L.embed_mul _ _ h1 hsv, L.embed_sub _ _ hign ha, h2,
        Finset.erase_insert_of_ne hl, Finset.prod_insert (by simp), hea, mul_comm]

/-- the coefficient loop -/
theorem coef_fold (c : ℕ → α) (m : ℕ) (hc : ∀ k < m, L.valid (c k)) :
    UPoly.WF L ((List.range m).foldl (fun f k => UPoly.setCoef F f k (c k)) (UPoly.zero F)) ∧
    UPoly.toPoly L ((List.range m).foldl (fun f k => UPoly.setCoef F f k (c k)) (UPoly.zero F)) =
      ∑ k ∈ Finset.range m, monomial k (L.embed (c k)) := by
  induction m with
  | zero => simp [UPoly.wf_zero, UPoly.toPoly_zero]
  | succ m ih =>
    obtain ⟨h1, h2⟩ := ih (fun k hk => hc k (by omega))
    rw [List.range_succ, List.foldl_append]
    simp only [List.foldl_cons, List.foldl_nil]
    refine ⟨UPoly.setCoef_wf L h1 m (hc m (by omega)), ?_⟩
    rw [UPoly.toPoly_setCoef L h1 m (hc m (by omega)), ← UPoly.coeff_toPoly_coef, h2,
      Finset.sum_range_succ]
    have : (∑ k ∈ Finset.range m, monomial k (L.embed (c k))).coeff m = 0 := by
      rw [finsetSum_coeff]
      refine Finset.sum_eq_zero fun k hk => ?_
      rw [coeff_monomial, if_neg (by have := Finset.mem_range.1 hk; omega)]
    rw [this, sub_zero]

/-! ### `lagrangeBasis` -/

theorem pt_injOn {points : List α} (hp : ∀ p ∈ points, L.valid p) (hnd : points.Nodup) :
    Set.InjOn (pt L points) (Finset.range points.length : Set ℕ) := by
  intro i hi j hj hij
  have hi' : i < points.length := by simpa using hi
  have hj' : j < points.length := by simpa using hj
  have := L.inj _ _ (getD_valid L hp i) (getD_valid L hp j) hij
  rw [List.getD_eq_getElem _ _ hi', List.getD_eq_getElem _ _ hj'] at this
  exact (hnd.getElem_inj_iff).1 this

theorem lagrangeBasis_spec {points : List α} (hp : ∀ p ∈ points, L.valid p)
    (hone : L.valid (F.ofNat 1) ∧ L.embed (F.ofNat 1) = 1) (hnd : points.Nodup) {idx : ℕ}
    (hidx : idx < points.length) :
    UPoly.WF L (UPoly.lagrangeBasis F points (points.getD idx F.zero)) ∧
    UPoly.toPoly L (UPoly.lagrangeBasis F points (points.getD idx F.zero)) =
      C (∏ j ∈ (Finset.range points.length).erase idx, (pt L points idx - pt L points j))⁻¹ *
        ∏ j ∈ (Finset.range points.length).erase idx, (X - C (pt L points j)) := by
  have hign := getD_valid L hp idx
  have hii : UPoly.ignoreIndex F points (points.getD idx F.zero) = idx := by
    refine ignoreIndex_spec L points _ hp hign hidx rfl ?_
    intro j hj hje
    rw [List.getD_eq_getElem _ _ hj, List.getD_eq_getElem _ _ hidx] at hje
    exact (hnd.getElem_inj_iff).1 hje
  obtain ⟨d1, d2⟩ := denom_fold L points (points.getD idx F.zero) idx hp hign (pt L points)
    (fun _ _ => rfl)
  obtain ⟨c1, c2⟩ := coef_fold L (fun k => UPoly.coefK F points idx k) points.length
    (fun k hk => (coefK_spec L hp hone hidx hk).1)
  have hP : UPoly.toPoly L ((List.range points.length).foldl
      (fun f k => UPoly.setCoef F f k (UPoly.coefK F points idx k)) (UPoly.zero F)) =
      ∏ j ∈ (Finset.range points.length).erase idx, (X - C (pt L points j)) := by
    rw [c2]
    have hdeg : (∏ j ∈ (Finset.range points.length).erase idx,
        (X - C (pt L points j))).natDegree < points.length := by
      rw [← Lagrange.nodal_eq, Lagrange.natDegree_nodal,
        Finset.card_erase_of_mem (Finset.mem_range.2 hidx), Finset.card_range]
      omega
    conv_rhs => rw [as_sum_range' _ _ hdeg]
    refine Finset.sum_congr rfl fun k hk => ?_
    rw [(coefK_spec L hp hone hidx (Finset.mem_range.1 hk)).2]
  have hd0 : L.embed ((points.zipIdx).foldl
      (fun d (p, i) => if i = idx then d else F.mul d (F.sub (points.getD idx F.zero) p)) F.one)
      ≠ 0 := by
    rw [d2, Finset.prod_ne_zero_iff]
    intro j hj
    rw [Finset.mem_erase] at hj
    intro h0
    exact hj.1 ((pt_injOn L hp hnd (by simpa using hj.2) (by simpa using hidx)
      (sub_eq_zero.1 h0).symm))
  obtain ⟨i, hi1, hi2, hi3⟩ := L.inv_some _ d1 hd0
  unfold UPoly.lagrangeBasis
  simp only []
  rw [hii, hi1]
  simp only []
  refine ⟨UPoly.scale_wf L c1 hi2, ?_⟩
  rw [UPoly.toPoly_scale L c1.1 hi2, hP, hi3, d2]
  rfl

/-- the model's basis polynomial is Mathlib's `Lagrange.basis` -/
theorem lagrangeBasis_eq_basis {points : List α} (hp : ∀ p ∈ points, L.valid p)
    (hone : L.valid (F.ofNat 1) ∧ L.embed (F.ofNat 1) = 1) (hnd : points.Nodup) {idx : ℕ}
    (hidx : idx < points.length) :
    UPoly.toPoly L (UPoly.lagrangeBasis F points (points.getD idx F.zero)) =
      Lagrange.basis (Finset.range points.length) (pt L points) idx := by
  rw [(lagrangeBasis_spec L hp hone hnd hidx).2, Lagrange.basis]
  simp only [Lagrange.basisDivisor]
  rw [Finset.prod_mul_distrib, ← map_prod, Finset.prod_inv_distrib]

end Model

end Interp
end Algobra
