/-
  Proofs/Interp.lean — helper lemmas for C14 (Lagrange interpolation, /repo/univariate/interpolation.go):
  `eraseDups` and `allDistinct`, the combination sum of `coefK` as an elementary symmetric sum (Vieta),
  `ignoreIndex`, the coefficient loop and the denominator loop of `lagrangeBasis`, the main loop of
  `interpolate`; bivariate (/repo/bivariate/interpolation.go): `BPoly.lagrangeBasis` and its evaluation,
  `distinctStrs`, one round (`istep`) and the main loop of `BPoly.interpolate` in a ring without ideal.
-/
import Mathlib.RingTheory.Polynomial.Vieta
import Mathlib.LinearAlgebra.Lagrange
import Algobra.Proofs.UPolyRefine
import Algobra.Proofs.BPolyRefine
import Algobra.Props.C19

namespace Algobra
namespace Interp

open Polynomial

/-! ### `List.eraseDups` -/

theorem eraseDups_length_le {β : Type} [BEq β] (l : List β) : l.eraseDups.length ≤ l.length := by
  induction h : l.length using Nat.strong_induction_on generalizing l with
  | _ n ih =>
    cases l with
    | nil => simp
    | cons a as =>
      rw [List.eraseDups_cons]
      simp only [List.length_cons] at h ⊢
      have h1 := List.length_filter_le (fun b => !b == a) as
      have := ih (as.filter fun b => !b == a).length (by omega) _ rfl
      omega

theorem eraseDups_length_eq_iff {β : Type} [BEq β] [LawfulBEq β] (l : List β) :
    l.eraseDups.length = l.length ↔ l.Nodup := by
  induction h : l.length using Nat.strong_induction_on generalizing l with
  | _ n ih =>
    subst h
    cases l with
    | nil => simp
    | cons a as =>
      rw [List.eraseDups_cons]
      simp only [List.length_cons, List.nodup_cons, Nat.add_right_cancel_iff]
      have h1 := List.length_filter_le (fun b => !b == a) as
      have h2 := eraseDups_length_le (as.filter fun b => !b == a)
      have ih' := ih as.length (by simp) as rfl
      constructor
      · intro he
        have hfl : (as.filter fun b => !b == a).length = as.length := by omega
        have hall := List.length_filter_eq_length_iff.1 hfl
        have hf : as.filter (fun b => !b == a) = as := List.filter_eq_self.2 hall
        rw [hf] at he
        refine ⟨?_, ih'.1 he⟩
        intro ha
        have := hall a ha
        simp at this
      · rintro ⟨ha, hnd⟩
        have hf : as.filter (fun b => !b == a) = as := by
          rw [List.filter_eq_self]
          intro b hb
          have : b ≠ a := fun hba => ha (hba ▸ hb)
          simpa using this
        rw [hf]
        exact ih'.2 hnd

/-! ### Vieta over a `Finset` of indices -/

theorem finset_prod_X_sub_C_coeff {σ : Type} {K : Type} [Field K] (s : Finset σ) (r : σ → K) {k : ℕ}
    (h : k ≤ s.card) :
    (∏ i ∈ s, (X - C (r i))).coeff k =
      (-1) ^ (s.card - k) * ∑ t ∈ s.powersetCard (s.card - k), ∏ i ∈ t, r i := by
  have := Finset.prod_X_add_C_coeff s (fun i => - r i) h
  simp only [map_neg, ← sub_eq_add_neg] at this
  rw [this, Finset.mul_sum]
  refine Finset.sum_congr rfl fun t ht => ?_
  rw [Finset.prod_neg, (Finset.mem_powersetCard.1 ht).2]

/-- the sum over the iterator's combinations avoiding `idx` is the elementary symmetric sum over
    the index set without `idx` -/
theorem combos_sum {K : Type} [Field K] (n k idx : ℕ) (hk : k ≤ n) (e : ℕ → K) :
    (((Auxmath.combinations n k).filter (fun c => !c.contains idx)).map
        (fun c => (c.map e).prod)).sum
      = ∑ t ∈ ((Finset.range n).erase idx).powersetCard k, ∏ i ∈ t, e i := by
  obtain ⟨_, hm, hnd, _⟩ := C19.combinations_spec hk
  obtain ⟨hnd', hmem'⟩ := C19.combinations_subsets hk
  have h1 : ((Auxmath.combinations n k).filter (fun c => !c.contains idx)).map
        (fun c => (c.map e).prod) =
      (((Auxmath.combinations n k).filter (fun c => !c.contains idx)).map List.toFinset).map
        (fun t => ∏ i ∈ t, e i) := by
    rw [List.map_map]
    apply List.map_congr_left
    intro c hc
    obtain ⟨_, h2, _⟩ := (hm c).1 (List.mem_filter.1 hc).1
    have hcn : c.Nodup := h2.imp (fun h => Nat.ne_of_lt h)
    simp [List.prod_toFinset _ hcn]
  have hnd2 : (((Auxmath.combinations n k).filter (fun c => !c.contains idx)).map
      List.toFinset).Nodup := hnd'.sublist (List.filter_sublist.map _)
  rw [h1, ← List.sum_toFinset _ hnd2]
  refine Finset.sum_congr ?_ (fun _ _ => rfl)
  ext t
  simp only [List.mem_toFinset, List.mem_map, List.mem_filter, Finset.mem_powersetCard]
  constructor
  · rintro ⟨c, ⟨hc, hci⟩, rfl⟩
    have := (hmem' c.toFinset).1 (List.mem_map.2 ⟨c, hc, rfl⟩)
    rw [Finset.mem_powersetCard] at this
    refine ⟨?_, this.2⟩
    intro x hx
    rw [Finset.mem_erase]
    refine ⟨?_, this.1 hx⟩
    rintro rfl
    simp at hci
    exact hci (List.mem_toFinset.1 hx)
  · rintro ⟨hsub, hcard⟩
    have : t ∈ (Finset.range n).powersetCard k :=
      Finset.mem_powersetCard.2 ⟨hsub.trans (Finset.erase_subset _ _), hcard⟩
    obtain ⟨c, hc, rfl⟩ := List.mem_map.1 ((hmem' t).2 this)
    refine ⟨c, ⟨hc, ?_⟩, rfl⟩
    have : idx ∉ c.toFinset := fun h => (Finset.mem_erase.1 (hsub h)).1 rfl
    simpa using this

/-! ### the loops of `coefK` -/

section Model
variable {α : Type} {F : FOps α} {K : Type} [Field K] (L : Lawful F K)

/-- the embedded point with index `j` (zero beyond the end) -/
noncomputable def pt (points : List α) (j : ℕ) : K := L.embed (points.getD j F.zero)

theorem getD_valid {points : List α} (hp : ∀ p ∈ points, L.valid p) (j : ℕ) :
    L.valid (points.getD j F.zero) := by
  rcases Nat.lt_or_ge j points.length with h | h
  · rw [List.getD_eq_getElem _ _ h]; exact hp _ (List.getElem_mem h)
  · rw [List.getD_eq_default _ _ h]; exact L.zero_valid

/-- inner loop: the product of the chosen points -/
theorem inner_fold {points : List α} (hp : ∀ p ∈ points, L.valid p) (combo : List ℕ) (t0 : α)
    (ht0 : L.valid t0) :
    L.valid (combo.foldl (fun t i => F.mul t (points.getD i F.zero)) t0) ∧
    L.embed (combo.foldl (fun t i => F.mul t (points.getD i F.zero)) t0) =
      L.embed t0 * (combo.map (pt L points)).prod := by
  induction combo generalizing t0 with
  | nil => simp [ht0]
  | cons i c ih =>
    have hv := L.mul_valid t0 _ ht0 (getD_valid L hp i)
    obtain ⟨h1, h2⟩ := ih (F.mul t0 (points.getD i F.zero)) hv
    refine ⟨h1, ?_⟩
    simp only [List.foldl_cons, List.map_cons, List.prod_cons]
    rw [h2, L.embed_mul _ _ ht0 (getD_valid L hp i), pt, mul_assoc]

/-- outer loop: sum over the combinations not containing `idx` -/
theorem outer_fold {points : List α} (hp : ∀ p ∈ points, L.valid p)
    (hone : L.valid (F.ofNat 1) ∧ L.embed (F.ofNat 1) = 1) (idx : ℕ)
    (combos : List (List ℕ)) (out0 : α) (hout0 : L.valid out0) :
    L.valid (combos.foldl (fun out combo =>
      if combo.contains idx then out
      else F.add out (combo.foldl (fun t i => F.mul t (points.getD i F.zero)) (F.ofNat 1))) out0) ∧
    L.embed (combos.foldl (fun out combo =>
      if combo.contains idx then out
      else F.add out (combo.foldl (fun t i => F.mul t (points.getD i F.zero)) (F.ofNat 1))) out0) =
      L.embed out0 + ((combos.filter (fun c => !c.contains idx)).map
        (fun c => (c.map (pt L points)).prod)).sum := by
  induction combos generalizing out0 with
  | nil => simp [hout0]
  | cons c cs ih =>
    simp only [List.foldl_cons]
    by_cases hc : c.contains idx = true
    · rw [if_pos hc]
      obtain ⟨h1, h2⟩ := ih out0 hout0
      refine ⟨h1, ?_⟩
      rw [h2, List.filter_cons_of_neg (by simpa using hc)]
    · rw [if_neg hc]
      obtain ⟨i1, i2⟩ := inner_fold L hp c (F.ofNat 1) hone.1
      obtain ⟨h1, h2⟩ := ih _ (L.add_valid _ _ hout0 i1)
      refine ⟨h1, ?_⟩
      rw [h2, List.filter_cons_of_pos (by simpa using hc), L.embed_add _ _ hout0 i1, i2, hone.2]
      simp only [List.map_cons, List.sum_cons, one_mul]
      ring

/-- `coefK` is the coefficient of `X^k` in `∏_{j ≠ idx} (X - p_j)` -/
theorem coefK_spec {points : List α} (hp : ∀ p ∈ points, L.valid p)
    (hone : L.valid (F.ofNat 1) ∧ L.embed (F.ofNat 1) = 1) {idx k : ℕ}
    (hidx : idx < points.length) (hk : k < points.length) :
    L.valid (UPoly.coefK F points idx k) ∧
    L.embed (UPoly.coefK F points idx k) =
      (∏ j ∈ (Finset.range points.length).erase idx, (X - C (pt L points j))).coeff k := by
  have hcard : ((Finset.range points.length).erase idx).card = points.length - 1 := by
    rw [Finset.card_erase_of_mem (Finset.mem_range.2 hidx), Finset.card_range]
  obtain ⟨h1, h2⟩ := outer_fold L hp hone idx
    (Auxmath.combinations points.length (points.length - 1 - k)) F.zero L.zero_valid
  rw [finset_prod_X_sub_C_coeff _ _ (by rw [hcard]; omega), hcard,
    ← combos_sum points.length (points.length - 1 - k) idx (by omega)]
  unfold UPoly.coefK
  simp only []
  rw [L.embed_zero, zero_add] at h2
  split
  · next hodd =>
    refine ⟨L.neg_valid _ h1, ?_⟩
    rw [L.embed_neg _ h1, h2, Odd.neg_one_pow (Nat.odd_iff.2 (by omega))]
    ring
  · next heven =>
    refine ⟨h1, ?_⟩
    rw [h2, Even.neg_one_pow (Nat.even_iff.2 (by omega))]
    ring

/-! ### the loops of `lagrangeBasis` -/

/-- `ignoreIndex` finds the index of `ignore` when it occurs exactly once -/
theorem ignoreIndex_spec (points : List α) (ignore : α) (hp : ∀ p ∈ points, L.valid p)
    (hign : L.valid ignore) {idx : ℕ} (hidx : idx < points.length)
    (hi : points.getD idx F.zero = ignore)
    (huniq : ∀ j, j < points.length → points.getD j F.zero = ignore → j = idx) :
    UPoly.ignoreIndex F points ignore = idx := by
  unfold UPoly.ignoreIndex
  induction points using List.reverseRecOn with
  | nil => simp at hidx
  | append_singleton l a ih =>
    have ha : L.valid a := hp a (by simp)
    rw [List.zipIdx_append, List.foldl_append]
    simp only [List.zipIdx_cons, List.zipIdx_nil, List.foldl_cons, List.foldl_nil, Nat.zero_add]
    rw [List.length_append, List.length_singleton] at hidx huniq
    rcases Nat.lt_or_ge idx l.length with hlt | hge
    · have hne : a ≠ ignore := by
        intro hae
        have := huniq l.length (by omega) (by simp [hae])
        omega
      have hb : F.beq a ignore = false := by
        rw [← Bool.not_eq_true, L.beq_iff a ignore ha hign]; exact hne
      rw [hb]
      simp only [Bool.false_eq_true, if_false]
      refine ih (fun p hp' => hp p (by simp [hp'])) hlt ?_ ?_
      · rw [← hi, List.getD_append _ _ _ _ hlt]
      · intro j hj hje
        exact huniq j (by omega) (by rw [List.getD_append _ _ _ _ hj]; exact hje)
    · have hidx' : idx = l.length := by omega
      have hae : a = ignore := by rw [← hi, hidx']; simp
      have hb : F.beq a ignore = true := (L.beq_iff a ignore ha hign).2 hae
      rw [hb]
      simp [hidx']

/-- the denominator loop: `∏_{j ≠ idx} (ignore - p_j)` -/
theorem denom_fold (points : List α) (ignore : α) (idx : ℕ) (hp : ∀ p ∈ points, L.valid p)
    (hign : L.valid ignore) (e : ℕ → K)
    (he : ∀ j < points.length, e j = L.embed (points.getD j F.zero)) :
    L.valid ((points.zipIdx).foldl
      (fun d (p, i) => if i = idx then d else F.mul d (F.sub ignore p)) F.one) ∧
    L.embed ((points.zipIdx).foldl
      (fun d (p, i) => if i = idx then d else F.mul d (F.sub ignore p)) F.one) =
      ∏ j ∈ (Finset.range points.length).erase idx, (L.embed ignore - e j) := by
  induction points using List.reverseRecOn with
  | nil => simp [L.one_valid, L.embed_one]
  | append_singleton l a ih =>
    have ha : L.valid a := hp a (by simp)
    obtain ⟨h1, h2⟩ := ih (fun p hp' => hp p (by simp [hp'])) (fun j hj => by
      rw [he j (by simp; omega), List.getD_append _ _ _ _ hj])
    have hea : e l.length = L.embed a := by rw [he l.length (by simp)]; simp
    rw [List.zipIdx_append, List.foldl_append]
    simp only [List.zipIdx_cons, List.zipIdx_nil, List.foldl_cons, List.foldl_nil, Nat.zero_add]
    rw [List.length_append, List.length_singleton, Finset.range_add_one]
    by_cases hl : l.length = idx
    · rw [if_pos hl]
      refine ⟨h1, ?_⟩
      have hni : l.length ∉ Finset.range l.length := by simp
      rw [h2, ← hl, Finset.erase_insert hni, Finset.erase_eq_of_notMem hni]
    · rw [if_neg hl]
      have hsv := L.sub_valid _ _ hign ha
      refine ⟨L.mul_valid _ _ h1 hsv, ?_⟩
      rw [L.embed_mul _ _ h1 hsv, L.embed_sub _ _ hign ha, h2,
        Finset.erase_insert_of_ne hl, Finset.prod_insert (by simp), hea, mul_comm]

/-- the coefficient loop -/
theorem coef_fold (c : ℕ → α) (m : ℕ) (hc : ∀ k < m, L.valid (c k)) :
    UPoly.WF L ((List.range m).foldl (fun f k => UPoly.setCoef F f k (c k)) (UPoly.zero F)) ∧
    UPoly.toPoly L ((List.range m).foldl (fun f k => UPoly.setCoef F f k (c k)) (UPoly.zero F)) =
      ∑ k ∈ Finset.range m, monomial k (L.embed (c k)) := by
  induction m with
  | zero => simp [UPoly.wf_zero, UPoly.toPoly_zero]
  | succ m ih =>
    obtain ⟨h1, h2⟩ := ih (fun k hk => hc k (by omega))
    rw [List.range_succ, List.foldl_append]
    simp only [List.foldl_cons, List.foldl_nil]
    refine ⟨UPoly.setCoef_wf L h1 m (hc m (by omega)), ?_⟩
    rw [UPoly.toPoly_setCoef L h1 m (hc m (by omega)), ← UPoly.coeff_toPoly_coef, h2,
      Finset.sum_range_succ]
    have : (∑ k ∈ Finset.range m, monomial k (L.embed (c k))).coeff m = 0 := by
      rw [finsetSum_coeff]
      refine Finset.sum_eq_zero fun k hk => ?_
      rw [coeff_monomial, if_neg (by have := Finset.mem_range.1 hk; omega)]
    rw [this, sub_zero]

/-! ### `lagrangeBasis` -/

theorem pt_injOn {points : List α} (hp : ∀ p ∈ points, L.valid p) (hnd : points.Nodup) :
    Set.InjOn (pt L points) (Finset.range points.length : Set ℕ) := by
  intro i hi j hj hij
  have hi' : i < points.length := by simpa using hi
  have hj' : j < points.length := by simpa using hj
  have := L.inj _ _ (getD_valid L hp i) (getD_valid L hp j) hij
  rw [List.getD_eq_getElem _ _ hi', List.getD_eq_getElem _ _ hj'] at this
  exact (hnd.getElem_inj_iff).1 this

/-- `ignoreIndex` on pairwise distinct points -/
theorem ignoreIndex_nodup {points : List α} (hp : ∀ p ∈ points, L.valid p) (hnd : points.Nodup)
    {idx : ℕ} (hidx : idx < points.length) :
    UPoly.ignoreIndex F points (points.getD idx F.zero) = idx := by
  refine ignoreIndex_spec L points _ hp (getD_valid L hp idx) hidx rfl ?_
  intro j hj hje
  rw [List.getD_eq_getElem _ _ hj, List.getD_eq_getElem _ _ hidx] at hje
  exact (hnd.getElem_inj_iff).1 hje

/-- the coefficients computed by `coefK` are those of the numerator `∏_{j≠idx} (X - p_j)` -/
theorem numer_sum {points : List α} (hp : ∀ p ∈ points, L.valid p)
    (hone : L.valid (F.ofNat 1) ∧ L.embed (F.ofNat 1) = 1) {idx : ℕ}
    (hidx : idx < points.length) :
    ∑ k ∈ Finset.range points.length, monomial k (L.embed (UPoly.coefK F points idx k)) =
      ∏ j ∈ (Finset.range points.length).erase idx, (X - C (pt L points j)) := by
  have hdeg : (∏ j ∈ (Finset.range points.length).erase idx,
      (X - C (pt L points j))).natDegree < points.length := by
    rw [← Lagrange.nodal_eq, Lagrange.natDegree_nodal,
      Finset.card_erase_of_mem (Finset.mem_range.2 hidx), Finset.card_range]
    omega
  conv_rhs => rw [as_sum_range' _ _ hdeg]
  refine Finset.sum_congr rfl fun k hk => ?_
  rw [(coefK_spec L hp hone hidx (Finset.mem_range.1 hk)).2]

/-- the denominator is invertible for pairwise distinct points -/
theorem denom_inv {points : List α} (hp : ∀ p ∈ points, L.valid p) (hnd : points.Nodup) {idx : ℕ}
    (hidx : idx < points.length) :
    ∃ i, F.inv ((points.zipIdx).foldl (fun d (p, i) =>
        if i = idx then d else F.mul d (F.sub (points.getD idx F.zero) p)) F.one) = some i ∧
      L.valid i ∧ L.embed i =
        (∏ j ∈ (Finset.range points.length).erase idx, (pt L points idx - pt L points j))⁻¹ := by
  obtain ⟨d1, d2⟩ := denom_fold L points (points.getD idx F.zero) idx hp (getD_valid L hp idx)
    (pt L points) (fun _ _ => rfl)
  have hd0 : L.embed ((points.zipIdx).foldl
      (fun d (p, i) => if i = idx then d else F.mul d (F.sub (points.getD idx F.zero) p)) F.one)
      ≠ 0 := by
    rw [d2, Finset.prod_ne_zero_iff]
    intro j hj
    rw [Finset.mem_erase] at hj
    intro h0
    exact hj.1 ((pt_injOn L hp hnd (by simpa using hj.2) (by simpa using hidx)
      (sub_eq_zero.1 h0).symm))
  obtain ⟨i, hi1, hi2, hi3⟩ := L.inv_some _ d1 hd0
  exact ⟨i, hi1, hi2, by rw [hi3, d2]; rfl⟩

/-- the closed form is Mathlib's `Lagrange.basis` -/
theorem basis_eq {K : Type} [Field K] (n idx : ℕ) (e : ℕ → K) :
    C (∏ j ∈ (Finset.range n).erase idx, (e idx - e j))⁻¹ *
        ∏ j ∈ (Finset.range n).erase idx, (X - C (e j)) =
      Lagrange.basis (Finset.range n) e idx := by
  rw [Lagrange.basis]
  simp only [Lagrange.basisDivisor]
  rw [Finset.prod_mul_distrib, ← map_prod, Finset.prod_inv_distrib]

theorem lagrangeBasis_spec {points : List α} (hp : ∀ p ∈ points, L.valid p)
    (hone : L.valid (F.ofNat 1) ∧ L.embed (F.ofNat 1) = 1) (hnd : points.Nodup) {idx : ℕ}
    (hidx : idx < points.length) :
    UPoly.WF L (UPoly.lagrangeBasis F points (points.getD idx F.zero)) ∧
    UPoly.toPoly L (UPoly.lagrangeBasis F points (points.getD idx F.zero)) =
      C (∏ j ∈ (Finset.range points.length).erase idx, (pt L points idx - pt L points j))⁻¹ *
        ∏ j ∈ (Finset.range points.length).erase idx, (X - C (pt L points j)) := by
  obtain ⟨c1, c2⟩ := coef_fold L (fun k => UPoly.coefK F points idx k) points.length
    (fun k hk => (coefK_spec L hp hone hidx hk).1)
  obtain ⟨i, hi1, hi2, hi3⟩ := denom_inv L hp hnd hidx
  unfold UPoly.lagrangeBasis
  simp only []
  rw [ignoreIndex_nodup L hp hnd hidx, hi1]
  simp only []
  refine ⟨UPoly.scale_wf L c1 hi2, ?_⟩
  rw [UPoly.toPoly_scale L c1.1 hi2, c2, numer_sum L hp hone hidx, hi3]

/-- the model's basis polynomial is Mathlib's `Lagrange.basis` -/
theorem lagrangeBasis_eq_basis {points : List α} (hp : ∀ p ∈ points, L.valid p)
    (hone : L.valid (F.ofNat 1) ∧ L.embed (F.ofNat 1) = 1) (hnd : points.Nodup) {idx : ℕ}
    (hidx : idx < points.length) :
    UPoly.toPoly L (UPoly.lagrangeBasis F points (points.getD idx F.zero)) =
      Lagrange.basis (Finset.range points.length) (pt L points) idx := by
  rw [(lagrangeBasis_spec L hp hone hnd hidx).2, basis_eq]

/-! ### `allDistinct` and the main loop of `interpolate` -/

theorem allDistinct_iff (points : List α) :
    UPoly.allDistinct F points = true ↔ (points.map F.toStr).Nodup := by
  unfold UPoly.allDistinct
  simp only [beq_iff_eq]
  rw [eq_comm, eraseDups_length_eq_iff]

theorem allDistinct_iff_nodup {points : List α} (hp : ∀ p ∈ points, L.valid p)
    (htoStr : ∀ a b, L.valid a → L.valid b → (F.toStr a = F.toStr b ↔ a = b)) :
    UPoly.allDistinct F points = true ↔ points.Nodup := by
  rw [allDistinct_iff]
  constructor
  · exact List.Nodup.of_map _
  · exact List.Nodup.map_on fun x hx y hy h => (htoStr x y (hp x hx) (hp y hy)).1 h

theorem interp_fold {points values : List α} (hp : ∀ p ∈ points, L.valid p)
    (hv : ∀ v ∈ values, L.valid v) (hone : L.valid (F.ofNat 1) ∧ L.embed (F.ofNat 1) = 1)
    (hnd : points.Nodup) (hlen : points.length = values.length) (m : ℕ)
    (hm : m ≤ points.length) :
    UPoly.WF L (((points.zip values).take m).foldl (fun f (p, v) =>
      if F.isZero v then f
      else UPoly.add F f (UPoly.scale F (UPoly.lagrangeBasis F points p) v)) (UPoly.zero F)) ∧
    UPoly.toPoly L (((points.zip values).take m).foldl (fun f (p, v) =>
      if F.isZero v then f
      else UPoly.add F f (UPoly.scale F (UPoly.lagrangeBasis F points p) v)) (UPoly.zero F)) =
      ∑ i ∈ Finset.range m, C (L.embed (values.getD i F.zero)) *
        Lagrange.basis (Finset.range points.length) (pt L points) i := by
  induction m with
  | zero => simp [UPoly.wf_zero, UPoly.toPoly_zero]
  | succ m ih =>
    obtain ⟨h1, h2⟩ := ih (by omega)
    have hmp : m < points.length := by omega
    have hmv : m < values.length := by omega
    have hmz : m < (points.zip values).length := by simp; omega
    have hvm : L.valid values[m] := hv _ (List.getElem_mem hmv)
    rw [List.take_succ_eq_append_getElem hmz, List.foldl_append, List.getElem_zip]
    simp only [List.foldl_cons, List.foldl_nil]
    rw [Finset.sum_range_succ, List.getD_eq_getElem _ _ hmv]
    split
    · next hz =>
      refine ⟨h1, ?_⟩
      rw [h2, (L.isZero_iff _ hvm).1 hz]
      simp
    · next hz =>
      have hb := lagrangeBasis_spec L hp hone hnd hmp
      rw [List.getD_eq_getElem _ _ hmp] at hb
      have hbe := lagrangeBasis_eq_basis L hp hone hnd hmp
      rw [List.getD_eq_getElem _ _ hmp] at hbe
      have hs := UPoly.scale_wf L hb.1 hvm
      refine ⟨UPoly.add_wf L h1 hs.1, ?_⟩
      rw [UPoly.toPoly_add L h1 hs.1, UPoly.toPoly_scale L hb.1.1 hvm, h2, hbe]

end Model

/-! ### bivariate: `BPoly.lagrangeBasis` -/

section Biv
open AddMonoidAlgebra (single)
variable {α : Type} {F : FOps α} {K : Type} [Field K] (L : Lawful F K)

/-- exponent pair of the `k`-th power of variable `v` (0 = X, otherwise Y) -/
def dg (v k : ℕ) : Deg := if v = 0 then (k, 0) else (0, k)

theorem dg_inj (v : ℕ) {k l : ℕ} (h : dg v k = dg v l) : k = l := by
  unfold dg at h
  split at h <;> simp at h <;> exact h

theorem KeysIn_mono {P Q : Deg → Prop} {f : BPoly α} (h : BPoly.KeysIn P f)
    (hPQ : ∀ d, P d → Q d) : BPoly.KeysIn Q f := fun e he => hPQ e (h e he)

/-- the coefficient loop of the bivariate `lagrangeBasis` -/
theorem bcoef_fold (v : ℕ) (c : ℕ → α) (m : ℕ) (hc : ∀ k < m, L.valid (c k)) :
    BPoly.WF L ((List.range m).foldl (fun f k =>
      BPoly.setCoef F f (if v = 0 then (k, 0) else (0, k)) (c k)) []) ∧
    BPoly.KeysIn (fun d => ∃ k < m, d = dg v k) ((List.range m).foldl (fun f k =>
      BPoly.setCoef F f (if v = 0 then (k, 0) else (0, k)) (c k)) []) ∧
    BPoly.toMv L ((List.range m).foldl (fun f k =>
      BPoly.setCoef F f (if v = 0 then (k, 0) else (0, k)) (c k)) []) =
      ∑ k ∈ Finset.range m, single (dg v k) (L.embed (c k)) := by
  induction m with
  | zero => exact ⟨BPoly.WF_nil L, BPoly.KeysIn_nil _, by simp⟩
  | succ m ih =>
    obtain ⟨h1, h2, h3⟩ := ih (fun k hk => hc k (by omega))
    rw [List.range_succ, List.foldl_append]
    simp only [List.foldl_cons, List.foldl_nil]
    have hcm := hc m (by omega)
    have hnot : dg v m ∉ BPoly.keys ((List.range m).foldl (fun f k =>
        BPoly.setCoef F f (if v = 0 then (k, 0) else (0, k)) (c k)) []) := by
      intro hmem
      obtain ⟨k, hk, hkd⟩ := h2 _ hmem
      have := dg_inj v hkd
      omega
    refine ⟨BPoly.WF_setCoef L h1 _ hcm, ?_, ?_⟩
    · exact BPoly.KeysIn_setCoef (KeysIn_mono h2 fun d ⟨k, hk, hd⟩ => ⟨k, by omega, hd⟩)
        ⟨m, by omega, rfl⟩ _
    · rw [BPoly.toMv_setCoef L h1 _ hcm, h3, Finset.sum_range_succ]
      show _ + single (dg v m) (L.embed (c m) - L.embed (BPoly.coef F _ (dg v m))) = _
      rw [BPoly.coef_of_not_mem hnot, L.embed_zero, sub_zero]

theorem blagrangeBasis_spec {points : List α} (hp : ∀ p ∈ points, L.valid p)
    (hone : L.valid (F.ofNat 1) ∧ L.embed (F.ofNat 1) = 1) (hnd : points.Nodup) {idx : ℕ}
    (hidx : idx < points.length) (v : ℕ) :
    BPoly.WF L (BPoly.lagrangeBasis F points (points.getD idx F.zero) v) ∧
    BPoly.KeysIn (fun d => ∃ k < points.length, d = dg v k)
      (BPoly.lagrangeBasis F points (points.getD idx F.zero) v) ∧
    BPoly.toMv L (BPoly.lagrangeBasis F points (points.getD idx F.zero) v) =
      single 0 (∏ j ∈ (Finset.range points.length).erase idx,
          (pt L points idx - pt L points j))⁻¹ *
        ∑ k ∈ Finset.range points.length,
          single (dg v k) (L.embed (UPoly.coefK F points idx k)) := by
  obtain ⟨c1, c2, c3⟩ := bcoef_fold L v (fun k => UPoly.coefK F points idx k) points.length
    (fun k hk => (coefK_spec L hp hone hidx hk).1)
  obtain ⟨i, hi1, hi2, hi3⟩ := denom_inv L hp hnd hidx
  unfold BPoly.lagrangeBasis
  simp only []
  rw [ignoreIndex_nodup L hp hnd hidx, hi1]
  simp only []
  refine ⟨BPoly.WF_scale L c1 hi2, BPoly.KeysIn_scale c2 _, ?_⟩
  rw [BPoly.toMv_scale L c1.cv hi2, c3, hi3]

/-- evaluating the bivariate basis polynomial: Mathlib's `Lagrange.basis` in the chosen variable -/
theorem evalHom_blagrangeBasis {points : List α} (hp : ∀ p ∈ points, L.valid p)
    (hone : L.valid (F.ofNat 1) ∧ L.embed (F.ofNat 1) = 1) (hnd : points.Nodup) {idx : ℕ}
    (hidx : idx < points.length) (v : ℕ) (x y : K) :
    BPoly.evalHom x y (BPoly.toMv L (BPoly.lagrangeBasis F points (points.getD idx F.zero) v)) =
      (Lagrange.basis (Finset.range points.length) (pt L points) idx).eval
        (if v = 0 then x else y) := by
  rw [(blagrangeBasis_spec L hp hone hnd hidx v).2.2, ← basis_eq, ← numer_sum L hp hone hidx,
    map_mul, map_sum, BPoly.evalHom_single, eval_mul, eval_C, eval_finsetSum]
  simp only [BPoly.evalHom_single, eval_monomial]
  congr 1
  · simp
  · refine Finset.sum_congr rfl fun k _ => ?_
    unfold dg
    split <;> simp

/-! ### bivariate: `distinctStrs`, the step of `BPoly.interpolate` -/

/-- value of the basis polynomial at a node -/
theorem evalHom_blagrangeBasis_node {points : List α} (hp : ∀ p ∈ points, L.valid p)
    (hone : L.valid (F.ofNat 1) ∧ L.embed (F.ofNat 1) = 1) (hnd : points.Nodup) {i j : ℕ}
    (hi : i < points.length) (hj : j < points.length) (v : ℕ) (x y : K)
    (hz : (if v = 0 then x else y) = pt L points j) :
    BPoly.evalHom x y (BPoly.toMv L (BPoly.lagrangeBasis F points (points.getD i F.zero) v)) =
      if i = j then 1 else 0 := by
  rw [evalHom_blagrangeBasis L hp hone hnd hi, hz]
  split
  · next h =>
    subst h
    exact Lagrange.eval_basis_self (pt_injOn L hp hnd) (Finset.mem_range.2 hi)
  · next h => exact Lagrange.eval_basis_of_ne h (Finset.mem_range.2 hj)

theorem distinctStrs_aux
    (htoStr : ∀ a b, L.valid a → L.valid b → (F.toStr a = F.toStr b ↔ a = b))
    (xs acc : List α) (hxs : ∀ x ∈ xs, L.valid x) (hacc : ∀ x ∈ acc, L.valid x)
    (hnd : acc.Nodup) :
    (xs.foldl (fun acc x =>
      if acc.any (fun y => F.toStr y == F.toStr x) then acc else acc ++ [x]) acc).Nodup ∧
    ∀ a, a ∈ xs.foldl (fun acc x =>
      if acc.any (fun y => F.toStr y == F.toStr x) then acc else acc ++ [x]) acc ↔
      a ∈ acc ∨ a ∈ xs := by
  induction xs generalizing acc with
  | nil => simp [hnd]
  | cons x t ih =>
    have hx : L.valid x := hxs x (by simp)
    have ht : ∀ y ∈ t, L.valid y := fun y hy => hxs y (by simp [hy])
    have hany : acc.any (fun y => F.toStr y == F.toStr x) = true ↔ x ∈ acc := by
      rw [List.any_eq_true]
      constructor
      · rintro ⟨y, hy, hyx⟩
        have := (htoStr y x (hacc y hy) hx).1 (by simpa using hyx)
        exact this ▸ hy
      · intro h; exact ⟨x, h, by simp⟩
    rw [List.foldl_cons]
    by_cases hm : x ∈ acc
    · rw [if_pos (hany.2 hm)]
      obtain ⟨h1, h2⟩ := ih acc ht hacc hnd
      refine ⟨h1, fun a => ?_⟩
      rw [h2, List.mem_cons]
      constructor
      · rintro (h | h); exact Or.inl h; exact Or.inr (Or.inr h)
      · rintro (h | h | h); exact Or.inl h; exact Or.inl (h ▸ hm); exact Or.inr h
    · rw [if_neg (fun h => hm (hany.1 h))]
      obtain ⟨h1, h2⟩ := ih (acc ++ [x]) ht
        (fun y hy => by
          rcases List.mem_append.1 hy with h | h
          · exact hacc y h
          · rw [List.mem_singleton.1 h]; exact hx)
        (by
          rw [List.nodup_append]
          refine ⟨hnd, by simp, ?_⟩
          intro a ha b hb
          rw [List.mem_singleton.1 hb]
          exact fun hab => hm (hab ▸ ha))
      refine ⟨h1, fun a => ?_⟩
      rw [h2, List.mem_append, List.mem_singleton, List.mem_cons, or_assoc]

/-- `distinct`: the list of distinct coordinates — no repetition, same members -/
theorem distinctStrs_spec
    (htoStr : ∀ a b, L.valid a → L.valid b → (F.toStr a = F.toStr b ↔ a = b))
    (xs : List α) (hxs : ∀ x ∈ xs, L.valid x) :
    (BPoly.distinctStrs F xs).Nodup ∧ (∀ a, a ∈ BPoly.distinctStrs F xs ↔ a ∈ xs) ∧
    (BPoly.distinctStrs F xs).length ≤ xs.length := by
  obtain ⟨h1, h2⟩ := distinctStrs_aux L htoStr xs [] hxs (by simp) List.nodup_nil
  have h3 : ∀ a, a ∈ BPoly.distinctStrs F xs ↔ a ∈ xs := fun a => by
    unfold BPoly.distinctStrs; rw [h2]; simp
  exact ⟨h1, h3, (List.Nodup.subperm h1 (fun a ha => (h3 a).1 ha)).length_le⟩

/-- one round of the loop of `BPoly.interpolate` (the model's lambda, named) -/
def istep (R : BPoly.Ring α) (dx dy : List α) (acc : Except Kind (Option (BPoly α)))
    (pv : (α × α) × α) : Except Kind (Option (BPoly α)) :=
  match acc with
  | .error k => .error k
  | .ok none => .ok none
  | .ok (some f) =>
    if R.F.isZero pv.2 then .ok (some f)
    else
      let one : BPoly α := BPoly.setCoef R.F [] (0, 0) R.F.one
      match BPoly.times R one (BPoly.lagrangeBasis R.F dx pv.1.1 0) with
      | .error k => .error k
      | .ok none => .ok none
      | .ok (some t1) =>
        match BPoly.times R t1 (BPoly.lagrangeBasis R.F dy pv.1.2 1) with
        | .error k => .error k
        | .ok none => .ok none
        | .ok (some t2) => .ok (some (BPoly.add R.F f (BPoly.scale R.F t2 pv.2)))

theorem interpolate_eq (R : BPoly.Ring α) (points : List (α × α)) (values : List α) :
    BPoly.interpolate R points values =
      if points.length ≠ values.length then .error .inputValue
      else if !BPoly.allDistinct R.F points then .error .inputValue
      else (points.zip values).foldl
        (istep R (BPoly.distinctStrs R.F (points.map (·.1)))
          (BPoly.distinctStrs R.F (points.map (·.2)))) (.ok (some [])) := rfl

theorem times_ok {R : BPoly.Ring α} (hR : R.ideal = none) {f g h : BPoly α}
    (e : BPoly.mulNoReduce R.F f g = some h) : BPoly.times R f g = .ok (some h) := by
  unfold BPoly.times BPoly.reduceIn
  rw [e, hR]

/-- the contribution of one point to the interpolant -/
noncomputable def bterm (dx dy : List α) (p : α × α) (v : α) : AddMonoidAlgebra K (ℕ × ℕ) :=
  single 0 (L.embed v) * (BPoly.toMv L (BPoly.lagrangeBasis F dx p.1 0) *
    BPoly.toMv L (BPoly.lagrangeBasis F dy p.2 1))

include L in
theorem setCoef_one : BPoly.setCoef F ([] : BPoly α) (0, 0) F.one = [((0, 0), F.one)] := by
  unfold BPoly.setCoef
  rw [if_neg]
  · rfl
  · rw [L.isZero_iff _ L.one_valid, L.embed_one]; exact one_ne_zero

end Biv

section BivStep
open AddMonoidAlgebra (single)
variable {α : Type} {K : Type} [Field K]

theorem istep_spec {R : BPoly.Ring α} (hR : R.ideal = none) (L : Lawful R.F K) {dx dy : List α}
    (hdx : ∀ a ∈ dx, L.valid a) (hdxn : dx.Nodup) (hdy : ∀ a ∈ dy, L.valid a) (hdyn : dy.Nodup)
    (hone : L.valid (R.F.ofNat 1) ∧ L.embed (R.F.ofNat 1) = 1)
    (hlx : dx.length < 2 ^ 64) (hly : dy.length < 2 ^ 64) {f : BPoly α} (hf : BPoly.WF L f)
    (hk : BPoly.KeysIn (fun d => d.1 < dx.length ∧ d.2 < dy.length) f) {p : α × α} {v : α}
    (hpx : p.1 ∈ dx) (hpy : p.2 ∈ dy) (hv : L.valid v) :
    ∃ f', istep R dx dy (.ok (some f)) (p, v) = .ok (some f') ∧ BPoly.WF L f' ∧
      BPoly.KeysIn (fun d => d.1 < dx.length ∧ d.2 < dy.length) f' ∧
      BPoly.toMv L f' = BPoly.toMv L f + bterm L dx dy p v := by
  unfold istep
  simp only []
  by_cases hz : R.F.isZero v = true
  · rw [if_pos hz]
    refine ⟨f, rfl, hf, hk, ?_⟩
    rw [bterm, (L.isZero_iff v hv).1 hz]
    simp
  · rw [if_neg hz, setCoef_one L]
    obtain ⟨ix, hix, hixe⟩ := List.getElem_of_mem hpx
    obtain ⟨iy, hiy, hiye⟩ := List.getElem_of_mem hpy
    have hpx' : p.1 = dx.getD ix R.F.zero := by rw [List.getD_eq_getElem _ _ hix, hixe]
    have hpy' : p.2 = dy.getD iy R.F.zero := by rw [List.getD_eq_getElem _ _ hiy, hiye]
    obtain ⟨wx, kx, _⟩ := blagrangeBasis_spec L hdx hone hdxn hix 0
    obtain ⟨wy, ky, _⟩ := blagrangeBasis_spec L hdy hone hdyn hiy 1
    rw [← hpx'] at wx kx
    rw [← hpy'] at wy ky
    -- first product
    have hno1 : ¬ BPoly.Ovf [((0, 0), R.F.one)] (BPoly.lagrangeBasis R.F dx p.1 0) := by
      rintro ⟨x, hx, y, hy, hov⟩
      rw [List.mem_singleton] at hx
      obtain ⟨k, hk', hkd⟩ := kx y.1 (List.mem_map.2 ⟨y, hy, rfl⟩)
      apply hov
      rw [hx, hkd]
      unfold BPoly.NoOvf dg
      simp
      omega
    obtain ⟨t1, e1, w1, m1⟩ := BPoly.mulNoReduce_some L (BPoly.WF_one L).cv wx.cv hno1
    have k1 : BPoly.KeysIn (fun d => d.1 < dx.length ∧ d.2 = 0) t1 := by
      refine BPoly.KeysIn_mulNoReduce (fun a ha b hb s hs => ?_) e1
      simp only [BPoly.keys, List.map_cons, List.map_nil, List.mem_singleton] at ha
      obtain ⟨k, hk', hkd⟩ := kx b hb
      subst ha hkd
      rw [BPoly.addDegs_of_noOvf (by unfold BPoly.NoOvf dg; simp; omega)] at hs
      cases hs
      simp [dg, hk']
    rw [times_ok hR e1]
    simp only []
    -- second product
    have hno2 : ¬ BPoly.Ovf t1 (BPoly.lagrangeBasis R.F dy p.2 1) := by
      rintro ⟨x, hx, y, hy, hov⟩
      obtain ⟨k, hk', hkd⟩ := ky y.1 (List.mem_map.2 ⟨y, hy, rfl⟩)
      have := k1 x.1 (List.mem_map.2 ⟨x, hx, rfl⟩)
      apply hov
      rw [hkd]
      unfold BPoly.NoOvf dg
      simp
      omega
    obtain ⟨t2, e2, w2, m2⟩ := BPoly.mulNoReduce_some L w1.cv wy.cv hno2
    have k2 : BPoly.KeysIn (fun d => d.1 < dx.length ∧ d.2 < dy.length) t2 := by
      refine BPoly.KeysIn_mulNoReduce (fun a ha b hb s hs => ?_) e2
      obtain ⟨k, hk', hkd⟩ := ky b hb
      have h1 := k1 a ha
      subst hkd
      rw [BPoly.addDegs_of_noOvf (by unfold BPoly.NoOvf dg; simp; omega)] at hs
      cases hs
      simp [dg, hk', h1.1, h1.2]
    rw [times_ok hR e2]
    simp only []
    have ws := BPoly.WF_scale L w2 hv
    refine ⟨_, rfl, BPoly.WF_add L hf ws.cv, BPoly.KeysIn_add hk (BPoly.KeysIn_scale k2 v), ?_⟩
    rw [BPoly.toMv_add L hf ws.cv, BPoly.toMv_scale L w2.cv hv, m2, m1, BPoly.toMv_one, one_mul,
      bterm]

end BivStep

section Biv2
open AddMonoidAlgebra (single)
variable {α : Type} {F : FOps α} {K : Type} [Field K] (L : Lawful F K)

/-- value of the basis polynomial for node `a` at node `b` (both among the distinct points) -/
theorem evalHom_blagrangeBasis_mem {points : List α} (hp : ∀ p ∈ points, L.valid p)
    (hone : L.valid (F.ofNat 1) ∧ L.embed (F.ofNat 1) = 1) (hnd : points.Nodup) {a b : α}
    (ha : a ∈ points) (hb : b ∈ points) (v : ℕ) (x y : K)
    (hz : (if v = 0 then x else y) = L.embed b) :
    (a = b → BPoly.evalHom x y (BPoly.toMv L (BPoly.lagrangeBasis F points a v)) = 1) ∧
    (a ≠ b → BPoly.evalHom x y (BPoly.toMv L (BPoly.lagrangeBasis F points a v)) = 0) := by
  obtain ⟨i, hi, hie⟩ := List.getElem_of_mem ha
  obtain ⟨j, hj, hje⟩ := List.getElem_of_mem hb
  have ha' : a = points.getD i F.zero := by rw [List.getD_eq_getElem _ _ hi, hie]
  have hz' : (if v = 0 then x else y) = pt L points j := by
    rw [hz, pt, List.getD_eq_getElem _ _ hj, hje]
  have := evalHom_blagrangeBasis_node L hp hone hnd hi hj v x y hz'
  rw [← ha'] at this
  rw [this]
  constructor
  · intro hab
    have : i = j := (hnd.getElem_inj_iff).1 (by rw [hie, hje, hab])
    rw [if_pos this]
  · intro hab
    have : i ≠ j := by
      rintro rfl
      exact hab (hie.symm.trans hje)
    rw [if_neg this]

/-- value of one term of the interpolant at a point of the grid -/
theorem evalHom_bterm {dx dy : List α} (hdx : ∀ a ∈ dx, L.valid a) (hdxn : dx.Nodup)
    (hdy : ∀ a ∈ dy, L.valid a) (hdyn : dy.Nodup)
    (hone : L.valid (F.ofNat 1) ∧ L.embed (F.ofNat 1) = 1) {p q : α × α}
    (hpx : p.1 ∈ dx) (hpy : p.2 ∈ dy) (hqx : q.1 ∈ dx) (hqy : q.2 ∈ dy) (v : α) :
    (p = q → BPoly.evalHom (L.embed q.1) (L.embed q.2) (bterm L dx dy p v) = L.embed v) ∧
    (p ≠ q → BPoly.evalHom (L.embed q.1) (L.embed q.2) (bterm L dx dy p v) = 0) := by
  obtain ⟨x1, x0⟩ := evalHom_blagrangeBasis_mem L hdx hone hdxn hpx hqx 0
    (L.embed q.1) (L.embed q.2) (by simp)
  obtain ⟨y1, y0⟩ := evalHom_blagrangeBasis_mem L hdy hone hdyn hpy hqy 1
    (L.embed q.1) (L.embed q.2) (by simp)
  have hb : BPoly.evalHom (L.embed q.1) (L.embed q.2) (bterm L dx dy p v) =
      L.embed v * (BPoly.evalHom (L.embed q.1) (L.embed q.2)
          (BPoly.toMv L (BPoly.lagrangeBasis F dx p.1 0)) *
        BPoly.evalHom (L.embed q.1) (L.embed q.2)
          (BPoly.toMv L (BPoly.lagrangeBasis F dy p.2 1))) := by
    rw [bterm, map_mul, map_mul, BPoly.evalHom_single]
    simp
  rw [hb]
  constructor
  · intro hpq
    rw [x1 (by rw [hpq]), y1 (by rw [hpq])]
    ring
  · intro hpq
    by_cases h1 : p.1 = q.1
    · have h2 : p.2 ≠ q.2 := fun h2 => hpq (Prod.ext h1 h2)
      rw [y0 h2]; ring
    · rw [x0 h1]; ring

theorem ballDistinct_iff (points : List (α × α)) :
    BPoly.allDistinct F points = true ↔
      (points.map fun (x, y) => (F.toStr x, F.toStr y)).Nodup := by
  unfold BPoly.allDistinct
  simp only [beq_iff_eq]
  rw [eq_comm, eraseDups_length_eq_iff]

theorem ballDistinct_iff_nodup {points : List (α × α)}
    (hp : ∀ p ∈ points, L.valid p.1 ∧ L.valid p.2)
    (htoStr : ∀ a b, L.valid a → L.valid b → (F.toStr a = F.toStr b ↔ a = b)) :
    BPoly.allDistinct F points = true ↔ points.Nodup := by
  rw [ballDistinct_iff]
  constructor
  · exact List.Nodup.of_map _
  · refine List.Nodup.map_on fun x hx y hy h => ?_
    simp only [Prod.mk.injEq] at h
    exact Prod.ext ((htoStr _ _ (hp x hx).1 (hp y hy).1).1 h.1)
      ((htoStr _ _ (hp x hx).2 (hp y hy).2).1 h.2)

end Biv2


section BivFold
open AddMonoidAlgebra (single)
variable {α : Type} {K : Type} [Field K]

theorem binterp_fold {R : BPoly.Ring α} (hR : R.ideal = none) (L : Lawful R.F K) {dx dy : List α}
    (hdx : ∀ a ∈ dx, L.valid a) (hdxn : dx.Nodup) (hdy : ∀ a ∈ dy, L.valid a) (hdyn : dy.Nodup)
    (hone : L.valid (R.F.ofNat 1) ∧ L.embed (R.F.ofNat 1) = 1)
    (hlx : dx.length < 2 ^ 64) (hly : dy.length < 2 ^ 64)
    {points : List (α × α)} {values : List α} (hpx : ∀ p ∈ points, p.1 ∈ dx)
    (hpy : ∀ p ∈ points, p.2 ∈ dy) (hv : ∀ v ∈ values, L.valid v)
    (hlen : points.length = values.length) (m : ℕ) (hm : m ≤ points.length) :
    ∃ f, ((points.zip values).take m).foldl (istep R dx dy) (.ok (some [])) = .ok (some f) ∧
      BPoly.WF L f ∧ BPoly.KeysIn (fun d => d.1 < dx.length ∧ d.2 < dy.length) f ∧
      BPoly.toMv L f = ∑ i ∈ Finset.range m,
        bterm L dx dy (points.getD i (R.F.zero, R.F.zero)) (values.getD i R.F.zero) := by
  induction m with
  | zero => exact ⟨[], rfl, BPoly.WF_nil L, BPoly.KeysIn_nil _, by simp⟩
  | succ m ih =>
    obtain ⟨f, h0, h1, h2, h3⟩ := ih (by omega)
    have hmp : m < points.length := by omega
    have hmv : m < values.length := by omega
    have hmz : m < (points.zip values).length := by simp; omega
    rw [List.take_succ_eq_append_getElem hmz, List.foldl_append, List.getElem_zip, h0]
    simp only [List.foldl_cons, List.foldl_nil]
    obtain ⟨f', e, w, k, t⟩ := istep_spec hR L hdx hdxn hdy hdyn hone hlx hly h1 h2
      (hpx _ (List.getElem_mem hmp)) (hpy _ (List.getElem_mem hmp)) (hv _ (List.getElem_mem hmv))
    refine ⟨f', e, w, k, ?_⟩
    rw [t, h3, Finset.sum_range_succ, List.getD_eq_getElem _ _ hmp, List.getD_eq_getElem _ _ hmv]

end BivFold

end Interp
end Algobra
