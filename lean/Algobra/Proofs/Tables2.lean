/-
  Proofs/Tables2.lean — C18, polynomial layer: every univariate model function `UPoly.f F args`
  uses the record `F` only through its operations ("parametricity").  For two records with
  `OpsAgree F F' V` and `Closed F V`, and arguments all of whose coefficients satisfy `V`:
    (congruence)  `UPoly.f F' args = UPoly.f F args`,
    (closure)     all coefficients of `UPoly.f F args` satisfy `V`.
  Then the lifting to `step` / `runOps` of Model/Hist.lean for the element-level and the univariate
  operations.
-/
import Algobra.Proofs.Tables

namespace Algobra
namespace Tables
open UPoly

/-- all coefficients of a univariate polynomial satisfy `V` -/
def AllV {α : Type} (V : α → Prop) (f : List α) : Prop := ∀ c ∈ f, V c

/-- … of an optional result -/
def OptV {α : Type} (V : α → Prop) (o : Option (List α)) : Prop := ∀ v, o = some v → AllV V v

section Par
variable {α : Type} {F F' : FOps α} {V : α → Prop}

theorem foldl_par {β γ : Type} (P : β → Prop) (Q : γ → Prop) (st st' : β → γ → β)
    (h : ∀ acc x, P acc → Q x → st' acc x = st acc x ∧ P (st acc x)) :
    ∀ (l : List γ) (init : β), (∀ x ∈ l, Q x) → P init →
      l.foldl st' init = l.foldl st init ∧ P (l.foldl st init) := by
  intro l
  induction l with
  | nil => intro init _ hi; exact ⟨rfl, hi⟩
  | cons x t ih =>
    intro init hl hi
    obtain ⟨e, hp⟩ := h init x hi (hl x List.mem_cons_self)
    simp only [List.foldl_cons, e]
    exact ih _ (fun y hy => hl y (List.mem_cons_of_mem _ hy)) hp

theorem foldCoefs_par {β : Type} (P : β → Prop) (st st' : β → Nat → α → β)
    (h : ∀ acc i c, P acc → V c → st' acc i c = st acc i c ∧ P (st acc i c))
    (g : UPoly α) (init : β) (hg : AllV V g) (hi : P init) :
    foldCoefs g init st' = foldCoefs g init st ∧ P (foldCoefs g init st) := by
  unfold foldCoefs
  exact foldl_par P (fun x : α × Nat => V x.1) _ _ (fun acc x hp hx => h acc x.2 x.1 hp hx) _ _
    (fun x hx => hg _ (List.fst_mem_of_mem_zipIdx hx)) hi

theorem AllV.getD {f : List α} (hf : AllV V f) {z : α} (hz : V z) (d : Nat) : V (f.getD d z) := by
  rw [List.getD_eq_getElem?_getD]
  cases h : f[d]? with
  | none => exact hz
  | some c => exact hf c (List.mem_of_getElem? h)

theorem AllV.set {f : List α} (hf : AllV V f) {v : α} (hv : V v) (d : Nat) : AllV V (f.set d v) := by
  intro c hc
  rcases List.mem_or_eq_of_mem_set hc with h | rfl
  · exact hf c h
  · exact hv

theorem AllV.append {f g : List α} (hf : AllV V f) (hg : AllV V g) : AllV V (f ++ g) := by
  intro c hc
  rcases List.mem_append.1 hc with h | h
  · exact hf c h
  · exact hg c h

theorem AllV.single {v : α} (hv : V v) : AllV V [v] := by
  intro c hc
  rw [List.mem_singleton] at hc
  exact hc ▸ hv

variable (hA : OpsAgree F F' V) (hC : Closed F V)
include hA

theorem isZero_congr (f : UPoly α) : isZero F' f = isZero F f := by
  unfold isZero; rw [hA.isZero]

theorem isOne_congr (f : UPoly α) : isOne F' f = isOne F f := by
  unfold isOne; rw [hA.isOne]

theorem coef_congr (f : UPoly α) (d : Nat) : coef F' f d = coef F f d := by
  unfold coef; rw [hA.zero]

theorem lc_congr (f : UPoly α) : lc F' f = lc F f := by
  unfold lc; rw [coef_congr hA]

theorem zero_congr : UPoly.zero F' = UPoly.zero F := by
  unfold UPoly.zero; rw [hA.zero]

theorem one_congr : UPoly.one F' = UPoly.one F := by
  unfold UPoly.one; rw [hA.one]

theorem dropTrailingZeros_congr (f : List α) : dropTrailingZeros F' f = dropTrailingZeros F f := by
  induction f with
  | nil => rfl
  | cons c t ih => simp only [dropTrailingZeros, ih, hA.isZero]

theorem trim_congr (f : UPoly α) : trim F' f = trim F f := by
  unfold trim; rw [dropTrailingZeros_congr hA, hA.zero]

theorem extend_congr (f : UPoly α) (d : Nat) (v : α) : extend F' f d v = extend F f d v := by
  unfold extend; rw [hA.zero]

theorem degrees_congr (f : UPoly α) : degrees F' f = degrees F f := by
  unfold degrees; rw [hA.isZero]

theorem nTerms_congr (f : UPoly α) : UPoly.nTerms F' f = UPoly.nTerms F f := by
  unfold UPoly.nTerms; rw [isZero_congr hA, degrees_congr hA]

theorem isMonomial_congr (f : UPoly α) : isMonomial F' f = isMonomial F f := by
  unfold isMonomial; rw [degrees_congr hA]

theorem equal_congr (f g : UPoly α) : equal F' f g = equal F f g := by
  unfold equal; rw [hA.beq]

theorem toStr_congr (v : String) (f : UPoly α) : UPoly.toStr F' v f = UPoly.toStr F v f := by
  unfold UPoly.toStr
  simp only [isZero_congr hA, degrees_congr hA, coef_congr hA, hA.isOne, hA.nTerms, hA.toStr]

theorem removeCoef_congr (f : UPoly α) (d : Nat) : removeCoef F' f d = removeCoef F f d := by
  unfold removeCoef; rw [trim_congr hA, hA.zero]

omit hA in
theorem dropTrailingZeros_mem (f : List α) : ∀ c ∈ dropTrailingZeros F f, c ∈ f := by
  induction f with
  | nil => intro c hc; exact hc
  | cons x t ih =>
    intro c hc
    simp only [dropTrailingZeros] at hc
    split at hc
    · split at hc
      · cases hc
      · rw [List.mem_singleton] at hc; subst hc; exact List.mem_cons_self
    · next h =>
      rcases List.mem_cons.1 hc with rfl | h'
      · exact List.mem_cons_self
      · exact List.mem_cons_of_mem _ (ih c h')

omit hA in
include hC in
theorem trim_V {f : UPoly α} (hf : AllV V f) : AllV V (trim F f) := by
  unfold trim
  split
  · apply AllV.single
    cases f with
    | nil => exact hC.zero
    | cons x t => exact hf x List.mem_cons_self
  · next h => intro c hc; exact hf c (dropTrailingZeros_mem f c hc)

omit hA in
include hC in
theorem extend_V {f : UPoly α} (hf : AllV V f) (d : Nat) {v : α} (hv : V v) : AllV V (extend F f d v) := by
  unfold extend
  refine AllV.append (AllV.append hf ?_) (AllV.single hv)
  intro c hc
  rw [List.mem_replicate] at hc
  exact hc.2 ▸ hC.zero

omit hA in
include hC in
theorem coef_V {f : UPoly α} (hf : AllV V f) (d : Nat) : V (coef F f d) := hf.getD hC.zero d

omit hA in
include hC in
theorem lc_V {f : UPoly α} (hf : AllV V f) : V (lc F f) := coef_V hC hf _

omit hA in
include hC in
theorem zero_V : AllV V (UPoly.zero F) := AllV.single hC.zero

omit hA in
include hC in
theorem one_V : AllV V (UPoly.one F) := AllV.single hC.one

omit hA in
include hC in
theorem removeCoef_V {f : UPoly α} (hf : AllV V f) (d : Nat) : AllV V (removeCoef F f d) := by
  unfold removeCoef
  split
  · exact trim_V hC (hf.set hC.zero d)
  · exact hf

include hC

theorem setCoef_par {f : UPoly α} (hf : AllV V f) (d : Nat) {v : α} (hv : V v) :
    setCoef F' f d v = setCoef F f d v ∧ AllV V (setCoef F f d v) := by
  unfold setCoef
  simp only [trim_congr hA, extend_congr hA, hA.isZero, true_and]
  split
  · split
    · exact trim_V hC (hf.set hv d)
    · exact hf.set hv d
  · split
    · exact hf
    · exact extend_V hC hf d hv

theorem incCoef_par {f : UPoly α} (hf : AllV V f) (d : Nat) {v : α} (hv : V v) :
    incCoef F' f d v = incCoef F f d v ∧ AllV V (incCoef F f d v) := by
  unfold incCoef
  have hc := coef_V hC hf d
  simp only [trim_congr hA, extend_congr hA, hA.isZero, coef_congr hA, hA.add _ _ hc hv, true_and]
  split
  · exact hf
  · split
    · exact trim_V hC (hf.set (hC.add _ _ hc hv) d)
    · exact extend_V hC hf d hv

theorem decCoef_par {f : UPoly α} (hf : AllV V f) (d : Nat) {v : α} (hv : V v) :
    decCoef F' f d v = decCoef F f d v ∧ AllV V (decCoef F f d v) := by
  unfold decCoef
  have hc := coef_V hC hf d
  simp only [trim_congr hA, extend_congr hA, hA.isZero, coef_congr hA, hA.sub _ _ hc hv,
    hA.neg _ hv, true_and]
  split
  · exact hf
  · split
    · exact trim_V hC (hf.set (hC.sub _ _ hc hv) d)
    · exact extend_V hC hf d (hC.neg _ hv)

theorem add_par {f g : UPoly α} (hf : AllV V f) (hg : AllV V g) :
    add F' f g = add F f g ∧ AllV V (add F f g) := by
  unfold add
  exact foldCoefs_par (V := V) (AllV V) _ _ (fun acc i c ha hc => incCoef_par hA hC ha i hc) g f hg hf

theorem sub_par {f g : UPoly α} (hf : AllV V f) (hg : AllV V g) :
    sub F' f g = sub F f g ∧ AllV V (sub F f g) := by
  unfold sub
  exact foldCoefs_par (V := V) (AllV V) _ _ (fun acc i c ha hc => decCoef_par hA hC ha i hc) g f hg hf

theorem neg_par {f : UPoly α} (hf : AllV V f) :
    neg F' f = neg F f ∧ AllV V (neg F f) := by
  unfold neg
  constructor
  · exact List.map_congr_left fun c hc => hA.neg c (hf c hc)
  · intro c hc
    obtain ⟨x, hx, rfl⟩ := List.mem_map.1 hc
    exact hC.neg x (hf x hx)

theorem scale_par {f : UPoly α} (hf : AllV V f) {c : α} (hc : V c) :
    scale F' f c = scale F f c ∧ AllV V (scale F f c) := by
  unfold scale
  rw [hA.isZero, zero_congr hA]
  split
  · exact ⟨rfl, zero_V hC⟩
  · constructor
    · exact List.map_congr_left fun x hx => hA.mul x c (hf x hx) hc
    · intro y hy
      obtain ⟨x, hx, rfl⟩ := List.mem_map.1 hy
      exact hC.mul x c (hf x hx) hc

theorem normalize_par {f : UPoly α} (hf : AllV V f) :
    UPoly.normalize F' f = UPoly.normalize F f ∧ AllV V (UPoly.normalize F f) := by
  unfold UPoly.normalize
  have hl := lc_V hC hf
  rw [isZero_congr hA, lc_congr hA, hA.isOne, hA.inv _ hl]
  split
  · exact ⟨rfl, hf⟩
  · cases hi : F.inv (lc F f) with
    | none => exact ⟨rfl, hf⟩
    | some i => exact scale_par hA hC hf (hC.inv _ i hl hi)

theorem subShiftScale_par {f g : UPoly α} (hf : AllV V f) (hg : AllV V g) (i : Nat) {a : α}
    (ha : V a) :
    subShiftScale F' f g i a = subShiftScale F f g i a ∧ AllV V (subShiftScale F f g i a) := by
  unfold subShiftScale
  rw [hA.isZero, hA.isOne]
  split
  · exact ⟨rfl, hf⟩
  · split
    · refine foldCoefs_par (V := V) (AllV V) _ _ (fun acc d c hacc hc => ?_) g f hg hf
      split
      · exact ⟨rfl, hacc⟩
      · exact decCoef_par hA hC hacc _ hc
    · refine foldCoefs_par (V := V) (AllV V) _ _ (fun acc d c hacc hc => ?_) g f hg hf
      split
      · exact ⟨rfl, hacc⟩
      · rw [hA.mul a c ha hc]
        exact decCoef_par hA hC hacc _ (hC.mul a c ha hc)

theorem mulNoReduce_par {f g : UPoly α} (hf : AllV V f) (hg : AllV V g) :
    mulNoReduce F' f g = mulNoReduce F f g ∧ AllV V (mulNoReduce F f g) := by
  unfold mulNoReduce
  rw [isZero_congr hA, isZero_congr hA, zero_congr hA, hA.isZero]
  split
  · exact ⟨rfl, zero_V hC⟩
  · refine foldCoefs_par (V := V) (AllV V) _ _ (fun h df cf hh hcf => ?_) f _ hf (zero_V hC)
    split
    · exact ⟨rfl, hh⟩
    · refine foldCoefs_par (V := V) (AllV V) _ _ (fun h dg cg hh hcg => ?_) g h hg hh
      split
      · exact ⟨rfl, hh⟩
      · rw [hA.mul cf cg hcf hcg]
        exact incCoef_par hA hC hh _ (hC.mul cf cg hcf hcg)

theorem eval_par {f : UPoly α} (hf : AllV V f) {x : α} (hx : V x) :
    eval F' f x = eval F f x ∧ V (eval F f x) := by
  unfold eval
  rw [hA.zero, hA.one]
  have := foldCoefs_par (V := V) (fun (q : α × α) => V q.1 ∧ V q.2)
    (fun (q : α × α) d c =>
      ((F.add q.1 (F.mul (if d > 0 then F.mul q.2 x else q.2) c),
        (if d > 0 then F.mul q.2 x else q.2)) : α × α))
    (fun (q : α × α) d c =>
      ((F'.add q.1 (F'.mul (if d > 0 then F'.mul q.2 x else q.2) c),
        (if d > 0 then F'.mul q.2 x else q.2)) : α × α))
    (fun q d c hq hc => by
      have hp : V (if d > 0 then F.mul q.2 x else q.2) := by
        split
        · exact hC.mul _ _ hq.2 hx
        · exact hq.2
      have e : (if d > 0 then F'.mul q.2 x else q.2) = (if d > 0 then F.mul q.2 x else q.2) := by
        split
        · exact hA.mul _ _ hq.2 hx
        · rfl
      rw [e, hA.mul _ _ hp hc, hA.add _ _ hq.1 (hC.mul _ _ hp hc)]
      exact ⟨rfl, hC.add _ _ hq.1 (hC.mul _ _ hp hc), hp⟩)
    f (F.zero, F.one) hf ⟨hC.zero, hC.one⟩
  exact ⟨congrArg Prod.fst this.1, this.2.1⟩

theorem lt_par {f : UPoly α} (hf : AllV V f) :
    UPoly.lt F' f = UPoly.lt F f ∧ AllV V (UPoly.lt F f) := by
  unfold UPoly.lt
  rw [zero_congr hA, lc_congr hA]
  exact setCoef_par hA hC (zero_V hC) _ (lc_V hC hf)


/-! ### division, reduction, gcd -/

omit hA hC in
theorem firstFit_mem (p : UPoly α) : ∀ (gs : List (UPoly α)) (i : Nat) (r : Nat × UPoly α),
    firstFit p gs i = some r → r.2 ∈ gs := by
  intro gs
  induction gs with
  | nil => intro i r h; cases h
  | cons g t ih =>
    intro i r h
    simp only [firstFit] at h
    split at h
    · cases h; exact List.mem_cons_self
    · exact List.mem_cons_of_mem _ (ih _ _ h)

theorem lcQuot_par {p g : UPoly α} (hp : AllV V p) (hg : AllV V g) :
    lcQuot F' p g = lcQuot F p g ∧ V (lcQuot F p g) := by
  unfold lcQuot
  have h1 := lc_V hC hp
  have h2 := lc_V hC hg
  rw [lc_congr hA, lc_congr hA, hA.isOne, hA.mul _ _ h1 h2, hA.inv _ h2, hA.zero]
  split
  · exact ⟨rfl, hC.mul _ _ h1 h2⟩
  · cases hi : F.inv (lc F g) with
    | none => exact ⟨rfl, hC.zero⟩
    | some i =>
      have := hC.inv _ i h2 hi
      simp only [hA.mul _ _ h1 this, true_and]
      exact hC.mul _ _ h1 this

/-- every polynomial of a list has valid coefficients -/
def AllVV (V : α → Prop) (l : List (List α)) : Prop := ∀ f ∈ l, AllV V f

theorem quoRemLoop_par {gs : List (UPoly α)} (hgs : AllVV V gs) :
    ∀ (fuel : Nat) (p : UPoly α) (qs : List (UPoly α)) (r : UPoly α),
      AllV V p → AllVV V qs → AllV V r →
      quoRemLoop F' gs fuel p qs r = quoRemLoop F gs fuel p qs r ∧
      ∀ qs' r', quoRemLoop F gs fuel p qs r = some (qs', r') → AllVV V qs' ∧ AllV V r' := by
  intro fuel
  induction fuel with
  | zero => intro p qs r _ _ _; exact ⟨rfl, fun _ _ h => by cases h⟩
  | succ fuel ih =>
    intro p qs r hp hqs hr
    rw [quoRemLoop, quoRemLoop, isZero_congr hA]
    split
    · exact ⟨rfl, fun _ _ h => by cases h; exact ⟨hqs, hr⟩⟩
    · cases hff : firstFit p gs 0 with
      | none =>
        simp only [removeCoef_congr hA, lc_congr hA]
        obtain ⟨e, hv⟩ := incCoef_par hA hC hr (ld p) (lc_V hC hp)
        rw [e]
        exact ih _ _ _ (removeCoef_V hC hp _) hqs hv
      | some ig =>
        obtain ⟨i, g⟩ := ig
        have hg : AllV V g := hgs g (firstFit_mem p gs 0 _ hff)
        obtain ⟨e1, hv1⟩ := lcQuot_par hA hC hp hg
        have hq : AllV V (qs.getD i (UPoly.zero F)) := by
          rw [List.getD_eq_getElem?_getD]
          cases h : qs[i]? with
          | none => exact zero_V hC
          | some q => exact hqs q (List.mem_of_getElem? h)
        obtain ⟨e2, hv2⟩ := incCoef_par hA hC hq (ld p - ld g) hv1
        obtain ⟨e3, hv3⟩ := subShiftScale_par hA hC hp hg (ld p - ld g) hv1
        simp only [e1, zero_congr hA, e2, e3]
        refine ih _ _ _ hv3 ?_ hr
        intro f hf
        rcases List.mem_or_eq_of_mem_set hf with h | rfl
        · exact hqs f h
        · exact hv2

omit hC in
theorem isZero_congr' : isZero F' = isZero F := funext (isZero_congr hA)

/-- result of `QuoRem`: quotients and remainder valid -/
def QRV (V : α → Prop) (o : Except Kind (Option (List (UPoly α) × UPoly α))) : Prop :=
  ∀ qs r, o = .ok (some (qs, r)) → AllVV V qs ∧ AllV V r

theorem quoRem_par (fuel : Nat) {f : UPoly α} {gs : List (UPoly α)} (hf : AllV V f)
    (hgs : AllVV V gs) :
    quoRem F' fuel f gs = quoRem F fuel f gs ∧ QRV V (quoRem F fuel f gs) := by
  unfold quoRem
  rw [isZero_congr' hA, zero_congr hA]
  have hq : AllVV V (gs.map fun _ => UPoly.zero F) := by
    intro q hq
    obtain ⟨_, _, rfl⟩ := List.mem_map.1 hq
    exact zero_V hC
  obtain ⟨e, hv⟩ := quoRemLoop_par hA hC hgs fuel f _ _ hf hq (zero_V hC)
  split
  · exact ⟨rfl, fun _ _ h => by cases h⟩
  · rw [e]
    refine ⟨rfl, fun qs r h => ?_⟩
    injection h with h
    exact hv qs r h

theorem reduceLoop_par {g : UPoly α} (hg : AllV V g) :
    ∀ (fuel : Nat) (f : UPoly α), AllV V f →
      reduceLoop F' g fuel f = reduceLoop F g fuel f ∧ OptV V (reduceLoop F g fuel f) := by
  intro fuel
  induction fuel with
  | zero => intro f _; exact ⟨rfl, fun _ h => by cases h⟩
  | succ fuel ih =>
    intro f hf
    rw [reduceLoop, reduceLoop, lc_congr hA]
    split
    · obtain ⟨e, hv⟩ := subShiftScale_par hA hC hf hg (ld f - ld g) (lc_V hC hf)
      rw [e]
      exact ih _ hv
    · exact ⟨rfl, fun _ h => by cases h; exact hf⟩

theorem reduce_par {g f : UPoly α} (hg : AllV V g) (hf : AllV V f) :
    reduce F' g f = reduce F g f ∧ OptV V (reduce F g f) := by
  unfold reduce
  rw [zero_congr hA]
  split
  · exact ⟨rfl, fun _ h => by cases h; exact zero_V hC⟩
  · exact reduceLoop_par hA hC hg _ f hf

theorem gcdLoop_par : ∀ (fuel : Nat) (r0 r1 : UPoly α), AllV V r0 → AllV V r1 →
    gcdLoop F' fuel r0 r1 = gcdLoop F fuel r0 r1 ∧ OptV V (gcdLoop F fuel r0 r1) := by
  intro fuel
  induction fuel with
  | zero => intro r0 r1 _ _; exact ⟨rfl, fun _ h => by cases h⟩
  | succ fuel ih =>
    intro r0 r1 h0 h1
    rw [gcdLoop, gcdLoop, isZero_congr hA, zero_congr hA]
    split
    · exact ⟨rfl, fun _ h => by cases h; exact h0⟩
    · have hgs : AllVV V [r1] := fun f hf => by rw [List.mem_singleton] at hf; exact hf ▸ h1
      have hqs : AllVV V [UPoly.zero F] := fun f hf => by
        rw [List.mem_singleton] at hf; exact hf ▸ zero_V hC
      obtain ⟨e, hv⟩ := quoRemLoop_par hA hC hgs (quoRemFuel r0) r0 _ _ h0 hqs (zero_V hC)
      rw [e]
      cases hq : quoRemLoop F [r1] (quoRemFuel r0) r0 [UPoly.zero F] (UPoly.zero F) with
      | none => exact ⟨rfl, fun _ h => by cases h⟩
      | some qr =>
        obtain ⟨q, rem⟩ := qr
        exact ih _ _ h1 (hv q rem hq).2

theorem gcd2_par {f g : UPoly α} (hf : AllV V f) (hg : AllV V g) :
    gcd2 F' f g = gcd2 F f g ∧ OptV V (gcd2 F f g) :=
  gcdLoop_par hA hC _ f g hf hg

theorem gcd_par {f : UPoly α} {gs : List (UPoly α)} (hf : AllV V f) (hgs : AllVV V gs) :
    UPoly.gcd F' f gs = UPoly.gcd F f gs ∧ OptV V (UPoly.gcd F f gs) := by
  unfold UPoly.gcd
  refine foldl_par (OptV V) (AllV V) _ _ (fun acc g hacc hg => ?_) gs (some f) hgs
    (fun _ h => by cases h; exact hf)
  cases acc with
  | none => exact ⟨rfl, fun _ h => by cases h⟩
  | some a => exact gcd2_par hA hC (hacc a rfl) hg

theorem newIdeal_par {gens : List (UPoly α)} (hg : AllVV V gens) :
    newIdeal F' gens = newIdeal F gens ∧ OptV V (newIdeal F gens) := by
  unfold newIdeal
  cases gens with
  | nil => exact ⟨rfl, fun _ h => by cases h⟩
  | cons f gs =>
    obtain ⟨e, hv⟩ := gcd_par hA hC (hg f List.mem_cons_self)
      (fun g h => hg g (List.mem_cons_of_mem _ h))
    simp only [e]
    cases hgc : UPoly.gcd F f gs with
    | none => exact ⟨rfl, fun _ h => by cases h⟩
    | some d =>
      obtain ⟨e2, hv2⟩ := normalize_par hA hC (hv d hgc)
      simp only [Option.map_some, e2, true_and]
      intro v h; cases h; exact hv2


/-! ### ring level: `reduceIn ofCoefs ofNats ofInts times pow` -/

/-- the ring `R` with the coefficient record replaced -/
def withF (R : UPoly.Ring α) (G : FOps α) : UPoly.Ring α := { R with F := G }

/-- the ring is over `F` and its modulus has valid coefficients -/
structure RingOK (F : FOps α) (V : α → Prop) (R : UPoly.Ring α) : Prop where
  hF : R.F = F
  hm : ∀ m, R.modulus = some m → AllV V m

theorem reduceIn_par {R : UPoly.Ring α} (hR : RingOK F V R) {f : UPoly α} (hf : AllV V f) :
    reduceIn (withF R F') f = reduceIn R f ∧ OptV V (reduceIn R f) := by
  unfold reduceIn withF
  cases hmod : R.modulus with
  | none => exact ⟨rfl, fun _ h => by cases h; exact hf⟩
  | some g =>
    simp only [hR.hF]
    exact reduce_par hA hC (hR.hm g hmod) hf

theorem ofCoefs_par {R : UPoly.Ring α} (hR : RingOK F V R) {cs : List α} (hcs : AllV V cs) :
    ofCoefs (withF R F') cs = ofCoefs R cs ∧ OptV V (ofCoefs R cs) := by
  unfold ofCoefs
  have hF' : (withF R F').F = F' := rfl
  rw [hF', hR.hF, zero_congr hA, hA.isZero]
  obtain ⟨e, hv⟩ := foldCoefs_par (V := V) (AllV V)
    (fun acc d c => if F.isZero c then acc else setCoef F acc d c)
    (fun acc d c => if F.isZero c then acc else setCoef F' acc d c)
    (fun acc d c hacc hc => by
      split
      · exact ⟨rfl, hacc⟩
      · exact setCoef_par hA hC hacc d hc) cs (UPoly.zero F) hcs (zero_V hC)
  rw [e]
  exact reduceIn_par hA hC hR hv

theorem times_par {R : UPoly.Ring α} (hR : RingOK F V R) {f g : UPoly α} (hf : AllV V f)
    (hg : AllV V g) :
    times (withF R F') f g = times R f g ∧ OptV V (times R f g) := by
  unfold times
  have hF' : (withF R F').F = F' := rfl
  rw [hF', hR.hF]
  obtain ⟨e, hv⟩ := mulNoReduce_par hA hC hf hg
  rw [e]
  exact reduceIn_par hA hC hR hv

theorem upowLoop_par {R : UPoly.Ring α} (hR : RingOK F V R) :
    ∀ (fuel n : Nat) (out g : UPoly α), AllV V out → AllV V g →
      UPoly.powLoop (withF R F') fuel n out g = UPoly.powLoop R fuel n out g ∧
      OptV V (UPoly.powLoop R fuel n out g) := by
  intro fuel
  induction fuel with
  | zero => intro n out g _ _; exact ⟨rfl, fun _ h => by cases h⟩
  | succ fuel ih =>
    intro n out g ho hg
    rw [UPoly.powLoop, UPoly.powLoop]
    split
    · exact ⟨rfl, fun _ h => by cases h; exact ho⟩
    · obtain ⟨e1, hv1⟩ := times_par hA hC hR ho hg
      obtain ⟨e2, hv2⟩ := times_par hA hC hR hg hg
      simp only [e1, e2]
      have ho' : OptV V (if n % 2 = 1 then times R out g else some out) := by
        split
        · exact hv1
        · exact fun _ h => by cases h; exact ho
      cases h1 : (if n % 2 = 1 then times R out g else some out) with
      | none => exact ⟨rfl, fun _ h => by cases h⟩
      | some o =>
        cases h2 : times R g g with
        | none => exact ⟨rfl, fun _ h => by cases h⟩
        | some g2 => exact ih _ _ _ (ho' o h1) (hv2 g2 h2)

theorem upow_par {R : UPoly.Ring α} (hR : RingOK F V R) {f : UPoly α} (hf : AllV V f) (n : Nat) :
    UPoly.pow (withF R F') f n = UPoly.pow R f n ∧ OptV V (UPoly.pow R f n) := by
  unfold UPoly.pow
  have hF' : (withF R F').F = F' := rfl
  obtain ⟨e, hv⟩ := ofCoefs_par hA hC hR (cs := [F.one]) (AllV.single hC.one)
  rw [hF', hA.one, hR.hF, e]
  cases h : ofCoefs R [F.one] with
  | none => exact ⟨rfl, fun _ h => by cases h⟩
  | some o => exact upowLoop_par hA hC hR 70 n o f (hv o h) hf

theorem ofNats_par {R : UPoly.Ring α} (hR : RingOK F V R) (hn : ∀ k, V (F.ofNat k)) (cs : List Nat) :
    ofNats (withF R F') cs = ofNats R cs ∧ OptV V (ofNats R cs) := by
  unfold ofNats
  have hF' : (withF R F').F = F' := rfl
  rw [hF', hA.ofNat, hR.hF]
  refine ofCoefs_par hA hC hR ?_
  intro c hc
  obtain ⟨k, _, rfl⟩ := List.mem_map.1 hc
  exact hn k

theorem ofInts_par {R : UPoly.Ring α} (hR : RingOK F V R) (hn : ∀ z, V (F.ofInt z)) (cs : List Int) :
    ofInts (withF R F') cs = ofInts R cs ∧ OptV V (ofInts R cs) := by
  unfold ofInts
  have hF' : (withF R F').F = F' := rfl
  rw [hF', hA.ofInt, hR.hF]
  refine ofCoefs_par hA hC hR ?_
  intro c hc
  obtain ⟨k, _, rfl⟩ := List.mem_map.1 hc
  exact hn k

/-! ### interpolation -/

theorem coefK_par (h1 : V (F.ofNat 1)) {points : List α} (hp : AllV V points) (ignore k : Nat) :
    coefK F' points ignore k = coefK F points ignore k ∧ V (coefK F points ignore k) := by
  unfold coefK
  rw [hA.zero, hA.ofNat]
  obtain ⟨e, hv⟩ := foldl_par V (fun _ : List Nat => True)
    (fun out combo => if combo.contains ignore then out
      else F.add out (combo.foldl (fun t i => F.mul t (points.getD i F.zero)) (F.ofNat 1)))
    (fun out combo => if combo.contains ignore then out
      else F'.add out (combo.foldl (fun t i => F'.mul t (points.getD i F.zero)) (F.ofNat 1)))
    (fun out combo ho _ => by
      split
      · exact ⟨rfl, ho⟩
      · obtain ⟨e, hv⟩ := foldl_par V (fun _ : Nat => True)
          (fun t i => F.mul t (points.getD i F.zero)) (fun t i => F'.mul t (points.getD i F.zero))
          (fun t i ht _ => ⟨hA.mul _ _ ht (hp.getD hC.zero i), hC.mul _ _ ht (hp.getD hC.zero i)⟩)
          combo (F.ofNat 1) (fun _ _ => trivial) h1
        rw [e, hA.add _ _ ho hv]
        exact ⟨rfl, hC.add _ _ ho hv⟩)
    (Auxmath.combinations points.length (points.length - 1 - k)) F.zero (fun _ _ => trivial) hC.zero
  simp only [e]
  split
  · exact ⟨hA.neg _ hv, hC.neg _ hv⟩
  · exact ⟨rfl, hv⟩

omit hC in
theorem ignoreIndex_congr (points : List α) (ignore : α) :
    ignoreIndex F' points ignore = ignoreIndex F points ignore := by
  unfold ignoreIndex; rw [hA.beq]

omit hC in
theorem allDistinct_congr (points : List α) : allDistinct F' points = allDistinct F points := by
  unfold allDistinct; rw [hA.toStr]

theorem lagrangeBasis_par (h1 : V (F.ofNat 1)) {points : List α} (hp : AllV V points) {ignore : α}
    (hi : V ignore) :
    lagrangeBasis F' points ignore = lagrangeBasis F points ignore ∧
      AllV V (lagrangeBasis F points ignore) := by
  unfold lagrangeBasis
  rw [ignoreIndex_congr hA, zero_congr hA, hA.one, hA.zero]
  obtain ⟨e1, hv1⟩ := foldl_par (AllV V) (fun _ : Nat => True)
    (fun f k => setCoef F f k (coefK F points (ignoreIndex F points ignore) k))
    (fun f k => setCoef F' f k (coefK F' points (ignoreIndex F points ignore) k))
    (fun f k hf _ => by
      obtain ⟨e, hv⟩ := coefK_par hA hC h1 hp (ignoreIndex F points ignore) k
      rw [e]
      exact setCoef_par hA hC hf k hv)
    (List.range points.length) (UPoly.zero F) (fun _ _ => trivial) (zero_V hC)
  obtain ⟨e2, hv2⟩ := foldl_par V (fun x : α × Nat => V x.1)
    (fun d (x : α × Nat) => if x.2 = ignoreIndex F points ignore then d else F.mul d (F.sub ignore x.1))
    (fun d (x : α × Nat) => if x.2 = ignoreIndex F points ignore then d else F'.mul d (F'.sub ignore x.1))
    (fun d x hd hx => by
      split
      · exact ⟨rfl, hd⟩
      · rw [hA.sub _ _ hi hx, hA.mul _ _ hd (hC.sub _ _ hi hx)]
        exact ⟨rfl, hC.mul _ _ hd (hC.sub _ _ hi hx)⟩)
    points.zipIdx F.one (fun x hx => hp _ (List.fst_mem_of_mem_zipIdx hx)) hC.one
  simp only [] at e1 e2 ⊢
  rw [e1, e2, hA.inv _ hv2]
  cases hinv : F.inv _ with
  | none => exact scale_par hA hC hv1 hC.zero
  | some i => exact scale_par hA hC hv1 (hC.inv _ i hv2 hinv)

theorem interpolate_par (h1 : V (F.ofNat 1)) {points values : List α} (hp : AllV V points)
    (hvals : AllV V values) :
    interpolate F' points values = interpolate F points values ∧
      ∀ v, interpolate F points values = .ok v → AllV V v := by
  unfold interpolate
  rw [allDistinct_congr hA, zero_congr hA, hA.isZero]
  split
  · exact ⟨rfl, fun _ h => by cases h⟩
  · split
    · exact ⟨rfl, fun _ h => by cases h⟩
    · obtain ⟨e, hv⟩ := foldl_par (AllV V) (fun x : α × α => V x.1 ∧ V x.2)
        (fun f (x : α × α) => if F.isZero x.2 then f
          else add F f (scale F (lagrangeBasis F points x.1) x.2))
        (fun f (x : α × α) => if F.isZero x.2 then f
          else add F' f (scale F' (lagrangeBasis F' points x.1) x.2))
        (fun f x hf hx => by
          split
          · exact ⟨rfl, hf⟩
          · obtain ⟨e1, hv1⟩ := lagrangeBasis_par hA hC h1 hp hx.1
            obtain ⟨e2, hv2⟩ := scale_par hA hC hv1 hx.2
            rw [e1, e2]
            exact add_par hA hC hf hv2)
        (points.zip values) (UPoly.zero F)
        (fun x hx => ⟨hp _ (List.of_mem_zip hx).1, hvals _ (List.of_mem_zip hx).2⟩) (zero_V hC)
      simp only [] at e ⊢
      rw [e]
      exact ⟨rfl, fun v h => by cases h; exact hv⟩

end Par
end Tables
end Algobra
