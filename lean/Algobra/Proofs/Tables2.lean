/-
  Proofs/Tables2.lean — C18, polynomial layer: every univariate model function `UPoly.f F args`
  uses the record `F` only through its operations ("parametricity").  For two records with
  `OpsAgree F F' V` and `Closed F V`, and arguments all of whose coefficients satisfy `V`:
    (congruence)  `UPoly.f F' args = UPoly.f F args`,
    (closure)     all coefficients of `UPoly.f F args` satisfy `V`.
  Then the lifting to `step` / `runOps` of Model/Hist.lean for the element-level and the univariate
  operations.
-/
import Algobra.Proofs.Tables

namespace Algobra
namespace Tables
open UPoly

/-- all coefficients of a univariate polynomial satisfy `V` -/
def AllV {α : Type} (V : α → Prop) (f : List α) : Prop := ∀ c ∈ f, V c

/-- … of an optional result -/
def OptV {α : Type} (V : α → Prop) (o : Option (List α)) : Prop := ∀ v, o = some v → AllV V v

section Par
variable {α : Type} {F F' : FOps α} {V : α → Prop}

theorem foldl_par {β γ : Type} (P : β → Prop) (Q : γ → Prop) (st st' : β → γ → β)
    (h : ∀ acc x, P acc → Q x → st' acc x = st acc x ∧ P (st acc x)) :
    ∀ (l : List γ) (init : β), (∀ x ∈ l, Q x) → P init →
      l.foldl st' init = l.foldl st init ∧ P (l.foldl st init) := by
  intro l
  induction l with
  | nil => intro init _ hi; exact ⟨rfl, hi⟩
  | cons x t ih =>
    intro init hl hi
    obtain ⟨e, hp⟩ := h init x hi (hl x List.mem_cons_self)
    simp only [List.foldl_cons, e]
    exact ih _ (fun y hy => hl y (List.mem_cons_of_mem _ hy)) hp

theorem foldCoefs_par {β : Type} (P : β → Prop) (st st' : β → Nat → α → β)
    (h : ∀ acc i c, P acc → V c → st' acc i c = st acc i c ∧ P (st acc i c))
    (g : UPoly α) (init : β) (hg : AllV V g) (hi : P init) :
    foldCoefs g init st' = foldCoefs g init st ∧ P (foldCoefs g init st) := by
  unfold foldCoefs
  exact foldl_par P (fun x : α × Nat => V x.1) _ _ (fun acc x hp hx => h acc x.2 x.1 hp hx) _ _
    (fun x hx => hg _ (List.fst_mem_of_mem_zipIdx hx)) hi

theorem AllV.getD {f : List α} (hf : AllV V f) {z : α} (hz : V z) (d : Nat) : V (f.getD d z) := by
  rw [List.getD_eq_getElem?_getD]
  cases h : f[d]? with
  | none => exact hz
  | some c => exact hf c (List.mem_of_getElem? h)

theorem AllV.set {f : List α} (hf : AllV V f) {v : α} (hv : V v) (d : Nat) : AllV V (f.set d v) := by
  intro c hc
  rcases List.mem_or_eq_of_mem_set hc with h | rfl
  · exact hf c h
  · exact hv

theorem AllV.append {f g : List α} (hf : AllV V f) (hg : AllV V g) : AllV V (f ++ g) := by
  intro c hc
  rcases List.mem_append.1 hc with h | h
  · exact hf c h
  · exact hg c h

theorem AllV.single {v : α} (hv : V v) : AllV V [v] := by
  intro c hc
  rw [List.mem_singleton] at hc
  exact hc ▸ hv

variable (hA : OpsAgree F F' V) (hC : Closed F V)
include hA

theorem isZero_congr (f : UPoly α) : isZero F' f = isZero F f := by
  unfold isZero; rw [hA.isZero]

theorem isOne_congr (f : UPoly α) : isOne F' f = isOne F f := by
  unfold isOne; rw [hA.isOne]

theorem coef_congr (f : UPoly α) (d : Nat) : coef F' f d = coef F f d := by
  unfold coef; rw [hA.zero]

theorem lc_congr (f : UPoly α) : lc F' f = lc F f := by
  unfold lc; rw [coef_congr hA]

theorem zero_congr : UPoly.zero F' = UPoly.zero F := by
  unfold UPoly.zero; rw [hA.zero]

theorem one_congr : UPoly.one F' = UPoly.one F := by
  unfold UPoly.one; rw [hA.one]

theorem dropTrailingZeros_congr (f : List α) : dropTrailingZeros F' f = dropTrailingZeros F f := by
  induction f with
  | nil => rfl
  | cons c t ih => simp only [dropTrailingZeros, ih, hA.isZero]

theorem trim_congr (f : UPoly α) : trim F' f = trim F f := by
  unfold trim; rw [dropTrailingZeros_congr hA, hA.zero]

theorem extend_congr (f : UPoly α) (d : Nat) (v : α) : extend F' f d v = extend F f d v := by
  unfold extend; rw [hA.zero]

theorem degrees_congr (f : UPoly α) : degrees F' f = degrees F f := by
  unfold degrees; rw [hA.isZero]

theorem nTerms_congr (f : UPoly α) : UPoly.nTerms F' f = UPoly.nTerms F f := by
  unfold UPoly.nTerms; rw [isZero_congr hA, degrees_congr hA]

theorem isMonomial_congr (f : UPoly α) : isMonomial F' f = isMonomial F f := by
  unfold isMonomial; rw [degrees_congr hA]

theorem equal_congr (f g : UPoly α) : equal F' f g = equal F f g := by
  unfold equal; rw [hA.beq]

theorem toStr_congr (v : String) (f : UPoly α) : UPoly.toStr F' v f = UPoly.toStr F v f := by
  unfold UPoly.toStr
  simp only [isZero_congr hA, degrees_congr hA, coef_congr hA, hA.isOne, hA.nTerms, hA.toStr]

theorem removeCoef_congr (f : UPoly α) (d : Nat) : removeCoef F' f d = removeCoef F f d := by
  unfold removeCoef; rw [trim_congr hA, hA.zero]

omit hA in
theorem dropTrailingZeros_mem (f : List α) : ∀ c ∈ dropTrailingZeros F f, c ∈ f := by
  induction f with
  | nil => intro c hc; exact hc
  | cons x t ih =>
    intro c hc
    simp only [dropTrailingZeros] at hc
    split at hc
    · split at hc
      · cases hc
      · rw [List.mem_singleton] at hc; subst hc; exact List.mem_cons_self
    · next h =>
      rcases List.mem_cons.1 hc with rfl | h'
      · exact List.mem_cons_self
      · exact List.mem_cons_of_mem _ (ih c h')

omit hA in
include hC in
theorem trim_V {f : UPoly α} (hf : AllV V f) : AllV V (trim F f) := by
  unfold trim
  split
  · apply AllV.single
    cases f with
    | nil => exact hC.zero
    | cons x t => exact hf x List.mem_cons_self
  · next h => intro c hc; exact hf c (dropTrailingZeros_mem f c hc)

omit hA in
include hC in
theorem extend_V {f : UPoly α} (hf : AllV V f) (d : Nat) {v : α} (hv : V v) : AllV V (extend F f d v) := by
  unfold extend
  refine AllV.append (AllV.append hf ?_) (AllV.single hv)
  intro c hc
  rw [List.mem_replicate] at hc
  exact hc.2 ▸ hC.zero

omit hA in
include hC in
theorem coef_V {f : UPoly α} (hf : AllV V f) (d : Nat) : V (coef F f d) := hf.getD hC.zero d

omit hA in
include hC in
theorem lc_V {f : UPoly α} (hf : AllV V f) : V (lc F f) := coef_V hC hf _

omit hA in
include hC in
theorem zero_V : AllV V (UPoly.zero F) := AllV.single hC.zero

omit hA in
include hC in
theorem one_V : AllV V (UPoly.one F) := AllV.single hC.one

omit hA in
include hC in
theorem removeCoef_V {f : UPoly α} (hf : AllV V f) (d : Nat) : AllV V (removeCoef F f d) := by
  unfold removeCoef
  split
  · exact trim_V hC (hf.set hC.zero d)
  · exact hf

include hC

theorem setCoef_par {f : UPoly α} (hf : AllV V f) (d : Nat) {v : α} (hv : V v) :
    setCoef F' f d v = setCoef F f d v ∧ AllV V (setCoef F f d v) := by
  unfold setCoef
  simp only [trim_congr hA, extend_congr hA, hA.isZero, true_and]
  split
  · split
    · exact trim_V hC (hf.set hv d)
    · exact hf.set hv d
  · split
    · exact hf
    · exact extend_V hC hf d hv

theorem incCoef_par {f : UPoly α} (hf : AllV V f) (d : Nat) {v : α} (hv : V v) :
    incCoef F' f d v = incCoef F f d v ∧ AllV V (incCoef F f d v) := by
  unfold incCoef
  have hc := coef_V hC hf d
  simp only [trim_congr hA, extend_congr hA, hA.isZero, coef_congr hA, hA.add _ _ hc hv, true_and]
  split
  · exact hf
  · split
    · exact trim_V hC (hf.set (hC.add _ _ hc hv) d)
    · exact extend_V hC hf d hv

theorem decCoef_par {f : UPoly α} (hf : AllV V f) (d : Nat) {v : α} (hv : V v) :
    decCoef F' f d v = decCoef F f d v ∧ AllV V (decCoef F f d v) := by
  unfold decCoef
  have hc := coef_V hC hf d
  simp only [trim_congr hA, extend_congr hA, hA.isZero, coef_congr hA, hA.sub _ _ hc hv,
    hA.neg _ hv, true_and]
  split
  · exact hf
  · split
    · exact trim_V hC (hf.set (hC.sub _ _ hc hv) d)
    · exact extend_V hC hf d (hC.neg _ hv)

theorem add_par {f g : UPoly α} (hf : AllV V f) (hg : AllV V g) :
    add F' f g = add F f g ∧ AllV V (add F f g) := by
  unfold add
  exact foldCoefs_par (V := V) (AllV V) _ _ (fun acc i c ha hc => incCoef_par hA hC ha i hc) g f hg hf

theorem sub_par {f g : UPoly α} (hf : AllV V f) (hg : AllV V g) :
    sub F' f g = sub F f g ∧ AllV V (sub F f g) := by
  unfold sub
  exact foldCoefs_par (V := V) (AllV V) _ _ (fun acc i c ha hc => decCoef_par hA hC ha i hc) g f hg hf

theorem neg_par {f : UPoly α} (hf : AllV V f) :
    neg F' f = neg F f ∧ AllV V (neg F f) := by
  unfold neg
  constructor
  · exact List.map_congr_left fun c hc => hA.neg c (hf c hc)
  · intro c hc
    obtain ⟨x, hx, rfl⟩ := List.mem_map.1 hc
    exact hC.neg x (hf x hx)

theorem scale_par {f : UPoly α} (hf : AllV V f) {c : α} (hc : V c) :
    scale F' f c = scale F f c ∧ AllV V (scale F f c) := by
  unfold scale
  rw [hA.isZero, zero_congr hA]
  split
  · exact ⟨rfl, zero_V hC⟩
  · constructor
    · exact List.map_congr_left fun x hx => hA.mul x c (hf x hx) hc
    · intro y hy
      obtain ⟨x, hx, rfl⟩ := List.mem_map.1 hy
      exact hC.mul x c (hf x hx) hc

theorem normalize_par {f : UPoly α} (hf : AllV V f) :
    UPoly.normalize F' f = UPoly.normalize F f ∧ AllV V (UPoly.normalize F f) := by
  unfold UPoly.normalize
  have hl := lc_V hC hf
  rw [isZero_congr hA, lc_congr hA, hA.isOne, hA.inv _ hl]
  split
  · exact ⟨rfl, hf⟩
  · cases hi : F.inv (lc F f) with
    | none => exact ⟨rfl, hf⟩
    | some i => exact scale_par hA hC hf (hC.inv _ i hl hi)

theorem subShiftScale_par {f g : UPoly α} (hf : AllV V f) (hg : AllV V g) (i : Nat) {a : α}
    (ha : V a) :
    subShiftScale F' f g i a = subShiftScale F f g i a ∧ AllV V (subShiftScale F f g i a) := by
  unfold subShiftScale
  rw [hA.isZero, hA.isOne]
  split
  · exact ⟨rfl, hf⟩
  · split
    · refine foldCoefs_par (V := V) (AllV V) _ _ (fun acc d c hacc hc => ?_) g f hg hf
      split
      · exact ⟨rfl, hacc⟩
      · exact decCoef_par hA hC hacc _ hc
    · refine foldCoefs_par (V := V) (AllV V) _ _ (fun acc d c hacc hc => ?_) g f hg hf
      split
      · exact ⟨rfl, hacc⟩
      · rw [hA.mul a c ha hc]
        exact decCoef_par hA hC hacc _ (hC.mul a c ha hc)

theorem mulNoReduce_par {f g : UPoly α} (hf : AllV V f) (hg : AllV V g) :
    mulNoReduce F' f g = mulNoReduce F f g ∧ AllV V (mulNoReduce F f g) := by
  unfold mulNoReduce
  rw [isZero_congr hA, isZero_congr hA, zero_congr hA, hA.isZero]
  split
  · exact ⟨rfl, zero_V hC⟩
  · refine foldCoefs_par (V := V) (AllV V) _ _ (fun h df cf hh hcf => ?_) f _ hf (zero_V hC)
    split
    · exact ⟨rfl, hh⟩
    · refine foldCoefs_par (V := V) (AllV V) _ _ (fun h dg cg hh hcg => ?_) g h hg hh
      split
      · exact ⟨rfl, hh⟩
      · rw [hA.mul cf cg hcf hcg]
        exact incCoef_par hA hC hh _ (hC.mul cf cg hcf hcg)

theorem eval_par {f : UPoly α} (hf : AllV V f) {x : α} (hx : V x) :
    eval F' f x = eval F f x ∧ V (eval F f x) := by
  unfold eval
  rw [hA.zero, hA.one]
  have := foldCoefs_par (V := V) (fun (q : α × α) => V q.1 ∧ V q.2)
    (fun (q : α × α) d c =>
      ((F.add q.1 (F.mul (if d > 0 then F.mul q.2 x else q.2) c),
        (if d > 0 then F.mul q.2 x else q.2)) : α × α))
    (fun (q : α × α) d c =>
      ((F'.add q.1 (F'.mul (if d > 0 then F'.mul q.2 x else q.2) c),
        (if d > 0 then F'.mul q.2 x else q.2)) : α × α))
    (fun q d c hq hc => by
      have hp : V (if d > 0 then F.mul q.2 x else q.2) := by
        split
        · exact hC.mul _ _ hq.2 hx
        · exact hq.2
      have e : (if d > 0 then F'.mul q.2 x else q.2) = (if d > 0 then F.mul q.2 x else q.2) := by
        split
        · exact hA.mul _ _ hq.2 hx
        · rfl
      rw [e, hA.mul _ _ hp hc, hA.add _ _ hq.1 (hC.mul _ _ hp hc)]
      exact ⟨rfl, hC.add _ _ hq.1 (hC.mul _ _ hp hc), hp⟩)
    f (F.zero, F.one) hf ⟨hC.zero, hC.one⟩
  exact ⟨congrArg Prod.fst this.1, this.2.1⟩

theorem lt_par {f : UPoly α} (hf : AllV V f) :
    UPoly.lt F' f = UPoly.lt F f ∧ AllV V (UPoly.lt F f) := by
  unfold UPoly.lt
  rw [zero_congr hA, lc_congr hA]
  exact setCoef_par hA hC (zero_V hC) _ (lc_V hC hf)


/-! ### division, reduction, gcd -/

omit hA hC in
theorem firstFit_mem (p : UPoly α) : ∀ (gs : List (UPoly α)) (i : Nat) (r : Nat × UPoly α),
    firstFit p gs i = some r → r.2 ∈ gs := by
  intro gs
  induction gs with
  | nil => intro i r h; cases h
  | cons g t ih =>
    intro i r h
    simp only [firstFit] at h
    split at h
    · cases h; exact List.mem_cons_self
    · exact List.mem_cons_of_mem _ (ih _ _ h)

theorem lcQuot_par {p g : UPoly α} (hp : AllV V p) (hg : AllV V g) :
    lcQuot F' p g = lcQuot F p g ∧ V (lcQuot F p g) := by
  unfold lcQuot
  have h1 := lc_V hC hp
  have h2 := lc_V hC hg
  rw [lc_congr hA, lc_congr hA, hA.isOne, hA.mul _ _ h1 h2, hA.inv _ h2, hA.zero]
  split
  · exact ⟨rfl, hC.mul _ _ h1 h2⟩
  · cases hi : F.inv (lc F g) with
    | none => exact ⟨rfl, hC.zero⟩
    | some i =>
      have := hC.inv _ i h2 hi
      simp only [hA.mul _ _ h1 this, true_and]
      exact hC.mul _ _ h1 this

/-- every polynomial of a list has valid coefficients -/
def AllVV (V : α → Prop) (l : List (List α)) : Prop := ∀ f ∈ l, AllV V f

theorem quoRemLoop_par {gs : List (UPoly α)} (hgs : AllVV V gs) :
    ∀ (fuel : Nat) (p : UPoly α) (qs : List (UPoly α)) (r : UPoly α),
      AllV V p → AllVV V qs → AllV V r →
      quoRemLoop F' gs fuel p qs r = quoRemLoop F gs fuel p qs r ∧
      ∀ qs' r', quoRemLoop F gs fuel p qs r = some (qs', r') → AllVV V qs' ∧ AllV V r' := by
  intro fuel
  induction fuel with
  | zero => intro p qs r _ _ _; exact ⟨rfl, fun _ _ h => by cases h⟩
  | succ fuel ih =>
    intro p qs r hp hqs hr
    rw [quoRemLoop, quoRemLoop, isZero_congr hA]
    split
    · exact ⟨rfl, fun _ _ h => by cases h; exact ⟨hqs, hr⟩⟩
    · cases hff : firstFit p gs 0 with
      | none =>
        simp only [removeCoef_congr hA, lc_congr hA]
        obtain ⟨e, hv⟩ := incCoef_par hA hC hr (ld p) (lc_V hC hp)
        rw [e]
        exact ih _ _ _ (removeCoef_V hC hp _) hqs hv
      | some ig =>
        obtain ⟨i, g⟩ := ig
        have hg : AllV V g := hgs g (firstFit_mem p gs 0 _ hff)
        obtain ⟨e1, hv1⟩ := lcQuot_par hA hC hp hg
        have hq : AllV V (qs.getD i (UPoly.zero F)) := by
          rw [List.getD_eq_getElem?_getD]
          cases h : qs[i]? with
          | none => exact zero_V hC
          | some q => exact hqs q (List.mem_of_getElem? h)
        obtain ⟨e2, hv2⟩ := incCoef_par hA hC hq (ld p - ld g) hv1
        obtain ⟨e3, hv3⟩ := subShiftScale_par hA hC hp hg (ld p - ld g) hv1
        simp only [e1, zero_congr hA, e2, e3]
        refine ih _ _ _ hv3 ?_ hr
        intro f hf
        rcases List.mem_or_eq_of_mem_set hf with h | rfl
        · exact hqs f h
        · exact hv2

omit hC in
theorem isZero_congr' : isZero F' = isZero F := funext (isZero_congr hA)

/-- result of `QuoRem`: quotients and remainder valid -/
def QRV (V : α → Prop) (o : Except Kind (Option (List (UPoly α) × UPoly α))) : Prop :=
  ∀ qs r, o = .ok (some (qs, r)) → AllVV V qs ∧ AllV V r

theorem quoRem_par (fuel : Nat) {f : UPoly α} {gs : List (UPoly α)} (hf : AllV V f)
    (hgs : AllVV V gs) :
    quoRem F' fuel f gs = quoRem F fuel f gs ∧ QRV V (quoRem F fuel f gs) := by
  unfold quoRem
  rw [isZero_congr' hA, zero_congr hA]
  have hq : AllVV V (gs.map fun _ => UPoly.zero F) := by
    intro q hq
    obtain ⟨_, _, rfl⟩ := List.mem_map.1 hq
    exact zero_V hC
  obtain ⟨e, hv⟩ := quoRemLoop_par hA hC hgs fuel f _ _ hf hq (zero_V hC)
  split
  · exact ⟨rfl, fun _ _ h => by cases h⟩
  · rw [e]
    refine ⟨rfl, fun qs r h => ?_⟩
    injection h with h
    exact hv qs r h

theorem reduceLoop_par {g : UPoly α} (hg : AllV V g) :
    ∀ (fuel : Nat) (f : UPoly α), AllV V f →
      reduceLoop F' g fuel f = reduceLoop F g fuel f ∧ OptV V (reduceLoop F g fuel f) := by
  intro fuel
  induction fuel with
  | zero => intro f _; exact ⟨rfl, fun _ h => by cases h⟩
  | succ fuel ih =>
    intro f hf
    rw [reduceLoop, reduceLoop, lc_congr hA]
    split
    · obtain ⟨e, hv⟩ := subShiftScale_par hA hC hf hg (ld f - ld g) (lc_V hC hf)
      rw [e]
      exact ih _ hv
    · exact ⟨rfl, fun _ h => by cases h; exact hf⟩

theorem reduce_par {g f : UPoly α} (hg : AllV V g) (hf : AllV V f) :
    reduce F' g f = reduce F g f ∧ OptV V (reduce F g f) := by
  unfold reduce
  rw [zero_congr hA]
  split
  · exact ⟨rfl, fun _ h => by cases h; exact zero_V hC⟩
  · exact reduceLoop_par hA hC hg _ f hf

theorem gcdLoop_par : ∀ (fuel : Nat) (r0 r1 : UPoly α), AllV V r0 → AllV V r1 →
    gcdLoop F' fuel r0 r1 = gcdLoop F fuel r0 r1 ∧ OptV V (gcdLoop F fuel r0 r1) := by
  intro fuel
  induction fuel with
  | zero => intro r0 r1 _ _; exact ⟨rfl, fun _ h => by cases h⟩
  | succ fuel ih =>
    intro r0 r1 h0 h1
    rw [gcdLoop, gcdLoop, isZero_congr hA, zero_congr hA]
    split
    · exact ⟨rfl, fun _ h => by cases h; exact h0⟩
    · have hgs : AllVV V [r1] := fun f hf => by rw [List.mem_singleton] at hf; exact hf ▸ h1
      have hqs : AllVV V [UPoly.zero F] := fun f hf => by
        rw [List.mem_singleton] at hf; exact hf ▸ zero_V hC
      obtain ⟨e, hv⟩ := quoRemLoop_par hA hC hgs (quoRemFuel r0) r0 _ _ h0 hqs (zero_V hC)
      rw [e]
      cases hq : quoRemLoop F [r1] (quoRemFuel r0) r0 [UPoly.zero F] (UPoly.zero F) with
      | none => exact ⟨rfl, fun _ h => by cases h⟩
      | some qr =>
        obtain ⟨q, rem⟩ := qr
        exact ih _ _ h1 (hv q rem hq).2

theorem gcd2_par {f g : UPoly α} (hf : AllV V f) (hg : AllV V g) :
    gcd2 F' f g = gcd2 F f g ∧ OptV V (gcd2 F f g) :=
  gcdLoop_par hA hC _ f g hf hg

theorem gcd_par {f : UPoly α} {gs : List (UPoly α)} (hf : AllV V f) (hgs : AllVV V gs) :
    UPoly.gcd F' f gs = UPoly.gcd F f gs ∧ OptV V (UPoly.gcd F f gs) := by
  unfold UPoly.gcd
  refine foldl_par (OptV V) (AllV V) _ _ (fun acc g hacc hg => ?_) gs (some f) hgs
    (fun _ h => by cases h; exact hf)
  cases acc with
  | none => exact ⟨rfl, fun _ h => by cases h⟩
  | some a => exact gcd2_par hA hC (hacc a rfl) hg

theorem newIdeal_par {gens : List (UPoly α)} (hg : AllVV V gens) :
    newIdeal F' gens = newIdeal F gens ∧ OptV V (newIdeal F gens) := by
  unfold newIdeal
  cases gens with
  | nil => exact ⟨rfl, fun _ h => by cases h⟩
  | cons f gs =>
    obtain ⟨e, hv⟩ := gcd_par hA hC (hg f List.mem_cons_self)
      (fun g h => hg g (List.mem_cons_of_mem _ h))
    simp only [e]
    cases hgc : UPoly.gcd F f gs with
    | none => exact ⟨rfl, fun _ h => by cases h⟩
    | some d =>
      obtain ⟨e2, hv2⟩ := normalize_par hA hC (hv d hgc)
      simp only [Option.map_some, e2, true_and]
      intro v h; cases h; exact hv2


/-! ### ring level: `reduceIn ofCoefs ofNats ofInts times pow` -/

/-- the ring `R` with the coefficient record replaced -/
def withF (R : UPoly.Ring α) (G : FOps α) : UPoly.Ring α := { R with F := G }

/-- the ring is over `F` and its modulus has valid coefficients -/
structure RingOK (F : FOps α) (V : α → Prop) (R : UPoly.Ring α) : Prop where
  hF : R.F = F
  hm : ∀ m, R.modulus = some m → AllV V m

theorem reduceIn_par {R : UPoly.Ring α} (hR : RingOK F V R) {f : UPoly α} (hf : AllV V f) :
    reduceIn (withF R F') f = reduceIn R f ∧ OptV V (reduceIn R f) := by
  unfold reduceIn withF
  cases hmod : R.modulus with
  | none => exact ⟨rfl, fun _ h => by cases h; exact hf⟩
  | some g =>
    simp only [hR.hF]
    exact reduce_par hA hC (hR.hm g hmod) hf

theorem ofCoefs_par {R : UPoly.Ring α} (hR : RingOK F V R) {cs : List α} (hcs : AllV V cs) :
    ofCoefs (withF R F') cs = ofCoefs R cs ∧ OptV V (ofCoefs R cs) := by
  unfold ofCoefs
  have hF' : (withF R F').F = F' := rfl
  rw [hF', hR.hF, zero_congr hA, hA.isZero]
  obtain ⟨e, hv⟩ := foldCoefs_par (V := V) (AllV V)
    (fun acc d c => if F.isZero c then acc else setCoef F acc d c)
    (fun acc d c => if F.isZero c then acc else setCoef F' acc d c)
    (fun acc d c hacc hc => by
      split
      · exact ⟨rfl, hacc⟩
      · exact setCoef_par hA hC hacc d hc) cs (UPoly.zero F) hcs (zero_V hC)
  rw [e]
  exact reduceIn_par hA hC hR hv

theorem times_par {R : UPoly.Ring α} (hR : RingOK F V R) {f g : UPoly α} (hf : AllV V f)
    (hg : AllV V g) :
    times (withF R F') f g = times R f g ∧ OptV V (times R f g) := by
  unfold times
  have hF' : (withF R F').F = F' := rfl
  rw [hF', hR.hF]
  obtain ⟨e, hv⟩ := mulNoReduce_par hA hC hf hg
  rw [e]
  exact reduceIn_par hA hC hR hv

theorem upowLoop_par {R : UPoly.Ring α} (hR : RingOK F V R) :
    ∀ (fuel n : Nat) (out g : UPoly α), AllV V out → AllV V g →
      UPoly.powLoop (withF R F') fuel n out g = UPoly.powLoop R fuel n out g ∧
      OptV V (UPoly.powLoop R fuel n out g) := by
  intro fuel
  induction fuel with
  | zero => intro n out g _ _; exact ⟨rfl, fun _ h => by cases h⟩
  | succ fuel ih =>
    intro n out g ho hg
    rw [UPoly.powLoop, UPoly.powLoop]
    split
    · exact ⟨rfl, fun _ h => by cases h; exact ho⟩
    · obtain ⟨e1, hv1⟩ := times_par hA hC hR ho hg
      obtain ⟨e2, hv2⟩ := times_par hA hC hR hg hg
      simp only [e1, e2]
      have ho' : OptV V (if n % 2 = 1 then times R out g else some out) := by
        split
        · exact hv1
        · exact fun _ h => by cases h; exact ho
      cases h1 : (if n % 2 = 1 then times R out g else some out) with
      | none => exact ⟨rfl, fun _ h => by cases h⟩
      | some o =>
        cases h2 : times R g g with
        | none => exact ⟨rfl, fun _ h => by cases h⟩
        | some g2 => exact ih _ _ _ (ho' o h1) (hv2 g2 h2)

theorem upow_par {R : UPoly.Ring α} (hR : RingOK F V R) {f : UPoly α} (hf : AllV V f) (n : Nat) :
    UPoly.pow (withF R F') f n = UPoly.pow R f n ∧ OptV V (UPoly.pow R f n) := by
  unfold UPoly.pow
  have hF' : (withF R F').F = F' := rfl
  obtain ⟨e, hv⟩ := ofCoefs_par hA hC hR (cs := [F.one]) (AllV.single hC.one)
  rw [hF', hA.one, hR.hF, e]
  cases h : ofCoefs R [F.one] with
  | none => exact ⟨rfl, fun _ h => by cases h⟩
  | some o => exact upowLoop_par hA hC hR 70 n o f (hv o h) hf

theorem ofNats_par {R : UPoly.Ring α} (hR : RingOK F V R) (hn : ∀ k, V (F.ofNat k)) (cs : List Nat) :
    ofNats (withF R F') cs = ofNats R cs ∧ OptV V (ofNats R cs) := by
  unfold ofNats
  have hF' : (withF R F').F = F' := rfl
  rw [hF', hA.ofNat, hR.hF]
  refine ofCoefs_par hA hC hR ?_
  intro c hc
  obtain ⟨k, _, rfl⟩ := List.mem_map.1 hc
  exact hn k

theorem ofInts_par {R : UPoly.Ring α} (hR : RingOK F V R) (hn : ∀ z, V (F.ofInt z)) (cs : List Int) :
    ofInts (withF R F') cs = ofInts R cs ∧ OptV V (ofInts R cs) := by
  unfold ofInts
  have hF' : (withF R F').F = F' := rfl
  rw [hF', hA.ofInt, hR.hF]
  refine ofCoefs_par hA hC hR ?_
  intro c hc
  obtain ⟨k, _, rfl⟩ := List.mem_map.1 hc
  exact hn k

/-! ### interpolation -/

theorem coefK_par (h1 : V (F.ofNat 1)) {points : List α} (hp : AllV V points) (ignore k : Nat) :
    coefK F' points ignore k = coefK F points ignore k ∧ V (coefK F points ignore k) := by
  unfold coefK
  rw [hA.zero, hA.ofNat]
  obtain ⟨e, hv⟩ := foldl_par V (fun _ : List Nat => True)
    (fun out combo => if combo.contains ignore then out
      else F.add out (combo.foldl (fun t i => F.mul t (points.getD i F.zero)) (F.ofNat 1)))
    (fun out combo => if combo.contains ignore then out
      else F'.add out (combo.foldl (fun t i => F'.mul t (points.getD i F.zero)) (F.ofNat 1)))
    (fun out combo ho _ => by
      split
      · exact ⟨rfl, ho⟩
      · obtain ⟨e, hv⟩ := foldl_par V (fun _ : Nat => True)
          (fun t i => F.mul t (points.getD i F.zero)) (fun t i => F'.mul t (points.getD i F.zero))
          (fun t i ht _ => ⟨hA.mul _ _ ht (hp.getD hC.zero i), hC.mul _ _ ht (hp.getD hC.zero i)⟩)
          combo (F.ofNat 1) (fun _ _ => trivial) h1
        rw [e, hA.add _ _ ho hv]
        exact ⟨rfl, hC.add _ _ ho hv⟩)
    (Auxmath.combinations points.length (points.length - 1 - k)) F.zero (fun _ _ => trivial) hC.zero
  simp only [e]
  split
  · exact ⟨hA.neg _ hv, hC.neg _ hv⟩
  · exact ⟨rfl, hv⟩

omit hC in
theorem ignoreIndex_congr (points : List α) (ignore : α) :
    ignoreIndex F' points ignore = ignoreIndex F points ignore := by
  unfold ignoreIndex; rw [hA.beq]

omit hC in
theorem allDistinct_congr (points : List α) : allDistinct F' points = allDistinct F points := by
  unfold allDistinct; rw [hA.toStr]

theorem lagrangeBasis_par (h1 : V (F.ofNat 1)) {points : List α} (hp : AllV V points) {ignore : α}
    (hi : V ignore) :
    lagrangeBasis F' points ignore = lagrangeBasis F points ignore ∧
      AllV V (lagrangeBasis F points ignore) := by
  unfold lagrangeBasis
  rw [ignoreIndex_congr hA, zero_congr hA, hA.one, hA.zero]
  obtain ⟨e1, hv1⟩ := foldl_par (AllV V) (fun _ : Nat => True)
    (fun f k => setCoef F f k (coefK F points (ignoreIndex F points ignore) k))
    (fun f k => setCoef F' f k (coefK F' points (ignoreIndex F points ignore) k))
    (fun f k hf _ => by
      obtain ⟨e, hv⟩ := coefK_par hA hC h1 hp (ignoreIndex F points ignore) k
      rw [e]
      exact setCoef_par hA hC hf k hv)
    (List.range points.length) (UPoly.zero F) (fun _ _ => trivial) (zero_V hC)
  obtain ⟨e2, hv2⟩ := foldl_par V (fun x : α × Nat => V x.1)
    (fun d (x : α × Nat) => if x.2 = ignoreIndex F points ignore then d else F.mul d (F.sub ignore x.1))
    (fun d (x : α × Nat) => if x.2 = ignoreIndex F points ignore then d else F'.mul d (F'.sub ignore x.1))
    (fun d x hd hx => by
      split
      · exact ⟨rfl, hd⟩
      · rw [hA.sub _ _ hi hx, hA.mul _ _ hd (hC.sub _ _ hi hx)]
        exact ⟨rfl, hC.mul _ _ hd (hC.sub _ _ hi hx)⟩)
    points.zipIdx F.one (fun x hx => hp _ (List.fst_mem_of_mem_zipIdx hx)) hC.one
  simp only [] at e1 e2 ⊢
  rw [e1, e2, hA.inv _ hv2]
  cases hinv : F.inv _ with
  | none => exact scale_par hA hC hv1 hC.zero
  | some i => exact scale_par hA hC hv1 (hC.inv _ i hv2 hinv)

theorem interpolate_par (h1 : V (F.ofNat 1)) {points values : List α} (hp : AllV V points)
    (hvals : AllV V values) :
    interpolate F' points values = interpolate F points values ∧
      ∀ v, interpolate F points values = .ok v → AllV V v := by
  unfold interpolate
  rw [allDistinct_congr hA, zero_congr hA, hA.isZero]
  split
  · exact ⟨rfl, fun _ h => by cases h⟩
  · split
    · exact ⟨rfl, fun _ h => by cases h⟩
    · obtain ⟨e, hv⟩ := foldl_par (AllV V) (fun x : α × α => V x.1 ∧ V x.2)
        (fun f (x : α × α) => if F.isZero x.2 then f
          else add F f (scale F (lagrangeBasis F points x.1) x.2))
        (fun f (x : α × α) => if F.isZero x.2 then f
          else add F' f (scale F' (lagrangeBasis F' points x.1) x.2))
        (fun f x hf hx => by
          split
          · exact ⟨rfl, hf⟩
          · obtain ⟨e1, hv1⟩ := lagrangeBasis_par hA hC h1 hp hx.1
            obtain ⟨e2, hv2⟩ := scale_par hA hC hv1 hx.2
            rw [e1, e2]
            exact add_par hA hC hf hv2)
        (points.zip values) (UPoly.zero F)
        (fun x hx => ⟨hp _ (List.of_mem_zip hx).1, hvals _ (List.of_mem_zip hx).2⟩) (zero_V hC)
      simp only [] at e ⊢
      rw [e]
      exact ⟨rfl, fun v h => by cases h; exact hv⟩

end Par

/-! ## `step` / `runOps` on the element-level and univariate operations -/

section StepU
variable {α : Type} {env env' : Env α} {V : Nat → α → Prop}

/-- Two environments for the univariate layer: field objects agree index by index on closed sets
    (`EnvAgree`); a representation valid in any field object is valid in field 0 (`down`: the
    coefficient setters and `Polynomial([]ff.Element)` copy elements of ANY field object into a
    polynomial over field 0 — all field objects of one history are the same field); the
    constructors from external data produce valid representations (`ofNat ofInt parse`); the
    univariate rings are over field 0 with valid moduli, and `env'` has the same rings over its own
    field 0. -/
structure EnvAgreeU (env env' : Env α) (V : Nat → α → Prop) : Prop where
  base : EnvAgree env env' V
  down : ∀ i a, V i a → V 0 a
  ofNat : ∀ i k, V i ((env.fld i).ofNat k)
  ofInt : ∀ i z, V i ((env.fld i).ofInt z)
  parse : ∀ i str v, (env.fld i).parse str = .ok v → V i v
  ringOK : ∀ i, RingOK (env.fld 0) (V 0) (env.uring i)
  ring' : ∀ i, env'.uring i = withF (env.uring i) (env'.fld 0)

/-- element registers valid in their home field, all coefficients of the univariate registers
    valid in field 0 (the first two components of `StoreOKAll`) -/
def StoreOKU (V : Nat → α → Prop) (s : St α) : Prop :=
  StoreOK V s ∧ ∀ k r, St.getL s.us k = some r → AllV (V 0) r.val

theorem StoreOKU.setU {s : St α} (hs : StoreOKU V s) (d : Nat) (r : UReg α)
    (hr : AllV (V 0) r.val) : StoreOKU V { s with us := St.setL s.us d r } := by
  refine ⟨hs.1, fun k r' hk => ?_⟩
  rw [St.getL_setL] at hk
  split at hk
  · cases hk; exact hr
  · exact hs.2 k r' hk

theorem StoreOKU.setE {s : St α} (hs : StoreOKU V s) (d : Nat) (r : EReg α)
    (hr : V r.home r.val) : StoreOKU V { s with es := St.setL s.es d r } :=
  ⟨hs.1.setE d r hr, hs.2⟩

theorem StoreOKU.foldU (home : Nat) : ∀ (kvs : List (Nat × UPoly α)) {s : St α}, StoreOKU V s →
    (∀ x ∈ kvs, AllV (V 0) x.2) →
    StoreOKU V { s with us := kvs.foldl (fun us (x : Nat × UPoly α) =>
      St.setL us x.1 { home := home, val := x.2 }) s.us } := by
  intro kvs
  induction kvs with
  | nil => intro s hs _; exact hs
  | cons x t ih =>
    intro s hs hx
    have := ih (hs.setU x.1 { home := home, val := x.2 } (hx x List.mem_cons_self))
      (fun y hy => hx y (List.mem_cons_of_mem _ hy))
    exact this

variable (h : EnvAgreeU env env' V)
include h

theorem encU_eq (f : UPoly α) : encU env' f = encU env f := by
  unfold encU F0; rw [(h.base.agree 0).enc]

theorem encU_eq' : encU env' = encU env := funext (encU_eq h)

theorem showU_eq (r : UReg α) : showU env' r = showU env r := by
  unfold showU; rw [encU_eq h]

theorem uGet_eq (s : St α) (k : Nat) : uGet env' s k = uGet env s k := by
  unfold uGet F0; rw [zero_congr (h.base.agree 0)]

theorem uGet_eq' (s : St α) : uGet env' s = uGet env s := funext (uGet_eq h s)

theorem eGet_eq' (s : St α) : eGet env' s = eGet env s := funext (eGet_eq h.base s)

theorem uGet_ok {s : St α} (hs : StoreOKU V s) (k : Nat) : AllV (V 0) (uGet env s k).val := by
  unfold uGet
  cases hg : St.getL s.us k with
  | none => exact zero_V (h.base.closed 0)
  | some r => exact hs.2 k r hg

theorem eVal_ok {s : St α} (hs : StoreOKU V s) (k : Nat) : V 0 (eGet env s k).val :=
  h.down _ _ (eGet_ok h.base hs.1 k)

/-- write a univariate register: same store, same reply, invariant kept -/
theorem putU {s : St α} (hs : StoreOKU V s) (dst : Nat) {r r' : UReg α} (e : r' = r)
    (hv : AllV (V 0) r.val) (tag : String) :
    (({ s with us := St.setL s.us dst r' }, tag ++ showU env' r') : St α × String)
      = ({ s with us := St.setL s.us dst r }, tag ++ showU env r) ∧
    StoreOKU V { s with us := St.setL s.us dst r } := by
  subst e
  exact ⟨by rw [showU_eq h], hs.setU dst _ hv⟩

/-- write an element register -/
theorem putE {s : St α} (hs : StoreOKU V s) (dst : Nat) {r r' : EReg α} (e : r' = r)
    (hv : V r.home r.val) (tag : String) :
    (({ s with es := St.setL s.es dst r' }, tag ++ showE env' r') : St α × String)
      = ({ s with es := St.setL s.es dst r }, tag ++ showE env r) ∧
    StoreOKU V { s with es := St.setL s.es dst r } := by
  subst e
  exact ⟨by rw [showE_eq h.base], hs.setE dst _ hv⟩

theorem uCheck_eq (f : UReg α) (gs : List (UReg α)) : uCheck env' f gs = uCheck env f gs := by
  unfold uCheck F0; rw [zero_congr (h.base.agree 0)]

theorem uCheck_V {f : UReg α} {gs : List (UReg α)} (hf : AllV (V 0) f.val)
    (hgs : ∀ g ∈ gs, AllV (V 0) g.val) :
    ∀ r b, uCheck env f gs = some (r, b) → AllV (V 0) r.val := by
  intro r b hr
  unfold uCheck at hr
  split at hr
  · cases hr; exact hf
  · split at hr
    · next g hg => cases hr; exact hgs g (List.mem_of_find?_eq_some hg)
    · split at hr
      · cases hr; exact zero_V (h.base.closed 0)
      · cases hr

theorem uReduce_par {r : UReg α} (hr : AllV (V 0) r.val) :
    uReduce env' r = uReduce env r ∧ AllV (V 0) (uReduce env r).val := by
  unfold uReduce uring
  rw [h.ring' r.home]
  obtain ⟨e, hv⟩ := reduceIn_par (h.base.agree 0) (h.base.closed 0) (h.ringOK r.home) hr
  rw [e]
  split
  · exact ⟨rfl, hr⟩
  · cases hred : reduceIn (env.uring r.home) r.val with
    | none => exact ⟨rfl, hr⟩
    | some v => exact ⟨rfl, hv v hred⟩

theorem uInPlace_par (op : String) {a b : UReg α} (ha : AllV (V 0) a.val) (hb : AllV (V 0) b.val) :
    uInPlace env' op a b = uInPlace env op a b ∧ AllV (V 0) (uInPlace env op a b).1.val ∧
      AllV (V 0) (uInPlace env op a b).2.1.val := by
  unfold uInPlace
  rw [uCheck_eq h]
  have hck := uCheck_V h ha (gs := [b]) (fun g hg => by rw [List.mem_singleton] at hg; exact hg ▸ hb)
  cases hc : uCheck env a [b] with
  | some rb =>
    obtain ⟨r, bb⟩ := rb
    cases bb
    · exact ⟨rfl, ha, hck r false hc⟩
    · exact ⟨rfl, hck r true hc, hck r true hc⟩
  | none =>
    simp only [F0]
    split
    · obtain ⟨e, hv⟩ := add_par (h.base.agree 0) (h.base.closed 0) ha hb
      rw [e]; exact ⟨rfl, hv, hv⟩
    · obtain ⟨e, hv⟩ := sub_par (h.base.agree 0) (h.base.closed 0) ha hb
      rw [e]; exact ⟨rfl, hv, hv⟩

theorem uTimes_par {a b : UReg α} (ha : AllV (V 0) a.val) (hb : AllV (V 0) b.val) :
    uTimes env' a b = uTimes env a b ∧ AllV (V 0) (uTimes env a b).val := by
  unfold uTimes
  rw [uCheck_eq h]
  have hck := uCheck_V h ha (gs := [b]) (fun g hg => by rw [List.mem_singleton] at hg; exact hg ▸ hb)
  cases hc : uCheck env a [b] with
  | some rb => obtain ⟨r, bb⟩ := rb; exact ⟨rfl, hck r bb hc⟩
  | none =>
    simp only [F0]
    obtain ⟨e, hv⟩ := mulNoReduce_par (h.base.agree 0) (h.base.closed 0) ha hb
    rw [e]
    exact uReduce_par h (r := { a with val := mulNoReduce (env.fld 0) a.val b.val }) hv

theorem scalarEffect_eq (e : EReg α) : scalarEffect env' e = scalarEffect env e := by
  unfold scalarEffect fld; rw [(h.base.agree e.home).isZero]

theorem uBinRes_par {s : St α} (hs : StoreOKU V s) (op : String) (a b : Nat) :
    uBinRes env' s op a b = uBinRes env s op a b ∧ AllV (V 0) (uBinRes env s op a b).val := by
  unfold uBinRes
  rw [uGet_eq h, uGet_eq h]
  split
  · exact uTimes_par h (uGet_ok h hs a) (uGet_ok h hs b)
  · obtain ⟨e, -, hv⟩ := uInPlace_par h op (uGet_ok h hs a) (uGet_ok h hs b)
    rw [e]; exact ⟨rfl, hv⟩

theorem uInRes_par {s : St α} (hs : StoreOKU V s) (op : String) (a b : Nat) :
    uInRes env' s op a b = uInRes env s op a b ∧ AllV (V 0) (uInRes env s op a b).1.val := by
  unfold uInRes
  rw [uGet_eq h, uGet_eq h]
  split
  · obtain ⟨e, hv⟩ := uTimes_par h (uGet_ok h hs a) (uGet_ok h hs b)
    simp only [e]; exact ⟨trivial, hv⟩
  · obtain ⟨e, hv, -⟩ := uInPlace_par h op (uGet_ok h hs a) (uGet_ok h hs b)
    rw [e]; exact ⟨rfl, hv⟩

theorem uUnRes_par {s : St α} (hs : StoreOKU V s) (op : String) (a : Nat) :
    uUnRes env' s op a = uUnRes env s op a ∧ AllV (V 0) (uUnRes env s op a).val := by
  unfold uUnRes
  simp only [uGet_eq h, F0]
  have ha := uGet_ok h hs a
  split
  · exact ⟨rfl, ha⟩
  · split
    · obtain ⟨e, hv⟩ := neg_par (h.base.agree 0) (h.base.closed 0) ha
      rw [e]; exact ⟨rfl, hv⟩
    · split
      · obtain ⟨e, hv⟩ := normalize_par (h.base.agree 0) (h.base.closed 0) ha
        rw [e]; exact ⟨rfl, hv⟩
      · obtain ⟨e, hv⟩ := lt_par (h.base.agree 0) (h.base.closed 0) ha
        rw [e]; exact ⟨rfl, hv⟩

theorem uScaleRes_par {s : St α} (hs : StoreOKU V s) (a e : Nat) :
    uScaleRes env' s a e = uScaleRes env s a e ∧ AllV (V 0) (uScaleRes env s a e).val := by
  unfold uScaleRes
  simp only [uGet_eq h, eGet_eq h.base, scalarEffect_eq h, F0]
  have ha := uGet_ok h hs a
  have he := eVal_ok h hs e
  cases hse : scalarEffect env (eGet env s e) with
  | none => exact ⟨rfl, ha⟩
  | some b =>
    cases b
    · rw [zero_congr (h.base.agree 0)]; exact ⟨rfl, zero_V (h.base.closed 0)⟩
    · obtain ⟨e1, hv⟩ := scale_par (h.base.agree 0) (h.base.closed 0) ha he
      rw [e1]; exact ⟨rfl, hv⟩

theorem uPowRes_par {s : St α} (hs : StoreOKU V s) (a n : Nat) :
    uPowRes env' s a n = uPowRes env s a n ∧ AllV (V 0) (uPowRes env s a n).val := by
  unfold uPowRes uring
  simp only [uGet_eq h]
  have ha := uGet_ok h hs a
  rw [h.ring']
  obtain ⟨e, hv⟩ := upow_par (h.base.agree 0) (h.base.closed 0) (h.ringOK (uGet env s a).home) ha n
  rw [e]
  split
  · exact ⟨rfl, ha⟩
  · cases hp : UPoly.pow (env.uring (uGet env s a).home) (uGet env s a).val n with
    | none => exact ⟨rfl, ha⟩
    | some v => exact ⟨rfl, hv v hp⟩


omit h in
/-- the element-level operations, all constructors except the raw decoder `enc` -/
def elemOpAll : Op → Bool
  | .eCtor _ _ how _ => how == "zero" || how == "one" || how == "gen" || how == "foreign" ||
      how == "u" || how == "s" || how == "str"
  | .eBin .. | .eUn .. | .ePow .. | .eIn .. | .eProd .. | .eSetNeg _ | .eSetU .. | .eEq ..
  | .eShow _ => true
  | .tables .. => true
  | _ => false

omit h in
/-- the univariate operations, all constructors except the raw decoder `coefs` (and `str`,
    see `uOpStr`) -/
def uOp : Op → Bool
  | .uCtor _ _ how _ => how == "nats" || how == "ints" || how == "zero" || how == "one" ||
      how == "regs" || how == "ideal"
  | .uBin .. | .uUn .. | .uScale .. | .uPow .. | .uEval .. | .uCoef .. | .uLc .. | .uIn ..
  | .uSetNeg _ | .uSetScale .. | .uSetCoef .. | .uSetZero _ | .uEmbed .. | .uQuoRem .. | .uGcd ..
  | .uInterp .. | .uEq .. | .uObs _ => true
  | _ => false

/-- the element-level operations that `elemOp` leaves out -/
theorem step_elemAll_agree (desc : FieldDesc) {s : St α} (hs : StoreOKU V s) (op : Op)
    (hop : elemOpAll op = true) :
    step env' desc s op = step env desc s op ∧ StoreOKU V (step env desc s op).1 := by
  by_cases hel : elemOp op = true
  · obtain ⟨e, hv⟩ := step_elem_agree h.base desc hs.1 op hel
    refine ⟨e, hv, fun k r hk => ?_⟩
    have hfr := step_frame' env desc s op
    have hw : op.writesU = [] := by
      cases op <;> first | rfl | (simp only [elemOp, Bool.false_eq_true] at hel)
    rw [hfr.us k (by rw [hw]; exact List.not_mem_nil)] at hk
    exact hs.2 k r hk
  · cases op <;> try (simp only [elemOpAll, Bool.false_eq_true] at hop; done)
    case eCtor dst f how arg =>
      simp only [elemOpAll, Bool.or_eq_true, beq_iff_eq] at hop
      simp only [elemOp, Bool.or_eq_true, beq_iff_eq] at hel
      rcases hop with ((hop | rfl) | rfl) | rfl
      · exact absurd hop hel
      · simp only [step, stepE, String.reduceBEq, Bool.false_eq_true, if_false, if_true, fld]
        rw [(h.base.agree f).ofNat]
        exact putE h hs dst rfl (h.ofNat f _) _
      · simp only [step, stepE, String.reduceBEq, Bool.false_eq_true, if_false, if_true, fld]
        rw [(h.base.agree f).ofInt]
        exact putE h hs dst rfl (h.ofInt f _) _
      · simp only [step, stepE, String.reduceBEq, Bool.false_eq_true, if_false, if_true, fld]
        rw [(h.base.agree f).parse]
        cases hp : (env.fld f).parse (unhex arg) with
        | error k => exact ⟨rfl, hs⟩
        | ok v => exact putE h hs dst rfl (h.parse f _ v hp) _
    case eSetU a n =>
      rw [step_eSetU, step_eSetU]
      simp only [fld, eGet_eq h.base]
      rw [(h.base.agree _).ofNat]
      exact putE h hs a rfl (h.ofNat _ n) _
    all_goals (simp only [elemOp, not_true_eq_false] at hel)


omit h in
theorem step_uEmbed (env : Env α) (desc : FieldDesc) (s : St α) (a ring : Nat) (reduce : Bool) :
    step env desc s (.uEmbed a ring reduce)
      = (if ((uGet env s a).home == 2) != (ring == 2) then (s, "err InputIncompatible")
         else
          let r : UReg α := if reduce then uReduce env { (uGet env s a) with home := ring, err :=
              if (uGet env s a).err.isErr then (uGet env s a).err.wrapInherit else .none }
            else { (uGet env s a) with home := ring }
          ({ s with us := St.setL s.us a r }, "ok " ++ showU env r)) := by
  by_cases hc : (((uGet env s a).home == 2) != (ring == 2)) = true
  · simp only [step, stepE, stepU, hc, if_true]
  · simp only [step, stepE, stepU, hc, Bool.false_eq_true, if_false]

/-- one univariate operation: same new store, same reply, invariant kept -/
theorem step_uOp_agree (desc : FieldDesc) {s : St α} (hs : StoreOKU V s) (op : Op)
    (hop : uOp op = true) :
    step env' desc s op = step env desc s op ∧ StoreOKU V (step env desc s op).1 := by
  have A := h.base.agree 0
  have C := h.base.closed 0
  cases op <;> try (simp only [uOp, Bool.false_eq_true] at hop; done)
  case uBin dst o a b =>
    obtain ⟨e, hv⟩ := uBinRes_par h hs o a b
    rw [step_uBin, step_uBin]
    exact putU h hs dst e hv _
  case uUn dst o a =>
    obtain ⟨e, hv⟩ := uUnRes_par h hs o a
    rw [step_uUn, step_uUn]
    exact putU h hs dst e hv _
  case uScale dst a e =>
    obtain ⟨e1, hv⟩ := uScaleRes_par h hs a e
    rw [step_uScale, step_uScale]
    exact putU h hs dst e1 hv _
  case uSetScale a e =>
    obtain ⟨e1, hv⟩ := uScaleRes_par h hs a e
    rw [step_uSetScale, step_uSetScale]
    exact putU h hs a e1 hv _
  case uPow dst a n =>
    obtain ⟨e, hv⟩ := uPowRes_par h hs a n
    rw [step_uPow, step_uPow]
    exact putU h hs dst e hv _
  case uIn o a b =>
    obtain ⟨e, hv⟩ := uInRes_par h hs o a b
    rw [step_uIn, step_uIn, e, showU_eq h]
    exact ⟨rfl, hs.setU _ _ hv⟩
  case uSetNeg a =>
    rw [step_uSetNeg, step_uSetNeg]
    simp only [uGet_eq h, F0]
    obtain ⟨e, hv⟩ := neg_par A C (uGet_ok h hs a)
    rw [e]
    exact putU h hs a rfl hv _
  case uSetZero a =>
    rw [step_uSetZero, step_uSetZero]
    simp only [uGet_eq h, F0]
    rw [zero_congr A]
    exact putU h hs a rfl (zero_V C) _
  case uSetCoef o a d e =>
    rw [step_uSetCoef, step_uSetCoef]
    simp only [uGet_eq h, eGet_eq h.base, F0]
    have ha := uGet_ok h hs a
    have he := eVal_ok h hs e
    rw [A.isZero, coef_congr A]
    obtain ⟨e1, hv1⟩ := setCoef_par A C ha d he
    obtain ⟨e2, hv2⟩ := incCoef_par A C ha d he
    obtain ⟨e3, hv3⟩ := decCoef_par A C ha d he
    rw [e1, e2, e3]
    refine putU h hs a rfl ?_ _
    show AllV (V 0) (if _ then _ else _)
    split
    · exact ha
    · split
      · exact hv1
      · split
        · exact hv2
        · exact hv3
  case uEval dst a e =>
    simp only [step, stepE, stepU, uGet_eq h, eGet_eq h.base, F0]
    have ha := uGet_ok h hs a
    have he := eVal_ok h hs e
    obtain ⟨e1, hv1⟩ := eval_par A C ha he
    obtain ⟨e2, hv2⟩ := eval_par A C ha C.one
    rw [e1, A.one, e2]
    refine putE h hs dst rfl ?_ _
    show V 0 (if _ then _ else _)
    split
    · exact hv1
    · exact hv2
  case uCoef dst a d =>
    simp only [step, stepE, stepU, uGet_eq h, F0]
    rw [coef_congr A]
    exact putE h hs dst rfl (coef_V C (uGet_ok h hs a) d) _
  case uLc dst a =>
    simp only [step, stepE, stepU, uGet_eq h, F0]
    rw [lc_congr A]
    exact putE h hs dst rfl (lc_V C (uGet_ok h hs a)) _
  case uEmbed a ring reduce =>
    rw [step_uEmbed, step_uEmbed]
    simp only [uGet_eq h]
    have ha := uGet_ok h hs a
    split
    · exact ⟨rfl, hs⟩
    · cases reduce
      · simp only [Bool.false_eq_true, if_false]
        exact putU h hs a (r := { (uGet env s a) with home := ring }) rfl ha _
      · obtain ⟨e, hv⟩ := uReduce_par h (r := UReg.mk ring (uGet env s a).val
          (if (uGet env s a).err.isErr = true then (uGet env s a).err.wrapInherit else Err.none)) ha
        simp only [if_true]
        exact putU h hs a e hv _
  case uEq a b =>
    simp only [step, stepE, stepU, uGet_eq h, F0]
    rw [equal_congr A]
    exact ⟨rfl, hs⟩
  case uObs a =>
    simp only [step, stepE, stepU, uGet_eq h, F0, uring]
    rw [lc_congr A, A.enc, degrees_congr A, nTerms_congr A, isZero_congr A, isOne_congr A,
      isMonomial_congr A, toStr_congr A, h.ring']
    exact ⟨rfl, hs⟩
  case uInterp dst ring pts vals =>
    simp only [step, stepE, stepU, eGet_eq' h, F0]
    have hp : AllV (V 0) (pts.map fun k => (eGet env s k).val) := by
      intro c hc; obtain ⟨k, _, rfl⟩ := List.mem_map.1 hc; exact eVal_ok h hs k
    have hvs : AllV (V 0) (vals.map fun k => (eGet env s k).val) := by
      intro c hc; obtain ⟨k, _, rfl⟩ := List.mem_map.1 hc; exact eVal_ok h hs k
    obtain ⟨e, hv⟩ := interpolate_par A C (h.ofNat 0 1) hp hvs
    rw [e]
    cases hi : interpolate (env.fld 0) (pts.map fun k => (eGet env s k).val)
        (vals.map fun k => (eGet env s k).val) with
    | error k => exact ⟨rfl, hs⟩
    | ok v => exact putU h hs dst rfl (hv v hi) _
  case uGcd dst gs =>
    simp only [step, stepE, stepU, stepB, stepT, uGet_eq' h, F0, uCheck_eq h]
    cases hgs : gs.map (uGet env s) with
    | nil => exact ⟨rfl, hs⟩
    | cons f rest =>
      have hall : ∀ g ∈ gs.map (uGet env s), AllV (V 0) g.val := by
        intro g hg; obtain ⟨k, _, rfl⟩ := List.mem_map.1 hg; exact uGet_ok h hs k
      rw [hgs] at hall
      have hf := hall f List.mem_cons_self
      have hrest : AllVV (V 0) (rest.map (·.val)) := by
        intro g hg; obtain ⟨r, hr, rfl⟩ := List.mem_map.1 hg
        exact hall r (List.mem_cons_of_mem _ hr)
      simp only []
      split_ifs with c1 c2
      · exact ⟨rfl, hs⟩
      · exact putU h hs dst rfl hf _
      · cases hc : uCheck env f rest with
        | some rb => exact ⟨rfl, hs⟩
        | none =>
          obtain ⟨e, hv⟩ := gcd_par A C hf hrest
          rw [e]
          cases hg : UPoly.gcd (env.fld 0) f.val (rest.map (·.val)) with
          | none => exact ⟨rfl, hs⟩
          | some g => exact putU h hs dst (r := { home := f.home, val := g }) rfl (hv g hg) _
  case uQuoRem dsts a gs =>
    simp only [step, stepE, stepU, uGet_eq' h, uGet_eq h, F0, uCheck_eq h, encU_eq' h]
    have ha := uGet_ok h hs a
    have hgs : AllVV (V 0) ((gs.map (uGet env s)).map (·.val)) := by
      intro g hg
      obtain ⟨r, hr, rfl⟩ := List.mem_map.1 hg
      obtain ⟨k, _, rfl⟩ := List.mem_map.1 hr
      exact uGet_ok h hs k
    cases hc : uCheck env (uGet env s a) (gs.map (uGet env s)) with
    | some rb => exact ⟨rfl, hs⟩
    | none =>
      obtain ⟨e, hv⟩ := quoRem_par A C (quoRemFuel (uGet env s a).val) ha hgs
      simp only [e]
      cases hq : quoRem (env.fld 0) (quoRemFuel (uGet env s a).val) (uGet env s a).val
          ((gs.map (uGet env s)).map (·.val)) with
      | error k => exact ⟨rfl, hs⟩
      | ok o =>
        cases o with
        | none => exact ⟨rfl, hs⟩
        | some qr =>
          obtain ⟨qs, r⟩ := qr
          obtain ⟨hq1, hq2⟩ := hv qs r hq
          refine ⟨rfl, ?_⟩
          refine StoreOKU.foldU (uGet env s a).home (dsts.zip (qs ++ [r])) hs ?_
          intro x hx
          have := (List.of_mem_zip hx).2
          rcases List.mem_append.1 this with h1 | h1
          · exact hq1 _ h1
          · rw [List.mem_singleton] at h1; rw [h1]; exact hq2
  case uCtor dst ring how arg =>
    simp only [uOp, Bool.or_eq_true, beq_iff_eq] at hop
    have hR := h.ringOK ring
    have fin : ∀ (o o' : Option (UPoly α)), o' = o → OptV (V 0) o →
        ((({ s with us := St.setL s.us dst (match o' with
            | some v => ({ home := ring, val := v } : UReg α)
            | none => { home := ring, val := UPoly.zero (env'.fld 0), err := .kind .internal }) },
          "ok " ++ showU env' (match o' with
            | some v => ({ home := ring, val := v } : UReg α)
            | none => { home := ring, val := UPoly.zero (env'.fld 0), err := .kind .internal })) :
            St α × String)
        = ({ s with us := St.setL s.us dst (match o with
            | some v => ({ home := ring, val := v } : UReg α)
            | none => { home := ring, val := UPoly.zero (env.fld 0), err := .kind .internal }) },
          "ok " ++ showU env (match o with
            | some v => ({ home := ring, val := v } : UReg α)
            | none => { home := ring, val := UPoly.zero (env.fld 0), err := .kind .internal }))) ∧
        StoreOKU V { s with us := St.setL s.us dst (match o with
            | some v => ({ home := ring, val := v } : UReg α)
            | none => { home := ring, val := UPoly.zero (env.fld 0), err := .kind .internal }) } := by
      intro o o' e ho
      subst e
      cases o' with
      | none =>
        simp only [zero_congr A]
        exact putU h hs dst rfl (zero_V C) _
      | some v => exact putU h hs dst rfl (ho v rfl) _
    have hF' : (uring env' ring).F = env'.fld 0 := by
      unfold uring; rw [h.ring']; rfl
    have hF : (uring env ring).F = env.fld 0 := hR.hF
    have hu' : uring env' ring = withF (uring env ring) (env'.fld 0) := h.ring' ring
    rcases hop with ((((rfl | rfl) | rfl) | rfl) | rfl) | rfl
    · simp only [step, stepE, stepU, String.reduceBEq, Bool.false_eq_true, if_false, if_true, hF', hF]
      rw [hu']
      obtain ⟨e, hv⟩ := ofNats_par A C hR (h.ofNat 0) (parseNatList arg)
      exact fin _ _ e hv
    · simp only [step, stepE, stepU, String.reduceBEq, Bool.false_eq_true, if_false, if_true, hF', hF]
      rw [hu']
      obtain ⟨e, hv⟩ := ofInts_par A C hR (h.ofInt 0) (parseIntList arg)
      exact fin _ _ e hv
    · simp only [step, stepE, stepU, String.reduceBEq, Bool.false_eq_true, if_false, if_true, hF', hF]
      exact fin _ _ (congrArg some (zero_congr A)) (fun v hv => by cases hv; exact zero_V C)
    · simp only [step, stepE, stepU, String.reduceBEq, Bool.false_eq_true, if_false, if_true, hF', hF]
      exact fin _ _ (congrArg some (one_congr A)) (fun v hv => by cases hv; exact one_V C)
    · simp only [step, stepE, stepU, String.reduceBEq, Bool.false_eq_true, if_false, if_true, hF', hF,
        eGet_eq' h]
      rw [hu']
      refine fin _ _ (ofCoefs_par A C hR ?_).1 (ofCoefs_par A C hR ?_).2 <;>
      · intro c hc; obtain ⟨t, _, rfl⟩ := List.mem_map.1 hc; exact eVal_ok h hs _
    · simp only [step, stepE, stepU, String.reduceBEq, Bool.false_eq_true, if_false, if_true, hF', hF,
        uGet_eq' h]
      generalize (if arg == "-" then [] else arg.splitOn ",") = ts
      have hgens : AllVV (V 0) ((ts.map fun t =>
          uGet env s ((t.drop 1).toString.toNat!)).map (·.val)) := by
        intro g hg
        obtain ⟨r, hr, rfl⟩ := List.mem_map.1 hg
        obtain ⟨k, _, rfl⟩ := List.mem_map.1 hr
        exact uGet_ok h hs _
      obtain ⟨e, hv⟩ := newIdeal_par A C hgens
      split_ifs with c1 c2
      · exact ⟨rfl, hs⟩
      · exact ⟨rfl, hs⟩
      · rw [e]
        cases hn : newIdeal (env.fld 0) _ with
        | none => exact ⟨rfl, hs⟩
        | some g =>
          simp only [isZero_congr A]
          split_ifs with c3
          · exact ⟨rfl, hs⟩
          · exact putU h hs dst (r := { home := ring, val := g }) rfl (hv g hn) _

omit h in
/-- element-level and univariate operations whose constructors do not decode raw wire data
    (`eCtor … "enc"`, `uCtor … "coefs"`), `uCtor … "str"` excepted -/
def elemOrUOp (op : Op) : Bool := elemOpAll op || uOp op

theorem step_elemOrU_agree (desc : FieldDesc) {s : St α} (hs : StoreOKU V s) (op : Op)
    (hop : elemOrUOp op = true) :
    step env' desc s op = step env desc s op ∧ StoreOKU V (step env desc s op).1 := by
  unfold elemOrUOp at hop
  rw [Bool.or_eq_true] at hop
  rcases hop with hop | hop
  · exact step_elemAll_agree h desc hs op hop
  · exact step_uOp_agree h desc hs op hop

theorem runOps_elemOrU_agree (desc : FieldDesc) (ops : List Op)
    (hops : ∀ op ∈ ops, elemOrUOp op = true) :
    ∀ {s : St α}, StoreOKU V s →
      runOps env' desc s ops = runOps env desc s ops ∧ StoreOKU V (runOps env desc s ops).1 := by
  induction ops with
  | nil => intro s hs; exact ⟨rfl, hs⟩
  | cons op t ih =>
    intro s hs
    obtain ⟨e, hs'⟩ := step_elemOrU_agree h desc hs op (hops op List.mem_cons_self)
    obtain ⟨e2, hs2⟩ := ih (fun o ho => hops o (List.mem_cons_of_mem _ ho)) hs'
    simp only [runOps]
    rw [e, e2]
    exact ⟨rfl, hs2⟩

end StepU

/-! ## prime fields: the constructors from external data produce reduced words -/

theorem prime_parse_lt {p : Nat} (hp : 0 < p) (h32 : p - 1 < 2 ^ 32) {str : String} {v : Nat}
    (hv : Prime.parse p str = .ok v) : v < p := by
  unfold Prime.parse at hv
  dsimp only at hv
  split_ifs at hv <;> injection hv with hv <;> subst hv
  · exact Prime.fromSigned_lt hp h32 _
  · exact Prime.element_lt hp

end Tables
end Algobra
