/-
  Proofs/CodeTies2.lean — helper lemmas for Props/CodeTies2.lean: equivalence of the MACHINE-TRANSLATED
  arithmetic cores of eight methods (`go_primefield_Element_{Add,Sub,Prod,SetNeg,Inv}_core`,
  `go_primefield_Field_ElementFromSigned_core`, `go_binfield_Element_{Add,Prod}_core` of
  `Algobra/Gen/Code.lean`, regenerated from /repo by /verif/extract/translate.go on every run) with the
  hand-written model functions `Prime.*` / `Bin.*` of Model/Field.lean.

  Core Lean + the model + the word lemmas of Proofs/CodeTies.lean; no Mathlib.
-/
import Algobra.Proofs.CodeTies

namespace Algobra
namespace CodeTies2Proofs
open Algobra Algobra.Gen.Code Algobra.CodeTiesProofs

/-! ### 7. binfield `Add` -/

theorem bin_add (a b : Nat) : go_binfield_Element_Add_core a b = a ^^^ b := rfl

/-! ### 1. primefield `Add` -/

theorem prime_add (a b : Nat) (lookup : Nat → Nat → Nat) (p : Nat) :
    go_primefield_Element_Add_core a b lookup p false = Prime.add p a b := rfl

theorem prime_add_table (a b : Nat) (lookup : Nat → Nat → Nat) (p : Nat) :
    go_primefield_Element_Add_core a b lookup p true = lookup a b := rfl

/-! ### 3. primefield `Prod` -/

theorem prime_prod (a b c : Nat) (lookup : Nat → Nat → Nat) (p : Nat) :
    go_primefield_Element_Prod_core a b c lookup p false (decide (b = 0)) (decide (c = 0))
      = Prime.mul p b c := by
  unfold go_primefield_Element_Prod_core Prime.mul
  simp only [decide_eq_true_eq, Bool.false_eq_true, ↓reduceIte]

theorem prime_prod_table (a b c : Nat) (lookup : Nat → Nat → Nat) (p : Nat)
    (hb : b ≠ 0) (hc : c ≠ 0) :
    go_primefield_Element_Prod_core a b c lookup p true (decide (b = 0)) (decide (c = 0))
      = lookup b c := by
  unfold go_primefield_Element_Prod_core
  simp only [decide_eq_true_eq, hb, hc, or_self, ↓reduceIte]

theorem prime_prod_table_zero (a b c : Nat) (lookup : Nat → Nat → Nat) (p : Nat) (t : Bool)
    (h : b = 0 ∨ c = 0) :
    go_primefield_Element_Prod_core a b c lookup p t (decide (b = 0)) (decide (c = 0)) = 0 := by
  unfold go_primefield_Element_Prod_core
  simp only [decide_eq_true_eq, h, ↓reduceIte]

/-! ### 2. primefield `Sub` -/

/-- first branch (`a ≥ b`) needs only `a < 2^64`; second branch (`a < b`) needs only `b ≤ p` -/
theorem prime_sub {a b p : Nat} (ha : a ≥ b → a < 2 ^ 64) (hb : a < b → b ≤ p) :
    go_primefield_Element_Sub_core a b p = Prime.sub p a b := by
  unfold go_primefield_Element_Sub_core Prime.sub
  by_cases h : a ≥ b
  · simp only [h, ↓reduceIte]
    exact wsub_of_le (ha h) h
  · simp only [h, ↓reduceIte]
    have hbp := hb (Nat.lt_of_not_le h)
    unfold w64 wsub
    omega

/-! ### 4. primefield `SetNeg` -/

theorem prime_setneg {a p : Nat} (ha : a ≤ p) (hp : p < 2 ^ 64) :
    go_primefield_Element_SetNeg_core a p = Prime.neg p a := by
  unfold go_primefield_Element_SetNeg_core Prime.neg
  simp only [wsub_of_le hp ha]

/-! ### 5. primefield `ElementFromSigned` -/

theorem wordToInt_of_lt {p : Nat} (hp : p < 2 ^ 63) : wordToInt p = (p : Int) := by
  unfold wordToInt
  apply wrapInt_of_small
  · show -(2 ^ 63 : Int) ≤ (p : Int)
    omega
  · show (p : Int) < 2 ^ 63
    omega

/-- general form: `f_element` is any function; either `p > 0` (the Go code panics on `% 0`) or the
    argument is in the range of a Go `int` -/
theorem prime_fromSigned_gen {p : Nat} (hp : p < 2 ^ 63) (F : Nat → Nat) (v : Int)
    (hv : 0 < p ∨ (-(2 ^ 63) ≤ v ∧ v < 2 ^ 63)) :
    go_primefield_Field_ElementFromSigned_core p F v
      = F (intToWord (if goMod v (Int.ofNat p) < 0 then goMod v (Int.ofNat p) + Int.ofNat p
            else goMod v (Int.ofNat p))) := by
  unfold go_primefield_Field_ElementFromSigned_core goMod
  rw [wordToInt_of_lt hp]
  show (if Int.tmod v (p : Int) < 0 then F (intToWord (wrapInt (Int.tmod v (p : Int) + (p : Int))))
        else F (intToWord (Int.tmod v (p : Int))))
      = F (intToWord (if Int.tmod v (p : Int) < 0 then Int.tmod v (p : Int) + (p : Int)
            else Int.tmod v (p : Int)))
  by_cases hneg : Int.tmod v (p : Int) < 0
  · simp only [hneg, ↓reduceIte]
    have hw : wrapInt (Int.tmod v (p : Int) + (p : Int)) = Int.tmod v (p : Int) + (p : Int) := by
      rcases hv with h0 | hr
      · have h1 : -((p : Int)) < Int.tmod v (p : Int) := by
          have := Int.lt_tmod_of_pos v (b := (p : Int)) (by omega)
          omega
        apply wrapInt_of_small <;> omega
      · rcases Nat.eq_zero_or_pos p with h0 | h0
        · subst h0
          simp only [Int.natCast_zero, Int.tmod_zero, Int.add_zero] at hneg ⊢
          apply wrapInt_of_small <;> omega
        · have h1 : -((p : Int)) < Int.tmod v (p : Int) := by
            have := Int.lt_tmod_of_pos v (b := (p : Int)) (by omega)
            omega
          apply wrapInt_of_small <;> omega
    rw [hw]
  · simp only [hneg, ↓reduceIte]

theorem prime_fromSigned {p : Nat} (hp : p < 2 ^ 63) (v : Int)
    (hv : 0 < p ∨ (-(2 ^ 63) ≤ v ∧ v < 2 ^ 63)) :
    go_primefield_Field_ElementFromSigned_core p (Prime.element p) v = Prime.fromSigned p v := by
  rw [prime_fromSigned_gen hp _ v hv]
  rfl

/-! ### 8. binfield `Prod` -/

theorem bin_prod_loop (n m : Nat) (fuel : Nat) : ∀ res x y, x < 2 ^ fuel →
    (go_binfield_Element_Prod_core_loop1 m n fuel (res, x, y)).1 = Bin.mulLoop n m res x y := by
  induction fuel with
  | zero =>
    intro res x y h
    have : x = 0 := by simpa using h
    subst this
    rw [Bin.mulLoop]
    simp [go_binfield_Element_Prod_core_loop1]
  | succ f ih =>
    intro res x y h
    rw [Bin.mulLoop]
    by_cases h0 : x = 0
    · subst h0; simp [go_binfield_Element_Prod_core_loop1]
    · have hpos : x > 0 := Nat.pos_of_ne_zero h0
      have hlt : x / 2 < 2 ^ f := by rw [Nat.pow_succ] at h; omega
      simp only [go_binfield_Element_Prod_core_loop1, hpos, ↓reduceIte, and1, shr1, h0, ↓reduceDIte]
      exact ih _ _ _ hlt

/-- parameter order of the translated function: `a.val`, `bb.val`, `cc.val`, `a.field.extDeg`,
    `a.field.conwayPoly`; no bound on `c`, `n`, `m` needed -/
theorem bin_prod (a : Nat) {b : Nat} (c n m : Nat) (hb : b < 2 ^ 64) :
    go_binfield_Element_Prod_core a b c n m = Bin.mul n m b c :=
  bin_prod_loop n m loopFuel 0 b c (lt_two_pow_fuel hb)

/-! ### 6. primefield `Inv` — fuel as for `Gcd`: with `r1 ≤ r0` the product `r0 * r1` at least halves -/

theorem inv_loop_succ (f : Nat) (i0 i1 : Int) (r0 r1 : Nat) (h : r1 > 0) :
    go_primefield_Element_Inv_core_loop1 (f + 1) (i0, i1, r0, r1)
      = go_primefield_Element_Inv_core_loop1 f
          (i1, wrapInt (i0 - wrapInt (wordToInt (r0 / r1) * i1)), r1,
            wsub r0 (w64 (r0 / r1 * r1))) := by
  simp only [go_primefield_Element_Inv_core_loop1, h, ↓reduceIte]

theorem inv_loop (fuel : Nat) : ∀ (i0 i1 : Int) (r0 r1 : Nat), r1 ≤ r0 → r0 < 2 ^ 64 →
    r1 * r0 < 2 ^ fuel →
    (go_primefield_Element_Inv_core_loop1 fuel (i0, i1, r0, r1)).1 = Prime.invLoop r0 r1 i0 i1 := by
  induction fuel with
  | zero =>
    intro i0 i1 r0 r1 hle hr0 h
    have h0 : r1 = 0 := by
      rcases Nat.eq_zero_or_pos r1 with h0 | h0
      · exact h0
      · have : 1 ≤ r1 * r0 := Nat.mul_pos h0 (Nat.lt_of_lt_of_le h0 hle)
        simp at h; omega
    subst h0
    rw [Prime.invLoop]
    simp [go_primefield_Element_Inv_core_loop1]
  | succ f ih =>
    intro i0 i1 r0 r1 hle hr0 h
    rw [Prime.invLoop]
    by_cases h0 : r1 = 0
    · subst h0; simp [go_primefield_Element_Inv_core_loop1]
    · have hpos : r1 > 0 := Nat.pos_of_ne_zero h0
      rw [inv_loop_succ f i0 i1 r0 r1 hpos, gcd_step_word hr0]
      simp only [h0, ↓reduceDIte]
      rw [sub_div_mul]
      have hr : r0 % r1 < r1 := Nat.mod_lt _ hpos
      have hq : 1 ≤ r0 / r1 := (Nat.one_le_div_iff hpos).2 hle
      have hdm := Nat.div_add_mod r0 r1
      have hge : r1 + r0 % r1 ≤ r0 := by
        have : r1 * 1 ≤ r1 * (r0 / r1) := Nat.mul_le_mul_left r1 hq
        omega
      have h2 : 2 * (r0 % r1 * r1) < 2 ^ (f + 1) := by
        have : 2 * (r0 % r1) < r0 := by omega
        have : 2 * (r0 % r1) * r1 < r0 * r1 := Nat.mul_lt_mul_of_pos_right this hpos
        rw [Nat.mul_comm r0 r1] at this
        rw [← Nat.mul_assoc]
        omega
      exact ih _ _ r1 (r0 % r1) (Nat.le_of_lt hr) (Nat.lt_of_le_of_lt hle hr0)
        (by rw [Nat.pow_succ] at h2; omega)

theorem inv_fuel (g : Nat) (hg : 128 ≤ g) (i0 i1 : Int) {r0 r1 : Nat}
    (hr0 : r0 < 2 ^ 64) (hr1 : r1 < 2 ^ 64) :
    (go_primefield_Element_Inv_core_loop1 (g + 1) (i0, i1, r0, r1)).1
      = Prime.invLoop r0 r1 i0 i1 := by
  by_cases hle : r1 ≤ r0
  · exact inv_loop _ _ _ _ _ hle hr0 (mul_lt_two_pow hr1 hr0 (by omega))
  · have hlt : r0 < r1 := Nat.lt_of_not_le hle
    have hpos : r1 > 0 := by omega
    rw [inv_loop_succ _ i0 i1 r0 r1 hpos, gcd_step_word hr0, sub_div_mul, Nat.mod_eq_of_lt hlt]
    rw [Prime.invLoop]
    simp only [show r1 ≠ 0 by omega, ↓reduceDIte]
    rw [Nat.mod_eq_of_lt hlt]
    exact inv_loop _ _ _ _ _ (Nat.le_of_lt hlt) hr1 (mul_lt_two_pow hr0 hr1 hg)

/-- the translated core with an arbitrary `ElementFromSigned` -/
theorem prime_inv_gen {p a : Nat} (hp : p < 2 ^ 64) (ha : a < 2 ^ 64) (F : Int → Nat) :
    go_primefield_Element_Inv_core p a F = F (Prime.invLoop p a 0 1) := by
  have h := inv_fuel (loopFuel - 1) (by decide) 0 1 hp ha
  rw [show loopFuel - 1 + 1 = loopFuel by decide] at h
  rw [← h]
  rfl

theorem prime_inv {p a : Nat} (hp : p < 2 ^ 64) (ha : a < 2 ^ 64) (h0 : a ≠ 0) :
    Prime.inv p a = some (go_primefield_Element_Inv_core p a (Prime.fromSigned p)) := by
  rw [prime_inv_gen hp ha]
  unfold Prime.inv
  simp only [h0, ↓reduceIte]

/-! ### 9. `auxmath.FactorizePrimePower`

The translator duplicates the continuation of `if q%2 == 0 {…} else if q%3 == 0 {…}` into the three
branches, so the scan loop appears as `_loop1/3/5` and the divide-out loop as `_loop2/4/6`. -/

theorem fpp_loop3_eq : go_auxmath_FactorizePrimePower_loop3 = go_auxmath_FactorizePrimePower_loop1 := by
  funext maxP q fuel
  induction fuel with
  | zero => funext st; rfl
  | succ f ih =>
    funext st
    obtain ⟨k, p⟩ := st
    simp only [go_auxmath_FactorizePrimePower_loop3, go_auxmath_FactorizePrimePower_loop1, ih]

theorem fpp_loop5_eq : go_auxmath_FactorizePrimePower_loop5 = go_auxmath_FactorizePrimePower_loop1 := by
  funext maxP q fuel
  induction fuel with
  | zero => funext st; rfl
  | succ f ih =>
    funext st
    obtain ⟨k, p⟩ := st
    simp only [go_auxmath_FactorizePrimePower_loop5, go_auxmath_FactorizePrimePower_loop1, ih]

theorem fpp_loop4_eq : go_auxmath_FactorizePrimePower_loop4 = go_auxmath_FactorizePrimePower_loop2 := by
  funext p fuel
  induction fuel with
  | zero => funext st; rfl
  | succ f ih =>
    funext st
    obtain ⟨n, q, r⟩ := st
    simp only [go_auxmath_FactorizePrimePower_loop4, go_auxmath_FactorizePrimePower_loop2, ih]

theorem fpp_loop6_eq : go_auxmath_FactorizePrimePower_loop6 = go_auxmath_FactorizePrimePower_loop2 := by
  funext p fuel
  induction fuel with
  | zero => funext st; rfl
  | succ f ih =>
    funext st
    obtain ⟨n, q, r⟩ := st
    simp only [go_auxmath_FactorizePrimePower_loop6, go_auxmath_FactorizePrimePower_loop2, ih]

/-- the scan loop does nothing once a divisor has been recorded -/
theorem fpp_scan_exit (maxP q fuel k p : Nat) (hp : p ≠ 0) :
    go_auxmath_FactorizePrimePower_loop1 maxP q fuel (k, p) = (k, p) := by
  cases fuel <;> simp [go_auxmath_FactorizePrimePower_loop1, hp]

/-- scan loop vs `Auxmath.fppScan`: `2 ≤ k` (so that `k-1 ≠ 0`), `maxP + 7 < 2^64` (so that `k + 6`
    does not wrap while `k - 1 ≤ maxP`), fuel at least the model's termination measure -/
theorem fpp_scan_loop (maxP q : Nat) (hm : maxP + 7 < 2 ^ 64) (fuel : Nat) : ∀ k, 2 ≤ k →
    k < 2 ^ 64 → maxP + 7 - k ≤ fuel →
    (go_auxmath_FactorizePrimePower_loop1 maxP q fuel (k, 0)).2 = Auxmath.fppScan q maxP k := by
  induction fuel with
  | zero =>
    intro k hk2 hk hf
    rw [Auxmath.fppScan]
    have : ¬ (k - 1 ≤ maxP) := by omega
    simp [go_auxmath_FactorizePrimePower_loop1, this]
  | succ f ih =>
    intro k hk2 hk hf
    rw [Auxmath.fppScan]
    have hs : wsub k 1 = k - 1 := wsub_of_le hk (by omega)
    by_cases hle : k - 1 ≤ maxP
    · have h6 : w64 (k + 6) = k + 6 := w64_of_lt (by omega)
      have h1 : w64 (k + 1) = k + 1 := w64_of_lt (by omega)
      simp only [go_auxmath_FactorizePrimePower_loop1, hs, hle, and_self, ↓reduceIte, ↓reduceDIte,
        h6, h1]
      by_cases ha : q % (k - 1) = 0
      · simp only [ha, ↓reduceIte]
        rw [fpp_scan_exit _ _ _ _ _ (by omega)]
      · simp only [ha, ↓reduceIte]
        by_cases hb : q % (k + 1) = 0
        · simp only [hb, ↓reduceIte]
          rw [fpp_scan_exit _ _ _ _ _ (by omega)]
        · simp only [hb, ↓reduceIte]
          exact ih (k + 6) (by omega) (by omega) (by omega)
    · simp only [go_auxmath_FactorizePrimePower_loop1, hs, hle, and_false, ↓reduceIte, ↓reduceDIte]

/-- a non-zero result of the scan from `k ≥ 6` is at least 5 -/
theorem fppScan_ge (q maxP k : Nat) (hk : 6 ≤ k) :
    Auxmath.fppScan q maxP k = 0 ∨ 5 ≤ Auxmath.fppScan q maxP k := by
  fun_induction Auxmath.fppScan q maxP k with
  | case1 k h h1 => right; omega
  | case2 k h h1 h2 => right; omega
  | case3 k h h1 h2 ih => exact ih (by omega)
  | case4 k h => left; rfl

/-- what the code returns after the divide-out loop: the early-return slot if set, else `(p, n, nil)` -/
def fppResult (p : Nat) (st : Nat × Nat × Option (Nat × Nat × Option Kind)) :
    Nat × Nat × Option Kind :=
  match st.2.2 with
  | some v => v
  | none => (p, st.1, none)

theorem fpp_divide_exit (p fuel n q : Nat) (v : Nat × Nat × Option Kind) :
    go_auxmath_FactorizePrimePower_loop2 p fuel (n, q, some v) = (n, q, some v) := by
  cases fuel <;> simp [go_auxmath_FactorizePrimePower_loop2]

/-- divide-out loop vs `Auxmath.fppDivide`: `2 ≤ p`; `n + q < 2^64` is an invariant (so `n + 1` does
    not wrap); fuel at least `bitLen q` -/
theorem fpp_divide_loop {p : Nat} (hp : 2 ≤ p) (fuel : Nat) : ∀ n q, q < 2 ^ fuel → n + q < 2 ^ 64 →
    fppResult p (go_auxmath_FactorizePrimePower_loop2 p fuel (n, q, none))
      = match Auxmath.fppDivide q p n with
        | some n' => (p, n', none)
        | none => (0, 0, some Kind.inputValue) := by
  induction fuel with
  | zero =>
    intro n q hq hn
    have : q = 0 := by simpa using hq
    subst this
    rw [Auxmath.fppDivide]
    simp [go_auxmath_FactorizePrimePower_loop2, fppResult]
  | succ f ih =>
    intro n q hq hn
    rw [Auxmath.fppDivide]
    by_cases h1 : q ≤ 1
    · have : ¬ (q > 1) := by omega
      simp [go_auxmath_FactorizePrimePower_loop2, fppResult, h1, this]
    · have hgt : q > 1 := by omega
      have hp1 : ¬ (p ≤ 1) := by omega
      by_cases hd : q % p = 0
      · have hdiv : q / p ≤ q / 2 := Nat.div_le_div_left hp (by decide)
        have hw : w64 (n + 1) = n + 1 := w64_of_lt (by omega)
        simp only [go_auxmath_FactorizePrimePower_loop2, hgt, Option.isNone_none, and_self,
          ↓reduceIte, ne_eq, hd, not_true_eq_false, h1, hp1, ↓reduceDIte, hw]
        exact ih (n + 1) (q / p) (by rw [Nat.pow_succ] at hq; omega) (by omega)
      · simp only [go_auxmath_FactorizePrimePower_loop2, hgt, Option.isNone_none, and_self,
          ↓reduceIte, ne_eq, hd, not_false_eq_true, h1, hp1, ↓reduceDIte, fpp_divide_exit, fppResult]

theorem boundSqrt_le {a : Nat} (ha : a < 2 ^ 64) : Auxmath.boundSqrt a ≤ 2 ^ 32 := by
  have hb := bitLen_le_64 ha
  unfold Auxmath.boundSqrt
  split
  · exact Nat.zero_le _
  · simp only
    apply Nat.le_trans (Nat.mod_le _ _)
    rw [Nat.shiftLeft_eq, Nat.one_mul]
    apply Nat.pow_le_pow_right (by decide)
    split <;> omega

theorem loopFuel_eq : loopFuel = 2 ^ 64 := rfl

/-- the code after the scan, for a recorded divisor `p ≥ 2` -/
theorem fpp_after_scan {p q : Nat} (hp : 2 ≤ p) (hq : q < 2 ^ 64) :
    fppResult p (go_auxmath_FactorizePrimePower_loop2 p loopFuel (0, q, none))
      = match (match Auxmath.fppDivide q p 0 with
          | some n => Except.ok (p, n)
          | none => Except.error Kind.inputValue : Except Kind (Nat × Nat)) with
        | .ok (p, n) => (p, n, none)
        | .error k => (0, 0, some k) := by
  rw [fpp_divide_loop hp loopFuel 0 q (lt_two_pow_fuel hq) (by omega)]
  cases Auxmath.fppDivide q p 0 <;> rfl

theorem fpp {q : Nat} (hq : q < 2 ^ 64) :
    go_auxmath_FactorizePrimePower q =
      match Auxmath.factorizePrimePower q with
      | .ok (p, n) => (p, n, none)
      | .error k => (0, 0, some k) := by
  unfold go_auxmath_FactorizePrimePower Auxmath.factorizePrimePower
  rw [fpp_loop3_eq, fpp_loop5_eq, fpp_loop4_eq, fpp_loop6_eq, boundSqrt hq]
  by_cases h01 : q = 0 ∨ q = 1
  · simp only [h01, ↓reduceIte]
  · simp only [h01, ↓reduceIte]
    by_cases h2 : q % 2 = 0
    · simp only [h2, ↓reduceIte, fpp_scan_exit _ _ _ _ 2 (by decide)]
      exact fpp_after_scan (by decide) hq
    · simp only [h2, ↓reduceIte]
      by_cases h3 : q % 3 = 0
      · simp only [h3, ↓reduceIte, fpp_scan_exit _ _ _ _ 3 (by decide)]
        exact fpp_after_scan (by decide) hq
      · simp only [h3, ↓reduceIte]
        have hm := boundSqrt_le hq
        have hscan := fpp_scan_loop (Auxmath.boundSqrt q) q (by omega) loopFuel 6 (by decide)
          (by decide) (by rw [loopFuel_eq]; omega)
        generalize go_auxmath_FactorizePrimePower_loop1 (Auxmath.boundSqrt q) q loopFuel (6, 0) = st
          at hscan ⊢
        obtain ⟨k', p'⟩ := st
        simp only at hscan
        subst hscan
        by_cases hp0 : Auxmath.fppScan q (Auxmath.boundSqrt q) 6 = 0
        · simp only [hp0, ↓reduceIte]
        · simp only [hp0, ↓reduceIte]
          have hge : 2 ≤ Auxmath.fppScan q (Auxmath.boundSqrt q) 6 := by
            rcases fppScan_ge q (Auxmath.boundSqrt q) 6 (by decide) with h | h <;> omega
          exact fpp_after_scan hge hq

end CodeTies2Proofs
end Algobra
