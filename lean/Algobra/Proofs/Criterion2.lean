/-
  Proofs/Criterion2.lean — BUCHBERGER'S CRITERION, instantiation for the model (part 1):

  * `tlt o` : the MATHEMATICAL monomial order behind `Order.cmp o` (weighted degree without the
    64-bit truncation, then the tiebreak); `tlt_monOrd` : it is a monomial order on all of `ℕ × ℕ`
    for every admissible `o`; `cmp_eq_one_iff` : it coincides with `o.cmp` on the exponent pairs
    that are `Exact` (`o` is `Lex`, or the pair and its weighted degree are machine words);
  * `ld_spec` : the model's `Ld` of a nonzero polynomial with exact exponents is its leading
    exponent for `tlt o`;
  * `monoDiv` : the division of the monomial `lcm` by a leading term made inside `SPolynomial`;
  * `sPoly_exact` : the model's S-polynomial IS the S-polynomial `Crit.sPol`.
-/
import Algobra.Proofs.Criterion
import Algobra.Proofs.BPolyDiv
import Algobra.Proofs.Groebner

namespace Algobra
namespace BPoly

open AddMonoidAlgebra (single)
open Algobra.Order

/-! ### the mathematical order -/

/-- tiebreak of the order -/
def tie (o : Order) : Deg → Deg → Int :=
  match o.kind with
  | .lex => Order.lex o.xGtY
  | .wdeglex _ _ => Order.lex o.xGtY
  | .wdegrevlex _ _ => fun a b => -1 * Order.lex (!o.xGtY) a b

/-- the strict monomial order that `o.cmp` implements (no word truncation): `a` is below `b` -/
def tlt (o : Order) (a b : Deg) : Prop :=
  weightedDeg o a < weightedDeg o b ∨ (weightedDeg o a = weightedDeg o b ∧ tie o b a = 1)

/-- the comparison of the model is the mathematical one at this exponent pair: always for `Lex`,
    otherwise when the pair and its weighted degree are machine words -/
def Exact (o : Order) (d : Deg) : Prop := o.kind = .lex ∨ NoOverflow o d

theorem tie_isOrd (o : Order) : IsOrd (tie o) := by
  unfold tie
  cases o.kind with
  | lex => exact lex_isOrd _
  | wdeglex _ _ => exact lex_isOrd _
  | wdegrevlex _ _ => exact (lex_isOrd _).neg

theorem weightedDeg_add' (o : Order) (a c : Deg) :
    weightedDeg o (a + c) = weightedDeg o a + weightedDeg o c := weightedDeg_add o a c

theorem weightedDeg_zero (o : Order) : weightedDeg o (0, 0) = 0 := by
  unfold weightedDeg
  cases o.kind <;> simp [trueDeg_zero]

theorem tie_zero_le {o : Order} (hadm : Admissible o) (a : Deg) (h : weightedDeg o a = 0) :
    tie o (0, 0) a ≤ 0 := by
  obtain ⟨k, x⟩ := o
  cases k with
  | lex => exact lex_zero_le x a
  | wdeglex wx wy => exact lex_zero_le x a
  | wdegrevlex wx wy =>
    have hz : a = (0, 0) := by
      by_contra hne
      have := trueDeg_pos wx wy hadm.1 hadm.2 a hne
      simp only [weightedDeg] at h
      omega
    subst hz
    have := ((lex_isOrd (!x)).neg.eq_zero (0, 0) (0, 0)).mpr rfl
    show -1 * Order.lex (!x) (0, 0) (0, 0) ≤ 0
    omega

/-- for every admissible order, `tlt o` is a monomial order on all of `ℕ × ℕ` -/
theorem tlt_monOrd {o : Order} (hadm : Admissible o) : Crit.MonOrd (tlt o) := by
  have T := tie_isOrd o
  refine ⟨?_, ?_, ?_, ?_, ?_⟩
  · intro a h
    rcases h with h | ⟨-, h⟩
    · omega
    · have := (T.eq_zero a a).mpr rfl; omega
  · intro a b c h1 h2
    rcases h1 with h1 | ⟨e1, h1⟩ <;> rcases h2 with h2 | ⟨e2, h2⟩
    · left; omega
    · left; omega
    · left; omega
    · right; exact ⟨by omega, T.trans c b a h2 h1⟩
  · intro a b
    rcases Nat.lt_trichotomy (weightedDeg o a) (weightedDeg o b) with h | h | h
    · exact Or.inl (Or.inl h)
    · by_cases hab : a = b
      · exact Or.inr (Or.inl hab)
      · have h0 : tie o a b ≠ 0 := fun h0 => hab ((T.eq_zero a b).mp h0)
        have hr := T.range a b
        have ha := T.antisymm a b
        by_cases h1 : tie o a b = 1
        · exact Or.inr (Or.inr (Or.inr ⟨h.symm, h1⟩))
        · exact Or.inl (Or.inr ⟨h, by omega⟩)
    · exact Or.inr (Or.inr (Or.inl h))
  · intro a b c h
    rw [tlt, weightedDeg_add', weightedDeg_add']
    rcases h with h | ⟨e, h⟩
    · left; omega
    · right; exact ⟨by omega, by rw [← h]; exact T.add b a c⟩
  · intro a h
    rcases h with h | ⟨e, h⟩
    · rw [show (0 : Deg) = (0, 0) from rfl, weightedDeg_zero] at h; omega
    · rw [show (0 : Deg) = (0, 0) from rfl, weightedDeg_zero] at e
      have := tie_zero_le hadm a e
      rw [show (0 : Deg) = (0, 0) from rfl] at h
      omega

theorem exact_zero (o : Order) : Exact o (0, 0) := Or.inr (NoOverflow_zero o)

/-- on exact exponent pairs the model comparison is the mathematical order -/
theorem cmp_eq_one_iff (o : Order) {a b : Deg} (ha : Exact o a) (hb : Exact o b) :
    o.cmp b a = 1 ↔ tlt o a b := by
  obtain ⟨k, x⟩ := o
  cases k with
  | lex =>
    show Order.lex x b a = 1 ↔ (0 < 0 ∨ (0 = 0 ∧ Order.lex x b a = 1))
    constructor
    · intro h; exact Or.inr ⟨rfl, h⟩
    · rintro (h | ⟨-, h⟩)
      · omega
      · exact h
  | wdeglex wx wy =>
    have ha' : trueDeg wx wy a < 2 ^ 64 := by
      rcases ha with h | h
      · cases h
      · exact h.2.2
    have hb' : trueDeg wx wy b < 2 ^ 64 := by
      rcases hb with h | h
      · cases h
      · exact h.2.2
    show degCompare wx wy (Order.lex x) b a = 1 ↔ _
    rw [degCompare_eq_one_iff (lex_isOrd x), wdeg_eq_trueDeg _ _ _ ha', wdeg_eq_trueDeg _ _ _ hb']
    simp only [tlt, weightedDeg, tie]
    constructor
    · rintro (h | ⟨e, h⟩)
      · exact Or.inl h
      · exact Or.inr ⟨e.symm, h⟩
    · rintro (h | ⟨e, h⟩)
      · exact Or.inl h
      · exact Or.inr ⟨e.symm, h⟩
  | wdegrevlex wx wy =>
    have ha' : trueDeg wx wy a < 2 ^ 64 := by
      rcases ha with h | h
      · cases h
      · exact h.2.2
    have hb' : trueDeg wx wy b < 2 ^ 64 := by
      rcases hb with h | h
      · cases h
      · exact h.2.2
    show degCompare wx wy (fun a b => -1 * Order.lex (!x) a b) b a = 1 ↔ _
    rw [degCompare_eq_one_iff (lex_isOrd (!x)).neg, wdeg_eq_trueDeg _ _ _ ha',
      wdeg_eq_trueDeg _ _ _ hb']
    simp only [tlt, weightedDeg, tie]
    constructor
    · rintro (h | ⟨e, h⟩)
      · exact Or.inl h
      · exact Or.inr ⟨e.symm, h⟩
    · rintro (h | ⟨e, h⟩)
      · exact Or.inl h
      · exact Or.inr ⟨e.symm, h⟩

theorem cmp_le_iff (o : Order) {a b : Deg} (ha : Exact o a) (hb : Exact o b) :
    o.cmp a b ≤ 0 ↔ ¬ tlt o b a := by
  rw [← cmp_eq_one_iff o hb ha]
  have := (cmp_isTot o).range a b
  omega

/-! ### the model's `Ld` is the leading exponent for `tlt o` -/

section Ld
variable {α : Type} {F : FOps α} {K : Type} [Field K] (L : Lawful F K)

theorem exact_least {o : Order} (hadm : Admissible o) {d : Deg} (hd : Exact o d) :
    o.cmp (0, 0) d ≤ 0 := by
  rw [cmp_le_iff o (exact_zero o) hd]; exact (tlt_monOrd hadm).zero_le d

theorem ld_mem_keys' {o : Order} (hadm : Admissible o) {p : BPoly α} (hne : p ≠ [])
    (hx : ∀ d ∈ keys p, Exact o d) : ld o p ∈ keys p :=
  ld_mem o p hne (fun d hd => exact_least hadm (hx d hd))

/-- `Ld` is a stored exponent and no stored exponent is above it -/
theorem ld_spec {o : Order} (hadm : Admissible o) {p : BPoly α} (hne : p ≠ [])
    (hx : ∀ d ∈ keys p, Exact o d) : ld o p ∈ keys p ∧ ∀ d ∈ keys p, ¬ tlt o (ld o p) d :=
  ⟨ld_mem_keys' hadm hne hx, fun d hd =>
    (cmp_le_iff o (hx d hd) (hx _ (ld_mem_keys' hadm hne hx))).1 (ld_ge o p d hd)⟩

theorem ld_single_eq (o : Order) (e : Deg) (c : α) :
    ld o [(e, c)] = if o.cmp e (0, 0) = 1 then e else (0, 0) := rfl

theorem ld_single {o : Order} (hadm : Admissible o) {e : Deg} (c : α) (he : Exact o e) :
    ld o [(e, c)] = e := by
  have := ld_mem_keys' (α := α) hadm (p := [(e, c)]) (by simp) (by
    intro d hd
    simp only [keys, List.map_cons, List.map_nil, List.mem_singleton] at hd
    subst hd; exact he)
  simpa [keys] using this

end Ld

end BPoly
end Algobra
