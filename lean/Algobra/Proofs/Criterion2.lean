/-
  Proofs/Criterion2.lean — BUCHBERGER'S CRITERION, instantiation for the model (part 1):

  * `tlt o` : the MATHEMATICAL monomial order behind `Order.cmp o` (weighted degree without the
    64-bit truncation, then the tiebreak); `tlt_monOrd` : it is a monomial order on all of `ℕ × ℕ`
    for every admissible `o`; `cmp_eq_one_iff` : it coincides with `o.cmp` on the exponent pairs
    that are `Exact` (`o` is `Lex`, or the pair and its weighted degree are machine words);
  * `ld_spec` : the model's `Ld` of a nonzero polynomial with exact exponents is its leading
    exponent for `tlt o`;
  * `monoDiv` : the division of the monomial `lcm` by a leading term made inside `SPolynomial`;
  * `sPoly_exact` : the model's S-polynomial IS the S-polynomial `Crit.sPol`.
-/
import Algobra.Proofs.Criterion
import Algobra.Proofs.BPolyDiv
import Algobra.Proofs.Groebner

namespace Algobra
namespace BPoly

open AddMonoidAlgebra (single)
open Algobra.Order

/-! ### the mathematical order -/

/-- tiebreak of the order -/
def tie (o : Order) : Deg → Deg → Int :=
  match o.kind with
  | .lex => Order.lex o.xGtY
  | .wdeglex _ _ => Order.lex o.xGtY
  | .wdegrevlex _ _ => fun a b => -1 * Order.lex (!o.xGtY) a b

/-- the strict monomial order that `o.cmp` implements (no word truncation): `a` is below `b` -/
def tlt (o : Order) (a b : Deg) : Prop :=
  weightedDeg o a < weightedDeg o b ∨ (weightedDeg o a = weightedDeg o b ∧ tie o b a = 1)

/-- the comparison of the model is the mathematical one at this exponent pair: always for `Lex`,
    otherwise when the pair and its weighted degree are machine words -/
def Exact (o : Order) (d : Deg) : Prop := o.kind = .lex ∨ NoOverflow o d

theorem tie_isOrd (o : Order) : IsOrd (tie o) := by
  unfold tie
  cases o.kind with
  | lex => exact lex_isOrd _
  | wdeglex _ _ => exact lex_isOrd _
  | wdegrevlex _ _ => exact (lex_isOrd _).neg

theorem weightedDeg_add' (o : Order) (a c : Deg) :
    weightedDeg o (a + c) = weightedDeg o a + weightedDeg o c := weightedDeg_add o a c

theorem weightedDeg_zero (o : Order) : weightedDeg o (0, 0) = 0 := by
  unfold weightedDeg
  cases o.kind <;> simp [trueDeg_zero]

theorem tie_zero_le {o : Order} (hadm : Admissible o) (a : Deg) (h : weightedDeg o a = 0) :
    tie o (0, 0) a ≤ 0 := by
  obtain ⟨k, x⟩ := o
  cases k with
  | lex => exact lex_zero_le x a
  | wdeglex wx wy => exact lex_zero_le x a
  | wdegrevlex wx wy =>
    have hz : a = (0, 0) := by
      by_contra hne
      have := trueDeg_pos wx wy hadm.1 hadm.2 a hne
      simp only [weightedDeg] at h
      omega
    subst hz
    have := ((lex_isOrd (!x)).neg.eq_zero (0, 0) (0, 0)).mpr rfl
    show -1 * Order.lex (!x) (0, 0) (0, 0) ≤ 0
    omega

/-- for every admissible order, `tlt o` is a monomial order on all of `ℕ × ℕ` -/
theorem tlt_monOrd {o : Order} (hadm : Admissible o) : Crit.MonOrd (tlt o) := by
  have T := tie_isOrd o
  refine ⟨?_, ?_, ?_, ?_, ?_⟩
  · intro a h
    rcases h with h | ⟨-, h⟩
    · omega
    · have := (T.eq_zero a a).mpr rfl; omega
  · intro a b c h1 h2
    rcases h1 with h1 | ⟨e1, h1⟩ <;> rcases h2 with h2 | ⟨e2, h2⟩
    · left; omega
    · left; omega
    · left; omega
    · right; exact ⟨by omega, T.trans c b a h2 h1⟩
  · intro a b
    rcases Nat.lt_trichotomy (weightedDeg o a) (weightedDeg o b) with h | h | h
    · exact Or.inl (Or.inl h)
    · by_cases hab : a = b
      · exact Or.inr (Or.inl hab)
      · have h0 : tie o a b ≠ 0 := fun h0 => hab ((T.eq_zero a b).mp h0)
        have hr := T.range a b
        have ha := T.antisymm a b
        by_cases h1 : tie o a b = 1
        · exact Or.inr (Or.inr (Or.inr ⟨h.symm, h1⟩))
        · exact Or.inl (Or.inr ⟨h, by omega⟩)
    · exact Or.inr (Or.inr (Or.inl h))
  · intro a b c h
    rw [tlt, weightedDeg_add', weightedDeg_add']
    rcases h with h | ⟨e, h⟩
    · left; omega
    · right; exact ⟨by omega, by rw [← h]; exact T.add b a c⟩
  · intro a h
    rcases h with h | ⟨e, h⟩
    · rw [show (0 : Deg) = (0, 0) from rfl, weightedDeg_zero] at h; omega
    · rw [show (0 : Deg) = (0, 0) from rfl, weightedDeg_zero] at e
      have := tie_zero_le hadm a e
      rw [show (0 : Deg) = (0, 0) from rfl] at h
      omega

theorem exact_zero (o : Order) : Exact o (0, 0) := Or.inr (NoOverflow_zero o)

/-- on exact exponent pairs the model comparison is the mathematical order -/
theorem cmp_eq_one_iff (o : Order) {a b : Deg} (ha : Exact o a) (hb : Exact o b) :
    o.cmp b a = 1 ↔ tlt o a b := by
  obtain ⟨k, x⟩ := o
  cases k with
  | lex =>
    show Order.lex x b a = 1 ↔ (0 < 0 ∨ (0 = 0 ∧ Order.lex x b a = 1))
    constructor
    · intro h; exact Or.inr ⟨rfl, h⟩
    · rintro (h | ⟨-, h⟩)
      · omega
      · exact h
  | wdeglex wx wy =>
    have ha' : trueDeg wx wy a < 2 ^ 64 := by
      rcases ha with h | h
      · cases h
      · exact h.2.2
    have hb' : trueDeg wx wy b < 2 ^ 64 := by
      rcases hb with h | h
      · cases h
      · exact h.2.2
    show degCompare wx wy (Order.lex x) b a = 1 ↔ _
    rw [degCompare_eq_one_iff (lex_isOrd x), wdeg_eq_trueDeg _ _ _ ha', wdeg_eq_trueDeg _ _ _ hb']
    simp only [tlt, weightedDeg, tie]
    constructor
    · rintro (h | ⟨e, h⟩)
      · exact Or.inl h
      · exact Or.inr ⟨e.symm, h⟩
    · rintro (h | ⟨e, h⟩)
      · exact Or.inl h
      · exact Or.inr ⟨e.symm, h⟩
  | wdegrevlex wx wy =>
    have ha' : trueDeg wx wy a < 2 ^ 64 := by
      rcases ha with h | h
      · cases h
      · exact h.2.2
    have hb' : trueDeg wx wy b < 2 ^ 64 := by
      rcases hb with h | h
      · cases h
      · exact h.2.2
    show degCompare wx wy (fun a b => -1 * Order.lex (!x) a b) b a = 1 ↔ _
    rw [degCompare_eq_one_iff (lex_isOrd (!x)).neg, wdeg_eq_trueDeg _ _ _ ha',
      wdeg_eq_trueDeg _ _ _ hb']
    simp only [tlt, weightedDeg, tie]
    constructor
    · rintro (h | ⟨e, h⟩)
      · exact Or.inl h
      · exact Or.inr ⟨e.symm, h⟩
    · rintro (h | ⟨e, h⟩)
      · exact Or.inl h
      · exact Or.inr ⟨e.symm, h⟩

theorem cmp_le_iff (o : Order) {a b : Deg} (ha : Exact o a) (hb : Exact o b) :
    o.cmp a b ≤ 0 ↔ ¬ tlt o b a := by
  rw [← cmp_eq_one_iff o hb ha]
  have := (cmp_isTot o).range a b
  omega

/-! ### the model's `Ld` is the leading exponent for `tlt o` -/

section Ld
variable {α : Type} {F : FOps α} {K : Type} [Field K] (L : Lawful F K)

theorem exact_least {o : Order} (hadm : Admissible o) {d : Deg} (hd : Exact o d) :
    o.cmp (0, 0) d ≤ 0 := by
  rw [cmp_le_iff o (exact_zero o) hd]; exact (tlt_monOrd hadm).zero_le d

theorem ld_mem_keys' {o : Order} (hadm : Admissible o) {p : BPoly α} (hne : p ≠ [])
    (hx : ∀ d ∈ keys p, Exact o d) : ld o p ∈ keys p :=
  ld_mem o p hne (fun d hd => exact_least hadm (hx d hd))

/-- `Ld` is a stored exponent and no stored exponent is above it -/
theorem ld_spec {o : Order} (hadm : Admissible o) {p : BPoly α} (hne : p ≠ [])
    (hx : ∀ d ∈ keys p, Exact o d) : ld o p ∈ keys p ∧ ∀ d ∈ keys p, ¬ tlt o (ld o p) d :=
  ⟨ld_mem_keys' hadm hne hx, fun d hd =>
    (cmp_le_iff o (hx d hd) (hx _ (ld_mem_keys' hadm hne hx))).1 (ld_ge o p d hd)⟩

theorem ld_single_eq (o : Order) (e : Deg) (c : α) :
    ld o [(e, c)] = if o.cmp e (0, 0) = 1 then e else (0, 0) := rfl

theorem ld_single {o : Order} (hadm : Admissible o) {e : Deg} (c : α) (he : Exact o e) :
    ld o [(e, c)] = e := by
  have := ld_mem_keys' (α := α) hadm (p := [(e, c)]) (by simp) (by
    intro d hd
    simp only [keys, List.map_cons, List.map_nil, List.mem_singleton] at hd
    subst hd; exact he)
  simpa [keys] using this

end Ld

/-! ### the monomial divisions inside `SPolynomial` -/

section MonoDiv
variable {α : Type} {F : FOps α} {K : Type} [Field K] (L : Lawful F K)

theorem WF_single {e : Deg} {c : α} (hc : L.valid c) (hc0 : L.embed c ≠ 0) :
    WF L ([(e, c)] : BPoly α) := by
  refine ⟨by simp, ?_⟩
  intro dc hdc
  simp only [List.mem_singleton] at hdc
  subst hdc
  exact ⟨hc, hc0⟩

theorem toMv_single (e : Deg) (c : α) : toMv L ([(e, c)] : BPoly α) = single e (L.embed c) := by
  rw [toMv_cons, toMv_nil, add_zero]

theorem monoDiv_good {o : Order} {γ e : Deg} {c : α} (hc : L.valid c) (hc0 : L.embed c ≠ 0)
    (hle : e.1 ≤ γ.1 ∧ e.2 ≤ γ.2) (hγ : γ.1 < 2 ^ 64 ∧ γ.2 < 2 ^ 64)
    (hpl : ld o ([(γ, F.one)] : BPoly α) = γ) (hml : ld o ([(e, c)] : BPoly α) = e) :
    ∃ q, quoRemLoop F o none [[(e, c)]] 1000 [(γ, F.one)] [[]] [] = some ([q], []) ∧
      WF L q ∧ toMv L q = single (γ.1 - e.1, γ.2 - e.2) (L.embed c)⁻¹ := by
  have wp : WF L ([(γ, F.one)] : BPoly α) :=
    WF_single L L.one_valid (by rw [L.embed_one]; exact one_ne_zero)
  have wm : WF L ([(e, c)] : BPoly α) := WF_single L hc hc0
  have hsd : subDegs γ e = some (γ.1 - e.1, γ.2 - e.2) := by
    unfold subDegs
    simp [hle.1, hle.2]
  have hlcp : lc F o ([(γ, F.one)] : BPoly α) = F.one := by
    unfold lc; rw [hpl]; simp [coef]
  have hlcm : lc F o ([(e, c)] : BPoly α) = c := by
    unfold lc; rw [hml]; simp [coef]
  have htv := lcQuot_valid L wp.cv wm.cv o
  have hte := lcQuot_embed L wp.cv wm.cv o (by rw [hlcm]; exact hc0)
  rw [hlcp, hlcm, L.embed_one, one_div] at hte
  have hsh : ShiftOK ([(e, c)] : BPoly α) (γ.1 - e.1, γ.2 - e.2) := by
    intro dc hdc
    simp only [List.mem_singleton] at hdc
    subst hdc
    simp only
    omega
  obtain ⟨w1, e1⟩ := subShiftScale_spec L (γ.1 - e.1, γ.2 - e.2) wp wm.cv htv hsh
  have hnil : subShiftScale F [(γ, F.one)] [(e, c)] (γ.1 - e.1, γ.2 - e.2)
      (lcQuot F o [(γ, F.one)] [(e, c)]) = [] := by
    apply eq_nil_of_toMv_eq_zero L w1
    rw [e1, toMv_single, toMv_single, hte, L.embed_one, AddMonoidAlgebra.single_mul_single,
      inv_mul_cancel₀ hc0]
    have : ((γ.1 - e.1, γ.2 - e.2) : Deg) + e = γ := by
      ext
      · simp only [Prod.fst_add]; omega
      · simp only [Prod.snd_add]; omega
    rw [this, sub_self]
  refine ⟨incCoef F [] (γ.1 - e.1, γ.2 - e.2) (lcQuot F o [(γ, F.one)] [(e, c)]), ?_,
    WF_incCoef L (WF_nil L) _ htv, ?_⟩
  · rw [show (1000 : Nat) = 998 + 1 + 1 from rfl, quoRemLoop]
    simp only [List.isEmpty_cons, Bool.false_eq_true, if_false]
    rw [hpl]
    simp only [firstDiv, hml, hsd]
    have hb : ((none : Option Nat) == some 0) = false := rfl
    simp only [hb, Bool.false_eq_true, if_false, List.set_cons_zero, List.getD_cons_zero]
    rw [hnil, quoRemLoop]
    simp
  · rw [toMv_incCoef L (WF_nil L) _ htv, toMv_nil, zero_add, hte]

theorem quoRemLoop_stuck {o : Order} {ignore : Option Nat} {gs : List (BPoly α)} {p : BPoly α}
    (hpe : ¬ p.isEmpty = true) (hst : nextP F o ignore gs p = p) :
    ∀ (fuel : Nat) (qs : List (BPoly α)) (r : BPoly α),
      quoRemLoop F o ignore gs fuel p qs r = none := by
  intro fuel
  induction fuel with
  | zero => intro qs r; simp [quoRemLoop]
  | succ n ih =>
    intro qs r
    obtain ⟨qs2, r2, e⟩ := quoRemLoop_succ (F := F) o ignore gs n hpe qs r
    rw [e, hst]; exact ih qs2 r2

theorem subShiftScale_of_isZero (f g : BPoly α) (i : Deg) {a : α} (h : F.isZero a = true) :
    subShiftScale F f g i a = f := by
  unfold subShiftScale; rw [if_pos h]

/-- the quotient of the leading coefficients vanishes when one of them is (the stored) zero -/
theorem lcQuot_isZero {o : Order} {p m : BPoly α} (hm : CV L m)
    (h : lc F o p = F.zero ∨ lc F o m = F.zero) : F.isZero (lcQuot F o p m) = true := by
  have hv := lc_valid L hm o
  unfold lcQuot
  simp only
  rcases h with h | h
  · rw [h]
    split
    · rw [L.isZero_iff _ (L.mul_valid _ _ L.zero_valid hv), L.embed_mul _ _ L.zero_valid hv,
        L.embed_zero, zero_mul]
    · by_cases h0 : L.embed (lc F o m) = 0
      · rw [L.inv_none _ hv h0]
        exact (L.isZero_iff _ L.zero_valid).2 L.embed_zero
      · obtain ⟨i, e1, e2, -⟩ := L.inv_some _ hv h0
        rw [e1]
        simp only
        rw [L.isZero_iff _ (L.mul_valid _ _ L.zero_valid e2), L.embed_mul _ _ L.zero_valid e2,
          L.embed_zero, zero_mul]
  · rw [h]
    have h1 : ¬ F.isOne F.zero = true := by
      rw [L.isOne_iff _ L.zero_valid, L.embed_zero]; exact zero_ne_one
    rw [if_neg h1, L.inv_none _ L.zero_valid L.embed_zero]
    exact (L.isZero_iff _ L.zero_valid).2 L.embed_zero

/-- a successful division of the monomial `X^γ` by the single term `c·X^e` (as made inside
    `SPolynomial`) means that `Ld` of both single-term lists is their exponent -/
theorem monoDiv_ld {o : Order} {γ e : Deg} {c : α} (hc : L.valid c) {fuel : Nat}
    {q : List (BPoly α)} {r : BPoly α}
    (h : quoRemLoop F o none [[(e, c)]] fuel [(γ, F.one)] [[]] [] = some (q, r)) :
    ld o ([(γ, F.one)] : BPoly α) = γ ∧ ld o ([(e, c)] : BPoly α) = e := by
  by_contra hbad
  have hcm : CV L ([(e, c)] : BPoly α) := by
    intro dc hdc
    simp only [List.mem_singleton] at hdc
    subst hdc; exact hc
  have hst : nextP F o none [[(e, c)]] [(γ, F.one)] = [(γ, F.one)] := by
    unfold nextP
    have hb : ((none : Option Nat) == some 0) = false := rfl
    simp only [firstDiv, hb, Bool.false_eq_true, if_false]
    by_cases hpl : ld o ([(γ, F.one)] : BPoly α) = γ
    · have hml : ld o ([(e, c)] : BPoly α) ≠ e := fun h' => hbad ⟨hpl, h'⟩
      have hml0 : ld o ([(e, c)] : BPoly α) = (0, 0) := by
        rw [ld_single_eq] at hml ⊢
        split_ifs at hml ⊢ with h1
        · exact absurd rfl hml
        · rfl
      have he0 : e ≠ (0, 0) := by rintro rfl; exact hml hml0
      rw [hml0, hpl]
      have hsd : subDegs γ (0, 0) = some γ := by simp [subDegs]
      rw [hsd]
      simp only
      apply subShiftScale_of_isZero
      apply lcQuot_isZero L hcm
      right
      unfold lc
      rw [hml0]
      simp [coef, he0]
    · have hpl0 : ld o ([(γ, F.one)] : BPoly α) = (0, 0) := by
        rw [ld_single_eq] at hpl ⊢
        split_ifs at hpl ⊢ with h1
        · exact absurd rfl hpl
        · rfl
      have hγ0 : γ ≠ (0, 0) := by rintro rfl; exact hpl hpl0
      rw [hpl0]
      cases hsd : subDegs (0, 0) (ld o ([(e, c)] : BPoly α)) with
      | none =>
        simp only
        simp [erase, hγ0]
      | some dd =>
        simp only
        apply subShiftScale_of_isZero
        apply lcQuot_isZero L hcm
        left
        unfold lc
        rw [hpl0]
        simp [coef, hγ0]
  rw [quoRemLoop_stuck (by simp) hst] at h
  cases h

/-- the model's `SPolynomial` is the S-polynomial -/
theorem sPoly_exact {o : Order} {f g s : BPoly α} (hf : WF L f) (hg : WF L g)
    (hfl : ld o f ∈ keys f) (hgl : ld o g ∈ keys g) (bf : Bounded f) (bg : Bounded g)
    (h : sPoly F o f g = some s) :
    WF L s ∧ Bounded s ∧
    toMv L s =
      single (Crit.lcmD (ld o f) (ld o g) - ld o f) (L.embed (lc F o f))⁻¹ * toMv L f
      - single (Crit.lcmD (ld o f) (ld o g) - ld o g) (L.embed (lc F o g))⁻¹ * toMv L g := by
  have vf : L.valid (lc F o f) := lc_valid L hf.cv o
  have vg : L.valid (lc F o g) := lc_valid L hg.cv o
  have nf : L.embed (lc F o f) ≠ 0 := coef_ne_zero L hf hfl
  have ng : L.embed (lc F o g) ≠ 0 := coef_ne_zero L hg hgl
  have ef : lt F o f = [(ld o f, lc F o f)] :=
    lt_eq_single F o f ((L.isZero_false_iff _ vf).2 nf)
  have eg : lt F o g = [(ld o g, lc F o g)] :=
    lt_eq_single F o g ((L.isZero_false_iff _ vg).2 ng)
  unfold sPoly at h
  simp only at h
  rw [ef, eg] at h
  split at h
  · rename_i q1 r1 q2 r2 h1 h2
    obtain ⟨-, l1⟩ := monoDiv_ld L vf h1
    obtain ⟨-, l2⟩ := monoDiv_ld L vg h2
    have hγ : monomialLcm F o [(ld o f, lc F o f)] [(ld o g, lc F o g)]
        = [(Crit.lcmD (ld o f) (ld o g), F.one)] := by
      unfold monomialLcm
      simp only [l1, l2]
      rfl
    rw [hγ] at h1 h2
    obtain ⟨lp, -⟩ := monoDiv_ld L vf h1
    have bdf := Gb.ld_bounded (o := o) bf
    have bdg := Gb.ld_bounded (o := o) bg
    have hb : (Crit.lcmD (ld o f) (ld o g)).1 < 2 ^ 64 ∧ (Crit.lcmD (ld o f) (ld o g)).2 < 2 ^ 64 := by
      unfold Crit.lcmD
      simp only
      omega
    obtain ⟨qa, ha1, ha2, ha3⟩ := monoDiv_good L vf nf
      (by unfold Crit.lcmD; simp only; omega) hb lp l1
    obtain ⟨qb, hb1, hb2, hb3⟩ := monoDiv_good L vg ng
      (by unfold Crit.lcmD; simp only; omega) hb lp l2
    rw [ha1] at h1
    rw [hb1] at h2
    simp only [Option.some.injEq, Prod.mk.injEq] at h1 h2
    obtain ⟨rfl, -⟩ := h1
    obtain ⟨rfl, -⟩ := h2
    simp only [List.headD_cons] at h
    split at h
    · rename_i a b ha hb'
      cases h
      obtain ⟨wa, ta⟩ := Gb.mulNoReduce_spec2 L ha2.cv hf.cv bf ha
      obtain ⟨wb, tb⟩ := Gb.mulNoReduce_spec2 L hb2.cv hg.cv bg hb'
      obtain ⟨ws, ts⟩ := sub_spec L wa wb.cv
      refine ⟨ws, ?_, ?_⟩
      · have b1 := Bounded_mulNoReduce ha
        have b2 := Bounded_mulNoReduce hb'
        rw [Bounded_iff_KeysIn] at b1 b2 ⊢
        exact KeysIn_sub b1 b2
      · rw [ts, ta, tb, ha3, hb3]
        rfl
    · cases h
  · cases h

end MonoDiv

/-! ### the criterion for the model -/

section Final
variable {α : Type} {F : FOps α} {K : Type} [Field K] (L : Lawful F K)

theorem toMv_mul_mem {N : Submodule K (AddMonoidAlgebra K (ℕ × ℕ))} (q : BPoly α)
    (p : AddMonoidAlgebra K (ℕ × ℕ)) (h : ∀ t ∈ keys q, single t 1 * p ∈ N) :
    toMv L q * p ∈ N := by
  induction q with
  | nil => simp
  | cons x q ih =>
    rw [toMv_cons, add_mul, Crit.single_eq_smul_mul]
    exact N.add_mem (N.smul_mem _ (h x.1 (by simp [keys])))
      (ih (fun t ht => h t (List.mem_cons_of_mem _ ht)))

theorem dot_mem_submodule {N : Submodule K (AddMonoidAlgebra K (ℕ × ℕ))} :
    ∀ (qs gs : List (BPoly α)),
      (∀ (j : Nat) (q g : BPoly α), qs[j]? = some q → gs[j]? = some g → toMv L q * toMv L g ∈ N) →
      dot L qs gs ∈ N := by
  intro qs
  induction qs with
  | nil => intro gs _; simp
  | cons q qs ih =>
    intro gs h
    cases gs with
    | nil => simp
    | cons g gs =>
      rw [dot_cons]
      refine N.add_mem (h 0 q g rfl rfl) (ih gs fun j q' g' hq hg => h (j + 1) q' g' ?_ ?_)
      · simpa using hq
      · simpa using hg

/-- the generators of the list as a family, and their leading exponents -/
noncomputable def genOf (G : List (BPoly α)) : Fin G.length → AddMonoidAlgebra K (ℕ × ℕ) :=
  fun i => toMv L G[i]

def exOf (o : Order) (G : List (BPoly α)) : Fin G.length → Deg := fun i => ld o G[i]

theorem range_genOf (G : List (BPoly α)) :
    Set.range (genOf L G) = (toMv L) '' {g | g ∈ G} := by
  ext p
  constructor
  · rintro ⟨i, rfl⟩
    exact ⟨G[i], List.getElem_mem _, rfl⟩
  · rintro ⟨g, hg, rfl⟩
    obtain ⟨i, hi, rfl⟩ := List.getElem_of_mem hg
    exact ⟨⟨i, hi⟩, rfl⟩

theorem genOK_of {o : Order} (hadm : Admissible o) {G : List (BPoly α)}
    (hG : ∀ g ∈ G, WF L g ∧ g ≠ []) (hGx : ∀ g ∈ G, ∀ d ∈ keys g, Exact o d) :
    Crit.GenOK (tlt o) (genOf L G) (exOf o G) := by
  intro i
  have hm : G[i] ∈ G := List.getElem_mem _
  obtain ⟨h1, h2⟩ := ld_spec hadm (hG _ hm).2 (hGx _ hm)
  refine ⟨(mem_keys_iff L (hG _ hm).1 _).1 h1, fun d hd => h2 d ?_⟩
  exact (mem_keys_iff L (hG _ hm).1 d).2 hd

theorem sPol_genOf {o : Order} {G : List (BPoly α)} (hG : ∀ g ∈ G, WF L g) (i j : Fin G.length) :
    Crit.sPol (genOf L G) (exOf o G) i j =
      single (Crit.lcmD (ld o G[i]) (ld o G[j]) - ld o G[i]) (L.embed (lc F o G[i]))⁻¹ * toMv L G[i]
      - single (Crit.lcmD (ld o G[i]) (ld o G[j]) - ld o G[j]) (L.embed (lc F o G[j]))⁻¹
          * toMv L G[j] := by
  have ci : (toMv L G[i]).coeff (ld o G[i]) = L.embed (lc F o G[i]) :=
    toMv_apply L (hG _ (List.getElem_mem _)) _
  have cj : (toMv L G[j]).coeff (ld o G[j]) = L.embed (lc F o G[j]) :=
    toMv_apply L (hG _ (List.getElem_mem _)) _
  rw [Crit.single_eq_smul_mul _ (L.embed (lc F o G[i]))⁻¹,
    Crit.single_eq_smul_mul _ (L.embed (lc F o G[j]))⁻¹, ← ci, ← cj]
  rfl

/-- the hypothesis of the abstract criterion from the model's data: for every pair `i < j` the
    S-polynomial exists, its division by the list returns remainder `[]`, and that division did not
    wrap around -/
theorem sPairsOK_of_model {o : Order} (hadm : Admissible o) {G : List (BPoly α)}
    (hG : ∀ g ∈ G, WF L g ∧ g ≠ [] ∧ Bounded g) (hGx : ∀ g ∈ G, ∀ d ∈ keys g, Exact o d)
    (hpairs : ∀ (i j : Nat) (_ : i < j) (hj : j < G.length), ∃ s qs,
      sPoly F o (G[i]'(by omega)) G[j] = some s ∧
      quoRemLoop F o none G divFuel s (G.map fun _ => []) [] = some (qs, []) ∧
      (∀ d ∈ keys s, NoOverflow o d) ∧ RunOK F o none G divFuel s) :
    Crit.SPairsOK (tlt o) (genOf L G) (exOf o G) := by
  have H := tlt_monOrd hadm
  have hGok := genOK_of L hadm (fun g hg => ⟨(hG g hg).1, (hG g hg).2.1⟩) hGx
  apply Crit.SPairsOK_of_lt
  intro i j hij
  obtain ⟨s, qs, hs, hq, hno, hrun⟩ := hpairs i.1 j.1 hij j.2
  have hi : G[i] ∈ G := List.getElem_mem _
  have hj : G[j] ∈ G := List.getElem_mem _
  have li := (ld_spec hadm (hG _ hi).2.1 (hGx _ hi)).1
  have lj := (ld_spec hadm (hG _ hj).2.1 (hGx _ hj)).1
  obtain ⟨ws, -, ts⟩ := sPoly_exact L (hG _ hi).1 (hG _ hj).1 li lj (hG _ hi).2.2 (hG _ hj).2.2 hs
  have hsp : toMv L s = Crit.sPol (genOf L G) (exOf o G) i j := by
    rw [sPol_genOf L (fun g hg => (hG g hg).1), ts]
  rw [← hsp]
  by_cases hs0 : s = []
  · subst hs0; rw [toMv_nil]; exact Submodule.zero_mem _
  · have hsx : ∀ d ∈ keys s, Exact o d := fun d hd => Or.inr (hno d hd)
    obtain ⟨ls1, -⟩ := ld_spec hadm hs0 hsx
    have hlt : tlt o (ld o s) (Crit.lcmD (exOf o G i) (exOf o G j)) := by
      apply Crit.sPol_supp H hGok i j
      rw [← hsp]
      exact (mem_keys_iff L ws _).1 ls1
    obtain ⟨-, -, -, e, -, qok⟩ := quoRemLoop_init_spec L hadm (fun g hg => (hG g hg).1.cv) ws hno
      hrun hq
    rw [e, toMv_nil, add_zero]
    apply dot_mem_submodule
    intro k q g hqk hgk
    apply toMv_mul_mem
    intro t ht
    obtain ⟨hsh, hle⟩ := qok k q g hqk hgk t ht
    obtain ⟨hk, rfl⟩ := List.getElem?_eq_some_iff.1 hgk
    have hgm : G[k] ∈ G := List.getElem_mem _
    have lk := (ld_spec hadm (hG _ hgm).2.1 (hGx _ hgm)).1
    have hx1 : Exact o ((ld o G[k]).1 + t.1, (ld o G[k]).2 + t.2) := Or.inr (hsh _ lk)
    have hle' := (cmp_le_iff o hx1 (hsx _ ls1)).1 hle
    refine Submodule.subset_span ⟨⟨k, hk⟩, t, ?_, rfl⟩
    have e2 : t + exOf o G ⟨k, hk⟩ = ((ld o G[k]).1 + t.1, (ld o G[k]).2 + t.2) := by
      show t + ld o G[k] = _
      exact Prod.ext (Nat.add_comm _ _) (Nat.add_comm _ _)
    rw [e2]
    exact H.lt_of_le_of_lt hle' hlt

/-- **Buchberger's criterion for the model.**  `G` : well-formed nonzero generators with word-size
    exponents whose comparisons are exact; for every pair `i < j` the model's S-polynomial exists,
    its division by `G` returns the remainder `[]` and that run did not wrap around.  Then the
    leading exponent (the model's `Ld`) of every nonzero well-formed `f` with exact exponents in
    the ideal generated by `G` is divisible by the leading exponent of some element of `G`. -/
theorem criterion_model {o : Order} (hadm : Admissible o) {G : List (BPoly α)}
    (hG : ∀ g ∈ G, WF L g ∧ g ≠ [] ∧ Bounded g) (hGx : ∀ g ∈ G, ∀ d ∈ keys g, Exact o d)
    (hpairs : ∀ (i j : Nat) (_ : i < j) (hj : j < G.length), ∃ s qs,
      sPoly F o (G[i]'(by omega)) G[j] = some s ∧
      quoRemLoop F o none G divFuel s (G.map fun _ => []) [] = some (qs, []) ∧
      (∀ d ∈ keys s, NoOverflow o d) ∧ RunOK F o none G divFuel s)
    {f : BPoly α} (wf : WF L f) (hne : f ≠ []) (hfx : ∀ d ∈ keys f, Exact o d)
    (hmem : toMv L f ∈ Ideal.span ((toMv L) '' {g | g ∈ G})) :
    ∃ g ∈ G, subDegs (ld o f) (ld o g) ≠ none := by
  have H := tlt_monOrd hadm
  have hGok := genOK_of L hadm (fun g hg => ⟨(hG g hg).1, (hG g hg).2.1⟩) hGx
  have hS := sPairsOK_of_model L hadm hG hGx hpairs
  rw [← range_genOf] at hmem
  have hf0 : toMv L f ≠ 0 := fun h0 => hne (eq_nil_of_toMv_eq_zero L wf h0)
  obtain ⟨i, a, h1, h2⟩ := Crit.criterion H hGok hS hmem hf0
  obtain ⟨l1, l2⟩ := ld_spec hadm hne hfx
  have hk : a + exOf o G i ∈ keys f := (mem_keys_iff L wf _).2 h1
  have heq : ld o f = a + exOf o G i :=
    H.eq_of_le_of_le (h2 _ ((mem_keys_iff L wf _).1 l1)) (l2 _ hk)
  refine ⟨G[i], List.getElem_mem _, ?_⟩
  have : subDegs (ld o f) (ld o G[i]) = some a := by
    rw [subDegs_eq_some_iff, heq, add_comm]; rfl
  rw [this]; exact Option.some_ne_none _

end Final

end BPoly
end Algobra
