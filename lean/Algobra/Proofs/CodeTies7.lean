/-
  Proofs/CodeTies7.lean — helper lemmas for Props/CodeTies7.lean: `univariate.Polynomial.Degrees`,
  `NTerms`, `IsMonomial` (machine-translated, `Algobra/Gen/Code.lean`) against `UPoly.degrees`,
  `UPoly.nTerms`, `UPoly.isMonomial`, with the abstraction `absC` of Proofs/CodeTies6Defs.lean.
-/
import Algobra.Proofs.CodeTies6

namespace Algobra
namespace CodeTies7Proofs
open Algobra Algobra.Gen.Code Algobra.CodeTiesProofs Algobra.CodeTies5Proofs Algobra.CodeTies6Proofs

/-- the support below `k`, highest degree first (what the Go loops enumerate) -/
def degsDown (F : FOps Nat) (p : UPoly Nat) : Nat → List Nat
  | 0 => []
  | k + 1 => if F.isZero (UPoly.coef F p k) then degsDown F p k else k :: degsDown F p k

theorem degrees_snoc (F : FOps Nat) (l : List Nat) (x : Nat) :
    UPoly.degrees F (l ++ [x]) = (if F.isZero x then [] else [l.length]) ++ UPoly.degrees F l := by
  unfold UPoly.degrees
  rw [List.zipIdx_append]
  simp only [List.zipIdx_cons, List.zipIdx_nil, List.filter_append, List.map_append, List.reverse_append,
    Nat.zero_add]
  congr 1
  cases h : F.isZero x <;> simp [List.filter, h]

theorem degsDown_eq (F : FOps Nat) (p : UPoly Nat) : ∀ k, k ≤ p.length →
    degsDown F p k = UPoly.degrees F (p.take k)
  | 0, _ => by simp [degsDown, UPoly.degrees]
  | k + 1, h => by
    have hk : k < p.length := by omega
    have ht : p.take (k + 1) = p.take k ++ [p[k]] := by
      rw [List.take_add_one, List.getElem?_eq_getElem hk]; rfl
    have hc : UPoly.coef F p k = p[k] := by
      unfold UPoly.coef; rw [List.getD_eq_getElem?_getD, List.getElem?_eq_getElem hk]; rfl
    rw [degsDown, ht, degrees_snoc, degsDown_eq F p k (by omega), hc, List.length_take,
      Nat.min_eq_left (by omega)]
    cases F.isZero p[k] <;> rfl

theorem degsDown_length_le (F : FOps Nat) (p : UPoly Nat) : ∀ k, (degsDown F p k).length ≤ k
  | 0 => by simp [degsDown]
  | k + 1 => by
    have := degsDown_length_le F p k
    unfold degsDown; split <;> simp <;> omega

/-! ### `Degrees` -/

theorem degrees_loop (F : FOps Nat) (hz : F.isZero F.zero = true) (c : List (Option Nat))
    (hlen : c.length < 2 ^ 63) : ∀ (k fuel : Nat) (acc : List Int), k ≤ c.length → k < fuel →
    go_univariate_Polynomial_Degrees_loop1 c F.isZero fuel ((k : Int) - 1, acc, none)
      = (-1, acc ++ (degsDown F (absC F c) k).map Int.ofNat, none) := by
  intro k
  induction k with
  | zero =>
    intro fuel acc _ hf
    obtain ⟨f, rfl⟩ : ∃ f, fuel = f + 1 := ⟨fuel - 1, by omega⟩
    rw [go_univariate_Polynomial_Degrees_loop1]
    simp [degsDown]
  | succ k ih =>
    intro fuel acc hk hf
    obtain ⟨f, rfl⟩ : ∃ f, fuel = f + 1 := ⟨fuel - 1, by omega⟩
    have c0 : ((k + 1 : Nat) : Int) - 1 = (k : Int) := by omega
    have c1 : (k : Int) ≥ 0 := by omega
    have b2 : -(2 ^ 63) ≤ (k : Int) - 1 := by omega
    have b3 : (k : Int) - 1 < 2 ^ 63 := by omega
    have hw := wrap_sub (k : Int) 1 b2 b3
    have hcz := CodeTies6Proofs.coefIsZero F hz c k
    rw [c0, go_univariate_Polynomial_Degrees_loop1]
    simp only [c1, Option.isNone_none, and_self, ↓reduceIte, hcz, hw]
    cases hb : F.isZero (UPoly.coef F (absC F c) k) with
    | true =>
      simp only [↓reduceIte, degsDown, hb]
      exact ih f acc (by omega) (by omega)
    | false =>
      simp only [Bool.false_eq_true, ↓reduceIte, degsDown, hb, List.map_cons]
      rw [ih f (acc ++ [(k : Int)]) (by omega) (by omega), List.append_assoc]
      rfl

theorem degrees (F : FOps Nat) (hz : F.isZero F.zero = true) (c : List (Option Nat))
    (hlen : c.length < 2 ^ 63) :
    go_univariate_Polynomial_Degrees c F.isZero
      = some ((UPoly.degrees F (absC F c)).map Int.ofNat) := by
  have h := degrees_loop F hz c hlen c.length loopFuel [] (Nat.le_refl _) (by unfold loopFuel; omega)
  have hd := degsDown_eq F (absC F c) c.length (by rw [absC_length]; exact Nat.le_refl _)
  have ht : (absC F c).take c.length = absC F c := by
    rw [← absC_length F c]; exact List.take_length
  rw [ht] at hd
  have hi : wrapInt (((c.length : Nat) : Int) - 1) = ((c.length : Nat) : Int) - 1 := by
    by_cases h0 : c.length = 0
    · rw [h0]; decide
    · exact wrap_sub1 _ hlen
  have hnn : (0 : Int) ≤ ((c.length : Nat) : Int) := by omega
  unfold go_univariate_Polynomial_Degrees
  simp only [Int.ofNat_eq_natCast, hnn, ↓reduceIte, hi, h, List.nil_append, hd]

/-! ### `NTerms` -/

theorem nTerms_loop (F : FOps Nat) (hz : F.isZero F.zero = true) (c : List (Option Nat))
    (hlen : c.length < 2 ^ 63) : ∀ (k fuel n : Nat), k ≤ c.length → k < fuel → n + k < 2 ^ 64 →
    go_univariate_Polynomial_NTerms_loop1 c F.isZero fuel (n, (k : Int) - 1, none)
      = (n + (degsDown F (absC F c) k).length, -1, none) := by
  intro k
  induction k with
  | zero =>
    intro fuel n _ hf _
    obtain ⟨f, rfl⟩ : ∃ f, fuel = f + 1 := ⟨fuel - 1, by omega⟩
    rw [go_univariate_Polynomial_NTerms_loop1]
    simp [degsDown]
  | succ k ih =>
    intro fuel n hk hf hn
    obtain ⟨f, rfl⟩ : ∃ f, fuel = f + 1 := ⟨fuel - 1, by omega⟩
    have c0 : ((k + 1 : Nat) : Int) - 1 = (k : Int) := by omega
    have c1 : (k : Int) ≥ 0 := by omega
    have b2 : -(2 ^ 63) ≤ (k : Int) - 1 := by omega
    have b3 : (k : Int) - 1 < 2 ^ 63 := by omega
    have hw := wrap_sub (k : Int) 1 b2 b3
    have hw64 : w64 (n + 1) = n + 1 := w64_of_lt (by omega)
    have hcz := CodeTies6Proofs.coefIsZero F hz c k
    rw [c0, go_univariate_Polynomial_NTerms_loop1]
    simp only [c1, Option.isNone_none, and_self, ↓reduceIte, hcz, hw]
    cases hb : F.isZero (UPoly.coef F (absC F c) k) with
    | true =>
      simp only [not_true_eq_false, ↓reduceIte, degsDown, hb]
      exact ih f n (by omega) (by omega) (by omega)
    | false =>
      simp only [Bool.false_eq_true, not_false_eq_true, ↓reduceIte, degsDown, hb, List.length_cons, hw64]
      rw [ih f (n + 1) (by omega) (by omega) (by omega)]
      congr 1; omega

theorem nTerms (F : FOps Nat) (hz : F.isZero F.zero = true) (c : List (Option Nat))
    (h0 : c.head? ≠ some none) (hlen : c.length < 2 ^ 63) :
    go_univariate_Polynomial_NTerms c F.isZero = some (UPoly.nTerms F (absC F c)) := by
  have h := nTerms_loop F hz c hlen c.length loopFuel 0 (Nat.le_refl _) (by unfold loopFuel; omega)
    (by omega)
  have hd := degsDown_eq F (absC F c) c.length (by rw [absC_length]; exact Nat.le_refl _)
  have ht : (absC F c).take c.length = absC F c := by
    rw [← absC_length F c]; exact List.take_length
  rw [ht] at hd
  have hi : wrapInt (((c.length : Nat) : Int) - 1) = ((c.length : Nat) : Int) - 1 := by
    by_cases h0 : c.length = 0
    · rw [h0]; decide
    · exact wrap_sub1 _ hlen
  unfold go_univariate_Polynomial_NTerms UPoly.nTerms
  simp only [Int.ofNat_eq_natCast, CodeTies6Proofs.isZero F c h0, hi, h, Nat.zero_add, hd]
  cases UPoly.isZero F (absC F c) <;> simp

/-! ### `IsMonomial` -/

theorem isMonomial (F : FOps Nat) (hz : F.isZero F.zero = true) (c : List (Option Nat))
    (hlen : c.length < 2 ^ 63) :
    go_univariate_Polynomial_IsMonomial c F.isZero = some (UPoly.isMonomial F (absC F c)) := by
  unfold go_univariate_Polynomial_IsMonomial UPoly.isMonomial
  simp only [degrees F hz c hlen, List.length_map, Int.ofNat_eq_natCast]
  by_cases h : (UPoly.degrees F (absC F c)).length = 1
  · simp [h]
  · have : ¬ (((UPoly.degrees F (absC F c)).length : Nat) : Int) = 1 := by omega
    simp [h, this]

end CodeTies7Proofs
end Algobra
