/-
  Proofs/Auxmath.lean — helper lemmas for property C19 (integer helpers of /repo/auxmath).
-/
import Mathlib.Tactic.Ring
import Mathlib.Tactic.Linarith
import Mathlib.Tactic.NormNum
import Mathlib.Tactic.NormNum.Prime
import Mathlib.Data.Nat.Prime.Basic
import Mathlib.Data.Nat.Prime.Pow
import Mathlib.Data.List.Prime
import Mathlib.Data.Finset.Sort
import Mathlib.Data.Finset.Powerset
import Mathlib.Data.Nat.Choose.Basic
import Mathlib.Algebra.BigOperators.Group.List.Basic
import Algobra.Model.Auxmath

namespace Algobra.Auxmath
open Algobra

/-! ### words, bitLen, popCount -/

theorem w64_of_lt {x : Nat} (h : x < 2 ^ 64) : w64 x = x := Nat.mod_eq_of_lt h

theorem lt_two_pow_bitLen (a : Nat) : a < 2 ^ bitLen a := by
  unfold bitLen
  split
  · subst_vars; simp
  · exact Nat.lt_log2_self

theorem bitLen_le_of_lt {a k : Nat} (h : a < 2 ^ k) : bitLen a ≤ k := by
  unfold bitLen
  split
  · omega
  · rename_i h0
    have := (Nat.log2_lt h0).2 h
    omega

theorem two_pow_bitLen_pred_le {a : Nat} (h : a ≠ 0) : 2 ^ (bitLen a - 1) ≤ a := by
  unfold bitLen
  rw [if_neg h]
  simpa using Nat.log2_self_le h

theorem popCount_eq_zero {a : Nat} : popCount a = 0 → a = 0 := by
  induction a using Nat.strong_induction_on with
  | _ a ih =>
    intro h
    rw [popCount] at h
    split at h
    · assumption
    · rename_i h0
      have h1 : popCount (a / 2) = 0 := by omega
      have := ih (a / 2) (by omega) h1
      omega

theorem popCount_eq_one {a : Nat} : popCount a = 1 → ∃ k, a = 2 ^ k := by
  induction a using Nat.strong_induction_on with
  | _ a ih =>
    intro h
    rw [popCount] at h
    split at h
    · omega
    · rename_i h0
      rcases Nat.mod_two_eq_zero_or_one a with h2 | h2
      · have h1 : popCount (a / 2) = 1 := by omega
        obtain ⟨k, hk⟩ := ih (a / 2) (by omega) h1
        refine ⟨k + 1, ?_⟩
        rw [Nat.pow_succ]; omega
      · have h1 : popCount (a / 2) = 0 := by omega
        have := popCount_eq_zero h1
        exact ⟨0, by omega⟩

theorem bitLen_two_pow (k : Nat) : bitLen (2 ^ k) = k + 1 := by
  unfold bitLen
  rw [if_neg (by positivity), Nat.log2_two_pow]

/-- the defining property of `boundLog2`: `a ≤ 2 ^ boundLog2 a` -/
theorem le_two_pow_boundLog2 (a : Nat) : a ≤ 2 ^ boundLog2 a := by
  unfold boundLog2
  split
  · omega
  · split
    · rename_i h1
      obtain ⟨k, rfl⟩ := popCount_eq_one h1
      rw [bitLen_two_pow]; simp
    · exact (lt_two_pow_bitLen a).le

theorem boundLog2_le_bitLen (a : Nat) : boundLog2 a ≤ bitLen a := by
  unfold boundLog2
  split
  · omega
  · split <;> omega

/-! ### Pow -/

theorem powLoop_zero_res (tmp n : Nat) : powLoop 0 tmp n = 0 := by
  induction n using Nat.strong_induction_on generalizing tmp with
  | _ n ih =>
    rw [powLoop]
    split
    · rfl
    · have : (if n % 2 = 1 then w64 (0 * tmp) else 0) = 0 := by
        split
        · simp [w64]
        · rfl
      simp only [this]
      exact ih (n / 2) (by omega) _

/-- no truncation inside the loop changes the returned value as long as the final value fits -/
theorem powLoop_eq (res tmp n : Nat) (h : res * tmp ^ n < 2 ^ 64) :
    powLoop res tmp n = res * tmp ^ n := by
  induction n using Nat.strong_induction_on generalizing res tmp with
  | _ n ih =>
    rw [powLoop]
    split
    · subst_vars; simp
    · rename_i hn
      rcases Nat.eq_zero_or_pos res with hr | hr
      · subst hr
        have : (if n % 2 = 1 then w64 (0 * tmp) else 0) = 0 := by
          split
          · simp [w64]
          · rfl
        rw [this, powLoop_zero_res, Nat.zero_mul]
      · -- res ≥ 1
        have hdecomp : tmp ^ n = (tmp * tmp) ^ (n / 2) * tmp ^ (n % 2) := by
          conv_lhs => rw [← Nat.div_add_mod n 2]
          rw [Nat.pow_add, Nat.pow_mul, Nat.pow_two]
        by_cases hn2 : n / 2 = 0
        · -- n = 1 : the last squaring is unused
          have hn1 : n = 1 := by omega
          subst hn1
          simp only [show (1 : Nat) % 2 = 1 from rfl, if_true, show (1 : Nat) / 2 = 0 from rfl]
          rw [powLoop]
          simp only [dif_pos]
          rw [Nat.pow_one] at h ⊢
          exact w64_of_lt h
        · -- n ≥ 2 : tmp*tmp ≤ tmp^n ≤ res*tmp^n
          have hn2' : 2 ≤ n := by omega
          have htt : tmp * tmp ≤ tmp ^ n := by
            rcases Nat.eq_zero_or_pos tmp with ht | ht
            · subst ht; simp
            · rw [← Nat.pow_two]; exact Nat.pow_le_pow_right ht hn2'
          have hpow_le : tmp ^ n ≤ res * tmp ^ n := Nat.le_mul_of_pos_left _ hr
          have hw : w64 (tmp * tmp) = tmp * tmp := w64_of_lt (by omega)
          rw [hw]
          rcases Nat.mod_two_eq_zero_or_one n with h2 | h2
          · have hne : ¬ (n % 2 = 1) := by omega
            simp only [hne, if_false]
            rw [hdecomp, h2, Nat.pow_zero, Nat.mul_one] at h
            rw [ih (n / 2) (by omega) res (tmp * tmp) h, hdecomp, h2, Nat.pow_zero, Nat.mul_one]
          · simp only [h2, if_true]
            have hrt : res * tmp ≤ res * tmp ^ n := by
              apply Nat.mul_le_mul_left
              rcases Nat.eq_zero_or_pos tmp with ht | ht
              · subst ht; simp
              · calc tmp = tmp ^ 1 := (Nat.pow_one _).symm
                  _ ≤ tmp ^ n := Nat.pow_le_pow_right ht (by omega)
            have hw2 : w64 (res * tmp) = res * tmp := w64_of_lt (by omega)
            rw [hw2]
            have h' : res * tmp * (tmp * tmp) ^ (n / 2) < 2 ^ 64 := by
              rw [hdecomp, h2, Nat.pow_one] at h
              calc res * tmp * (tmp * tmp) ^ (n / 2)
                  = res * ((tmp * tmp) ^ (n / 2) * tmp) := by ring
                _ < 2 ^ 64 := h
            rw [ih (n / 2) (by omega) (res * tmp) (tmp * tmp) h']
            conv_rhs => rw [hdecomp, h2, Nat.pow_one]
            ring

/-- soundness of the overflow guard: when `Pow` does not refuse, `a ^ n` fits a word -/
theorem pow_lt_of_powGuard_false {a n : Nat} (ha : a < 2 ^ 64)
    (hg : powGuard a n = false) : a ^ n < 2 ^ 64 := by
  unfold powGuard at hg
  simp only [uintSize, Bool.and_eq_false_iff, Bool.or_eq_false_iff, decide_eq_false_iff_not,
    ge_iff_le, gt_iff_lt, Nat.not_lt, Nat.not_le, Nat.le_zero] at hg
  rcases hg with (h0 | hb) | ⟨hn, hbn⟩
  · subst h0
    rcases Nat.eq_zero_or_pos n with h | h
    · subst h; norm_num
    · rw [Nat.zero_pow h]; norm_num
  · -- boundLog2 a = 0, so a ≤ 1
    have := le_two_pow_boundLog2 a
    rw [hb] at this
    have : a ^ n ≤ 1 ^ n := Nat.pow_le_pow_left (by omega) n
    rw [Nat.one_pow] at this
    omega
  · -- the product does not wrap because both factors are ≤ 64
    have hb64 : boundLog2 a ≤ 64 := (boundLog2_le_bitLen a).trans (bitLen_le_of_lt ha)
    have hprod : boundLog2 a * n < 2 ^ 64 := by
      have : boundLog2 a * n ≤ 64 * 64 := Nat.mul_le_mul hb64 (by omega)
      omega
    rw [w64_of_lt hprod] at hbn
    calc a ^ n ≤ (2 ^ boundLog2 a) ^ n := Nat.pow_le_pow_left (le_two_pow_boundLog2 a) n
      _ = 2 ^ (boundLog2 a * n) := (Nat.pow_mul _ _ _).symm
      _ ≤ 2 ^ 63 := Nat.pow_le_pow_right (by omega) (by omega)
      _ < 2 ^ 64 := by norm_num

/-! ### Gcd -/

theorem gcd_eq (a b : Nat) : gcd a b = Nat.gcd a b := by
  induction a using Nat.strong_induction_on generalizing b with
  | _ a ih =>
    rw [gcd]
    split
    · subst_vars; simp
    · rename_i h0
      have hmod : b - b / a * a = b % a := by
        have := Nat.div_add_mod b a
        rw [Nat.mul_comm] at this
        omega
      rw [hmod, ih (b % a) (Nat.mod_lt _ (by omega)) a, ← Nat.gcd_rec]

/-! ### BoundSqrt -/

theorem boundSqrt_eq {a : Nat} (ha : a < 2 ^ 64) (h0 : a ≠ 0) :
    boundSqrt a = 2 ^ ((bitLen a + 1) / 2) := by
  unfold boundSqrt
  rw [if_neg h0]
  have hb : bitLen a ≤ 64 := bitLen_le_of_lt ha
  have he : (if bitLen a % 2 = 0 then bitLen a / 2 else bitLen a / 2 + 1) = (bitLen a + 1) / 2 := by
    split <;> omega
  simp only [he]
  rw [Nat.shiftLeft_eq, Nat.one_mul]
  apply w64_of_lt
  exact Nat.pow_lt_pow_right (by omega) (by omega)

theorem boundSqrt_sq {a : Nat} (ha : a < 2 ^ 64) : a ≤ boundSqrt a ^ 2 := by
  rcases Nat.eq_zero_or_pos a with h0 | h0
  · subst h0; simp
  · rw [boundSqrt_eq ha (by omega), ← Nat.pow_mul]
    calc a ≤ 2 ^ bitLen a := (lt_two_pow_bitLen a).le
      _ ≤ 2 ^ ((bitLen a + 1) / 2 * 2) := Nat.pow_le_pow_right (by omega) (by omega)

theorem boundSqrt_le {a : Nat} (ha : a < 2 ^ 64) : boundSqrt a ≤ 2 ^ 32 := by
  rcases Nat.eq_zero_or_pos a with h0 | h0
  · subst h0; simp [boundSqrt]
  · rw [boundSqrt_eq ha (by omega)]
    have hb : bitLen a ≤ 64 := bitLen_le_of_lt ha
    exact Nat.pow_le_pow_right (by omega) (by omega)

/-! ### trial division by the wheel 2, 3, 6k∓1 -/

/-- `factScan` and `fppScan` are the same function -/
theorem factScan_eq_fppScan (n maxF k : Nat) : factScan n maxF k = fppScan n maxF k := by
  fun_induction fppScan n maxF k with
  | case1 k h h1 => rw [factScan, dif_pos h, if_pos h1]
  | case2 k h h1 h2 => rw [factScan, dif_pos h, if_neg h1, if_pos h2]
  | case3 k h h1 h2 ih => rw [factScan, dif_pos h, if_neg h1, if_neg h2, ih]
  | case4 k h => rw [factScan, dif_neg h]

/-- whatever the scan returns (if not 0) divides `q` and is at least the first candidate -/
theorem fppScan_dvd (q maxP k : Nat) (h : fppScan q maxP k ≠ 0) :
    fppScan q maxP k ∣ q ∧ k - 1 ≤ fppScan q maxP k := by
  fun_induction fppScan q maxP k with
  | case1 k _ h1 => exact ⟨Nat.dvd_of_mod_eq_zero h1, le_refl _⟩
  | case2 k _ _ h2 => exact ⟨Nat.dvd_of_mod_eq_zero h2, by omega⟩
  | case3 k _ _ _ ih =>
    have := ih h
    exact ⟨this.1, by omega⟩
  | case4 k _ => exact absurd rfl h

/-- the scan does not skip a dividing candidate `c ≡ ±1 (mod 6)` -/
theorem fppScan_min (q maxP k : Nat) (hk : k % 6 = 0) (hk0 : 6 ≤ k) (c : Nat) (hc : k - 1 ≤ c)
    (hc6 : c % 6 = 1 ∨ c % 6 = 5) (hcq : c ∣ q) (hr : c ≤ maxP ∨ fppScan q maxP k ≠ 0) :
    fppScan q maxP k ≠ 0 ∧ fppScan q maxP k ≤ c := by
  fun_induction fppScan q maxP k with
  | case1 k _ h1 => exact ⟨by omega, hc⟩
  | case2 k _ h1 h2 =>
    have : c ≠ k - 1 := by
      rintro rfl; exact h1 (Nat.mod_eq_zero_of_dvd hcq)
    exact ⟨by omega, by omega⟩
  | case3 k _ h1 h2 ih =>
    have hc1 : c ≠ k - 1 := by
      rintro rfl; exact h1 (Nat.mod_eq_zero_of_dvd hcq)
    have hc2 : c ≠ k + 1 := by
      rintro rfl; exact h2 (Nat.mod_eq_zero_of_dvd hcq)
    exact ih (by omega) (by omega) (by omega) hr
  | case4 k h => omega

theorem prime_mod_six {m : Nat} (hm : m.Prime) (h2 : m ≠ 2) (h3 : m ≠ 3) :
    m % 6 = 1 ∨ m % 6 = 5 := by
  have n2 : ¬ 2 ∣ m := fun h => h2 ((Nat.prime_dvd_prime_iff_eq Nat.prime_two hm).1 h).symm
  have n3 : ¬ 3 ∣ m := fun h => h3 ((Nat.prime_dvd_prime_iff_eq Nat.prime_three hm).1 h).symm
  omega

/-- for `q` coprime to 6 the scan up to `BoundSqrt q` returns the least prime factor, or 0 only
    when `q` is prime -/
theorem fppScan_minFac {q : Nat} (hq : 2 ≤ q) (hq64 : q < 2 ^ 64) (h2 : q % 2 ≠ 0)
    (h3 : q % 3 ≠ 0) :
    (fppScan q (boundSqrt q) 6 = 0 ∧ q.Prime) ∨
      (fppScan q (boundSqrt q) 6 ≠ 0 ∧ fppScan q (boundSqrt q) 6 = q.minFac) := by
  have hm : q.minFac.Prime := Nat.minFac_prime (by omega)
  have hmq : q.minFac ∣ q := Nat.minFac_dvd q
  have hm2 : q.minFac ≠ 2 := fun h => h2 (Nat.mod_eq_zero_of_dvd (h ▸ hmq))
  have hm3 : q.minFac ≠ 3 := fun h => h3 (Nat.mod_eq_zero_of_dvd (h ▸ hmq))
  have hm5 : 5 ≤ q.minFac := hm.five_le_of_ne_two_of_ne_three hm2 hm3
  have hm6 := prime_mod_six hm hm2 hm3
  by_cases hr : fppScan q (boundSqrt q) 6 = 0
  · left
    refine ⟨hr, ?_⟩
    by_contra hnp
    have hsq : q.minFac ^ 2 ≤ q := Nat.minFac_sq_le_self (by omega) hnp
    have hle : q.minFac ≤ boundSqrt q := by
      have := boundSqrt_sq hq64
      have h' : q.minFac ^ 2 ≤ boundSqrt q ^ 2 := hsq.trans this
      exact (Nat.pow_le_pow_iff_left (by norm_num)).1 h'
    exact (fppScan_min q (boundSqrt q) 6 rfl (le_refl _) q.minFac (by omega) hm6 hmq
      (Or.inl hle)).1 hr
  · right
    refine ⟨hr, ?_⟩
    have hd := fppScan_dvd q (boundSqrt q) 6 hr
    have h1 := (fppScan_min q (boundSqrt q) 6 rfl (le_refl _) q.minFac (by omega) hm6 hmq
      (Or.inr hr)).2
    have h2 := Nat.minFac_le_of_dvd (by omega : 2 ≤ fppScan q (boundSqrt q) 6) hd.1
    omega

/-- the candidate prime chosen by `FactorizePrimePower` / `Factorize` (0 = none found) -/
def wheelChoice (q : Nat) : Nat :=
  if q % 2 = 0 then 2 else if q % 3 = 0 then 3 else fppScan q (boundSqrt q) 6

theorem wheelChoice_spec {q : Nat} (hq : 2 ≤ q) (hq64 : q < 2 ^ 64) :
    (wheelChoice q = 0 ∧ q.Prime) ∨ (wheelChoice q ≠ 0 ∧ wheelChoice q = q.minFac) := by
  unfold wheelChoice
  split
  · rename_i h2
    right
    exact ⟨by omega, ((Nat.minFac_eq_two_iff q).2 (Nat.dvd_of_mod_eq_zero h2)).symm⟩
  · rename_i h2
    split
    · rename_i h3
      right
      refine ⟨by omega, ?_⟩
      have hm : q.minFac.Prime := Nat.minFac_prime (by omega)
      have hmq : q.minFac ∣ q := Nat.minFac_dvd q
      have hle : q.minFac ≤ 3 := Nat.minFac_le_of_dvd (by omega) (Nat.dvd_of_mod_eq_zero h3)
      have hm2 : q.minFac ≠ 2 := fun h => h2 (Nat.mod_eq_zero_of_dvd (h ▸ hmq))
      have := hm.two_le
      omega
    · rename_i h3
      exact fppScan_minFac hq hq64 h2 h3

/-! ### FactorizePrimePower -/

theorem fppDivide_some {q p n0 n : Nat} (hq : 1 ≤ q) (h : fppDivide q p n0 = some n) :
    n0 ≤ n ∧ q = p ^ (n - n0) := by
  fun_induction fppDivide q p n0 with
  | case1 q n0 h1 =>
    injection h with h; subst h
    have : q = 1 := by omega
    simp [this]
  | case2 q n0 _ hp => cases h
  | case3 q n0 _ _ hm => cases h
  | case4 q n0 h1 hp hm ih =>
    have hm' : q % p = 0 := by simpa using hm
    have hdvd : p ∣ q := Nat.dvd_of_mod_eq_zero hm'
    have hqp : 1 ≤ q / p := by
      have : p ≤ q := Nat.le_of_dvd (by omega) hdvd
      exact (Nat.one_le_div_iff (by omega)).2 this
    obtain ⟨hle, he⟩ := ih hqp h
    refine ⟨by omega, ?_⟩
    have : n - n0 = (n - (n0 + 1)) + 1 := by omega
    rw [this, Nat.pow_succ, ← he, Nat.div_mul_cancel hdvd]

theorem fppDivide_pow {p : Nat} (hp : 2 ≤ p) (j n0 : Nat) :
    fppDivide (p ^ j) p n0 = some (n0 + j) := by
  induction j generalizing n0 with
  | zero => rw [fppDivide]; simp
  | succ j ih =>
    have hpos : 0 < p ^ j := Nat.pow_pos (by omega)
    have hgt : ¬ p ^ (j + 1) ≤ 1 := by
      rw [Nat.pow_succ]
      have : 1 * 2 ≤ p ^ j * p := Nat.mul_le_mul hpos hp
      omega
    rw [fppDivide, dif_neg hgt, dif_neg (by omega)]
    have hmod : p ^ (j + 1) % p = 0 := by rw [Nat.pow_succ]; exact Nat.mul_mod_left _ _
    have hdiv : p ^ (j + 1) / p = p ^ j := by
      rw [Nat.pow_succ]; exact Nat.mul_div_cancel _ (by omega)
    simp only [hmod, ne_eq, not_true_eq_false, if_false, hdiv]
    rw [ih]; congr 1; omega

theorem factorizePrimePower_eq (q : Nat) :
    factorizePrimePower q =
      if q = 0 ∨ q = 1 then .error .inputValue
      else if wheelChoice q = 0 then .ok (q, 1)
      else match fppDivide q (wheelChoice q) 0 with
        | some n => .ok (wheelChoice q, n)
        | none => .error .inputValue := by
  have hw : wheelChoice q =
      (if (if q % 2 = 0 then 2 else if q % 3 = 0 then 3 else 0) = 0
        then fppScan q (boundSqrt q) 6
        else (if q % 2 = 0 then 2 else if q % 3 = 0 then 3 else 0)) := by
    unfold wheelChoice
    split
    · simp
    · split <;> simp
  rw [hw]
  rfl

/-! ### Factorize -/

theorem divOut_spec {n p e0 : Nat} (hp : 2 ≤ p) (hn : 1 ≤ n) :
    e0 ≤ (divOut n p e0).1 ∧ n = p ^ ((divOut n p e0).1 - e0) * (divOut n p e0).2 ∧
      ¬ p ∣ (divOut n p e0).2 ∧ 1 ≤ (divOut n p e0).2 ∧ (p ∣ n → e0 < (divOut n p e0).1) := by
  fun_induction divOut n p e0 with
  | case1 n e0 h => omega
  | case2 n e0 h hm ih =>
    have hdvd : p ∣ n := Nat.dvd_of_mod_eq_zero hm
    have hqp : 1 ≤ n / p := by
      have : p ≤ n := Nat.le_of_dvd (by omega) hdvd
      exact (Nat.one_le_div_iff (by omega)).2 this
    obtain ⟨h1, h2, h3, h4, _⟩ := ih hqp
    refine ⟨by omega, ?_, h3, h4, fun _ => by omega⟩
    have he : (divOut (n / p) p (e0 + 1)).1 - e0 = ((divOut (n / p) p (e0 + 1)).1 - (e0 + 1)) + 1 := by
      omega
    rw [he, Nat.pow_succ]
    generalize (divOut (n / p) p (e0 + 1)).1 - (e0 + 1) = j at *
    generalize (divOut (n / p) p (e0 + 1)).2 = m at *
    calc n = n / p * p := (Nat.div_mul_cancel hdvd).symm
      _ = p ^ j * m * p := by rw [← h2]
      _ = _ := by ring
  | case3 n e0 h hm =>
    refine ⟨le_refl _, by simp, ?_, hn, ?_⟩
    · intro hd; exact hm (Nat.mod_eq_zero_of_dvd hd)
    · intro hd; exact absurd (Nat.mod_eq_zero_of_dvd hd) hm

/-- what `Factorize` promises about its output for `n ≥ 1` -/
def IsFactorization (n : Nat) (l : List (Nat × Nat)) : Prop :=
  (∀ pe ∈ l, pe.1.Prime ∧ 0 < pe.2 ∧ pe.1 ∣ n) ∧
  (l.map Prod.fst).Pairwise (· < ·) ∧
  (l.map (fun pe => pe.1 ^ pe.2)).prod = n

theorem factorize_succ (fuel n : Nat) :
    factorize (fuel + 1) n =
      if n = 0 then [(0, 1)]
      else if n = 1 then []
      else if wheelChoice n = 0 then [(n, 1)]
      else (wheelChoice n, (divOut n (wheelChoice n)).1) ::
        factorize fuel (divOut n (wheelChoice n)).2 := by
  rw [factorize]
  simp only [factScan_eq_fppScan]
  rfl

theorem factorize_isFactorization (fuel n : Nat) (hn : 1 ≤ n) (hf : n < 2 ^ fuel)
    (h64 : n < 2 ^ 64) : IsFactorization n (factorize fuel n) := by
  induction fuel generalizing n with
  | zero => simp at hf; omega
  | succ fuel ih =>
    rw [factorize_succ, if_neg (by omega)]
    split
    · subst_vars; simp [IsFactorization]
    · rename_i h1
      have hn2 : 2 ≤ n := by omega
      rcases wheelChoice_spec hn2 h64 with ⟨hw, hprime⟩ | ⟨hw, hmin⟩
      · rw [if_pos hw]
        simp [IsFactorization, hprime]
      · rw [if_neg hw]
        have hpr : (wheelChoice n).Prime := hmin ▸ Nat.minFac_prime (by omega)
        have hdvd : wheelChoice n ∣ n := hmin ▸ Nat.minFac_dvd n
        obtain ⟨_, h2, h3, h4, h5⟩ := divOut_spec (e0 := 0) hpr.two_le hn
        have h5' := h5 hdvd
        rw [Nat.sub_zero] at h2
        generalize (divOut n (wheelChoice n)).1 = e at *
        generalize hn' : (divOut n (wheelChoice n)).2 = n' at *
        generalize hp : wheelChoice n = p at *
        have hpe : p ≤ p ^ e := by
          calc p = p ^ 1 := (Nat.pow_one _).symm
            _ ≤ p ^ e := Nat.pow_le_pow_right hpr.pos h5'
        have hn'le : n' * 2 ≤ n := by
          rw [h2, Nat.mul_comm]
          exact Nat.mul_le_mul (hpr.two_le.trans hpe) (le_refl _)
        have hn'dvd : n' ∣ n := ⟨p ^ e, by rw [h2]; ring⟩
        have hf' : n' < 2 ^ fuel := by rw [Nat.pow_succ] at hf; omega
        obtain ⟨ha, hb, hc⟩ := ih n' h4 hf' (by omega)
        refine ⟨?_, ?_, ?_⟩
        · intro pe hpe
          rcases List.mem_cons.1 hpe with rfl | hmem
          · exact ⟨hpr, h5', hdvd⟩
          · obtain ⟨x, y, z⟩ := ha pe hmem
            exact ⟨x, y, z.trans hn'dvd⟩
        · rw [List.map_cons, List.pairwise_cons]
          refine ⟨?_, hb⟩
          intro p' hp'
          obtain ⟨pe, hmem, rfl⟩ := List.mem_map.1 hp'
          obtain ⟨x, _, z⟩ := ha pe hmem
          have hle : p ≤ pe.1 := by
            rw [hmin]; exact Nat.minFac_le_of_dvd x.two_le (z.trans hn'dvd)
          have hne : p ≠ pe.1 := by
            intro he; rw [← he] at z; exact h3 z
          exact lt_of_le_of_ne hle hne
        · rw [List.map_cons, List.prod_cons, hc, ← h2]

/-! ### CombinIter -/

/-- strict lexicographic order on index lists (this is `<` on `List Nat`) -/
abbrev LexLt (s t : List Nat) : Prop := List.Lex (fun a b : Nat => a < b) s t

theorem lexLt_iff_lt (s t : List Nat) : LexLt s t ↔ s < t := Iff.rfl

theorem lexLt_irrefl (s : List Nat) : ¬ LexLt s s := by
  induction s with
  | nil => intro h; cases h
  | cons a s ih =>
    intro h
    rcases List.cons_lex_cons_iff.1 h with h | ⟨_, h⟩
    · exact Nat.lt_irrefl _ h
    · exact ih h

theorem lexLt_trans {s t u : List Nat} (h1 : LexLt s t) (h2 : LexLt t u) : LexLt s u := by
  induction s generalizing t u with
  | nil =>
    cases t with
    | nil => cases h1
    | cons b t => cases u with
      | nil => cases h2
      | cons c u => exact List.Lex.nil
  | cons a s ih =>
    cases t with
    | nil => cases h1
    | cons b t =>
      cases u with
      | nil => cases h2
      | cons c u =>
        rcases List.cons_lex_cons_iff.1 h1 with h | ⟨rfl, h⟩
        · rcases List.cons_lex_cons_iff.1 h2 with h' | ⟨rfl, h'⟩
          · exact List.Lex.rel (Nat.lt_trans h h')
          · exact List.Lex.rel h
        · rcases List.cons_lex_cons_iff.1 h2 with h' | ⟨rfl, h'⟩
          · exact List.Lex.rel h'
          · exact List.Lex.cons (ih h h')

theorem lexLt_trichotomy (s t : List Nat) : LexLt s t ∨ s = t ∨ LexLt t s := by
  induction s generalizing t with
  | nil =>
    cases t with
    | nil => exact Or.inr (Or.inl rfl)
    | cons b t => exact Or.inl List.Lex.nil
  | cons a s ih =>
    cases t with
    | nil => exact Or.inr (Or.inr List.Lex.nil)
    | cons b t =>
      rcases Nat.lt_trichotomy a b with h | rfl | h
      · exact Or.inl (List.Lex.rel h)
      · rcases ih t with h | rfl | h
        · exact Or.inl (List.Lex.cons h)
        · exact Or.inr (Or.inl rfl)
        · exact Or.inr (Or.inr (List.Lex.cons h))
      · exact Or.inr (Or.inr (List.Lex.rel h))

/-- strictly increasing with all entries in `[lo, n)` (structural form) -/
def IsComb (n : Nat) : Nat → List Nat → Prop
  | _, [] => True
  | lo, x :: t => lo ≤ x ∧ x < n ∧ IsComb n (x + 1) t

theorem isComb_iff (n lo : Nat) (s : List Nat) :
    IsComb n lo s ↔ s.Pairwise (· < ·) ∧ ∀ x ∈ s, lo ≤ x ∧ x < n := by
  induction s generalizing lo with
  | nil => simp [IsComb]
  | cons a s ih =>
    simp only [IsComb, ih, List.pairwise_cons, List.mem_cons, forall_eq_or_imp]
    constructor
    · rintro ⟨h1, h2, h3, h4⟩
      exact ⟨⟨fun y hy => (h4 y hy).1, h3⟩, ⟨h1, h2⟩, fun y hy => ⟨by have := (h4 y hy).1; omega, (h4 y hy).2⟩⟩
    · rintro ⟨⟨h1, h2⟩, ⟨h3, h4⟩, h5⟩
      exact ⟨h3, h4, h2, fun y hy => ⟨h1 y hy, (h5 y hy).2⟩⟩

theorem isComb_bound {n lo x : Nat} {t : List Nat} (h : IsComb n lo (x :: t)) :
    x + t.length + 1 ≤ n := by
  induction t generalizing lo x with
  | nil => have := h.2.1; simp; omega
  | cons y t ih =>
    have h1 := h.2.2
    have := ih h1
    have := h1.1
    simp only [List.length_cons]; omega

theorem refill_length (l : List Nat) (v : Nat) : (refill l v).length = l.length := by
  induction l generalizing v with
  | nil => rfl
  | cons a l ih => simp [refill, ih]

theorem isComb_refill {n : Nat} (l : List Nat) (v : Nat) (h : v + l.length < n) :
    IsComb n (v + 1) (refill l v) := by
  induction l generalizing v with
  | nil => trivial
  | cons a l ih =>
    simp only [List.length_cons] at h
    exact ⟨le_refl _, by omega, ih (v + 1) (by omega)⟩

/-- `refill l v` is the least combination above `v` of its length -/
theorem refill_min {n : Nat} (l : List Nat) (v : Nat) (t : List Nat) (ht : IsComb n (v + 1) t)
    (hl : t.length = l.length) : LexLt (refill l v) t ∨ refill l v = t := by
  induction l generalizing v t with
  | nil =>
    cases t with
    | nil => exact Or.inr rfl
    | cons _ _ => simp at hl
  | cons a l ih =>
    cases t with
    | nil => simp at hl
    | cons y t =>
      obtain ⟨h1, _, h3⟩ := ht
      rcases Nat.lt_or_eq_of_le h1 with h | h
      · exact Or.inl (List.Lex.rel h)
      · subst h
        rcases ih (v + 1) t h3 (by simpa using hl) with h | h
        · exact Or.inl (List.Lex.cons h)
        · right; simp only [refill]; rw [h]

/-- structural form of `Next()`: lexicographic successor, `none` at the last combination -/
def nxt (n : Nat) : List Nat → Option (List Nat)
  | [] => none
  | x :: t =>
    match nxt n t with
    | some t' => some (x :: t')
    | none => if x + t.length + 1 < n then some ((x + 1) :: refill t (x + 1)) else none

theorem nxt_none_max {n : Nat} {s : List Nat} (h : nxt n s = none) (t : List Nat) (lo : Nat)
    (ht : IsComb n lo t) (hl : t.length = s.length) : LexLt t s ∨ t = s := by
  induction s generalizing t lo with
  | nil =>
    cases t with
    | nil => exact Or.inr rfl
    | cons _ _ => simp at hl
  | cons x r ih =>
    cases t with
    | nil => simp at hl
    | cons y t =>
      have hlen : t.length = r.length := by simpa using hl
      simp only [nxt] at h
      split at h
      · cases h
      · rename_i hr
        split at h
        · cases h
        · rename_i hx
          have hb := isComb_bound ht
          rw [hlen] at hb
          have hyx : y ≤ x := by omega
          rcases Nat.lt_or_eq_of_le hyx with h' | h'
          · exact Or.inl (List.Lex.rel h')
          · subst h'
            rcases ih hr t (y + 1) ht.2.2 hlen with h'' | h''
            · exact Or.inl (List.Lex.cons h'')
            · exact Or.inr (by rw [h''])

theorem nxt_some {n : Nat} {s s' : List Nat} (lo : Nat) (h : nxt n s = some s')
    (hs : IsComb n lo s) :
    IsComb n lo s' ∧ LexLt s s' ∧ s'.length = s.length ∧
      ∀ t lo', IsComb n lo' t → t.length = s.length → LexLt s t → (LexLt s' t ∨ s' = t) := by
  induction s generalizing s' lo with
  | nil => simp [nxt] at h
  | cons x r ih =>
    obtain ⟨hs1, hs2, hs3⟩ := hs
    simp only [nxt] at h
    split at h
    · rename_i r' hr
      injection h with h; subst h
      obtain ⟨a, b, c, d⟩ := ih (x + 1) hr hs3
      refine ⟨⟨hs1, hs2, a⟩, List.Lex.cons b, by simp [c], ?_⟩
      intro t lo' ht hl hlt
      cases t with
      | nil => cases hlt
      | cons y t =>
        rcases List.cons_lex_cons_iff.1 hlt with h' | ⟨rfl, h'⟩
        · exact Or.inl (List.Lex.rel h')
        · rcases d t (x + 1) ht.2.2 (by simpa using hl) h' with h'' | h''
          · exact Or.inl (List.Lex.cons h'')
          · exact Or.inr (by rw [h''])
    · rename_i hr
      split at h
      · rename_i hx
        injection h with h; subst h
        refine ⟨⟨by omega, by omega, isComb_refill r (x + 1) (by omega)⟩,
          List.Lex.rel (Nat.lt_succ_self x), by simp [refill_length], ?_⟩
        intro t lo' ht hl hlt
        cases t with
        | nil => cases hlt
        | cons y t =>
          have hlen : t.length = r.length := by simpa using hl
          rcases List.cons_lex_cons_iff.1 hlt with h' | ⟨rfl, h'⟩
          · rcases Nat.lt_or_eq_of_le (Nat.succ_le_of_lt h') with h'' | h''
            · exact Or.inl (List.Lex.rel h'')
            · subst h''
              rcases refill_min r (x + 1) t ht.2.2 hlen with h3 | h3
              · exact Or.inl (List.Lex.cons h3)
              · exact Or.inr (by rw [h3])
          · -- `r` is already maximal, nothing of the form `x :: t` lies above
            rcases nxt_none_max hr t (x + 1) ht.2.2 hlen with h3 | h3
            · exact absurd (lexLt_trans h' h3) (lexLt_irrefl _)
            · subst h3; exact absurd h' (lexLt_irrefl _)
      · cases h

theorem nxt_append_some {n : Nat} (pre : List Nat) {t t' : List Nat} (h : nxt n t = some t') :
    nxt n (pre ++ t) = some (pre ++ t') := by
  induction pre with
  | nil => simpa using h
  | cons a pre ih => simp only [List.cons_append, nxt, ih]

/-- the backwards scan of the code computes `nxt` -/
theorem nextAux_eq (n : Nat) (pre suf : List Nat) (fuel : Nat) (hsuf : nxt n suf = none)
    (hf : pre.length < fuel) :
    nextAux n (pre ++ suf) suf.length fuel = nxt n (pre ++ suf) := by
  induction pre using List.reverseRecOn generalizing suf fuel with
  | nil =>
    cases fuel with
    | zero => omega
    | succ f => simp [nextAux, hsuf]
  | append_singleton pre' x ih =>
    cases fuel with
    | zero => omega
    | succ f =>
      have hlen : (pre' ++ [x] ++ suf).length = pre'.length + 1 + suf.length := by simp; omega
      have hj : (pre' ++ [x] ++ suf).length - 1 - suf.length = pre'.length := by omega
      have hs : pre' ++ [x] ++ suf = pre' ++ x :: suf := by simp
      rw [nextAux, if_neg (by omega)]
      simp only [hj]
      have hget : (pre' ++ [x] ++ suf).getD pre'.length 0 = x := by
        rw [hs]; simp
      have htake : (pre' ++ [x] ++ suf).take pre'.length = pre' := by
        rw [hs]; simp
      have hdrop : (pre' ++ [x] ++ suf).drop (pre'.length + 1) = suf := by
        rw [hs]; simp
      rw [hget, htake, hdrop]
      split
      · rename_i hx
        have h1 : nxt n (x :: suf) = some ((x + 1) :: refill suf (x + 1)) := by
          simp only [nxt, hsuf, if_pos hx]
        rw [hs, nxt_append_some pre' h1]
        simp
      · rename_i hx
        have h1 : nxt n (x :: suf) = none := by
          simp only [nxt, hsuf, if_neg hx]
        have := ih (x :: suf) f h1 (by simp at hf; omega)
        rw [hs]
        simpa using this

theorem next_eq_nxt (n : Nat) (s : List Nat) : next n s = nxt n s := by
  have := nextAux_eq n s [] (s.length + 1) rfl (by omega)
  simpa [next] using this

/-- the `k`-combinations of `{0,…,n-1}` as index lists -/
def Valid (n k : Nat) (s : List Nat) : Prop := IsComb n 0 s ∧ s.length = k

theorem valid_iff (n k : Nat) (s : List Nat) :
    Valid n k s ↔ s.length = k ∧ s.Pairwise (· < ·) ∧ ∀ x ∈ s, x < n := by
  unfold Valid
  rw [isComb_iff]
  simp only [Nat.zero_le, true_and]
  tauto

/-- `next` is the lexicographic successor among combinations -/
theorem next_some {n k : Nat} {s s' : List Nat} (h : next n s = some s') (hs : Valid n k s) :
    Valid n k s' ∧ LexLt s s' ∧ ∀ t, Valid n k t → LexLt s t → (LexLt s' t ∨ s' = t) := by
  rw [next_eq_nxt] at h
  obtain ⟨a, b, c, d⟩ := nxt_some 0 h hs.1
  exact ⟨⟨a, by rw [c, hs.2]⟩, b, fun t ht hlt => d t 0 ht.1 (by rw [ht.2, hs.2]) hlt⟩

/-- `next` reports the end exactly at the lexicographically last combination -/
theorem next_none {n k : Nat} {s : List Nat} (h : next n s = none) (hs : Valid n k s) :
    ∀ t, Valid n k t → (LexLt t s ∨ t = s) := by
  rw [next_eq_nxt] at h
  exact fun t ht => nxt_none_max h t 0 ht.1 (by rw [ht.2, hs.2])

/-- all combinations as a finite set (image of the `k`-subsets under sorting) -/
def validSet (n k : Nat) : Finset (List Nat) :=
  ((Finset.range n).powersetCard k).image (fun f => f.sort (· ≤ ·))

theorem mem_validSet {n k : Nat} {s : List Nat} : s ∈ validSet n k ↔ Valid n k s := by
  rw [valid_iff]
  unfold validSet
  constructor
  · intro h
    obtain ⟨f, hf, rfl⟩ := Finset.mem_image.1 h
    obtain ⟨hsub, hcard⟩ := Finset.mem_powersetCard.1 hf
    refine ⟨by rw [Finset.length_sort, hcard], ?_, ?_⟩
    · have h1 : (f.sort (· ≤ ·)).Pairwise (· ≤ ·) := Finset.pairwise_sort f (· ≤ ·)
      have h2 : (f.sort (· ≤ ·)).Pairwise (· ≠ ·) := Finset.sort_nodup f (· ≤ ·)
      exact (h1.and h2).imp (fun h => lt_of_le_of_ne h.1 h.2)
    · intro x hx
      exact Finset.mem_range.1 (hsub ((Finset.mem_sort (· ≤ ·)).1 hx))
  · rintro ⟨hl, hp, hb⟩
    have hnd : s.Nodup := hp.imp (fun h => Nat.ne_of_lt h)
    refine Finset.mem_image.2 ⟨s.toFinset, Finset.mem_powersetCard.2 ⟨?_, ?_⟩, ?_⟩
    · intro x hx
      exact Finset.mem_range.2 (hb x (List.mem_toFinset.1 hx))
    · rw [List.toFinset_card_of_nodup hnd, hl]
    · exact (List.toFinset_sort (· ≤ ·) hnd).2 (hp.imp (fun h => Nat.le_of_lt h))

theorem card_validSet (n k : Nat) : (validSet n k).card = n.choose k := by
  unfold validSet
  rw [Finset.card_image_of_injective, Finset.card_powersetCard, Finset.card_range]
  intro f g hfg
  have := congrArg List.toFinset hfg
  simpa using this

open Classical in
/-- number of combinations strictly above `s` -/
noncomputable def above (n k : Nat) (s : List Nat) : Nat :=
  ((validSet n k).filter (fun t => LexLt s t)).card

theorem above_le (n k : Nat) (s : List Nat) : above n k s ≤ n.choose k := by
  unfold above
  rw [← card_validSet n k]
  exact Finset.card_filter_le _ _

theorem above_lt {n k : Nat} {s s' : List Nat} (hs' : Valid n k s') (hlt : LexLt s s') :
    above n k s' < above n k s := by
  unfold above
  apply Finset.card_lt_card
  rw [Finset.ssubset_def]
  constructor
  · intro t ht
    rw [Finset.mem_filter] at ht ⊢
    exact ⟨ht.1, lexLt_trans hlt ht.2⟩
  · intro hsub
    have h1 : s' ∈ (validSet n k).filter (fun t => LexLt s t) :=
      Finset.mem_filter.2 ⟨mem_validSet.2 hs', hlt⟩
    have h2 := hsub h1
    rw [Finset.mem_filter] at h2
    exact lexLt_irrefl _ h2.2

theorem allFrom_spec (n k : Nat) (fuel : Nat) (s : List Nat) (hs : Valid n k s)
    (hf : above n k s < fuel) :
    (∃ rest, allFrom n s fuel = s :: rest) ∧
    (allFrom n s fuel).Pairwise LexLt ∧
    (∀ t ∈ allFrom n s fuel, Valid n k t) ∧
    (∀ t, Valid n k t → (LexLt s t ∨ s = t) → t ∈ allFrom n s fuel) := by
  induction fuel generalizing s with
  | zero => omega
  | succ f ih =>
    rw [allFrom]
    split
    · rename_i hnone
      refine ⟨⟨[], rfl⟩, List.pairwise_singleton _ _, ?_, ?_⟩
      · intro t ht
        rw [List.mem_singleton] at ht; subst ht; exact hs
      · intro t ht hst
        rw [List.mem_singleton]
        rcases hst with h | h
        · rcases next_none hnone hs t ht with h' | h'
          · exact absurd (lexLt_trans h h') (lexLt_irrefl _)
          · exact h'
        · exact h.symm
    · rename_i s' hsome
      obtain ⟨hv', hlt, hmin⟩ := next_some hsome hs
      have hab := above_lt (s := s) hv' hlt
      obtain ⟨⟨rest, hrest⟩, hpw, hall, hcomp⟩ := ih s' hv' (by omega)
      refine ⟨⟨_, rfl⟩, ?_, ?_, ?_⟩
      · rw [List.pairwise_cons]
        refine ⟨?_, hpw⟩
        intro t ht
        rw [hrest] at ht hpw
        rcases List.mem_cons.1 ht with h | h
        · subst h; exact hlt
        · exact lexLt_trans hlt ((List.pairwise_cons.1 hpw).1 t h)
      · intro t ht
        rcases List.mem_cons.1 ht with h | h
        · subst h; exact hs
        · exact hall t h
      · intro t ht hst
        rcases hst with h | h
        · exact List.mem_cons_of_mem _ (hcomp t ht (hmin t ht h))
        · subst h; exact List.mem_cons_self

theorem isComb_range' {n : Nat} (lo k : Nat) (h : lo + k ≤ n) : IsComb n lo (List.range' lo k) := by
  induction k generalizing lo with
  | zero => trivial
  | succ k ih =>
    rw [List.range'_succ]
    exact ⟨le_refl _, by omega, ih (lo + 1) (by omega)⟩

theorem range'_min {n : Nat} (lo k : Nat) (t : List Nat) (ht : IsComb n lo t) (hl : t.length = k) :
    LexLt (List.range' lo k) t ∨ List.range' lo k = t := by
  induction k generalizing lo t with
  | zero =>
    cases t with
    | nil => exact Or.inr rfl
    | cons _ _ => simp at hl
  | succ k ih =>
    cases t with
    | nil => simp at hl
    | cons y t =>
      rw [List.range'_succ]
      obtain ⟨h1, _, h3⟩ := ht
      rcases Nat.lt_or_eq_of_le h1 with h | h
      · exact Or.inl (List.Lex.rel h)
      · subst h
        rcases ih (lo + 1) t h3 (by simpa using hl) with h | h
        · exact Or.inl (List.Lex.cons h)
        · right; rw [h]

theorem choose_eq (n k : Nat) : choose n k = Nat.choose n k := by
  induction n generalizing k with
  | zero => cases k <;> simp [choose]
  | succ n ih =>
    cases k with
    | zero => simp [choose]
    | succ k => simp only [choose, ih, Nat.choose_succ_succ]

theorem valid_range {n k : Nat} (hk : k ≤ n) : Valid n k (List.range k) := by
  rw [List.range_eq_range']
  exact ⟨isComb_range' 0 k (by omega), by simp⟩

theorem combinations_props {n k : Nat} (hk : k ≤ n) :
    (combinations n k).Pairwise LexLt ∧ (∀ t, t ∈ combinations n k ↔ Valid n k t) := by
  have hs := valid_range hk
  have hf : above n k (List.range k) < choose n k + 1 := by
    rw [choose_eq]; exact Nat.lt_succ_of_le (above_le n k _)
  obtain ⟨_, hpw, hall, hcomp⟩ := allFrom_spec n k _ _ hs hf
  refine ⟨hpw, fun t => ⟨hall t, fun ht => hcomp t ht ?_⟩⟩
  rw [List.range_eq_range']
  exact range'_min 0 k t ht.1 ht.2

theorem combinations_length {n k : Nat} (hk : k ≤ n) :
    (combinations n k).length = n.choose k := by
  obtain ⟨hpw, hmem⟩ := combinations_props hk
  have hnd : (combinations n k).Nodup :=
    hpw.imp (fun {a b} h (hab : a = b) => lexLt_irrefl a (by rw [← hab] at h; exact h))
  rw [← card_validSet n k, ← List.toFinset_card_of_nodup hnd]
  congr 1
  ext t
  rw [List.mem_toFinset, hmem, mem_validSet]

end Algobra.Auxmath
