/-
  Proofs/Auxmath.lean — helper lemmas for property C19 (integer helpers of /repo/auxmath).
-/
import Mathlib.Tactic.Ring
import Mathlib.Tactic.Linarith
import Mathlib.Tactic.NormNum
import Mathlib.Tactic.NormNum.Prime
import Mathlib.Data.Nat.Prime.Basic
import Mathlib.Data.Nat.Prime.Pow
import Mathlib.Data.List.Prime
import Mathlib.Algebra.BigOperators.Group.List.Basic
import Algobra.Model.Auxmath

namespace Algobra.Auxmath
open Algobra

/-! ### words, bitLen, popCount -/

theorem w64_of_lt {x : Nat} (h : x < 2 ^ 64) : w64 x = x := Nat.mod_eq_of_lt h

theorem lt_two_pow_bitLen (a : Nat) : a < 2 ^ bitLen a := by
  unfold bitLen
  split
  · subst_vars; simp
  · exact Nat.lt_log2_self

theorem bitLen_le_of_lt {a k : Nat} (h : a < 2 ^ k) : bitLen a ≤ k := by
  unfold bitLen
  split
  · omega
  · rename_i h0
    have := (Nat.log2_lt h0).2 h
    omega

theorem two_pow_bitLen_pred_le {a : Nat} (h : a ≠ 0) : 2 ^ (bitLen a - 1) ≤ a := by
  unfold bitLen
  rw [if_neg h]
  simpa using Nat.log2_self_le h

theorem popCount_eq_zero {a : Nat} : popCount a = 0 → a = 0 := by
  induction a using Nat.strong_induction_on with
  | _ a ih =>
    intro h
    rw [popCount] at h
    split at h
    · assumption
    · rename_i h0
      have h1 : popCount (a / 2) = 0 := by omega
      have := ih (a / 2) (by omega) h1
      omega

theorem popCount_eq_one {a : Nat} : popCount a = 1 → ∃ k, a = 2 ^ k := by
  induction a using Nat.strong_induction_on with
  | _ a ih =>
    intro h
    rw [popCount] at h
    split at h
    · omega
    · rename_i h0
      rcases Nat.mod_two_eq_zero_or_one a with h2 | h2
      · have h1 : popCount (a / 2) = 1 := by omega
        obtain ⟨k, hk⟩ := ih (a / 2) (by omega) h1
        refine ⟨k + 1, ?_⟩
        rw [Nat.pow_succ]; omega
      · have h1 : popCount (a / 2) = 0 := by omega
        have := popCount_eq_zero h1
        exact ⟨0, by omega⟩

theorem bitLen_two_pow (k : Nat) : bitLen (2 ^ k) = k + 1 := by
  unfold bitLen
  rw [if_neg (by positivity), Nat.log2_two_pow]

/-- the defining property of `boundLog2`: `a ≤ 2 ^ boundLog2 a` -/
theorem le_two_pow_boundLog2 (a : Nat) : a ≤ 2 ^ boundLog2 a := by
  unfold boundLog2
  split
  · omega
  · split
    · rename_i h1
      obtain ⟨k, rfl⟩ := popCount_eq_one h1
      rw [bitLen_two_pow]; simp
    · exact (lt_two_pow_bitLen a).le

theorem boundLog2_le_bitLen (a : Nat) : boundLog2 a ≤ bitLen a := by
  unfold boundLog2
  split
  · omega
  · split <;> omega

/-! ### Pow -/

theorem powLoop_zero_res (tmp n : Nat) : powLoop 0 tmp n = 0 := by
  induction n using Nat.strong_induction_on generalizing tmp with
  | _ n ih =>
    rw [powLoop]
    split
    · rfl
    · have : (if n % 2 = 1 then w64 (0 * tmp) else 0) = 0 := by
        split
        · simp [w64]
        · rfl
      simp only [this]
      exact ih (n / 2) (by omega) _

/-- no truncation inside the loop changes the returned value as long as the final value fits -/
theorem powLoop_eq (res tmp n : Nat) (h : res * tmp ^ n < 2 ^ 64) :
    powLoop res tmp n = res * tmp ^ n := by
  induction n using Nat.strong_induction_on generalizing res tmp with
  | _ n ih =>
    rw [powLoop]
    split
    · subst_vars; simp
    · rename_i hn
      rcases Nat.eq_zero_or_pos res with hr | hr
      · subst hr
        have : (if n % 2 = 1 then w64 (0 * tmp) else 0) = 0 := by
          split
          · simp [w64]
          · rfl
        rw [this, powLoop_zero_res, Nat.zero_mul]
      · -- res ≥ 1
        have hdecomp : tmp ^ n = (tmp * tmp) ^ (n / 2) * tmp ^ (n % 2) := by
          conv_lhs => rw [← Nat.div_add_mod n 2]
          rw [Nat.pow_add, Nat.pow_mul, Nat.pow_two]
        by_cases hn2 : n / 2 = 0
        · -- n = 1 : the last squaring is unused
          have hn1 : n = 1 := by omega
          subst hn1
          simp only [show (1 : Nat) % 2 = 1 from rfl, if_true, show (1 : Nat) / 2 = 0 from rfl]
          rw [powLoop]
          simp only [dif_pos]
          rw [Nat.pow_one] at h ⊢
          exact w64_of_lt h
        · -- n ≥ 2 : tmp*tmp ≤ tmp^n ≤ res*tmp^n
          have hn2' : 2 ≤ n := by omega
          have htt : tmp * tmp ≤ tmp ^ n := by
            rcases Nat.eq_zero_or_pos tmp with ht | ht
            · subst ht; simp
            · rw [← Nat.pow_two]; exact Nat.pow_le_pow_right ht hn2'
          have hpow_le : tmp ^ n ≤ res * tmp ^ n := Nat.le_mul_of_pos_left _ hr
          have hw : w64 (tmp * tmp) = tmp * tmp := w64_of_lt (by omega)
          rw [hw]
          rcases Nat.mod_two_eq_zero_or_one n with h2 | h2
          · have hne : ¬ (n % 2 = 1) := by omega
            simp only [hne, if_false]
            rw [hdecomp, h2, Nat.pow_zero, Nat.mul_one] at h
            rw [ih (n / 2) (by omega) res (tmp * tmp) h, hdecomp, h2, Nat.pow_zero, Nat.mul_one]
          · simp only [h2, if_true]
            have hrt : res * tmp ≤ res * tmp ^ n := by
              apply Nat.mul_le_mul_left
              rcases Nat.eq_zero_or_pos tmp with ht | ht
              · subst ht; simp
              · calc tmp = tmp ^ 1 := (Nat.pow_one _).symm
                  _ ≤ tmp ^ n := Nat.pow_le_pow_right ht (by omega)
            have hw2 : w64 (res * tmp) = res * tmp := w64_of_lt (by omega)
            rw [hw2]
            have h' : res * tmp * (tmp * tmp) ^ (n / 2) < 2 ^ 64 := by
              rw [hdecomp, h2, Nat.pow_one] at h
              calc res * tmp * (tmp * tmp) ^ (n / 2)
                  = res * ((tmp * tmp) ^ (n / 2) * tmp) := by ring
                _ < 2 ^ 64 := h
            rw [ih (n / 2) (by omega) (res * tmp) (tmp * tmp) h']
            conv_rhs => rw [hdecomp, h2, Nat.pow_one]
            ring

/-- soundness of the overflow guard: when `Pow` does not refuse, `a ^ n` fits a word -/
theorem pow_lt_of_powGuard_false {a n : Nat} (ha : a < 2 ^ 64)
    (hg : powGuard a n = false) : a ^ n < 2 ^ 64 := by
  unfold powGuard at hg
  simp only [uintSize, Bool.and_eq_false_iff, Bool.or_eq_false_iff, decide_eq_false_iff_not,
    ge_iff_le, gt_iff_lt, Nat.not_lt, Nat.not_le, Nat.le_zero] at hg
  rcases hg with (h0 | hb) | ⟨hn, hbn⟩
  · subst h0
    rcases Nat.eq_zero_or_pos n with h | h
    · subst h; norm_num
    · rw [Nat.zero_pow h]; norm_num
  · -- boundLog2 a = 0, so a ≤ 1
    have := le_two_pow_boundLog2 a
    rw [hb] at this
    have : a ^ n ≤ 1 ^ n := Nat.pow_le_pow_left (by omega) n
    rw [Nat.one_pow] at this
    omega
  · -- the product does not wrap because both factors are ≤ 64
    have hb64 : boundLog2 a ≤ 64 := (boundLog2_le_bitLen a).trans (bitLen_le_of_lt ha)
    have hprod : boundLog2 a * n < 2 ^ 64 := by
      have : boundLog2 a * n ≤ 64 * 64 := Nat.mul_le_mul hb64 (by omega)
      omega
    rw [w64_of_lt hprod] at hbn
    calc a ^ n ≤ (2 ^ boundLog2 a) ^ n := Nat.pow_le_pow_left (le_two_pow_boundLog2 a) n
      _ = 2 ^ (boundLog2 a * n) := (Nat.pow_mul _ _ _).symm
      _ ≤ 2 ^ 63 := Nat.pow_le_pow_right (by omega) (by omega)
      _ < 2 ^ 64 := by norm_num

/-! ### Gcd -/

theorem gcd_eq (a b : Nat) : gcd a b = Nat.gcd a b := by
  induction a using Nat.strong_induction_on generalizing b with
  | _ a ih =>
    rw [gcd]
    split
    · subst_vars; simp
    · rename_i h0
      have hmod : b - b / a * a = b % a := by
        have := Nat.div_add_mod b a
        rw [Nat.mul_comm] at this
        omega
      rw [hmod, ih (b % a) (Nat.mod_lt _ (by omega)) a, ← Nat.gcd_rec]

/-! ### BoundSqrt -/

theorem boundSqrt_eq {a : Nat} (ha : a < 2 ^ 64) (h0 : a ≠ 0) :
    boundSqrt a = 2 ^ ((bitLen a + 1) / 2) := by
  unfold boundSqrt
  rw [if_neg h0]
  have hb : bitLen a ≤ 64 := bitLen_le_of_lt ha
  have he : (if bitLen a % 2 = 0 then bitLen a / 2 else bitLen a / 2 + 1) = (bitLen a + 1) / 2 := by
    split <;> omega
  simp only [he]
  rw [Nat.shiftLeft_eq, Nat.one_mul]
  apply w64_of_lt
  exact Nat.pow_lt_pow_right (by omega) (by omega)

theorem boundSqrt_sq {a : Nat} (ha : a < 2 ^ 64) : a ≤ boundSqrt a ^ 2 := by
  rcases Nat.eq_zero_or_pos a with h0 | h0
  · subst h0; simp
  · rw [boundSqrt_eq ha (by omega), ← Nat.pow_mul]
    calc a ≤ 2 ^ bitLen a := (lt_two_pow_bitLen a).le
      _ ≤ 2 ^ ((bitLen a + 1) / 2 * 2) := Nat.pow_le_pow_right (by omega) (by omega)

theorem boundSqrt_le {a : Nat} (ha : a < 2 ^ 64) : boundSqrt a ≤ 2 ^ 32 := by
  rcases Nat.eq_zero_or_pos a with h0 | h0
  · subst h0; simp [boundSqrt]
  · rw [boundSqrt_eq ha (by omega)]
    have hb : bitLen a ≤ 64 := bitLen_le_of_lt ha
    exact Nat.pow_le_pow_right (by omega) (by omega)

/-! ### trial division by the wheel 2, 3, 6k∓1 -/

/-- `factScan` and `fppScan` are the same function -/
theorem factScan_eq_fppScan (n maxF k : Nat) : factScan n maxF k = fppScan n maxF k := by
  fun_induction fppScan n maxF k with
  | case1 k h h1 => rw [factScan, dif_pos h, if_pos h1]
  | case2 k h h1 h2 => rw [factScan, dif_pos h, if_neg h1, if_pos h2]
  | case3 k h h1 h2 ih => rw [factScan, dif_pos h, if_neg h1, if_neg h2, ih]
  | case4 k h => rw [factScan, dif_neg h]

/-- whatever the scan returns (if not 0) divides `q` and is at least the first candidate -/
theorem fppScan_dvd (q maxP k : Nat) (h : fppScan q maxP k ≠ 0) :
    fppScan q maxP k ∣ q ∧ k - 1 ≤ fppScan q maxP k := by
  fun_induction fppScan q maxP k with
  | case1 k _ h1 => exact ⟨Nat.dvd_of_mod_eq_zero h1, le_refl _⟩
  | case2 k _ _ h2 => exact ⟨Nat.dvd_of_mod_eq_zero h2, by omega⟩
  | case3 k _ _ _ ih =>
    have := ih h
    exact ⟨this.1, by omega⟩
  | case4 k _ => exact absurd rfl h

/-- the scan does not skip a dividing candidate `c ≡ ±1 (mod 6)` -/
theorem fppScan_min (q maxP k : Nat) (hk : k % 6 = 0) (hk0 : 6 ≤ k) (c : Nat) (hc : k - 1 ≤ c)
    (hc6 : c % 6 = 1 ∨ c % 6 = 5) (hcq : c ∣ q) (hr : c ≤ maxP ∨ fppScan q maxP k ≠ 0) :
    fppScan q maxP k ≠ 0 ∧ fppScan q maxP k ≤ c := by
  fun_induction fppScan q maxP k with
  | case1 k _ h1 => exact ⟨by omega, hc⟩
  | case2 k _ h1 h2 =>
    have : c ≠ k - 1 := by
      rintro rfl; exact h1 (Nat.mod_eq_zero_of_dvd hcq)
    exact ⟨by omega, by omega⟩
  | case3 k _ h1 h2 ih =>
    have hc1 : c ≠ k - 1 := by
      rintro rfl; exact h1 (Nat.mod_eq_zero_of_dvd hcq)
    have hc2 : c ≠ k + 1 := by
      rintro rfl; exact h2 (Nat.mod_eq_zero_of_dvd hcq)
    exact ih (by omega) (by omega) (by omega) hr
  | case4 k h => omega

theorem prime_mod_six {m : Nat} (hm : m.Prime) (h2 : m ≠ 2) (h3 : m ≠ 3) :
    m % 6 = 1 ∨ m % 6 = 5 := by
  have n2 : ¬ 2 ∣ m := fun h => h2 ((Nat.prime_dvd_prime_iff_eq Nat.prime_two hm).1 h).symm
  have n3 : ¬ 3 ∣ m := fun h => h3 ((Nat.prime_dvd_prime_iff_eq Nat.prime_three hm).1 h).symm
  omega

/-- for `q` coprime to 6 the scan up to `BoundSqrt q` returns the least prime factor, or 0 only
    when `q` is prime -/
theorem fppScan_minFac {q : Nat} (hq : 2 ≤ q) (hq64 : q < 2 ^ 64) (h2 : q % 2 ≠ 0)
    (h3 : q % 3 ≠ 0) :
    (fppScan q (boundSqrt q) 6 = 0 ∧ q.Prime) ∨
      (fppScan q (boundSqrt q) 6 ≠ 0 ∧ fppScan q (boundSqrt q) 6 = q.minFac) := by
  have hm : q.minFac.Prime := Nat.minFac_prime (by omega)
  have hmq : q.minFac ∣ q := Nat.minFac_dvd q
  have hm2 : q.minFac ≠ 2 := fun h => h2 (Nat.mod_eq_zero_of_dvd (h ▸ hmq))
  have hm3 : q.minFac ≠ 3 := fun h => h3 (Nat.mod_eq_zero_of_dvd (h ▸ hmq))
  have hm5 : 5 ≤ q.minFac := hm.five_le_of_ne_two_of_ne_three hm2 hm3
  have hm6 := prime_mod_six hm hm2 hm3
  by_cases hr : fppScan q (boundSqrt q) 6 = 0
  · left
    refine ⟨hr, ?_⟩
    by_contra hnp
    have hsq : q.minFac ^ 2 ≤ q := Nat.minFac_sq_le_self (by omega) hnp
    have hle : q.minFac ≤ boundSqrt q := by
      have := boundSqrt_sq hq64
      have h' : q.minFac ^ 2 ≤ boundSqrt q ^ 2 := hsq.trans this
      exact (Nat.pow_le_pow_iff_left (by norm_num)).1 h'
    exact (fppScan_min q (boundSqrt q) 6 rfl (le_refl _) q.minFac (by omega) hm6 hmq
      (Or.inl hle)).1 hr
  · right
    refine ⟨hr, ?_⟩
    have hd := fppScan_dvd q (boundSqrt q) 6 hr
    have h1 := (fppScan_min q (boundSqrt q) 6 rfl (le_refl _) q.minFac (by omega) hm6 hmq
      (Or.inr hr)).2
    have h2 := Nat.minFac_le_of_dvd (by omega : 2 ≤ fppScan q (boundSqrt q) 6) hd.1
    omega

/-- the candidate prime chosen by `FactorizePrimePower` / `Factorize` (0 = none found) -/
def wheelChoice (q : Nat) : Nat :=
  if q % 2 = 0 then 2 else if q % 3 = 0 then 3 else fppScan q (boundSqrt q) 6

theorem wheelChoice_spec {q : Nat} (hq : 2 ≤ q) (hq64 : q < 2 ^ 64) :
    (wheelChoice q = 0 ∧ q.Prime) ∨ (wheelChoice q ≠ 0 ∧ wheelChoice q = q.minFac) := by
  unfold wheelChoice
  split
  · rename_i h2
    right
    exact ⟨by omega, ((Nat.minFac_eq_two_iff q).2 (Nat.dvd_of_mod_eq_zero h2)).symm⟩
  · rename_i h2
    split
    · rename_i h3
      right
      refine ⟨by omega, ?_⟩
      have hm : q.minFac.Prime := Nat.minFac_prime (by omega)
      have hmq : q.minFac ∣ q := Nat.minFac_dvd q
      have hle : q.minFac ≤ 3 := Nat.minFac_le_of_dvd (by omega) (Nat.dvd_of_mod_eq_zero h3)
      have hm2 : q.minFac ≠ 2 := fun h => h2 (Nat.mod_eq_zero_of_dvd (h ▸ hmq))
      have := hm.two_le
      omega
    · rename_i h3
      exact fppScan_minFac hq hq64 h2 h3

/-! ### FactorizePrimePower -/

theorem fppDivide_some {q p n0 n : Nat} (hq : 1 ≤ q) (h : fppDivide q p n0 = some n) :
    n0 ≤ n ∧ q = p ^ (n - n0) := by
  fun_induction fppDivide q p n0 with
  | case1 q n0 h1 =>
    injection h with h; subst h
    have : q = 1 := by omega
    simp [this]
  | case2 q n0 _ hp => cases h
  | case3 q n0 _ _ hm => cases h
  | case4 q n0 h1 hp hm ih =>
    have hm' : q % p = 0 := by simpa using hm
    have hdvd : p ∣ q := Nat.dvd_of_mod_eq_zero hm'
    have hqp : 1 ≤ q / p := by
      have : p ≤ q := Nat.le_of_dvd (by omega) hdvd
      exact (Nat.one_le_div_iff (by omega)).2 this
    obtain ⟨hle, he⟩ := ih hqp h
    refine ⟨by omega, ?_⟩
    have : n - n0 = (n - (n0 + 1)) + 1 := by omega
    rw [this, Nat.pow_succ, ← he, Nat.div_mul_cancel hdvd]

theorem fppDivide_pow {p : Nat} (hp : 2 ≤ p) (j n0 : Nat) :
    fppDivide (p ^ j) p n0 = some (n0 + j) := by
  induction j generalizing n0 with
  | zero => rw [fppDivide]; simp
  | succ j ih =>
    have hpos : 0 < p ^ j := Nat.pow_pos (by omega)
    have hgt : ¬ p ^ (j + 1) ≤ 1 := by
      rw [Nat.pow_succ]
      have : 1 * 2 ≤ p ^ j * p := Nat.mul_le_mul hpos hp
      omega
    rw [fppDivide, dif_neg hgt, dif_neg (by omega)]
    have hmod : p ^ (j + 1) % p = 0 := by rw [Nat.pow_succ]; exact Nat.mul_mod_left _ _
    have hdiv : p ^ (j + 1) / p = p ^ j := by
      rw [Nat.pow_succ]; exact Nat.mul_div_cancel _ (by omega)
    simp only [hmod, ne_eq, not_true_eq_false, if_false, hdiv]
    rw [ih]; congr 1; omega

theorem factorizePrimePower_eq (q : Nat) :
    factorizePrimePower q =
      if q = 0 ∨ q = 1 then .error .inputValue
      else if wheelChoice q = 0 then .ok (q, 1)
      else match fppDivide q (wheelChoice q) 0 with
        | some n => .ok (wheelChoice q, n)
        | none => .error .inputValue := by
  have hw : wheelChoice q =
      (if (if q % 2 = 0 then 2 else if q % 3 = 0 then 3 else 0) = 0
        then fppScan q (boundSqrt q) 6
        else (if q % 2 = 0 then 2 else if q % 3 = 0 then 3 else 0)) := by
    unfold wheelChoice
    split
    · simp
    · split <;> simp
  rw [hw]
  rfl

/-! ### Factorize -/

theorem divOut_spec {n p e0 : Nat} (hp : 2 ≤ p) (hn : 1 ≤ n) :
    e0 ≤ (divOut n p e0).1 ∧ n = p ^ ((divOut n p e0).1 - e0) * (divOut n p e0).2 ∧
      ¬ p ∣ (divOut n p e0).2 ∧ 1 ≤ (divOut n p e0).2 ∧ (p ∣ n → e0 < (divOut n p e0).1) := by
  fun_induction divOut n p e0 with
  | case1 n e0 h => omega
  | case2 n e0 h hm ih =>
    have hdvd : p ∣ n := Nat.dvd_of_mod_eq_zero hm
    have hqp : 1 ≤ n / p := by
      have : p ≤ n := Nat.le_of_dvd (by omega) hdvd
      exact (Nat.one_le_div_iff (by omega)).2 this
    obtain ⟨h1, h2, h3, h4, _⟩ := ih hqp
    refine ⟨by omega, ?_, h3, h4, fun _ => by omega⟩
    have he : (divOut (n / p) p (e0 + 1)).1 - e0 = ((divOut (n / p) p (e0 + 1)).1 - (e0 + 1)) + 1 := by
      omega
    rw [he, Nat.pow_succ]
    generalize (divOut (n / p) p (e0 + 1)).1 - (e0 + 1) = j at *
    generalize (divOut (n / p) p (e0 + 1)).2 = m at *
    calc n = n / p * p := (Nat.div_mul_cancel hdvd).symm
      _ = p ^ j * m * p := by rw [← h2]
      _ = _ := by ring
  | case3 n e0 h hm =>
    refine ⟨le_refl _, by simp, ?_, hn, ?_⟩
    · intro hd; exact hm (Nat.mod_eq_zero_of_dvd hd)
    · intro hd; exact absurd (Nat.mod_eq_zero_of_dvd hd) hm

/-- what `Factorize` promises about its output for `n ≥ 1` -/
def IsFactorization (n : Nat) (l : List (Nat × Nat)) : Prop :=
  (∀ pe ∈ l, pe.1.Prime ∧ 0 < pe.2 ∧ pe.1 ∣ n) ∧
  (l.map Prod.fst).Pairwise (· < ·) ∧
  (l.map (fun pe => pe.1 ^ pe.2)).prod = n

theorem factorize_succ (fuel n : Nat) :
    factorize (fuel + 1) n =
      if n = 0 then [(0, 1)]
      else if n = 1 then []
      else if wheelChoice n = 0 then [(n, 1)]
      else (wheelChoice n, (divOut n (wheelChoice n)).1) ::
        factorize fuel (divOut n (wheelChoice n)).2 := by
  rw [factorize]
  simp only [factScan_eq_fppScan]
  rfl

theorem factorize_isFactorization (fuel n : Nat) (hn : 1 ≤ n) (hf : n < 2 ^ fuel)
    (h64 : n < 2 ^ 64) : IsFactorization n (factorize fuel n) := by
  induction fuel generalizing n with
  | zero => simp at hf; omega
  | succ fuel ih =>
    rw [factorize_succ, if_neg (by omega)]
    split
    · subst_vars; simp [IsFactorization]
    · rename_i h1
      have hn2 : 2 ≤ n := by omega
      rcases wheelChoice_spec hn2 h64 with ⟨hw, hprime⟩ | ⟨hw, hmin⟩
      · rw [if_pos hw]
        simp [IsFactorization, hprime]
      · rw [if_neg hw]
        have hpr : (wheelChoice n).Prime := hmin ▸ Nat.minFac_prime (by omega)
        have hdvd : wheelChoice n ∣ n := hmin ▸ Nat.minFac_dvd n
        obtain ⟨_, h2, h3, h4, h5⟩ := divOut_spec (e0 := 0) hpr.two_le hn
        have h5' := h5 hdvd
        rw [Nat.sub_zero] at h2
        generalize (divOut n (wheelChoice n)).1 = e at *
        generalize hn' : (divOut n (wheelChoice n)).2 = n' at *
        generalize hp : wheelChoice n = p at *
        have hpe : p ≤ p ^ e := by
          calc p = p ^ 1 := (Nat.pow_one _).symm
            _ ≤ p ^ e := Nat.pow_le_pow_right hpr.pos h5'
        have hn'le : n' * 2 ≤ n := by
          rw [h2, Nat.mul_comm]
          exact Nat.mul_le_mul (hpr.two_le.trans hpe) (le_refl _)
        have hn'dvd : n' ∣ n := ⟨p ^ e, by rw [h2]; ring⟩
        have hf' : n' < 2 ^ fuel := by rw [Nat.pow_succ] at hf; omega
        obtain ⟨ha, hb, hc⟩ := ih n' h4 hf' (by omega)
        refine ⟨?_, ?_, ?_⟩
        · intro pe hpe
          rcases List.mem_cons.1 hpe with rfl | hmem
          · exact ⟨hpr, h5', hdvd⟩
          · obtain ⟨x, y, z⟩ := ha pe hmem
            exact ⟨x, y, z.trans hn'dvd⟩
        · rw [List.map_cons, List.pairwise_cons]
          refine ⟨?_, hb⟩
          intro p' hp'
          obtain ⟨pe, hmem, rfl⟩ := List.mem_map.1 hp'
          obtain ⟨x, _, z⟩ := ha pe hmem
          have hle : p ≤ pe.1 := by
            rw [hmin]; exact Nat.minFac_le_of_dvd x.two_le (z.trans hn'dvd)
          have hne : p ≠ pe.1 := by
            intro he; rw [← he] at z; exact h3 z
          exact lt_of_le_of_ne hle hne
        · rw [List.map_cons, List.prod_cons, hc, ← h2]

end Algobra.Auxmath
