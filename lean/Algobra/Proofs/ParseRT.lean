/-
  Proofs/ParseRT.lean — lemmas about the total tokenisers of `Model/Parse.lean` on printed forms
  (helper file of `Props/C15Full.lean`): scanners on lists of characters, the binary-field element
  round trip.
-/
import Algobra.Proofs.Strings
import Algobra.Model.Parse

namespace Algobra.ParseRT
open Algobra Algobra.Strings Algobra.Parse Algobra.Regex

/-! ### characters -/

theorem isAlphanum_lt {c : Char} (h : c.isAlphanum = true) : c.toNat < 128 := by
  simp only [Char.isAlphanum, Char.isAlpha, Char.isUpper, Char.isLower, Char.isDigit, Bool.or_eq_true,
    Bool.and_eq_true, decide_eq_true_eq] at h
  simp only [UInt32.le_iff_toNat_le] at h
  simp at h
  omega

/-- a decidable property of ASCII characters is checked by enumeration -/
theorem ascii_forall {P : Char → Prop} [DecidablePred P] (h : ∀ n : Fin 128, P (Char.ofNat n))
    {c : Char} (hc : c.toNat < 128) : P c := by
  have := h ⟨c.toNat, hc⟩
  simpa using this

theorem alnum_forall {P : Char → Prop} [DecidablePred P]
    (h : ∀ n : Fin 128, (Char.ofNat n).isAlphanum = true → P (Char.ofNat n))
    {c : Char} (hc : c.isAlphanum = true) : P c :=
  (ascii_forall (P := fun c => c.isAlphanum = true → P c) h (isAlphanum_lt hc)) hc

theorem isAlpha_isAlphanum {c : Char} (h : c.isAlpha = true) : c.isAlphanum = true := by
  simp [Char.isAlphanum, h]

/-- what is used of the first letter of a simple name -/
theorem alpha_facts {c : Char} (h : c.isAlpha = true) :
    c.isDigit = false ∧ isWs c = false ∧ isSign c = false ∧ c ≠ '*' ∧ c ≠ '^' ∧ c ≠ '(' ∧ c ≠ ')' ∧
    c ≠ '0' ∧ c ≠ '1' ∧ (lower c).isAlpha = true := by
  have := alnum_forall (P := fun c => c.isAlpha = true → (c.isDigit = false ∧ isWs c = false ∧
    isSign c = false ∧ c ≠ '*' ∧ c ≠ '^' ∧ c ≠ '(' ∧ c ≠ ')' ∧ c ≠ '0' ∧ c ≠ '1' ∧
    (lower c).isAlpha = true)) (by decide) (isAlpha_isAlphanum h)
  exact this h


/-! ### scanners -/

def spaces (k : Nat) : Cs := List.replicate k ' '

theorem dropWs_of_head {X : Cs} (h : ∀ c ∈ X.head?, isWs c = false) : dropWs X = X := by
  cases X with
  | nil => rfl
  | cons x t =>
    have := h x (by simp)
    simp [dropWs, List.dropWhile_cons, this]

theorem dropWs_space (X : Cs) : dropWs (' ' :: X) = dropWs X := by
  simp [dropWs, List.dropWhile_cons, isWs]

theorem dropWs_spaces (k : Nat) (X : Cs) : dropWs (spaces k ++ X) = dropWs X := by
  induction k with
  | zero => rfl
  | succ k ih =>
    have : spaces (k + 1) ++ X = ' ' :: (spaces k ++ X) := by simp [spaces, List.replicate_succ]
    rw [this, dropWs_space, ih]

theorem digits_append {D X : Cs} (hD : ∀ c ∈ D, c.isDigit = true)
    (hX : ∀ c ∈ X.head?, c.isDigit = false) : digits (D ++ X) = D := by
  unfold digits
  rw [List.takeWhile_append_of_pos hD]
  cases X with
  | nil => simp
  | cons x t =>
    have := hX x (by simp)
    rw [List.takeWhile_cons_of_neg (by simp [this])]; simp

theorem dropDigits_append {D X : Cs} (hD : ∀ c ∈ D, c.isDigit = true)
    (hX : ∀ c ∈ X.head?, c.isDigit = false) : dropDigits (D ++ X) = X := by
  unfold dropDigits
  rw [List.dropWhile_append_of_pos hD]
  cases X with
  | nil => simp
  | cons x t =>
    have := hX x (by simp)
    rw [List.dropWhile_cons_of_neg (by simp [this])]

theorem dropDigits_of_head {X : Cs} (hX : ∀ c ∈ X.head?, c.isDigit = false) : dropDigits X = X := by
  simpa using dropDigits_append (D := []) (by simp) hX

theorem digits_of_head {X : Cs} (hX : ∀ c ∈ X.head?, c.isDigit = false) : digits X = [] := by
  simpa using digits_append (D := []) (by simp) hX

theorem strip_append (p s : Cs) : strip p (p ++ s) = some s := by
  induction p with
  | nil => cases s <;> rfl
  | cons a p ih => simp [strip, ih]

theorem strip_eq_some {p s r : Cs} (h : strip p s = some r) : s = p ++ r := by
  induction p generalizing s with
  | nil => cases s <;> simp [strip] at h <;> simp [h]
  | cons a p ih =>
    cases s with
    | nil => simp [strip] at h
    | cons b s =>
      simp only [strip] at h
      split at h
      · rename_i hab
        have : a = b := by simpa using hab
        rw [this, ih h]; rfl
      · cases h

theorem strip_head_ne {a b : Char} (p s : Cs) (h : a ≠ b) : strip (a :: p) (b :: s) = none := by
  simp [strip, h]

theorem strip_cons_nil (a : Char) (p : Cs) : strip (a :: p) [] = none := rfl

theorem stripCi_append {p q : Cs} (h : q.map lower = p.map lower) (s : Cs) :
    stripCi p (q ++ s) = some s := by
  induction p generalizing q with
  | nil =>
    have : q = [] := by simpa using h
    subst this; cases s <;> rfl
  | cons a p ih =>
    cases q with
    | nil => simp at h
    | cons b q =>
      simp only [List.map_cons, List.cons.injEq] at h
      simp [stripCi, h.1, ih h.2]

theorem stripCi_head_ne {a b : Char} (p s : Cs) (h : lower a ≠ lower b) :
    stripCi (a :: p) (b :: s) = none := by
  simp [stripCi, h]

theorem consumed_append (a r : Cs) : consumed (a ++ r) r = String.ofList a := by
  unfold consumed
  simp

theorem consumed_self (r : Cs) : consumed r r = "" := by
  simpa using consumed_append [] r


theorem dropCaret_caret (t : Cs) : dropCaret ('^' :: t) = t := by simp [dropCaret]

theorem dropCaret_of_head {X : Cs} (h : ∀ c ∈ X.head?, c ≠ '^') : dropCaret X = X := by
  cases X with
  | nil => rfl
  | cons x t => have := h x (by simp); simp [dropCaret, this]

theorem dropStar_star (t : Cs) : dropStar ('*' :: t) = t := by simp [dropStar]

theorem dropStar_of_head {X : Cs} (h : ∀ c ∈ X.head?, c ≠ '*') : dropStar X = X := by
  cases X with
  | nil => rfl
  | cons x t => have := h x (by simp); simp [dropStar, this]

theorem toString_digits (d : Nat) : ∀ c ∈ (toString d).toList, c.isDigit = true :=
  fun _ hc => mem_toString_isDigit hc

theorem toString_toList_ne_nil (d : Nat) : (toString d).toList ≠ [] := by
  have := toString_ne_empty d
  intro h; apply this; apply String.toList_inj.1; rw [h]; rfl

/-! ### binary-field elements: `tokBin` on a printed term -/

theorem binVar_plain (W R : Cs) (hR : ∀ c ∈ R.head?, c.isDigit = false ∧ c ≠ '^') :
    binVar W (W ++ R) = some (String.ofList W, "", R) := by
  unfold binVar
  rw [strip_append]
  dsimp only
  rw [dropCaret_of_head (fun c hc => (hR c hc).2)]
  cases R with
  | nil => simpa using consumed_append W []
  | cons x t =>
    have := (hR x (by simp)).1
    simp [this, consumed_append]

theorem binVar_exp (W D R : Cs) (hne : D ≠ []) (hD : ∀ c ∈ D, c.isDigit = true)
    (hR : ∀ c ∈ R.head?, c.isDigit = false) :
    binVar W (W ++ '^' :: (D ++ R)) = some (String.ofList (W ++ '^' :: D), String.ofList D, R) := by
  unfold binVar
  rw [strip_append]
  dsimp only
  rw [dropCaret_caret]
  obtain ⟨x, xs, rfl⟩ := List.exists_cons_of_ne_nil hne
  have hx : x.isDigit = true := hD x (by simp)
  have e : x :: xs ++ R = x :: (xs ++ R) := rfl
  rw [e]
  simp only [hx, if_true]
  rw [← e, dropDigits_append hD hR, digits_append hD hR]
  have : W ++ '^' :: (x :: xs ++ R) = (W ++ '^' :: (x :: xs)) ++ R := by simp
  rw [this, consumed_append]

theorem binBody_one (W R : Cs) : binBody W ('1' :: R) = some ("1", "", R) := by
  simp [binBody]

theorem binBody_zero (W R : Cs) : binBody W ('0' :: R) = some ("0", "", R) := by
  simp [binBody]

theorem binBody_var {c0 : Char} {wt W : Cs} (hW : W = c0 :: wt) (h0 : c0 ≠ '0') (h1 : c0 ≠ '1')
    (X : Cs) : binBody W (W ++ X) = binVar W (W ++ X) := by
  subst hW
  simp [binBody, h0, h1]

theorem binSign_first {X : Cs} (hne : X ≠ []) (h : ∀ c ∈ X.head?, isWs c = false ∧ isSign c = false) :
    binSign true X = some X := by
  unfold binSign
  rw [dropWs_of_head (fun c hc => (h c hc).1)]
  cases X with
  | nil => exact absurd rfl hne
  | cons x t => have := (h x (by simp)).2; simp [this]

theorem binSign_plus (first : Bool) (X : Cs) : binSign first ('+' :: X) = some X := by
  unfold binSign
  rw [dropWs_of_head (by simp [isWs])]
  simp [isSign]


/-- group 2 of the match of a printed term -/
def binG2 (d : Nat) : String := if d ≤ 1 then "" else toString d

/-- what is left of `R w l` after the trailing `\s*` of a match -/
def binRest (w : String) (l : List Nat) : Cs := if l = [] then [] else '+' :: ' ' :: J w l

theorem dropWs_R (w : String) (l : List Nat) : dropWs (R w l) = binRest w l := by
  unfold R binRest
  split
  · rfl
  · rw [dropWs_space, dropWs_of_head (by simp [isWs])]

theorem R_head' (w : String) (l : List Nat) :
    ∀ c ∈ (R w l).head?, c.isDigit = false ∧ c ≠ '^' := by
  rcases R_head w l with h | ⟨t, h⟩ <;> rw [h] <;> simp

section
variable {w : String} {c0 : Char} {wt : Cs}

theorem binBody_term (hw : w.toList = c0 :: wt) (hc : c0.isAlpha = true) (d : Nat) (l : List Nat) :
    binBody w.toList ((binTerm w d).toList ++ R w l) = some (binTerm w d, binG2 d, R w l) := by
  obtain ⟨_, _, _, _, _, _, _, h0, h1, _⟩ := alpha_facts hc
  rw [binTerm_toList]
  by_cases hd0 : d = 0
  · subst hd0
    simp [binBody_one, binTerm, binG2]
  · rw [if_neg hd0]
    by_cases hd1 : d = 1
    · subst hd1
      rw [if_pos rfl, List.append_nil, binBody_var hw h0 h1, binVar_plain _ _ (R_head' w l)]
      simp [binTerm, binG2]
    · rw [if_neg hd1, List.append_assoc, List.cons_append, binBody_var hw h0 h1,
        binVar_exp _ _ _ (toString_toList_ne_nil d) (toString_digits d)
          (fun c hc => (R_head' w l c hc).1)]
      have e1 : binG2 d = toString d := by unfold binG2; rw [if_neg (by omega)]
      have e2 : binTerm w d = String.ofList (w.toList ++ '^' :: (toString d).toList) := by
        apply String.toList_inj.1
        rw [binTerm_toList, if_neg hd0, if_neg hd1]; simp
      rw [e1, e2, String.ofList_toList]

theorem binTerm_head (hw : w.toList = c0 :: wt) (hc : c0.isAlpha = true) (d : Nat) (X : Cs) :
    (binTerm w d).toList ++ X ≠ [] ∧
    ∀ c ∈ ((binTerm w d).toList ++ X).head?, isWs c = false ∧ isSign c = false := by
  obtain ⟨_, h2, h3, _⟩ := alpha_facts hc
  rw [binTerm_toList]
  by_cases hd0 : d = 0
  · subst hd0; simp [isWs, isSign]
  · rw [if_neg hd0, hw]; simp [h2, h3]

theorem tokBin_term (hw : w.toList = c0 :: wt) (hc : c0.isAlpha = true) (first : Bool) (pre : Cs)
    (hpre : (pre = [] ∧ first = true) ∨ pre = ['+', ' ']) (d : Nat) (l : List Nat) :
    ∃ full, tokBin w.toList first (pre ++ ((binTerm w d).toList ++ R w l)) =
      some (#[full, binTerm w d, binG2 d], binRest w l) := by
  obtain ⟨hne, hhead⟩ := binTerm_head hw hc d (R w l)
  have key : ∃ r2, binSign first (pre ++ ((binTerm w d).toList ++ R w l)) = some r2 ∧
      dropWs r2 = (binTerm w d).toList ++ R w l := by
    rcases hpre with ⟨rfl, rfl⟩ | rfl
    · exact ⟨_, by rw [List.nil_append]; exact binSign_first hne hhead,
        dropWs_of_head (fun c hc => (hhead c hc).1)⟩
    · refine ⟨' ' :: ((binTerm w d).toList ++ R w l), ?_, ?_⟩
      · exact binSign_plus _ _
      · rw [dropWs_space]; exact dropWs_of_head (fun c hc => (hhead c hc).1)
  obtain ⟨r2, h1, h2⟩ := key
  unfold tokBin
  rw [h1]
  dsimp only
  rw [h2, binBody_term hw hc]
  dsimp only
  rw [dropWs_R]
  exact ⟨_, rfl⟩

theorem binTerm_ne (hw : w.toList = c0 :: wt) (hc : c0.isAlpha = true) {d : Nat} (hd : d ≠ 0) :
    binTerm w d ≠ "0" ∧ binTerm w d ≠ "1" := by
  obtain ⟨_, _, _, _, _, _, _, h0, h1, _⟩ := alpha_facts hc
  have : ∀ s : String, (∀ c ∈ s.toList.head?, c ≠ c0) → binTerm w d ≠ s := by
    intro s hs e
    have := congrArg String.toList e
    rw [binTerm_toList, if_neg hd, hw] at this
    exact hs c0 (by rw [← this]; simp) rfl
  exact ⟨this "0" (by simpa using Ne.symm h0), this "1" (by simpa using Ne.symm h1)⟩

/-- the post-processing step of `binfield.ElementFromString` on the match of a printed term -/
theorem bin_go_term (hw : w.toList = c0 :: wt) (hc : c0.isAlpha = true) (full : String) {d : Nat}
    (hd : d < 64) (t : List (Array String)) (val : Nat) :
    Bin.parseRx.go (#[full, binTerm w d, binG2 d] :: t) val = Bin.parseRx.go t (val ^^^ 2 ^ d) := by
  rw [Bin.parseRx.go]
  by_cases hd0 : d = 0
  · subst hd0
    simp [binTerm]
  · obtain ⟨n0, n1⟩ := binTerm_ne hw hc hd0
    by_cases hd1 : d = 1
    · subst hd1
      simp [n0, n1, binG2]
    · have e1 : binG2 d = toString d := by unfold binG2; rw [if_neg (by omega)]
      have e2 : parseUint d.repr = some d := parseUint_toString (n := d) (by omega)
      have e3 : w64 (1 <<< d) = 2 ^ d := by
        unfold w64
        rw [Nat.one_shiftLeft, Nat.mod_eq_of_lt (Nat.pow_lt_pow_right (by omega) hd)]
      have e4 : ¬ d ≥ uintSize := by unfold uintSize; omega
      simp [n0, n1, e1, e2, e3, e4]


theorem loopBin_nil (W : Cs) (f : Nat) (first : Bool) : loopBin W f first [] = some [] := by
  cases f <;> rfl

theorem length_binRest_le (w : String) (l : List Nat) : (binRest w l).length ≤ (R w l).length := by
  unfold binRest R; split <;> simp

theorem loopBin_terms (hw : w.toList = c0 :: wt) (hc : c0.isAlpha = true) :
    ∀ (l : List Nat), l ≠ [] → (∀ d ∈ l, d < 64) → ∀ (first : Bool) (pre : Cs),
    ((pre = [] ∧ first = true) ∨ pre = ['+', ' ']) → ∀ (f val : Nat), (pre ++ J w l).length ≤ f →
    ∃ ms, loopBin w.toList f first (pre ++ J w l) = some ms ∧
      Bin.parseRx.go ms val = .ok (l.foldl (fun a d => a ^^^ 2 ^ d) val) := by
  intro l
  induction l with
  | nil => intro h; exact absurd rfl h
  | cons d l ih =>
    intro _ hd first pre hpre f val hf
    rw [J_cons] at hf ⊢
    obtain ⟨full, htok⟩ := tokBin_term hw hc first pre hpre d l
    obtain ⟨hne, _⟩ := binTerm_head hw hc d (R w l)
    have hlen : 0 < ((binTerm w d).toList ++ R w l).length := List.length_pos_iff.2 hne
    have hs : (pre ++ ((binTerm w d).toList ++ R w l)).isEmpty = false := by
      cases h : pre ++ ((binTerm w d).toList ++ R w l) with
      | nil => exact absurd (List.append_eq_nil_iff.1 h).2 hne
      | cons _ _ => rfl
    have hlt : (binRest w l).length < (pre ++ ((binTerm w d).toList ++ R w l)).length := by
      have := length_binRest_le w l
      have h1 : 0 < (binTerm w d).toList.length := by
        rw [binTerm_toList]; split
        · simp
        · rw [hw]; simp
      simp only [List.length_append] at *
      omega
    cases f with
    | zero => simp only [List.length_append] at hf hlen; omega
    | succ f =>
      rw [loopBin, hs, htok]
      simp only [Bool.false_eq_true, if_false, hlt, if_true]
      by_cases hl : l = []
      · subst hl
        refine ⟨[#[full, binTerm w d, binG2 d]], by simp [binRest, loopBin_nil], ?_⟩
        rw [bin_go_term hw hc full (hd d (by simp))]
        simp [Bin.parseRx.go]
      · have hrest : binRest w l = ['+', ' '] ++ J w l := by simp [binRest, hl]
        obtain ⟨ms, h1, h2⟩ := ih hl (fun e he => hd e (by simp [he])) false ['+', ' ']
          (Or.inr rfl) f (val ^^^ 2 ^ d) (by rw [← hrest]; omega)
        refine ⟨#[full, binTerm w d, binG2 d] :: ms, by rw [hrest, h1]; rfl, ?_⟩
        rw [bin_go_term hw hc full (hd d (by simp)), h2]
        simp

end


/-! ### the value read back from the matches of `Bin.toStr` -/

theorem testBit_foldl_xor (l : List Nat) (hl : l.Nodup) (acc i : Nat) :
    (l.foldl (fun a d => a ^^^ 2 ^ d) acc).testBit i = (acc.testBit i ^^ decide (i ∈ l)) := by
  induction l generalizing acc with
  | nil => simp
  | cons d l ih =>
    rw [List.foldl_cons, ih (List.nodup_cons.1 hl).2, Nat.testBit_xor, Nat.testBit_two_pow]
    have hd := (List.nodup_cons.1 hl).1
    by_cases h1 : d = i
    · subst h1; simp [hd]
    · have : ¬ i = d := fun e => h1 e.symm
      simp [h1, this]

theorem foldl_xor_degs {n a : Nat} (ha : a < 2 ^ (n + 1)) :
    (degs n a).foldl (fun acc d => acc ^^^ 2 ^ d) 0 = a := by
  apply Nat.eq_of_testBit_eq
  intro i
  have hnd : (degs n a).Nodup := (degs_pairwise n a).imp (fun h => Nat.ne_of_gt h)
  rw [testBit_foldl_xor _ hnd]
  simp only [Nat.zero_testBit, Bool.false_xor, mem_degs]
  by_cases hi : i ≤ n
  · simp [hi]
  · have : a.testBit i = false :=
      Nat.testBit_lt_two_pow (Nat.lt_of_lt_of_le ha (Nat.pow_le_pow_right (by omega) (by omega)))
    simp [hi, this]

theorem bin_reduce_of_lt {n m a : Nat} (ha : a < 2 ^ n) : Bin.reduce n m a = a := by
  have : ¬ bitLen a > n := by
    unfold bitLen
    split
    · omega
    · rename_i h0
      have := (Nat.log2_lt h0).2 ha
      omega
  rw [Bin.reduce, dif_neg this]

theorem simpleName_iff {v : String} :
    simpleName v = true ↔ ∃ c t, v.toList = c :: t ∧ c.isAlpha = true ∧ ∀ x ∈ t, x.isAlphanum = true := by
  unfold simpleName
  cases h : v.toList with
  | nil => simp
  | cons c t =>
    simp only [Bool.and_eq_true, List.all_eq_true, List.cons.injEq]
    constructor
    · rintro ⟨h1, h2⟩; exact ⟨c, t, ⟨rfl, rfl⟩, h1, h2⟩
    · rintro ⟨c', t', ⟨rfl, rfl⟩, h1, h2⟩; exact ⟨h1, h2⟩

/-- Round trip of binary-field elements through the total tokeniser. -/
theorem bin_parse_toStr {v : String} (hv : simpleName v = true) {n m a : Nat} (hn : n < 64)
    (ha : a < 2 ^ n) : Bin.parse n m v (Bin.toStr v n a) = .ok a := by
  obtain ⟨c0, wt, hw, hc, _⟩ := simpleName_iff.1 hv
  have ha' : a < 2 ^ (n + 1) := by rw [Nat.pow_succ]; omega
  unfold Bin.parse
  rw [if_pos hv, toStr_eq]
  by_cases h0 : a = 0
  · subst h0
    have : matchesBin v "0" = some [#["0", "0", ""]] := by
      have h1 : ("0" : String).toList = ['0'] := rfl
      unfold matchesBin
      rw [h1]
      simp [loopBin, tokBin, binSign, dropWs, isWs, isSign, binBody, consumed]
    rw [if_pos rfl, this]
    simp [Bin.parseRx.go, bin_reduce_of_lt ha]
  · rw [if_neg h0]
    have hne : degs n a ≠ [] := fun h => h0 ((degs_eq_nil_iff ha').1 h)
    have hd : ∀ d ∈ degs n a, d < 64 := fun d hd => by have := (mem_degs.1 hd).1; omega
    obtain ⟨ms, h1, h2⟩ := loopBin_terms hw hc (degs n a) hne hd true [] (Or.inl ⟨rfl, rfl⟩)
      (J v (degs n a)).length 0 (by simp)
    have : matchesBin v (" + ".intercalate ((degs n a).map (binTerm v))) = some ms := by
      unfold matchesBin
      exact h1
    rw [this]
    dsimp only
    rw [h2, foldl_xor_degs ha']
    dsimp only
    rw [bin_reduce_of_lt ha]

end Algobra.ParseRT
