import Algobra.Proofs.Tables3

namespace Algobra
namespace Tables
namespace B
open BPoly

section ParseB
variable {α : Type} {F F' : FOps α} {V : α → Prop} (hA : OpsAgree F F' V) (hC : Closed F V)
include hA hC

theorem bgo_par (hparse : ∀ str v, F.parse str = .ok v → V v) (v0 v1 : String) :
    ∀ (l : List (Array String)) (out : List (Deg × α)), AllM V out →
      stringToMapRx.go F' v0 v1 l out = stringToMapRx.go F v0 v1 l out ∧
      ∀ m, stringToMapRx.go F v0 v1 l out = .ok m → AllM V m := by
  intro l
  induction l with
  | nil => intro out ho; exact ⟨rfl, fun m h => by cases h; exact ho⟩
  | cons g t ih =>
    intro out ho
    have fin : ∀ (d : Deg) (c : α), V c →
        stringToMapRx.go F' v0 v1 t (UPoly.mapAdd F' out d c) = stringToMapRx.go F v0 v1 t (UPoly.mapAdd F out d c) ∧
        ∀ m, stringToMapRx.go F v0 v1 t (UPoly.mapAdd F out d c) = .ok m → AllM V m := by
      intro d c hc
      obtain ⟨e, hv⟩ := mapAdd_par hA hC ho d hc
      rw [e]; exact ih _ hv
    simp only [stringToMapRx.go, hA.parse, hA.one]
    split
    · exact ⟨rfl, fun m h => by cases h⟩
    · split
      · exact ⟨rfl, fun m h => by cases h⟩
      · split
        · exact ⟨rfl, fun m h => by cases h⟩
        · split
          · exact ⟨rfl, fun m h => by cases h⟩
          · split
            · exact ⟨rfl, fun m h => by cases h⟩
            · split
              · exact ⟨rfl, fun m h => by cases h⟩
              · rename_i h1 h2 ord a0 a1 d0 d1 hord ce c hce e0 x hx e1 y hy
                have hc : V c := by
                  split at hce
                  · cases hce; exact hC.one
                  · split at hce
                    · next v hp => cases hce; exact hparse _ _ hp
                    · cases hce
                split
                · rw [hA.neg _ hc]; exact fin _ _ (hC.neg _ hc)
                · exact fin _ _ hc

theorem bstringToMapRx_par (hparse : ∀ str v, F.parse str = .ok v → V v) {R : BPoly.Ring α}
    (hR : R.F = F) (s : String) :
    stringToMapRx (withFB R F') s = stringToMapRx R s ∧
      ∀ m, stringToMapRx R s = .ok m → AllM V m := by
  have hnil : AllM V ([] : List (Deg × α)) := fun _ h => by cases h
  unfold stringToMapRx withFB
  dsimp only
  rw [hR, hA.regex]
  split
  · exact ⟨rfl, fun m h => by cases h⟩
  · split
    · exact ⟨rfl, fun m h => by cases h⟩
    · split_ifs with ht
      · exact ⟨rfl, fun m h => by cases h⟩
      · exact bgo_par hA hC hparse _ _ _ _ hnil

theorem bstringToMap_par (hparse : ∀ str v, F.parse str = .ok v → V v) {R : BPoly.Ring α}
    (hR : R.F = F) (s : String) :
    stringToMap (withFB R F') s = stringToMap R s ∧
      ∀ m, stringToMap R s = .ok m → AllM V m := by
  have hnil : AllM V ([] : List (Deg × α)) := fun _ h => by cases h
  obtain ⟨e, hv⟩ := bstringToMapRx_par hA hC hparse hR s
  unfold stringToMap directOK
  rw [e]
  have h1 : (withFB R F').F = F' := rfl
  have h2 : (withFB R F').varNames = R.varNames := rfl
  rw [h1, h2, hR, hA.ownVar]
  split_ifs with hd
  · split
    · exact ⟨rfl, fun m h => by cases h⟩
    · exact bgo_par hA hC hparse _ _ _ _ hnil
  · exact ⟨rfl, hv⟩

theorem bparse_par (hparse : ∀ str v, F.parse str = .ok v → V v) {R : BPoly.Ring α}
    (hR : BRingOK F V R) (s : String) :
    BPoly.parse (withFB R F') s = BPoly.parse R s ∧
      ∀ o, BPoly.parse R s = .ok o → OptM V o := by
  unfold BPoly.parse
  obtain ⟨e, hv⟩ := bstringToMap_par hA hC hparse hR.hF s
  rw [e]
  cases hm : stringToMap R s with
  | error k => exact ⟨rfl, fun o h => by cases h⟩
  | ok m =>
    obtain ⟨e2, hv2⟩ := ofMap_par hA hC hR (hv m hm)
    dsimp only
    rw [e2]
    exact ⟨rfl, fun o h => by cases h; exact hv2⟩

end ParseB
end B

section StepBStr
variable {α : Type} {env env' : Env α} {V : Nat → α → Prop} (h : EnvAgreeB env env' V)
include h

theorem step_bStr_agree (desc : FieldDesc) {s : St α} (hs : StoreOKB V s) (dst ring : Nat)
    (arg : String) :
    step env' desc s (.bCtor dst ring "str" arg) = step env desc s (.bCtor dst ring "str" arg) ∧
      StoreOKB V (step env desc s (.bCtor dst ring "str" arg)).1 := by
  have A := h.u.base.agree 0
  have C := h.u.base.closed 0
  have hR := h.bringOK ring
  have hb' : bring env' ring = B.withFB (bring env ring) (env'.fld 0) := h.bring' ring
  simp only [step, stepE, stepU, stepB, String.reduceBEq, Bool.false_eq_true, if_false, if_true]
  rw [hb']
  obtain ⟨e, hv⟩ := B.bparse_par A C (h.u.parse 0) (R := bring env ring) hR (unhex arg)
  rw [e]
  cases hp : BPoly.parse (bring env ring) (unhex arg) with
  | error k => exact ⟨rfl, hs.setB dst _ B.nil_V⟩
  | ok o =>
    cases o with
    | none =>
      exact putB h hs dst (r := { home := ring, val := [], err := .kind .internal }) rfl B.nil_V _
    | some v => exact putB h hs dst (r := { home := ring, val := v }) rfl (hv _ hp v rfl) _

omit h in
/-- ALL bivariate polynomial operations except the raw decoder `bCtor … "map"` -/
def bOpAll : Op → Bool
  | .bCtor _ _ how _ => how != "map"
  | op => bOp op

omit h in
theorem bCtor_how_cases (dst ring : Nat) (how arg : String) (hne : how ≠ "map") :
    bOp (.bCtor dst ring how arg) = true ∨ how = "str" ∨
      (∀ (env : Env α) (s : St α), stepB env s (.bCtor dst ring how arg) = none) := by
  by_cases h1 : bOp (.bCtor dst ring how arg) = true
  · exact Or.inl h1
  · by_cases h2 : how = "str"
    · exact Or.inr (Or.inl h2)
    · refine Or.inr (Or.inr fun env s => ?_)
      simp only [bOp, Bool.or_eq_true, beq_iff_eq, not_or] at h1
      obtain ⟨⟨⟨⟨a1, a2⟩, a3⟩, a4⟩, a5⟩ := h1
      simp only [stepB, beq_iff_eq, hne, a1, a2, a3, a4, a5, h2, if_false]

theorem step_bOpAll_agree (desc : FieldDesc) {s : St α} (hs : StoreOKB V s) (op : Op)
    (hop : bOpAll op = true) :
    step env' desc s op = step env desc s op ∧ StoreOKB V (step env desc s op).1 := by
  cases op
  case bCtor dst ring how arg =>
    simp only [bOpAll, bne_iff_ne, ne_eq] at hop
    rcases bCtor_how_cases (α := α) dst ring how arg hop with h1 | rfl | h3
    · exact step_bOp_agree h desc hs _ h1
    · exact step_bStr_agree h desc hs dst ring arg
    · have e : ∀ env : Env α, step env desc s (.bCtor dst ring how arg) = (s, "bad-op") := by
        intro env
        simp only [step, stepE, stepU, h3, stepT]
      rw [e, e]
      exact ⟨rfl, hs⟩
  all_goals exact step_bOp_agree h desc hs _ hop

end StepBStr

/-! ## Gröbner machinery: congruence and closure -/
namespace B
open BPoly
section Groebner
variable {α : Type} {F F' : FOps α} {V : α → Prop} (hA : OpsAgree F F' V) (hC : Closed F V)
include hA hC

/-- optional list of polynomials valid -/
def OptMM (V : α → Prop) (o : Option (List (BPoly α))) : Prop := ∀ l, o = some l → AllMM V l

omit hA hC in
theorem AllMM.single {f : BPoly α} (hf : AllM V f) : AllMM V [f] := fun g hg => by
  rw [List.mem_singleton] at hg; exact hg ▸ hf

omit hA hC in
theorem AllMM.headD {l : List (BPoly α)} (hl : AllMM V l) : AllM V (l.headD []) := by
  cases l with
  | nil => exact nil_V
  | cons a t => exact hl a List.mem_cons_self

omit hA hC in
theorem AllMM.getD {l : List (BPoly α)} (hl : AllMM V l) (i : Nat) : AllM V (l.getD i []) := by
  rw [List.getD_eq_getElem?_getD]
  cases h : l[i]? with
  | none => exact nil_V
  | some q => exact hl q (List.mem_of_getElem? h)

omit hA hC in
theorem AllMM.nils (l : List (BPoly α)) : AllMM V (l.map fun _ => ([] : BPoly α)) := by
  intro q hq
  obtain ⟨_, _, rfl⟩ := List.mem_map.1 hq
  exact nil_V

theorem sPoly_par (o : Order) {f g : BPoly α} (hf : AllM V f) (hg : AllM V g) :
    sPoly F' o f g = sPoly F o f g ∧ OptM V (sPoly F o f g) := by
  unfold sPoly monomialLcm
  obtain ⟨e1, hv1⟩ := lt_par hA hC o hf
  obtain ⟨e2, hv2⟩ := lt_par hA hC o hg
  dsimp only
  rw [e1, e2, hA.one]
  have hl : AllM V [((max (ld o (BPoly.lt F o f)).1 (ld o (BPoly.lt F o g)).1,
      max (ld o (BPoly.lt F o f)).2 (ld o (BPoly.lt F o g)).2), F.one)] := fun x hx => by
    rw [List.mem_singleton] at hx; rw [hx]; exact hC.one
  generalize [((max (ld o (BPoly.lt F o f)).1 (ld o (BPoly.lt F o g)).1,
      max (ld o (BPoly.lt F o f)).2 (ld o (BPoly.lt F o g)).2), F.one)] = L at hl ⊢
  obtain ⟨e3, hv3⟩ := quoRemLoop_par hA hC o none (AllMM.single hv1) 1000 L [[]] [] hl
    (AllMM.single nil_V) nil_V
  obtain ⟨e4, hv4⟩ := quoRemLoop_par hA hC o none (AllMM.single hv2) 1000 L [[]] [] hl
    (AllMM.single nil_V) nil_V
  rw [e3, e4]
  cases h1 : quoRemLoop F o none [BPoly.lt F o f] 1000 L [[]] [] with
  | none =>
    cases quoRemLoop F o none [BPoly.lt F o g] 1000 L [[]] [] <;>
      exact ⟨rfl, fun v h => by cases h⟩
  | some qr1 =>
    cases h2 : quoRemLoop F o none [BPoly.lt F o g] 1000 L [[]] [] with
    | none => exact ⟨rfl, fun v h => by cases h⟩
    | some qr2 =>
      obtain ⟨q1, r1⟩ := qr1
      obtain ⟨q2, r2⟩ := qr2
      obtain ⟨e5, hv5⟩ := mulNoReduce_par hA hC (AllMM.headD (hv3 q1 r1 h1).1) hf
      obtain ⟨e6, hv6⟩ := mulNoReduce_par hA hC (AllMM.headD (hv4 q2 r2 h2).1) hg
      dsimp only
      rw [e5, e6]
      cases ha : mulNoReduce F (q1.headD []) f with
      | none =>
        cases mulNoReduce F (q2.headD []) g <;> exact ⟨rfl, fun v h => by cases h⟩
      | some a =>
        cases hb : mulNoReduce F (q2.headD []) g with
        | none => exact ⟨rfl, fun v h => by cases h⟩
        | some b =>
          obtain ⟨e7, hv7⟩ := sub_par hA hC (hv5 a ha) (hv6 b hb)
          dsimp only
          rw [e7]
          exact ⟨rfl, fun v h => by cases h; exact hv7⟩

theorem sPairRems_par (o : Order) {gb : List (BPoly α)} (hgb : AllMM V gb) :
    sPairRems F' o gb = sPairRems F o gb ∧ OptMM V (sPairRems F o gb) := by
  unfold sPairRems
  dsimp only
  refine foldl_par (OptMM V) (fun x : BPoly α × Nat => AllM V x.1) _ _ (fun acc x hacc hx => ?_)
    gb.zipIdx (some []) (fun x hx => hgb _ (List.fst_mem_of_mem_zipIdx hx))
    (fun l h => by cases h; exact fun _ h => by cases h)
  obtain ⟨f, i⟩ := x
  refine foldl_par (OptMM V) (fun y : BPoly α × Nat => AllM V y.1) _ _ (fun acc y hacc hy => ?_)
    gb.zipIdx acc (fun y hy => hgb _ (List.fst_mem_of_mem_zipIdx hy)) hacc
  obtain ⟨g, j⟩ := y
  dsimp only at hx hy ⊢
  split
  · exact ⟨rfl, hacc⟩
  · obtain ⟨e, hv⟩ := sPoly_par hA hC o hx hy
    rw [e]
    cases acc with
    | none => exact ⟨rfl, fun _ h => by cases h⟩
    | some news =>
      cases hs : sPoly F o f g with
      | none => exact ⟨rfl, fun _ h => by cases h⟩
      | some sp =>
        obtain ⟨e2, hv2⟩ := quoRemLoop_par hA hC o none hgb divFuel sp _ [] (hv sp hs)
          (AllMM.nils gb) nil_V
        dsimp only
        rw [e2]
        cases hq : quoRemLoop F o none gb divFuel sp (gb.map fun _ => []) [] with
        | none => exact ⟨rfl, fun _ h => by cases h⟩
        | some qr =>
          obtain ⟨qs, r⟩ := qr
          dsimp only
          split
          · exact ⟨rfl, fun l h => by cases h; exact hacc news rfl⟩
          · refine ⟨rfl, fun l h => ?_⟩
            cases h
            intro p hp
            rcases List.mem_append.1 hp with h1 | h1
            · exact hacc news rfl p h1
            · rw [List.mem_singleton] at h1; rw [h1]; exact (hv2 qs r hq).2

theorem buchberger_par (o : Order) : ∀ (fuel : Nat) (gb : List (BPoly α)), AllMM V gb →
    buchberger F' o fuel gb = buchberger F o fuel gb ∧ OptMM V (buchberger F o fuel gb) := by
  intro fuel
  induction fuel with
  | zero => intro gb _; exact ⟨rfl, fun _ h => by cases h⟩
  | succ fuel ih =>
    intro gb hgb
    rw [buchberger, buchberger]
    obtain ⟨e, hv⟩ := sPairRems_par hA hC o hgb
    rw [e]
    split
    · exact ⟨rfl, fun _ h => by cases h⟩
    · cases hs : sPairRems F o gb with
      | none => exact ⟨rfl, fun _ h => by cases h⟩
      | some news =>
        cases news with
        | nil => exact ⟨rfl, fun _ h => by cases h; exact hgb⟩
        | cons a t =>
          refine ih _ ?_
          intro p hp
          rcases List.mem_append.1 hp with h1 | h1
          · exact hgb p h1
          · exact hv _ hs p h1


/-- result `(ideal, x)` of an ideal method: generators valid -/
def IdRes {β : Type} (V : α → Prop) (o : Option (Ideal α × β)) : Prop :=
  ∀ r, o = some r → AllMM V r.1.gens

theorem groebnerBasis_par (o : Order) {id : Ideal α} (hid : AllMM V id.gens) :
    id.groebnerBasis F' o = id.groebnerBasis F o ∧
      ∀ g, id.groebnerBasis F o = some g → AllMM V g.gens := by
  unfold Ideal.groebnerBasis
  obtain ⟨e, hv⟩ := buchberger_par hA hC o groebnerFuel _ hid
  rw [e]
  split
  · exact ⟨rfl, fun g h => by cases h; exact hid⟩
  · cases hb : buchberger F o groebnerFuel id.gens with
    | none => exact ⟨rfl, fun g h => by cases h⟩
    | some gb => exact ⟨rfl, fun g h => by cases h; exact hv gb hb⟩

theorem decideGroebner_congr (o : Order) {gens : List (BPoly α)} (hg : AllMM V gens) :
    decideGroebner F' o gens = decideGroebner F o gens := by
  unfold decideGroebner; rw [(sPairRems_par hA hC o hg).1]

theorem isGroebnerQ_par (o : Order) {id : Ideal α} (hid : AllMM V id.gens) :
    id.isGroebnerQ F' o = id.isGroebnerQ F o ∧ IdRes V (id.isGroebnerQ F o) := by
  unfold Ideal.isGroebnerQ
  rw [decideGroebner_congr hA hC o hid]
  split
  · exact ⟨rfl, fun r h => by cases h; exact hid⟩
  · split
    · exact ⟨rfl, fun r h => by cases h; exact hid⟩
    · cases decideGroebner F o id.gens with
      | none => exact ⟨rfl, fun r h => by cases h⟩
      | some b => exact ⟨rfl, fun r h => by cases h; exact hid⟩

theorem leadingTerms_par (o : Order) {gens : List (BPoly α)} (hg : AllMM V gens) :
    leadingTerms F' o gens = leadingTerms F o gens ∧ AllMM V (leadingTerms F o gens).1 ∧
      AllMM V (leadingTerms F o gens).2 := by
  unfold leadingTerms
  dsimp only
  have e1 : gens.map (BPoly.normalize F' o) = gens.map (BPoly.normalize F o) :=
    List.map_congr_left fun f hf => (normalize_par hA hC o (hg f hf)).1
  have h1 : AllMM V (gens.map (BPoly.normalize F o)) := by
    intro p hp
    obtain ⟨f, hf, rfl⟩ := List.mem_map.1 hp
    exact (normalize_par hA hC o (hg f hf)).2
  have e2 : (gens.map (BPoly.normalize F o)).map (BPoly.lt F' o)
      = (gens.map (BPoly.normalize F o)).map (BPoly.lt F o) :=
    List.map_congr_left fun f hf => (lt_par hA hC o (h1 f hf)).1
  have h2 : AllMM V ((gens.map (BPoly.normalize F o)).map (BPoly.lt F o)) := by
    intro p hp
    obtain ⟨f, hf, rfl⟩ := List.mem_map.1 hp
    exact (lt_par hA hC o (h1 f hf)).2
  rw [e1, e2]
  exact ⟨rfl, h1, h2⟩

theorem spannedByOthers_congr (o : Order) {lts : List (BPoly α)} (hl : AllMM V lts) (i : Nat) :
    spannedByOthers F' o lts i = spannedByOthers F o lts i := by
  unfold spannedByOthers
  rw [(quoRemLoop_par hA hC o (some i) hl 1000 _ _ [] (AllMM.getD hl i) (AllMM.nils lts) nil_V).1]

omit hA hC in
theorem AllMM.eraseIdx {l : List (BPoly α)} (hl : AllMM V l) (i : Nat) : AllMM V (l.eraseIdx i) :=
  fun f hf => hl f (List.mem_of_mem_eraseIdx hf)

theorem minimizeLoop_par (o : Order) : ∀ (fuel i : Nat) (gens lts : List (BPoly α)),
    AllMM V gens → AllMM V lts →
    minimizeLoop F' o fuel i gens lts = minimizeLoop F o fuel i gens lts ∧
      AllMM V (minimizeLoop F o fuel i gens lts) := by
  intro fuel
  induction fuel with
  | zero => intro i gens lts hg _; exact ⟨rfl, hg⟩
  | succ fuel ih =>
    intro i gens lts hg hl
    rw [minimizeLoop, minimizeLoop, spannedByOthers_congr hA hC o hl]
    split
    · exact ⟨rfl, hg⟩
    · split
      · exact ih _ _ _ (hg.eraseIdx i) (hl.eraseIdx i)
      · exact ih _ _ _ hg hl

theorem minimizeBasis_par (o : Order) {id : Ideal α} (hid : AllMM V id.gens) :
    id.minimizeBasis F' o = id.minimizeBasis F o ∧ IdRes V (id.minimizeBasis F o) := by
  unfold Ideal.minimizeBasis
  obtain ⟨e, hv⟩ := isGroebnerQ_par hA hC o hid
  rw [e]
  cases hq : id.isGroebnerQ F o with
  | none => exact ⟨rfl, fun r h => by cases h⟩
  | some idb =>
    obtain ⟨id', b⟩ := idb
    have hid' : AllMM V id'.gens := hv _ hq
    cases b
    · exact ⟨rfl, fun r h => by cases h; exact hid'⟩
    · obtain ⟨e2, h1, h2⟩ := leadingTerms_par hA hC o hid'
      dsimp only
      rw [e2]
      cases hlt : leadingTerms F o id'.gens with
      | mk g' l =>
        rw [hlt] at h1 h2
        obtain ⟨e3, h3⟩ := minimizeLoop_par hA hC o (g'.length + 1) 0 g' l h1 h2
        dsimp only
        rw [e3]
        exact ⟨rfl, fun r h => by cases h; exact h3⟩

theorem isMinimalQ_par (o : Order) {id : Ideal α} (hid : AllMM V id.gens) :
    id.isMinimalQ F' o = id.isMinimalQ F o ∧ IdRes V (id.isMinimalQ F o) := by
  unfold Ideal.isMinimalQ
  obtain ⟨e, hv⟩ := isGroebnerQ_par hA hC o hid
  rw [e]
  split
  · exact ⟨rfl, fun r h => by cases h; exact hid⟩
  · split
    · exact ⟨rfl, fun r h => by cases h; exact hid⟩
    · cases hq : id.isGroebnerQ F o with
      | none => exact ⟨rfl, fun r h => by cases h⟩
      | some idb =>
        obtain ⟨id', b⟩ := idb
        have hid' : AllMM V id'.gens := hv _ hq
        cases b
        · exact ⟨rfl, fun r h => by cases h; exact hid'⟩
        · obtain ⟨e2, h1, h2⟩ := leadingTerms_par hA hC o hid'
          dsimp only
          rw [e2]
          cases hlt : leadingTerms F o id'.gens with
          | mk g' l =>
            rw [hlt] at h1 h2
            have e3 : (fun i => !spannedByOthers F' o l i) = (fun i => !spannedByOthers F o l i) :=
              funext fun i => by rw [spannedByOthers_congr hA hC o h2]
            dsimp only
            rw [e3]
            exact ⟨rfl, fun r h => by cases h; exact h1⟩

theorem remByOthers_par (o : Order) {gens : List (BPoly α)} (hg : AllMM V gens) (i : Nat) :
    remByOthers F' o gens i = remByOthers F o gens i ∧ OptM V (remByOthers F o gens i) := by
  unfold remByOthers
  obtain ⟨e, hv⟩ := quoRemLoop_par hA hC o (some i) hg divFuel _ _ [] (AllMM.getD hg i)
    (AllMM.nils gens) nil_V
  rw [e]
  cases hq : quoRemLoop F o (some i) gens divFuel (gens.getD i []) (gens.map fun _ => []) [] with
  | none => exact ⟨rfl, fun _ h => by cases h⟩
  | some qr => exact ⟨rfl, fun v h => by cases h; exact (hv qr.1 qr.2 hq).2⟩

omit hA hC in
theorem AllMM.set {l : List (BPoly α)} (hl : AllMM V l) (i : Nat) {r : BPoly α} (hr : AllM V r) :
    AllMM V (l.set i r) := by
  intro f hf
  rcases List.mem_or_eq_of_mem_set hf with h | rfl
  · exact hl f h
  · exact hr

theorem reduceFold_par (o : Order) (n : Nat) {gens : List (BPoly α)} (hg : AllMM V gens) :
    (List.range n).foldl (fun acc i => match acc with
        | none => none
        | some gens => (remByOthers F' o gens i).map fun r => gens.set i r) (some gens)
      = (List.range n).foldl (fun acc i => match acc with
        | none => none
        | some gens => (remByOthers F o gens i).map fun r => gens.set i r) (some gens) ∧
    OptMM V ((List.range n).foldl (fun acc i => match acc with
        | none => none
        | some gens => (remByOthers F o gens i).map fun r => gens.set i r) (some gens)) := by
  refine foldl_par (OptMM V) (fun _ : Nat => True) _ _ (fun acc i hacc _ => ?_) (List.range n)
    (some gens) (fun _ _ => trivial) (fun l h => by cases h; exact hg)
  cases acc with
  | none => exact ⟨rfl, fun _ h => by cases h⟩
  | some gs =>
    obtain ⟨e, hv⟩ := remByOthers_par hA hC o (hacc gs rfl) i
    dsimp only
    rw [e]
    cases hr : remByOthers F o gs i with
    | none => exact ⟨rfl, fun _ h => by cases h⟩
    | some r => exact ⟨rfl, fun l h => by cases h; exact (hacc gs rfl).set i (hv r hr)⟩


theorem reduceBasis_par (o : Order) {id : Ideal α} (hid : AllMM V id.gens) :
    id.reduceBasis F' o = id.reduceBasis F o ∧ IdRes V (id.reduceBasis F o) := by
  unfold Ideal.reduceBasis
  obtain ⟨e, hv⟩ := isGroebnerQ_par hA hC o hid
  rw [e]
  cases hq : id.isGroebnerQ F o with
  | none => exact ⟨rfl, fun r h => by cases h⟩
  | some idb =>
    obtain ⟨id', b⟩ := idb
    have hid' : AllMM V id'.gens := hv _ hq
    cases b
    · exact ⟨rfl, fun r h => by cases h; exact hid'⟩
    · obtain ⟨e2, hv2⟩ := minimizeBasis_par hA hC o hid'
      dsimp only
      rw [e2]
      have hM : ∀ idm, (if id'.isMinimal ≠ 1 then (id'.minimizeBasis F o).map (·.1) else some id')
          = some idm → AllMM V idm.gens := by
        intro idm hm
        split at hm
        · cases hmb : id'.minimizeBasis F o with
          | none => rw [hmb] at hm; cases hm
          | some r => rw [hmb] at hm; cases hm; exact hv2 r hmb
        · cases hm; exact hid'
      generalize (if id'.isMinimal ≠ 1 then (id'.minimizeBasis F o).map (·.1) else some id') = idM
        at hM ⊢
      cases idM with
      | none => exact ⟨rfl, fun r h => by cases h⟩
      | some idm =>
        obtain ⟨e3, hv3⟩ := reduceFold_par hA hC o idm.gens.length (hM idm rfl)
        dsimp only
        erw [e3]
        refine ⟨rfl, fun r h => ?_⟩
        revert h
        generalize (List.range idm.gens.length).foldl _ (some idm.gens) = res at hv3
        intro h
        cases res with
        | none => cases h
        | some gs => cases h; exact hv3 gs rfl

theorem isReducedQ_par (o : Order) {id : Ideal α} (hid : AllMM V id.gens) :
    id.isReducedQ F' o = id.isReducedQ F o ∧ IdRes V (id.isReducedQ F o) := by
  unfold Ideal.isReducedQ
  obtain ⟨e, hv⟩ := isMinimalQ_par hA hC o hid
  rw [e]
  split
  · exact ⟨rfl, fun r h => by cases h; exact hid⟩
  · split
    · exact ⟨rfl, fun r h => by cases h; exact hid⟩
    · cases hq : id.isMinimalQ F o with
      | none => exact ⟨rfl, fun r h => by cases h⟩
      | some idb =>
        obtain ⟨id', b⟩ := idb
        have hid' : AllMM V id'.gens := hv _ hq
        cases b
        · exact ⟨rfl, fun r h => by cases h; exact hid'⟩
        · have e2 : (fun i => (remByOthers F' o id'.gens i).map fun r => equal F' r (id'.gens.getD i []))
              = (fun i => (remByOthers F o id'.gens i).map fun r => equal F r (id'.gens.getD i [])) :=
            funext fun i => by
              rw [(remByOthers_par hA hC o hid' i).1]
              simp only [equal_congr hA]
          dsimp only
          rw [e2]
          split
          · exact ⟨rfl, fun r h => by cases h⟩
          · exact ⟨rfl, fun r h => by cases h; exact hid'⟩

theorem quotientGens_congr (o : Order) {id : Ideal α} (hid : AllMM V id.gens) :
    quotientGens F' o id = quotientGens F o id := by
  unfold quotientGens
  obtain ⟨e, hv⟩ := groebnerBasis_par hA hC o hid
  rw [e]
  split
  · rfl
  · cases hg : id.groebnerBasis F o with
    | none => rfl
    | some gb =>
      dsimp only
      rw [(reduceBasis_par hA hC o (hv gb hg)).1]

end Groebner
end B

/-! ## `step` on the ideal operations -/
section StepI
variable {α : Type} {env env' : Env α} {V : Nat → α → Prop}

/-- all four register files valid (this is `StoreOKAll`, see `storeOK4_iff`) -/
def StoreOK4 (V : Nat → α → Prop) (s : St α) : Prop :=
  StoreOKB V s ∧ ∀ k I, St.getL s.ids k = some I → B.AllMM (V 0) I.gens

theorem StoreOK4.setI {s : St α} (hs : StoreOK4 V s) (d : Nat) (I : BPoly.Ideal α)
    (hI : B.AllMM (V 0) I.gens) : StoreOK4 V { s with ids := St.setL s.ids d I } := by
  refine ⟨hs.1, fun k I' hk => ?_⟩
  rw [St.getL_setL] at hk
  split at hk
  · cases hk; exact hI
  · exact hs.2 k I' hk

theorem iGet_ok {s : St α} (hs : StoreOK4 V s) (k : Nat) : B.AllMM (V 0) (iGet s k).gens := by
  unfold iGet
  cases hg : St.getL s.ids k with
  | none => exact fun _ h => by cases h
  | some I => exact hs.2 k I hg

variable (h : EnvAgreeB env env' V)
include h

theorem showGens_eq (o : Order) (gs : List (BPoly α)) : showGens env' o gs = showGens env o gs := by
  unfold showGens; rw [encB_eq' h]

omit h in
/-- the ideal operations -/
def iOp : Op → Bool
  | .iNew .. | .iCopy .. | .iGroebner .. | .iPred .. | .iXform .. | .iGens .. | .iObs _ => true
  | _ => false

theorem step_iOp_agree (desc : FieldDesc) {s : St α} (hs : StoreOK4 V s) (op : Op)
    (hop : iOp op = true) :
    step env' desc s op = step env desc s op ∧ StoreOK4 V (step env desc s op).1 := by
  have A := h.u.base.agree 0
  have C := h.u.base.closed 0
  cases op <;> try (simp only [iOp, Bool.false_eq_true] at hop; done)
  case iCopy dst a =>
    exact ⟨rfl, hs.setI dst _ (iGet_ok hs a)⟩
  case iObs a =>
    simp only [step, stepE, stepU, stepB, showGens_eq h, bord_eq h]
    exact ⟨trivial, hs⟩
  case iNew dst ring gs =>
    simp only [step, stepE, stepU, stepB, showGens_eq h, bord_eq h]
    split_ifs with c1 c2
    · exact ⟨trivial, hs⟩
    · exact ⟨trivial, hs⟩
    · refine ⟨trivial, hs.setI dst _ ?_⟩
      intro f hf
      have := List.mem_of_mem_filter hf
      obtain ⟨r, hr, rfl⟩ := List.mem_map.1 this
      obtain ⟨k, _, rfl⟩ := List.mem_map.1 hr
      exact bGet_ok hs.1 k
  case iGens dsts a =>
    refine ⟨rfl, ?_, ?_⟩
    · refine StoreOKB.foldB 0 (dsts.zip (iGet s a).gens) hs.1 ?_
      intro x hx
      exact iGet_ok hs a _ (List.of_mem_zip hx).2
    · exact hs.2
  case iGroebner dst a =>
    simp only [step, stepE, stepU, stepB, showGens_eq h, bord_eq h, F0]
    obtain ⟨e, hv⟩ := B.groebnerBasis_par A C (bord env 0) (iGet_ok hs a)
    rw [e]
    cases hg : (iGet s a).groebnerBasis (env.fld 0) (bord env 0) with
    | none => exact ⟨rfl, hs⟩
    | some g => exact ⟨rfl, hs.setI dst _ (hv g hg)⟩
  case iPred which a =>
    simp only [step, stepE, stepU, stepB, bord_eq h, F0]
    have hid := iGet_ok hs a
    obtain ⟨e1, hv1⟩ := B.isGroebnerQ_par A C (bord env 0) hid
    obtain ⟨e2, hv2⟩ := B.isMinimalQ_par A C (bord env 0) hid
    obtain ⟨e3, hv3⟩ := B.isReducedQ_par A C (bord env 0) hid
    rw [e1, e2, e3]
    have hv : B.IdRes (V 0) (if (which == "groebner") = true then (iGet s a).isGroebnerQ (env.fld 0) (bord env 0)
        else if (which == "minimal") = true then (iGet s a).isMinimalQ (env.fld 0) (bord env 0)
        else (iGet s a).isReducedQ (env.fld 0) (bord env 0)) := by
      split
      · exact hv1
      · split
        · exact hv2
        · exact hv3
    generalize (if (which == "groebner") = true then (iGet s a).isGroebnerQ (env.fld 0) (bord env 0)
        else if (which == "minimal") = true then (iGet s a).isMinimalQ (env.fld 0) (bord env 0)
        else (iGet s a).isReducedQ (env.fld 0) (bord env 0)) = res at hv ⊢
    cases res with
    | none => exact ⟨rfl, hs⟩
    | some r => exact ⟨rfl, hs.setI a _ (hv r rfl)⟩
  case iXform which a =>
    simp only [step, stepE, stepU, stepB, bord_eq h, F0]
    have hid := iGet_ok hs a
    rw [B.quotientGens_congr A C (bord env 0) hid]
    obtain ⟨e1, hv1⟩ := B.minimizeBasis_par A C (bord env 0) hid
    obtain ⟨e2, hv2⟩ := B.reduceBasis_par A C (bord env 0) hid
    rw [e1, e2]
    split_ifs with c1 c2
    · cases BPoly.quotientGens (env.fld 0) (bord env 0) (iGet s a) <;> exact ⟨rfl, hs⟩
    · cases hm : (iGet s a).minimizeBasis (env.fld 0) (bord env 0) with
      | none => exact ⟨rfl, hs⟩
      | some r =>
        obtain ⟨id', ex⟩ := r
        cases ex <;> exact ⟨rfl, hs.setI a _ (hv1 _ hm)⟩
    · cases hm : (iGet s a).reduceBasis (env.fld 0) (bord env 0) with
      | none => exact ⟨rfl, hs⟩
      | some r =>
        obtain ⟨id', ex⟩ := r
        cases ex <;> exact ⟨rfl, hs.setI a _ (hv2 _ hm)⟩


/-! ## all operations -/

omit h in
/-- every operation except the three raw-data constructors (= `C18Tables.noRaw`) -/
def noRawOp : Op → Bool
  | .eCtor _ _ how _ => how != "enc"
  | .uCtor _ _ how _ => how != "coefs"
  | .bCtor _ _ how _ => how != "map"
  | _ => true

omit h in
theorem eCtor_how_cases (dst f : Nat) (how arg : String) (hne : how ≠ "enc") :
    elemOpAll (.eCtor dst f how arg) = true ∨
      (∀ (env : Env α) (s : St α), stepE env s (.eCtor dst f how arg) = none) := by
  by_cases h1 : elemOpAll (.eCtor dst f how arg) = true
  · exact Or.inl h1
  · refine Or.inr fun env s => ?_
    simp only [elemOpAll, Bool.or_eq_true, beq_iff_eq, not_or] at h1
    obtain ⟨⟨⟨⟨⟨⟨a1, a2⟩, a3⟩, a4⟩, a5⟩, a6⟩, a7⟩ := h1
    simp only [stepE, beq_iff_eq, hne, a1, a2, a3, a4, a5, a6, a7, if_false]

theorem step_EUB_agree (desc : FieldDesc) {s : St α} (hs : StoreOK4 V s) (op : Op)
    (hop : elemOpAll op = true ∨ uOpAll op = true ∨ bOpAll op = true) :
    step env' desc s op = step env desc s op ∧ StoreOK4 V (step env desc s op).1 := by
  have key : (step env' desc s op = step env desc s op ∧ StoreOKB V (step env desc s op).1) ∧
      op.writesI = [] := by
    rcases hop with hop | hop | hop
    · refine ⟨step_elemOrUOrB_agree h desc hs.1 op (by unfold elemOrUOrBOp; rw [hop]; rfl), ?_⟩
      cases op <;> first | rfl | (simp only [elemOpAll, Bool.false_eq_true] at hop)
    · refine ⟨step_elemOrUOrB_agree h desc hs.1 op
        (by unfold elemOrUOrBOp; rw [hop, Bool.or_true]; rfl), ?_⟩
      cases op <;> first | rfl | (simp only [uOpAll, uOp, Bool.false_eq_true] at hop)
    · refine ⟨step_bOpAll_agree h desc hs.1 op hop, ?_⟩
      cases op <;> first | rfl | (simp only [bOpAll, bOp, Bool.false_eq_true] at hop)
  obtain ⟨⟨e, hv⟩, hw⟩ := key
  refine ⟨e, hv, fun k I hk => ?_⟩
  rw [(step_frame' env desc s op).ids k (by rw [hw]; exact List.not_mem_nil)] at hk
  exact hs.2 k I hk

/-- ONE STEP, ANY OPERATION except the raw-data constructors: same store, same reply, the whole
    store stays valid -/
theorem step_full_agree (desc : FieldDesc) {s : St α} (hs : StoreOK4 V s) (op : Op)
    (hop : noRawOp op = true) :
    step env' desc s op = step env desc s op ∧ StoreOK4 V (step env desc s op).1 := by
  cases op
  case eCtor dst f how arg =>
    simp only [noRawOp, bne_iff_ne, ne_eq] at hop
    rcases eCtor_how_cases (α := α) dst f how arg hop with h1 | h2
    · exact step_EUB_agree h desc hs _ (Or.inl h1)
    · have hu : ∀ (env : Env α), stepU env s (.eCtor dst f how arg) = none := fun _ => rfl
      have hb : ∀ (env : Env α), stepB env s (.eCtor dst f how arg) = none := fun _ => rfl
      have e : ∀ env : Env α, step env desc s (.eCtor dst f how arg) = (s, "bad-op") := by
        intro env
        simp only [step, h2, hu, hb, stepT]
      rw [e, e]
      exact ⟨rfl, hs⟩
  case uCtor dst r how arg => exact step_EUB_agree h desc hs _ (Or.inr (Or.inl hop))
  case bCtor dst r how arg => exact step_EUB_agree h desc hs _ (Or.inr (Or.inr hop))
  case bad l => exact ⟨rfl, hs⟩
  case iNew => exact step_iOp_agree h desc hs _ rfl
  case iCopy => exact step_iOp_agree h desc hs _ rfl
  case iGroebner => exact step_iOp_agree h desc hs _ rfl
  case iPred => exact step_iOp_agree h desc hs _ rfl
  case iXform => exact step_iOp_agree h desc hs _ rfl
  case iGens => exact step_iOp_agree h desc hs _ rfl
  case iObs => exact step_iOp_agree h desc hs _ rfl
  all_goals first
    | exact step_EUB_agree h desc hs _ (Or.inl rfl)
    | exact step_EUB_agree h desc hs _ (Or.inr (Or.inl rfl))
    | exact step_EUB_agree h desc hs _ (Or.inr (Or.inr rfl))

theorem runOps_full_agree (desc : FieldDesc) (ops : List Op)
    (hops : ∀ op ∈ ops, noRawOp op = true) :
    ∀ {s : St α}, StoreOK4 V s →
      runOps env' desc s ops = runOps env desc s ops ∧ StoreOK4 V (runOps env desc s ops).1 := by
  induction ops with
  | nil => intro s hs; exact ⟨rfl, hs⟩
  | cons op t ih =>
    intro s hs
    obtain ⟨e, hs'⟩ := step_full_agree h desc hs op (hops op List.mem_cons_self)
    obtain ⟨e2, hs2⟩ := ih (fun o ho => hops o (List.mem_cons_of_mem _ ho)) hs'
    simp only [runOps]
    rw [e, e2]
    exact ⟨rfl, hs2⟩

end StepI
end Tables
end Algobra
