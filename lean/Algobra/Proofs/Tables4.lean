import Algobra.Proofs.Tables3

namespace Algobra
namespace Tables
namespace B
open BPoly

section ParseB
variable {α : Type} {F F' : FOps α} {V : α → Prop} (hA : OpsAgree F F' V) (hC : Closed F V)
include hA hC

theorem bgo_par (hparse : ∀ str v, F.parse str = .ok v → V v) (v0 v1 : String) :
    ∀ (l : List (Array String)) (out : List (Deg × α)), AllM V out →
      stringToMapRx.go F' v0 v1 l out = stringToMapRx.go F v0 v1 l out ∧
      ∀ m, stringToMapRx.go F v0 v1 l out = .ok m → AllM V m := by
  intro l
  induction l with
  | nil => intro out ho; exact ⟨rfl, fun m h => by cases h; exact ho⟩
  | cons g t ih =>
    intro out ho
    have fin : ∀ (d : Deg) (c : α), V c →
        stringToMapRx.go F' v0 v1 t (UPoly.mapAdd F' out d c) = stringToMapRx.go F v0 v1 t (UPoly.mapAdd F out d c) ∧
        ∀ m, stringToMapRx.go F v0 v1 t (UPoly.mapAdd F out d c) = .ok m → AllM V m := by
      intro d c hc
      obtain ⟨e, hv⟩ := mapAdd_par hA hC ho d hc
      rw [e]; exact ih _ hv
    simp only [stringToMapRx.go, hA.parse, hA.one]
    split
    · exact ⟨rfl, fun m h => by cases h⟩
    · split
      · exact ⟨rfl, fun m h => by cases h⟩
      · split
        · exact ⟨rfl, fun m h => by cases h⟩
        · split
          · exact ⟨rfl, fun m h => by cases h⟩
          · split
            · exact ⟨rfl, fun m h => by cases h⟩
            · split
              · exact ⟨rfl, fun m h => by cases h⟩
              · rename_i h1 h2 ord a0 a1 d0 d1 hord ce c hce e0 x hx e1 y hy
                have hc : V c := by
                  split at hce
                  · cases hce; exact hC.one
                  · split at hce
                    · next v hp => cases hce; exact hparse _ _ hp
                    · cases hce
                split
                · rw [hA.neg _ hc]; exact fin _ _ (hC.neg _ hc)
                · exact fin _ _ hc

theorem bstringToMapRx_par (hparse : ∀ str v, F.parse str = .ok v → V v) {R : BPoly.Ring α}
    (hR : R.F = F) (s : String) :
    stringToMapRx (withFB R F') s = stringToMapRx R s ∧
      ∀ m, stringToMapRx R s = .ok m → AllM V m := by
  have hnil : AllM V ([] : List (Deg × α)) := fun _ h => by cases h
  unfold stringToMapRx withFB
  dsimp only
  rw [hR, hA.regex]
  split
  · exact ⟨rfl, fun m h => by cases h⟩
  · split
    · exact ⟨rfl, fun m h => by cases h⟩
    · split_ifs with ht
      · exact ⟨rfl, fun m h => by cases h⟩
      · exact bgo_par hA hC hparse _ _ _ _ hnil

theorem bstringToMap_par (hparse : ∀ str v, F.parse str = .ok v → V v) {R : BPoly.Ring α}
    (hR : R.F = F) (s : String) :
    stringToMap (withFB R F') s = stringToMap R s ∧
      ∀ m, stringToMap R s = .ok m → AllM V m := by
  have hnil : AllM V ([] : List (Deg × α)) := fun _ h => by cases h
  obtain ⟨e, hv⟩ := bstringToMapRx_par hA hC hparse hR s
  unfold stringToMap directOK
  rw [e]
  have h1 : (withFB R F').F = F' := rfl
  have h2 : (withFB R F').varNames = R.varNames := rfl
  rw [h1, h2, hR, hA.ownVar]
  split_ifs with hd
  · split
    · exact ⟨rfl, fun m h => by cases h⟩
    · exact bgo_par hA hC hparse _ _ _ _ hnil
  · exact ⟨rfl, hv⟩

theorem bparse_par (hparse : ∀ str v, F.parse str = .ok v → V v) {R : BPoly.Ring α}
    (hR : BRingOK F V R) (s : String) :
    BPoly.parse (withFB R F') s = BPoly.parse R s ∧
      ∀ o, BPoly.parse R s = .ok o → OptM V o := by
  unfold BPoly.parse
  obtain ⟨e, hv⟩ := bstringToMap_par hA hC hparse hR.hF s
  rw [e]
  cases hm : stringToMap R s with
  | error k => exact ⟨rfl, fun o h => by cases h⟩
  | ok m =>
    obtain ⟨e2, hv2⟩ := ofMap_par hA hC hR (hv m hm)
    dsimp only
    rw [e2]
    exact ⟨rfl, fun o h => by cases h; exact hv2⟩

end ParseB
end B
end Tables
end Algobra
