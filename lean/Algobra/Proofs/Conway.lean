/-
  Proofs/Conway.lean — kernel-checked soundness lemmas for the executable checkers of
  `Certs/Checker.lean` (property C04, Conway polynomial database).

  Every lemma here is an ordinary proof ("checker = true → mathematical statement"); no
  `native_decide` occurs in this file.  The closed Boolean evaluations `checker … = true` on the
  real database text live in `Certs/TabCheck.lean` and `Certs/SweepNN.lean`.
-/
import Mathlib.RingTheory.AdjoinRoot
import Mathlib.FieldTheory.Finiteness
import Mathlib.GroupTheory.OrderOfElement
import Mathlib.Data.ZMod.Basic
import Mathlib.Algebra.Field.ZMod
import Mathlib.RingTheory.Ideal.Quotient.Basic
import Mathlib.RingTheory.Ideal.Maximal
import Mathlib.NumberTheory.LucasPrimality
import Mathlib.Data.Nat.Prime.Defs
import Mathlib.Data.List.GetD
import Mathlib.Algebra.Polynomial.Degree.Domain
import Mathlib.FieldTheory.Finite.Extension
import Mathlib.RingTheory.Polynomial.UniqueFactorization
import Mathlib.Tactic.Ring
import Mathlib.Tactic.Linarith
import Algobra.Certs.Checker

open Polynomial

namespace Algobra.C04
open Algobra Algobra.C04Check

/-! ## A. shape of the table -/

theorem shapeOK_iff (e : Entry) :
    shapeOK e = true ↔
      2 ≤ e.1 ∧ 1 ≤ e.2.1 ∧ e.2.2.length = e.2.1 + 1 ∧ (∀ c ∈ e.2.2, c < e.1) ∧
        e.2.2.getLast? = some 1 := by
  simp [shapeOK, and_assoc]

theorem keyLt_iff (a b : Entry) :
    keyLt a b = true ↔ a.1 < b.1 ∨ (a.1 = b.1 ∧ a.2.1 < b.2.1) := by
  simp [keyLt]

theorem keyLt_trans {a b c : Entry} (h1 : keyLt a b = true) (h2 : keyLt b c = true) :
    keyLt a c = true := by
  rw [keyLt_iff] at *; omega

theorem sortedKeys_pairwise : ∀ l : List Entry, sortedKeys l = true →
    l.Pairwise (fun a b => keyLt a b = true)
  | [], _ => List.Pairwise.nil
  | [a], _ => List.pairwise_singleton _ _
  | a :: b :: t, h => by
    simp only [sortedKeys, Bool.and_eq_true] at h
    have ih := sortedKeys_pairwise (b :: t) h.2
    refine List.Pairwise.cons ?_ ih
    intro x hx
    rcases List.mem_cons.mp hx with rfl | hx
    · exact h.1
    · exact keyLt_trans h.1 (List.rel_of_pairwise_cons ih hx)

/-- in a list whose keys are strictly increasing, the key determines the entry -/
theorem key_unique {l : List Entry} (h : sortedKeys l = true) :
    ∀ x ∈ l, ∀ y ∈ l, x.1 = y.1 → x.2.1 = y.2.1 → x = y := by
  have hp := sortedKeys_pairwise l h
  have hp' : l.Pairwise (fun a b : Entry => a.1 = b.1 → a.2.1 = b.2.1 → a = b) := by
    refine hp.imp ?_
    intro a b hab h1 h2
    rw [keyLt_iff] at hab; omega
  have hp'' : l.Pairwise (flip fun a b : Entry => a.1 = b.1 → a.2.1 = b.2.1 → a = b) := by
    refine hp.imp ?_
    intro a b hab h1 h2
    rw [keyLt_iff] at hab; omega
  intro x hx y hy
  exact List.Pairwise.forall_of_forall_of_flip (fun x _ _ _ => rfl) hp' hp'' hx hy

theorem dbShapeOK_iff (l : List Entry) (len : Nat) :
    dbShapeOK l len = true ↔ l.length = len ∧ (∀ e ∈ l, shapeOK e = true) ∧ sortedKeys l = true := by
  simp [dbShapeOK, and_assoc]

/-! ## trial division -/

theorem tdLoop_sound (n : ℕ) : ∀ fuel d, tdLoop n d fuel = true →
    ∀ m, d ≤ m → m * m ≤ n → ¬ m ∣ n := by
  intro fuel
  induction fuel with
  | zero => intro d h; simp [tdLoop] at h
  | succ fuel ih =>
    intro d h m hdm hmn
    rw [tdLoop] at h
    split at h
    · rename_i hlt
      have : d * d ≤ m * m := Nat.mul_le_mul hdm hdm
      omega
    · split at h
      · simp at h
      · rename_i hmod
        rcases Nat.eq_or_lt_of_le hdm with rfl | hlt
        · intro hdvd
          apply hmod
          simp [Nat.mod_eq_zero_of_dvd hdvd]
        · exact ih (d + 1) h m hlt hmn

theorem isPrimeTD_sound {n : ℕ} (h : isPrimeTD n = true) : n.Prime := by
  simp only [isPrimeTD, Bool.and_eq_true, decide_eq_true_eq] at h
  rw [Nat.prime_def_le_sqrt]
  refine ⟨h.1, fun m hm hms => ?_⟩
  exact tdLoop_sound n n 2 h.2 m hm (Nat.le_sqrt.mp hms)

/-! ## modular exponentiation on `ℕ` -/

theorem powMod_eq (a m : ℕ) : ∀ e, powMod a e m = a ^ e % m := by
  intro e
  induction e using Nat.strong_induction_on with
  | _ e ih =>
    rw [powMod]
    split
    · rename_i h; subst h; simp
    · rename_i h
      have ih2 := ih (e / 2) (by omega)
      simp only [ih2]
      have he : e = e / 2 + e / 2 + e % 2 := by omega
      split
      · rename_i h1
        conv_rhs => rw [he, h1, pow_add, pow_add, pow_one]
        conv_rhs => rw [Nat.mul_mod, Nat.mul_mod (a ^ (e / 2)) (a ^ (e / 2))]
        conv_lhs => rw [Nat.mul_mod, Nat.mod_mod]
      · rename_i h1
        have h0 : e % 2 = 0 := by omega
        conv_rhs => rw [he, h0, pow_add, pow_add, pow_zero, mul_one]
        rw [← Nat.mul_mod]

theorem powMod_eq_one_iff {a e q : ℕ} (hq : 2 ≤ q) :
    powMod a e q = 1 ↔ ((a : ZMod q)) ^ e = 1 := by
  rw [powMod_eq]
  have h1 : (1 : ZMod q) = ((1 : ℕ) : ZMod q) := by simp
  rw [h1, ← Nat.cast_pow, ZMod.natCast_eq_natCast_iff', Nat.mod_eq_of_lt (show 1 < q by omega)]

/-! ## products of prime powers -/

theorem prime_dvd_prodPows {q : ℕ → ℕ} {fs : List (ℕ × ℕ)} (hq : ∀ jk ∈ fs, (q jk.1).Prime)
    {r : ℕ} (hr : r.Prime) (h : r ∣ prodPows q fs) : ∃ jk ∈ fs, r = q jk.1 := by
  induction fs with
  | nil => simp [prodPows] at h; exact absurd h hr.ne_one
  | cons jk t ih =>
    rw [prodPows] at h
    rcases (Nat.Prime.dvd_mul hr).mp h with h1 | h2
    · have := hr.dvd_of_dvd_pow h1
      rw [Nat.prime_dvd_prime_iff_eq hr (hq jk (List.mem_cons_self ..))] at this
      exact ⟨jk, List.mem_cons_self .., this⟩
    · obtain ⟨jk', hm, he⟩ := ih (fun x hx => hq x (List.mem_cons_of_mem _ hx)) h2
      exact ⟨jk', List.mem_cons_of_mem _ hm, he⟩

/-! ## the prime table -/

theorem primeAt_eq {tab : Array PLine} {i : ℕ} {l : PLine} (h : tab[i]? = some l) :
    primeAt tab i = l.1 := by
  simp [primeAt, h]

theorem tabOK_sound (tab : Array PLine) (h : tabOK tab = true) :
    ∀ i, i < tab.size → (primeAt tab i).Prime := by
  intro i
  induction i using Nat.strong_induction_on with
  | _ i ih =>
    intro hi
    have hl : lineOK tab i = true := by
      simp only [tabOK, List.all_eq_true, List.mem_range] at h
      exact h i hi
    have hsome : tab[i]? = some tab[i] := Array.getElem?_eq_getElem hi
    rw [primeAt_eq hsome]
    simp only [lineOK, hsome] at hl
    split at hl
    · exact isPrimeTD_sound hl
    · simp only [Bool.and_eq_true, decide_eq_true_eq, beq_iff_eq, List.all_eq_true, bne_iff_ne,
        ne_eq] at hl
      obtain ⟨⟨⟨hq2, hpow⟩, hprod⟩, hall⟩ := hl
      have hprime : ∀ jk ∈ tab[i].2.2, (primeAt tab jk.1).Prime := by
        intro jk hjk
        have := (hall jk hjk).1
        exact ih jk.1 this (by omega)
      refine lucas_primality _ (tab[i].2.1 : ZMod tab[i].1) ((powMod_eq_one_iff hq2).mp hpow) ?_
      intro r hr hdvd
      rw [← hprod] at hdvd
      obtain ⟨jk, hjk, rfl⟩ := prime_dvd_prodPows hprime hr hdvd
      intro hc
      exact (hall jk hjk).2 ((powMod_eq_one_iff hq2).mpr hc)

/-! ## evaluation of coefficient lists in a commutative ring in which `p = 0` -/
section Ev
variable {R : Type*} [CommRing R]

/-- value of a coefficient list (constant term first) at `α` -/
def ev (α : R) : List ℕ → R
  | [] => 0
  | c :: l => (c : R) + α * ev α l

variable {p : ℕ} {α : R}

theorem cast_mod_eq (hp : (p : R) = 0) (x : ℕ) : ((x % p : ℕ) : R) = (x : R) := by
  conv_rhs => rw [← Nat.div_add_mod x p]
  push_cast
  rw [hp]; ring

theorem ev_append (l1 l2 : List ℕ) :
    ev α (l1 ++ l2) = ev α l1 + α ^ l1.length * ev α l2 := by
  induction l1 with
  | nil => simp [ev]
  | cons c l ih => simp only [List.cons_append, ev, ih, List.length_cons, pow_succ]; ring

theorem ev_addL (hp : (p : R) = 0) : ∀ a b : List ℕ, ev α (addL p a b) = ev α a + ev α b
  | [], b => by simp [addL, ev]
  | x :: a, [] => by simp [addL, ev]
  | x :: a, y :: b => by
    simp only [addL, ev, cast_mod_eq hp, ev_addL hp a b]; push_cast; ring

theorem scaleL_cons (c x : ℕ) (a : List ℕ) :
    scaleL p c (x :: a) = (c * x % p) :: scaleL p c a := rfl

theorem ev_scaleL (hp : (p : R) = 0) (c : ℕ) (a : List ℕ) :
    ev α (scaleL p c a) = c * ev α a := by
  induction a with
  | nil => simp [scaleL, ev]
  | cons x a ih => simp only [scaleL_cons, ev, cast_mod_eq hp, ih]; push_cast; ring

theorem ev_replicate_zero (n : ℕ) : ev α (List.replicate n 0) = 0 := by
  induction n with
  | zero => simp [ev]
  | succ n ih => simp [List.replicate_succ, ev, ih]

theorem ev_oneL (n : ℕ) : ev α (oneL n) = 1 := by simp [oneL, ev, ev_replicate_zero]

theorem length_addL : ∀ a b : List ℕ, (addL p a b).length = max a.length b.length
  | [], b => by simp [addL]
  | x :: a, [] => by simp [addL]
  | x :: a, y :: b => by simp [addL, length_addL a b]

theorem length_scaleL (c : ℕ) (a : List ℕ) : (scaleL p c a).length = a.length := by
  simp [scaleL]

theorem length_oneL {n : ℕ} (hn : 1 ≤ n) : (oneL n).length = n := by
  simp [oneL]; omega

theorem eq_take_append_getD (s : List ℕ) (n : ℕ) (h : s.length = n + 1) :
    s = s.take n ++ [s.getD n 0] := by
  have h1 : s.drop n = [s.getD n 0] := by
    rw [List.drop_eq_getElem_cons (by omega : n < s.length)]
    rw [List.drop_of_length_le (by omega)]
    simp [List.getD_eq_getElem?_getD, List.getElem?_eq_getElem (by omega : n < s.length)]
  conv_lhs => rw [← List.take_append_drop n s, h1]

theorem ev_mulX (hp : (p : R) = 0) {n : ℕ} {negf a : List ℕ} (hrel : α ^ n = ev α negf)
    (ha : a.length = n) : ev α (mulX p n negf a) = α * ev α a := by
  have hs : (0 :: a).length = n + 1 := by simp [ha]
  have h1 := eq_take_append_getD (0 :: a) n hs
  have h2 : ev α (0 :: a) = α * ev α a := by simp [ev]
  have hlen : ((0 :: a).take n).length = n := by rw [List.length_take, hs]; omega
  have h3 : ev α (0 :: a) =
      ev α ((0 :: a).take n) + α ^ n * (((0 :: a).getD n 0 : ℕ) : R) := by
    conv_lhs => rw [h1, ev_append, hlen]
    simp [ev]
  simp only [mulX]
  rw [ev_addL hp, ev_scaleL hp, ← hrel, ← h2, h3]; ring

theorem length_mulX {n : ℕ} {negf a : List ℕ} (hnf : negf.length = n) (ha : a.length = n) :
    (mulX p n negf a).length = n := by
  simp only [mulX, length_addL, length_scaleL, hnf, List.length_take, List.length_cons, ha]
  omega

theorem length_mulL {n : ℕ} {negf : List ℕ} (hnf : negf.length = n) :
    ∀ a b : List ℕ, b.length = n → (mulL p n negf a b).length = n
  | [], b, _ => by simp [mulL]
  | x :: a, b, hb => by
    simp only [mulL, length_addL, length_scaleL, hb,
      length_mulX hnf (length_mulL hnf a b hb), max_self]

theorem ev_mulL (hp : (p : R) = 0) {n : ℕ} {negf : List ℕ} (hrel : α ^ n = ev α negf)
    (hnf : negf.length = n) :
    ∀ a b : List ℕ, b.length = n → ev α (mulL p n negf a b) = ev α a * ev α b
  | [], b, _ => by simp [mulL, ev, ev_replicate_zero]
  | x :: a, b, hb => by
    rw [mulL, ev_addL hp, ev_scaleL hp, ev_mulX hp hrel (length_mulL hnf a b hb),
      ev_mulL hp hrel hnf a b hb]
    simp only [ev]; ring

theorem powX_spec (hp : (p : R) = 0) {n : ℕ} {negf : List ℕ} (hn : 1 ≤ n)
    (hrel : α ^ n = ev α negf) (hnf : negf.length = n) :
    ∀ e, (powX p n negf e).length = n ∧ ev α (powX p n negf e) = α ^ e := by
  intro e
  induction e using Nat.strong_induction_on with
  | _ e ih =>
    rw [powX]
    split
    · rename_i h; subst h
      exact ⟨length_oneL hn, by simp [ev_oneL]⟩
    · rename_i h
      obtain ⟨hl, hv⟩ := ih (e / 2) (by omega)
      have hl2 := fun a => length_mulL (p := p) hnf a _ hl
      have hv2 := fun a => ev_mulL hp hrel hnf a _ hl
      have he : e = e / 2 + e / 2 + e % 2 := by omega
      simp only
      split
      · rename_i h1
        refine ⟨length_mulX hnf (hl2 _), ?_⟩
        rw [ev_mulX hp hrel (hl2 _), hv2, hv]
        conv_rhs => rw [he, h1, pow_add, pow_add, pow_one]
        ring
      · rename_i h1
        have h0 : e % 2 = 0 := by omega
        refine ⟨hl2 _, ?_⟩
        rw [hv2, hv]
        conv_rhs => rw [he, h0, pow_add, pow_add, pow_zero, mul_one]

theorem ev_eq_zero_of_all (hp : (p : R) = 0) :
    ∀ t : List ℕ, t.all (fun x => x % p == 0) = true → ev α t = 0
  | [], _ => rfl
  | x :: t, h => by
    simp only [List.all_cons, Bool.and_eq_true, beq_iff_eq] at h
    rw [ev, ev_eq_zero_of_all hp t h.2, ← cast_mod_eq hp x, h.1]; simp

theorem ev_of_isOneL (hp : (p : R) = 0) : ∀ l : List ℕ, isOneL p l = true → ev α l = 1
  | [], h => by simp [isOneL] at h
  | c :: t, h => by
    simp only [isOneL, Bool.and_eq_true, beq_iff_eq] at h
    rw [ev, ev_eq_zero_of_all hp t h.2, ← cast_mod_eq hp c, h.1]; simp

/-- negated lower part -/
theorem ev_negf (hp : (p : R) = 0) (hp0 : 0 < p) (l : List ℕ) :
    ev α (l.map (fun c => (p - c % p) % p)) = - ev α l := by
  induction l with
  | nil => simp [ev]
  | cons c l ih =>
    simp only [List.map_cons, ev, ih, cast_mod_eq hp]
    rw [Nat.cast_sub (Nat.mod_lt c hp0).le, cast_mod_eq hp, hp]; ring

theorem powL_spec (hp : (p : R) = 0) {n : ℕ} {negf : List ℕ} (hn : 1 ≤ n)
    (hrel : α ^ n = ev α negf) (hnf : negf.length = n) {a : List ℕ} (ha : a.length = n) :
    ∀ e, (powL p n negf a e).length = n ∧ ev α (powL p n negf a e) = ev α a ^ e := by
  intro e
  induction e using Nat.strong_induction_on with
  | _ e ih =>
    rw [powL]
    split
    · rename_i h; subst h
      exact ⟨length_oneL hn, by simp [ev_oneL]⟩
    · split
      · rename_i h1; subst h1
        exact ⟨ha, by simp⟩
      · rename_i h h1
        obtain ⟨hl, hv⟩ := ih (e / 2) (by omega)
        have hl2 := fun a => length_mulL (p := p) hnf a _ hl
        have hv2 := fun a => ev_mulL hp hrel hnf a _ hl
        have he : e = e / 2 + e / 2 + e % 2 := by omega
        simp only
        split
        · rename_i h2
          refine ⟨length_mulL hnf _ _ ha, ?_⟩
          rw [ev_mulL hp hrel hnf _ _ ha, hv2, hv]
          conv_rhs => rw [he, h2, pow_add, pow_add, pow_one]
        · rename_i h2
          have h0 : e % 2 = 0 := by omega
          refine ⟨hl2 _, ?_⟩
          rw [hv2, hv]
          conv_rhs => rw [he, h0, pow_add, pow_add, pow_zero, mul_one]

theorem length_xL {n : ℕ} (hn : 2 ≤ n) : (xL n).length = n := by
  simp [xL]; omega

theorem ev_xL (n : ℕ) : ev α (xL n) = α := by simp [xL, ev, ev_replicate_zero]

theorem length_negxL {n : ℕ} (hn : 2 ≤ n) : (negxL p n).length = n := by
  simp [negxL]; omega

theorem ev_negxL (hp : (p : R) = 0) (hp0 : 0 < p) (n : ℕ) : ev α (negxL p n) = -α := by
  simp only [negxL, ev, ev_replicate_zero]
  rw [Nat.cast_sub hp0, hp]; simp

theorem ev_of_isZeroL (hp : (p : R) = 0) (l : List ℕ) (h : isZeroL p l = true) : ev α l = 0 :=
  ev_eq_zero_of_all hp l h

theorem frob_spec (hp : (p : R) = 0) {n : ℕ} {negf : List ℕ} (hn : 2 ≤ n)
    (hrel : α ^ n = ev α negf) (hnf : negf.length = n) :
    ∀ k, ((fun y => powL p n negf y p)^[k] (xL n)).length = n ∧
      ev α ((fun y => powL p n negf y p)^[k] (xL n)) = α ^ p ^ k := by
  intro k
  induction k with
  | zero => exact ⟨length_xL hn, by simp [ev_xL]⟩
  | succ k ih =>
    rw [Function.iterate_succ_apply']
    obtain ⟨h1, h2⟩ := powL_spec hp (by omega) hrel hnf ih.1 p
    exact ⟨h1, by rw [h2, ih.2, ← pow_mul, ← pow_succ]⟩

end Ev

/-! ## the polynomial of a coefficient list -/

/-- `c0 + c1·X + c2·X² + …` over `ZMod p` for the coefficient list `[c0, c1, c2, …]` -/
noncomputable def toPolyZMod (p : ℕ) : List ℕ → (ZMod p)[X]
  | [] => 0
  | c :: l => C (c : ZMod p) + X * toPolyZMod p l

theorem coeff_toPolyZMod (p : ℕ) : ∀ (l : List ℕ) (i : ℕ),
    (toPolyZMod p l).coeff i = ((l.getD i 0 : ℕ) : ZMod p)
  | [], i => by simp [toPolyZMod]
  | c :: l, 0 => by simp [toPolyZMod]
  | c :: l, i + 1 => by simp [toPolyZMod, coeff_toPolyZMod p l i]

theorem degree_toPolyZMod_lt (p : ℕ) (l : List ℕ) : (toPolyZMod p l).degree < l.length := by
  rw [degree_lt_iff_coeff_zero]
  intro m hm
  rw [coeff_toPolyZMod, List.getD_eq_default _ _ hm]; simp

theorem getD_of_getLast? {cs : List ℕ} {n : ℕ} (hlen : cs.length = n + 1)
    (hlast : cs.getLast? = some 1) : cs.getD n 0 = 1 := by
  rw [List.getLast?_eq_getElem?, hlen] at hlast
  simp only [Nat.add_sub_cancel] at hlast
  simp [List.getD_eq_getElem?_getD, hlast]

theorem ev_eq_take_add {R : Type*} [CommRing R] (α : R) {cs : List ℕ} {n : ℕ}
    (hlen : cs.length = n + 1) (hlast : cs.getLast? = some 1) :
    ev α cs = ev α (cs.take n) + α ^ n := by
  have h1 := eq_take_append_getD cs n hlen
  have hlt : (cs.take n).length = n := by rw [List.length_take, hlen]; omega
  conv_lhs => rw [h1, ev_append, hlt, getD_of_getLast? hlen hlast]
  simp [ev]

theorem toPolyZMod_monic_natDegree {p n : ℕ} [Fact p.Prime] {cs : List ℕ}
    (hlen : cs.length = n + 1) (hlast : cs.getLast? = some 1) :
    (toPolyZMod p cs).Monic ∧ (toPolyZMod p cs).natDegree = n := by
  have hc : (toPolyZMod p cs).coeff n = 1 := by
    rw [coeff_toPolyZMod, getD_of_getLast? hlen hlast]; simp
  have hle : (toPolyZMod p cs).natDegree ≤ n := by
    rw [natDegree_le_iff_coeff_eq_zero]
    intro N hN
    rw [coeff_toPolyZMod, List.getD_eq_default _ _ (by omega)]; simp
  exact ⟨monic_of_natDegree_le_of_coeff_eq_one n hle hc,
    natDegree_eq_of_le_of_coeff_ne_zero hle (by rw [hc]; exact one_ne_zero)⟩

theorem ev_root_eq_mk {p : ℕ} (f : (ZMod p)[X]) (l : List ℕ) :
    ev (AdjoinRoot.root f) l = AdjoinRoot.mk f (toPolyZMod p l) := by
  induction l with
  | nil => simp [ev, toPolyZMod]
  | cons c l ih =>
    simp only [ev, toPolyZMod, ih, map_add, map_mul, AdjoinRoot.mk_X, AdjoinRoot.mk_C]
    congr 1

theorem natCast_self_adjoinRoot {p : ℕ} (f : (ZMod p)[X]) : ((p : ℕ) : AdjoinRoot f) = 0 := by
  rw [← map_natCast (AdjoinRoot.of f) p, ZMod.natCast_self, map_zero]

/-- a residue (given by a list of length `deg f`) that equals `1` in `F_p[x]/(f)` has the
    coefficients of `1` modulo `p` -/
theorem isOneL_of_ev_eq_one {p n : ℕ} [Fact p.Prime] {f : (ZMod p)[X]} (hf : f.Monic)
    (hdeg : f.natDegree = n) (hn : 1 ≤ n) {l : List ℕ} (hl : l.length = n)
    (h : ev (AdjoinRoot.root f) l = 1) : isOneL p l = true := by
  have hp1 : 1 < p := (Fact.out : p.Prime).one_lt
  rw [ev_root_eq_mk, ← map_one (AdjoinRoot.mk f), AdjoinRoot.mk_eq_mk] at h
  have hdf : f.degree = n := by rw [degree_eq_natDegree hf.ne_zero, hdeg]
  have hlt : (toPolyZMod p l - 1).degree < f.degree := by
    refine (degree_sub_le _ _).trans_lt (max_lt ?_ ?_)
    · rw [hdf, ← hl]; exact degree_toPolyZMod_lt p l
    · rw [hdf, degree_one]; exact_mod_cast hn
  have h1 : toPolyZMod p l = 1 := sub_eq_zero.mp (eq_zero_of_dvd_of_degree_lt h hlt)
  have hco : ∀ i, ((l.getD i 0 : ℕ) : ZMod p) = if i = 0 then 1 else 0 := by
    intro i; rw [← coeff_toPolyZMod, h1, coeff_one]
  match l, hl with
  | [], hl => simp at hl; omega
  | c :: t, _ =>
    simp only [isOneL, Bool.and_eq_true, beq_iff_eq, List.all_eq_true]
    constructor
    · have := hco 0
      simp only [List.getD_cons_zero, if_true] at this
      have h2 : ((c : ℕ) : ZMod p) = ((1 : ℕ) : ZMod p) := by simpa using this
      rw [ZMod.natCast_eq_natCast_iff', Nat.mod_eq_of_lt hp1] at h2
      exact h2
    · intro x hx
      obtain ⟨i, hi, rfl⟩ := List.mem_iff_getElem.mp hx
      have := hco (i + 1)
      simp only [List.getD_cons_succ, Nat.succ_ne_zero, if_false] at this
      rw [List.getD_eq_getElem?_getD, List.getElem?_eq_getElem hi, Option.getD_some,
        ZMod.natCast_eq_zero_iff] at this
      exact Nat.mod_eq_zero_of_dvd this

/-- the defining relation `x^n = -(lower part)` in `F_p[X]/(f)` -/
theorem root_pow_eq {p n : ℕ} {cs : List ℕ} (hp : p.Prime) (hlen : cs.length = n + 1)
    (hlast : cs.getLast? = some 1) :
    AdjoinRoot.root (toPolyZMod p cs) ^ n =
      ev (AdjoinRoot.root (toPolyZMod p cs)) (negfOf p n cs) := by
  have hp0 := natCast_self_adjoinRoot (toPolyZMod p cs)
  have h3 : ev (AdjoinRoot.root (toPolyZMod p cs)) cs = 0 := by
    rw [ev_root_eq_mk, AdjoinRoot.mk_self]
  rw [ev_eq_take_add _ hlen hlast] at h3
  rw [negfOf, ev_negf hp0 hp.pos]
  linear_combination h3

/-- **soundness of the primitivity check** -/
theorem primitiveOK_sound (tab : Array PLine)
    (htab : ∀ i, i < tab.size → (primeAt tab i).Prime)
    (e : Entry) (cert : List (ℕ × ℕ)) (hs : shapeOK e = true) (hp : e.1.Prime)
    (h : primitiveOK tab e cert = true) :
    orderOf (AdjoinRoot.root (toPolyZMod e.1 e.2.2)) = e.1 ^ e.2.1 - 1 := by
  obtain ⟨p, n, cs⟩ := e
  simp only at hs hp h ⊢
  have := Fact.mk hp
  obtain ⟨hp2, hn1, hlen, -, hlast⟩ := (shapeOK_iff _).mp hs
  simp only at hp2 hn1 hlen hlast
  obtain ⟨hmonic, hdeg⟩ := toPolyZMod_monic_natDegree (p := p) hlen hlast
  have hp0 := natCast_self_adjoinRoot (toPolyZMod p cs)
  have hnf : (negfOf p n cs).length = n := by
    simp only [negfOf, List.length_map, List.length_take, hlen]; omega
  have hrel := root_pow_eq hp hlen hlast
  have hspec := powX_spec hp0 hn1 hrel hnf
  simp only [primitiveOK, Bool.and_eq_true, beq_iff_eq, List.all_eq_true, decide_eq_true_eq,
    Bool.not_eq_true'] at h
  obtain ⟨⟨hprod, hone⟩, hall⟩ := h
  apply orderOf_eq_of_pow_and_pow_div_prime
  · have : 2 ^ 1 ≤ p ^ n := (Nat.pow_le_pow_left hp2 1).trans (Nat.pow_le_pow_right hp.pos hn1)
    omega
  · rw [← (hspec _).2]; exact ev_of_isOneL hp0 _ hone
  · intro r hr hdvd
    rw [← hprod] at hdvd
    obtain ⟨jk, hjk, rfl⟩ :=
      prime_dvd_prodPows (fun jk hjk => htab _ (hall jk hjk).1) hr hdvd
    intro hc
    rw [← (hspec _).2] at hc
    have := isOneL_of_ev_eq_one hmonic hdeg hn1 (hspec _).1 hc
    rw [(hall jk hjk).2] at this
    exact Bool.false_ne_true this

/-! ## D. Rabin's test -/

theorem iterList_getElem? (step : List ℕ → List ℕ) :
    ∀ (k : ℕ) (y : List ℕ) (i : ℕ), i ≤ k → (iterList step k y)[i]? = some (step^[i] y)
  | 0, y, 0, _ => rfl
  | 0, y, i + 1, h => by omega
  | k + 1, y, 0, _ => rfl
  | k + 1, y, i + 1, h => by
    simp [iterList, iterList_getElem? step k (step y) i (by omega)]

theorem isPrimeNaive_complete {r : ℕ} (hr : r.Prime) : isPrimeNaive r = true := by
  simp only [isPrimeNaive, Bool.and_eq_true, decide_eq_true_eq, List.all_eq_true, List.mem_range,
    Bool.or_eq_true, bne_iff_ne, ne_eq]
  refine ⟨hr.two_le, fun s hs => ?_⟩
  by_cases h2 : s < 2
  · exact Or.inl h2
  · right
    intro hmod
    rcases (Nat.dvd_prime hr).mp (Nat.dvd_of_mod_eq_zero hmod) with h | h <;> omega

/-- Rabin's irreducibility criterion over `ZMod p` -/
theorem rabin_irreducible {p n : ℕ} [Fact p.Prime] (f : (ZMod p)[X])
    (hdeg : f.natDegree = n) (hn : 1 ≤ n)
    (h1 : f ∣ X ^ p ^ n - X)
    (h2 : ∀ r, r.Prime → r ∣ n → IsCoprime f (X ^ p ^ (n / r) - X)) : Irreducible f := by
  have hf0 : f ≠ 0 := by intro h; rw [h] at hdeg; simp at hdeg; omega
  obtain ⟨g, hg, hgf⟩ := exists_irreducible_of_natDegree_pos (f := f) (by omega)
  have hcard : Nat.card (ZMod p) = p := Nat.card_zmod p
  have hd : g.natDegree ∣ n := by
    rw [hg.natDegree_dvd_iff_dvd_X_pow_card_pow_sub_X, hcard]
    exact dvd_trans hgf h1
  obtain ⟨m, hm⟩ := hd
  have hgpos : 0 < g.natDegree := hg.natDegree_pos
  by_cases hm1 : m = 1
  · obtain ⟨h, rfl⟩ := hgf
    have hh0 : h ≠ 0 := right_ne_zero_of_mul hf0
    have hg0 : g ≠ 0 := hg.ne_zero
    rw [natDegree_mul hg0 hh0, hm, hm1, mul_one] at hdeg
    have hh : h.natDegree = 0 := by omega
    have hu : IsUnit h := by
      rw [eq_C_of_natDegree_eq_zero hh] at hh0 ⊢
      exact isUnit_C.mpr (isUnit_iff_ne_zero.mpr (by simpa using hh0))
    exact (irreducible_mul_isUnit hu).mpr hg
  · exfalso
    have hm0 : m ≠ 0 := by rintro rfl; omega
    obtain ⟨r, hr, hrm⟩ := Nat.exists_prime_and_dvd hm1
    obtain ⟨m', rfl⟩ := hrm
    have hrn : r ∣ n := ⟨g.natDegree * m', by rw [hm]; ring⟩
    have hnr : n / r = g.natDegree * m' := by
      rw [hm, show g.natDegree * (r * m') = r * (g.natDegree * m') by ring,
        Nat.mul_div_cancel_left _ hr.pos]
    have hdvd : g ∣ X ^ p ^ (n / r) - X := by
      have := (hg.natDegree_dvd_iff_dvd_X_pow_card_pow_sub_X (n := n / r)).mp ⟨m', hnr⟩
      rwa [hcard] at this
    have := (h2 r hr hrn).isUnit_of_dvd' hgf hdvd
    exact hg.not_isUnit this

/-- **soundness of the Rabin check** -/
theorem rabinOK_sound (e : Entry) (cert : List (ℕ × List ℕ)) (hs : shapeOK e = true)
    (hp : e.1.Prime) (h : rabinOK e cert = true) : Irreducible (toPolyZMod e.1 e.2.2) := by
  obtain ⟨p, n, cs⟩ := e
  simp only at hs hp h ⊢
  have := Fact.mk hp
  obtain ⟨hp2, hn1, hlen, -, hlast⟩ := (shapeOK_iff _).mp hs
  simp only at hp2 hn1 hlen hlast
  obtain ⟨hmonic, hdeg⟩ := toPolyZMod_monic_natDegree (p := p) hlen hlast
  have hp0 := natCast_self_adjoinRoot (toPolyZMod p cs)
  have hnf : (negfOf p n cs).length = n := by
    simp only [negfOf, List.length_map, List.length_take, hlen]; omega
  have hrel := root_pow_eq hp hlen hlast
  have hfr : ∀ i, i ≤ n →
      (iterList (fun y => powL p n (negfOf p n cs) y p) n (xL n)).toArray[i]? =
        some ((fun y => powL p n (negfOf p n cs) y p)^[i] (xL n)) := by
    intro i hi
    rw [List.getElem?_toArray, iterList_getElem? _ _ _ _ hi]
  simp only [rabinOK, Bool.and_eq_true, decide_eq_true_eq, hfr n le_rfl, List.all_eq_true,
    List.mem_range] at h
  obtain ⟨⟨hn2, hfrob⟩, hall⟩ := h
  have hspec := frob_spec hp0 hn2 hrel hnf
  have hmk : ∀ k, AdjoinRoot.mk (toPolyZMod p cs) (X ^ p ^ k - X) =
      AdjoinRoot.root (toPolyZMod p cs) ^ p ^ k - AdjoinRoot.root (toPolyZMod p cs) := by
    intro k; rw [map_sub, map_pow, AdjoinRoot.mk_X]
  apply rabin_irreducible _ hdeg hn1
  · rw [← AdjoinRoot.mk_eq_zero, hmk, ← (hspec n).2]
    have := ev_of_isZeroL (α := AdjoinRoot.root (toPolyZMod p cs)) hp0 _ hfrob
    rw [ev_addL hp0, ev_negxL hp0 hp.pos] at this
    linear_combination this
  · intro r hr hrn
    have hrle : r ≤ n := Nat.le_of_dvd (by omega) hrn
    have h1 := hall r (by omega)
    rw [isPrimeNaive_complete hr, Nat.mod_eq_zero_of_dvd hrn] at h1
    simp only [beq_self_eq_true, Bool.and_self, Bool.not_true, Bool.false_or,
      hfr (n / r) (Nat.div_le_self n r)] at h1
    cases hc : cert.lookup r with
    | none => simp [hc] at h1
    | some v =>
      simp only [hc] at h1
      have h3 := ev_of_isOneL (α := AdjoinRoot.root (toPolyZMod p cs)) hp0 _ h1
      have hlen2 : (addL p ((fun y => powL p n (negfOf p n cs) y p)^[n / r] (xL n))
          (negxL p n)).length = n := by
        rw [length_addL, (hspec (n / r)).1, length_negxL hn2, max_self]
      rw [ev_mulL hp0 hrel hnf _ _ hlen2, ev_addL hp0, ev_negxL hp0 hp.pos, (hspec (n / r)).2,
        ← sub_eq_add_neg, ← hmk, ev_root_eq_mk, ← map_mul,
        ← map_one (AdjoinRoot.mk (toPolyZMod p cs)), AdjoinRoot.mk_eq_mk] at h3
      obtain ⟨w, hw⟩ := h3
      exact ⟨-w, toPolyZMod p v, by linear_combination hw⟩

/-! ## a root of multiplicative order `p^n - 1` forces irreducibility -/

theorem primitive_imp_irreducible {p : ℕ} [Fact p.Prime] (f : (ZMod p)[X]) (hf : f.Monic)
    (hn : 0 < f.natDegree)
    (h : orderOf (AdjoinRoot.root f) = p ^ f.natDegree - 1) : Irreducible f := by
  classical
  set R := AdjoinRoot f with hR
  have hdeg : f.degree ≠ 0 := by
    rw [degree_eq_natDegree hf.ne_zero]; exact_mod_cast hn.ne'
  have : Nontrivial R := AdjoinRoot.nontrivial f hdeg
  let pb := AdjoinRoot.powerBasis' hf
  have : Module.Finite (ZMod p) R := pb.finite
  have : Finite R := Module.finite_of_finite (ZMod p)
  have : Fintype R := Fintype.ofFinite R
  have hcard : Fintype.card R = p ^ f.natDegree := by
    rw [Module.card_eq_pow_finrank (K := ZMod p) (V := R), ZMod.card, pb.finrank]
    rfl
  have hp2 : 2 ≤ p ^ f.natDegree := by
    calc 2 ≤ p := (Fact.out : p.Prime).two_le
      _ = p ^ 1 := (pow_one p).symm
      _ ≤ p ^ f.natDegree := Nat.pow_le_pow_right (Fact.out : p.Prime).pos hn
  set x := AdjoinRoot.root f with hx
  set N := p ^ f.natDegree - 1 with hN
  have hNpos : 0 < N := by omega
  have hfin : IsOfFinOrder x := by rw [← orderOf_pos_iff, h]; exact hNpos
  have hxu : IsUnit x := hfin.isUnit
  let S : Finset R := (Finset.range N).image (fun i => x ^ i)
  have hScard : S.card = N := by
    rw [Finset.card_image_of_injOn, Finset.card_range]
    intro i hi j hj hij
    have hi' : i ∈ Set.Iio (orderOf x) := by simpa [h] using hi
    have hj' : j ∈ Set.Iio (orderOf x) := by simpa [h] using hj
    exact pow_injOn_Iio_orderOf hi' hj' hij
  have hSunit : ∀ a ∈ S, IsUnit a := by
    intro a ha
    obtain ⟨i, -, rfl⟩ := Finset.mem_image.mp ha
    exact hxu.pow i
  let T : Finset R := Finset.univ.filter (fun a => a ≠ 0)
  have hTcard : T.card = N := by
    have : T = Finset.univ.erase 0 := by ext a; simp [T]
    rw [this, Finset.card_erase_of_mem (Finset.mem_univ _), Finset.card_univ, hcard]
  have hST : S ⊆ T := by
    intro a ha
    simp only [T, Finset.mem_filter, Finset.mem_univ, true_and]
    exact (hSunit a ha).ne_zero
  have hEq : S = T := Finset.eq_of_subset_of_card_le hST (by rw [hScard, hTcard])
  have hunits : ∀ a : R, a ≠ 0 → IsUnit a := by
    intro a ha
    apply hSunit
    rw [hEq]; simp [T, ha]
  have hfield : IsField R :=
    { exists_pair_ne := ⟨0, 1, zero_ne_one⟩
      mul_comm := mul_comm
      mul_inv_cancel := fun {a} ha => by
        obtain ⟨u, rfl⟩ := hunits a ha
        exact ⟨↑u⁻¹, by simp⟩ }
  have hmax : (Ideal.span {f} : Ideal (ZMod p)[X]).IsMaximal :=
    Ideal.Quotient.maximal_of_isField _ hfield
  have hprime : Prime f := (Ideal.span_singleton_prime hf.ne_zero).mp hmax.isPrime
  exact hprime.irreducible

/-! ## the per-entry check and the sweep -/

/-- what the checker establishes for one entry `(p, n, cs)` -/
def EntryGood (e : Entry) : Prop :=
  (2 ≤ e.1 ∧ 1 ≤ e.2.1 ∧ e.2.2.length = e.2.1 + 1 ∧ (∀ c ∈ e.2.2, c < e.1) ∧
      e.2.2.getLast? = some 1) ∧
    e.1.Prime ∧
    (e.1 ^ e.2.1 < 2 ^ 64 →
      orderOf (AdjoinRoot.root (toPolyZMod e.1 e.2.2)) = e.1 ^ e.2.1 - 1) ∧
    (2 ^ 64 ≤ e.1 ^ e.2.1 → e.2.1 ≤ rabinMaxDeg → Irreducible (toPolyZMod e.1 e.2.2))

theorem entryOK2_sound (tab : Array PLine) (htab : tabOK tab = true) (e : Entry)
    (cert : List (ℕ × ℕ)) (rcert : List (ℕ × List ℕ)) (h : entryOK2 tab e cert rcert = true) :
    EntryGood e := by
  simp only [entryOK2, entryOK, Bool.and_eq_true, Bool.or_eq_true, decide_eq_true_eq] at h
  obtain ⟨⟨⟨hs, hp⟩, hprim⟩, hrab⟩ := h
  have hp' := isPrimeTD_sound hp
  refine ⟨(shapeOK_iff e).mp hs, hp', fun hw => ?_, fun hw hd => ?_⟩
  · rcases hprim with h1 | h1
    · omega
    · exact primitiveOK_sound tab (tabOK_sound tab htab) e cert hs hp' h1
  · rcases hrab with (h1 | h1) | h1
    · omega
    · omega
    · exact rabinOK_sound e rcert hs hp' h1

theorem stride_sound {m : ℕ} (hm : 0 < m) {f : ℕ → Bool} {len : ℕ}
    (h : ∀ k, k < m → stride m k f len = true) : ∀ i, i < len → f i = true := by
  intro i hi
  have := h (i % m) (Nat.mod_lt _ hm)
  simp only [stride, List.all_eq_true, List.mem_range, Bool.or_eq_true, bne_iff_ne, ne_eq] at this
  rcases this i hi with h1 | h1
  · exact absurd rfl h1
  · exact h1

theorem dbArr_getElem? {i : ℕ} (hi : i < db.length) : dbArr[i]? = some db[i] := by
  simp [dbArr, hi]

theorem entryGood_of_sweep {tab : Array PLine} {certs : Array (List (ℕ × ℕ))}
    {rcerts : Array (List (ℕ × List ℕ))}
    (htab : tabOK tab = true) (h : ∀ i, i < db.length → entryOK2At tab certs rcerts i = true) :
    ∀ e ∈ db, EntryGood e := by
  intro e he
  obtain ⟨i, hi, rfl⟩ := List.mem_iff_getElem.mp he
  have h1 := h i hi
  simp only [entryOK2At, dbArr_getElem? hi] at h1
  cases hc : certs[i]? with
  | none => simp [hc] at h1
  | some c =>
    cases hr : rcerts[i]? with
    | none => simp [hc, hr] at h1
    | some rc =>
      simp only [hc, hr] at h1
      exact entryOK2_sound tab htab _ c rc h1

theorem lookup_of_sweep (h : ∀ i, i < db.length → lookupOKAt i = true) :
    ∀ e ∈ db, Conway.lookupIn Gen.dbText e.1 e.2.1 = .ok e.2.2 := by
  intro e he
  obtain ⟨i, hi, rfl⟩ := List.mem_iff_getElem.mp he
  have h1 := h i hi
  simp only [lookupOKAt, dbArr_getElem? hi] at h1
  cases hc : Conway.lookupIn Gen.dbText db[i].1 db[i].2.1 with
  | error k => simp [hc] at h1
  | ok cs' =>
    simp only [hc, beq_iff_eq] at h1
    rw [h1]

end Algobra.C04
