/-
  Proofs/ConwayLookup.lean — facts about the legacy `String.splitOn` and the key scanner of
  `Certs/Checker.lean`, used to show that `Conway.lookupIn` reports absence for every key that the
  scanner does not find.
-/
import Algobra.Certs.Checker
import Batteries.Data.String.Lemmas

namespace Algobra.C04
open String

/-! ## 1. legacy `splitOn` when the separator does not occur -/

theorem splitOnAux_of_not_infix (S P : List Char) (hP : ¬ P <:+: S)
    (L M R Q : List Char) (hS : S = L ++ M ++ R) (hPQ : P = M ++ Q) (hQ : Q ≠ [])
    (i j : String.Pos.Raw) (hi : i = ⟨utf8Len L + utf8Len M⟩) (hj : j = ⟨utf8Len M⟩) :
    String.splitOnAux (String.ofList S) (String.ofList P) 0 i j [] = [String.ofList S] := by
  subst hi hj
  rw [String.splitOnAux]
  match R, Q, hQ with
  | [], Q, _ =>
    have hend : String.Pos.Raw.atEnd (String.ofList S) ⟨utf8Len L + utf8Len M⟩ = true := by
      have := (String.atEnd_of_valid (L ++ M) []).2 rfl
      simpa [hS] using this
    rw [if_pos hend]
    have : (⟨utf8Len L + utf8Len M⟩ : String.Pos.Raw) = (String.ofList S).rawEndPos := by
      simp [hS]
    rw [this, String.extract_zero_rawEndPos]
    rfl
  | c :: R', q :: Q', _ =>
    sorry
termination_by ((M ++ R).length, Q.length)

end Algobra.C04
