/-
  Proofs/ConwayLookup.lean — facts about the legacy `String.splitOn` and the key scanner of
  `Certs/Checker.lean`, used to show that `Conway.lookupIn` reports absence for every key that the
  scanner does not find.
-/
import Algobra.Certs.Checker
import Batteries.Data.String.Lemmas

namespace Algobra.C04
open String

/-! ## 1. legacy `splitOn` when the separator does not occur -/

theorem splitOnAux_of_not_infix (S P : List Char) (hP : ¬ P <:+: S)
    (L M R Q : List Char) (hS : S = L ++ M ++ R) (hPQ : P = M ++ Q) (hQ : Q ≠ [])
    (i j : String.Pos.Raw) (hi : i = ⟨utf8Len L + utf8Len M⟩) (hj : j = ⟨utf8Len M⟩) :
    String.splitOnAux (String.ofList S) (String.ofList P) 0 i j [] = [String.ofList S] := by
  subst hi hj
  rw [String.splitOnAux]
  match R, Q, hQ with
  | [], Q, _ =>
    have hend : String.Pos.Raw.atEnd (String.ofList S) ⟨utf8Len L + utf8Len M⟩ = true := by
      simp [hS, -String.ofList_append]
    rw [if_pos hend]
    have : (⟨utf8Len L + utf8Len M⟩ : String.Pos.Raw) = (String.ofList S).rawEndPos := by
      simp [hS, -String.ofList_append]
    rw [this, String.extract_zero_rawEndPos]
    rfl
  | c :: R', q :: Q', _ =>
    have hend : ¬ String.Pos.Raw.atEnd (String.ofList S) ⟨utf8Len L + utf8Len M⟩ = true := by
      have := (String.atEnd_of_valid (L ++ M) (c :: R'))
      simp only [hS, ← utf8Len_append]
      rw [this]; simp
    rw [if_neg hend]
    have hgetS : String.Pos.Raw.get (String.ofList S) ⟨utf8Len L + utf8Len M⟩ = c := by
      have := String.get_of_valid (L ++ M) (c :: R')
      simpa [hS, -String.ofList_append] using this
    have hgetP : String.Pos.Raw.get (String.ofList P) ⟨utf8Len M⟩ = q := by
      have := String.get_of_valid M (q :: Q')
      simpa [hPQ, -String.ofList_append] using this
    have hnextS : String.Pos.Raw.next (String.ofList S) ⟨utf8Len L + utf8Len M⟩
        = ⟨utf8Len L + utf8Len M + c.utf8Size⟩ := by
      have := String.next_of_valid (L ++ M) c R'
      simpa [hS, -String.ofList_append] using this
    have hnextP : String.Pos.Raw.next (String.ofList P) ⟨utf8Len M⟩
        = ⟨utf8Len M + q.utf8Size⟩ := by
      have := String.next_of_valid M q Q'
      simpa [hPQ, -String.ofList_append] using this
    rw [hgetS, hgetP]
    by_cases hcq : c = q
    · subst hcq
      simp only [beq_self_eq_true, if_true, hnextS, hnextP]
      have hend2 : ¬ String.Pos.Raw.atEnd (String.ofList P) ⟨utf8Len M + c.utf8Size⟩ = true := by
        have := String.atEnd_of_valid (M ++ [c]) Q'
        simp only [utf8Len_append, utf8Len_cons, utf8Len_nil, Nat.zero_add, List.append_assoc,
          List.singleton_append] at this
        rw [hPQ, this]
        intro hQ'
        apply hP
        refine ⟨L, R', ?_⟩
        rw [hS, hPQ, hQ']
        simp
      rw [if_neg hend2]
      exact splitOnAux_of_not_infix S P hP L (M ++ [c]) R' Q' (by rw [hS]; simp) (by rw [hPQ]; simp)
        (fun hQ' => hend2 (by
          have := String.atEnd_of_valid (M ++ [c]) Q'
          simp only [utf8Len_append, utf8Len_cons, utf8Len_nil, Nat.zero_add, List.append_assoc,
            List.singleton_append] at this
          rw [hPQ, this]; exact hQ')) _ _ (by simp [Nat.add_assoc]) (by simp)
    · have : (c == q) = false := by simpa using hcq
      simp only [this, Bool.false_eq_true, if_false]
      have hun : (String.Pos.Raw.unoffsetBy ⟨utf8Len L + utf8Len M⟩ ⟨utf8Len M⟩ : String.Pos.Raw)
          = ⟨utf8Len L⟩ := by
        ext; simp [String.Pos.Raw.byteIdx_unoffsetBy]
      rw [hun]
      obtain ⟨d, T, hdT⟩ : ∃ d T, M ++ c :: R' = d :: T := by
        cases M with
        | nil => exact ⟨c, R', rfl⟩
        | cons m M' => exact ⟨m, M' ++ c :: R', rfl⟩
      have hS' : S = L ++ d :: T := by rw [hS, List.append_assoc, hdT]
      have hnext : String.Pos.Raw.next (String.ofList S) ⟨utf8Len L⟩ = ⟨utf8Len L + d.utf8Size⟩ := by
        rw [hS']; exact String.next_of_valid L d T
      rw [hnext]
      exact splitOnAux_of_not_infix S P hP (L ++ [d]) [] T (M ++ q :: Q') (by rw [hS']; simp)
        (by rw [hPQ]; simp) (by simp) _ _ (by simp) (by simp)
termination_by ((M ++ R).length, Q.length)
decreasing_by
  all_goals simp_wf
  · exact Prod.Lex.right _ (Nat.lt_succ_self _)
  · apply Prod.Lex.left
    have := congrArg List.length hdT
    simp at this
    omega

/-- if the separator does not occur, legacy splitOn returns the whole string -/
theorem splitOn_of_not_infix (s sep : String) (h : ¬ sep.toList <:+: s.toList) :
    s.splitOn sep = [s] := by
  unfold String.splitOn
  split
  · rfl
  · rename_i hne
    have hsep : sep.toList ≠ [] := by
      intro h0
      apply hne
      have : sep = "" := by
        rw [← String.ofList_toList (s := sep), h0]
      simp [this]
    have := splitOnAux_of_not_infix s.toList sep.toList h [] [] s.toList sep.toList
      (by simp) (by simp) hsep 0 0 rfl rfl
    simpa [String.ofList_toList] using this

/-! ## 2. `lookupIn` reports absence when the key pattern does not occur -/

/-- the search key of lookupIn as a character list -/
def keyPattern (p n : Nat) : List Char :=
  ('[' :: Nat.toDigits 10 p) ++ (',' :: Nat.toDigits 10 n) ++ [',', '[']

theorem toList_key (p n : Nat) :
    ("[" ++ toString p ++ "," ++ toString n ++ ",[").toList = keyPattern p n := by
  have h1 : "[".toList = ['['] := by rfl
  have h2 : ",".toList = [','] := by rfl
  have h3 : ",[".toList = [',', '['] := by rfl
  simp only [String.toList_append, Nat.toString_eq_repr, Nat.toList_repr, keyPattern, h1, h2, h3,
    List.cons_append, List.nil_append, List.append_assoc]

theorem lookupIn_absent_of_not_infix (text : String) (p n : Nat)
    (h : ¬ keyPattern p n <:+: text.toList) :
    Algobra.Conway.lookupIn text p n = .error .inputValue := by
  unfold Algobra.Conway.lookupIn
  rw [← toList_key] at h
  simp only [splitOn_of_not_infix _ _ h]
  rfl

/-! ## 3. the key scanner finds every occurrence of a key pattern -/

open Algobra.C04Check in
theorem digitsVal_toDigits (p : Nat) : digitsVal (Nat.toDigits 10 p) = p := by
  have : digitsVal (Nat.toDigits 10 p) = Nat.ofDigitChars 10 (Nat.toDigits 10 p) 0 := rfl
  rw [this, Nat.ofDigitChars_ten_toDigits]

theorem isDigit_toDigits (p : Nat) : ∀ c ∈ Nat.toDigits 10 p, Char.isDigit c = true :=
  fun _ hc => Nat.isDigit_of_mem_toDigits (by decide) (by decide) hc

theorem dropWhile_digits_comma (p : Nat) (rest : List Char) :
    (Nat.toDigits 10 p ++ ',' :: rest).dropWhile Char.isDigit = ',' :: rest := by
  rw [List.dropWhile_append_of_pos (isDigit_toDigits p), List.dropWhile_cons_of_neg (by decide)]

theorem takeWhile_digits_comma (p : Nat) (rest : List Char) :
    (Nat.toDigits 10 p ++ ',' :: rest).takeWhile Char.isDigit = Nat.toDigits 10 p := by
  rw [List.takeWhile_append_of_pos (isDigit_toDigits p), List.takeWhile_cons_of_neg (by decide),
    List.append_nil]

open Algobra.C04Check in
theorem keyAt_keyPattern (p n : Nat) (rest : List Char) :
    keyAt (keyPattern p n ++ rest) = some (p, n) := by
  have e : keyPattern p n ++ rest =
      '[' :: (Nat.toDigits 10 p ++ ',' :: (Nat.toDigits 10 n ++ ',' :: '[' :: rest)) := by
    simp [keyPattern]
  rw [e, keyAt]
  simp only [dropWhile_digits_comma, takeWhile_digits_comma]
  simp [Nat.toDigits_ne_nil, digitsVal_toDigits]

open Algobra.C04Check in
theorem mem_scanKeysAux (k : Nat × Nat) (l : List Char) (acc : List (Nat × Nat))
    (h : k ∈ acc ∨ ∃ pre rest, l = pre ++ rest ∧ keyAt rest = some k) :
    k ∈ scanKeysAux l acc := by
  induction l generalizing acc with
  | nil =>
    rw [scanKeysAux]
    rcases h with h | ⟨pre, rest, h, hk⟩
    · simpa using h
    · have : rest = [] := (List.append_eq_nil_iff.1 h.symm).2
      subst this
      simp [keyAt] at hk
  | cons c t ih =>
    rw [scanKeysAux]
    rcases h with h | ⟨pre, rest, h, hk⟩
    · split
      · exact ih _ (Or.inl (List.mem_cons_of_mem _ h))
      · exact ih _ (Or.inl h)
    · cases pre with
      | nil =>
        simp only [List.nil_append] at h
        rw [h, hk]
        exact ih _ (Or.inl (List.mem_cons_self))
      | cons a pre' =>
        simp only [List.cons_append, List.cons.injEq] at h
        split
        · exact ih _ (Or.inr ⟨pre', rest, h.2, hk⟩)
        · exact ih _ (Or.inr ⟨pre', rest, h.2, hk⟩)

theorem mem_scanKeys_of_infix (l : List Char) (p n : Nat)
    (h : keyPattern p n <:+: l) : (p, n) ∈ Algobra.C04Check.scanKeys l := by
  obtain ⟨pre, rest, h⟩ := h
  unfold Algobra.C04Check.scanKeys
  exact mem_scanKeysAux _ _ _ (Or.inr ⟨pre, keyPattern p n ++ rest,
    by rw [← h, List.append_assoc], keyAt_keyPattern p n rest⟩)



/-! ## non-vacuity / sanity -/

example : keyPattern 2 1 = "[2,1,[".toList := by decide

/-- a pattern containing a character that does not occur in the text is not an infix -/
theorem not_infix_of_mem_not_mem {P S : List Char} (c : Char) (hP : c ∈ P) (hS : c ∉ S) :
    ¬ P <:+: S := fun h => hS (h.subset hP)

example : "[2,1,[1,1]],".splitOn "[3," = ["[2,1,[1,1]],"] :=
  splitOn_of_not_infix _ _ (not_infix_of_mem_not_mem '3' (by decide) (by decide))

example : Algobra.Conway.lookupIn "[2,1,[1,1]]," 3 1 = .error .inputValue :=
  lookupIn_absent_of_not_infix _ 3 1 (not_infix_of_mem_not_mem '3' (by decide) (by decide))

example : keyPattern 2 1 <:+: "x[2,1,[1,1]],".toList :=
  ⟨['x'], "1,1]],".toList, by decide⟩

example : (2, 1) ∈ Algobra.C04Check.scanKeys "x[2,1,[1,1]],".toList :=
  mem_scanKeys_of_infix _ 2 1 ⟨['x'], "1,1]],".toList, by decide⟩

end Algobra.C04
