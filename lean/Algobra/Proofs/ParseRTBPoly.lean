/-
  Proofs/ParseRTBPoly.lean — from the matches of a printed bivariate polynomial back to the
  polynomial: the degree map of distinct degrees, `ofMap`, and the permutation `sortedTerms`.
  Helper of `Props/C15Full.lean`.
-/
import Algobra.Proofs.ParseRTB
import Algobra.Proofs.ParseRTPoly
import Algobra.Proofs.BPolyRefine
import Algobra.Proofs.Order

namespace Algobra.ParseRT
open Algobra Algobra.Strings Algobra.Parse Algobra.BPoly

variable {α : Type} {F : FOps α} {K : Type} [Field K] (L : Lawful F K)

/-! ### the degree map of distinct degree pairs -/

theorem mapAdd_new' {κ : Type} [BEq κ] [LawfulBEq κ] (F : FOps α) (m : List (κ × α)) (k : κ) (c : α)
    (h : ∀ x ∈ m, x.1 ≠ k) : UPoly.mapAdd F m k c = m ++ [(k, c)] := by
  unfold UPoly.mapAdd
  have : m.any (fun x => x.1 == k) = false := by
    rw [List.any_eq_false]; intro x hx; simpa using h x hx
  rw [this]; rfl

theorem foldl_mapAdd_nodup' {κ : Type} [BEq κ] [LawfulBEq κ] (F : FOps α) (g : κ → α) :
    ∀ (ds : List κ), ds.Nodup → ∀ (out : List (κ × α)), (∀ x ∈ out, x.1 ∉ ds) →
    (ds.map (fun d => (g d, d))).foldl (fun o t => UPoly.mapAdd F o t.2 t.1) out =
      out ++ ds.map (fun d => (d, g d)) := by
  intro ds
  induction ds with
  | nil => intro _ out _; simp
  | cons d ds ih =>
    intro hnd out hout
    rw [List.map_cons, List.foldl_cons]
    dsimp only
    rw [mapAdd_new' F out d (g d) (fun x hx e => hout x hx (by simp [e])),
      ih (List.nodup_cons.1 hnd).2]
    · simp
    · intro x hx
      rcases List.mem_append.1 hx with h | h
      · exact fun hm => hout x h (List.mem_cons_of_mem _ hm)
      · simp only [List.mem_singleton] at h
        rw [h]; exact (List.nodup_cons.1 hnd).1

/-- storing nonzero coefficients at distinct new degrees appends them -/
theorem foldl_put_nodup (g : Deg → α) :
    ∀ (ds : List Deg), (∀ d ∈ ds, F.isZero (g d) = false) → ds.Nodup → ∀ (acc : BPoly α),
    (∀ x ∈ acc, x.1 ∉ ds) →
    (ds.map (fun d => (d, g d))).foldl
        (fun acc (x : Deg × α) => if F.isZero x.2 then acc else put acc x.1 x.2) acc =
      acc ++ ds.map (fun d => (d, g d)) := by
  intro ds
  induction ds with
  | nil => intro _ _ acc _; simp
  | cons d ds ih =>
    intro hg hnd acc hacc
    rw [List.map_cons, List.foldl_cons]
    dsimp only
    have hh : has acc d = false := by
      rw [has_eq_false_iff]; intro hm
      obtain ⟨x, hx, rfl⟩ := List.mem_map.1 hm
      exact hacc x hx (by simp)
    have hput : put acc d (g d) = acc ++ [(d, g d)] := by unfold put; rw [hh]; rfl
    rw [hg d (by simp)]
    simp only [Bool.false_eq_true, if_false]
    rw [hput, ih (fun e he => hg e (by simp [he])) (List.nodup_cons.1 hnd).2]
    · simp
    · intro x hx
      rcases List.mem_append.1 hx with h | h
      · exact fun hm => hacc x h (List.mem_cons_of_mem _ hm)
      · simp only [List.mem_singleton] at h
        rw [h]; exact (List.nodup_cons.1 hnd).1

/-! ### the canonical listing is a permutation -/

theorem sortedTerms_perm (o : Order) {f : BPoly α} (hnd : (keys f).Nodup) :
    (sortedTerms F o f).Perm f := by
  unfold sortedTerms
  have hp := sortedDegrees_perm o f hnd
  have h1 : ((sortedDegrees o f).map fun d => (d, coef F f d)).Perm
      ((keys f).map fun d => (d, coef F f d)) := hp.map _
  refine h1.trans ?_
  have : (keys f).map (fun d => (d, coef F f d)) = f := by
    show (f.map (·.1)).map _ = f
    rw [List.map_map]
    conv => rhs; rw [← List.map_id f]
    apply List.map_congr_left
    intro x hx
    show (x.1, coef F f x.1) = x
    rw [coef_of_mem hnd (c := x.2) hx]
  rw [this]


/-! ### the printed form as a joined term list -/

theorem btoStr_eq (R : BPoly.Ring α) (f : BPoly α) :
    BPoly.toStr R f =
      if f.isEmpty then "0"
      else " + ".intercalate ((sortedDegrees R.ord f).map fun d =>
        btermStr R.F R.varNames.1 R.varNames.2 (coef R.F f d) d) := rfl

theorem bprinted_terms (R : BPoly.Ring α) (L : Lawful R.F K) (hz1 : R.F.toStr R.F.zero = "0")
    (hz2 : ¬ R.F.nTerms R.F.zero > 1) {f : BPoly α} (hf : WF L f) (hb : Bounded f) :
    ∃ (ds : List Deg) (g : Deg → α), ds.Nodup ∧ ds ≠ [] ∧
      (∀ d ∈ ds, L.valid (g d) ∧ d.1 < 2 ^ 64 ∧ d.2 < 2 ^ 64) ∧
      (BPoly.toStr R f).toList = JB R.F R.varNames.1 R.varNames.2 (ds.map fun d => (g d, d)) ∧
      (ds.map (fun d => (d, g d))).foldl
          (fun acc (x : Deg × α) => if R.F.isZero x.2 then acc else put acc x.1 x.2) [] =
        sortedTerms R.F R.ord f := by
  by_cases h0 : f = []
  · subst h0
    refine ⟨[(0, 0)], fun _ => R.F.zero, by simp, by simp,
      fun d hd => ⟨L.zero_valid, by simp at hd; subst hd; exact ⟨by norm_num, by norm_num⟩⟩, ?_, ?_⟩
    · rw [btoStr_eq]
      simp [JB, btermStr, hz1, hz2]
    · have : R.F.isZero R.F.zero = true := (L.isZero_iff _ L.zero_valid).2 L.embed_zero
      simp [this, sortedTerms, sortedDegrees]
  · have hperm := sortedDegrees_perm R.ord f hf.1
    have hmem : ∀ d ∈ sortedDegrees R.ord f, d ∈ keys f := fun d hd => hperm.mem_iff.1 hd
    have hne : sortedDegrees R.ord f ≠ [] := by
      intro he
      have := hperm.length_eq
      rw [he] at this
      cases f with
      | nil => exact h0 rfl
      | cons _ _ => simp at this
    refine ⟨sortedDegrees R.ord f, coef R.F f, hperm.nodup_iff.2 hf.1, hne, ?_, ?_, ?_⟩
    · intro d hd
      refine ⟨BPoly.coef_valid L hf.cv d, ?_⟩
      obtain ⟨x, hx, rfl⟩ := List.mem_map.1 (hmem d hd)
      exact hb x hx
    · rw [btoStr_eq, if_neg (by simpa using h0)]
      simp [JB, List.map_map, Function.comp_def]
    · rw [foldl_put_nodup (coef R.F f) _
        (fun d hd => (L.isZero_false_iff _ (BPoly.coef_valid L hf.cv d)).2 (coef_ne_zero L hf (hmem d hd)))
        (hperm.nodup_iff.2 hf.1) [] (by simp)]
      rfl

/-- Parsing the printed form of a well-formed bivariate polynomial with exponents that fit a word
    gives the canonical listing `sortedTerms` of the same polynomial, reduced in the ring. -/
theorem bpoly_parse_toStr (R : BPoly.Ring α) (L : Lawful R.F K) (H : CoefRT R.F L.valid)
    (hz1 : R.F.toStr R.F.zero = "0") (hz2 : ¬ R.F.nTerms R.F.zero > 1)
    (N : BNames R.F R.varNames.1 R.varNames.2) (hdir : BPoly.directOK R = true)
    {f : BPoly α} (hf : WF L f) (hb : Bounded f) :
    BPoly.parse R (BPoly.toStr R f) = .ok (reduceIn R (sortedTerms R.F R.ord f)) := by
  obtain ⟨ds, g, hnd, hne, hg, hstr, hfold⟩ := bprinted_terms R L hz1 hz2 hf hb
  have hne' : ds.map (fun d => (g d, d)) ≠ [] := by simpa using hne
  obtain ⟨ms, h1, h2⟩ := matchesB_terms H N hne'
    (by
      intro t ht
      obtain ⟨d, hd, rfl⟩ := List.mem_map.1 ht
      exact hg d hd) hstr
  have hmap : BPoly.stringToMap R (BPoly.toStr R f) = .ok (ds.map fun d => (d, g d)) := by
    unfold BPoly.stringToMap
    rw [if_pos hdir, h1]
    dsimp only
    rw [h2, foldl_mapAdd_nodup' R.F g ds hnd [] (by simp)]
    simp
  unfold BPoly.parse
  rw [hmap]
  dsimp only
  unfold ofMap
  have : (ds.map fun d => (d, g d)).foldl
      (fun acc (x : Deg × α) => match x with
        | (d, c) => if R.F.isZero c then acc else put acc d c) [] = sortedTerms R.F R.ord f := hfold
  rw [this]

end Algobra.ParseRT
