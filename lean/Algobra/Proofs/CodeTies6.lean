/-
  Proofs/CodeTies6.lean — helper lemmas for Props/CodeTies6.lean, part 1: the observers of
  `univariate.Polynomial` (`Ld`, `coefPtr`, `Coef`, `coefIsZero`, `IsZero`, `IsOne`) and `reslice`,
  machine-translated in `Algobra/Gen/Code.lean`, against Model/UPoly.lean.
-/
import Algobra.Proofs.CodeTies6Defs
import Algobra.Proofs.CodeTies
import Algobra.Proofs.CodeTies5

namespace Algobra
namespace CodeTies6Proofs
open Algobra Algobra.Gen.Code Algobra.CodeTiesProofs Algobra.CodeTies5Proofs

theorem absC_length (F : FOps Nat) (c : List (Option Nat)) : (absC F c).length = c.length := by
  simp [absC]

/-! ### observers -/

theorem ld {c : List (Option Nat)} (F : FOps Nat) (h0 : c ≠ []) (hlen : c.length < 2 ^ 63) :
    go_univariate_Polynomial_Ld c = ((UPoly.ld (absC F c) : Nat) : Int) := by
  have hpos : 0 < c.length := by cases c with | nil => exact absurd rfl h0 | cons a t => simp
  unfold go_univariate_Polynomial_Ld UPoly.ld
  rw [absC_length, Int.ofNat_eq_natCast, wrap_sub1 _ hlen]
  omega

theorem coefPtr (c : List (Option Nat)) (d : Nat) :
    go_univariate_Polynomial_coefPtr c (d : Int) = some (c.getD d none) := by
  unfold go_univariate_Polynomial_coefPtr
  by_cases h : d < c.length
  · have h1 : (d : Int) < ((c.length : Nat) : Int) := by omega
    have h2 : (0 : Int) ≤ (d : Int) := by omega
    simp only [Int.ofNat_eq_natCast, h1, h2, and_self, ↓reduceIte, Int.toNat_natCast]
  · have h1 : ¬ (d : Int) < ((c.length : Nat) : Int) := by omega
    simp only [Int.ofNat_eq_natCast, h1, ↓reduceIte]
    rw [List.getD_eq_getElem?_getD, List.getElem?_eq_none (by omega)]; rfl

theorem coefPtr_neg (c : List (Option Nat)) {d : Int} (h : d < 0) :
    go_univariate_Polynomial_coefPtr c d = none := by
  unfold go_univariate_Polynomial_coefPtr
  have h1 : d < ((c.length : Nat) : Int) := by omega
  have h2 : ¬ (0 : Int) ≤ d := by omega
  simp only [Int.ofNat_eq_natCast, h1, h2, false_and, ↓reduceIte]

theorem absC_getD (F : FOps Nat) (c : List (Option Nat)) (d : Nat) :
    UPoly.coef F (absC F c) d = (c.getD d none).getD F.zero := by
  unfold UPoly.coef absC
  rw [List.getD_eq_getElem?_getD, List.getD_eq_getElem?_getD, List.getElem?_map]
  cases c[d]? <;> rfl

/-- `Coef(d)`: a copy of the entry, the field's zero for a nil entry or beyond the end -/
theorem coef (c : List (Option Nat)) (copy : Nat → Nat) (z : Option Nat) (d : Nat) :
    go_univariate_Polynomial_Coef c copy z (d : Int)
      = some (match c.getD d none with | some v => some (copy v) | none => z) := by
  unfold go_univariate_Polynomial_Coef
  by_cases h : d < c.length
  · have h1 : (d : Int) < ((c.length : Nat) : Int) := by omega
    have h2 : (0 : Int) ≤ (d : Int) := by omega
    simp only [Int.ofNat_eq_natCast, h1, h2, and_self, ↓reduceIte, Int.toNat_natCast]
    cases hx : c.getD d none with
    | none => simp
    | some v => simp
  · have h1 : ¬ (d : Int) < ((c.length : Nat) : Int) := by omega
    simp only [Int.ofNat_eq_natCast, h1, ↓reduceIte]
    rw [List.getD_eq_getElem?_getD, List.getElem?_eq_none (by omega)]; rfl

theorem coef_model (F : FOps Nat) (c : List (Option Nat)) (d : Nat) :
    go_univariate_Polynomial_Coef c id (some F.zero) (d : Int)
      = some (some (UPoly.coef F (absC F c) d)) := by
  rw [coef, absC_getD]
  cases c.getD d none <;> rfl

theorem coefIsZero (F : FOps Nat) (hz : F.isZero F.zero = true) (c : List (Option Nat)) (d : Nat) :
    go_univariate_Polynomial_coefIsZero c F.isZero (d : Int)
      = some (F.isZero (UPoly.coef F (absC F c) d)) := by
  rw [absC_getD]
  unfold go_univariate_Polynomial_coefIsZero
  by_cases h : d < c.length
  · have h1 : (d : Int) < ((c.length : Nat) : Int) := by omega
    have h2 : (0 : Int) ≤ (d : Int) := by omega
    simp only [Int.ofNat_eq_natCast, h1, h2, and_self, ↓reduceIte, Int.toNat_natCast]
    cases hx : c.getD d none with
    | none => simp [hz]
    | some v => simp
  · have h1 : ¬ (d : Int) < ((c.length : Nat) : Int) := by omega
    simp only [Int.ofNat_eq_natCast, h1, ↓reduceIte]
    rw [List.getD_eq_getElem?_getD, List.getElem?_eq_none (by omega)]; simp [hz]

/-- `IsZero()`; it dereferences `f.coefs[0]`, so entry 0 must not be nil when the length is one -/
theorem isZero (F : FOps Nat) (c : List (Option Nat)) (h0 : c.head? ≠ some none) :
    go_univariate_Polynomial_IsZero c F.isZero = some (UPoly.isZero F (absC F c)) := by
  unfold go_univariate_Polynomial_IsZero
  match c, h0 with
  | [], _ => simp [absC, UPoly.isZero]
  | [none], h => simp at h
  | [some v], _ =>
    simp only [List.length_cons, List.length_nil, absC, List.map, UPoly.isZero]
    cases hv : F.isZero v <;> simp [hv]
  | a :: b :: t, _ =>
    have : ¬ (((a :: b :: t).length : Nat) : Int) = 1 := by simp; omega
    simp only [Int.ofNat_eq_natCast, this, ↓reduceIte, absC, List.map, UPoly.isZero]

theorem isZero_panics (iz : Nat → Bool) : go_univariate_Polynomial_IsZero [none] iz = none := by
  simp [go_univariate_Polynomial_IsZero]

theorem isOne (F : FOps Nat) (c : List (Option Nat)) (h0 : c.head? ≠ some none) :
    go_univariate_Polynomial_IsOne c F.isOne = some (UPoly.isOne F (absC F c)) := by
  unfold go_univariate_Polynomial_IsOne
  match c, h0 with
  | [], _ => simp [absC, UPoly.isOne]
  | [none], h => simp at h
  | [some v], _ =>
    have hp : go_univariate_Polynomial_coefPtr [some v] 0 = some (some v) := coefPtr [some v] 0
    simp only [List.length_cons, List.length_nil, absC, List.map, UPoly.isOne]
    cases hv : F.isOne v <;> simp [hv, hp]
  | a :: b :: t, _ =>
    have : ¬ (((a :: b :: t).length : Nat) : Int) = 1 := by simp; omega
    simp only [Int.ofNat_eq_natCast, this, ↓reduceIte, absC, List.map, UPoly.isOne]

/-! ### `reslice` -/

theorem dropTrailing_snoc (nz : Nat → Bool) : ∀ (l : List (Option Nat)) (x : Option Nat),
    dropTrailing nz (l ++ [x]) = if slotNz nz x then l ++ [x] else dropTrailing nz l
  | [], x => by
    simp only [List.nil_append, dropTrailing]
  | a :: t, x => by
    simp only [List.cons_append, dropTrailing, dropTrailing_snoc nz t x]
    by_cases hx : slotNz nz x = true
    · simp only [hx, ↓reduceIte]
      cases t <;> rfl
    · simp only [hx]
      rfl

theorem reslice_loop_ret (nz : Nat → Bool) (fuel : Nat) (c : List (Option Nat)) (i : Int) (v) :
    go_univariate_Polynomial_reslice_loop1 nz fuel (c, i, some v) = (c, i, some v) := by
  cases fuel <;> simp [go_univariate_Polynomial_reslice_loop1]

theorem reslice_loop (nz : Nat → Bool) (c : List (Option Nat)) (hlen : c.length < 2 ^ 63) :
    ∀ (k fuel : Nat), k ≤ c.length → k < fuel →
      (dropTrailing nz (c.take k) = [] →
        go_univariate_Polynomial_reslice_loop1 nz fuel (c, (k : Int) - 1, none) = (c, -1, none)) ∧
      (dropTrailing nz (c.take k) ≠ [] →
        (go_univariate_Polynomial_reslice_loop1 nz fuel (c, (k : Int) - 1, none)).2.2
          = some (some (dropTrailing nz (c.take k)))) := by
  intro k
  induction k with
  | zero =>
    intro fuel _ hf
    obtain ⟨f, rfl⟩ : ∃ f, fuel = f + 1 := ⟨fuel - 1, by omega⟩
    refine ⟨fun _ => ?_, fun h => absurd (by simp [dropTrailing]) h⟩
    rw [go_univariate_Polynomial_reslice_loop1]
    simp
  | succ k ih =>
    intro fuel hk hf
    obtain ⟨f, rfl⟩ : ∃ f, fuel = f + 1 := ⟨fuel - 1, by omega⟩
    have hkl : k < c.length := by omega
    have htake : c.take (k + 1) = c.take k ++ [c.getD k none] := by
      rw [List.take_add_one, List.getD_eq_getElem?_getD, List.getElem?_eq_getElem hkl]; rfl
    have hsn := dropTrailing_snoc nz (c.take k) (c.getD k none)
    have c0 : ((k + 1 : Nat) : Int) - 1 = (k : Int) := by omega
    have c1 : (k : Int) ≥ 0 := by omega
    have c3 : (k : Int) < ((c.length : Nat) : Int) := by omega
    have b1 : k + 1 < 2 ^ 63 := by omega
    have c4 : (0 : Int) ≤ ((k + 1 : Nat) : Int) := by omega
    have c5 : ((k + 1 : Nat) : Int) ≤ ((c.length : Nat) : Int) := by omega
    have b2 : -(2 ^ 63) ≤ (k : Int) - 1 := by omega
    have b3 : (k : Int) - 1 < 2 ^ 63 := by omega
    obtain ⟨ih1, ih2⟩ := ih f (by omega) (by omega)
    have hw1 := wrap_add1 k b1
    have hw2 := wrap_sub (k : Int) 1 b2 b3
    rw [htake, hsn, c0, go_univariate_Polynomial_reslice_loop1]
    simp only [Int.ofNat_eq_natCast, c1, c3, Option.isNone_none, and_self, ↓reduceIte,
      Int.toNat_natCast, hw1, hw2, c4, c5]
    cases hx : c.getD k none with
    | none =>
      simp only [slotNz, ne_eq, not_true_eq_false, ↓reduceIte, Bool.false_eq_true]
      exact ⟨ih1, ih2⟩
    | some v =>
      by_cases hv : nz v = true
      · simp only [slotNz, hv, ne_eq, reduceCtorEq, not_false_eq_true, ↓reduceIte, Option.isSome_some,
          Option.getD_some, and_self, reslice_loop_ret]
        refine ⟨fun h => absurd h (by simp), fun _ => ?_⟩
        rw [← hx, ← htake]
      · simp only [slotNz, hv, ne_eq, reduceCtorEq, not_false_eq_true, ↓reduceIte, Option.isSome_some,
          Option.getD_some, and_self]
        exact ⟨ih1, ih2⟩

/-- `reslice()` on a non-empty slice: no panic, the specified result -/
theorem reslice (nz : Nat → Bool) {c : List (Option Nat)} (h0 : c ≠ []) (hlen : c.length < 2 ^ 63) :
    go_univariate_Polynomial_reslice c nz = some (resliceSpec nz c) := by
  have hpos : 0 < c.length := by cases c with | nil => exact absurd rfl h0 | cons a t => simp
  obtain ⟨h1, h2⟩ := reslice_loop nz c hlen c.length loopFuel (Nat.le_refl _) (by unfold loopFuel; omega)
  rw [List.take_length] at h1 h2
  have hi : wrapInt (((c.length : Nat) : Int) - 1) = ((c.length : Nat) : Int) - 1 := wrap_sub1 _ hlen
  unfold go_univariate_Polynomial_reslice resliceSpec
  simp only [Int.ofNat_eq_natCast, hi]
  by_cases hd : dropTrailing nz c = []
  · rw [h1 hd, hd]
    simp only [show 1 ≤ c.length from hpos, ↓reduceIte]
  · have := h2 hd
    revert this
    generalize go_univariate_Polynomial_reslice_loop1 nz loopFuel (c, ((c.length : Nat) : Int) - 1, none) = r
    obtain ⟨a, b, r3⟩ := r
    intro hr
    simp only at hr
    subst hr
    cases hdt : dropTrailing nz c with
    | nil => exact absurd hdt hd
    | cons x t => rfl

/-! ### abstraction of `resliceSpec` -/

theorem slotNz_abs {F : FOps Nat} {nz : Nat → Bool} (hL : Laws F nz) (o : Option Nat) :
    slotNz nz o = !F.isZero (o.getD F.zero) := by
  cases o with
  | none => simp [slotNz, hL.zero_isZero]
  | some v => simp [slotNz, hL.nz_eq]

theorem absC_dropTrailing {F : FOps Nat} {nz : Nat → Bool} (hL : Laws F nz) :
    ∀ c : List (Option Nat), absC F (dropTrailing nz c) = UPoly.dropTrailingZeros F (absC F c)
  | [] => rfl
  | a :: t => by
    have ih := absC_dropTrailing hL t
    simp only [dropTrailing, absC, List.map_cons, UPoly.dropTrailingZeros] at ih ⊢
    rw [← ih]
    cases hd : dropTrailing nz t with
    | nil =>
      simp only [List.map_nil, slotNz_abs hL a]
      cases F.isZero (a.getD F.zero) <;> rfl
    | cons x r => rfl

theorem absC_resliceSpec {F : FOps Nat} {nz : Nat → Bool} (hL : Laws F nz) {c : List (Option Nat)}
    (h0 : c ≠ []) : absC F (resliceSpec nz c) = UPoly.trim F (absC F c) := by
  unfold resliceSpec UPoly.trim
  rw [← absC_dropTrailing hL c]
  cases hd : dropTrailing nz c with
  | nil =>
    cases c with
    | nil => exact absurd rfl h0
    | cons a t => rfl
  | cons x r => rfl

end CodeTies6Proofs
end Algobra
