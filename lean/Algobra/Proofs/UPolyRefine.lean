/-
  Proofs/UPolyRefine.lean — refinement of the list model `Algobra.UPoly` (Model/UPoly.lean) to
  Mathlib's `K[X]` through a lawful coefficient record (`Algobra.Lawful F K`).
  Foundation for C05 (arithmetic is exact, results canonical), imported by C06/C07.
-/
import Mathlib.Algebra.Polynomial.Degree.Lemmas
import Mathlib.Algebra.Polynomial.Eval.Defs
import Mathlib.Algebra.Polynomial.Monic
import Mathlib.Tactic.Ring
import Mathlib.Data.List.GetD
import Mathlib.Data.Finset.Sort
import Algobra.Model.UPoly
import Algobra.Proofs.Lawful

namespace Algobra
namespace UPoly

open Polynomial

variable {α : Type} {F : FOps α} {K : Type} [Field K]

/-- the polynomial of `K[X]` denoted by a coefficient list -/
noncomputable def toPoly (L : Lawful F K) : UPoly α → K[X]
  | [] => 0
  | c :: t => C (L.embed c) + X * toPoly L t

/-- every coefficient is a valid representation -/
def AllValid (L : Lawful F K) (f : UPoly α) : Prop := ∀ c ∈ f, L.valid c

/-- well-formed: valid coefficients and canonical shape -/
def WF (L : Lawful F K) (f : UPoly α) : Prop := AllValid L f ∧ Canon F f

variable (L : Lawful F K)

/-! ### basic facts -/

@[simp] theorem toPoly_nil : toPoly L ([] : UPoly α) = 0 := rfl

@[simp] theorem toPoly_cons (c : α) (t : UPoly α) :
    toPoly L (c :: t) = C (L.embed c) + X * toPoly L t := rfl

theorem coeff_toPoly (f : UPoly α) (i : Nat) :
    (toPoly L f).coeff i = L.embed (f.getD i F.zero) := by
  induction f generalizing i with
  | nil => simp [L.embed_zero]
  | cons c t ih =>
    cases i with
    | zero => simp
    | succ i => simp [coeff_C_succ, ih]

theorem coeff_toPoly_coef (f : UPoly α) (i : Nat) :
    (toPoly L f).coeff i = L.embed (coef F f i) := coeff_toPoly L f i

theorem coeff_toPoly_of_le (f : UPoly α) (i : Nat) (h : f.length ≤ i) :
    (toPoly L f).coeff i = 0 := by
  rw [coeff_toPoly, List.getD_eq_default _ _ h, L.embed_zero]

theorem toPoly_append (f g : UPoly α) :
    toPoly L (f ++ g) = toPoly L f + X ^ f.length * toPoly L g := by
  induction f with
  | nil => simp
  | cons c t ih => simp [ih, pow_succ]; ring

theorem toPoly_replicate_zero (n : Nat) : toPoly L (List.replicate n F.zero) = 0 := by
  induction n with
  | zero => rfl
  | succ n ih => simp [List.replicate_succ, ih, L.embed_zero]

theorem toPoly_zero : toPoly L (zero F) = 0 := by simp [zero, L.embed_zero]

theorem toPoly_one : toPoly L (one F) = 1 := by simp [one, L.embed_one]

theorem toPoly_singleton (c : α) : toPoly L [c] = C (L.embed c) := by simp

theorem allValid_nil : AllValid L ([] : UPoly α) := by intro c hc; cases hc

theorem allValid_cons {c : α} {t : UPoly α} :
    AllValid L (c :: t) ↔ L.valid c ∧ AllValid L t := by
  simp [AllValid]

theorem allValid_append {f g : UPoly α} :
    AllValid L (f ++ g) ↔ AllValid L f ∧ AllValid L g := by
  simp only [AllValid, List.mem_append]
  constructor
  · intro h; exact ⟨fun c hc => h c (Or.inl hc), fun c hc => h c (Or.inr hc)⟩
  · rintro ⟨h1, h2⟩ c (hc | hc); exacts [h1 c hc, h2 c hc]

theorem AllValid.getD {f : UPoly α} (hf : AllValid L f) (i : Nat) : L.valid (f.getD i F.zero) := by
  by_cases h : i < f.length
  · rw [List.getD_eq_getElem _ _ h]; exact hf _ (List.getElem_mem h)
  · rw [List.getD_eq_default _ _ (by omega)]; exact L.zero_valid

theorem AllValid.coef {f : UPoly α} (hf : AllValid L f) (i : Nat) : L.valid (coef F f i) :=
  hf.getD L i

theorem AllValid.set {f : UPoly α} (hf : AllValid L f) (d : Nat) {v : α} (hv : L.valid v) :
    AllValid L (f.set d v) := by
  intro c hc
  rcases List.mem_or_eq_of_mem_set hc with h | h
  · exact hf c h
  · exact h ▸ hv

theorem wf_zero : WF L (zero F) :=
  ⟨by intro c hc; simp [zero] at hc; exact hc ▸ L.zero_valid, by simp [Canon, zero]⟩

theorem wf_one : WF L (one F) :=
  ⟨by intro c hc; simp [one] at hc; exact hc ▸ L.one_valid, by simp [Canon, one]⟩

theorem WF.ne_nil {f : UPoly α} (hf : WF L f) : f ≠ [] := hf.2.1

theorem WF.length_pos {f : UPoly α} (hf : WF L f) : 0 < f.length :=
  List.length_pos_of_ne_nil hf.2.1

/-! ### trimming -/

theorem dropTrailingZeros_cons (c : α) (t : UPoly α) :
    dropTrailingZeros F (c :: t) =
      if dropTrailingZeros F t = [] then (if F.isZero c then [] else [c])
      else c :: dropTrailingZeros F t := by
  rw [dropTrailingZeros]
  split
  · next h => simp [h]
  · next h => rw [if_neg (by simpa using h)]

theorem toPoly_dropTrailingZeros {f : UPoly α} (hf : AllValid L f) :
    toPoly L (dropTrailingZeros F f) = toPoly L f := by
  induction f with
  | nil => rfl
  | cons c t ih =>
    rw [allValid_cons] at hf
    have ih := ih hf.2
    rw [dropTrailingZeros_cons]
    split
    · next h =>
      rw [h] at ih
      split
      · next hz =>
        have := (L.isZero_iff c hf.1).1 hz
        simp [← ih, this]
      · simp [← ih]
    · simp [ih]

theorem dropTrailingZeros_prefix (f : UPoly α) : dropTrailingZeros F f <+: f := by
  induction f with
  | nil => exact List.prefix_refl _
  | cons c t ih =>
    rw [dropTrailingZeros_cons]
    split
    · split
      · exact List.nil_prefix
      · exact ⟨t, rfl⟩
    · exact (List.prefix_cons_inj c).2 ih

theorem dropTrailingZeros_getLast (f : UPoly α) (h : dropTrailingZeros F f ≠ []) :
    F.isZero ((dropTrailingZeros F f).getLast h) = false := by
  induction f with
  | nil => exact absurd rfl h
  | cons c t ih =>
    have e := dropTrailingZeros_cons (F := F) c t
    by_cases ht : dropTrailingZeros F t = []
    · rw [if_pos ht] at e
      by_cases hz : F.isZero c = true
      · rw [if_pos hz] at e; exact absurd e h
      · rw [if_neg hz] at e
        simp only [e, List.getLast_singleton]
        simpa using hz
    · rw [if_neg ht] at e
      simp only [e, List.getLast_cons ht]
      exact ih ht

theorem dropTrailingZeros_eq_nil_iff (f : UPoly α) :
    dropTrailingZeros F f = [] ↔ ∀ c ∈ f, F.isZero c = true := by
  induction f with
  | nil => simp [dropTrailingZeros]
  | cons c t ih =>
    rw [dropTrailingZeros_cons]
    by_cases ht : dropTrailingZeros F t = []
    · rw [if_pos ht]
      by_cases hz : F.isZero c = true
      · simpa [hz] using ih.1 ht
      · simp [hz]
    · rw [if_neg ht]
      simp only [reduceCtorEq, false_iff]
      intro h
      exact ht (ih.2 fun c hc => h c (List.mem_cons_of_mem _ hc))

/-- a list whose last entry is nonzero is not shortened -/
theorem dropTrailingZeros_of_getLast (f : UPoly α) (h : f ≠ [])
    (hl : F.isZero (f.getLast h) = false) : dropTrailingZeros F f = f := by
  induction f with
  | nil => exact absurd rfl h
  | cons c t ih =>
    rw [dropTrailingZeros_cons]
    by_cases ht : t = []
    · subst ht
      simp only [List.getLast_singleton] at hl
      simp [dropTrailingZeros, hl]
    · rw [List.getLast_cons ht] at hl
      rw [ih ht hl, if_neg ht]

theorem canon_iff (f : UPoly α) :
    Canon F f ↔ ∃ h : f ≠ [], f.length > 1 → F.isZero (f.getLast h) = false := by
  unfold Canon
  constructor
  · rintro ⟨h, h2⟩
    refine ⟨h, fun hl => ?_⟩
    have := h2 hl
    rwa [List.getLast?_eq_getLast_of_ne_nil h] at this
  · rintro ⟨h, h2⟩
    refine ⟨h, fun hl => ?_⟩
    rw [List.getLast?_eq_getLast_of_ne_nil h]
    exact h2 hl

theorem trim_canon (f : UPoly α) : Canon F (trim F f) := by
  unfold trim
  split
  · simp [Canon]
  · next h =>
    rw [canon_iff]
    exact ⟨h, fun _ => dropTrailingZeros_getLast f h⟩

theorem trim_allValid {f : UPoly α} (hf : AllValid L f) : AllValid L (trim F f) := by
  unfold trim
  split
  · intro c hc
    simp only [List.mem_singleton] at hc
    subst hc
    cases f with
    | nil => exact L.zero_valid
    | cons a t => exact hf a (List.mem_cons_self)
  · intro c hc
    exact hf c ((dropTrailingZeros_prefix f).subset hc)

theorem toPoly_trim {f : UPoly α} (hf : AllValid L f) : toPoly L (trim F f) = toPoly L f := by
  unfold trim
  split
  · next h =>
    rw [← toPoly_dropTrailingZeros L hf, h]
    cases f with
    | nil => simp [L.embed_zero]
    | cons a t =>
      have hz := (dropTrailingZeros_eq_nil_iff (F := F) (a :: t)).1 h a List.mem_cons_self
      have := (L.isZero_iff a (hf a List.mem_cons_self)).1 hz
      simp [this]
  · exact toPoly_dropTrailingZeros L hf

theorem trim_wf {f : UPoly α} (hf : AllValid L f) : WF L (trim F f) :=
  ⟨trim_allValid L hf, trim_canon f⟩

/-- canonical lists are fixed by `trim` -/
theorem trim_of_canon {f : UPoly α} (hf : Canon F f) : trim F f = f := by
  obtain ⟨hne, hl⟩ := (canon_iff f).1 hf
  unfold trim
  by_cases h1 : f.length > 1
  · rw [dropTrailingZeros_of_getLast f hne (hl h1)]
    cases f with
    | nil => exact absurd rfl hne
    | cons a t => rfl
  · match f, hne, h1 with
    | [c], _, _ =>
      by_cases hz : F.isZero c = true <;> simp [dropTrailingZeros, hz]
    | _ :: _ :: _, _, h1 => simp at h1

/-! ### canonical form in terms of `lc` -/

theorem canon_iff_lc (f : UPoly α) :
    Canon F f ↔ f ≠ [] ∧ (f.length > 1 → F.isZero (lc F f) = false) := by
  unfold Canon lc coef ld
  rw [List.getLast?_eq_getElem?, List.getD_eq_getElem?_getD]

theorem getD_set (f : UPoly α) (d i : Nat) (v z : α) :
    (f.set d v).getD i z = if d = i ∧ d < f.length then v else f.getD i z := by
  rw [List.getD_eq_getElem?_getD, List.getElem?_set, List.getD_eq_getElem?_getD]
  by_cases h : d = i
  · subst h
    by_cases h2 : d < f.length
    · simp [h2]
    · simp [h2]
  · simp [h]

theorem set_canon {f : UPoly α} (hf : Canon F f) (d : Nat) {v : α} (hv : F.isZero v = false) :
    Canon F (f.set d v) := by
  rw [canon_iff_lc] at hf ⊢
  obtain ⟨hne, hl⟩ := hf
  refine ⟨by simpa using hne, fun h => ?_⟩
  rw [List.length_set] at h
  have := hl h
  unfold lc coef ld at this ⊢
  rw [List.length_set, getD_set]
  split
  · exact hv
  · exact this

/-! ### `extend` -/

theorem toPoly_extend (f : UPoly α) {d : Nat} (hd : f.length ≤ d) (v : α) :
    toPoly L (extend F f d v) = toPoly L f + monomial d (L.embed v) := by
  unfold extend
  rw [toPoly_append, toPoly_append, toPoly_replicate_zero, toPoly_singleton, List.length_append,
    List.length_replicate, X_pow_mul_C, C_mul_X_pow_eq_monomial]
  have : f.length + (d - f.length) = d := by omega
  rw [this]; simp

theorem extend_canon (f : UPoly α) (d : Nat) {v : α} (hv : F.isZero v = false) :
    Canon F (extend F f d v) := by
  unfold Canon extend
  refine ⟨by simp, fun _ => ?_⟩
  simp [hv]

theorem extend_allValid {f : UPoly α} (hf : AllValid L f) (d : Nat) {v : α} (hv : L.valid v) :
    AllValid L (extend F f d v) := by
  unfold extend
  rw [allValid_append, allValid_append]
  refine ⟨⟨hf, ?_⟩, ?_⟩
  · intro c hc
    rw [List.mem_replicate] at hc
    exact hc.2 ▸ L.zero_valid
  · intro c hc
    rw [List.mem_singleton] at hc
    exact hc ▸ hv

theorem extend_wf {f : UPoly α} (hf : AllValid L f) (d : Nat) {v : α} (hv : L.valid v)
    (hz : F.isZero v = false) : WF L (extend F f d v) :=
  ⟨extend_allValid L hf d hv, extend_canon f d hz⟩

/-! ### `set` -/

theorem toPoly_set (f : UPoly α) {d : Nat} (hd : d < f.length) (v : α) :
    toPoly L (f.set d v) = toPoly L f + monomial d (L.embed v - L.embed (coef F f d)) := by
  induction f generalizing d with
  | nil => simp at hd
  | cons c t ih =>
    cases d with
    | zero =>
      simp only [List.set_cons_zero, toPoly_cons, coef, List.getD_cons_zero, monomial_zero_left,
        C_sub]
      ring
    | succ d =>
      have hd' : d < t.length := by simpa using hd
      simp only [List.set_cons_succ, toPoly_cons, ih hd', coef, List.getD_cons_succ, mul_add,
        X_mul_monomial]
      ring

theorem ld_lt_length {f : UPoly α} (hf : f ≠ []) {d : Nat} (hd : d ≤ ld f) : d < f.length := by
  have := List.length_pos_of_ne_nil hf
  unfold ld at hd; omega

theorem coef_of_length_le (f : UPoly α) {d : Nat} (hd : f.length ≤ d) : coef F f d = F.zero :=
  List.getD_eq_default _ _ hd

/-! ### `setCoef`, `incCoef`, `decCoef`, `removeCoef` -/

theorem toPoly_setCoef {f : UPoly α} (hf : WF L f) (d : Nat) {v : α} (hv : L.valid v) :
    toPoly L (setCoef F f d v) =
      toPoly L f + monomial d (L.embed v - L.embed (coef F f d)) := by
  unfold setCoef
  split
  · next hd =>
    have hd' := ld_lt_length hf.2.1 hd
    simp only []
    split
    · rw [toPoly_trim L (hf.1.set L d hv), toPoly_set L f hd']
    · rw [toPoly_set L f hd']
  · next hd =>
    have hd' : f.length ≤ d := by unfold ld at hd; omega
    rw [coef_of_length_le f hd', L.embed_zero, sub_zero]
    split
    · next hz => rw [(L.isZero_iff v hv).1 hz]; simp
    · exact toPoly_extend L f hd' v

theorem setCoef_wf {f : UPoly α} (hf : WF L f) (d : Nat) {v : α} (hv : L.valid v) :
    WF L (setCoef F f d v) := by
  unfold setCoef
  split
  · simp only []
    split
    · exact trim_wf L (hf.1.set L d hv)
    · next hz => exact ⟨hf.1.set L d hv, set_canon hf.2 d (by simpa using hz)⟩
  · split
    · exact hf
    · next hz => exact extend_wf L hf.1 d hv (by simpa using hz)

theorem toPoly_incCoef {f : UPoly α} (hf : WF L f) (d : Nat) {v : α} (hv : L.valid v) :
    toPoly L (incCoef F f d v) = toPoly L f + monomial d (L.embed v) := by
  unfold incCoef
  split
  · next hz => rw [(L.isZero_iff v hv).1 hz]; simp
  · split
    · next hd =>
      have hd' := ld_lt_length hf.2.1 hd
      have hc := hf.1.coef L d
      rw [toPoly_trim L (hf.1.set L d (L.add_valid _ _ hc hv)), toPoly_set L f hd',
        L.embed_add _ _ hc hv, add_sub_cancel_left]
    · next hd =>
      exact toPoly_extend L f (by unfold ld at hd; omega) v

theorem incCoef_wf {f : UPoly α} (hf : WF L f) (d : Nat) {v : α} (hv : L.valid v) :
    WF L (incCoef F f d v) := by
  unfold incCoef
  split
  · exact hf
  · next hz =>
    split
    · exact trim_wf L (hf.1.set L d (L.add_valid _ _ (hf.1.coef L d) hv))
    · exact extend_wf L hf.1 d hv (by simpa using hz)

theorem isZero_neg {v : α} (hv : L.valid v) (hz : F.isZero v = false) :
    F.isZero (F.neg v) = false := by
  rw [L.isZero_false_iff _ (L.neg_valid v hv), L.embed_neg v hv, neg_ne_zero]
  exact (L.isZero_false_iff v hv).1 hz

theorem toPoly_decCoef {f : UPoly α} (hf : WF L f) (d : Nat) {v : α} (hv : L.valid v) :
    toPoly L (decCoef F f d v) = toPoly L f - monomial d (L.embed v) := by
  unfold decCoef
  split
  · next hz => rw [(L.isZero_iff v hv).1 hz]; simp
  · split
    · next hd =>
      have hd' := ld_lt_length hf.2.1 hd
      have hc := hf.1.coef L d
      rw [toPoly_trim L (hf.1.set L d (L.sub_valid _ _ hc hv)), toPoly_set L f hd',
        L.embed_sub _ _ hc hv, sub_sub_cancel_left, monomial_neg, sub_eq_add_neg]
    · next hd =>
      rw [toPoly_extend L f (by unfold ld at hd; omega), L.embed_neg v hv, monomial_neg,
        sub_eq_add_neg]

theorem decCoef_wf {f : UPoly α} (hf : WF L f) (d : Nat) {v : α} (hv : L.valid v) :
    WF L (decCoef F f d v) := by
  unfold decCoef
  split
  · exact hf
  · next hz =>
    split
    · exact trim_wf L (hf.1.set L d (L.sub_valid _ _ (hf.1.coef L d) hv))
    · exact extend_wf L hf.1 d (L.neg_valid v hv) (isZero_neg L hv (by simpa using hz))

theorem toPoly_removeCoef {f : UPoly α} (hf : WF L f) (d : Nat) :
    toPoly L (removeCoef F f d) = toPoly L f - monomial d ((toPoly L f).coeff d) := by
  unfold removeCoef
  rw [coeff_toPoly_coef]
  split
  · next hd =>
    rw [toPoly_trim L (hf.1.set L d L.zero_valid), toPoly_set L f (ld_lt_length hf.2.1 hd),
      L.embed_zero, zero_sub, monomial_neg, sub_eq_add_neg]
  · next hd =>
    rw [coef_of_length_le f (by unfold ld at hd; omega), L.embed_zero]; simp

theorem removeCoef_wf {f : UPoly α} (hf : WF L f) (d : Nat) : WF L (removeCoef F f d) := by
  unfold removeCoef
  split
  · exact trim_wf L (hf.1.set L d L.zero_valid)
  · exact hf

/-! ### `foldCoefs` with an index offset -/

/-- `foldCoefs` started at index `n` (the induction-friendly generalisation) -/
def foldCoefsFrom {β : Type} (n : Nat) (g : UPoly α) (init : β) (step : β → Nat → α → β) : β :=
  (g.zipIdx n).foldl (fun acc (c, i) => step acc i c) init

theorem foldCoefs_eq {β : Type} (g : UPoly α) (init : β) (step : β → Nat → α → β) :
    foldCoefs g init step = foldCoefsFrom 0 g init step := rfl

@[simp] theorem foldCoefsFrom_nil {β : Type} (n : Nat) (init : β) (step : β → Nat → α → β) :
    foldCoefsFrom n ([] : UPoly α) init step = init := rfl

@[simp] theorem foldCoefsFrom_cons {β : Type} (n : Nat) (c : α) (t : UPoly α) (init : β)
    (step : β → Nat → α → β) :
    foldCoefsFrom n (c :: t) init step = foldCoefsFrom (n + 1) t (step init n c) step := by
  simp [foldCoefsFrom, List.zipIdx_cons]

/-- generic specification of a coefficient-wise accumulation: if each step adds
    `monomial i (embed c) * P` and keeps well-formedness, the fold adds `X^n * g * P`. -/
theorem foldCoefsFrom_spec (step : UPoly α → Nat → α → UPoly α) (P : K[X])
    (hstep : ∀ acc i c, WF L acc → L.valid c →
      WF L (step acc i c) ∧ toPoly L (step acc i c) = toPoly L acc + monomial i (L.embed c) * P)
    (g : UPoly α) (n : Nat) (acc : UPoly α) (hg : AllValid L g) (hacc : WF L acc) :
    WF L (foldCoefsFrom n g acc step) ∧
      toPoly L (foldCoefsFrom n g acc step) = toPoly L acc + X ^ n * toPoly L g * P := by
  induction g generalizing n acc with
  | nil => simp [hacc]
  | cons c t ih =>
    rw [allValid_cons] at hg
    obtain ⟨h1, h2⟩ := hstep acc n c hacc hg.1
    obtain ⟨h3, h4⟩ := ih (n + 1) (step acc n c) hg.2 h1
    rw [foldCoefsFrom_cons]
    refine ⟨h3, ?_⟩
    rw [h4, h2, toPoly_cons, ← C_mul_X_pow_eq_monomial, pow_succ]
    ring

theorem foldCoefs_spec (step : UPoly α → Nat → α → UPoly α) (P : K[X])
    (hstep : ∀ acc i c, WF L acc → L.valid c →
      WF L (step acc i c) ∧ toPoly L (step acc i c) = toPoly L acc + monomial i (L.embed c) * P)
    (g : UPoly α) (acc : UPoly α) (hg : AllValid L g) (hacc : WF L acc) :
    WF L (foldCoefs g acc step) ∧
      toPoly L (foldCoefs g acc step) = toPoly L acc + toPoly L g * P := by
  have := foldCoefsFrom_spec L step P hstep g 0 acc hg hacc
  rw [foldCoefs_eq]
  simpa using this

/-! ### `add`, `sub` -/

theorem add_spec {f g : UPoly α} (hf : WF L f) (hg : AllValid L g) :
    WF L (add F f g) ∧ toPoly L (add F f g) = toPoly L f + toPoly L g := by
  have := foldCoefs_spec L (fun acc d c => incCoef F acc d c) 1
    (fun acc i c hacc hc => ⟨incCoef_wf L hacc i hc, by rw [toPoly_incCoef L hacc i hc, mul_one]⟩)
    g f hg hf
  simpa [add] using this

theorem toPoly_add {f g : UPoly α} (hf : WF L f) (hg : AllValid L g) :
    toPoly L (add F f g) = toPoly L f + toPoly L g := (add_spec L hf hg).2

theorem add_wf {f g : UPoly α} (hf : WF L f) (hg : AllValid L g) : WF L (add F f g) :=
  (add_spec L hf hg).1

theorem sub_spec {f g : UPoly α} (hf : WF L f) (hg : AllValid L g) :
    WF L (sub F f g) ∧ toPoly L (sub F f g) = toPoly L f - toPoly L g := by
  have := foldCoefs_spec L (fun acc d c => decCoef F acc d c) (-1)
    (fun acc i c hacc hc => ⟨decCoef_wf L hacc i hc, by
      rw [toPoly_decCoef L hacc i hc, mul_neg, mul_one, sub_eq_add_neg]⟩)
    g f hg hf
  simpa [sub, sub_eq_add_neg] using this

theorem toPoly_sub {f g : UPoly α} (hf : WF L f) (hg : AllValid L g) :
    toPoly L (sub F f g) = toPoly L f - toPoly L g := (sub_spec L hf hg).2

theorem sub_wf {f g : UPoly α} (hf : WF L f) (hg : AllValid L g) : WF L (sub F f g) :=
  (sub_spec L hf hg).1

/-! ### coefficient-wise maps: `neg`, `scale` -/

theorem map_canon {f : UPoly α} (hf : WF L f) (h : α → α)
    (hh : ∀ x, L.valid x → F.isZero x = false → F.isZero (h x) = false) :
    Canon F (f.map h) := by
  have hc := hf.2
  rw [canon_iff_lc] at hc ⊢
  obtain ⟨hne, hl⟩ := hc
  refine ⟨by simpa using hne, fun hlen => ?_⟩
  rw [List.length_map] at hlen
  have h1 := hl hlen
  have hpos : f.length - 1 < f.length := by omega
  unfold lc coef ld at h1 ⊢
  rw [List.getD_eq_getElem _ _ hpos] at h1
  rw [List.length_map, List.getD_eq_getElem _ _ (by simpa using hpos), List.getElem_map]
  exact hh _ (hf.1 _ (List.getElem_mem hpos)) h1

theorem map_allValid {f : UPoly α} (hf : AllValid L f) (h : α → α)
    (hh : ∀ x, L.valid x → L.valid (h x)) : AllValid L (f.map h) := by
  intro c hc
  rw [List.mem_map] at hc
  obtain ⟨x, hx, rfl⟩ := hc
  exact hh x (hf x hx)

theorem toPoly_neg {f : UPoly α} (hf : AllValid L f) : toPoly L (neg F f) = - toPoly L f := by
  unfold neg
  induction f with
  | nil => simp
  | cons c t ih =>
    rw [allValid_cons] at hf
    simp only [List.map_cons, toPoly_cons, ih hf.2, L.embed_neg c hf.1, C_neg]
    ring

theorem neg_wf {f : UPoly α} (hf : WF L f) : WF L (neg F f) :=
  ⟨map_allValid L hf.1 _ L.neg_valid, map_canon L hf _ fun _ hx hz => isZero_neg L hx hz⟩

theorem toPoly_map_mul {f : UPoly α} (hf : AllValid L f) {c : α} (hc : L.valid c) :
    toPoly L (f.map fun x => F.mul x c) = C (L.embed c) * toPoly L f := by
  induction f with
  | nil => simp
  | cons a t ih =>
    rw [allValid_cons] at hf
    simp only [List.map_cons, toPoly_cons, ih hf.2, L.embed_mul a c hf.1 hc, C_mul]
    ring

theorem toPoly_scale {f : UPoly α} (hf : AllValid L f) {c : α} (hc : L.valid c) :
    toPoly L (scale F f c) = C (L.embed c) * toPoly L f := by
  unfold scale
  split
  · next hz => rw [toPoly_zero, (L.isZero_iff c hc).1 hz]; simp
  · exact toPoly_map_mul L hf hc

theorem scale_wf {f : UPoly α} (hf : WF L f) {c : α} (hc : L.valid c) : WF L (scale F f c) := by
  unfold scale
  split
  · exact wf_zero L
  · next hz =>
    have hc0 : L.embed c ≠ 0 := (L.isZero_false_iff c hc).1 (by simpa using hz)
    refine ⟨map_allValid L hf.1 _ fun x hx => L.mul_valid x c hx hc, map_canon L hf _ ?_⟩
    intro x hx hxz
    rw [L.isZero_false_iff _ (L.mul_valid x c hx hc), L.embed_mul x c hx hc]
    exact mul_ne_zero ((L.isZero_false_iff x hx).1 hxz) hc0

/-! ### `subShiftScale` -/

theorem subShiftScale_spec {f g : UPoly α} (hf : WF L f) (hg : AllValid L g) (i : Nat) {a : α}
    (ha : L.valid a) :
    WF L (subShiftScale F f g i a) ∧
      toPoly L (subShiftScale F f g i a) = toPoly L f - C (L.embed a) * X ^ i * toPoly L g := by
  unfold subShiftScale
  split
  · next hz => rw [(L.isZero_iff a ha).1 hz]; simp [hf]
  · split
    · next h1 =>
      have ha1 := (L.isOne_iff a ha).1 h1
      have := foldCoefs_spec L
        (fun acc d c => if F.isZero c then acc else decCoef F acc (d + i) c) (-(X ^ i))
        (fun acc d c hacc hc => by
          split
          · next hz => rw [(L.isZero_iff c hc).1 hz]; simp [hacc]
          · refine ⟨decCoef_wf L hacc _ hc, ?_⟩
            rw [toPoly_decCoef L hacc _ hc, mul_neg, monomial_mul_X_pow, sub_eq_add_neg])
        g f hg hf
      refine ⟨this.1, ?_⟩
      rw [this.2, ha1]; simp; ring
    · have := foldCoefs_spec L
        (fun acc d c => if F.isZero c then acc else decCoef F acc (d + i) (F.mul a c))
        (-(C (L.embed a) * X ^ i))
        (fun acc d c hacc hc => by
          split
          · next hz => rw [(L.isZero_iff c hc).1 hz]; simp [hacc]
          · have hv := L.mul_valid a c ha hc
            refine ⟨decCoef_wf L hacc _ hv, ?_⟩
            rw [toPoly_decCoef L hacc _ hv, L.embed_mul a c ha hc, mul_neg, ← mul_assoc,
              monomial_mul_C, monomial_mul_X_pow, sub_eq_add_neg, mul_comm (L.embed c)])
        g f hg hf
      refine ⟨this.1, ?_⟩
      rw [this.2]; ring

theorem toPoly_subShiftScale {f g : UPoly α} (hf : WF L f) (hg : AllValid L g) (i : Nat) {a : α}
    (ha : L.valid a) :
    toPoly L (subShiftScale F f g i a) = toPoly L f - C (L.embed a) * X ^ i * toPoly L g :=
  (subShiftScale_spec L hf hg i ha).2

theorem subShiftScale_wf {f g : UPoly α} (hf : WF L f) (hg : AllValid L g) (i : Nat) {a : α}
    (ha : L.valid a) : WF L (subShiftScale F f g i a) :=
  (subShiftScale_spec L hf hg i ha).1

/-! ### `mulNoReduce` -/

theorem toPoly_eq_zero_of_isZero {f : UPoly α} (hf : AllValid L f) (h : isZero F f = true) :
    toPoly L f = 0 := by
  match f, h with
  | [c], h =>
    have : F.isZero c = true := h
    rw [toPoly_singleton, (L.isZero_iff c (hf c (List.mem_singleton_self c))).1 this, C_0]

theorem mulNoReduce_spec {f g : UPoly α} (hf : AllValid L f) (hg : AllValid L g) :
    WF L (mulNoReduce F f g) ∧ toPoly L (mulNoReduce F f g) = toPoly L f * toPoly L g := by
  unfold mulNoReduce
  split
  · next hz =>
    refine ⟨wf_zero L, ?_⟩
    rw [toPoly_zero]
    rw [Bool.or_eq_true] at hz
    rcases hz with hz | hz
    · rw [toPoly_eq_zero_of_isZero L hf hz, zero_mul]
    · rw [toPoly_eq_zero_of_isZero L hg hz, mul_zero]
  · have := foldCoefs_spec L
      (fun h df cf => if F.isZero cf then h
        else foldCoefs g h fun h dg cg =>
          if F.isZero cg then h else incCoef F h (df + dg) (F.mul cf cg))
      (toPoly L g)
      (fun acc df cf hacc hcf => by
        split
        · next hz => rw [(L.isZero_iff cf hcf).1 hz]; simp [hacc]
        · have := foldCoefs_spec L
            (fun h dg cg => if F.isZero cg then h else incCoef F h (df + dg) (F.mul cf cg))
            (monomial df (L.embed cf))
            (fun acc dg cg hacc hcg => by
              split
              · next hz => rw [(L.isZero_iff cg hcg).1 hz]; simp [hacc]
              · have hv := L.mul_valid cf cg hcf hcg
                refine ⟨incCoef_wf L hacc _ hv, ?_⟩
                rw [toPoly_incCoef L hacc _ hv, L.embed_mul cf cg hcf hcg,
                  monomial_mul_monomial, add_comm dg df, mul_comm (L.embed cg)])
            g acc hg hacc
          refine ⟨this.1, ?_⟩
          rw [this.2, mul_comm])
      f (zero F) hf (wf_zero L)
    refine ⟨this.1, ?_⟩
    rw [this.2, toPoly_zero, zero_add]

theorem toPoly_mulNoReduce {f g : UPoly α} (hf : AllValid L f) (hg : AllValid L g) :
    toPoly L (mulNoReduce F f g) = toPoly L f * toPoly L g := (mulNoReduce_spec L hf hg).2

theorem mulNoReduce_wf {f g : UPoly α} (hf : AllValid L f) (hg : AllValid L g) :
    WF L (mulNoReduce F f g) := (mulNoReduce_spec L hf hg).1

/-! ### observers: `ld`, `lc`, `isZero`, `isOne` -/

theorem WF.embed_lc_ne_zero {f : UPoly α} (hf : WF L f) (hl : 1 < f.length) :
    L.embed (lc F f) ≠ 0 := by
  have := ((canon_iff_lc f).1 hf.2).2 hl
  exact (L.isZero_false_iff _ (hf.1.coef L _)).1 this

theorem natDegree_toPoly {f : UPoly α} (hf : WF L f) : (toPoly L f).natDegree = ld f := by
  apply le_antisymm
  · rw [natDegree_le_iff_coeff_eq_zero]
    intro N hN
    exact coeff_toPoly_of_le L f N (by unfold ld at hN; omega)
  · by_cases hl : 1 < f.length
    · apply le_natDegree_of_ne_zero
      rw [coeff_toPoly_coef]
      exact hf.embed_lc_ne_zero L hl
    · unfold ld; omega

theorem ld_eq_natDegree {f : UPoly α} (hf : WF L f) : ld f = (toPoly L f).natDegree :=
  (natDegree_toPoly L hf).symm

theorem length_eq_natDegree_succ {f : UPoly α} (hf : WF L f) :
    f.length = (toPoly L f).natDegree + 1 := by
  have := hf.length_pos L
  rw [natDegree_toPoly L hf]; unfold ld; omega

theorem embed_lc {f : UPoly α} (hf : WF L f) : L.embed (lc F f) = (toPoly L f).leadingCoeff := by
  rw [leadingCoeff, natDegree_toPoly L hf, coeff_toPoly_coef]; rfl

theorem lc_valid {f : UPoly α} (hf : AllValid L f) : L.valid (lc F f) := hf.coef L _

theorem toPoly_ne_zero_of_length {f : UPoly α} (hf : WF L f) (hl : 1 < f.length) :
    toPoly L f ≠ 0 := by
  intro h
  apply hf.embed_lc_ne_zero L hl
  have := coeff_toPoly_coef L f (ld f)
  rw [h, coeff_zero] at this
  exact this.symm

theorem isZero_iff {f : UPoly α} (hf : WF L f) : isZero F f = true ↔ toPoly L f = 0 := by
  constructor
  · exact toPoly_eq_zero_of_isZero L hf.1
  · intro h
    match f, hf, h with
    | [], hf, _ => exact absurd rfl hf.2.1
    | [c], hf, h =>
      rw [toPoly_singleton, C_eq_zero] at h
      exact (L.isZero_iff c (hf.1 c (List.mem_singleton_self c))).2 h
    | a :: b :: t, hf, h => exact absurd h (toPoly_ne_zero_of_length L hf (by simp))

theorem isZero_eq_false_iff {f : UPoly α} (hf : WF L f) : isZero F f = false ↔ toPoly L f ≠ 0 := by
  rw [← Bool.not_eq_true, isZero_iff L hf]

theorem isOne_iff {f : UPoly α} (hf : WF L f) : isOne F f = true ↔ toPoly L f = 1 := by
  match f, hf with
  | [], hf => exact absurd rfl hf.2.1
  | [c], hf =>
    have hc := hf.1 c (List.mem_singleton_self c)
    show F.isOne c = true ↔ _
    rw [toPoly_singleton, L.isOne_iff c hc, ← C_1, C_inj]
  | a :: b :: t, hf =>
    constructor
    · intro h; cases h
    · intro h
      have := length_eq_natDegree_succ L hf
      rw [h, natDegree_one] at this
      simp at this

theorem lc_isZero_false {f : UPoly α} (hf : WF L f) (h : toPoly L f ≠ 0) :
    F.isZero (lc F f) = false := by
  rw [L.isZero_false_iff _ (lc_valid L hf.1), embed_lc L hf]
  exact leadingCoeff_ne_zero.2 h

/-! ### injectivity and `equal` -/

theorem toPoly_injective_on_WF {f g : UPoly α} (hf : WF L f) (hg : WF L g)
    (h : toPoly L f = toPoly L g) : f = g := by
  have hlen : f.length = g.length := by
    rw [length_eq_natDegree_succ L hf, length_eq_natDegree_succ L hg, h]
  apply List.ext_getElem hlen
  intro i h1 h2
  apply L.inj _ _ (hf.1 _ (List.getElem_mem h1)) (hg.1 _ (List.getElem_mem h2))
  have := congrArg (fun p => p.coeff i) h
  simp only [coeff_toPoly] at this
  rwa [List.getD_eq_getElem _ _ h1, List.getD_eq_getElem _ _ h2] at this

theorem equal_iff_eq {f g : UPoly α} (hf : AllValid L f) (hg : AllValid L g) :
    equal F f g = true ↔ f = g := by
  induction f generalizing g with
  | nil =>
    cases g with
    | nil => simp [equal]
    | cons b t => simp [equal]
  | cons a s ih =>
    cases g with
    | nil => simp [equal]
    | cons b t =>
      rw [allValid_cons] at hf hg
      have := ih hf.2 hg.2
      simp only [equal, Bool.and_eq_true, beq_iff_eq, List.all_eq_true] at this
      simp only [equal, List.length_cons, List.zip_cons_cons, List.all_cons, Bool.and_eq_true,
        beq_iff_eq, Nat.add_right_cancel_iff, List.all_eq_true, List.cons.injEq,
        L.beq_iff a b hf.1 hg.1, ← this]
      tauto

theorem equal_iff {f g : UPoly α} (hf : WF L f) (hg : WF L g) :
    equal F f g = true ↔ toPoly L f = toPoly L g := by
  rw [equal_iff_eq L hf.1 hg.1]
  exact ⟨fun h => h ▸ rfl, toPoly_injective_on_WF L hf hg⟩

/-! ### `degrees`, `nTerms`, `isMonomial` -/

theorem mem_degrees {f : UPoly α} (hf : AllValid L f) (d : Nat) :
    d ∈ degrees F f ↔ (toPoly L f).coeff d ≠ 0 := by
  unfold degrees
  rw [coeff_toPoly]
  simp only [List.mem_reverse, List.mem_map, List.mem_filter, Prod.exists, exists_eq_right,
    List.mem_zipIdx_iff_getElem?, Bool.not_eq_eq_eq_not, Bool.not_true]
  constructor
  · rintro ⟨c, hc, hz⟩
    have hd : d < f.length := (List.getElem?_eq_some_iff.1 hc).1
    have hcv : c = f[d] := ((List.getElem?_eq_some_iff.1 hc).2).symm
    rw [List.getD_eq_getElem _ _ hd, ← hcv]
    exact (L.isZero_false_iff c (hcv ▸ hf _ (List.getElem_mem hd))).1 hz
  · intro h
    have hd : d < f.length := by
      by_contra hd
      rw [List.getD_eq_default _ _ (by omega)] at h
      exact h L.embed_zero
    rw [List.getD_eq_getElem _ _ hd] at h
    exact ⟨f[d], List.getElem?_eq_getElem hd,
      (L.isZero_false_iff _ (hf _ (List.getElem_mem hd))).2 h⟩

theorem degrees_sorted (f : UPoly α) : (degrees F f).Pairwise (· > ·) := by
  unfold degrees
  rw [List.pairwise_reverse]
  have h1 : ((f.zipIdx).filter fun (c, _) => !F.isZero c).Sublist f.zipIdx := List.filter_sublist
  have h2 := h1.map Prod.snd
  rw [List.zipIdx_map_snd] at h2
  exact (List.pairwise_lt_range' (s := 0) (n := f.length)).sublist h2

theorem degrees_nodup (f : UPoly α) : (degrees F f).Nodup :=
  (degrees_sorted f).imp fun h => Nat.ne_of_gt h

theorem degrees_toFinset {f : UPoly α} (hf : AllValid L f) :
    (degrees F f).toFinset = (toPoly L f).support := by
  ext d
  rw [List.mem_toFinset, mem_support_iff, mem_degrees L hf]

theorem degrees_length {f : UPoly α} (hf : AllValid L f) :
    (degrees F f).length = (toPoly L f).support.card := by
  rw [← degrees_toFinset L hf, List.toFinset_card_of_nodup (degrees_nodup f)]

theorem isMonomial_iff {f : UPoly α} (hf : AllValid L f) :
    isMonomial F f = true ↔ (toPoly L f).support.card = 1 := by
  unfold isMonomial
  rw [beq_iff_eq, degrees_length L hf]

open Classical in
theorem nTerms_eq {f : UPoly α} (hf : WF L f) :
    nTerms F f = if toPoly L f = 0 then 1 else (toPoly L f).support.card := by
  unfold nTerms
  by_cases h : toPoly L f = 0
  · rw [if_pos h, if_pos ((isZero_iff L hf).2 h)]
  · rw [if_neg h, if_neg (by rw [isZero_iff L hf]; exact h), degrees_length L hf.1]

/-! ### `lt` -/

theorem lt_wf {f : UPoly α} (hf : AllValid L f) : WF L (lt F f) :=
  setCoef_wf L (wf_zero L) _ (lc_valid L hf)

theorem toPoly_lt {f : UPoly α} (hf : WF L f) :
    toPoly L (lt F f) = monomial (toPoly L f).natDegree (toPoly L f).leadingCoeff := by
  unfold lt
  rw [toPoly_setCoef L (wf_zero L) _ (lc_valid L hf.1), toPoly_zero, zero_add, embed_lc L hf,
    natDegree_toPoly L hf]
  have : coef F (zero F) (ld f) = F.zero := by
    unfold coef zero
    cases ld f <;> simp
  rw [this, L.embed_zero, sub_zero]

/-! ### `eval` -/

/-- one step of the running-power loop of `Eval` -/
def evalStep (F : FOps α) (x : α) (p : α × α) (d : Nat) (c : α) : α × α :=
  (F.add p.1 (F.mul (if d > 0 then F.mul p.2 x else p.2) c), if d > 0 then F.mul p.2 x else p.2)

theorem eval_eq (f : UPoly α) (x : α) :
    eval F f x = (foldCoefsFrom 0 f (F.zero, F.one) (evalStep F x)).1 := rfl

theorem evalLoop_spec {x : α} (hx : L.valid x) (f : UPoly α) (n : Nat) (out pw : α)
    (hf : AllValid L f) (hout : L.valid out) (hpw : L.valid pw)
    (hpe : L.embed pw = L.embed x ^ (n - 1)) :
    L.valid (foldCoefsFrom n f (out, pw) (evalStep F x)).1 ∧
      L.embed (foldCoefsFrom n f (out, pw) (evalStep F x)).1 =
        L.embed out + L.embed x ^ n * (toPoly L f).eval (L.embed x) := by
  induction f generalizing n out pw with
  | nil => simp [hout]
  | cons c t ih =>
    rw [allValid_cons] at hf
    rw [foldCoefsFrom_cons]
    have hpw' : L.valid (if n > 0 then F.mul pw x else pw) := by
      split
      · exact L.mul_valid pw x hpw hx
      · exact hpw
    have hpe' : L.embed (if n > 0 then F.mul pw x else pw) = L.embed x ^ n := by
      split
      · next hn =>
        rw [L.embed_mul pw x hpw hx, hpe, ← pow_succ]
        congr 1; omega
      · next hn =>
        have : n = 0 := by omega
        subst this
        simpa using hpe
    have hm := L.mul_valid _ c hpw' hf.1
    obtain ⟨h1, h2⟩ := ih (n + 1) (F.add out (F.mul (if n > 0 then F.mul pw x else pw) c))
      (if n > 0 then F.mul pw x else pw) hf.2 (L.add_valid _ _ hout hm) hpw'
      (by rw [hpe']; rfl)
    refine ⟨h1, ?_⟩
    show L.embed (foldCoefsFrom (n + 1) t (F.add out (F.mul (if n > 0 then F.mul pw x else pw) c),
      if n > 0 then F.mul pw x else pw) (evalStep F x)).1 = _
    rw [h2, L.embed_add _ _ hout hm, L.embed_mul _ c hpw' hf.1, hpe', toPoly_cons, eval_add,
      eval_C, eval_mul, eval_X, pow_succ]
    ring

theorem eval_valid {f : UPoly α} (hf : AllValid L f) {x : α} (hx : L.valid x) :
    L.valid (eval F f x) := by
  rw [eval_eq]
  exact (evalLoop_spec L hx f 0 F.zero F.one hf L.zero_valid L.one_valid
    (by simp [L.embed_one])).1

theorem eval_spec {f : UPoly α} (hf : AllValid L f) {x : α} (hx : L.valid x) :
    L.embed (eval F f x) = (toPoly L f).eval (L.embed x) := by
  rw [eval_eq, (evalLoop_spec L hx f 0 F.zero F.one hf L.zero_valid L.one_valid
    (by simp [L.embed_one])).2, L.embed_zero]
  simp

/-! ### `normalize` -/

theorem normalize_spec {f : UPoly α} (hf : WF L f) :
    WF L (normalize F f) ∧
      toPoly L (normalize F f) = C ((toPoly L f).leadingCoeff)⁻¹ * toPoly L f := by
  unfold normalize
  split
  · next h =>
    refine ⟨hf, ?_⟩
    rw [Bool.or_eq_true] at h
    rcases h with h | h
    · rw [(isZero_iff L hf).1 h, mul_zero]
    · rw [← embed_lc L hf, (L.isOne_iff _ (lc_valid L hf.1)).1 h, inv_one, C_1, one_mul]
  · next h =>
    rw [Bool.or_eq_true, not_or] at h
    have h0 : toPoly L f ≠ 0 := fun h' => h.1 ((isZero_iff L hf).2 h')
    have hlc : L.embed (lc F f) ≠ 0 := by
      rw [embed_lc L hf]; exact leadingCoeff_ne_zero.2 h0
    obtain ⟨i, hi, hiv, hie⟩ := L.inv_some _ (lc_valid L hf.1) hlc
    rw [hi]
    refine ⟨scale_wf L hf hiv, ?_⟩
    rw [toPoly_scale L hf.1 hiv, hie, embed_lc L hf]

theorem toPoly_normalize {f : UPoly α} (hf : WF L f) :
    toPoly L (normalize F f) = C ((toPoly L f).leadingCoeff)⁻¹ * toPoly L f :=
  (normalize_spec L hf).2

theorem normalize_wf {f : UPoly α} (hf : WF L f) : WF L (normalize F f) := (normalize_spec L hf).1

theorem normalize_monic {f : UPoly α} (hf : WF L f) (h0 : toPoly L f ≠ 0) :
    (toPoly L (normalize F f)).Monic := by
  rw [toPoly_normalize L hf, Monic, leadingCoeff_mul, leadingCoeff_C,
    inv_mul_cancel₀ (leadingCoeff_ne_zero.2 h0)]

/-! ### further consequences used downstream -/

/-- `degrees` is exactly the support of the denoted polynomial listed in decreasing order -/
theorem degrees_eq_sort {f : UPoly α} (hf : AllValid L f) :
    degrees F f = (toPoly L f).support.sort (· ≥ ·) := by
  rw [← degrees_toFinset L hf]
  exact ((List.toFinset_sort (r := (· ≥ ·)) (degrees_nodup f)).2
    ((degrees_sorted f).imp fun h => Nat.le_of_lt h)).symm

theorem eq_zero_of_toPoly_eq_zero {f : UPoly α} (hf : WF L f) (h : toPoly L f = 0) :
    f = zero F :=
  toPoly_injective_on_WF L hf (wf_zero L) (by rw [h, toPoly_zero])

theorem eq_one_of_toPoly_eq_one {f : UPoly α} (hf : WF L f) (h : toPoly L f = 1) :
    f = one F :=
  toPoly_injective_on_WF L hf (wf_one L) (by rw [h, toPoly_one])

theorem coeff_setCoef {f : UPoly α} (hf : WF L f) (d : Nat) {v : α} (hv : L.valid v) (i : Nat) :
    (toPoly L (setCoef F f d v)).coeff i =
      if i = d then L.embed v else (toPoly L f).coeff i := by
  rw [toPoly_setCoef L hf d hv, coeff_add, coeff_monomial, coeff_toPoly_coef]
  by_cases h : i = d
  · subst h; simp
  · rw [if_neg (Ne.symm h), if_neg h, add_zero]

/-- the degree (as `WithBot ℕ`) read off a well-formed list -/
theorem degree_toPoly {f : UPoly α} (hf : WF L f) (h0 : toPoly L f ≠ 0) :
    (toPoly L f).degree = (ld f : WithBot ℕ) := by
  rw [degree_eq_natDegree h0, natDegree_toPoly L hf]

/-- the recursive `toPoly` agrees with the "sum of monomials over `zipIdx`" description -/
theorem toPoly_eq_sum_aux (f : UPoly α) (n : Nat) :
    ((f.zipIdx n).map fun (ci : α × Nat) => monomial ci.2 (L.embed ci.1)).sum =
      X ^ n * toPoly L f := by
  induction f generalizing n with
  | nil => simp
  | cons c t ih =>
    rw [List.zipIdx_cons, List.map_cons, List.sum_cons, ih, toPoly_cons,
      ← C_mul_X_pow_eq_monomial, pow_succ]
    ring

theorem toPoly_eq_sum (f : UPoly α) :
    toPoly L f = (f.zipIdx.map fun (c, i) => monomial i (L.embed c)).sum := by
  have := toPoly_eq_sum_aux L f 0
  simp only [pow_zero, one_mul] at this
  exact this.symm

end UPoly
end Algobra
