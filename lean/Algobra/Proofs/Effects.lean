/-
  Proofs/Effects.lean — helper definitions and lemmas for C20 (shared fields/rings) and the static
  half of C16, over the REGENERATED effect table `Algobra.Gen.effects` (Gen/Effects.lean, written by
  /verif/extract/effects.go from /repo on every run).

  Contents
   §1  kernel-reducible string helpers and table queries (no `String.splitOn`: it does not reduce
       in the kernel; everything here is structural recursion over `String.toList`)
   §2  type-resolved call graph: `callsInto`, inductive `Reachable`, computable fuel-bounded `reachKeys`,
       and the invariant lemma  roots ⊆ S ∧ S closed under calls  ⇒  Reachable ⊆ S
   §3  abstract footprint semantics and schedule independence (2 threads, n threads)
   §4  the tri-state Gröbner flag of the model `BPoly.Ideal` (guard argument)
  CORE LEAN ONLY (no Mathlib).
-/
import Algobra.Gen.Effects
import Algobra.Model.BPoly

namespace Algobra.Effects
open Algobra Algobra.Gen

/-! ## §1 string codes and table queries

  Kernel evaluation (`decide +kernel`) of `String` operations is slow in Lean 4.33 (a literal is
  `String.ofList chars`, i.e. a UTF-8 `ByteArray`; `String.toList` costs ≈ 25 ms per literal,
  `==` a few ms). We therefore map every string ONCE to a natural number (`code`, injective:
  `code_inj`) and do all name arithmetic (first / last dot-component, membership in name lists) on
  numbers, which the kernel evaluates with GMP. -/

/-- base-257 number whose digits (least significant first) are the bytes + 1 -/
def codeL : List UInt8 → Nat
  | [] => 0
  | b :: bs => (b.toNat + 1) + 257 * codeL bs

/-- injective numeric code of a string (over its UTF-8 bytes) -/
def code (s : String) : Nat := codeL s.toByteArray.data.toList

theorem codeL_inj : ∀ {a b : List UInt8}, codeL a = codeL b → a = b
  | [], [], _ => rfl
  | [], _ :: _, h => by simp only [codeL] at h; omega
  | _ :: _, [], h => by simp only [codeL] at h; omega
  | x :: xs, y :: ys, h => by
    simp only [codeL] at h
    have hx := x.toNat_lt
    have hy := y.toNat_lt
    have h1 : x.toNat = y.toNat := by omega
    have h2 : codeL xs = codeL ys := by omega
    rw [UInt8.toNat_inj.1 h1, codeL_inj h2]

theorem code_inj {a b : String} (h : code a = code b) : a = b := by
  have h1 := codeL_inj h
  apply String.toByteArray_inj.1
  have h2 : a.toByteArray.data = b.toByteArray.data := Array.toList_inj.1 h1
  cases ha : a.toByteArray; cases hb : b.toByteArray
  simp only [ha, hb] at h2
  rw [h2]

theorem code_eq_iff {a b : String} : code a = code b ↔ a = b := ⟨code_inj, fun h => h ▸ rfl⟩

/-- membership of a string in a list of strings, decided on codes -/
def memC (k : String) (l : List String) : Bool := (l.map code).contains (code k)

theorem memC_iff {k : String} {l : List String} : memC k l = true ↔ k ∈ l := by
  simp only [memC, List.contains_iff_mem, List.mem_map]
  constructor
  · rintro ⟨a, ha, h⟩; rw [← code_inj h]; exact ha
  · intro h; exact ⟨k, h, rfl⟩

/-- the digit of '.' -/
def dotDigit : Nat := 47

/-- enough fuel to visit every digit of `n` (each digit is ≥ 1 and the base exceeds 2^8) -/
def digitFuel (n : Nat) : Nat := n.log2 / 8 + 1

def headAux : Nat → Nat → Nat
  | 0, _ => 0
  | k + 1, n =>
    if n = 0 then 0 else if n % 257 = dotDigit then 0 else n % 257 + 257 * headAux k (n / 257)
/-- code of the first dot-component of the string with code `n` -/
def headC (n : Nat) : Nat := headAux (digitFuel n) n

def lastAux : Nat → Nat → Nat → Nat → Nat
  | 0, _, acc, _ => acc
  | k + 1, n, acc, m =>
    if n = 0 then acc
    else if n % 257 = dotDigit then lastAux k (n / 257) 0 1
    else lastAux k (n / 257) (acc + (n % 257) * m) (m * 257)
/-- code of the last dot-component of the string with code `n` -/
def lastC (n : Nat) : Nat := lastAux (digitFuel n) n 0 1

def hasDotAux : Nat → Nat → Bool
  | 0, _ => false
  | k + 1, n => if n = 0 then false else n % 257 == dotDigit || hasDotAux k (n / 257)
def hasDotC (n : Nat) : Bool := hasDotAux (digitFuel n) n

-- sanity of the numeric string functions
example : headC (code "bivariate.Ideal.IsGroebner") = code "bivariate" := by decide +kernel
example : lastC (code "bivariate.Ideal.IsGroebner") = code "IsGroebner" := by decide +kernel
example : lastC (code "Copy") = code "Copy" ∧ headC (code "Copy") = code "Copy" := by decide +kernel
example : headC (code "QuotientRing.varNames") = code "QuotientRing" := by decide +kernel
example : hasDotC (code "errors.New") = true ∧ hasDotC (code "Copy") = false := by decide +kernel
example : headC (code "[]Polynomial.err") = code "[]Polynomial" := by decide +kernel

/-- code of the package of a function (first component of its key "pkg.Recv.Name" / "pkg.Name") -/
def pkgC (f : Fn) : Nat := headC (code f.key)
/-- code of the function / method name (last component of the key) -/
def nameC (f : Fn) : Nat := lastC (code f.key)
/-- is the function's name one of `names` -/
def nameIn (f : Fn) (names : List String) : Bool := (names.map code).contains (nameC f)
/-- plain function (no receiver) -/
def noRecv (f : Fn) : Bool := code f.recv == 0

/-- the struct types whose objects are shared between goroutines in C20 -/
def sharedTypes : List String := ["Field", "table", "ring", "QuotientRing", "Ideal"]

/-- is the direct write "Type.field" a write into one of the struct types `types` -/
def typedIn (types : List String) (s : String) : Bool := (types.map code).contains (headC (code s))

/-- all (function key, "Type.field") DIRECT writes whose declared parameter type is in `types` -/
def typedWrites (types : List String) (t : List Fn) : List (String × String) :=
  t.flatMap fun f => (f.typed.filter (typedIn types)).map fun s => (f.key, s)

/-- all (function key, "Type.field") direct writes into shared struct types -/
def sharedWrites (t : List Fn) : List (String × String) := typedWrites sharedTypes t

def isSharedWriter (f : Fn) : Bool := f.typed.any (typedIn sharedTypes)

/-- all (function key, "Type.field") direct writes of exactly the given "Type.field" names -/
def writersOf (fields : List String) (t : List Fn) : List (String × String) :=
  t.flatMap fun f => (f.typed.filter fun s => memC s fields).map fun s => (f.key, s)

/-! ## §2 call graph (callees resolved by TYPE in the extractor) -/

/-- Does entry `c` of `caller.calls` denote `g`? The extractor resolves every call by type (go/types): a
    static call / a method call on a concrete type to its one callee, a call through an interface to the
    methods of that name of all types of the repository implementing the interface, a call of a function
    value to every function (literals: their enclosing function) with identical signature; `calls` lists
    the KEYS of the possible callees (entries "ext:…" / "dyn:…" name functions outside the repository /
    function-value signatures and match no key). -/
def resolves (_caller : Fn) (c : String) (g : Fn) : Bool := code g.key == code c

/-- the entries of `calls` that name functions outside the repository ("ext:pkg.Func") or calls of function
    values ("dyn:signature"): exactly those that are not a function key of the table -/
def outsideCalls (t : List Fn) : List String :=
  let ks := t.map fun f => code f.key
  (t.flatMap fun f => f.calls.filter fun c => !ks.contains (code c)).foldl
    (fun acc c => if (acc.map code).contains (code c) then acc else acc ++ [c]) []

def callsInto (f g : Fn) : Bool := f.calls.any fun c => resolves f c g

/-- reachability in the (type-resolved) call graph of table `t` from the functions satisfying `root` -/
inductive Reachable (t : List Fn) (root : Fn → Bool) : Fn → Prop
  | root {f} : f ∈ t → root f = true → Reachable t root f
  | call {f g} : Reachable t root f → g ∈ t → callsInto f g = true → Reachable t root g

theorem Reachable.mem {t root f} (h : Reachable t root f) : f ∈ t := by
  cases h <;> assumption

/-- one round of the closure on key lists (deduplicated by filtering the table) -/
def stepKeys (t : List Fn) (s : List String) : List String :=
  let sc := s.map code
  let inS := t.filter fun f => sc.contains (code f.key)
  (t.filter fun g => sc.contains (code g.key) || inS.any fun f => callsInto f g).map (·.key)

/-- fuel-bounded closure; stops at the first round that adds nothing -/
def closeKeys (t : List Fn) : Nat → List String → List String
  | 0, s => s
  | n + 1, s => let s' := stepKeys t s; if s'.length == s.length then s else closeKeys t n s'

def rootKeys (t : List Fn) (root : Fn → Bool) : List String := (t.filter root).map (·.key)

/-- computable reachable set (keys), for `#eval`; fuel = table length suffices since every productive
    round adds a key. The theorems use the inductive `Reachable` (no fuel). -/
def reachKeys (t : List Fn) (root : Fn → Bool) : List String := closeKeys t t.length (rootKeys t root)

/-- the check "no function outside `excl` may call a function inside `excl`", arranged so that
    the outer loop runs over the (short) excluded list -/
def closedCheck (t : List Fn) (excl : List String) : Bool :=
  (t.filter fun g => memC g.key excl).all fun g =>
    (t.filter fun f => !memC f.key excl).all fun f => !callsInto f g

def rootsCheck (t : List Fn) (root : Fn → Bool) (excl : List String) : Bool :=
  t.all fun f => !root f || !memC f.key excl

theorem closedCheck_spec {t : List Fn} {excl : List String} (h : closedCheck t excl = true)
    {f g : Fn} (hf : f ∈ t) (hg : g ∈ t) (hfe : f.key ∉ excl) (hc : callsInto f g = true) :
    g.key ∉ excl := by
  intro hge
  simp only [closedCheck, List.all_eq_true, List.mem_filter, Bool.not_eq_true', and_imp] at h
  have := h g hg (memC_iff.2 hge) f hf (by
    cases hm : memC f.key excl with
    | false => rfl
    | true => exact absurd (memC_iff.1 hm) hfe)
  rw [hc] at this
  exact Bool.noConfusion this

theorem rootsCheck_spec {t : List Fn} {root : Fn → Bool} {excl : List String}
    (h : rootsCheck t root excl = true) {f : Fn} (hf : f ∈ t) (hr : root f = true) : f.key ∉ excl := by
  intro hfe
  simp only [rootsCheck, List.all_eq_true] at h
  have := h f hf
  simp [hr, memC_iff.2 hfe] at this

/-- invariant lemma: if the roots avoid `excl` and nothing outside `excl` calls into `excl`,
    then nothing reachable lies in `excl` -/
theorem Reachable.avoids {t : List Fn} {root : Fn → Bool} {excl : List String}
    (hr : rootsCheck t root excl = true) (hc : closedCheck t excl = true)
    {f : Fn} (h : Reachable t root f) : f.key ∉ excl := by
  induction h with
  | root hf hroot => exact rootsCheck_spec hr hf hroot
  | call hf hg hcall ih => exact closedCheck_spec hc hf.mem hg ih hcall

/-! ## §3 abstract footprint semantics and schedule independence -/

section Footprint
variable {Loc Val : Type}

/-- a memory state: locations ↦ values -/
abbrev State (Loc Val : Type) := Loc → Val

/-- an atomic operation with declared read and write footprints -/
structure Op (Loc Val : Type) where
  reads : List Loc
  writes : List Loc
  f : State Loc Val → State Loc Val

/-- the footprint laws: `f` changes only `writes`, and what it stores there depends only on the
    values found at `reads ∪ writes` -/
structure Op.Lawful (o : Op Loc Val) : Prop where
  frame : ∀ (s : State Loc Val) (l : Loc), l ∉ o.writes → o.f s l = s l
  loc : ∀ (s s' : State Loc Val), (∀ l, l ∈ o.reads ∨ l ∈ o.writes → s l = s' l) →
          ∀ l, l ∈ o.writes → o.f s l = o.f s' l

/-- `a` does not write what `b` reads or writes -/
def NoWriteInto (a b : Op Loc Val) : Prop := ∀ l, l ∈ a.writes → l ∉ b.reads ∧ l ∉ b.writes

/-- independence of two operations (of different threads) -/
def Indep (a b : Op Loc Val) : Prop := NoWriteInto a b ∧ NoWriteInto b a

theorem Indep.symm {a b : Op Loc Val} (h : Indep a b) : Indep b a := ⟨h.2, h.1⟩

/-- sequential execution of a list of operations -/
def run (ops : List (Op Loc Val)) (s : State Loc Val) : State Loc Val := ops.foldl (fun s o => o.f s) s

@[simp] theorem run_nil (s : State Loc Val) : run ([] : List (Op Loc Val)) s = s := rfl
@[simp] theorem run_cons (o : Op Loc Val) (ops : List (Op Loc Val)) (s : State Loc Val) :
    run (o :: ops) s = run ops (o.f s) := rfl
theorem run_append (l1 l2 : List (Op Loc Val)) (s : State Loc Val) :
    run (l1 ++ l2) s = run l2 (run l1 s) := by simp [run, List.foldl_append]

/-- two independent lawful operations commute -/
theorem Indep.commute {a b : Op Loc Val} (ha : a.Lawful) (hb : b.Lawful) (h : Indep a b)
    (s : State Loc Val) : a.f (b.f s) = b.f (a.f s) := by
  classical
  funext l
  by_cases hla : l ∈ a.writes
  · have hlb : l ∉ b.writes := (h.1 l hla).2
    rw [hb.frame (a.f s) l hlb]
    apply ha.loc _ _ _ l hla
    intro l' hl'
    apply hb.frame
    intro hw
    have := h.2 l' hw
    rcases hl' with hl' | hl'
    · exact this.1 hl'
    · exact this.2 hl'
  · rw [ha.frame (b.f s) l hla]
    by_cases hlb : l ∈ b.writes
    · symm
      apply hb.loc _ _ _ l hlb
      intro l' hl'
      apply ha.frame
      intro hw
      have := h.1 l' hw
      rcases hl' with hl' | hl'
      · exact this.1 hl'
      · exact this.2 hl'
    · rw [hb.frame (a.f s) l hlb, hb.frame s l hlb, ha.frame s l hla]

/-- an operation independent of every operation of a block can be moved across the block -/
theorem run_commute_op {b : Op Loc Val} (hb : b.Lawful) :
    ∀ (l1 : List (Op Loc Val)), (∀ a, a ∈ l1 → a.Lawful ∧ Indep a b) →
      ∀ s, run l1 (b.f s) = b.f (run l1 s)
  | [], _, s => rfl
  | a :: l1, h, s => by
    have ha := h a (List.mem_cons_self ..)
    rw [run_cons, run_cons, ha.2.commute ha.1 hb s]
    exact run_commute_op hb l1 (fun a' ha' => h a' (List.mem_cons_of_mem _ ha')) _

/-- `l` is an interleaving (order-preserving merge) of `l1` and `l2` -/
inductive Interleaving {α : Type} : List α → List α → List α → Prop
  | nil : Interleaving [] [] []
  | left {a l1 l2 l} : Interleaving l1 l2 l → Interleaving (a :: l1) l2 (a :: l)
  | right {b l1 l2 l} : Interleaving l1 l2 l → Interleaving l1 (b :: l2) (b :: l)

theorem Interleaving.symm {α : Type} {l1 l2 l : List α} (h : Interleaving l1 l2 l) : Interleaving l2 l1 l := by
  induction h with
  | nil => exact .nil
  | left _ ih => exact .right ih
  | right _ ih => exact .left ih

theorem Interleaving.mem_iff {α : Type} {l1 l2 l : List α} (h : Interleaving l1 l2 l) (x : α) :
    x ∈ l ↔ x ∈ l1 ∨ x ∈ l2 := by
  induction h with
  | nil => simp
  | left _ ih => simp [ih, or_assoc]
  | right _ ih => simp only [List.mem_cons, ih]; constructor <;> intro h <;> rcases h with h | h | h <;> simp [h]

theorem Interleaving.left_nil {α : Type} : ∀ (l : List α), Interleaving l [] l
  | [] => .nil
  | _ :: l => .left (left_nil l)

theorem Interleaving.right_nil {α : Type} (l : List α) : Interleaving [] l l := (left_nil l).symm

/-- the sequential composition is one of the interleavings -/
theorem Interleaving.append {α : Type} : ∀ (l1 l2 : List α), Interleaving l1 l2 (l1 ++ l2)
  | [], l2 => right_nil l2
  | _ :: l1, l2 => .left (append l1 l2)

/-- **schedule independence, two threads**: if every operation is lawful and operations of different
    threads are independent, every interleaving ends in the state of "first `l1`, then `l2`" -/
theorem interleaving_run {l1 l2 l : List (Op Loc Val)} (h : Interleaving l1 l2 l)
    (hl1 : ∀ a, a ∈ l1 → a.Lawful) (hl2 : ∀ b, b ∈ l2 → b.Lawful)
    (hind : ∀ a, a ∈ l1 → ∀ b, b ∈ l2 → Indep a b) (s : State Loc Val) :
    run l s = run (l1 ++ l2) s := by
  induction h generalizing s with
  | nil => rfl
  | left _ ih =>
    rw [run_cons, List.cons_append, run_cons]
    exact ih (fun a ha => hl1 a (List.mem_cons_of_mem _ ha)) hl2
      (fun a ha b hb => hind a (List.mem_cons_of_mem _ ha) b hb) _
  | @right b l1 l2 l _ ih =>
    rw [run_cons, ih hl1 (fun b hb => hl2 b (List.mem_cons_of_mem _ hb))
      (fun a ha b hb => hind a ha b (List.mem_cons_of_mem _ hb)), run_append, run_append, run_cons]
    congr 1
    exact run_commute_op (hl2 b (List.mem_cons_self ..)) l1
      (fun a ha => ⟨hl1 a ha, hind a ha b (List.mem_cons_self ..)⟩) s

/-- a block of lawful operations leaves every location outside its write sets unchanged -/
theorem run_frame : ∀ (ops : List (Op Loc Val)), (∀ o, o ∈ ops → o.Lawful) → ∀ (s : State Loc Val) (l : Loc),
    (∀ o, o ∈ ops → l ∉ o.writes) → run ops s l = s l
  | [], _, _, _, _ => rfl
  | o :: ops, hl, s, l, hw => by
    rw [run_cons, run_frame ops (fun o' h => hl o' (List.mem_cons_of_mem _ h)) _ l
      (fun o' h => hw o' (List.mem_cons_of_mem _ h))]
    exact (hl o (List.mem_cons_self ..)).frame s l (hw o (List.mem_cons_self ..))

/-- interleaving of `n` threads: a merge of the first thread with a merge of the others -/
inductive InterleavingN {α : Type} : List (List α) → List α → Prop
  | nil : InterleavingN [] []
  | cons {t ts l' l} : InterleavingN ts l' → Interleaving t l' l → InterleavingN (t :: ts) l

theorem InterleavingN.mem {α : Type} {ts : List (List α)} {l : List α} (h : InterleavingN ts l) (x : α) :
    x ∈ l → ∃ t, t ∈ ts ∧ x ∈ t := by
  induction h with
  | nil => intro h; cases h
  | cons _ hi ih =>
    intro hx
    rcases (hi.mem_iff x).1 hx with hx | hx
    · exact ⟨_, List.mem_cons_self .., hx⟩
    · obtain ⟨t', ht', hx'⟩ := ih hx
      exact ⟨t', List.mem_cons_of_mem _ ht', hx'⟩

/-- operations of different threads (different positions in `ts`) are independent -/
def CrossIndep (ts : List (List (Op Loc Val))) : Prop :=
  ts.Pairwise fun t t' => ∀ a, a ∈ t → ∀ b, b ∈ t' → Indep a b

/-- **schedule independence, n threads** -/
theorem interleavingN_run {ts : List (List (Op Loc Val))} {l : List (Op Loc Val)} (h : InterleavingN ts l)
    (hl : ∀ t, t ∈ ts → ∀ a, a ∈ t → a.Lawful) (hind : CrossIndep ts) (s : State Loc Val) :
    run l s = run ts.flatten s := by
  induction h generalizing s with
  | nil => rfl
  | @cons t ts l' l hN hi ih =>
    have hp := List.pairwise_cons.1 hind
    have hl' : ∀ b, b ∈ l' → b.Lawful := fun b hb => by
      obtain ⟨t', ht', hb'⟩ := hN.mem b hb
      exact hl t' (List.mem_cons_of_mem _ ht') b hb'
    rw [interleaving_run hi (hl t (List.mem_cons_self ..)) hl'
      (fun a ha b hb => by
        obtain ⟨t', ht', hb'⟩ := hN.mem b hb
        exact hp.1 t' ht' a ha b hb'),
      run_append, List.flatten_cons, run_append]
    exact ih (fun t' ht' => hl t' (List.mem_cons_of_mem _ ht')) hp.2 _

end Footprint

/-! ## §4 the tri-state Gröbner flag of the model -/

section Flag
open BPoly
variable {α : Type} (F : FOps α) (o : Order)

theorem isGroebnerQ_of_one {id : Ideal α} (h : id.isGroebner = 1) :
    id.isGroebnerQ F o = some (id, true) := by
  simp [Ideal.isGroebnerQ, h]

theorem isGroebnerQ_of_neg_one {id : Ideal α} (h : id.isGroebner = -1) :
    id.isGroebnerQ F o = some (id, false) := by
  simp [Ideal.isGroebnerQ, h]

/-- what `IsGroebner()` may change: nothing but the flag, and the flag only when it was undecided -/
theorem isGroebnerQ_frame {id id' : Ideal α} {b : Bool} (h : id.isGroebnerQ F o = some (id', b)) :
    id'.gens = id.gens ∧ id'.isMinimal = id.isMinimal ∧ id'.isReduced = id.isReduced ∧
    id'.isGroebner = (if b then 1 else -1) ∧ (id.isGroebner = 1 ∨ id.isGroebner = -1 → id' = id) := by
  unfold Ideal.isGroebnerQ at h
  split at h
  · rename_i h1
    cases h; simp [h1]
  · split at h
    · rename_i _ h2
      cases h; simp [h2]
    · rename_i h1 h2
      cases hd : decideGroebner F o id.gens with
      | none => simp [hd] at h
      | some b' =>
        simp only [hd, Option.map_some, Option.some.injEq, Prod.mk.injEq] at h
        obtain ⟨rfl, rfl⟩ := h
        refine ⟨rfl, rfl, rfl, rfl, ?_⟩
        rintro (h0 | h0)
        · exact absurd h0 h1
        · exact absurd h0 h2

/-- `GroebnerBasis()` returns an ideal object flagged as Gröbner basis -/
theorem groebnerBasis_flagged {id gb : Ideal α} (h : id.groebnerBasis F o = some gb) : gb.isGroebner = 1 := by
  unfold Ideal.groebnerBasis at h
  split at h
  · rename_i h1; cases h; exact h1
  · cases hb : buchberger F o groebnerFuel id.gens with
    | none => simp [hb] at h
    | some gs => simp only [hb, Option.map_some, Option.some.injEq] at h; subst h; rfl

/-- `MinimizeBasis()` keeps a set Gröbner flag -/
theorem minimizeBasis_keeps_flag {id id' : Ideal α} {r : Except Kind Unit} (h1 : id.isGroebner = 1)
    (h : id.minimizeBasis F o = some (id', r)) : id'.isGroebner = 1 := by
  unfold Ideal.minimizeBasis at h
  rw [isGroebnerQ_of_one F o h1] at h
  simp only [Option.some.injEq, Prod.mk.injEq] at h
  obtain ⟨rfl, _⟩ := h
  exact h1

/-- on a flagged ideal `MinimizeBasis()` succeeds (no error, no fuel question) -/
theorem minimizeBasis_of_flagged {id : Ideal α} (h1 : id.isGroebner = 1) :
    ∃ id', id.minimizeBasis F o = some (id', .ok ()) ∧ id'.isGroebner = 1 := by
  unfold Ideal.minimizeBasis
  rw [isGroebnerQ_of_one F o h1]
  exact ⟨_, rfl, h1⟩

/-- `ReduceBasis()` keeps a set Gröbner flag -/
theorem reduceBasis_keeps_flag {id id' : Ideal α} {r : Except Kind Unit} (h1 : id.isGroebner = 1)
    (h : id.reduceBasis F o = some (id', r)) : id'.isGroebner = 1 := by
  unfold Ideal.reduceBasis at h
  rw [isGroebnerQ_of_one F o h1] at h
  simp only at h
  -- the (possibly minimised) intermediate object
  generalize hM : (if id.isMinimal ≠ 1 then Option.map (·.1) (id.minimizeBasis F o) else some id) = idM at h
  cases idM with
  | none => simp at h
  | some idm =>
    have hm : idm.isGroebner = 1 := by
      split at hM
      · cases hmb : id.minimizeBasis F o with
        | none => simp [hmb] at hM
        | some pr =>
          obtain ⟨im, rr⟩ := pr
          simp only [hmb, Option.map_some, Option.some.injEq] at hM
          subst hM
          exact minimizeBasis_keeps_flag F o h1 hmb
      · cases hM; exact h1
    simp only at h
    generalize (List.range idm.gens.length).foldl _ (some idm.gens) = gensO at h
    cases gensO with
    | none => simp at h
    | some gens =>
      simp only [Option.map_some, Option.some.injEq, Prod.mk.injEq] at h
      obtain ⟨rfl, _⟩ := h
      exact hm

/-- the ideal OBJECT that `Quotient(id)` stores in the new quotient ring (ring.go: the copy of a flagged
    argument, otherwise `GroebnerBasis()` followed by `ReduceBasis()`); the model function
    `BPoly.quotientGens` returns its generators -/
def quotientIdeal (id : Ideal α) : Option (Ideal α) :=
  if id.isGroebner = 1 then some id
  else match id.groebnerBasis F o with
    | none => none
    | some gb => (gb.reduceBasis F o).map (·.1)

theorem quotientGens_eq (id : Ideal α) : quotientGens F o id = (quotientIdeal F o id).map (·.gens) := by
  unfold quotientGens quotientIdeal
  split
  · rfl
  · cases id.groebnerBasis F o with
    | none => rfl
    | some gb => simp only [Option.map_map]; rfl

/-- the ideal stored in a quotient ring is flagged -/
theorem quotientIdeal_flagged {id q : Ideal α} (h : quotientIdeal F o id = some q) : q.isGroebner = 1 := by
  unfold quotientIdeal at h
  split at h
  · rename_i h1; cases h; exact h1
  · cases hg : id.groebnerBasis F o with
    | none => simp [hg] at h
    | some gb =>
      simp only [hg] at h
      cases hr : gb.reduceBasis F o with
      | none => simp [hr] at h
      | some pr =>
        obtain ⟨q', r⟩ := pr
        simp only [hr, Option.map_some, Option.some.injEq] at h
        subst h
        exact reduceBasis_keeps_flag F o (groebnerBasis_flagged F o hg) hr
end Flag

end Algobra.Effects
