/-
  Proofs/CodeTies5Tab.lean — ties of the machine-translated `primefield.table.lookup` and
  `primefield.newTable` (Gen/Code.lean) to the model's `Prime.lookup` / `Prime.newTable`.
-/
import Algobra.Gen.Code
import Algobra.Model.Field
import Algobra.Model.Tables
import Algobra.Proofs.PrimeField
namespace Algobra
namespace CodeTies5Proofs
namespace Tab
open Algobra Algobra.Gen.Code

/-! ### word helpers -/

theorem wsub_of_le {a b : Nat} (h : b ≤ a) (ha : a < 2 ^ 64) : wsub a b = a - b := by
  unfold wsub
  have hb : b % 2 ^ 64 = b := Nat.mod_eq_of_lt (by omega)
  have h2 : a + 2 ^ 64 - b = (a - b) + 2 ^ 64 := by omega
  rw [hb, h2, Nat.add_mod_right]
  exact Nat.mod_eq_of_lt (by omega)

theorem w64_of_lt {a : Nat} (h : a < 2 ^ 64) : w64 a = a := by
  unfold w64; exact Nat.mod_eq_of_lt h

/-! ### 1. `table.lookup` -/

/-- the translated `lookup` returns the model's value exactly when the Go code does not panic -/
theorem lookup_tie (t : List (List Nat)) {fuel i j : Nat} (hf : 2 ≤ fuel) (hi : i < 2 ^ 64)
    (hj : j < 2 ^ 64) :
    go_primefield_table_lookup t fuel i j
      = if min i j < t.length ∧ max i j - min i j < (t.getD (min i j) []).length
        then some (Prime.lookup t i j) else none := by
  obtain ⟨f, rfl⟩ : ∃ f, fuel = f + 1 + 1 := ⟨fuel - 2, by omega⟩
  by_cases h : j < i
  · have hmin : min i j = j := by omega
    have hmax : max i j = i := by omega
    have hn : ¬ i < j := by omega
    simp only [go_primefield_table_lookup, h, hn, ↓reduceIte, hmin, hmax,
      wsub_of_le (Nat.le_of_lt h) hi, Prime.lookup]
  · have hmin : min i j = i := by omega
    have hmax : max i j = j := by omega
    simp only [go_primefield_table_lookup, h, ↓reduceIte, hmin, hmax,
      wsub_of_le (Nat.le_of_not_lt h) hj, Prime.lookup]

example : (2 : Nat) ≤ 2 ∧ (1 : Nat) < 2 ^ 64 ∧ (0 : Nat) < 2 ^ 64 := by decide
example : go_primefield_table_lookup [[1, 2], [3]] 2 1 0 = some 2 := by decide
example : go_primefield_table_lookup [[1, 2], [3]] 2 1 1 = some 3 := by decide
example : go_primefield_table_lookup [[1, 2], [3]] 2 0 2 = none := by decide
example : go_primefield_table_lookup [[1, 2], [3]] 2 2 2 = none := by decide

/-! ### 2. `newTable` -/

/-- row `i` while the inner loop is at `j`: positions `< j - i` still as in `r`, the rest filled -/
def rowAt (op : Nat → Nat → Nat) (p i : Nat) (r : List Nat) (j : Nat) : List Nat :=
  (List.range (p - i)).map fun d => if d < j - i then r.getD d 0 else op i (i + d)

/-- the table when the outer loop is at `i`: rows `< i` filled, the rest still `nil` -/
def tabAt (op : Nat → Nat → Nat) (p i : Nat) : List (List Nat) :=
  (List.range p).map fun k => if k < i then (List.range (p - k)).map fun d => op k (k + d) else []

theorem rowAt_end (op : Nat → Nat → Nat) {p i : Nat} {r : List Nat} (hr : r.length = p - i) :
    rowAt op p i r p = r := by
  unfold rowAt
  apply List.ext_getElem
  · simp [hr]
  · intro d h1 h2
    simp only [List.length_map, List.length_range] at h1
    simp [h1, List.getD_eq_getElem?_getD, h2]

theorem rowAt_step (op : Nat → Nat → Nat) {p i j : Nat} (r : List Nat) (hij : i ≤ j)
    (hr : r.length = p - i) (hjp : j < p) :
    rowAt op p i (r.set (j - i) (op i j)) (j + 1) = rowAt op p i r j := by
  unfold rowAt
  apply List.map_congr_left
  intro d hd
  rw [List.mem_range] at hd
  by_cases h1 : d < j - i
  · have h2 : d < j + 1 - i := by omega
    have h3 : j - i ≠ d := by omega
    simp [h1, h2, List.getD_eq_getElem?_getD, h3]
  · by_cases h2 : d = j - i
    · have h3 : d < j + 1 - i := by omega
      have h4 : i + d = j := by omega
      have h5 : j - i < r.length := by have := hjp; omega
      simp [List.getD_eq_getElem?_getD, h2, h5]
      intro _
      congr 1
      omega
    · have h3 : ¬ d < j + 1 - i := by omega
      simp [h1, h3]

theorem loop2_spec (op : Nat → Nat → Nat) {p i : Nat} (hp : p < 2 ^ 64) (hi : i < p) (fuel : Nat) :
    ∀ (j : Nat) (t : List (List Nat)), t.length = p → i ≤ j → j ≤ p →
      (t.getD i []).length = p - i → p - j ≤ fuel →
      go_primefield_newTable_core_loop2 p i op fuel (j, t, none)
        = (p, t.set i (rowAt op p i (t.getD i []) j), none) := by
  induction fuel with
  | zero =>
    intro j t ht hij hjp hr hf
    have hj : j = p := by omega
    subst hj
    rw [rowAt_end op hr]
    simp only [go_primefield_newTable_core_loop2]
    congr 2
    apply List.ext_getElem?
    intro k
    simp only [List.getElem?_set, List.getD_eq_getElem?_getD]
    split
    · rename_i h; subst h; simp [ht, hi]
    · rfl
  | succ f ih =>
    intro j t ht hij hjp hr hf
    by_cases hlt : j < p
    · have hw : w64 (j + 1) = j + 1 := w64_of_lt (by omega)
      have hs : wsub j i = j - i := wsub_of_le hij (by omega)
      have hit : i < t.length := by omega
      have hjr : j - i < (t.getD i []).length := by omega
      simp only [go_primefield_newTable_core_loop2, hlt, Option.isNone_none, and_self, ↓reduceIte,
        hw, hs, hit, hjr]
      have hget : (t.set i ((t.getD i []).set (j - i) (op i j))).getD i []
          = (t.getD i []).set (j - i) (op i j) := by
        simp [List.getD_eq_getElem?_getD, hit]
      rw [ih (j + 1) _ (by simp [ht]) (by omega) (by omega) (by rw [hget, List.length_set]; exact hr) (by omega),
        hget, List.set_set, rowAt_step op _ hij hr hlt]
    · have hj : j = p := by omega
      subst hj
      rw [rowAt_end op hr]
      simp only [go_primefield_newTable_core_loop2, Nat.lt_irrefl, false_and, ↓reduceIte]
      congr 2
      apply List.ext_getElem?
      intro k
      simp only [List.getElem?_set, List.getD_eq_getElem?_getD]
      split
      · rename_i h; subst h; simp [ht, hi]
      · rfl

theorem rowAt_start (op : Nat → Nat → Nat) (p i : Nat) (r : List Nat) :
    rowAt op p i r i = (List.range (p - i)).map fun d => op i (i + d) := by
  unfold rowAt
  simp

theorem tabAt_length (op : Nat → Nat → Nat) (p i : Nat) : (tabAt op p i).length = p := by
  simp [tabAt]

theorem tabAt_step (op : Nat → Nat → Nat) {p i : Nat} (_hi : i < p) :
    (tabAt op p i).set i ((List.range (p - i)).map fun d => op i (i + d)) = tabAt op p (i + 1) := by
  apply List.ext_getElem
  · simp [tabAt_length]
  · intro k h1 h2
    have hk : k < p := by simpa [tabAt_length] using h2
    simp only [tabAt, List.getElem_set, List.getElem_map, List.getElem_range]
    by_cases h : i = k
    · subst h; simp
    · by_cases h3 : k < i
      · have h4 : k < i + 1 := by omega
        simp [h, h3, h4]
      · have h4 : ¬ k < i + 1 := by omega
        simp [h, h3, h4]

theorem tabAt_end (op : Nat → Nat → Nat) (p : Nat) : tabAt op p p = Prime.newTable p op := by
  unfold tabAt Prime.newTable
  apply List.map_congr_left
  intro k hk
  rw [List.mem_range] at hk
  simp [hk]

theorem loop1_spec (op : Nat → Nat → Nat) {p : Nat} (hp : p < 2 ^ 64) (fuel : Nat) :
    ∀ i : Nat, i ≤ p → p - i ≤ fuel →
      go_primefield_newTable_core_loop1 p op fuel (i, tabAt op p i, none)
        = (p, tabAt op p p, none) := by
  induction fuel with
  | zero =>
    intro i hip hf
    have : i = p := by omega
    subst this
    rfl
  | succ f ih =>
    intro i hip hf
    by_cases hlt : i < p
    · have hw : w64 (i + 1) = i + 1 := w64_of_lt (by omega)
      have hs : wsub p i = p - i := wsub_of_le hip hp
      have hit : i < (tabAt op p i).length := by rw [tabAt_length]; exact hlt
      have hget : ((tabAt op p i).set i (List.replicate (p - i) 0)).getD i []
          = List.replicate (p - i) 0 := by
        simp [List.getD_eq_getElem?_getD, hit]
      have hfuel : p - i ≤ loopFuel := by unfold loopFuel; omega
      have h2 := loop2_spec op hp hlt loopFuel i
        ((tabAt op p i).set i (List.replicate (p - i) 0))
        (by simp [tabAt_length]) (Nat.le_refl i) hip (by rw [hget]; simp) hfuel
      rw [hget, rowAt_start, List.set_set, tabAt_step op hlt] at h2
      simp only [go_primefield_newTable_core_loop1, hlt, Option.isNone_none, and_self, ↓reduceIte,
        hit, hs, h2, hw]
      exact ih (i + 1) (by omega) (by omega)
    · have : i = p := by omega
      subst this
      simp only [go_primefield_newTable_core_loop1, Nat.lt_irrefl, false_and, ↓reduceIte]

/-- the translated `newTable` body never panics, never returns an error, and builds exactly the
    model's table -/
theorem newTable_core_tie (op : Nat → Nat → Nat) {p : Nat} (hp : p < 2 ^ 64) :
    go_primefield_newTable_core p op = some (Prime.newTable p op, none) := by
  have h0 : List.replicate p ([] : List Nat) = tabAt op p 0 := by
    unfold tabAt
    apply List.ext_getElem
    · simp
    · intro k h1 h2; simp
  have hfuel : p - 0 ≤ loopFuel := by unfold loopFuel; omega
  unfold go_primefield_newTable_core
  simp only [h0, loop1_spec op hp loopFuel 0 (Nat.zero_le p) hfuel, tabAt_end]

example : (5 : Nat) < 2 ^ 64 := by decide

example : Prime.newTable 3 (fun a b => 10 * a + b) = [[0, 1, 2], [11, 12], [22]] := by decide

/-! ### 3. `lookup` on a table built by `newTable` -/

theorem two_le_loopFuel : 2 ≤ loopFuel := by unfold loopFuel; omega

/-- on a table built by `newTable` the translated `lookup` never panics (operands `< p`) and
    returns `op` at the ordered pair -/
theorem lookup_newTable_tie (op : Nat → Nat → Nat) {p i j : Nat} (hp : p < 2 ^ 64) (hi : i < p)
    (hj : j < p) :
    go_primefield_table_lookup (Prime.newTable p op) loopFuel i j
      = some (op (min i j) (max i j)) := by
  have hm : min i j < p := by omega
  have hd : max i j - min i j < p - min i j := by omega
  have hlen : (Prime.newTable p op).length = p := by simp [Prime.newTable]
  have hrow : ((Prime.newTable p op).getD (min i j) []).length = p - min i j := by
    rw [Prime.newTable_row op hm]; simp
  rw [lookup_tie _ two_le_loopFuel (by omega) (by omega),
    if_pos ⟨by rw [hlen]; exact hm, by rw [hrow]; exact hd⟩]
  congr 1
  unfold Prime.lookup
  split
  · rename_i h
    have h1 : min i j = j := by omega
    have h2 : max i j = i := by omega
    rw [Prime.newTable_entry op hj (by omega), h1, h2]
    congr 1
    omega
  · rename_i h
    have h1 : min i j = i := by omega
    have h2 : max i j = j := by omega
    rw [Prime.newTable_entry op hi (by omega), h1, h2]
    congr 1
    omega

example : (5 : Nat) < 2 ^ 64 ∧ (4 : Nat) < 5 ∧ (2 : Nat) < 5 := by decide
example : go_primefield_table_lookup (Prime.newTable 3 (fun a b => 10 * a + b)) 2 2 1
    = some 12 := by decide

/-! ### 4. the two tables of `ComputeTables` -/

theorem lookup_addTable_tie {p i j : Nat} (hp : p < 2 ^ 64) (hi : i < p) (hj : j < p) :
    go_primefield_table_lookup (Prime.addTable p) loopFuel i j = some (Prime.add p i j) := by
  unfold Prime.addTable
  rw [lookup_newTable_tie _ hp hi hj]
  unfold Prime.addClosure Prime.add
  have h : min i j + max i j = i + j := by omega
  rw [h]

theorem lookup_mulTable_tie {p i j : Nat} (hp : p < 2 ^ 64) (hi : i < p) (hj : j < p) :
    go_primefield_table_lookup (Prime.mulTable p) loopFuel i j
      = some (Prime.mulClosure p i j) := by
  unfold Prime.mulTable
  rw [lookup_newTable_tie _ hp hi hj]
  unfold Prime.mulClosure
  have h : min i j * max i j = i * j := by
    by_cases hij : i ≤ j
    · rw [Nat.min_eq_left hij, Nat.max_eq_right hij]
    · have hji : j ≤ i := by omega
      rw [Nat.min_eq_right hji, Nat.max_eq_left hji, Nat.mul_comm]
  rw [h]

example : (7 : Nat) < 2 ^ 64 ∧ (6 : Nat) < 7 ∧ (3 : Nat) < 7 := by decide
example : go_primefield_table_lookup (Prime.addTable 7) 2 6 3 = some (Prime.add 7 6 3) := by decide
example : go_primefield_table_lookup (Prime.mulTable 7) 2 6 3 = some 4 := by decide
example : go_primefield_table_lookup (Prime.mulTable 7) 2 6 7 = none := by decide

end Tab
end CodeTies5Proofs
end Algobra
