/-
  Proofs/ParseRTNPoly.lean — univariate round trip in every notation: from the matches of a
  polynomial printed with optional `*`, optional `^`, free blanks around `+` and free letter case
  back to the polynomial.  Helper of `Props/C15Full.lean`.
-/
import Algobra.Proofs.ParseRTN
import Algobra.Proofs.ParseRTPoly

namespace Algobra.ParseRT
open Algobra Algobra.Strings Algobra.Parse Polynomial Algobra.UPoly Algobra.Regex

variable {α : Type} {F : FOps α} {K : Type} [Field K] (L : Lawful F K)

/-- the terms a polynomial prints: coefficient and degree, highest degree first -/
def termsOf (F : FOps α) (f : UPoly α) : List (α × Nat) :=
  if isZero F f then [(F.zero, 0)] else (degrees F f).map fun d => (coef F f d, d)

theorem termsOf_spec {f : UPoly α} (hf : WF L f) :
    ∃ (ds : List Nat) (g : Nat → α), termsOf F f = ds.map (fun d => (g d, d)) ∧ ds.Nodup ∧
      ds ≠ [] ∧ (∀ d, L.valid (g d)) ∧ (∀ d ∈ ds, d < f.length) ∧
      (∀ i, (toPoly L f).coeff i = if i ∈ ds then L.embed (g i) else 0) := by
  unfold termsOf
  by_cases hz : isZero F f = true
  · refine ⟨[0], fun _ => F.zero, by simp [hz], by simp, by simp, fun _ => L.zero_valid, ?_, ?_⟩
    · intro d hd
      have := List.length_pos_iff.2 hf.2.1
      simp at hd; omega
    · intro i
      have : f = zero F := by
        cases f with
        | nil => simp [isZero] at hz
        | cons c t =>
          cases t with
          | nil =>
            have hc : L.valid c := hf.1 c (by simp)
            have h0 : F.isZero c = true := by simpa [isZero] using hz
            rw [L.eq_zero_of_embed c hc ((L.isZero_iff c hc).1 h0)]; rfl
          | cons _ _ => simp [isZero] at hz
      rw [this, toPoly_zero, L.embed_zero]; simp
  · have hne : degrees F f ≠ [] := by
      intro he
      apply hz
      have : toPoly L f = 0 := by
        ext i
        have := (mem_degrees L hf.1 i).not
        rw [he] at this
        simpa using this
      rw [eq_zero_of_toPoly_eq_zero L hf this]
      simpa [isZero, zero] using (L.isZero_iff F.zero L.zero_valid).2 L.embed_zero
    refine ⟨degrees F f, coef F f, by simp [hz], degrees_nodup f, hne, coef_valid L hf.1, ?_, ?_⟩
    · intro d hd
      by_contra hlt
      exact (mem_degrees L hf.1 d).1 hd (coeff_toPoly_of_le L f d (by omega))
    · intro i
      by_cases hi : i ∈ degrees F f
      · rw [if_pos hi, coeff_toPoly_coef]
      · rw [if_neg hi]
        by_contra h
        exact hi ((mem_degrees L hf.1 i).2 h)

/-- Round trip in a notation: if `s` is the term list of `f` written with variable text `v'`
    (equal to `v` up to letter case), optional `^` and `*`, and separator `k` blanks, `+`, `l`
    blanks, then `s` parses to `f`. -/
theorem upoly_parse_N (H : CoefRT F L.valid) {v v' : String} (hdir : UPoly.directOK F v = true)
    (hl : v'.toList.map lower = v.toList.map lower)
    (hv' : ∃ x0' vt', v'.toList = x0' :: vt' ∧ x0'.isAlpha = true)
    (hun : ∀ w X, F.ownVar = some w → strip w.toList (v'.toList ++ X) = none)
    (caret star : Bool) (k l : Nat) (mod : Option (UPoly α)) {f : UPoly α} (hf : WF L f)
    (hlen : f.length ≤ 2 ^ 63)
    (hred : reduceIn { F := F, varName := v, modulus := mod } f = some f) {s : String}
    (hs : s.toList = joinS (sepN k l)
      ((termsOf F f).map fun t => termCharsN F v' caret star t.1 t.2)) :
    UPoly.parse { F := F, varName := v, modulus := mod } s = .ok (some f) := by
  have hsv : simpleName v = true := by
    unfold UPoly.directOK at hdir
    exact (Bool.and_eq_true_iff.1 hdir).1
  obtain ⟨x0, vt, hv, hx, _⟩ := simpleName_iff.1 hsv
  obtain ⟨x0', vt', hv'1, hx'⟩ := hv'
  obtain ⟨ds, g, hto, hnd, hne, hg, hlt, hco⟩ := termsOf_spec L hf
  rw [hto] at hs
  have hne' : ds.map (fun d => (g d, d)) ≠ [] := by simpa using hne
  obtain ⟨ms, h1, h2⟩ := loopU_termsN H hv hx hl hv'1 hx' hun caret star k l
    (ds.map fun d => (g d, d)) hne'
    (by
      intro t ht
      obtain ⟨d, hd, rfl⟩ := List.mem_map.1 ht
      exact ⟨hg d, by have := hlt d hd; omega⟩)
    [] (Or.inl rfl) s.toList.length [] (by rw [hs]; simp)
  have hmap : UPoly.stringToMap F v s = .ok (ds.map fun d => (d, g d)) := by
    unfold UPoly.stringToMap
    rw [if_pos hdir]
    have hm : matchesU F.ownVar v s = some ms := by
      unfold matchesU
      have hnil : s.toList.isEmpty = false := by
        rw [hs]
        obtain ⟨d, ds', rfl⟩ := List.exists_cons_of_ne_nil hne
        rw [List.map_cons, List.map_cons, joinS_cons]
        obtain ⟨y, t, hT, _⟩ := termCharsN_head H hv'1 hx' caret star (hg d) d
          (restS (sepN k l) ((ds'.map fun d => (g d, d)).map fun t => termCharsN F v' caret star t.1 t.2))
        rw [hT]; rfl
      rw [hnil]
      simp only [Bool.false_eq_true, if_false]
      have hov : Option.map String.toList F.ownVar = ovOf F := rfl
      rw [hov]
      rw [List.nil_append, ← hs] at h1
      exact h1
    rw [hm]
    dsimp only
    rw [h2, foldl_mapAdd_nodup F g ds hnd [] (by simp)]
    simp
  unfold UPoly.parse
  rw [hmap]
  dsimp only
  have hb := build_eq L g hg ds hnd hf hco
  have : (ds.map fun d => (d, g d)).foldl
      (fun f (x : Nat × α) => match x with | (d, c) => setCoef F f d c) (zero F) = f := hb
  rw [this, hred]

end Algobra.ParseRT
