/-
  Proofs/Step.lean — helper lemmas about the object-level `step` of Model/Hist.lean:
  association-list facts (`St.setL` / `St.getL`), write sets of every `Op`, frame lemmas per
  sub-function, error-kind bookkeeping. CORE LEAN ONLY.
-/
import Algobra.Model.Hist
import Lean.Elab.Tactic
set_option linter.unusedSimpArgs false
namespace Algobra

/-- `by_cases` on the outermost `if` condition of the goal and rewrite every `if` with that condition.
    (The built-in `split` runs a `simp` that exceeds its step limit on the big `step` terms.) -/
elab "split_if_goal" : tactic => do
  let g ← Lean.Elab.Tactic.getMainGoal
  let t ← Lean.instantiateMVars (← g.getType)
  let some e := t.find? (fun e => e.isAppOfArity ``ite 5 && !(e.getArg! 1).hasLooseBVars)
    | throwError "split_if_goal: no if-then-else"
  let cStx ← Lean.Elab.Term.exprToSyntax (e.getArg! 1)
  Lean.Elab.Tactic.evalTactic
    (← `(tactic| by_cases hc : $cStx <;> simp only [hc, if_true, if_false, ↓reduceIte, not_true_eq_false, not_false_eq_true, Bool.false_eq_true]))

/-- a concrete environment for the non-vacuity examples: GF(5), base rings only -/
def env5 : Env Nat where
  fld := fun _ => primeOps 5
  uring := fun _ => { F := primeOps 5, varName := "X", modulus := none }
  bring := fun _ => { F := primeOps 5, ord := ⟨.lex, true⟩, varNames := ("X", "Y"), ideal := none }

/-! ### association lists -/
namespace St
variable {β : Type}

theorem getL_nil (k : Nat) : getL ([] : List (Nat × β)) k = none := rfl

theorem getL_cons (p : Nat × β) (l : List (Nat × β)) (k : Nat) :
    getL (p :: l) k = if p.1 = k then some p.2 else getL l k := by
  unfold getL
  by_cases h : p.1 = k
  · simp [h]
  · simp [h]

theorem any_key_false_iff (l : List (Nat × β)) (k : Nat) :
    l.any (·.1 == k) = false ↔ getL l k = none := by
  induction l with
  | nil => simp [getL]
  | cons p t ih =>
    rw [getL_cons]
    by_cases h : p.1 = k
    · simp [h]
    · simp [h, ih]

theorem getL_map_upd (l : List (Nat × β)) (k k' : Nat) (v : β) :
    getL (l.map fun (k'', x) => if k'' == k then (k'', v) else (k'', x)) k'
      = if k' = k then (getL l k).map (fun _ => v) else getL l k' := by
  induction l with
  | nil => simp [getL]
  | cons p t ih =>
    obtain ⟨a, x⟩ := p
    simp only [List.map_cons, getL_cons, ih]
    by_cases h1 : a = k
    · subst h1
      by_cases h2 : k' = a
      · subst h2; simp
      · have : ¬ a = k' := fun h => h2 h.symm
        simp [h2, this]
    · by_cases h2 : k' = k
      · subst h2
        simp [h1]
      · by_cases h3 : a = k'
        · simp [h2, h3]
        · simp [h1, h2, h3]

theorem getL_append_single (l : List (Nat × β)) (k k' : Nat) (v : β) :
    getL (l ++ [(k, v)]) k' = match getL l k' with
      | some x => some x
      | none => if k = k' then some v else none := by
  induction l with
  | nil => simp [getL_cons, getL_nil]
  | cons p t ih =>
    rw [List.cons_append, getL_cons, getL_cons, ih]
    by_cases h : p.1 = k' <;> simp [h]

/-- reading the register just written -/
theorem getL_setL_same (l : List (Nat × β)) (k : Nat) (v : β) :
    getL (setL l k v) k = some v := by
  unfold setL
  split
  · next h =>
    rw [getL_map_upd]
    simp only [if_true]
    cases hg : getL l k with
    | none => rw [← any_key_false_iff] at hg; rw [hg] at h; cases h
    | some x => rfl
  · next h =>
    have h' : getL l k = none := (any_key_false_iff l k).1 (Bool.eq_false_iff.2 h)
    rw [getL_append_single, h']; simp

/-- reading any other register -/
theorem getL_setL_ne (l : List (Nat × β)) {k k' : Nat} (v : β) (hne : k' ≠ k) :
    getL (setL l k v) k' = getL l k' := by
  unfold setL
  split
  · rw [getL_map_upd]; simp [hne]
  · rw [getL_append_single]
    have : ¬ k = k' := fun h => hne h.symm
    cases getL l k' <;> simp [this]

theorem getL_setL (l : List (Nat × β)) (k k' : Nat) (v : β) :
    getL (setL l k v) k' = if k' = k then some v else getL l k' := by
  by_cases h : k' = k
  · subst h; simp [getL_setL_same]
  · simp [h, getL_setL_ne l v h]

/-- multi-destination writes (`QuoRem`, `Generators`): registers off the destination list are untouched -/
theorem getL_foldl_setL_notin {γ : Type} (g : Nat × γ → β) (kvs : List (Nat × γ)) (l : List (Nat × β)) (k : Nat)
    (hk : ∀ p ∈ kvs, p.1 ≠ k) :
    getL (kvs.foldl (fun acc p => setL acc p.1 (g p)) l) k = getL l k := by
  induction kvs generalizing l with
  | nil => rfl
  | cons p t ih =>
    rw [List.foldl_cons, ih]
    · exact getL_setL_ne l _ (fun h => hk p (List.mem_cons_self ..) h.symm)
    · intro q hq; exact hk q (List.mem_cons_of_mem _ hq)

theorem getL_foldl_setL_zip_notin {γ : Type} (g : Nat × γ → β) (ds : List Nat) (outs : List γ)
    (l : List (Nat × β)) (k : Nat) (hk : k ∉ ds) :
    getL ((ds.zip outs).foldl (fun acc p => setL acc p.1 (g p)) l) k = getL l k := by
  apply getL_foldl_setL_notin
  intro p hp h
  have := (List.of_mem_zip (show (p.1, p.2) ∈ ds.zip outs from hp)).1
  exact hk (h ▸ this)

end St

/-! ### write sets -/

/-- element registers an operation may assign -/
def Op.writesE : Op → List Nat
  | .eCtor dst .. | .eBin dst .. | .eUn dst .. | .ePow dst .. => [dst]
  | .eIn _ a _ | .eProd a .. | .eSetNeg a | .eSetU a _ => [a]
  | .uEval dst .. | .uCoef dst .. | .uLc dst _ => [dst]
  | .bEval dst .. | .bCoef dst .. | .bLc dst _ => [dst]
  | _ => []

/-- univariate polynomial registers an operation may assign -/
def Op.writesU : Op → List Nat
  | .uCtor dst .. | .uBin dst .. | .uUn dst .. | .uScale dst .. | .uPow dst .. => [dst]
  | .uIn _ a _ | .uSetNeg a | .uSetScale a _ | .uSetCoef _ a .. | .uSetZero a | .uEmbed a .. => [a]
  | .uQuoRem dsts .. => dsts
  | .uGcd dst _ | .uInterp dst .. => [dst]
  | _ => []

/-- bivariate polynomial registers an operation may assign -/
def Op.writesB : Op → List Nat
  | .bCtor dst .. | .bBin dst .. | .bUn dst .. | .bScale dst .. | .bPow dst .. => [dst]
  | .bIn _ a _ | .bSetScale a _ | .bSetCoef _ a .. => [a]
  | .bQuoRem dsts .. => dsts
  | .bRem dst .. | .bInterp dst .. => [dst]
  | .iGens dsts _ => dsts
  | _ => []

/-- ideal registers an operation may assign (`iPred`/`iXform` update the receiver's cached flags / basis) -/
def Op.writesI : Op → List Nat
  | .iNew dst .. | .iCopy dst _ | .iGroebner dst _ => [dst]
  | .iPred _ a | .iXform _ a => [a]
  | _ => []

/-- `ComputeTables` requests: the only operations that touch the table-presence lists -/
def Op.isTables : Op → Bool
  | .tables .. => true
  | _ => false

/-- operations that assign to their receiver instead of a destination register -/
def Op.inPlace : Op → Bool
  | .eIn .. | .eProd .. | .eSetNeg _ | .eSetU .. => true
  | .uIn .. | .uSetNeg _ | .uSetScale .. | .uSetCoef .. | .uSetZero _ | .uEmbed .. => true
  | .bIn .. | .bSetScale .. | .bSetCoef .. => true
  | .iPred .. | .iXform .. => true
  | _ => false

/-! ### frame lemmas per sub-function -/
section frame
variable {α : Type} (env : Env α)

/-- `s'` differs from `s` at most in the listed registers of each sort
    (and in the table-presence lists only if `wt`) -/
structure St.Frame (s s' : St α) (we wu wb wi : List Nat) (wt : Bool) : Prop where
  es : ∀ k, k ∉ we → St.getL s'.es k = St.getL s.es k
  us : ∀ k, k ∉ wu → St.getL s'.us k = St.getL s.us k
  bs : ∀ k, k ∉ wb → St.getL s'.bs k = St.getL s.bs k
  ids : ∀ k, k ∉ wi → St.getL s'.ids k = St.getL s.ids k
  tabs : wt = false → s'.addTabs = s.addTabs ∧ s'.mulTabs = s.mulTabs

namespace St.Frame
variable (s : St α) {we wu wb wi : List Nat} {wt : Bool}
theorem refl : St.Frame s s we wu wb wi wt :=
  ⟨fun _ _ => rfl, fun _ _ => rfl, fun _ _ => rfl, fun _ _ => rfl, fun _ => ⟨rfl, rfl⟩⟩
theorem setE (d : Nat) (x : EReg α) (hd : d ∈ we) :
    St.Frame s { s with es := St.setL s.es d x } we wu wb wi wt :=
  ⟨fun _ hk => St.getL_setL_ne _ _ (fun h => hk (h ▸ hd)), fun _ _ => rfl, fun _ _ => rfl, fun _ _ => rfl,
   fun _ => ⟨rfl, rfl⟩⟩
theorem setU (d : Nat) (x : UReg α) (hd : d ∈ wu) :
    St.Frame s { s with us := St.setL s.us d x } we wu wb wi wt :=
  ⟨fun _ _ => rfl, fun _ hk => St.getL_setL_ne _ _ (fun h => hk (h ▸ hd)), fun _ _ => rfl, fun _ _ => rfl,
   fun _ => ⟨rfl, rfl⟩⟩
theorem setB (d : Nat) (x : BReg α) (hd : d ∈ wb) :
    St.Frame s { s with bs := St.setL s.bs d x } we wu wb wi wt :=
  ⟨fun _ _ => rfl, fun _ _ => rfl, fun _ hk => St.getL_setL_ne _ _ (fun h => hk (h ▸ hd)), fun _ _ => rfl,
   fun _ => ⟨rfl, rfl⟩⟩
theorem setI (d : Nat) (x : BPoly.Ideal α) (hd : d ∈ wi) :
    St.Frame s { s with ids := St.setL s.ids d x } we wu wb wi wt :=
  ⟨fun _ _ => rfl, fun _ _ => rfl, fun _ _ => rfl, fun _ hk => St.getL_setL_ne _ _ (fun h => hk (h ▸ hd)),
   fun _ => ⟨rfl, rfl⟩⟩
theorem foldU {γ : Type} (f : Nat × γ → UReg α) (outs : List γ) :
    St.Frame s { s with us := (wu.zip outs).foldl (fun acc p => St.setL acc p.1 (f p)) s.us } we wu wb wi wt :=
  ⟨fun _ _ => rfl, fun _ hk => St.getL_foldl_setL_zip_notin f _ _ _ _ hk, fun _ _ => rfl, fun _ _ => rfl,
   fun _ => ⟨rfl, rfl⟩⟩
theorem foldB {γ : Type} (f : Nat × γ → BReg α) (outs : List γ) :
    St.Frame s { s with bs := (wb.zip outs).foldl (fun acc p => St.setL acc p.1 (f p)) s.bs } we wu wb wi wt :=
  ⟨fun _ _ => rfl, fun _ _ => rfl, fun _ hk => St.getL_foldl_setL_zip_notin f _ _ _ _ hk, fun _ _ => rfl,
   fun _ => ⟨rfl, rfl⟩⟩
theorem trans {s1 s2 s3 : St α} {we' wu' wb' wi' : List Nat} {wt' : Bool}
    (h1 : St.Frame s1 s2 we wu wb wi wt) (h2 : St.Frame s2 s3 we' wu' wb' wi' wt') :
    St.Frame s1 s3 (we ++ we') (wu ++ wu') (wb ++ wb') (wi ++ wi') (wt || wt') := by
  constructor
  · intro k hk; rw [List.mem_append, not_or] at hk; rw [h2.es k hk.2, h1.es k hk.1]
  · intro k hk; rw [List.mem_append, not_or] at hk; rw [h2.us k hk.2, h1.us k hk.1]
  · intro k hk; rw [List.mem_append, not_or] at hk; rw [h2.bs k hk.2, h1.bs k hk.1]
  · intro k hk; rw [List.mem_append, not_or] at hk; rw [h2.ids k hk.2, h1.ids k hk.1]
  · intro h; rw [Bool.or_eq_false_iff] at h
    exact ⟨(h2.tabs h.2).1.trans (h1.tabs h.1).1, (h2.tabs h.2).2.trans (h1.tabs h.1).2⟩
end St.Frame

/-- the frame an operation is allowed to touch -/
abbrev Op.Frame (op : Op) (s s' : St α) : Prop :=
  St.Frame s s' op.writesE op.writesU op.writesB op.writesI op.isTables

/-- closes `Op.Frame op s s'` goals where `s'` is syntactically `s` or one `setL`/fold away from it -/
macro "frame_close" : tactic => `(tactic| first
  | exact St.Frame.refl _
  | exact St.Frame.setE _ _ _ (List.mem_cons_self ..)
  | exact St.Frame.setU _ _ _ (List.mem_cons_self ..)
  | exact St.Frame.setB _ _ _ (List.mem_cons_self ..)
  | exact St.Frame.setI _ _ _ (List.mem_cons_self ..)
  | exact St.Frame.foldU _ _ _
  | exact St.Frame.foldB _ _ _)

/-- case-splits the defining equation `h : stepX … = some r` down to its leaves and closes each.
    `let`s are kept as local definitions so that the terms stay small. -/
macro "frame_auto" h:ident : tactic => `(tactic| (
  simp -zeta only [stepE, stepU, stepB] at $h:ident
  try extract_lets at $h:ident
  repeat' (first
    | (cases $h:ident; done)
    | (cases $h:ident; frame_close)
    | split at $h:ident
    | (simp only [Option.bind_eq_some_iff] at $h:ident; obtain ⟨_, _, h'⟩ := $h; cases h'; frame_close)
    | simp +zetaDelta only at $h:ident)))

theorem stepE_frame (s : St α) (op : Op) (r : St α × String) (h : stepE env s op = some r) :
    op.Frame s r.1 := by
  cases op <;> frame_auto h

theorem stepU_frame (s : St α) (op : Op) (r : St α × String) (h : stepU env s op = some r) :
    op.Frame s r.1 := by
  cases op <;> frame_auto h

theorem stepB_frame (s : St α) (op : Op) (r : St α × String) (h : stepB env s op = some r) :
    op.Frame s r.1 := by
  cases op <;> frame_auto h

theorem stepT_regs (desc : FieldDesc) (s : St α) (op : Op) (r : St α × String)
    (h : stepT desc s op = some r) :
    op.isTables = true ∧ r.1.es = s.es ∧ r.1.us = s.us ∧ r.1.bs = s.bs ∧ r.1.ids = s.ids := by
  cases op <;> simp only [stepT] at h <;> try (cases h; done)
  refine ⟨rfl, ?_⟩
  repeat' split at h
  all_goals (cases h; exact ⟨rfl, rfl, rfl, rfl⟩)

theorem stepT_frame (desc : FieldDesc) (s : St α) (op : Op) (r : St α × String)
    (h : stepT desc s op = some r) : op.Frame s r.1 := by
  obtain ⟨ht, he, hu, hb, hi⟩ := stepT_regs desc s op r h
  exact ⟨fun _ _ => by rw [he], fun _ _ => by rw [hu], fun _ _ => by rw [hb], fun _ _ => by rw [hi],
    fun hf => by rw [ht] at hf; cases hf⟩

/-- `step` dispatches to the first sub-function that knows the operation -/
theorem step_cases (desc : FieldDesc) (s : St α) (op : Op) :
    stepE env s op = some (step env desc s op) ∨ stepU env s op = some (step env desc s op) ∨
    stepB env s op = some (step env desc s op) ∨ stepT desc s op = some (step env desc s op) ∨
    step env desc s op = (s, "bad-op") := by
  unfold step
  cases stepE env s op with
  | some r => exact .inl rfl
  | none =>
    cases stepU env s op with
    | some r => exact .inr (.inl rfl)
    | none =>
      cases stepB env s op with
      | some r => exact .inr (.inr (.inl rfl))
      | none =>
        cases stepT desc s op with
        | some r => exact .inr (.inr (.inr (.inl rfl)))
        | none => exact .inr (.inr (.inr (.inr rfl)))

/-- C16-1 in one structure: `step` changes at most the registers in the operation's write sets -/
theorem step_frame' (desc : FieldDesc) (s : St α) (op : Op) : op.Frame s (step env desc s op).1 := by
  rcases step_cases env desc s op with h | h | h | h | h
  · exact stepE_frame env s op _ h
  · exact stepU_frame env s op _ h
  · exact stepB_frame env s op _ h
  · exact stepT_frame desc s op _ h
  · rw [h]; exact St.Frame.refl s

end frame

/-! ### histories -/
section hist
variable {α : Type} (env : Env α) (desc : FieldDesc)

/-- run a history: final store and the list of replies (one per operation) -/
def runOps (s : St α) : List Op → St α × List String
  | [] => (s, [])
  | op :: t =>
    let r := step env desc s op
    let rest := runOps r.1 t
    (rest.1, r.2 :: rest.2)

/-- the final store of `runOps` is the driver's fold of `step` -/
theorem runOps_fst (s : St α) (ops : List Op) :
    (runOps env desc s ops).1 = ops.foldl (fun st op => (step env desc st op).1) s := by
  induction ops generalizing s with
  | nil => rfl
  | cons op t ih => simp only [runOps, List.foldl_cons, ih]

theorem runOps_length (s : St α) (ops : List Op) : (runOps env desc s ops).2.length = ops.length := by
  induction ops generalizing s with
  | nil => rfl
  | cons op t ih => simp only [runOps, List.length_cons, ih]

theorem runOps_frame (s : St α) (ops : List Op) :
    St.Frame s (runOps env desc s ops).1 (ops.flatMap Op.writesE) (ops.flatMap Op.writesU)
      (ops.flatMap Op.writesB) (ops.flatMap Op.writesI) (ops.any Op.isTables) := by
  induction ops generalizing s with
  | nil => exact St.Frame.refl s
  | cons op t ih =>
    simp only [runOps, List.flatMap_cons, List.any_cons]
    exact St.Frame.trans (step_frame' env desc s op) (ih _)

end hist

/-! ### table presence is invisible to every other operation -/
section tabs
variable {α : Type} (env : Env α)

/-- same registers, possibly different table-presence lists -/
def St.withTabs (s : St α) (a m : List Nat) : St α := { s with addTabs := a, mulTabs := m }

@[simp] theorem St.withTabs_es (s : St α) (a m : List Nat) : (s.withTabs a m).es = s.es := rfl
@[simp] theorem St.withTabs_us (s : St α) (a m : List Nat) : (s.withTabs a m).us = s.us := rfl
@[simp] theorem St.withTabs_bs (s : St α) (a m : List Nat) : (s.withTabs a m).bs = s.bs := rfl
@[simp] theorem St.withTabs_ids (s : St α) (a m : List Nat) : (s.withTabs a m).ids = s.ids := rfl
theorem eGet_withTabs (s : St α) (a m : List Nat) : eGet env (s.withTabs a m) = eGet env s := rfl
theorem uGet_withTabs (s : St α) (a m : List Nat) : uGet env (s.withTabs a m) = uGet env s := rfl
theorem bGet_withTabs (s : St α) (a m : List Nat) : bGet (s.withTabs a m) = bGet s := rfl
theorem iGet_withTabs (s : St α) (a m : List Nat) : iGet (s.withTabs a m) = iGet s := rfl

theorem Option.bind_eq_match' {β γ : Type} (o : Option β) (g : β → Option γ) :
    o.bind g = (match o with | none => none | some v => g v) := by cases o <;> rfl

macro "tabs_auto" : tactic => `(tactic| (
  simp -zeta only [stepE, stepU, stepB, eGet_withTabs, uGet_withTabs, bGet_withTabs, iGet_withTabs,
    St.withTabs_es, St.withTabs_us, St.withTabs_bs, St.withTabs_ids, Option.bind_eq_match']
  try extract_lets
  repeat' (first
    | rfl
    | split_if_goal
    | split
    | simp +zetaDelta only)))

theorem stepE_withTabs (s : St α) (a m : List Nat) (op : Op) :
    stepE env (s.withTabs a m) op = (stepE env s op).map fun r => (r.1.withTabs a m, r.2) := by
  cases op <;> tabs_auto

theorem stepU_withTabs (s : St α) (a m : List Nat) (op : Op) :
    stepU env (s.withTabs a m) op = (stepU env s op).map fun r => (r.1.withTabs a m, r.2) := by
  cases op <;> tabs_auto

theorem stepB_withTabs (s : St α) (a m : List Nat) (op : Op) :
    stepB env (s.withTabs a m) op = (stepB env s op).map fun r => (r.1.withTabs a m, r.2) := by
  cases op <;> tabs_auto

theorem stepT_eq_none (desc : FieldDesc) (s : St α) (op : Op) (h : op.isTables = false) :
    stepT desc s op = none := by
  cases op <;> first | rfl | cases h

/-- an operation other than `.tables` neither reads nor writes the table-presence lists -/
theorem step_withTabs (desc : FieldDesc) (s : St α) (a m : List Nat) (op : Op) (h : op.isTables = false) :
    step env desc (s.withTabs a m) op
      = ((step env desc s op).1.withTabs a m, (step env desc s op).2) := by
  unfold step
  rw [stepE_withTabs, stepU_withTabs, stepB_withTabs, stepT_eq_none desc _ op h, stepT_eq_none desc _ op h]
  cases stepE env s op with
  | some r => rfl
  | none =>
    cases stepU env s op with
    | some r => rfl
    | none =>
      cases stepB env s op with
      | some r => rfl
      | none => rfl

/-- equality of all registers (the table-presence lists may differ) -/
def St.RegEq (s t : St α) : Prop := s.es = t.es ∧ s.us = t.us ∧ s.bs = t.bs ∧ s.ids = t.ids

theorem St.RegEq.refl (s : St α) : St.RegEq s s := ⟨rfl, rfl, rfl, rfl⟩
theorem St.RegEq.symm {s t : St α} (h : St.RegEq s t) : St.RegEq t s := ⟨h.1.symm, h.2.1.symm, h.2.2.1.symm, h.2.2.2.symm⟩
theorem St.RegEq.trans {s t u : St α} (h : St.RegEq s t) (h' : St.RegEq t u) : St.RegEq s u :=
  ⟨h.1.trans h'.1, h.2.1.trans h'.2.1, h.2.2.1.trans h'.2.2.1, h.2.2.2.trans h'.2.2.2⟩
theorem St.RegEq.eq_withTabs {s t : St α} (h : St.RegEq s t) : t = s.withTabs t.addTabs t.mulTabs := by
  obtain ⟨h1, h2, h3, h4⟩ := h
  cases s; cases t; simp only [St.withTabs] at *; subst h1 h2 h3 h4; rfl
theorem St.regEq_withTabs (s : St α) (a m : List Nat) : St.RegEq s (s.withTabs a m) := ⟨rfl, rfl, rfl, rfl⟩

/-- `.tables` leaves every register alone -/
theorem step_tables_regEq (desc : FieldDesc) (s : St α) (op : Op) (h : op.isTables = true) :
    St.RegEq s (step env desc s op).1 := by
  cases op <;> try (cases h; done)
  rename_i f add mult maxMem
  have : step env desc s (.tables f add mult maxMem)
      = (match stepT desc s (.tables f add mult maxMem) with | some r => r | none => (s, "bad-op")) := rfl
  rw [this]
  cases hT : stepT desc s (.tables f add mult maxMem) with
  | none => exact St.RegEq.refl s
  | some r =>
    obtain ⟨_, h1, h2, h3, h4⟩ := stepT_regs desc s _ r hT
    exact ⟨h1.symm, h2.symm, h3.symm, h4.symm⟩

/-- every other operation computes the same registers and the same reply from equal registers -/
theorem step_regEq (desc : FieldDesc) (s t : St α) (op : Op) (hop : op.isTables = false)
    (h : St.RegEq s t) :
    St.RegEq (step env desc s op).1 (step env desc t op).1 ∧ (step env desc s op).2 = (step env desc t op).2 := by
  rw [h.eq_withTabs, step_withTabs env desc s _ _ op hop]
  exact ⟨St.regEq_withTabs _ _ _, rfl⟩

/-- C18-1 for histories: dropping the `.tables` requests changes no register and no other reply -/
theorem runOps_filter_tables (desc : FieldDesc) (s t : St α) (ops : List Op) (h : St.RegEq s t) :
    St.RegEq (runOps env desc s ops).1 (runOps env desc t (ops.filter (!·.isTables))).1 ∧
    ((ops.zip (runOps env desc s ops).2).filter (!·.1.isTables)).map (·.2)
      = (runOps env desc t (ops.filter (!·.isTables))).2 := by
  induction ops generalizing s t with
  | nil => exact ⟨h, rfl⟩
  | cons op rest ih =>
    cases hop : op.isTables with
    | true =>
      have h' : St.RegEq (step env desc s op).1 t := (step_tables_regEq env desc s op hop).symm.trans h
      simpa [runOps, List.filter_cons, hop] using ih _ _ h'
    | false =>
      obtain ⟨h1, h2⟩ := step_regEq env desc s t op hop h
      obtain ⟨ih1, ih2⟩ := ih _ _ h1
      simp only [runOps, List.filter_cons, hop, Bool.not_false, if_true, List.zip_cons_cons, List.map_cons]
      exact ⟨ih1, by rw [ih2, h2]⟩

end tabs

/-! ### error bookkeeping -/

theorem Err.wrapInherit_of_isErr {e : Err} (h : e.isErr = true) : e.wrapInherit = e := by
  cases e <;> first | rfl | cases h
theorem Err.wrapInherit_isErr (e : Err) : e.wrapInherit.isErr = true := by cases e <;> rfl
theorem Err.wrapInherit_kind (k : Kind) : (Err.kind k).wrapInherit = .kind k := rfl
theorem Err.isErr_kind (k : Kind) : (Err.kind k).isErr = true := rfl

/-- the first error status in checking order -/
def firstErr : List Err → Err
  | [] => .none
  | e :: t => if e.isErr then e else firstErr t

theorem firstErr_mem {l : List Err} (h : ∃ e ∈ l, e.isErr = true) :
    firstErr l ∈ l ∧ (firstErr l).isErr = true := by
  induction l with
  | nil => obtain ⟨e, he, _⟩ := h; cases he
  | cons e t ih =>
    unfold firstErr
    by_cases he : e.isErr = true
    · simp [he]
    · simp only [he, Bool.false_eq_true, if_false]
      obtain ⟨e', he', hh⟩ := h
      rcases List.mem_cons.1 he' with rfl | hm
      · exact absurd hh he
      · exact ⟨List.mem_cons_of_mem _ (ih ⟨e', hm, hh⟩).1, (ih ⟨e', hm, hh⟩).2⟩

section elem
variable {α : Type} (env : Env α)

theorem EReg.with_err_self (a : EReg α) (h : a.err.isErr = true) :
    ({ a with err := a.err.wrapInherit } : EReg α) = a := by
  rw [Err.wrapInherit_of_isErr h]

theorem EReg.with_err_self' (a : EReg α) (h : a.err.isErr = true) (hf : a.foreign = false) :
    ({ home := a.home, val := a.val, err := a.err.wrapInherit, foreign := false } : EReg α) = a := by
  rw [Err.wrapInherit_of_isErr h, ← hf]

/-- receiver erroneous (argument not foreign): the receiver itself comes back, unchanged -/
theorem eInPlace_recvErr (op : String) (a b : EReg α) (hb : b.foreign = false) (ha : a.err.isErr = true) :
    eInPlace env op a b = (a, a, true) := by
  simp only [eInPlace, eCheck, hb, ha, Bool.false_eq_true, if_false, if_true, EReg.with_err_self a ha]

/-- receiver clean, argument erroneous: the argument comes back, receiver untouched -/
theorem eInPlace_argErr (op : String) (a b : EReg α) (hb : b.foreign = false) (ha : a.err.isErr = false)
    (hbe : b.err.isErr = true) : eInPlace env op a b = (a, b, false) := by
  simp only [eInPlace, eCheck, hb, ha, hbe, Bool.false_eq_true, if_false, if_true, EReg.with_err_self' b hbe hb]

theorem eProdFn_bErr (a b c : EReg α) (bIsA cIsA : Bool) (hb : b.foreign = false) (hc : c.foreign = false)
    (hbe : b.err.isErr = true) :
    eProdFn env a b c bIsA cIsA = if bIsA then (b, b, true) else (a, b, false) := by
  simp only [eProdFn, hb, hc, hbe, Bool.or_self, Bool.false_eq_true, if_false, if_true, EReg.with_err_self' b hbe hb]

theorem eProdFn_cErr (a b c : EReg α) (bIsA cIsA : Bool) (hb : b.foreign = false) (hc : c.foreign = false)
    (hbe : b.err.isErr = false) (hce : c.err.isErr = true) :
    eProdFn env a b c bIsA cIsA = if cIsA then (c, c, true) else (a, c, false) := by
  simp only [eProdFn, hb, hc, hbe, hce, Bool.or_self, Bool.false_eq_true, if_false, if_true,
    EReg.with_err_self' c hce hc]

/-- the receiver's own error is never consulted by `Prod`, but it is never cleared either -/
theorem eProdFn_recv_err (a b c : EReg α) (bIsA cIsA : Bool) (ha : a.err.isErr = true) :
    (eProdFn env a b c bIsA cIsA).1.err.isErr = true ∨
    ((eProdFn env a b c bIsA cIsA).1 = b ∧ bIsA = true) ∨ ((eProdFn env a b c bIsA cIsA).1 = c ∧ cIsA = true) := by
  unfold eProdFn
  split
  · exact .inl rfl
  · split
    · rename_i hbe
      cases bIsA
      · exact .inl ha
      · exact .inr (.inl ⟨EReg.with_err_self b hbe, rfl⟩)
    · split
      · rename_i hce
        cases cIsA
        · exact .inl ha
        · exact .inr (.inr ⟨EReg.with_err_self c hce, rfl⟩)
      · split
        · exact .inl ha
        · exact .inl ha

/-! explicit `step` equations (all by `rfl`): the objects computed by the element operations -/

/-- `(new receiver, returned object, returned-is-receiver)` of `a.Copy().Op(b)` -/
def eBinRes (s : St α) (op : String) (a b : Nat) : EReg α × EReg α × Bool :=
  if op == "times" then eProdFn env (eGet env s a) (eGet env s a) (eGet env s b) true false
  else eInPlace env op (eGet env s a) (eGet env s b)

theorem step_eBin (desc : FieldDesc) (s : St α) (dst : Nat) (op : String) (a b : Nat) :
    step env desc s (.eBin dst op a b)
      = ({ s with es := St.setL s.es dst (eBinRes env s op a b).2.1 },
         "ok " ++ showE env (eBinRes env s op a b).2.1) := rfl

def eUnRes (s : St α) (op : String) (a : Nat) : EReg α :=
  let ra := eGet env s a
  let F := fld env ra.home
  if op == "copy" then ra
  else if op == "neg" then { ra with val := F.neg ra.val }
  else if op == "trace" then (if ra.err.isErr then ra else { ra with val := F.trace ra.val })
  else
    if ra.err.isErr then ra
    else match F.inv ra.val with
      | some v => { ra with val := v }
      | none => { home := ra.home, val := F.zero, err := .kind .inputValue }

theorem step_eUn (desc : FieldDesc) (s : St α) (dst : Nat) (op : String) (a : Nat) :
    step env desc s (.eUn dst op a)
      = ({ s with es := St.setL s.es dst (eUnRes env s op a) }, "ok " ++ showE env (eUnRes env s op a)) := rfl

def ePowRes (s : St α) (a n : Nat) : EReg α :=
  let ra := eGet env s a
  if ra.err.isErr then ra else { ra with val := (fld env ra.home).pow ra.val n }

theorem step_ePow (desc : FieldDesc) (s : St α) (dst a n : Nat) :
    step env desc s (.ePow dst a n)
      = ({ s with es := St.setL s.es dst (ePowRes env s a n) }, "ok " ++ showE env (ePowRes env s a n)) := rfl

def eInRes (s : St α) (op : String) (a b : Nat) : EReg α × EReg α × Bool :=
  if op == "mult" then eProdFn env (eGet env s a) (eGet env s a) (eGet env s b) true (a == b)
  else eInPlace env op (eGet env s a) (eGet env s b)

theorem step_eIn (desc : FieldDesc) (s : St α) (op : String) (a b : Nat) :
    step env desc s (.eIn op a b)
      = ({ s with es := St.setL s.es a (eInRes env s op a b).1 },
         ret (eInRes env s op a b).2.2 (showE env (eInRes env s op a b).2.1)) := rfl

def eProdRes (s : St α) (a b c : Nat) : EReg α × EReg α × Bool :=
  eProdFn env (eGet env s a) (eGet env s b) (eGet env s c) (a == b) (a == c)

theorem step_eProd (desc : FieldDesc) (s : St α) (a b c : Nat) :
    step env desc s (.eProd a b c)
      = ({ s with es := St.setL s.es a (eProdRes env s a b c).1 },
         ret (eProdRes env s a b c).2.2 (showE env (eProdRes env s a b c).2.1)) := rfl

theorem step_eSetNeg (desc : FieldDesc) (s : St α) (a : Nat) :
    step env desc s (.eSetNeg a)
      = (let ra := eGet env s a
         let r := { ra with val := (fld env ra.home).neg ra.val }
         ({ s with es := St.setL s.es a r }, ret true (showE env r))) := rfl

theorem step_eSetU (desc : FieldDesc) (s : St α) (a n : Nat) :
    step env desc s (.eSetU a n)
      = (let ra := eGet env s a
         let r := { ra with val := (fld env ra.home).ofNat n }
         ({ s with es := St.setL s.es a r }, ret true (showE env r))) := rfl

end elem
end Algobra
