/-
  Proofs/Step.lean — helper lemmas about the object-level `step` of Model/Hist.lean:
  association-list facts (`St.setL` / `St.getL`), write sets of every `Op`, frame lemmas per
  sub-function, error-kind bookkeeping. CORE LEAN ONLY.
-/
import Algobra.Model.Hist
namespace Algobra

/-! ### association lists -/
namespace St
variable {β : Type}

theorem getL_nil (k : Nat) : getL ([] : List (Nat × β)) k = none := rfl

theorem getL_cons (p : Nat × β) (l : List (Nat × β)) (k : Nat) :
    getL (p :: l) k = if p.1 = k then some p.2 else getL l k := by
  unfold getL
  by_cases h : p.1 = k
  · simp [h]
  · simp [h]

theorem any_key_false_iff (l : List (Nat × β)) (k : Nat) :
    l.any (·.1 == k) = false ↔ getL l k = none := by
  induction l with
  | nil => simp [getL]
  | cons p t ih =>
    rw [getL_cons]
    by_cases h : p.1 = k
    · simp [h]
    · simp [h, ih]

theorem getL_map_upd (l : List (Nat × β)) (k k' : Nat) (v : β) :
    getL (l.map fun (k'', x) => if k'' == k then (k'', v) else (k'', x)) k'
      = if k' = k then (getL l k).map (fun _ => v) else getL l k' := by
  induction l with
  | nil => simp [getL]
  | cons p t ih =>
    obtain ⟨a, x⟩ := p
    simp only [List.map_cons, getL_cons, ih]
    by_cases h1 : a = k
    · subst h1
      by_cases h2 : k' = a
      · subst h2; simp
      · have : ¬ a = k' := fun h => h2 h.symm
        simp [h2, this]
    · by_cases h2 : k' = k
      · subst h2
        simp [h1]
      · by_cases h3 : a = k'
        · simp [h2, h3]
        · simp [h1, h2, h3]

theorem getL_append_single (l : List (Nat × β)) (k k' : Nat) (v : β) :
    getL (l ++ [(k, v)]) k' = match getL l k' with
      | some x => some x
      | none => if k = k' then some v else none := by
  induction l with
  | nil => simp [getL_cons, getL_nil]
  | cons p t ih =>
    rw [List.cons_append, getL_cons, getL_cons, ih]
    by_cases h : p.1 = k' <;> simp [h]

/-- reading the register just written -/
theorem getL_setL_same (l : List (Nat × β)) (k : Nat) (v : β) :
    getL (setL l k v) k = some v := by
  unfold setL
  split
  · next h =>
    rw [getL_map_upd]
    simp only [if_true]
    cases hg : getL l k with
    | none => rw [← any_key_false_iff] at hg; rw [hg] at h; cases h
    | some x => rfl
  · next h =>
    have h' : getL l k = none := (any_key_false_iff l k).1 (Bool.eq_false_iff.2 h)
    rw [getL_append_single, h']; simp

/-- reading any other register -/
theorem getL_setL_ne (l : List (Nat × β)) {k k' : Nat} (v : β) (hne : k' ≠ k) :
    getL (setL l k v) k' = getL l k' := by
  unfold setL
  split
  · rw [getL_map_upd]; simp [hne]
  · rw [getL_append_single]
    have : ¬ k = k' := fun h => hne h.symm
    cases getL l k' <;> simp [this]

theorem getL_setL (l : List (Nat × β)) (k k' : Nat) (v : β) :
    getL (setL l k v) k' = if k' = k then some v else getL l k' := by
  by_cases h : k' = k
  · subst h; simp [getL_setL_same]
  · simp [h, getL_setL_ne l v h]

/-- multi-destination writes (`QuoRem`, `Generators`): registers off the destination list are untouched -/
theorem getL_foldl_setL_notin {γ : Type} (g : Nat × γ → β) (kvs : List (Nat × γ)) (l : List (Nat × β)) (k : Nat)
    (hk : ∀ p ∈ kvs, p.1 ≠ k) :
    getL (kvs.foldl (fun acc p => setL acc p.1 (g p)) l) k = getL l k := by
  induction kvs generalizing l with
  | nil => rfl
  | cons p t ih =>
    rw [List.foldl_cons, ih]
    · exact getL_setL_ne l _ (fun h => hk p (List.mem_cons_self ..) h.symm)
    · intro q hq; exact hk q (List.mem_cons_of_mem _ hq)

theorem getL_foldl_setL_zip_notin {γ : Type} (g : Nat × γ → β) (ds : List Nat) (outs : List γ)
    (l : List (Nat × β)) (k : Nat) (hk : k ∉ ds) :
    getL ((ds.zip outs).foldl (fun acc p => setL acc p.1 (g p)) l) k = getL l k := by
  apply getL_foldl_setL_notin
  intro p hp h
  have := (List.of_mem_zip (show (p.1, p.2) ∈ ds.zip outs from hp)).1
  exact hk (h ▸ this)

end St

/-! ### write sets -/

/-- element registers an operation may assign -/
def Op.writesE : Op → List Nat
  | .eCtor dst .. | .eBin dst .. | .eUn dst .. | .ePow dst .. => [dst]
  | .eIn _ a _ | .eProd a .. | .eSetNeg a | .eSetU a _ => [a]
  | .uEval dst .. | .uCoef dst .. | .uLc dst _ => [dst]
  | .bEval dst .. | .bCoef dst .. | .bLc dst _ => [dst]
  | _ => []

/-- univariate polynomial registers an operation may assign -/
def Op.writesU : Op → List Nat
  | .uCtor dst .. | .uBin dst .. | .uUn dst .. | .uScale dst .. | .uPow dst .. => [dst]
  | .uIn _ a _ | .uSetNeg a | .uSetScale a _ | .uSetCoef _ a .. | .uSetZero a | .uEmbed a .. => [a]
  | .uQuoRem dsts .. => dsts
  | .uGcd dst _ | .uInterp dst .. => [dst]
  | _ => []

/-- bivariate polynomial registers an operation may assign -/
def Op.writesB : Op → List Nat
  | .bCtor dst .. | .bBin dst .. | .bUn dst .. | .bScale dst .. | .bPow dst .. => [dst]
  | .bIn _ a _ | .bSetScale a _ | .bSetCoef _ a .. => [a]
  | .bQuoRem dsts .. => dsts
  | .bRem dst .. | .bInterp dst .. => [dst]
  | .iGens dsts _ => dsts
  | _ => []

/-- ideal registers an operation may assign (`iPred`/`iXform` update the receiver's cached flags / basis) -/
def Op.writesI : Op → List Nat
  | .iNew dst .. | .iCopy dst _ | .iGroebner dst _ => [dst]
  | .iPred _ a | .iXform _ a => [a]
  | _ => []

/-- `ComputeTables` requests: the only operations that touch the table-presence lists -/
def Op.isTables : Op → Bool
  | .tables .. => true
  | _ => false

/-- operations that assign to their receiver instead of a destination register -/
def Op.inPlace : Op → Bool
  | .eIn .. | .eProd .. | .eSetNeg _ | .eSetU .. => true
  | .uIn .. | .uSetNeg _ | .uSetScale .. | .uSetCoef .. | .uSetZero _ | .uEmbed .. => true
  | .bIn .. | .bSetScale .. | .bSetCoef .. => true
  | .iPred .. | .iXform .. => true
  | _ => false

/-! ### frame lemmas per sub-function -/
section frame
variable {α : Type} (env : Env α)

/-- `s'` differs from `s` at most in the listed registers of each sort
    (and in the table-presence lists only if `wt`) -/
structure St.Frame (s s' : St α) (we wu wb wi : List Nat) (wt : Bool) : Prop where
  es : ∀ k, k ∉ we → St.getL s'.es k = St.getL s.es k
  us : ∀ k, k ∉ wu → St.getL s'.us k = St.getL s.us k
  bs : ∀ k, k ∉ wb → St.getL s'.bs k = St.getL s.bs k
  ids : ∀ k, k ∉ wi → St.getL s'.ids k = St.getL s.ids k
  tabs : wt = false → s'.addTabs = s.addTabs ∧ s'.mulTabs = s.mulTabs

namespace St.Frame
variable (s : St α) {we wu wb wi : List Nat} {wt : Bool}
theorem refl : St.Frame s s we wu wb wi wt :=
  ⟨fun _ _ => rfl, fun _ _ => rfl, fun _ _ => rfl, fun _ _ => rfl, fun _ => ⟨rfl, rfl⟩⟩
theorem setE (d : Nat) (x : EReg α) (hd : d ∈ we) :
    St.Frame s { s with es := St.setL s.es d x } we wu wb wi wt :=
  ⟨fun _ hk => St.getL_setL_ne _ _ (fun h => hk (h ▸ hd)), fun _ _ => rfl, fun _ _ => rfl, fun _ _ => rfl,
   fun _ => ⟨rfl, rfl⟩⟩
theorem setU (d : Nat) (x : UReg α) (hd : d ∈ wu) :
    St.Frame s { s with us := St.setL s.us d x } we wu wb wi wt :=
  ⟨fun _ _ => rfl, fun _ hk => St.getL_setL_ne _ _ (fun h => hk (h ▸ hd)), fun _ _ => rfl, fun _ _ => rfl,
   fun _ => ⟨rfl, rfl⟩⟩
theorem setB (d : Nat) (x : BReg α) (hd : d ∈ wb) :
    St.Frame s { s with bs := St.setL s.bs d x } we wu wb wi wt :=
  ⟨fun _ _ => rfl, fun _ _ => rfl, fun _ hk => St.getL_setL_ne _ _ (fun h => hk (h ▸ hd)), fun _ _ => rfl,
   fun _ => ⟨rfl, rfl⟩⟩
theorem setI (d : Nat) (x : BPoly.Ideal α) (hd : d ∈ wi) :
    St.Frame s { s with ids := St.setL s.ids d x } we wu wb wi wt :=
  ⟨fun _ _ => rfl, fun _ _ => rfl, fun _ _ => rfl, fun _ hk => St.getL_setL_ne _ _ (fun h => hk (h ▸ hd)),
   fun _ => ⟨rfl, rfl⟩⟩
theorem foldU {γ : Type} (f : Nat × γ → UReg α) (outs : List γ) :
    St.Frame s { s with us := (wu.zip outs).foldl (fun acc p => St.setL acc p.1 (f p)) s.us } we wu wb wi wt :=
  ⟨fun _ _ => rfl, fun _ hk => St.getL_foldl_setL_zip_notin f _ _ _ _ hk, fun _ _ => rfl, fun _ _ => rfl,
   fun _ => ⟨rfl, rfl⟩⟩
theorem foldB {γ : Type} (f : Nat × γ → BReg α) (outs : List γ) :
    St.Frame s { s with bs := (wb.zip outs).foldl (fun acc p => St.setL acc p.1 (f p)) s.bs } we wu wb wi wt :=
  ⟨fun _ _ => rfl, fun _ _ => rfl, fun _ hk => St.getL_foldl_setL_zip_notin f _ _ _ _ hk, fun _ _ => rfl,
   fun _ => ⟨rfl, rfl⟩⟩
theorem trans {s1 s2 s3 : St α} {we' wu' wb' wi' : List Nat} {wt' : Bool}
    (h1 : St.Frame s1 s2 we wu wb wi wt) (h2 : St.Frame s2 s3 we' wu' wb' wi' wt') :
    St.Frame s1 s3 (we ++ we') (wu ++ wu') (wb ++ wb') (wi ++ wi') (wt || wt') := by
  constructor
  · intro k hk; rw [List.mem_append, not_or] at hk; rw [h2.es k hk.2, h1.es k hk.1]
  · intro k hk; rw [List.mem_append, not_or] at hk; rw [h2.us k hk.2, h1.us k hk.1]
  · intro k hk; rw [List.mem_append, not_or] at hk; rw [h2.bs k hk.2, h1.bs k hk.1]
  · intro k hk; rw [List.mem_append, not_or] at hk; rw [h2.ids k hk.2, h1.ids k hk.1]
  · intro h; rw [Bool.or_eq_false_iff] at h
    exact ⟨(h2.tabs h.2).1.trans (h1.tabs h.1).1, (h2.tabs h.2).2.trans (h1.tabs h.1).2⟩
end St.Frame

/-- the frame an operation is allowed to touch -/
abbrev Op.Frame (op : Op) (s s' : St α) : Prop :=
  St.Frame s s' op.writesE op.writesU op.writesB op.writesI op.isTables

/-- closes `Op.Frame op s s'` goals where `s'` is syntactically `s` or one `setL`/fold away from it -/
macro "frame_close" : tactic => `(tactic| first
  | exact St.Frame.refl _
  | exact St.Frame.setE _ _ _ (List.mem_cons_self ..)
  | exact St.Frame.setU _ _ _ (List.mem_cons_self ..)
  | exact St.Frame.setB _ _ _ (List.mem_cons_self ..)
  | exact St.Frame.setI _ _ _ (List.mem_cons_self ..)
  | exact St.Frame.foldU _ _ _
  | exact St.Frame.foldB _ _ _)

/-- case-splits the defining equation `h : stepX … = some r` down to its leaves and closes each.
    `let`s are kept as local definitions so that the terms stay small. -/
macro "frame_auto" h:ident : tactic => `(tactic| (
  simp -zeta only [stepE, stepU, stepB] at $h:ident
  try extract_lets at $h:ident
  repeat' (first
    | (cases $h:ident; done)
    | (cases $h:ident; frame_close)
    | split at $h:ident
    | (simp only [Option.bind_eq_some_iff] at $h:ident; obtain ⟨_, _, h'⟩ := $h; cases h'; frame_close)
    | simp +zetaDelta only at $h:ident)))

theorem stepE_frame (s : St α) (op : Op) (r : St α × String) (h : stepE env s op = some r) :
    op.Frame s r.1 := by
  cases op <;> frame_auto h

theorem stepU_frame (s : St α) (op : Op) (r : St α × String) (h : stepU env s op = some r) :
    op.Frame s r.1 := by
  cases op <;> frame_auto h

theorem stepB_frame (s : St α) (op : Op) (r : St α × String) (h : stepB env s op = some r) :
    op.Frame s r.1 := by
  cases op <;> frame_auto h

theorem stepT_regs (desc : FieldDesc) (s : St α) (op : Op) (r : St α × String)
    (h : stepT desc s op = some r) :
    op.isTables = true ∧ r.1.es = s.es ∧ r.1.us = s.us ∧ r.1.bs = s.bs ∧ r.1.ids = s.ids := by
  cases op <;> simp only [stepT] at h <;> try (cases h; done)
  refine ⟨rfl, ?_⟩
  repeat' split at h
  all_goals (cases h; exact ⟨rfl, rfl, rfl, rfl⟩)

theorem stepT_frame (desc : FieldDesc) (s : St α) (op : Op) (r : St α × String)
    (h : stepT desc s op = some r) : op.Frame s r.1 := by
  obtain ⟨ht, he, hu, hb, hi⟩ := stepT_regs desc s op r h
  exact ⟨fun _ _ => by rw [he], fun _ _ => by rw [hu], fun _ _ => by rw [hb], fun _ _ => by rw [hi],
    fun hf => by rw [ht] at hf; cases hf⟩

/-- `step` dispatches to the first sub-function that knows the operation -/
theorem step_cases (desc : FieldDesc) (s : St α) (op : Op) :
    stepE env s op = some (step env desc s op) ∨ stepU env s op = some (step env desc s op) ∨
    stepB env s op = some (step env desc s op) ∨ stepT desc s op = some (step env desc s op) ∨
    step env desc s op = (s, "bad-op") := by
  unfold step
  cases stepE env s op with
  | some r => exact .inl rfl
  | none =>
    cases stepU env s op with
    | some r => exact .inr (.inl rfl)
    | none =>
      cases stepB env s op with
      | some r => exact .inr (.inr (.inl rfl))
      | none =>
        cases stepT desc s op with
        | some r => exact .inr (.inr (.inr (.inl rfl)))
        | none => exact .inr (.inr (.inr (.inr rfl)))

/-- C16-1 in one structure: `step` changes at most the registers in the operation's write sets -/
theorem step_frame' (desc : FieldDesc) (s : St α) (op : Op) : op.Frame s (step env desc s op).1 := by
  rcases step_cases env desc s op with h | h | h | h | h
  · exact stepE_frame env s op _ h
  · exact stepU_frame env s op _ h
  · exact stepB_frame env s op _ h
  · exact stepT_frame desc s op _ h
  · rw [h]; exact St.Frame.refl s

end frame

/-! ### histories -/
section hist
variable {α : Type} (env : Env α) (desc : FieldDesc)

/-- run a history: final store and the list of replies (one per operation) -/
def runOps (s : St α) : List Op → St α × List String
  | [] => (s, [])
  | op :: t =>
    let r := step env desc s op
    let rest := runOps r.1 t
    (rest.1, r.2 :: rest.2)

/-- the final store of `runOps` is the driver's fold of `step` -/
theorem runOps_fst (s : St α) (ops : List Op) :
    (runOps env desc s ops).1 = ops.foldl (fun st op => (step env desc st op).1) s := by
  induction ops generalizing s with
  | nil => rfl
  | cons op t ih => simp only [runOps, List.foldl_cons, ih]

theorem runOps_length (s : St α) (ops : List Op) : (runOps env desc s ops).2.length = ops.length := by
  induction ops generalizing s with
  | nil => rfl
  | cons op t ih => simp only [runOps, List.length_cons, ih]

theorem runOps_frame (s : St α) (ops : List Op) :
    St.Frame s (runOps env desc s ops).1 (ops.flatMap Op.writesE) (ops.flatMap Op.writesU)
      (ops.flatMap Op.writesB) (ops.flatMap Op.writesI) (ops.any Op.isTables) := by
  induction ops generalizing s with
  | nil => exact St.Frame.refl s
  | cons op t ih =>
    simp only [runOps, List.flatMap_cons, List.any_cons]
    exact St.Frame.trans (step_frame' env desc s op) (ih _)

end hist

/-! ### table presence is invisible to every other operation -/
section tabs
variable {α : Type} (env : Env α)

/-- same registers, possibly different table-presence lists -/
def St.withTabs (s : St α) (a m : List Nat) : St α := { s with addTabs := a, mulTabs := m }

theorem stepE_withTabs (s : St α) (a m : List Nat) (op : Op) :
    stepE env (s.withTabs a m) op = (stepE env s op).map fun r => (r.1.withTabs a m, r.2) := by
  cases op <;> simp only [stepE, St.withTabs] <;> try rfl
  trace_state
  all_goals sorry

end tabs
end Algobra
