/-
  Proofs/Step.lean — helper lemmas about the object-level `step` of Model/Hist.lean:
  association-list facts (`St.setL` / `St.getL`), write sets of every `Op`, frame lemmas per
  sub-function, error-kind bookkeeping. CORE LEAN ONLY.
-/
import Algobra.Model.Hist
import Lean.Elab.Tactic
set_option linter.unusedSimpArgs false
namespace Algobra

/-- `by_cases` on the outermost `if` condition of the goal and rewrite every `if` with that condition.
    (The built-in `split` runs a `simp` that exceeds its step limit on the big `step` terms.) -/
elab "split_if_goal" : tactic => do
  let g ← Lean.Elab.Tactic.getMainGoal
  let t ← Lean.instantiateMVars (← g.getType)
  let some e := t.find? (fun e => e.isAppOfArity ``ite 5 && !(e.getArg! 1).hasLooseBVars)
    | throwError "split_if_goal: no if-then-else"
  let cStx ← Lean.Elab.Term.exprToSyntax (e.getArg! 1)
  Lean.Elab.Tactic.evalTactic
    (← `(tactic| by_cases hc : $cStx <;> simp only [hc, if_true, if_false, ↓reduceIte, not_true_eq_false, not_false_eq_true, Bool.false_eq_true]))

/-- a concrete environment for the non-vacuity examples: GF(5), base rings only -/
def env5 : Env Nat where
  fld := fun _ => primeOps 5
  uring := fun _ => { F := primeOps 5, varName := "X", modulus := none }
  bring := fun _ => { F := primeOps 5, ord := ⟨.lex, true⟩, varNames := ("X", "Y"), ideal := none }

/-- a concrete store for the non-vacuity examples: a clean, an erroneous and a foreign element;
    a clean and an erroneous polynomial of each sort -/
def sErr : St Nat :=
  { es := [(0, { home := 0, val := 2 }), (1, { home := 0, val := 0, err := .kind .inputValue }),
           (2, { home := 0, val := 0, foreign := true })],
    us := [(0, { home := 0, val := [1, 1] }), (1, { home := 0, val := [], err := .kind .arithmeticIncompat })],
    bs := [(0, { home := 0, val := [((1, 0), 1)] }), (1, { home := 0, val := [], err := .kind .arithmeticIncompat })] }

/-! ### association lists -/
namespace St
variable {β : Type}

theorem getL_nil (k : Nat) : getL ([] : List (Nat × β)) k = none := rfl

theorem getL_cons (p : Nat × β) (l : List (Nat × β)) (k : Nat) :
    getL (p :: l) k = if p.1 = k then some p.2 else getL l k := by
  unfold getL
  by_cases h : p.1 = k
  · simp [h]
  · simp [h]

theorem any_key_false_iff (l : List (Nat × β)) (k : Nat) :
    l.any (·.1 == k) = false ↔ getL l k = none := by
  induction l with
  | nil => simp [getL]
  | cons p t ih =>
    rw [getL_cons]
    by_cases h : p.1 = k
    · simp [h]
    · simp [h, ih]

theorem getL_map_upd (l : List (Nat × β)) (k k' : Nat) (v : β) :
    getL (l.map fun (k'', x) => if k'' == k then (k'', v) else (k'', x)) k'
      = if k' = k then (getL l k).map (fun _ => v) else getL l k' := by
  induction l with
  | nil => simp [getL]
  | cons p t ih =>
    obtain ⟨a, x⟩ := p
    simp only [List.map_cons, getL_cons, ih]
    by_cases h1 : a = k
    · subst h1
      by_cases h2 : k' = a
      · subst h2; simp
      · have : ¬ a = k' := fun h => h2 h.symm
        simp [h2, this]
    · by_cases h2 : k' = k
      · subst h2
        simp [h1]
      · by_cases h3 : a = k'
        · simp [h2, h3]
        · simp [h1, h2, h3]

theorem getL_append_single (l : List (Nat × β)) (k k' : Nat) (v : β) :
    getL (l ++ [(k, v)]) k' = match getL l k' with
      | some x => some x
      | none => if k = k' then some v else none := by
  induction l with
  | nil => simp [getL_cons, getL_nil]
  | cons p t ih =>
    rw [List.cons_append, getL_cons, getL_cons, ih]
    by_cases h : p.1 = k' <;> simp [h]

/-- reading the register just written -/
theorem getL_setL_same (l : List (Nat × β)) (k : Nat) (v : β) :
    getL (setL l k v) k = some v := by
  unfold setL
  split
  · next h =>
    rw [getL_map_upd]
    simp only [if_true]
    cases hg : getL l k with
    | none => rw [← any_key_false_iff] at hg; rw [hg] at h; cases h
    | some x => rfl
  · next h =>
    have h' : getL l k = none := (any_key_false_iff l k).1 (Bool.eq_false_iff.2 h)
    rw [getL_append_single, h']; simp

/-- reading any other register -/
theorem getL_setL_ne (l : List (Nat × β)) {k k' : Nat} (v : β) (hne : k' ≠ k) :
    getL (setL l k v) k' = getL l k' := by
  unfold setL
  split
  · rw [getL_map_upd]; simp [hne]
  · rw [getL_append_single]
    have : ¬ k = k' := fun h => hne h.symm
    cases getL l k' <;> simp [this]

theorem getL_setL (l : List (Nat × β)) (k k' : Nat) (v : β) :
    getL (setL l k v) k' = if k' = k then some v else getL l k' := by
  by_cases h : k' = k
  · subst h; simp [getL_setL_same]
  · simp [h, getL_setL_ne l v h]

/-- multi-destination writes (`QuoRem`, `Generators`): registers off the destination list are untouched -/
theorem getL_foldl_setL_notin {γ : Type} (g : Nat × γ → β) (kvs : List (Nat × γ)) (l : List (Nat × β)) (k : Nat)
    (hk : ∀ p ∈ kvs, p.1 ≠ k) :
    getL (kvs.foldl (fun acc p => setL acc p.1 (g p)) l) k = getL l k := by
  induction kvs generalizing l with
  | nil => rfl
  | cons p t ih =>
    rw [List.foldl_cons, ih]
    · exact getL_setL_ne l _ (fun h => hk p (List.mem_cons_self ..) h.symm)
    · intro q hq; exact hk q (List.mem_cons_of_mem _ hq)

theorem getL_foldl_setL_zip_notin {γ : Type} (g : Nat × γ → β) (ds : List Nat) (outs : List γ)
    (l : List (Nat × β)) (k : Nat) (hk : k ∉ ds) :
    getL ((ds.zip outs).foldl (fun acc p => setL acc p.1 (g p)) l) k = getL l k := by
  apply getL_foldl_setL_notin
  intro p hp h
  have := (List.of_mem_zip (show (p.1, p.2) ∈ ds.zip outs from hp)).1
  exact hk (h ▸ this)

end St

/-! ### write sets -/

/-- element registers an operation may assign -/
def Op.writesE : Op → List Nat
  | .eCtor dst .. | .eBin dst .. | .eUn dst .. | .ePow dst .. => [dst]
  | .eIn _ a _ | .eProd a .. | .eSetNeg a | .eSetU a _ => [a]
  | .uEval dst .. | .uCoef dst .. | .uLc dst _ => [dst]
  | .bEval dst .. | .bCoef dst .. | .bLc dst _ => [dst]
  | _ => []

/-- univariate polynomial registers an operation may assign -/
def Op.writesU : Op → List Nat
  | .uCtor dst .. | .uBin dst .. | .uUn dst .. | .uScale dst .. | .uPow dst .. => [dst]
  | .uIn _ a _ | .uSetNeg a | .uSetScale a _ | .uSetCoef _ a .. | .uSetZero a | .uEmbed a .. => [a]
  | .uQuoRem dsts .. => dsts
  | .uGcd dst _ | .uInterp dst .. => [dst]
  | _ => []

/-- bivariate polynomial registers an operation may assign -/
def Op.writesB : Op → List Nat
  | .bCtor dst .. | .bBin dst .. | .bUn dst .. | .bScale dst .. | .bPow dst .. => [dst]
  | .bIn _ a _ | .bSetScale a _ | .bSetCoef _ a .. => [a]
  | .bQuoRem dsts .. => dsts
  | .bRem dst .. | .bInterp dst .. => [dst]
  | .iGens dsts _ => dsts
  | _ => []

/-- ideal registers an operation may assign (`iPred`/`iXform` update the receiver's cached flags / basis) -/
def Op.writesI : Op → List Nat
  | .iNew dst .. | .iCopy dst _ | .iGroebner dst _ => [dst]
  | .iPred _ a | .iXform _ a => [a]
  | _ => []

/-- `ComputeTables` requests: the only operations that touch the table-presence lists -/
def Op.isTables : Op → Bool
  | .tables .. => true
  | _ => false

/-- operations that assign to their receiver instead of a destination register -/
def Op.inPlace : Op → Bool
  | .eIn .. | .eProd .. | .eSetNeg _ | .eSetU .. => true
  | .uIn .. | .uSetNeg _ | .uSetScale .. | .uSetCoef .. | .uSetZero _ | .uEmbed .. => true
  | .bIn .. | .bSetScale .. | .bSetCoef .. => true
  | .iPred .. | .iXform .. => true
  | _ => false

/-! ### frame lemmas per sub-function -/
section frame
variable {α : Type} (env : Env α)

/-- `s'` differs from `s` at most in the listed registers of each sort
    (and in the table-presence lists only if `wt`) -/
structure St.Frame (s s' : St α) (we wu wb wi : List Nat) (wt : Bool) : Prop where
  es : ∀ k, k ∉ we → St.getL s'.es k = St.getL s.es k
  us : ∀ k, k ∉ wu → St.getL s'.us k = St.getL s.us k
  bs : ∀ k, k ∉ wb → St.getL s'.bs k = St.getL s.bs k
  ids : ∀ k, k ∉ wi → St.getL s'.ids k = St.getL s.ids k
  tabs : wt = false → s'.addTabs = s.addTabs ∧ s'.mulTabs = s.mulTabs

namespace St.Frame
variable (s : St α) {we wu wb wi : List Nat} {wt : Bool}
theorem refl : St.Frame s s we wu wb wi wt :=
  ⟨fun _ _ => rfl, fun _ _ => rfl, fun _ _ => rfl, fun _ _ => rfl, fun _ => ⟨rfl, rfl⟩⟩
theorem setE (d : Nat) (x : EReg α) (hd : d ∈ we) :
    St.Frame s { s with es := St.setL s.es d x } we wu wb wi wt :=
  ⟨fun _ hk => St.getL_setL_ne _ _ (fun h => hk (h ▸ hd)), fun _ _ => rfl, fun _ _ => rfl, fun _ _ => rfl,
   fun _ => ⟨rfl, rfl⟩⟩
theorem setU (d : Nat) (x : UReg α) (hd : d ∈ wu) :
    St.Frame s { s with us := St.setL s.us d x } we wu wb wi wt :=
  ⟨fun _ _ => rfl, fun _ hk => St.getL_setL_ne _ _ (fun h => hk (h ▸ hd)), fun _ _ => rfl, fun _ _ => rfl,
   fun _ => ⟨rfl, rfl⟩⟩
theorem setB (d : Nat) (x : BReg α) (hd : d ∈ wb) :
    St.Frame s { s with bs := St.setL s.bs d x } we wu wb wi wt :=
  ⟨fun _ _ => rfl, fun _ _ => rfl, fun _ hk => St.getL_setL_ne _ _ (fun h => hk (h ▸ hd)), fun _ _ => rfl,
   fun _ => ⟨rfl, rfl⟩⟩
theorem setI (d : Nat) (x : BPoly.Ideal α) (hd : d ∈ wi) :
    St.Frame s { s with ids := St.setL s.ids d x } we wu wb wi wt :=
  ⟨fun _ _ => rfl, fun _ _ => rfl, fun _ _ => rfl, fun _ hk => St.getL_setL_ne _ _ (fun h => hk (h ▸ hd)),
   fun _ => ⟨rfl, rfl⟩⟩
theorem foldU {γ : Type} (f : Nat × γ → UReg α) (outs : List γ) :
    St.Frame s { s with us := (wu.zip outs).foldl (fun acc p => St.setL acc p.1 (f p)) s.us } we wu wb wi wt :=
  ⟨fun _ _ => rfl, fun _ hk => St.getL_foldl_setL_zip_notin f _ _ _ _ hk, fun _ _ => rfl, fun _ _ => rfl,
   fun _ => ⟨rfl, rfl⟩⟩
theorem foldB {γ : Type} (f : Nat × γ → BReg α) (outs : List γ) :
    St.Frame s { s with bs := (wb.zip outs).foldl (fun acc p => St.setL acc p.1 (f p)) s.bs } we wu wb wi wt :=
  ⟨fun _ _ => rfl, fun _ _ => rfl, fun _ hk => St.getL_foldl_setL_zip_notin f _ _ _ _ hk, fun _ _ => rfl,
   fun _ => ⟨rfl, rfl⟩⟩
theorem trans {s1 s2 s3 : St α} {we' wu' wb' wi' : List Nat} {wt' : Bool}
    (h1 : St.Frame s1 s2 we wu wb wi wt) (h2 : St.Frame s2 s3 we' wu' wb' wi' wt') :
    St.Frame s1 s3 (we ++ we') (wu ++ wu') (wb ++ wb') (wi ++ wi') (wt || wt') := by
  constructor
  · intro k hk; rw [List.mem_append, not_or] at hk; rw [h2.es k hk.2, h1.es k hk.1]
  · intro k hk; rw [List.mem_append, not_or] at hk; rw [h2.us k hk.2, h1.us k hk.1]
  · intro k hk; rw [List.mem_append, not_or] at hk; rw [h2.bs k hk.2, h1.bs k hk.1]
  · intro k hk; rw [List.mem_append, not_or] at hk; rw [h2.ids k hk.2, h1.ids k hk.1]
  · intro h; rw [Bool.or_eq_false_iff] at h
    exact ⟨(h2.tabs h.2).1.trans (h1.tabs h.1).1, (h2.tabs h.2).2.trans (h1.tabs h.1).2⟩
end St.Frame

/-- the frame an operation is allowed to touch -/
abbrev Op.Frame (op : Op) (s s' : St α) : Prop :=
  St.Frame s s' op.writesE op.writesU op.writesB op.writesI op.isTables

/-- closes `Op.Frame op s s'` goals where `s'` is syntactically `s` or one `setL`/fold away from it -/
macro "frame_close" : tactic => `(tactic| first
  | exact St.Frame.refl _
  | exact St.Frame.setE _ _ _ (List.mem_cons_self ..)
  | exact St.Frame.setU _ _ _ (List.mem_cons_self ..)
  | exact St.Frame.setB _ _ _ (List.mem_cons_self ..)
  | exact St.Frame.setI _ _ _ (List.mem_cons_self ..)
  | exact St.Frame.foldU _ _ _
  | exact St.Frame.foldB _ _ _)

/-- case-splits the defining equation `h : stepX … = some r` down to its leaves and closes each.
    `let`s are kept as local definitions so that the terms stay small. -/
macro "frame_auto" h:ident : tactic => `(tactic| (
  simp -zeta only [stepE, stepU, stepB] at $h:ident
  try extract_lets at $h:ident
  repeat' (first
    | (cases $h:ident; done)
    | (cases $h:ident; frame_close)
    | split at $h:ident
    | (simp only [Option.bind_eq_some_iff] at $h:ident; obtain ⟨_, _, h'⟩ := $h; cases h'; frame_close)
    | simp +zetaDelta only at $h:ident)))

theorem stepE_frame (s : St α) (op : Op) (r : St α × String) (h : stepE env s op = some r) :
    op.Frame s r.1 := by
  cases op <;> frame_auto h

theorem stepU_frame (s : St α) (op : Op) (r : St α × String) (h : stepU env s op = some r) :
    op.Frame s r.1 := by
  cases op <;> frame_auto h

theorem stepB_frame (s : St α) (op : Op) (r : St α × String) (h : stepB env s op = some r) :
    op.Frame s r.1 := by
  cases op <;> frame_auto h

theorem stepT_regs (desc : FieldDesc) (s : St α) (op : Op) (r : St α × String)
    (h : stepT desc s op = some r) :
    op.isTables = true ∧ r.1.es = s.es ∧ r.1.us = s.us ∧ r.1.bs = s.bs ∧ r.1.ids = s.ids := by
  cases op <;> simp only [stepT] at h <;> try (cases h; done)
  refine ⟨rfl, ?_⟩
  repeat' split at h
  all_goals (cases h; exact ⟨rfl, rfl, rfl, rfl⟩)

theorem stepT_frame (desc : FieldDesc) (s : St α) (op : Op) (r : St α × String)
    (h : stepT desc s op = some r) : op.Frame s r.1 := by
  obtain ⟨ht, he, hu, hb, hi⟩ := stepT_regs desc s op r h
  exact ⟨fun _ _ => by rw [he], fun _ _ => by rw [hu], fun _ _ => by rw [hb], fun _ _ => by rw [hi],
    fun hf => by rw [ht] at hf; cases hf⟩

/-- `step` dispatches to the first sub-function that knows the operation -/
theorem step_cases (desc : FieldDesc) (s : St α) (op : Op) :
    stepE env s op = some (step env desc s op) ∨ stepU env s op = some (step env desc s op) ∨
    stepB env s op = some (step env desc s op) ∨ stepT desc s op = some (step env desc s op) ∨
    step env desc s op = (s, "bad-op") := by
  unfold step
  cases stepE env s op with
  | some r => exact .inl rfl
  | none =>
    cases stepU env s op with
    | some r => exact .inr (.inl rfl)
    | none =>
      cases stepB env s op with
      | some r => exact .inr (.inr (.inl rfl))
      | none =>
        cases stepT desc s op with
        | some r => exact .inr (.inr (.inr (.inl rfl)))
        | none => exact .inr (.inr (.inr (.inr rfl)))

/-- C16-1 in one structure: `step` changes at most the registers in the operation's write sets -/
theorem step_frame' (desc : FieldDesc) (s : St α) (op : Op) : op.Frame s (step env desc s op).1 := by
  rcases step_cases env desc s op with h | h | h | h | h
  · exact stepE_frame env s op _ h
  · exact stepU_frame env s op _ h
  · exact stepB_frame env s op _ h
  · exact stepT_frame desc s op _ h
  · rw [h]; exact St.Frame.refl s

end frame

/-! ### histories -/
section hist
variable {α : Type} (env : Env α) (desc : FieldDesc)

/-- run a history: final store and the list of replies (one per operation) -/
def runOps (s : St α) : List Op → St α × List String
  | [] => (s, [])
  | op :: t =>
    let r := step env desc s op
    let rest := runOps r.1 t
    (rest.1, r.2 :: rest.2)

/-- the final store of `runOps` is the driver's fold of `step` -/
theorem runOps_fst (s : St α) (ops : List Op) :
    (runOps env desc s ops).1 = ops.foldl (fun st op => (step env desc st op).1) s := by
  induction ops generalizing s with
  | nil => rfl
  | cons op t ih => simp only [runOps, List.foldl_cons, ih]

theorem runOps_length (s : St α) (ops : List Op) : (runOps env desc s ops).2.length = ops.length := by
  induction ops generalizing s with
  | nil => rfl
  | cons op t ih => simp only [runOps, List.length_cons, ih]

theorem runOps_frame (s : St α) (ops : List Op) :
    St.Frame s (runOps env desc s ops).1 (ops.flatMap Op.writesE) (ops.flatMap Op.writesU)
      (ops.flatMap Op.writesB) (ops.flatMap Op.writesI) (ops.any Op.isTables) := by
  induction ops generalizing s with
  | nil => exact St.Frame.refl s
  | cons op t ih =>
    simp only [runOps, List.flatMap_cons, List.any_cons]
    exact St.Frame.trans (step_frame' env desc s op) (ih _)

/-- erroneous objects are reachable: `Inv` of zero, `Plus` across rings -/
example : (eGet env5 (runOps env5 (.prime 5) {} [.eCtor 0 0 "zero" "", .eUn 1 "inv" 0]).1 1).err
    = .kind .inputValue := by decide
example : (uGet env5 (runOps env5 (.prime 5) {}
    [.uCtor 0 0 "one" "", .uCtor 1 2 "one" "", .uBin 2 "plus" 0 1]).1 2).err = .kind .arithmeticIncompat := by decide

end hist

/-! ### table presence is invisible to every other operation -/
section tabs
variable {α : Type} (env : Env α)

/-- same registers, possibly different table-presence lists -/
def St.withTabs (s : St α) (a m : List Nat) : St α := { s with addTabs := a, mulTabs := m }

@[simp] theorem St.withTabs_es (s : St α) (a m : List Nat) : (s.withTabs a m).es = s.es := rfl
@[simp] theorem St.withTabs_us (s : St α) (a m : List Nat) : (s.withTabs a m).us = s.us := rfl
@[simp] theorem St.withTabs_bs (s : St α) (a m : List Nat) : (s.withTabs a m).bs = s.bs := rfl
@[simp] theorem St.withTabs_ids (s : St α) (a m : List Nat) : (s.withTabs a m).ids = s.ids := rfl
theorem eGet_withTabs (s : St α) (a m : List Nat) : eGet env (s.withTabs a m) = eGet env s := rfl
theorem uGet_withTabs (s : St α) (a m : List Nat) : uGet env (s.withTabs a m) = uGet env s := rfl
theorem bGet_withTabs (s : St α) (a m : List Nat) : bGet (s.withTabs a m) = bGet s := rfl
theorem iGet_withTabs (s : St α) (a m : List Nat) : iGet (s.withTabs a m) = iGet s := rfl

theorem Option.bind_eq_match' {β γ : Type} (o : Option β) (g : β → Option γ) :
    o.bind g = (match o with | none => none | some v => g v) := by cases o <;> rfl

macro "tabs_auto" : tactic => `(tactic| (
  simp -zeta only [stepE, stepU, stepB, eGet_withTabs, uGet_withTabs, bGet_withTabs, iGet_withTabs,
    St.withTabs_es, St.withTabs_us, St.withTabs_bs, St.withTabs_ids, Option.bind_eq_match']
  try extract_lets
  repeat' (first
    | rfl
    | split_if_goal
    | split
    | simp +zetaDelta only)))

theorem stepE_withTabs (s : St α) (a m : List Nat) (op : Op) :
    stepE env (s.withTabs a m) op = (stepE env s op).map fun r => (r.1.withTabs a m, r.2) := by
  cases op <;> tabs_auto

theorem stepU_withTabs (s : St α) (a m : List Nat) (op : Op) :
    stepU env (s.withTabs a m) op = (stepU env s op).map fun r => (r.1.withTabs a m, r.2) := by
  cases op <;> tabs_auto

theorem stepB_withTabs (s : St α) (a m : List Nat) (op : Op) :
    stepB env (s.withTabs a m) op = (stepB env s op).map fun r => (r.1.withTabs a m, r.2) := by
  cases op <;> tabs_auto

theorem stepT_eq_none (desc : FieldDesc) (s : St α) (op : Op) (h : op.isTables = false) :
    stepT desc s op = none := by
  cases op <;> first | rfl | cases h

/-- an operation other than `.tables` neither reads nor writes the table-presence lists -/
theorem step_withTabs (desc : FieldDesc) (s : St α) (a m : List Nat) (op : Op) (h : op.isTables = false) :
    step env desc (s.withTabs a m) op
      = ((step env desc s op).1.withTabs a m, (step env desc s op).2) := by
  unfold step
  rw [stepE_withTabs, stepU_withTabs, stepB_withTabs, stepT_eq_none desc _ op h, stepT_eq_none desc _ op h]
  cases stepE env s op with
  | some r => rfl
  | none =>
    cases stepU env s op with
    | some r => rfl
    | none =>
      cases stepB env s op with
      | some r => rfl
      | none => rfl

/-- equality of all registers (the table-presence lists may differ) -/
def St.RegEq (s t : St α) : Prop := s.es = t.es ∧ s.us = t.us ∧ s.bs = t.bs ∧ s.ids = t.ids

theorem St.RegEq.refl (s : St α) : St.RegEq s s := ⟨rfl, rfl, rfl, rfl⟩
theorem St.RegEq.symm {s t : St α} (h : St.RegEq s t) : St.RegEq t s := ⟨h.1.symm, h.2.1.symm, h.2.2.1.symm, h.2.2.2.symm⟩
theorem St.RegEq.trans {s t u : St α} (h : St.RegEq s t) (h' : St.RegEq t u) : St.RegEq s u :=
  ⟨h.1.trans h'.1, h.2.1.trans h'.2.1, h.2.2.1.trans h'.2.2.1, h.2.2.2.trans h'.2.2.2⟩
theorem St.RegEq.eq_withTabs {s t : St α} (h : St.RegEq s t) : t = s.withTabs t.addTabs t.mulTabs := by
  obtain ⟨h1, h2, h3, h4⟩ := h
  cases s; cases t; simp only [St.withTabs] at *; subst h1 h2 h3 h4; rfl
theorem St.regEq_withTabs (s : St α) (a m : List Nat) : St.RegEq s (s.withTabs a m) := ⟨rfl, rfl, rfl, rfl⟩

/-- `.tables` leaves every register alone -/
theorem step_tables_regEq (desc : FieldDesc) (s : St α) (op : Op) (h : op.isTables = true) :
    St.RegEq s (step env desc s op).1 := by
  cases op <;> try (cases h; done)
  rename_i f add mult maxMem
  have : step env desc s (.tables f add mult maxMem)
      = (match stepT desc s (.tables f add mult maxMem) with | some r => r | none => (s, "bad-op")) := rfl
  rw [this]
  cases hT : stepT desc s (.tables f add mult maxMem) with
  | none => exact St.RegEq.refl s
  | some r =>
    obtain ⟨_, h1, h2, h3, h4⟩ := stepT_regs desc s _ r hT
    exact ⟨h1.symm, h2.symm, h3.symm, h4.symm⟩

/-- every other operation computes the same registers and the same reply from equal registers -/
theorem step_regEq (desc : FieldDesc) (s t : St α) (op : Op) (hop : op.isTables = false)
    (h : St.RegEq s t) :
    St.RegEq (step env desc s op).1 (step env desc t op).1 ∧ (step env desc s op).2 = (step env desc t op).2 := by
  rw [h.eq_withTabs, step_withTabs env desc s _ _ op hop]
  exact ⟨St.regEq_withTabs _ _ _, rfl⟩

/-- C18-1 for histories: dropping the `.tables` requests changes no register and no other reply -/
theorem runOps_filter_tables (desc : FieldDesc) (s t : St α) (ops : List Op) (h : St.RegEq s t) :
    St.RegEq (runOps env desc s ops).1 (runOps env desc t (ops.filter (!·.isTables))).1 ∧
    ((ops.zip (runOps env desc s ops).2).filter (!·.1.isTables)).map (·.2)
      = (runOps env desc t (ops.filter (!·.isTables))).2 := by
  induction ops generalizing s t with
  | nil => exact ⟨h, rfl⟩
  | cons op rest ih =>
    cases hop : op.isTables with
    | true =>
      have h' : St.RegEq (step env desc s op).1 t := (step_tables_regEq env desc s op hop).symm.trans h
      simpa [runOps, List.filter_cons, hop] using ih _ _ h'
    | false =>
      obtain ⟨h1, h2⟩ := step_regEq env desc s t op hop h
      obtain ⟨ih1, ih2⟩ := ih _ _ h1
      simp only [runOps, List.filter_cons, hop, Bool.not_false, if_true, List.zip_cons_cons, List.map_cons]
      exact ⟨ih1, by rw [ih2, h2]⟩

end tabs

/-! ### error bookkeeping -/

theorem Err.wrapInherit_of_isErr {e : Err} (h : e.isErr = true) : e.wrapInherit = e := by
  cases e <;> first | rfl | cases h
theorem Err.wrapInherit_isErr (e : Err) : e.wrapInherit.isErr = true := by cases e <;> rfl
theorem Err.wrapInherit_kind (k : Kind) : (Err.kind k).wrapInherit = .kind k := rfl
theorem Err.isErr_kind (k : Kind) : (Err.kind k).isErr = true := rfl

/-- the first error status in checking order -/
def firstErr : List Err → Err
  | [] => .none
  | e :: t => if e.isErr then e else firstErr t

theorem firstErr_mem {l : List Err} (h : ∃ e ∈ l, e.isErr = true) :
    firstErr l ∈ l ∧ (firstErr l).isErr = true := by
  induction l with
  | nil => obtain ⟨e, he, _⟩ := h; cases he
  | cons e t ih =>
    unfold firstErr
    by_cases he : e.isErr = true
    · simp [he]
    · simp only [he, Bool.false_eq_true, if_false]
      obtain ⟨e', he', hh⟩ := h
      rcases List.mem_cons.1 he' with rfl | hm
      · exact absurd hh he
      · exact ⟨List.mem_cons_of_mem _ (ih ⟨e', hm, hh⟩).1, (ih ⟨e', hm, hh⟩).2⟩

section elem
variable {α : Type} (env : Env α)

theorem EReg.with_err_self (a : EReg α) (h : a.err.isErr = true) :
    ({ a with err := a.err.wrapInherit } : EReg α) = a := by
  rw [Err.wrapInherit_of_isErr h]

theorem EReg.with_err_self' (a : EReg α) (h : a.err.isErr = true) (hf : a.foreign = false) :
    ({ home := a.home, val := a.val, err := a.err.wrapInherit, foreign := false } : EReg α) = a := by
  rw [Err.wrapInherit_of_isErr h, ← hf]

/-- receiver erroneous (argument not foreign): the receiver itself comes back, unchanged -/
theorem eInPlace_recvErr (op : String) (a b : EReg α) (hb : b.foreign = false) (ha : a.err.isErr = true) :
    eInPlace env op a b = (a, a, true) := by
  simp only [eInPlace, eCheck, hb, ha, Bool.false_eq_true, if_false, if_true, EReg.with_err_self a ha]

/-- receiver clean, argument erroneous: the argument comes back, receiver untouched -/
theorem eInPlace_argErr (op : String) (a b : EReg α) (hb : b.foreign = false) (ha : a.err.isErr = false)
    (hbe : b.err.isErr = true) : eInPlace env op a b = (a, b, false) := by
  simp only [eInPlace, eCheck, hb, ha, hbe, Bool.false_eq_true, if_false, if_true, EReg.with_err_self' b hbe hb]

theorem eProdFn_bErr (a b c : EReg α) (bIsA cIsA : Bool) (hb : b.foreign = false) (hc : c.foreign = false)
    (hbe : b.err.isErr = true) :
    eProdFn env a b c bIsA cIsA = if bIsA then (b, b, true) else (a, b, false) := by
  simp only [eProdFn, hb, hc, hbe, Bool.or_self, Bool.false_eq_true, if_false, if_true, EReg.with_err_self' b hbe hb]

theorem eProdFn_cErr (a b c : EReg α) (bIsA cIsA : Bool) (hb : b.foreign = false) (hc : c.foreign = false)
    (hbe : b.err.isErr = false) (hce : c.err.isErr = true) :
    eProdFn env a b c bIsA cIsA = if cIsA then (c, c, true) else (a, c, false) := by
  simp only [eProdFn, hb, hc, hbe, hce, Bool.or_self, Bool.false_eq_true, if_false, if_true,
    EReg.with_err_self' c hce hc]

/-- the receiver's own error is never consulted by `Prod`, but it is never cleared either -/
theorem eProdFn_recv_err (a b c : EReg α) (bIsA cIsA : Bool) (ha : a.err.isErr = true) :
    (eProdFn env a b c bIsA cIsA).1.err.isErr = true ∨
    ((eProdFn env a b c bIsA cIsA).1 = b ∧ bIsA = true) ∨ ((eProdFn env a b c bIsA cIsA).1 = c ∧ cIsA = true) := by
  unfold eProdFn
  split
  · exact .inl rfl
  · split
    · rename_i hbe
      cases bIsA
      · exact .inl ha
      · exact .inr (.inl ⟨EReg.with_err_self b hbe, rfl⟩)
    · split
      · rename_i hce
        cases cIsA
        · exact .inl ha
        · exact .inr (.inr ⟨EReg.with_err_self c hce, rfl⟩)
      · split
        · exact .inl ha
        · exact .inl ha

/-- all checks pass: the receiver gets the new value and is returned -/
theorem eInPlace_ok (op : String) (a b : EReg α) (hb : b.foreign = false) (ha : a.err.isErr = false)
    (hbe : b.err.isErr = false) (hh : a.home = b.home) :
    eInPlace env op a b =
      (let r : EReg α := { a with val := eBinFn (fld env a.home) op a.val b.val }
       (r, r, true)) := by
  simp [eInPlace, eCheck, hb, ha, hbe, hh]

theorem eProdFn_ok (a b c : EReg α) (bIsA cIsA : Bool) (hb : b.foreign = false) (hc : c.foreign = false)
    (hbe : b.err.isErr = false) (hce : c.err.isErr = false) (hh : b.home = c.home) :
    eProdFn env a b c bIsA cIsA =
      (let r : EReg α := { a with home := b.home, val := (fld env b.home).mul b.val c.val }
       (r, r, true)) := by
  simp [eProdFn, hb, hc, hbe, hce, hh]

/-! explicit `step` equations (all by `rfl`): the objects computed by the element operations -/

/-- `(new receiver, returned object, returned-is-receiver)` of `a.Copy().Op(b)` -/
def eBinRes (s : St α) (op : String) (a b : Nat) : EReg α × EReg α × Bool :=
  if op == "times" then eProdFn env (eGet env s a) (eGet env s a) (eGet env s b) true false
  else eInPlace env op (eGet env s a) (eGet env s b)

theorem step_eBin (desc : FieldDesc) (s : St α) (dst : Nat) (op : String) (a b : Nat) :
    step env desc s (.eBin dst op a b)
      = ({ s with es := St.setL s.es dst (eBinRes env s op a b).2.1 },
         "ok " ++ showE env (eBinRes env s op a b).2.1) := rfl

def eUnRes (s : St α) (op : String) (a : Nat) : EReg α :=
  let ra := eGet env s a
  let F := fld env ra.home
  if op == "copy" then ra
  else if op == "neg" then { ra with val := F.neg ra.val }
  else if op == "trace" then (if ra.err.isErr then ra else { ra with val := F.trace ra.val })
  else
    if ra.err.isErr then ra
    else match F.inv ra.val with
      | some v => { ra with val := v }
      | none => { home := ra.home, val := F.zero, err := .kind .inputValue }

theorem step_eUn (desc : FieldDesc) (s : St α) (dst : Nat) (op : String) (a : Nat) :
    step env desc s (.eUn dst op a)
      = ({ s with es := St.setL s.es dst (eUnRes env s op a) }, "ok " ++ showE env (eUnRes env s op a)) := rfl

def ePowRes (s : St α) (a n : Nat) : EReg α :=
  let ra := eGet env s a
  if ra.err.isErr then ra else { ra with val := (fld env ra.home).pow ra.val n }

theorem step_ePow (desc : FieldDesc) (s : St α) (dst a n : Nat) :
    step env desc s (.ePow dst a n)
      = ({ s with es := St.setL s.es dst (ePowRes env s a n) }, "ok " ++ showE env (ePowRes env s a n)) := rfl

def eInRes (s : St α) (op : String) (a b : Nat) : EReg α × EReg α × Bool :=
  if op == "mult" then eProdFn env (eGet env s a) (eGet env s a) (eGet env s b) true (a == b)
  else eInPlace env op (eGet env s a) (eGet env s b)

theorem step_eIn (desc : FieldDesc) (s : St α) (op : String) (a b : Nat) :
    step env desc s (.eIn op a b)
      = ({ s with es := St.setL s.es a (eInRes env s op a b).1 },
         ret (eInRes env s op a b).2.2 (showE env (eInRes env s op a b).2.1)) := rfl

def eProdRes (s : St α) (a b c : Nat) : EReg α × EReg α × Bool :=
  eProdFn env (eGet env s a) (eGet env s b) (eGet env s c) (a == b) (a == c)

theorem step_eProd (desc : FieldDesc) (s : St α) (a b c : Nat) :
    step env desc s (.eProd a b c)
      = ({ s with es := St.setL s.es a (eProdRes env s a b c).1 },
         ret (eProdRes env s a b c).2.2 (showE env (eProdRes env s a b c).2.1)) := rfl

theorem step_eSetNeg (desc : FieldDesc) (s : St α) (a : Nat) :
    step env desc s (.eSetNeg a)
      = (let ra := eGet env s a
         let r := { ra with val := (fld env ra.home).neg ra.val }
         ({ s with es := St.setL s.es a r }, ret true (showE env r))) := rfl

theorem step_eSetU (desc : FieldDesc) (s : St α) (a n : Nat) :
    step env desc s (.eSetU a n)
      = (let ra := eGet env s a
         let r := { ra with val := (fld env ra.home).ofNat n }
         ({ s with es := St.setL s.es a r }, ret true (showE env r))) := rfl

end elem

/-! ### univariate polynomials: checks, results, `step` equations -/
section upoly
variable {α : Type} (env : Env α)

theorem UReg.with_err_self (a : UReg α) (h : a.err.isErr = true) :
    ({ a with err := a.err.wrapInherit } : UReg α) = a := by
  rw [Err.wrapInherit_of_isErr h]

theorem uCheck_recvErr (f : UReg α) (gs : List (UReg α)) (h : f.err.isErr = true) :
    uCheck env f gs = some (f, true) := by
  simp only [uCheck, h, if_true, UReg.with_err_self f h]

theorem uCheck_argErr (f b : UReg α) (h : f.err.isErr = false) (hb : b.err.isErr = true) :
    uCheck env f [b] = some (b, false) := by
  simp only [uCheck, h, Bool.false_eq_true, if_false, List.find?_cons, hb, UReg.with_err_self b hb]

theorem uCheck_ok (f b : UReg α) (h : f.err.isErr = false) (hb : b.err.isErr = false) (hh : b.home = f.home) :
    uCheck env f [b] = none := by
  simp [uCheck, h, hb, hh]

theorem uInPlace_recvErr (op : String) (a b : UReg α) (h : a.err.isErr = true) :
    uInPlace env op a b = (a, a, true) := by
  simp only [uInPlace, uCheck_recvErr env a [b] h]

theorem uInPlace_argErr (op : String) (a b : UReg α) (h : a.err.isErr = false) (hb : b.err.isErr = true) :
    uInPlace env op a b = (a, b, false) := by
  simp only [uInPlace, uCheck_argErr env a b h hb]

theorem uInPlace_ok (op : String) (a b : UReg α) (h : a.err.isErr = false) (hb : b.err.isErr = false)
    (hh : b.home = a.home) :
    uInPlace env op a b =
      (let r : UReg α := { a with val := if op == "add" || op == "plus" then UPoly.add (F0 env) a.val b.val
                                         else UPoly.sub (F0 env) a.val b.val }
       (r, r, true)) := by
  simp only [uInPlace, uCheck_ok env a b h hb hh]

theorem uTimes_recvErr (a b : UReg α) (h : a.err.isErr = true) : uTimes env a b = a := by
  simp only [uTimes, uCheck_recvErr env a [b] h]

theorem uTimes_argErr (a b : UReg α) (h : a.err.isErr = false) (hb : b.err.isErr = true) :
    uTimes env a b = b := by
  simp only [uTimes, uCheck_argErr env a b h hb]

def uBinRes (s : St α) (op : String) (a b : Nat) : UReg α :=
  if op == "times" then uTimes env (uGet env s a) (uGet env s b)
  else (uInPlace env op (uGet env s a) (uGet env s b)).2.1

theorem step_uBin (desc : FieldDesc) (s : St α) (dst : Nat) (op : String) (a b : Nat) :
    step env desc s (.uBin dst op a b)
      = ({ s with us := St.setL s.us dst (uBinRes env s op a b) }, "ok " ++ showU env (uBinRes env s op a b)) := rfl

def uUnRes (s : St α) (op : String) (a : Nat) : UReg α :=
  let ra := uGet env s a
  let F := F0 env
  if op == "copy" then ra
  else if op == "neg" then { ra with val := UPoly.neg F ra.val }
  else if op == "normalize" then { ra with val := UPoly.normalize F ra.val }
  else { home := ra.home, val := UPoly.lt F ra.val }

theorem step_uUn (desc : FieldDesc) (s : St α) (dst : Nat) (op : String) (a : Nat) :
    step env desc s (.uUn dst op a)
      = ({ s with us := St.setL s.us dst (uUnRes env s op a) }, "ok " ++ showU env (uUnRes env s op a)) := rfl

/-- the polynomial computed by `Scale` / `SetScale` -/
def uScaleRes (s : St α) (a e : Nat) : UReg α :=
  let ra := uGet env s a; let re := eGet env s e
  match scalarEffect env re with
  | some true => { ra with val := UPoly.scale (F0 env) ra.val re.val }
  | some false => { ra with val := UPoly.zero (F0 env) }
  | none => ra

theorem step_uScale (desc : FieldDesc) (s : St α) (dst a e : Nat) :
    step env desc s (.uScale dst a e)
      = ({ s with us := St.setL s.us dst (uScaleRes env s a e) }, "ok " ++ showU env (uScaleRes env s a e)) := rfl

theorem step_uSetScale (desc : FieldDesc) (s : St α) (a e : Nat) :
    step env desc s (.uSetScale a e)
      = ({ s with us := St.setL s.us a (uScaleRes env s a e) }, "recv " ++ showU env (uScaleRes env s a e)) := rfl

theorem uScaleRes_err (s : St α) (a e : Nat) : (uScaleRes env s a e).err = (uGet env s a).err := by
  simp only [uScaleRes]
  split <;> rfl

def uPowRes (s : St α) (a n : Nat) : UReg α :=
  let ra := uGet env s a
  if ra.err.isErr then { ra with err := ra.err.wrapInherit }
  else match UPoly.pow (uring env ra.home) ra.val n with
    | some v => { ra with val := v }
    | none => { ra with err := .kind .internal }

theorem step_uPow (desc : FieldDesc) (s : St α) (dst a n : Nat) :
    step env desc s (.uPow dst a n)
      = ({ s with us := St.setL s.us dst (uPowRes env s a n) }, "ok " ++ showU env (uPowRes env s a n)) := rfl

/-- `(new receiver, returned object, returned-is-receiver)` of the in-place `Add`/`Sub`/`Mult` -/
def uInRes (s : St α) (op : String) (a b : Nat) : UReg α × UReg α × Bool :=
  if op == "mult" then
    let r := uTimes env (uGet env s a) (uGet env s b)
    (r, r, true)
  else uInPlace env op (uGet env s a) (uGet env s b)

theorem step_uIn (desc : FieldDesc) (s : St α) (op : String) (a b : Nat) :
    step env desc s (.uIn op a b)
      = ({ s with us := St.setL s.us a (uInRes env s op a b).1 },
         ret (uInRes env s op a b).2.2 (showU env (uInRes env s op a b).2.1)) := by
  unfold uInRes
  by_cases h : (op == "mult") = true
  · simp only [h, if_true]
    show (match stepE env s (.uIn op a b) with | some r => r | none => match stepU env s (.uIn op a b) with | some r => r | none => _) = _
    simp only [stepE, stepU, h, if_true]
  · simp only [h, Bool.false_eq_true, if_false]
    show (match stepE env s (.uIn op a b) with | some r => r | none => match stepU env s (.uIn op a b) with | some r => r | none => _) = _
    simp only [stepE, stepU, h, Bool.false_eq_true, if_false]

theorem step_uSetNeg (desc : FieldDesc) (s : St α) (a : Nat) :
    step env desc s (.uSetNeg a)
      = (let ra := uGet env s a
         let r : UReg α := { ra with val := UPoly.neg (F0 env) ra.val }
         ({ s with us := St.setL s.us a r }, "recv " ++ showU env r)) := rfl

theorem step_uSetZero (desc : FieldDesc) (s : St α) (a : Nat) :
    step env desc s (.uSetZero a)
      = (let ra := uGet env s a
         let r : UReg α := { ra with val := UPoly.zero (F0 env) }
         ({ s with us := St.setL s.us a r }, "recv " ++ showU env r)) := rfl

theorem step_uSetCoef (desc : FieldDesc) (s : St α) (op : String) (a d e : Nat) :
    step env desc s (.uSetCoef op a d e)
      = (let ra := uGet env s a; let re := eGet env s e
         let F := F0 env
         let stuck := op != "set" && !goodScalar re && !re.foreign && !F.isZero (UPoly.coef F ra.val d)
         let v := if stuck then ra.val
                  else if op == "set" then UPoly.setCoef F ra.val d re.val
                  else if op == "inc" then UPoly.incCoef F ra.val d re.val
                  else UPoly.decCoef F ra.val d re.val
         let r : UReg α := { ra with val := v }
         ({ s with us := St.setL s.us a r }, "recv " ++ showU env r)) := rfl

end upoly

/-! ### bivariate polynomials: checks, results, `step` equations -/
section bpoly
variable {α : Type} (env : Env α)

theorem BReg.with_err_self (a : BReg α) (h : a.err.isErr = true) :
    ({ a with err := a.err.wrapInherit } : BReg α) = a := by
  rw [Err.wrapInherit_of_isErr h]

theorem bCheck_recvErr (f : BReg α) (gs : List (BReg α)) (h : f.err.isErr = true) :
    bCheck f gs = some (f, true) := by
  simp only [bCheck, h, if_true, BReg.with_err_self f h]

theorem bCheck_argErr (f b : BReg α) (h : f.err.isErr = false) (hb : b.err.isErr = true) :
    bCheck f [b] = some (b, false) := by
  simp only [bCheck, h, Bool.false_eq_true, if_false, List.find?_cons, hb, BReg.with_err_self b hb]

theorem bCheck_ok (f b : BReg α) (h : f.err.isErr = false) (hb : b.err.isErr = false) (hh : b.home = f.home) :
    bCheck f [b] = none := by
  simp [bCheck, h, hb, hh]

theorem bInPlace_recvErr (op : String) (a b : BReg α) (h : a.err.isErr = true) :
    bInPlace env op a b = (a, a, true) := by
  simp only [bInPlace, bCheck_recvErr a [b] h]

theorem bInPlace_argErr (op : String) (a b : BReg α) (h : a.err.isErr = false) (hb : b.err.isErr = true) :
    bInPlace env op a b = (a, b, false) := by
  simp only [bInPlace, bCheck_argErr a b h hb]

theorem bInPlace_ok (op : String) (a b : BReg α) (h : a.err.isErr = false) (hb : b.err.isErr = false)
    (hh : b.home = a.home) :
    bInPlace env op a b =
      (let r : BReg α := { a with val := if op == "add" || op == "plus" then BPoly.add (F0 env) a.val b.val
                                         else BPoly.sub (F0 env) a.val b.val }
       (r, r, true)) := by
  simp only [bInPlace, bCheck_ok a b h hb hh]

theorem bTimes_recvErr (a b : BReg α) (h : a.err.isErr = true) : bTimes env a b = a := by
  simp only [bTimes, bCheck_recvErr a [b] h]

theorem bTimes_argErr (a b : BReg α) (h : a.err.isErr = false) (hb : b.err.isErr = true) :
    bTimes env a b = b := by
  simp only [bTimes, bCheck_argErr a b h hb]

def bBinRes (s : St α) (op : String) (a b : Nat) : BReg α :=
  if op == "times" then bTimes env (bGet s a) (bGet s b)
  else (bInPlace env op (bGet s a) (bGet s b)).2.1

theorem step_bBin (desc : FieldDesc) (s : St α) (dst : Nat) (op : String) (a b : Nat) :
    step env desc s (.bBin dst op a b)
      = ({ s with bs := St.setL s.bs dst (bBinRes env s op a b) }, "ok " ++ showB env (bBinRes env s op a b)) := rfl

def bUnRes (s : St α) (op : String) (a : Nat) : BReg α :=
  let ra := bGet s a
  let F := F0 env
  let o := bord env ra.home
  if op == "copy" then ra
  else if op == "neg" then { ra with val := BPoly.neg F ra.val }
  else if op == "normalize" then { ra with val := BPoly.normalize F o ra.val }
  else { home := ra.home, val := BPoly.lt F o ra.val }

theorem step_bUn (desc : FieldDesc) (s : St α) (dst : Nat) (op : String) (a : Nat) :
    step env desc s (.bUn dst op a)
      = ({ s with bs := St.setL s.bs dst (bUnRes env s op a) }, "ok " ++ showB env (bUnRes env s op a)) := rfl

def bScaleRes (s : St α) (a e : Nat) : BReg α :=
  let ra := bGet s a; let re := eGet env s e
  let F := F0 env
  match scalarEffect env re with
  | none => ra
  | some false => { ra with val := [] }
  | some true => if F.isZero re.val then { ra with val := [] } else { ra with val := BPoly.scale F ra.val re.val }

theorem step_bScale (desc : FieldDesc) (s : St α) (dst a e : Nat) :
    step env desc s (.bScale dst a e)
      = ({ s with bs := St.setL s.bs dst (bScaleRes env s a e) }, "ok " ++ showB env (bScaleRes env s a e)) := rfl

theorem bScaleRes_err (s : St α) (a e : Nat) : (bScaleRes env s a e).err = (bGet s a).err := by
  simp only [bScaleRes]
  split
  · rfl
  · rfl
  · split <;> rfl

def bSetScaleRes (s : St α) (a e : Nat) : BReg α :=
  let ra := bGet s a; let re := eGet env s e
  match scalarEffect env re with
  | some true => { ra with val := BPoly.scale (F0 env) ra.val re.val }
  | some false => { ra with val := [] }
  | none => ra

theorem step_bSetScale (desc : FieldDesc) (s : St α) (a e : Nat) :
    step env desc s (.bSetScale a e)
      = ({ s with bs := St.setL s.bs a (bSetScaleRes env s a e) }, "recv " ++ showB env (bSetScaleRes env s a e)) := rfl

theorem bSetScaleRes_err (s : St α) (a e : Nat) : (bSetScaleRes env s a e).err = (bGet s a).err := by
  simp only [bSetScaleRes]
  split <;> rfl

def bPowRes (s : St α) (a n : Nat) : BReg α :=
  let ra := bGet s a
  if ra.err.isErr then { ra with err := ra.err.wrapInherit }
  else match BPoly.pow (bring env ra.home) ra.val n with
    | .ok (some v) => { ra with val := v }
    | .ok none => { ra with err := .kind .internal }
    | .error k => { home := ra.home, val := [], err := .kind k }

theorem step_bPow (desc : FieldDesc) (s : St α) (dst a n : Nat) :
    step env desc s (.bPow dst a n)
      = ({ s with bs := St.setL s.bs dst (bPowRes env s a n) }, "ok " ++ showB env (bPowRes env s a n)) := rfl

def bInRes (s : St α) (op : String) (a b : Nat) : BReg α × BReg α × Bool :=
  if op == "mult" then
    let r := bTimes env (bGet s a) (bGet s b)
    (r, r, true)
  else bInPlace env op (bGet s a) (bGet s b)

theorem step_bIn (desc : FieldDesc) (s : St α) (op : String) (a b : Nat) :
    step env desc s (.bIn op a b)
      = ({ s with bs := St.setL s.bs a (bInRes env s op a b).1 },
         ret (bInRes env s op a b).2.2 (showB env (bInRes env s op a b).2.1)) := by
  unfold bInRes
  by_cases h : (op == "mult") = true
  · simp only [h, if_true]
    show (match stepE env s (.bIn op a b) with | some r => r | none => match stepU env s (.bIn op a b) with
      | some r => r | none => match stepB env s (.bIn op a b) with | some r => r | none => _) = _
    simp only [stepE, stepU, stepB, h, if_true]
  · simp only [h, Bool.false_eq_true, if_false]
    show (match stepE env s (.bIn op a b) with | some r => r | none => match stepU env s (.bIn op a b) with
      | some r => r | none => match stepB env s (.bIn op a b) with | some r => r | none => _) = _
    simp only [stepE, stepU, stepB, h, Bool.false_eq_true, if_false]

theorem step_bSetCoef (desc : FieldDesc) (s : St α) (op : String) (a : Nat) (d : Deg) (e : Nat) :
    step env desc s (.bSetCoef op a d e)
      = (let ra := bGet s a; let re := eGet env s e
         let F := F0 env
         let stuck := op != "set" && !goodScalar re && !re.foreign && ra.val.any (·.1 == d)
         let v := if stuck then ra.val
                  else if op == "set" then BPoly.setCoef F ra.val d re.val
                  else if op == "inc" then BPoly.incCoef F ra.val d re.val
                  else BPoly.decCoef F ra.val d re.val
         let r : BReg α := { ra with val := v }
         ({ s with bs := St.setL s.bs a r }, "recv " ++ showB env r)) := rfl

end bpoly

/-! ### value-returning operations read before they write -/

/-- what a single-destination operation writes: nothing, or one register of some sort -/
inductive Wr (α : Type) where
  | none
  | e (r : EReg α)
  | u (r : UReg α)
  | b (r : BReg α)
  | i (r : BPoly.Ideal α)

def St.write {α : Type} (s : St α) (d : Nat) : Wr α → St α
  | .none => s
  | .e r => { s with es := St.setL s.es d r }
  | .u r => { s with us := St.setL s.us d r }
  | .b r => { s with bs := St.setL s.bs d r }
  | .i r => { s with ids := St.setL s.ids d r }

/-- value-returning operations with one destination register (constructors included) -/
def Op.isValue : Op → Bool
  | .eCtor .. | .eBin .. | .eUn .. | .ePow .. => true
  | .uCtor .. | .uBin .. | .uUn .. | .uScale .. | .uPow .. | .uEval .. | .uCoef .. | .uLc .. => true
  | .uGcd .. | .uInterp .. => true
  | .bCtor .. | .bBin .. | .bUn .. | .bScale .. | .bPow .. | .bEval .. | .bCoef .. | .bLc .. => true
  | .bRem .. | .bInterp .. => true
  | .iNew .. | .iCopy .. | .iGroebner .. => true
  | _ => false

/-- the same operation with another destination register -/
def Op.withDst : Op → Nat → Op
  | .eCtor _ f how arg, d => .eCtor d f how arg
  | .eBin _ op a b, d => .eBin d op a b
  | .eUn _ op a, d => .eUn d op a
  | .ePow _ a n, d => .ePow d a n
  | .uCtor _ r how arg, d => .uCtor d r how arg
  | .uBin _ op a b, d => .uBin d op a b
  | .uUn _ op a, d => .uUn d op a
  | .uScale _ a e, d => .uScale d a e
  | .uPow _ a n, d => .uPow d a n
  | .uEval _ a e, d => .uEval d a e
  | .uCoef _ a k, d => .uCoef d a k
  | .uLc _ a, d => .uLc d a
  | .uGcd _ gs, d => .uGcd d gs
  | .uInterp _ r p v, d => .uInterp d r p v
  | .bCtor _ r how arg, d => .bCtor d r how arg
  | .bBin _ op a b, d => .bBin d op a b
  | .bUn _ op a, d => .bUn d op a
  | .bScale _ a e, d => .bScale d a e
  | .bPow _ a n, d => .bPow d a n
  | .bEval _ a x y, d => .bEval d a x y
  | .bCoef _ a k, d => .bCoef d a k
  | .bLc _ a, d => .bLc d a
  | .bRem _ a gs, d => .bRem d a gs
  | .bInterp _ r x y v, d => .bInterp d r x y v
  | .iNew _ r gs, d => .iNew d r gs
  | .iCopy _ a, d => .iCopy d a
  | .iGroebner _ a, d => .iGroebner d a
  | op, _ => op

/-- the destination register of a value-returning operation -/
def Op.dst : Op → Nat
  | .eCtor d .. | .eBin d .. | .eUn d .. | .ePow d .. => d
  | .uCtor d .. | .uBin d .. | .uUn d .. | .uScale d .. | .uPow d .. | .uEval d .. | .uCoef d .. | .uLc d .. => d
  | .uGcd d .. | .uInterp d .. => d
  | .bCtor d .. | .bBin d .. | .bUn d .. | .bScale d .. | .bPow d .. | .bEval d .. | .bCoef d .. | .bLc d .. => d
  | .bRem d .. | .bInterp d .. => d
  | .iNew d .. | .iCopy d .. | .iGroebner d .. => d
  | _ => 0

theorem Op.withDst_dst (op : Op) : op.withDst op.dst = op := by cases op <;> rfl

section dst
variable {α : Type} (env : Env α)

/-- leaf of the case analysis: the written value and the reply do not depend on the destination -/
macro "dst_leaf" : tactic => `(tactic| first
  | exact ⟨.e _, fun _ => rfl⟩
  | exact ⟨.u _, fun _ => rfl⟩
  | exact ⟨.b _, fun _ => rfl⟩
  | exact ⟨.i _, fun _ => rfl⟩
  | exact ⟨.none, fun _ => rfl⟩
  | (refine ⟨?_, fun d' => ?_⟩
     rotate_left
     simp -zeta only [Op.withDst, stepE, stepU, stepB]
     try extract_lets
     simp only [*, if_true, if_false, ↓reduceIte, Bool.false_eq_true, not_true_eq_false, not_false_eq_true,
       Option.bind_some, Option.bind_none]
     first
      | exact (rfl : _ = some (St.write _ _ (.e _), _))
      | exact (rfl : _ = some (St.write _ _ (.u _), _))
      | exact (rfl : _ = some (St.write _ _ (.b _), _))
      | exact (rfl : _ = some (St.write _ _ (.i _), _))
      | exact (rfl : _ = some (St.write _ _ .none, _))))

macro "dst_auto" h:ident : tactic => `(tactic| (
  simp -zeta only [stepE, stepU, stepB] at $h:ident
  try extract_lets at $h:ident
  repeat' (first
    | (cases $h:ident; done)
    | (cases $h:ident; dst_leaf)
    | split at $h:ident
    | (simp only [Option.bind_eq_some_iff] at $h:ident; obtain ⟨_, hd, h'⟩ := $h; cases h'; dst_leaf)
    | simp +zetaDelta only at $h:ident)))

theorem stepE_dst (s : St α) (op : Op) (hv : op.isValue = true) (r : St α × String)
    (h : stepE env s op = some r) :
    ∃ w : Wr α, ∀ d', stepE env s (op.withDst d') = some (s.write d' w, r.2) := by
  cases op <;> first | (cases hv; done) | dst_auto h

theorem stepU_dst (s : St α) (op : Op) (hv : op.isValue = true) (r : St α × String)
    (h : stepU env s op = some r) :
    ∃ w : Wr α, ∀ d', stepU env s (op.withDst d') = some (s.write d' w, r.2) := by
  cases op <;> first | (cases hv; done) | dst_auto h

theorem stepB_dst (s : St α) (op : Op) (hv : op.isValue = true) (r : St α × String)
    (h : stepB env s op = some r) :
    ∃ w : Wr α, ∀ d', stepB env s (op.withDst d') = some (s.write d' w, r.2) := by
  cases op <;> first | (cases hv; done) | dst_auto h

macro "dstn_auto" h:ident : tactic => `(tactic| (
  simp -zeta only [stepE, stepU, stepB, Option.bind_eq_match'] at $h:ident
  try extract_lets at $h:ident
  repeat' (first
    | (cases $h:ident; done)
    | split at $h:ident
    | (simp -zeta only [Op.withDst, stepE, stepU, stepB]
       try extract_lets
       simp only [*, if_true, if_false, ↓reduceIte, Bool.false_eq_true, not_true_eq_false, not_false_eq_true,
         Option.bind_some, Option.bind_none]
       done)
    | rfl
    | simp +zetaDelta only at $h:ident)))

theorem stepE_dst_none (s : St α) (op : Op) (d' : Nat) (h : stepE env s op = none) :
    stepE env s (op.withDst d') = none := by
  cases op <;> first | rfl | dstn_auto h

theorem stepU_dst_none (s : St α) (op : Op) (d' : Nat) (h : stepU env s op = none) :
    stepU env s (op.withDst d') = none := by
  cases op <;> first | rfl | dstn_auto h

theorem stepB_dst_none (s : St α) (op : Op) (d' : Nat) (h : stepB env s op = none) :
    stepB env s (op.withDst d') = none := by
  cases op <;> first | rfl | dstn_auto h

theorem Op.withDst_isTables (op : Op) (d' : Nat) : (op.withDst d').isTables = op.isTables := by
  cases op <;> rfl

/-- C16-2 core: for a value-returning operation the written value `w` and the reply are computed from the
    old store alone — they are the same whatever the destination register is (in particular when it
    coincides with an operand register). -/
theorem step_dst (desc : FieldDesc) (s : St α) (op : Op) (hv : op.isValue = true) :
    ∃ (w : Wr α) (reply : String), ∀ d', step env desc s (op.withDst d') = (s.write d' w, reply) := by
  have hT : ∀ d', stepT desc s (op.withDst d') = none := fun d' =>
    stepT_eq_none desc s _ (by rw [Op.withDst_isTables]; cases op <;> first | rfl | cases hv)
  cases hE : stepE env s op with
  | some r =>
    obtain ⟨w, hw⟩ := stepE_dst env s op hv r hE
    exact ⟨w, r.2, fun d' => by unfold step; rw [hw d']⟩
  | none =>
    cases hU : stepU env s op with
    | some r =>
      obtain ⟨w, hw⟩ := stepU_dst env s op hv r hU
      exact ⟨w, r.2, fun d' => by unfold step; rw [stepE_dst_none env s op d' hE, hw d']⟩
    | none =>
      cases hB : stepB env s op with
      | some r =>
        obtain ⟨w, hw⟩ := stepB_dst env s op hv r hB
        exact ⟨w, r.2, fun d' => by
          unfold step; rw [stepE_dst_none env s op d' hE, stepU_dst_none env s op d' hU, hw d']⟩
      | none =>
        exact ⟨.none, "bad-op", fun d' => by
          unfold step
          rw [stepE_dst_none env s op d' hE, stepU_dst_none env s op d' hU, stepB_dst_none env s op d' hB, hT d']
          rfl⟩

/-- multi-destination `QuoRem` (univariate): quotients, remainder and reply do not depend on `dsts` -/
theorem step_uQuoRem_dsts (desc : FieldDesc) (s : St α) (a : Nat) (gs : List Nat) :
    ∃ (o : Option (Nat × List (UPoly α))) (reply : String), ∀ dsts',
      step env desc s (.uQuoRem dsts' a gs) =
        (match o with
          | none => s
          | some (h, outs) =>
            { s with us := (dsts'.zip outs).foldl (fun us (k, v) => St.setL us k { home := h, val := v }) s.us },
         reply) := by
  cases hC : uCheck env (uGet env s a) (gs.map (uGet env s)) with
  | some p => exact ⟨none, "err " ++ toString p.1.err, fun d => by simp only [step, stepE, stepU, hC]⟩
  | none =>
    cases hQ : UPoly.quoRem (F0 env) (UPoly.quoRemFuel (uGet env s a).val) (uGet env s a).val
        ((gs.map (uGet env s)).map (·.val)) with
    | error k => exact ⟨none, "err " ++ toString k, fun d => by simp only [step, stepE, stepU, hC, hQ]⟩
    | ok o =>
      cases o with
      | none => exact ⟨none, "fuel-exhausted", fun d => by simp only [step, stepE, stepU, hC, hQ]⟩
      | some p =>
        exact ⟨some ((uGet env s a).home, p.1 ++ [p.2]), "ok " ++ " ".intercalate ((p.1 ++ [p.2]).map (encU env)),
          fun d => by simp only [step, stepE, stepU, hC, hQ]⟩

theorem step_bQuoRem_dsts (desc : FieldDesc) (s : St α) (a : Nat) (gs : List Nat) :
    ∃ (o : Option (Nat × List (BPoly α))) (reply : String), ∀ dsts',
      step env desc s (.bQuoRem dsts' a gs) =
        (match o with
          | none => s
          | some (h, outs) =>
            { s with bs := (dsts'.zip outs).foldl (fun bs (k, v) => St.setL bs k { home := h, val := v }) s.bs },
         reply) := by
  cases hC : bCheck (bGet s a) (gs.map (bGet s)) with
  | some p => exact ⟨none, "err " ++ toString p.1.err, fun d => by simp only [step, stepE, stepU, stepB, hC]⟩
  | none =>
    cases hQ : BPoly.quoRem (F0 env) (bord env (bGet s a).home) BPoly.divFuel none (bGet s a).val
        ((gs.map (bGet s)).map (·.val)) with
    | error k => exact ⟨none, "err " ++ toString k, fun d => by simp only [step, stepE, stepU, stepB, hC, hQ]⟩
    | ok o =>
      cases o with
      | none => exact ⟨none, "fuel-exhausted", fun d => by simp only [step, stepE, stepU, stepB, hC, hQ]⟩
      | some p =>
        exact ⟨some ((bGet s a).home, p.1 ++ [p.2]),
          "ok " ++ " ".intercalate ((p.1 ++ [p.2]).map (encB env (bord env (bGet s a).home))),
          fun d => by simp only [step, stepE, stepU, stepB, hC, hQ]⟩

/-- `Generators()` of an ideal: the polynomials handed out do not depend on the destination registers -/
theorem step_iGens_dsts (desc : FieldDesc) (s : St α) (a : Nat) :
    ∃ (outs : List (BPoly α)) (reply : String), ∀ dsts',
      step env desc s (.iGens dsts' a) =
        ({ s with bs := (dsts'.zip outs).foldl (fun bs (k, v) => St.setL bs k { home := 0, val := v }) s.bs },
         reply) :=
  ⟨(iGet s a).gens, "ok " ++ toString (iGet s a).gens.length, fun _ => rfl⟩

end dst

/-! ### taint: a register that holds an erroneous object -/

def TaintedE {α : Type} (s : St α) (k : Nat) : Prop := ∃ r, St.getL s.es k = some r ∧ r.err.isErr = true
def TaintedU {α : Type} (s : St α) (k : Nat) : Prop := ∃ r, St.getL s.us k = some r ∧ r.err.isErr = true
def TaintedB {α : Type} (s : St α) (k : Nat) : Prop := ∃ r, St.getL s.bs k = some r ∧ r.err.isErr = true

section taint
variable {α : Type} (env : Env α)

theorem eGet_of_getL {s : St α} {k : Nat} {r : EReg α} (h : St.getL s.es k = some r) : eGet env s k = r := by
  simp only [eGet, h, Option.getD_some]
theorem uGet_of_getL {s : St α} {k : Nat} {r : UReg α} (h : St.getL s.us k = some r) : uGet env s k = r := by
  simp only [uGet, h, Option.getD_some]
theorem bGet_of_getL {s : St α} {k : Nat} {r : BReg α} (h : St.getL s.bs k = some r) : bGet s k = r := by
  simp only [bGet, h, Option.getD_some]

theorem TaintedE.eGet {s : St α} {k : Nat} (h : TaintedE s k) : (eGet env s k).err.isErr = true := by
  obtain ⟨r, hr, he⟩ := h; rw [eGet_of_getL env hr]; exact he
theorem TaintedU.uGet {s : St α} {k : Nat} (h : TaintedU s k) : (uGet env s k).err.isErr = true := by
  obtain ⟨r, hr, he⟩ := h; rw [uGet_of_getL env hr]; exact he
theorem TaintedB.bGet {s : St α} {k : Nat} (h : TaintedB s k) : (bGet s k).err.isErr = true := by
  obtain ⟨r, hr, he⟩ := h; rw [bGet_of_getL hr]; exact he

theorem TaintedE.set (s : St α) (k : Nat) (r : EReg α) (h : r.err.isErr = true) :
    TaintedE { s with es := St.setL s.es k r } k := ⟨r, St.getL_setL_same _ _ _, h⟩
theorem TaintedU.set (s : St α) (k : Nat) (r : UReg α) (h : r.err.isErr = true) :
    TaintedU { s with us := St.setL s.us k r } k := ⟨r, St.getL_setL_same _ _ _, h⟩
theorem TaintedB.set (s : St α) (k : Nat) (r : BReg α) (h : r.err.isErr = true) :
    TaintedB { s with bs := St.setL s.bs k r } k := ⟨r, St.getL_setL_same _ _ _, h⟩

/-- an erroneous receiver of `Add`/`Sub` stays erroneous (a foreign argument even replaces the error) -/
theorem eInPlace_recv_tainted (op : String) (a b : EReg α) (ha : a.err.isErr = true) :
    (eInPlace env op a b).1.err.isErr = true := by
  cases hb : b.foreign
  · rw [eInPlace_recvErr env op a b hb ha]; exact ha
  · simp only [eInPlace, eCheck, hb, if_true]; rfl

theorem eProdFn_recv_tainted (a b c : EReg α) (bIsA cIsA : Bool) (ha : a.err.isErr = true)
    (hb : bIsA = true → b = a) (hc : cIsA = true → c = a) :
    (eProdFn env a b c bIsA cIsA).1.err.isErr = true := by
  rcases eProdFn_recv_err env a b c bIsA cIsA ha with h | ⟨h, hh⟩ | ⟨h, hh⟩
  · exact h
  · rw [h, hb hh]; exact ha
  · rw [h, hc hh]; exact ha

theorem uReduce_err (r : UReg α) (h : r.err.isErr = true) : uReduce env r = r := by
  simp only [uReduce, h, if_true]

/-- in-place element operations never clear the error of their receiver -/
theorem step_inPlace_taintE (desc : FieldDesc) (s : St α) (op : Op) (k : Nat) (hin : op.inPlace = true)
    (hk : k ∈ op.writesE) (ht : TaintedE s k) : TaintedE (step env desc s op).1 k := by
  have hg := ht.eGet env
  cases op <;> first | (cases hin; done) | (cases hk; done) | skip
  case eIn op a b =>
    obtain rfl : k = a := by simpa [Op.writesE] using hk
    rw [step_eIn]; apply TaintedE.set
    unfold eInRes
    split
    · refine eProdFn_recv_tainted env _ _ _ _ _ hg (fun _ => rfl) (fun h => ?_)
      have : k = b := by simpa using h
      rw [this]
    · exact eInPlace_recv_tainted env _ _ _ hg
  case eProd a b c =>
    obtain rfl : k = a := by simpa [Op.writesE] using hk
    rw [step_eProd]; apply TaintedE.set
    unfold eProdRes
    refine eProdFn_recv_tainted env _ _ _ _ _ hg (fun h => ?_) (fun h => ?_)
    · have : k = b := by simpa using h
      rw [this]
    · have : k = c := by simpa using h
      rw [this]
  case eSetNeg a =>
    obtain rfl : k = a := by simpa [Op.writesE] using hk
    rw [step_eSetNeg]; exact TaintedE.set _ _ _ hg
  case eSetU a n =>
    obtain rfl : k = a := by simpa [Op.writesE] using hk
    rw [step_eSetU]; exact TaintedE.set _ _ _ hg

def uEmbedRes (s : St α) (a ring : Nat) (reduce : Bool) : UReg α :=
  let ra := uGet env s a
  if reduce then uReduce env { ra with home := ring, err := if ra.err.isErr then ra.err.wrapInherit else .none }
  else { ra with home := ring }

theorem step_uEmbed (desc : FieldDesc) (s : St α) (a ring : Nat) (reduce : Bool) :
    step env desc s (.uEmbed a ring reduce) =
      if ((uGet env s a).home == 2) != (ring == 2) then (s, "err InputIncompatible")
      else ({ s with us := St.setL s.us a (uEmbedRes env s a ring reduce) },
            "ok " ++ showU env (uEmbedRes env s a ring reduce)) := by
  by_cases h : (((uGet env s a).home == 2) != (ring == 2)) = true
  · simp only [step, stepE, stepU, uEmbedRes, h, if_true]
  · simp only [step, stepE, stepU, uEmbedRes, h, Bool.false_eq_true, if_false]

theorem uInRes_recv_tainted (s : St α) (op : String) (a b : Nat) (ha : (uGet env s a).err.isErr = true) :
    (uInRes env s op a b).1.err.isErr = true := by
  unfold uInRes
  split
  · simp only [uTimes_recvErr env _ _ ha]; exact ha
  · rw [uInPlace_recvErr env _ _ _ ha]; exact ha

/-- in-place univariate operations (including `EmbedIn`) never clear the error of their receiver -/
theorem step_inPlace_taintU (desc : FieldDesc) (s : St α) (op : Op) (k : Nat) (hin : op.inPlace = true)
    (hk : k ∈ op.writesU) (ht : TaintedU s k) : TaintedU (step env desc s op).1 k := by
  have hg := ht.uGet env
  cases op <;> first | (cases hin; done) | (cases hk; done) | skip
  case uIn op a b =>
    obtain rfl : k = a := by simpa [Op.writesU] using hk
    rw [step_uIn]; exact TaintedU.set _ _ _ (uInRes_recv_tainted env s op k b hg)
  case uSetNeg a =>
    obtain rfl : k = a := by simpa [Op.writesU] using hk
    rw [step_uSetNeg]; exact TaintedU.set _ _ _ hg
  case uSetScale a e =>
    obtain rfl : k = a := by simpa [Op.writesU] using hk
    rw [step_uSetScale]; exact TaintedU.set _ _ _ ((uScaleRes_err env s k e).symm ▸ hg)
  case uSetCoef op a d e =>
    obtain rfl : k = a := by simpa [Op.writesU] using hk
    rw [step_uSetCoef]; exact TaintedU.set _ _ _ hg
  case uSetZero a =>
    obtain rfl : k = a := by simpa [Op.writesU] using hk
    rw [step_uSetZero]; exact TaintedU.set _ _ _ hg
  case uEmbed a ring reduce =>
    obtain rfl : k = a := by simpa [Op.writesU] using hk
    rw [step_uEmbed]
    split
    · exact ht
    · apply TaintedU.set
      unfold uEmbedRes
      split
      · rw [uReduce_err]
        · simp only [hg, if_true]; exact Err.wrapInherit_isErr _
        · simp only [hg, if_true]; exact Err.wrapInherit_isErr _
      · exact hg

theorem bInRes_recv_tainted (s : St α) (op : String) (a b : Nat) (ha : (bGet s a).err.isErr = true) :
    (bInRes env s op a b).1.err.isErr = true := by
  unfold bInRes
  split
  · simp only [bTimes_recvErr env _ _ ha]; exact ha
  · rw [bInPlace_recvErr env _ _ _ ha]; exact ha

/-- in-place bivariate operations never clear the error of their receiver -/
theorem step_inPlace_taintB (desc : FieldDesc) (s : St α) (op : Op) (k : Nat) (hin : op.inPlace = true)
    (hk : k ∈ op.writesB) (ht : TaintedB s k) : TaintedB (step env desc s op).1 k := by
  have hg := ht.bGet
  cases op <;> first | (cases hin; done) | (cases hk; done) | skip
  case bIn op a b =>
    obtain rfl : k = a := by simpa [Op.writesB] using hk
    rw [step_bIn]; exact TaintedB.set _ _ _ (bInRes_recv_tainted env s op k b hg)
  case bSetScale a e =>
    obtain rfl : k = a := by simpa [Op.writesB] using hk
    rw [step_bSetScale]; exact TaintedB.set _ _ _ ((bSetScaleRes_err env s k e).symm ▸ hg)
  case bSetCoef op a d e =>
    obtain rfl : k = a := by simpa [Op.writesB] using hk
    rw [step_bSetCoef]; exact TaintedB.set _ _ _ hg

end taint

/-! ### covered value-returning operations: operands consulted, guards for error propagation -/

/-- element registers whose error status the operation consults, in checking order -/
def Op.readsE : Op → List Nat
  | .eBin _ _ a b | .eIn _ a b => [a, b]
  | .eUn _ _ a | .ePow _ a _ => [a]
  | .eProd _ b c => [b, c]
  | _ => []

/-- univariate registers whose error status the operation consults (a scalar is never consulted) -/
def Op.readsU : Op → List Nat
  | .uBin _ _ a b | .uIn _ a b => [a, b]
  | .uUn _ _ a | .uScale _ a _ | .uPow _ a _ => [a]
  | _ => []

def Op.readsB : Op → List Nat
  | .bBin _ _ a b | .bIn _ a b => [a, b]
  | .bUn _ _ a | .bScale _ a _ | .bPow _ a _ => [a]
  | _ => []

/-- guard under which a covered value-returning element operation stores an erroneous object in `dst` -/
def Op.propagatesE {α : Type} (env : Env α) (s : St α) : Op → Prop
  | .eBin _ op a b =>
    ((op == "times") = true → (eGet env s a).foreign = false) ∧ (eGet env s b).foreign = false ∧
    ((eGet env s a).err.isErr = true ∨ (eGet env s b).err.isErr = true)
  | .eUn _ _ a | .ePow _ a _ => (eGet env s a).err.isErr = true
  | _ => False

def Op.propagatesU {α : Type} (env : Env α) (s : St α) : Op → Prop
  | .uBin _ _ a b => (uGet env s a).err.isErr = true ∨ (uGet env s b).err.isErr = true
  | .uUn _ op a => (op = "copy" ∨ op = "neg" ∨ op = "normalize") ∧ (uGet env s a).err.isErr = true
  | .uScale _ a _ | .uPow _ a _ => (uGet env s a).err.isErr = true
  | _ => False

def Op.propagatesB {α : Type} (s : St α) : Op → Prop
  | .bBin _ _ a b => (bGet s a).err.isErr = true ∨ (bGet s b).err.isErr = true
  | .bUn _ op a => (op = "copy" ∨ op = "neg" ∨ op = "normalize") ∧ (bGet s a).err.isErr = true
  | .bScale _ a _ | .bPow _ a _ => (bGet s a).err.isErr = true
  | _ => False

/-- C17-1 guard: a covered element operation (value-returning or in-place) consults an erroneous operand,
    and no consulted operand is foreign -/
def Op.stickyE {α : Type} (env : Env α) (s : St α) : Op → Prop
  | .eBin _ op a b =>
    ((op == "times") = true → (eGet env s a).foreign = false) ∧ (eGet env s b).foreign = false ∧
    ((eGet env s a).err.isErr = true ∨ (eGet env s b).err.isErr = true)
  | .eUn _ _ a | .ePow _ a _ => (eGet env s a).err.isErr = true
  | .eIn op a b =>
    ((op == "mult") = true → (eGet env s a).foreign = false) ∧ (eGet env s b).foreign = false ∧
    ((eGet env s a).err.isErr = true ∨ (eGet env s b).err.isErr = true)
  | .eProd _ b c =>
    (eGet env s b).foreign = false ∧ (eGet env s c).foreign = false ∧
    ((eGet env s b).err.isErr = true ∨ (eGet env s c).err.isErr = true)
  | _ => False

/-- C17-2 guard (univariate): a covered operation consults an erroneous polynomial (`lt` excluded) -/
def Op.stickyU {α : Type} (env : Env α) (s : St α) : Op → Prop
  | .uBin _ _ a b | .uIn _ a b => (uGet env s a).err.isErr = true ∨ (uGet env s b).err.isErr = true
  | .uUn _ op a => (op = "copy" ∨ op = "neg" ∨ op = "normalize") ∧ (uGet env s a).err.isErr = true
  | .uScale _ a _ | .uPow _ a _ => (uGet env s a).err.isErr = true
  | _ => False

def Op.stickyB {α : Type} (s : St α) : Op → Prop
  | .bBin _ _ a b | .bIn _ a b => (bGet s a).err.isErr = true ∨ (bGet s b).err.isErr = true
  | .bUn _ op a => (op = "copy" ∨ op = "neg" ∨ op = "normalize") ∧ (bGet s a).err.isErr = true
  | .bScale _ a _ | .bPow _ a _ => (bGet s a).err.isErr = true
  | _ => False

theorem ret_eq (b : Bool) (x : String) : ret b x = (if b then "recv " else "other ") ++ x := rfl

/-! ### success conditions of the in-place operations -/

/-- The exact guard under which an in-place operation takes its normal path (receiver updated and
    returned). `True` where the model returns the receiver unconditionally. -/
def Op.recvOk {α : Type} (env : Env α) (s : St α) : Op → Prop
  | .eIn op a b =>
    ((op == "mult") = true → (eGet env s a).foreign = false) ∧ (eGet env s b).foreign = false ∧
    (eGet env s a).err.isErr = false ∧ (eGet env s b).err.isErr = false ∧
    (eGet env s a).home = (eGet env s b).home
  | .eProd _ b c =>
    (eGet env s b).foreign = false ∧ (eGet env s c).foreign = false ∧
    (eGet env s b).err.isErr = false ∧ (eGet env s c).err.isErr = false ∧
    (eGet env s b).home = (eGet env s c).home
  | .eSetNeg _ | .eSetU .. => True
  | .uIn op a b =>
    (op == "mult") = true ∨
    ((uGet env s a).err.isErr = false ∧ (uGet env s b).err.isErr = false ∧ (uGet env s b).home = (uGet env s a).home)
  | .uSetNeg _ | .uSetScale .. | .uSetCoef .. | .uSetZero _ => True
  | .bIn op a b =>
    (op == "mult") = true ∨
    ((bGet s a).err.isErr = false ∧ (bGet s b).err.isErr = false ∧ (bGet s b).home = (bGet s a).home)
  | .bSetScale .. | .bSetCoef .. => True
  | _ => False

end Algobra
