/-
  Proofs/BPolyReduced.lean — reduced polynomials of a bivariate quotient ring: if the model's
  `reduceIn` returns its argument, no exponent pair of the argument is divisible by a leading
  exponent of the ideal (`quoRemLoop_keys`); on such inputs the division loop only moves terms
  into the remainder (`quoRemLoop_nd`); hence the sum of two reduced polynomials is left alone up
  to `Equal` (`reduceIn_sum`).  Used by `Props/C15Full.lean` (bivariate additivity in a quotient
  ring).  Side conditions: an admissible order and exponents without overflow of the weighted
  degree (so that the leading exponent is a stored exponent), and the model's division fuel.
-/
import Mathlib.Tactic.Abel
import Algobra.Proofs.BPolyDiv
import Algobra.Proofs.BPolyPerm

namespace Algobra.BPoly
open AddMonoidAlgebra (single)
open Algobra.Order

variable {α : Type} {F : FOps α} {K : Type} [Field K]

/-- no leading exponent of `gs` divides `d` -/
def ND (o : Order) (gs : List (BPoly α)) (d : Deg) : Prop := firstDiv o d none gs 0 = none

/-- every exponent pair of the remainder was there before or is not divisible -/
theorem quoRemLoop_keys (o : Order) (gs : List (BPoly α)) :
    ∀ (fuel : Nat) (p : BPoly α) (qs : List (BPoly α)) (r : BPoly α) (qs' : List (BPoly α))
      (r' : BPoly α), quoRemLoop F o none gs fuel p qs r = some (qs', r') →
    ∀ e ∈ keys r', e ∈ keys r ∨ ND o gs e := by
  intro fuel
  induction fuel with
  | zero => intro p qs r qs' r' h; simp [quoRemLoop] at h
  | succ fuel ih =>
    intro p qs r qs' r' h e he
    rw [quoRemLoop] at h
    split at h
    · injection h with h; injection h with h1 h2; subst h2; exact Or.inl he
    · dsimp only at h
      cases hfd : firstDiv o (ld o p) none gs 0 with
      | some x =>
        obtain ⟨i, g, dd⟩ := x
        rw [hfd] at h
        exact ih _ _ _ _ _ h e he
      | none =>
        rw [hfd] at h
        rcases ih _ _ _ _ _ h e he with h1 | h1
        · rcases mem_keys_incCoef h1 with h2 | h2
          · exact Or.inl h2
          · subst h2; exact Or.inr hfd
        · exact Or.inr h1

variable (L : Lawful F K)

theorem length_erase_lt {f : BPoly α} {d : Deg} (hd : d ∈ keys f) :
    (erase f d).length < f.length := by
  obtain ⟨x, hx, rfl⟩ := List.mem_map.1 hd
  unfold erase
  apply List.length_filter_lt_length_iff_exists.2
  exact ⟨x, hx, by simp⟩

/-- on a dividend without divisible exponent pairs the loop moves every term to the remainder -/
theorem quoRemLoop_nd {o : Order} (hadm : Admissible o) (gs : List (BPoly α)) :
    ∀ (fuel : Nat) (p : BPoly α) (qs : List (BPoly α)) (r : BPoly α), WF L p → WF L r →
    (∀ d ∈ keys p, ND o gs d ∧ NoOverflow o d) → p.length < fuel →
    ∃ r', quoRemLoop F o none gs fuel p qs r = some (qs, r') ∧ WF L r' ∧
      toMv L r' = toMv L r + toMv L p := by
  intro fuel
  induction fuel with
  | zero => intro p qs r _ _ _ h; omega
  | succ fuel ih =>
    intro p qs r hp hr hk hlen
    rw [quoRemLoop]
    by_cases he : p.isEmpty = true
    · rw [if_pos he]
      have : p = [] := by cases p <;> simp_all
      subst this
      exact ⟨r, rfl, hr, by simp [toMv]⟩
    · rw [if_neg he]
      dsimp only
      have hne : p ≠ [] := by intro h; apply he; rw [h]; rfl
      have hmem : ld o p ∈ keys p := ld_mem_keys hadm hne (fun d hd => (hk d hd).2)
      have hfd : firstDiv o (ld o p) none gs 0 = none := (hk _ hmem).1
      rw [hfd]
      dsimp only
      obtain ⟨w1, w2⟩ := incCoef_spec L hr (ld o p) (coef_valid L hp.cv (ld o p))
      obtain ⟨r', h1, h2, h3⟩ := ih (erase p (ld o p)) qs _ (WF_erase L hp _) w1
        (fun d hd => hk d ((mem_keys_erase p _ d).1 hd).1)
        (by have := length_erase_lt hmem; omega)
      refine ⟨r', h1, h2, ?_⟩
      rw [h3, w2, toMv_erase L hp]
      abel

/-- `reduceIn` in a quotient ring, unfolded -/
theorem reduceIn_some {R : Ring α} {gs : List (BPoly α)} (hR : R.ideal = some gs) {f f' : BPoly α}
    (h : reduceIn R f = some f') :
    (gs.any (·.isEmpty)) = false ∧ ∃ qs',
      quoRemLoop R.F R.ord none gs divFuel f (gs.map fun _ => []) [] = some (qs', f') := by
  unfold reduceIn rem quoRem at h
  rw [hR] at h
  dsimp only at h
  by_cases hg : (gs.any fun x => List.isEmpty x) = true
  · simp [hg] at h
  · simp only [hg] at h
    refine ⟨by cases hh : (gs.any fun x => List.isEmpty x) <;> simp_all, ?_⟩
    cases hq : quoRemLoop R.F R.ord none gs divFuel f (gs.map fun _ => []) [] with
    | none => rw [hq] at h; simp at h
    | some x =>
      obtain ⟨qs', r⟩ := x
      rw [hq] at h
      simp at h
      exact ⟨qs', by rw [h]⟩

/-- The sum of two reduced polynomials of a quotient ring is its own normal form up to `Equal`,
    for an admissible order, exponents whose weighted degree does not overflow, and as long as the
    MODEL's division fuel `divFuel` exceeds the number of terms of the sum (the Go code has no
    fuel: this last hypothesis is an artifact of the model). -/
theorem reduceIn_sum (R : Ring α) (L : Lawful R.F K) {gs : List (BPoly α)} (hR : R.ideal = some gs)
    (hadm : Admissible R.ord) {f₁ f₂ : BPoly α} (hf₁ : WF L f₁) (hf₂ : WF L f₂)
    (hr₁ : reduceIn R f₁ = some f₁) (hr₂ : reduceIn R f₂ = some f₂)
    (hno₁ : ∀ d ∈ keys f₁, NoOverflow R.ord d) (hno₂ : ∀ d ∈ keys f₂, NoOverflow R.ord d)
    (hfuel : f₁.length + f₂.length < divFuel) :
    ∃ h, reduceIn R (add R.F f₁ f₂) = some h ∧ equal R.F h (add R.F f₁ f₂) = true := by
  obtain ⟨hg, qs1, hq1⟩ := reduceIn_some hR hr₁
  obtain ⟨_, qs2, hq2⟩ := reduceIn_some hR hr₂
  have hnd1 : ∀ d ∈ keys f₁, ND R.ord gs d := fun d hd =>
    (quoRemLoop_keys R.ord gs _ _ _ _ _ _ hq1 d hd).resolve_left (by simp [keys])
  have hnd2 : ∀ d ∈ keys f₂, ND R.ord gs d := fun d hd =>
    (quoRemLoop_keys R.ord gs _ _ _ _ _ _ hq2 d hd).resolve_left (by simp [keys])
  have hs := WF_add L hf₁ hf₂.cv
  have hsp := toMv_add L hf₁ hf₂.cv
  have hkeys : ∀ d ∈ keys (add R.F f₁ f₂), d ∈ keys f₁ ∨ d ∈ keys f₂ := by
    intro d hd
    have h := (mem_keys_iff L hs d).1 hd
    rw [hsp, AddMonoidAlgebra.coeff_add, Finsupp.add_apply] at h
    by_cases h1 : (toMv L f₁).coeff d = 0
    · right; apply (mem_keys_iff L hf₂ d).2; intro h2; apply h; rw [h1, h2, add_zero]
    · left; exact (mem_keys_iff L hf₁ d).2 h1
  have hlen : (add R.F f₁ f₂).length ≤ f₁.length + f₂.length := by
    rw [← card_support_toMv L hs, ← card_support_toMv L hf₁, ← card_support_toMv L hf₂, hsp]
    exact le_trans (Finset.card_le_card Finsupp.support_add) (Finset.card_union_le _ _)
  obtain ⟨r', h1, h2, h3⟩ := quoRemLoop_nd L hadm gs divFuel (add R.F f₁ f₂)
    (gs.map fun _ => []) [] hs (WF_nil L)
    (fun d hd => by
      rcases hkeys d hd with h | h
      · exact ⟨hnd1 d h, hno₁ d h⟩
      · exact ⟨hnd2 d h, hno₂ d h⟩)
    (by omega)
  refine ⟨r', ?_, (equal_iff L h2 hs).2 (by rw [h3]; simp [toMv])⟩
  unfold reduceIn rem quoRem
  rw [hR]
  dsimp only
  rw [hg]
  simp only [Bool.false_eq_true, if_false]
  rw [h1]
  rfl

end Algobra.BPoly
