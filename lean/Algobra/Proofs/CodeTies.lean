/-
  Proofs/CodeTies.lean — helper lemmas for Props/CodeTies.lean: equivalence of the MACHINE-TRANSLATED
  Go functions of `Algobra/Gen/Code.lean` (regenerated from /repo by /verif/extract/translate.go on every
  run) with the hand-written model functions (Model/Auxmath.lean, Model/BPoly.lean, Model/Field.lean).

  Self-contained (core Lean + the model): the few `bitLen`/xor facts needed are re-proved here so that
  the file does not depend on the Mathlib-heavy proof files.
-/
import Algobra.Gen.Code
import Algobra.Model.BPoly

namespace Algobra
namespace CodeTiesProofs
open Algobra Algobra.Gen.Code

/-! ### words -/

theorem w64_of_lt {x : Nat} (h : x < 2 ^ 64) : w64 x = x := Nat.mod_eq_of_lt h

theorem wsub_of_le {x y : Nat} (hx : x < 2 ^ 64) (hy : y ≤ x) : wsub x y = x - y := by
  unfold wsub
  rw [Nat.mod_eq_of_lt (Nat.lt_of_le_of_lt hy hx)]
  omega

theorem intToWord_ofNat {x : Nat} (h : x < 2 ^ 64) : intToWord (Int.ofNat x) = x := by
  unfold intToWord
  have : (Int.ofNat x) % (2 ^ 64 : Int) = Int.ofNat x := by
    apply Int.emod_eq_of_lt
    · exact Int.natCast_nonneg x
    · show (x : Int) < 2 ^ 64
      omega
  rw [this]
  rfl

theorem wrapInt_of_small {v : Int} (h1 : -(2 ^ 63) ≤ v) (h2 : v < 2 ^ 63) : wrapInt v = v := by
  unfold wrapInt
  simp only
  split <;> omega

theorem shr1 (x : Nat) : x >>> 1 = x / 2 := by simp [Nat.shiftRight_eq_div_pow]

theorem and1 (x : Nat) : x &&& 1 = x % 2 := Nat.and_one_is_mod x

/-! ### `bitLen` -/

theorem bitLen_zero : bitLen 0 = 0 := by simp [bitLen]

theorem bitLen_eq_zero_iff {v : Nat} : bitLen v = 0 ↔ v = 0 := by
  unfold bitLen; split <;> simp_all

theorem bitLen_le_iff {v k : Nat} : bitLen v ≤ k ↔ v < 2 ^ k := by
  unfold bitLen
  split
  · next h => subst h; simp [Nat.two_pow_pos]
  · next h => rw [Nat.add_one_le_iff, Nat.log2_lt h]

theorem lt_bitLen_iff {v k : Nat} : k < bitLen v ↔ 2 ^ k ≤ v := by
  rw [← Nat.not_le, bitLen_le_iff, Nat.not_lt]

theorem lt_two_pow_bitLen (v : Nat) : v < 2 ^ bitLen v := bitLen_le_iff.1 (Nat.le_refl _)

theorem two_pow_bitLen_pred_le {v : Nat} (h : v ≠ 0) : 2 ^ (bitLen v - 1) ≤ v := by
  have : bitLen v ≠ 0 := fun h0 => h (bitLen_eq_zero_iff.1 h0)
  exact lt_bitLen_iff.1 (by omega)

theorem bitLen_le_64 {a : Nat} (h : a < 2 ^ 64) : bitLen a ≤ 64 := bitLen_le_iff.2 h

theorem bitLen_pos {a : Nat} (h : a ≠ 0) : 1 ≤ bitLen a := by
  have : bitLen a ≠ 0 := fun h0 => h (bitLen_eq_zero_iff.1 h0)
  omega

theorem intToWord_bitLen {a : Nat} (h : a < 2 ^ 64) : intToWord (Int.ofNat (bitLen a)) = bitLen a :=
  intToWord_ofNat (by have := bitLen_le_64 h; omega)

/-- xor of two numbers with the same top bit `k` is below `2^k` -/
theorem xor_lt_of_same_top {a b k : Nat} (ha1 : 2 ^ k ≤ a) (ha2 : a < 2 ^ (k + 1))
    (hb1 : 2 ^ k ≤ b) (hb2 : b < 2 ^ (k + 1)) : a ^^^ b < 2 ^ k := by
  have hd : ∀ x, 2 ^ k ≤ x → x < 2 ^ (k + 1) → x >>> k = 1 := by
    intro x h1 h2
    rw [Nat.shiftRight_eq_div_pow]
    have hpos : 0 < 2 ^ k := Nat.two_pow_pos k
    apply Nat.div_eq_of_lt_le
    · simpa using h1
    · rw [Nat.pow_succ] at h2; omega
  have h : (a ^^^ b) >>> k = 0 := by
    rw [Nat.shiftRight_xor_distrib, hd a ha1 ha2, hd b hb1 hb2]; rfl
  rw [Nat.shiftRight_eq_div_pow] at h
  exact (Nat.div_eq_zero_iff_lt (Nat.two_pow_pos k)).1 h

/-! ### 8. `estimateMemory` -/

theorem prime_estimateMemory (p : Nat) :
    go_primefield_estimateMemory p = Prime.estimateMemory p := rfl

theorem ext_estimateMemory (n card : Nat) :
    go_extfield_estimateMemory n card
      = w64 (wsub card 1 * w64 (1 + w64 (n * uintSize) / 8)) >>> 10 := rfl

/-! ### 1. `BoundSqrt` -/

theorem boundSqrt {a : Nat} (ha : a < 2 ^ 64) :
    go_auxmath_BoundSqrt a = Auxmath.boundSqrt a := by
  have hb := bitLen_le_64 ha
  unfold go_auxmath_BoundSqrt Auxmath.boundSqrt
  rw [intToWord_bitLen ha]
  by_cases h0 : a = 0
  · simp [h0]
  · simp only [h0, ↓reduceIte, shr1]
    by_cases h2 : bitLen a % 2 = 0
    · simp only [h2, ↓reduceIte]
    · simp only [h2, ↓reduceIte]
      rw [w64_of_lt (x := bitLen a / 2 + 1) (by omega)]

/-! ### 2. `boundLog2` -/

theorem boundLog2 {a : Nat} (ha : a < 2 ^ 64) :
    go_auxmath_boundLog2 a = Auxmath.boundLog2 a := by
  have hb := bitLen_le_64 ha
  unfold go_auxmath_boundLog2 Auxmath.boundLog2
  rw [intToWord_bitLen ha]
  by_cases h0 : a = 0
  · simp [h0]
  · have := bitLen_pos h0
    have hp : ((Int.ofNat (popCount a) : Int) = 1) ↔ popCount a = 1 := by
      show ((popCount a : Nat) : Int) = 1 ↔ _
      omega
    simp only [h0, ↓reduceIte, hp]
    rw [wsub_of_le (by omega) (by omega)]

/-! ### 5. monomial orders (no word-size hypotheses: both sides use the same `w64` expressions) -/

theorem swap (a : Deg) : go_bivariate_swap a = Order.swap a := rfl

theorem lex (x : Bool) (a b : Deg) : go_bivariate_Lex x a b = Order.lex x a b := by
  cases x <;> rfl

theorem lex_fun (x : Bool) : go_bivariate_Lex x = Order.lex x := by
  funext a b; exact lex x a b

theorem degCompare (wx wy : Nat) (t : Deg → Deg → Int) (a b : Deg) :
    go_bivariate_degCompare wx wy t a b = Order.degCompare wx wy t a b := by
  unfold go_bivariate_degCompare Order.degCompare Order.wdeg
  simp only
  split
  · rfl
  · split
    · rfl
    · split
      · rfl
      · split
        · rfl
        · omega

theorem lexBase_range (a b : Deg) :
    Order.lexBase a b = -1 ∨ Order.lexBase a b = 0 ∨ Order.lexBase a b = 1 := by
  unfold Order.lexBase
  repeat' split
  all_goals simp

theorem lex_range (x : Bool) (a b : Deg) :
    Order.lex x a b = -1 ∨ Order.lex x a b = 0 ∨ Order.lex x a b = 1 := by
  unfold Order.lex
  split <;> exact lexBase_range _ _

theorem wrapInt_neg_lex (x : Bool) (a b : Deg) :
    wrapInt ((-1) * Order.lex x a b) = -1 * Order.lex x a b := by
  rcases lex_range x a b with h | h | h <;> rw [h] <;> decide

theorem wdeglex (wx wy : Nat) (x : Bool) (a b : Deg) :
    go_bivariate_WDegLex wx wy x a b = Order.cmp ⟨.wdeglex wx wy, x⟩ a b := by
  unfold go_bivariate_WDegLex
  rw [degCompare, lex_fun]
  rfl

theorem wdegrevlex (wx wy : Nat) (x : Bool) (a b : Deg) :
    go_bivariate_WDegRevLex wx wy x a b = Order.cmp ⟨.wdegrevlex wx wy, x⟩ a b := by
  unfold go_bivariate_WDegRevLex
  rw [degCompare, lex_fun]
  have : (fun (deg1 deg2 : Nat × Nat) => wrapInt ((-1) * Order.lex (!x) deg1 deg2))
      = (fun a b => -1 * Order.lex (!x) a b) := by
    funext a b; exact wrapInt_neg_lex _ _ _
  rw [this]
  rfl

theorem deglex (x : Bool) (a b : Deg) :
    go_bivariate_DegLex x a b = Order.cmp ⟨.wdeglex 1 1, x⟩ a b := wdeglex 1 1 x a b

theorem degrevlex (x : Bool) (a b : Deg) :
    go_bivariate_DegRevLex x a b = Order.cmp ⟨.wdegrevlex 1 1, x⟩ a b := wdegrevlex 1 1 x a b

/-! ### 6. `addDegs`, `subtractDegs` -/

theorem addDegs (a b : Deg) :
    go_bivariate_addDegs a b =
      match BPoly.addDegs a b with
      | some s => (s, none)
      | none => ((w64 (a.1 + b.1), w64 (a.2 + b.2)), some Kind.overflow) := by
  unfold go_bivariate_addDegs BPoly.addDegs
  simp only [Bool.or_eq_true, decide_eq_true_eq]
  split <;> rfl

theorem subtractDegs {a b : Deg} (h1 : a.1 < 2 ^ 64) (h2 : a.2 < 2 ^ 64) :
    go_bivariate_subtractDegs a b =
      match BPoly.subDegs a b with
      | some d => (d, true)
      | none => ((0, 0), false) := by
  unfold go_bivariate_subtractDegs BPoly.subDegs
  simp only [Bool.and_eq_true, decide_eq_true_eq, ge_iff_le]
  split
  · next h => rw [wsub_of_le h1 h.1, wsub_of_le h2 h.2]
  · rfl

/-! ### fuel -/

theorem two_pow_64_le_fuel : 2 ^ 64 ≤ 2 ^ loopFuel :=
  Nat.pow_le_pow_right (by decide) (by decide)

theorem lt_two_pow_fuel {n : Nat} (h : n < 2 ^ 64) : n < 2 ^ loopFuel :=
  Nat.lt_of_lt_of_le h two_pow_64_le_fuel

/-! ### 3. `Pow` -/

theorem pow_loop (fuel : Nat) : ∀ n res tmp, n < 2 ^ fuel →
    (go_auxmath_Pow_loop1 fuel (n, res, tmp)).2.1 = Auxmath.powLoop res tmp n := by
  induction fuel with
  | zero =>
    intro n res tmp h
    have : n = 0 := by simpa using h
    subst this
    rw [Auxmath.powLoop]
    simp [go_auxmath_Pow_loop1]
  | succ f ih =>
    intro n res tmp h
    rw [Auxmath.powLoop]
    by_cases h0 : n = 0
    · subst h0; simp [go_auxmath_Pow_loop1]
    · have hpos : n > 0 := Nat.pos_of_ne_zero h0
      have hlt : n / 2 < 2 ^ f := by rw [Nat.pow_succ] at h; omega
      simp only [go_auxmath_Pow_loop1, hpos, ↓reduceIte, and1, shr1, h0, ↓reduceDIte]
      by_cases h1 : n % 2 = 1
      · simp only [h1, ↓reduceIte]
        exact ih _ _ _ hlt
      · simp only [h1, ↓reduceIte]
        exact ih _ _ _ hlt

theorem pow {a n : Nat} (ha : a < 2 ^ 64) (hn : n < 2 ^ 64) :
    go_auxmath_Pow a n =
      match Auxmath.pow a n with
      | .ok r => (r, none)
      | .error k => (0, some k) := by
  unfold go_auxmath_Pow Auxmath.pow
  simp only [boundLog2 ha]
  have hiff : Auxmath.powGuard a n = true ↔
      ((a > 0 ∧ Auxmath.boundLog2 a > 0) ∧ (n ≥ 64 ∨ w64 (Auxmath.boundLog2 a * n) ≥ 64)) := by
    simp [Auxmath.powGuard, uintSize]
  by_cases hg : Auxmath.powGuard a n = true
  · rw [if_pos (hiff.1 hg), if_pos hg]
  · rw [if_neg (fun h => hg (hiff.2 h)), if_neg hg]
    simp only
    rw [← pow_loop loopFuel n 1 a (lt_two_pow_fuel hn)]

/-! ### 4. `Gcd` — fuel: the product `a * b` at least halves in every round with `a ≤ b` -/

theorem gcd_step_word {a b : Nat} (hb : b < 2 ^ 64) :
    wsub b (w64 (b / a * a)) = b - b / a * a := by
  have h1 : b / a * a ≤ b := Nat.div_mul_le_self b a
  rw [w64_of_lt (Nat.lt_of_le_of_lt h1 hb), wsub_of_le hb h1]

theorem sub_div_mul (a b : Nat) : b - b / a * a = b % a := by
  have := Nat.div_add_mod b a
  rw [Nat.mul_comm] at this
  omega

theorem gcd_loop_succ (f a b : Nat) (ha : a > 0) :
    go_auxmath_Gcd_loop1 (f + 1) (a, b)
      = go_auxmath_Gcd_loop1 f (wsub b (w64 (b / a * a)), a) := by
  simp only [go_auxmath_Gcd_loop1, ha, ↓reduceIte]

theorem gcd_loop (fuel : Nat) : ∀ a b, a ≤ b → b < 2 ^ 64 → a * b < 2 ^ fuel →
    (go_auxmath_Gcd_loop1 fuel (a, b)).2 = Auxmath.gcd a b := by
  induction fuel with
  | zero =>
    intro a b hab hb h
    have h0 : a = 0 := by
      rcases Nat.eq_zero_or_pos a with h0 | h0
      · exact h0
      · have : 1 ≤ a * b := Nat.mul_pos h0 (Nat.lt_of_lt_of_le h0 hab)
        simp at h; omega
    subst h0
    rw [Auxmath.gcd]
    simp [go_auxmath_Gcd_loop1]
  | succ f ih =>
    intro a b hab hb h
    rw [Auxmath.gcd]
    by_cases h0 : a = 0
    · subst h0; simp [go_auxmath_Gcd_loop1]
    · have hpos : a > 0 := Nat.pos_of_ne_zero h0
      rw [gcd_loop_succ f a b hpos, gcd_step_word hb]
      simp only [h0, ↓reduceDIte]
      rw [sub_div_mul]
      have hr : b % a < a := Nat.mod_lt _ hpos
      have hq : 1 ≤ b / a := (Nat.one_le_div_iff hpos).2 hab
      have hdm := Nat.div_add_mod b a
      -- b = a * (b / a) + r ≥ a + r > 2 r
      have hge : a + b % a ≤ b := by
        have : a * 1 ≤ a * (b / a) := Nat.mul_le_mul_left a hq
        omega
      have h2 : 2 * (b % a * a) < 2 ^ (f + 1) := by
        have : 2 * (b % a) < b := by omega
        have : 2 * (b % a) * a < b * a := Nat.mul_lt_mul_of_pos_right this hpos
        rw [Nat.mul_comm b a] at this
        rw [← Nat.mul_assoc]
        omega
      exact ih (b % a) a (Nat.le_of_lt hr) (Nat.lt_of_le_of_lt hab hb)
        (by rw [Nat.pow_succ] at h2; omega)

theorem two_pow_128_le (k : Nat) (hk : 128 ≤ k) : 2 ^ 64 * 2 ^ 64 ≤ 2 ^ k := by
  rw [← Nat.pow_add]; exact Nat.pow_le_pow_right (by decide) hk

theorem mul_lt_two_pow {a b k : Nat} (ha : a < 2 ^ 64) (hb : b < 2 ^ 64) (hk : 128 ≤ k) :
    a * b < 2 ^ k := by
  have h1 : a * b < 2 ^ 64 * 2 ^ 64 := by
    rcases Nat.eq_zero_or_pos b with h0 | h0
    · subst h0; simp
    · calc a * b < 2 ^ 64 * b := Nat.mul_lt_mul_of_pos_right ha h0
        _ ≤ 2 ^ 64 * 2 ^ 64 := Nat.mul_le_mul_left _ (Nat.le_of_lt hb)
  exact Nat.lt_of_lt_of_le h1 (two_pow_128_le _ hk)

theorem gcd_fuel (g : Nat) (hg : 128 ≤ g) {a b : Nat} (ha : a < 2 ^ 64) (hb : b < 2 ^ 64) :
    (go_auxmath_Gcd_loop1 (g + 1) (a, b)).2 = Auxmath.gcd a b := by
  by_cases hab : a ≤ b
  · exact gcd_loop _ _ _ hab hb (mul_lt_two_pow ha hb (by omega))
  · have hlt : b < a := Nat.lt_of_not_le hab
    have hpos : a > 0 := by omega
    rw [gcd_loop_succ _ a b hpos, gcd_step_word hb, sub_div_mul, Nat.mod_eq_of_lt hlt]
    rw [Auxmath.gcd]
    simp only [show a ≠ 0 by omega, ↓reduceDIte]
    rw [sub_div_mul, Nat.mod_eq_of_lt hlt]
    exact gcd_loop _ _ _ (Nat.le_of_lt hlt) ha (mul_lt_two_pow hb ha hg)

theorem gcd {a b : Nat} (ha : a < 2 ^ 64) (hb : b < 2 ^ 64) :
    go_auxmath_Gcd a b = Auxmath.gcd a b :=
by
  have h := gcd_fuel (loopFuel - 1) (by decide) ha hb
  rw [show loopFuel - 1 + 1 = loopFuel by decide] at h
  exact h

/-! ### 7. binfield: `bitProd`, `bitQuoRem`, `Element.reduce` -/

theorem bitProd_loop (fuel : Nat) : ∀ a b out, b < 2 ^ fuel →
    (go_binfield_bitProd_loop1 fuel (a, b, out)).2.2 = Bin.bitProdLoop out a b := by
  induction fuel with
  | zero =>
    intro a b out h
    have : b = 0 := by simpa using h
    subst this
    rw [Bin.bitProdLoop]
    simp [go_binfield_bitProd_loop1]
  | succ f ih =>
    intro a b out h
    rw [Bin.bitProdLoop]
    by_cases h0 : b = 0
    · subst h0; simp [go_binfield_bitProd_loop1]
    · have hpos : b > 0 := Nat.pos_of_ne_zero h0
      have hlt : b / 2 < 2 ^ f := by rw [Nat.pow_succ] at h; omega
      simp only [go_binfield_bitProd_loop1, hpos, ↓reduceIte, and1, shr1, h0, ↓reduceDIte]
      exact ih _ _ _ hlt

/-- no bound on `a` is needed: both sides truncate in the same places -/
theorem bitProd (a : Nat) {b : Nat} (hb : b < 2 ^ 64) :
    go_binfield_bitProd a b = Bin.bitProd a b :=
  bitProd_loop loopFuel a b 0 (lt_two_pow_fuel hb)

theorem bitQuoRem_loop_brk (b : Nat) (l : Int) (fuel a quo : Nat) :
    go_binfield_bitQuoRem_loop1 b l fuel (a, quo, true) = (a, quo, true) := by
  cases fuel <;> simp [go_binfield_bitQuoRem_loop1]

theorem toNat_wrapInt_sub {x y : Nat} (hx : x ≤ 64) (hy : y ≤ x) :
    Int.toNat (wrapInt (Int.ofNat x - Int.ofNat y)) = x - y := by
  rw [wrapInt_of_small]
  · show ((x : Int) - (y : Int)).toNat = x - y
    omega
  · show -(2 ^ 63 : Int) ≤ (x : Int) - (y : Int)
    omega
  · show (x : Int) - (y : Int) < 2 ^ 63
    omega

theorem bitQuoRem_loop {b : Nat} (hb : b ≠ 0) (fuel : Nat) : ∀ a quo, a < 2 ^ 64 →
    bitLen a + 2 ≤ fuel →
    ((go_binfield_bitQuoRem_loop1 b (Int.ofNat (bitLen b)) fuel (a, quo, false)).2.1,
      (go_binfield_bitQuoRem_loop1 b (Int.ofNat (bitLen b)) fuel (a, quo, false)).1)
      = Bin.bitQuoRemLoop b (bitLen b) quo a := by
  have hlb : 1 ≤ bitLen b := bitLen_pos hb
  induction fuel with
  | zero => intro a quo _ h; omega
  | succ f ih =>
    intro a quo ha hf
    rw [Bin.bitQuoRemLoop]
    by_cases ha0 : a = 0
    · subst ha0; simp [go_binfield_bitQuoRem_loop1]
    · have hpos : a > 0 := Nat.pos_of_ne_zero ha0
      have hL64 : bitLen a ≤ 64 := bitLen_le_64 ha
      by_cases hl : bitLen a ≥ bitLen b
      · have hli : (Int.ofNat (bitLen a) : Int) ≥ Int.ofNat (bitLen b) := by
          show ((bitLen a : Nat) : Int) ≥ ((bitLen b : Nat) : Int)
          omega
        obtain ⟨s, hs⟩ : ∃ s, bitLen a = bitLen b + s := ⟨bitLen a - bitLen b, by omega⟩
        have hs' : bitLen a - bitLen b = s := by omega
        obtain ⟨k, hk⟩ : ∃ k, bitLen b = k + 1 := ⟨bitLen b - 1, by omega⟩
        have hblo : 2 ^ k ≤ b := by
          have := two_pow_bitLen_pred_le hb; rwa [hk] at this
        have hbhi : b < 2 ^ (k + 1) := by
          have := lt_two_pow_bitLen b; rwa [hk] at this
        have hlo : 2 ^ (k + s) ≤ b <<< s := by
          rw [Nat.shiftLeft_eq, Nat.pow_add]; exact Nat.mul_le_mul_right _ hblo
        have hhi : b <<< s < 2 ^ (k + s + 1) := by
          rw [Nat.shiftLeft_eq, show k + s + 1 = (k + 1) + s by omega, Nat.pow_add]
          exact Nat.mul_lt_mul_of_pos_right hbhi (Nat.two_pow_pos s)
        have halo : 2 ^ (k + s) ≤ a := by
          have := two_pow_bitLen_pred_le ha0
          rwa [show bitLen a - 1 = k + s by omega] at this
        have hahi : a < 2 ^ (k + s + 1) := by
          have := lt_two_pow_bitLen a
          rwa [show bitLen a = k + s + 1 by omega] at this
        have hw : w64 (b <<< s) = b <<< s :=
          w64_of_lt (Nat.lt_of_lt_of_le hhi (Nat.pow_le_pow_right (by decide) (by omega)))
        have hx : a ^^^ b <<< s < 2 ^ (k + s) := xor_lt_of_same_top halo hahi hlo hhi
        have hlt : a ^^^ b <<< s < a := Nat.lt_of_lt_of_le hx halo
        have hbl : bitLen (a ^^^ b <<< s) + 2 ≤ f := by
          have := bitLen_le_iff.2 hx
          omega
        simp only [go_binfield_bitQuoRem_loop1, hpos, true_and, ↓reduceIte, hli,
          toNat_wrapInt_sub hL64 hl, hs', hw, ha0, ↓reduceDIte, hl, hlt]
        exact ih _ _ (Nat.lt_trans hlt ha) hbl
      · have hli : ¬ ((Int.ofNat (bitLen a) : Int) ≥ Int.ofNat (bitLen b)) := by
          show ¬ (((bitLen a : Nat) : Int) ≥ ((bitLen b : Nat) : Int))
          omega
        simp only [go_binfield_bitQuoRem_loop1, hpos, true_and, ↓reduceIte, hli, ha0,
          ↓reduceDIte, hl, bitQuoRem_loop_brk]

theorem bitQuoRem {a b : Nat} (ha : a < 2 ^ 64) (hb : b ≠ 0) :
    go_binfield_bitQuoRem a b = Bin.bitQuoRem a b := by
  have := bitQuoRem_loop hb loopFuel a 0 ha
    (by have := bitLen_le_64 ha; have : (66 : Nat) ≤ loopFuel := by decide
        omega)
  unfold Bin.bitQuoRem
  rw [← this]
  rfl

/-- one round of `reduce` for a valid modulus: the shifted modulus fits a word and the bit length
    drops (same statement as `BinField.reduce_step`, re-proved here with core lemmas only) -/
theorem reduce_step {n m v : Nat} (hm1 : 2 ^ n ≤ m) (hm2 : m < 2 ^ (n + 1))
    (hv : v < 2 ^ 64) (h : bitLen v > n) :
    w64 (m <<< (bitLen v - n - 1)) = m <<< (bitLen v - n - 1) ∧
      bitLen (v ^^^ m <<< (bitLen v - n - 1)) < bitLen v := by
  have hv0 : v ≠ 0 := by
    intro h0; subst h0; simp [bitLen_zero] at h
  have hL64 : bitLen v ≤ 64 := bitLen_le_iff.2 hv
  obtain ⟨s, hs⟩ : ∃ s, bitLen v = n + 1 + s := ⟨bitLen v - n - 1, by omega⟩
  have hs' : bitLen v - n - 1 = s := by omega
  rw [hs']
  have hlo : 2 ^ (n + s) ≤ m <<< s := by
    rw [Nat.shiftLeft_eq, Nat.pow_add]; exact Nat.mul_le_mul_right _ hm1
  have hhi : m <<< s < 2 ^ (n + s + 1) := by
    rw [Nat.shiftLeft_eq, show n + s + 1 = (n + 1) + s by omega, Nat.pow_add]
    exact Nat.mul_lt_mul_of_pos_right hm2 (Nat.two_pow_pos s)
  have hvlo : 2 ^ (n + s) ≤ v := by
    have := two_pow_bitLen_pred_le hv0
    rwa [show bitLen v - 1 = n + s by omega] at this
  have hvhi : v < 2 ^ (n + s + 1) := by
    have := lt_two_pow_bitLen v
    rwa [show bitLen v = n + s + 1 by omega] at this
  constructor
  · apply w64_of_lt
    exact Nat.lt_of_lt_of_le hhi (Nat.pow_le_pow_right (by decide) (by omega))
  · have := xor_lt_of_same_top hvlo hvhi hlo hhi
    have := bitLen_le_iff.2 this
    omega

theorem reduce_loop {n m : Nat} (hm1 : 2 ^ n ≤ m) (hm2 : m < 2 ^ (n + 1)) (fuel : Nat) :
    ∀ v, v < 2 ^ 64 → bitLen v + 1 ≤ fuel →
    (go_binfield_Element_reduce_loop1 m n fuel (v, bitLen v)).1 = Bin.reduce n m v := by
  induction fuel with
  | zero => intro v _ h; omega
  | succ f ih =>
    intro v hv hf
    rw [Bin.reduce]
    have hL64 : bitLen v ≤ 64 := bitLen_le_64 hv
    by_cases h : bitLen v > n
    · obtain ⟨hw, hlt⟩ := reduce_step hm1 hm2 hv h
      have hv' : v ^^^ m <<< (bitLen v - n - 1) < 2 ^ 64 := by
        apply bitLen_le_iff.1
        omega
      have hsub : wsub (wsub (bitLen v) n) 1 = bitLen v - n - 1 := by
        rw [wsub_of_le (x := bitLen v) (y := n) (by omega) (by omega)]
        rw [wsub_of_le (by omega) (by omega)]
      simp only [go_binfield_Element_reduce_loop1, h, ↓reduceIte, ↓reduceDIte, hsub, hw, hlt,
        intToWord_bitLen hv']
      exact ih _ hv' (by omega)
    · simp only [go_binfield_Element_reduce_loop1, h, ↓reduceIte, ↓reduceDIte]

/-- parameter order of the translated function: `a.val`, `a.field.conwayPoly`, `a.field.extDeg` -/
theorem reduce {n m v : Nat} (hv : v < 2 ^ 64) (hm1 : 2 ^ n ≤ m) (hm2 : m < 2 ^ (n + 1)) :
    go_binfield_Element_reduce v m n = Bin.reduce n m v := by
  have := reduce_loop hm1 hm2 loopFuel v hv
    (by have := bitLen_le_64 hv; have : (65 : Nat) ≤ loopFuel := by decide
        omega)
  rw [← this]
  unfold go_binfield_Element_reduce
  simp only [intToWord_bitLen hv]

end CodeTiesProofs
end Algobra
