/-
  Proofs/Tables.lean — the tabled code paths of Model/Tables.lean compute what the untabled model
  computes (C18, concrete part).

  1. `OpsAgree F F' V` (two records are indistinguishable on the representations satisfying `V`) and
     `Closed F V` (the operations keep `V`); congruence of `powLoop` / `genericPow`.
  2. primefield: `addT`, `mulT`, `powT`, `multGeneratorT` equal their untabled counterparts on
     reduced words, for EVERY modulus `p` (`0 < p` only for the generator) — neither primality
     nor the `Define` guard `p - 1 < 2^32` is needed, because the closures that fill the tables are
     the very expressions of the untabled branches (wrap-around included).
  3. the Go map of `newLogTable` as an association list.
  4. the logarithm table over an arbitrary lawful record with a primitive generator.
  5. extfield: `Ext.mulT`, `Ext.invT`, `Ext.powT`, `Ext.traceT`.
  6. an expression language over the field operations.
  7. `step`/`runOps` of Model/Hist.lean on the element-level operations: environments whose field
     records agree give the same stores and replies.
-/
import Algobra.Model.Tables
import Algobra.Proofs.Assemble
import Algobra.Proofs.Strings
import Algobra.Proofs.Step
import Mathlib.Data.List.Induction

namespace Algobra
namespace Tables

/-! ## 1. agreement of records on valid representations -/

/-- `F'` cannot be told from `F` by any operation applied to representations satisfying `V`:
    the element-independent fields and the pure observers/constructors are EQUAL, the arithmetic
    operations agree on `V`. -/
structure OpsAgree {α : Type} (F F' : FOps α) (V : α → Prop) : Prop where
  char : F'.char = F.char
  card : F'.card = F.card
  zero : F'.zero = F.zero
  one : F'.one = F.one
  gen : F'.gen = F.gen
  add : ∀ a b, V a → V b → F'.add a b = F.add a b
  sub : ∀ a b, V a → V b → F'.sub a b = F.sub a b
  mul : ∀ a b, V a → V b → F'.mul a b = F.mul a b
  neg : ∀ a, V a → F'.neg a = F.neg a
  inv : ∀ a, V a → F'.inv a = F.inv a
  pow : ∀ a k, V a → F'.pow a k = F.pow a k
  trace : ∀ a, V a → F'.trace a = F.trace a
  isZero : F'.isZero = F.isZero
  isOne : F'.isOne = F.isOne
  beq : F'.beq = F.beq
  ofNat : F'.ofNat = F.ofNat
  ofInt : F'.ofInt = F.ofInt
  nTerms : F'.nTerms = F.nTerms
  toStr : F'.toStr = F.toStr
  parse : F'.parse = F.parse
  regex : F'.regex = F.regex
  enc : F'.enc = F.enc
  dec : F'.dec = F.dec
  ownVar : F'.ownVar = F.ownVar

theorem OpsAgree.refl {α : Type} (F : FOps α) (V : α → Prop) : OpsAgree F F V :=
  ⟨rfl, rfl, rfl, rfl, rfl, fun _ _ _ _ => rfl, fun _ _ _ _ => rfl, fun _ _ _ _ => rfl,
    fun _ _ => rfl, fun _ _ => rfl, fun _ _ _ => rfl, fun _ _ => rfl, rfl, rfl, rfl, rfl, rfl, rfl,
    rfl, rfl, rfl, rfl, rfl, rfl⟩

/-- the arithmetic of `F` keeps `V` -/
structure Closed {α : Type} (F : FOps α) (V : α → Prop) : Prop where
  zero : V F.zero
  one : V F.one
  gen : V F.gen
  add : ∀ a b, V a → V b → V (F.add a b)
  sub : ∀ a b, V a → V b → V (F.sub a b)
  mul : ∀ a b, V a → V b → V (F.mul a b)
  neg : ∀ a, V a → V (F.neg a)
  inv : ∀ a i, V a → F.inv a = some i → V i
  pow : ∀ a k, V a → V (F.pow a k)
  trace : ∀ a, V a → V (F.trace a)

/-- a lawful record with the facts of C01/C02/C03 is closed on its valid representations -/
theorem closed_of_facts {α K : Type} [Field K] {F : FOps α} {L : Lawful F K} {p n : Nat}
    (hL : Assemble.FieldFacts L p n) : Closed F L.valid where
  zero := L.zero_valid
  one := L.one_valid
  gen := hL.gen_valid
  add := L.add_valid
  sub := L.sub_valid
  mul := L.mul_valid
  neg := L.neg_valid
  inv := by
    intro a i ha hi
    by_cases h0 : L.embed a = 0
    · rw [L.inv_none a ha h0] at hi; cases hi
    · obtain ⟨j, hj, hv, -⟩ := L.inv_some a ha h0
      rw [hj] at hi
      cases hi
      exact hv
  pow := fun a k ha => (hL.pow a k ha).1
  trace := fun a ha => (hL.trace a ha).1

/-- square-and-multiply with two multiplications that agree on a set closed under one of them -/
theorem powLoop_congr {α : Type} (mul mul' : α → α → α) (V : α → Prop)
    (hv : ∀ x y, V x → V y → V (mul x y))
    (he : ∀ x y, V x → V y → mul' x y = mul x y) (n : Nat) :
    ∀ out b : α, V out → V b →
      powLoop mul' out b n = powLoop mul out b n ∧ V (powLoop mul out b n) := by
  induction n using Nat.strong_induction_on with
  | _ n ih =>
    intro out b ho hb
    rw [powLoop.eq_def mul' out b n, powLoop.eq_def mul out b n]
    by_cases h : n = 0
    · subst h; simpa using ho
    · rw [dif_neg h, dif_neg h]
      have hlt : n / 2 < n := by omega
      rw [he b b hb hb]
      by_cases hodd : n % 2 = 1
      · rw [if_pos hodd, if_pos hodd, he out b ho hb]
        exact ih (n / 2) hlt _ _ (hv out b ho hb) (hv b b hb hb)
      · rw [if_neg hodd, if_neg hodd]
        exact ih (n / 2) hlt _ _ ho (hv b b hb hb)

theorem genericPow_congr {α : Type} (card : Nat) (zero one : α) (isZero : α → Bool)
    (mul mul' : α → α → α) (V : α → Prop) (h1 : V one)
    (hv : ∀ x y, V x → V y → V (mul x y))
    (he : ∀ x y, V x → V y → mul' x y = mul x y) (a : α) (ha : V a) (n : Nat) :
    genericPow card zero one isZero mul' a n = genericPow card zero one isZero mul a n := by
  unfold genericPow
  split
  · rfl
  · exact (powLoop_congr mul mul' V hv he _ one a h1 ha).1

/-! ## 2. primefield -/

section Prime

theorem addT_eq {p a b : Nat} (ha : a < p) (hb : b < p) : Prime.addT p a b = Prime.add p a b := by
  unfold Prime.addT Prime.addWith Prime.addTable
  rw [Prime.lookup_newTable' _ ha hb (fun x y => by unfold Prime.addClosure; rw [Nat.add_comm])]
  rfl

theorem mulT_eq {p a b : Nat} (ha : a < p) (hb : b < p) : Prime.mulT p a b = Prime.mul p a b := by
  unfold Prime.mulT Prime.mulWith Prime.mulTable Prime.mul
  split
  · rfl
  · rw [Prime.lookup_newTable' _ ha hb (fun x y => by unfold Prime.mulClosure; rw [Nat.mul_comm])]
    rfl

theorem mul_lt {p : Nat} (hp : 0 < p) (a b : Nat) : Prime.mul p a b < p := by
  unfold Prime.mul
  split
  · exact hp
  · exact Nat.mod_lt _ hp

theorem powT_eq {p a : Nat} (hp : 0 < p) (ha : a < p) (n : Nat) :
    Prime.powT p a n = Prime.pow p a n := by
  unfold Prime.powT Prime.pow
  exact genericPow_congr p _ _ _ (Prime.mul p) (Prime.mulT p) (· < p)
    (Nat.mod_lt _ hp) (fun x y _ _ => mul_lt hp x y) (fun x y hx hy => mulT_eq hx hy) a ha n

theorem isGeneratorT_eq {p : Nat} (hp : 0 < p) (factors : List Nat) (i : Nat) :
    Prime.isGeneratorT p factors i = Prime.isGenerator p factors i := by
  unfold Prime.isGeneratorT Prime.isGenerator
  congr 1
  funext r
  rw [powT_eq hp (show Prime.element p i < p from Nat.mod_lt _ hp)]

theorem genSearchT_eq {p : Nat} (hp : 0 < p) (factors : List Nat) (fuel : Nat) :
    ∀ i, Prime.genSearchT p factors i fuel = Prime.genSearch p factors i fuel := by
  induction fuel with
  | zero => intro i; rfl
  | succ k ih =>
    intro i
    simp only [Prime.genSearchT, Prime.genSearch, isGeneratorT_eq hp, ih]

theorem multGeneratorT_eq {p : Nat} (hp : 0 < p) :
    Prime.multGeneratorT p = Prime.multGenerator p := by
  unfold Prime.multGeneratorT Prime.multGenerator
  rw [genSearchT_eq hp]

/-- the tabled record of a prime field is the untabled one on reduced words -/
theorem primeOpsT_agree {p : Nat} (hp : 0 < p) (addTab mulTab : Bool) :
    OpsAgree (primeOps p) (primeOpsT p addTab mulTab) (· < p) where
  char := rfl
  card := rfl
  zero := rfl
  one := rfl
  gen := by
    show (if mulTab then Prime.multGeneratorT p else Prime.multGenerator p) = Prime.multGenerator p
    cases mulTab
    · rfl
    · exact multGeneratorT_eq hp
  add := by
    intro a b ha hb
    show (if addTab then Prime.addT p else Prime.add p) a b = Prime.add p a b
    cases addTab
    · rfl
    · exact addT_eq ha hb
  sub := fun _ _ _ _ => rfl
  mul := by
    intro a b ha hb
    show (if mulTab then Prime.mulT p else Prime.mul p) a b = Prime.mul p a b
    cases mulTab
    · rfl
    · exact mulT_eq ha hb
  neg := fun _ _ => rfl
  inv := fun _ _ => rfl
  pow := by
    intro a k ha
    show (if mulTab then Prime.powT p else Prime.pow p) a k = Prime.pow p a k
    cases mulTab
    · rfl
    · exact powT_eq hp ha k
  trace := fun _ _ => rfl
  isZero := rfl
  isOne := rfl
  beq := rfl
  ofNat := rfl
  ofInt := rfl
  nTerms := rfl
  toStr := rfl
  parse := rfl
  regex := rfl
  enc := rfl
  dec := rfl
  ownVar := rfl

end Prime

/-! ## 3. the Go map of `newLogTable` -/

open LogT

theorem find_none_of_any_false (m : List (String × Nat)) (k : String)
    (h : (m.any (·.1 == k)) = false) : m.find? (·.1 == k) = none := by
  rw [List.find?_eq_none]
  intro x hx
  have := List.any_eq_false.1 h x hx
  simpa using this

theorem mapGet_upd (m : List (String × Nat)) (k k' : String) (v : Nat) :
    mapGet (m.map fun (k'', x) => if k'' == k then (k'', v) else (k'', x)) k'
      = if k' = k then (if m.any (·.1 == k) then v else 0) else mapGet m k' := by
  induction m with
  | nil => simp [mapGet]
  | cons x t ih =>
    obtain ⟨kx, vx⟩ := x
    unfold mapGet at ih ⊢
    by_cases hk : kx = k
    · subst hk
      by_cases hk' : k' = kx
      · subst hk'; simp
      · have : ¬ kx = k' := fun h => hk' h.symm
        simp [hk', this] at ih ⊢
        exact ih
    · by_cases hk' : k' = k
      · subst hk'
        have hb : (kx == k') = false := by simpa using hk
        rw [List.any_cons, hb, Bool.false_or]
        simp [hk] at ih ⊢
        exact ih
      · by_cases hx : kx = k'
        · subst hx; simp [hk]
        · simp [hk, hk', hx] at ih ⊢
          exact ih

theorem mapGet_mapSet (m : List (String × Nat)) (k k' : String) (v : Nat) :
    mapGet (mapSet m k v) k' = if k' = k then v else mapGet m k' := by
  unfold mapSet
  split
  · next h => rw [mapGet_upd, h]; simp
  · next h =>
    have h' := find_none_of_any_false m k (Bool.eq_false_iff.2 h)
    unfold mapGet
    rw [List.find?_append]
    by_cases hk : k' = k
    · subst hk; simp [h']
    · have : ¬ k = k' := fun h => hk h.symm
      cases hf : m.find? (·.1 == k') <;> simp [hk, this]

/-- the map built by the loop of `newLogTable` sends the key of the `i`-th entry to `i` when the
    keys are pairwise different -/
theorem mapGet_build {α : Type} (ts : α → String) (l : List α) (hnd : (l.map ts).Nodup) :
    ∀ i (hi : i < l.length),
      mapGet ((l.zipIdx).foldl (fun m (e, i) => mapSet m (ts e) i) []) (ts l[i]) = i := by
  induction l using List.reverseRecOn with
  | nil => intro i hi; simp at hi
  | append_singleton l x ih =>
    intro i hi
    rw [List.zipIdx_append, List.foldl_append]
    simp only [List.zipIdx_cons, List.zipIdx_nil, List.foldl_cons, List.foldl_nil, Nat.zero_add]
    rw [mapGet_mapSet]
    rw [List.map_append, List.nodup_append] at hnd
    obtain ⟨hnd1, -, hne⟩ := hnd
    rw [List.length_append, List.length_singleton] at hi
    by_cases hil : i < l.length
    · rw [List.getElem_append_left hil]
      have : ts l[i] ≠ ts x :=
        hne _ (List.mem_map.2 ⟨l[i], List.getElem_mem hil, rfl⟩) _ (by simp)
      rw [if_neg this]
      exact ih hnd1 i hil
    · have : i = l.length := by omega
      subst this
      simp

/-! ## 4. the logarithm table of a lawful record with a primitive generator -/

section Log
variable {α K : Type} [Field K] {F : FOps α}

/-- `gen^i` as `Elements()` computes it: `i` in-place multiplications of `One()` by the generator -/
abbrev pw (F : FOps α) (i : Nat) : α := (fun e => F.mul e F.gen)^[i] F.one

theorem powersLoop_eq (F : FOps α) : ∀ k e,
    powersLoop F k e = (List.range k).map fun i => (fun e => F.mul e F.gen)^[i] e := by
  intro k
  induction k with
  | zero => intro e; rfl
  | succ k ih =>
    intro e
    rw [powersLoop, ih, List.range_succ_eq_map, List.map_cons, List.map_map]
    rfl

/-- the model's `Elements()` is the enumeration `C03.elementsByGen` of C03/C01 -/
theorem elements_eq (F : FOps α) : elements F = C03.elementsByGen F := by
  unfold elements C03.elementsByGen
  rw [powersLoop_eq]

theorem invLog_eq (F : FOps α) : (newTable F).invLog = (List.range (F.card - 1)).map (pw F) := by
  show (elements F).drop 1 = _
  unfold elements
  rw [powersLoop_eq]
  rfl

variable (L : Lawful F K) {p n : Nat} (hL : Assemble.FieldFacts L p n)
include hL

theorem card_sub : F.card - 1 = p ^ n - 1 := by rw [hL.card_eq]

theorem pw_spec (i : Nat) : L.valid (pw F i) ∧ L.embed (pw F i) = L.embed F.gen ^ i :=
  Assemble.iterate_mul_gen L hL.gen_valid i

theorem pw_inj {i j : Nat} (hi : i < p ^ n - 1) (hj : j < p ^ n - 1) (h : pw F i = pw F j) :
    i = j := by
  have := congrArg L.embed h
  rw [(pw_spec L hL i).2, (pw_spec L hL j).2] at this
  rw [← hL.gen_order] at hi hj
  exact pow_injOn_Iio_orderOf (Set.mem_Iio.2 hi) (Set.mem_Iio.2 hj) this

/-- every nonzero valid representation is a power `gen^s`, `s < q - 1`, of the enumeration -/
theorem exists_log {a : α} (ha : L.valid a) (h0 : L.embed a ≠ 0) :
    ∃ s, s < p ^ n - 1 ∧ a = pw F s := by
  have hm := (hL.elements.2.2.2 a).2 ha
  unfold C03.elementsByGen at hm
  rcases List.mem_cons.1 hm with rfl | hm
  · exact absurd L.embed_zero h0
  · obtain ⟨s, hs, rfl⟩ := List.mem_map.1 hm
    exact ⟨s, by rw [← card_sub L hL]; exact List.mem_range.1 hs, rfl⟩

theorem lookupReverse_pw {i : Nat} (hi : i < p ^ n - 1) :
    lookupReverse F (newTable F) i = pw F i := by
  unfold lookupReverse
  rw [invLog_eq, card_sub L hL, List.getD_eq_getElem?_getD, List.getElem?_map,
    List.getElem?_range hi]
  rfl

variable (hinj : ∀ a b, L.valid a → L.valid b → F.toStr a = F.toStr b → a = b)
include hinj

theorem keys_nodup : ((newTable F).invLog.map F.toStr).Nodup := by
  rw [invLog_eq, card_sub L hL, List.map_map]
  apply List.Nodup.map_on _ List.nodup_range
  intro i hi j hj hij
  rw [List.mem_range] at hi hj
  exact pw_inj L hL hi hj (hinj _ _ (pw_spec L hL i).1 (pw_spec L hL j).1 hij)

/-- `log[String(gen^i)] = i` -/
theorem lookup_pw {i : Nat} (hi : i < p ^ n - 1) : lookup F (newTable F) (pw F i) = i := by
  have hlen : i < (newTable F).invLog.length := by
    rw [invLog_eq, List.length_map, List.length_range, card_sub L hL]; exact hi
  have hget : (newTable F).invLog[i] = pw F i := by
    have : (newTable F).invLog[i]? = some (pw F i) := by
      rw [invLog_eq, card_sub L hL, List.getElem?_map, List.getElem?_range hi]; rfl
    rw [List.getElem?_eq_getElem hlen] at this
    exact Option.some.inj this
  have := mapGet_build F.toStr (newTable F).invLog (keys_nodup L hL hinj) i hlen
  rw [hget] at this
  exact this

omit hinj in
theorem wsub_card (h64 : p ^ n < 2 ^ 64) : wsub F.card 1 = p ^ n - 1 := by
  rw [hL.card_eq]
  have := hL.two_le
  unfold wsub
  omega

/-- **tabled `Prod` = untabled `Prod`** on valid representations (zero tests included) -/
theorem mulWith_eq (hq : p ^ n ≤ 2 ^ 63) {b c : α} (hb : L.valid b) (hc : L.valid c) :
    mulWith F (newTable F) b c = F.mul b c := by
  have h2 := hL.two_le
  have hmv := L.mul_valid b c hb hc
  have hme := L.embed_mul b c hb hc
  unfold mulWith
  cases hzb : F.isZero b
  · cases hzc : F.isZero c
    · have hb0 := (L.isZero_false_iff b hb).1 hzb
      have hc0 := (L.isZero_false_iff c hc).1 hzc
      obtain ⟨s, hs, rfl⟩ := exists_log L hL hb hb0
      obtain ⟨t, ht, rfl⟩ := exists_log L hL hc hc0
      rw [Bool.false_or, if_neg (by simp), lookup_pw L hL hinj hs, lookup_pw L hL hinj ht,
        wsub_card L hL (by omega)]
      have hw : w64 (s + t) = s + t := by unfold w64; omega
      rw [hw]
      have hr : (s + t) % (p ^ n - 1) < p ^ n - 1 := Nat.mod_lt _ (by omega)
      rw [lookupReverse_pw L hL hr]
      apply L.inj _ _ (pw_spec L hL _).1 hmv
      rw [(pw_spec L hL _).2, hme, (pw_spec L hL s).2, (pw_spec L hL t).2]
      exact ExtField.log_mul hL.gen_order s t
    · rw [Bool.false_or, if_pos rfl]
      have hc0 := (L.isZero_iff c hc).1 hzc
      exact (L.eq_zero_of_embed _ hmv (by rw [hme, hc0, mul_zero])).symm
  · rw [Bool.true_or, if_pos rfl]
    have hb0 := (L.isZero_iff b hb).1 hzb
    exact (L.eq_zero_of_embed _ hmv (by rw [hme, hb0, zero_mul])).symm

/-- **tabled `Inv` = untabled `Inv`** on valid representations: zero → error (`none`), one → copy,
    otherwise `invLog[Card() - 1 - log a]` -/
theorem invWith_eq (h64 : p ^ n < 2 ^ 64) {a : α} (ha : L.valid a) :
    invWith F (newTable F) a = F.inv a := by
  have h2 := hL.two_le
  unfold invWith
  cases hz : F.isZero a
  · have ha0 := (L.isZero_false_iff a ha).1 hz
    obtain ⟨i, hi, hiv, hie⟩ := L.inv_some a ha ha0
    rw [if_neg (by simp), hi]
    cases ho : F.isOne a
    · rw [if_neg (by simp)]
      obtain ⟨s, hs, rfl⟩ := exists_log L hL ha ha0
      have hs0 : s ≠ 0 := by
        rintro rfl
        have : F.isOne (pw F 0) = true := (L.isOne_iff _ L.one_valid).2 L.embed_one
        rw [this] at ho
        cases ho
      rw [lookup_pw L hL hinj hs, wsub_card L hL h64]
      have hw : wsub (p ^ n - 1) s = p ^ n - 1 - s := by unfold wsub; omega
      rw [hw, lookupReverse_pw L hL (by omega)]
      congr 1
      apply L.inj _ _ (pw_spec L hL _).1 hiv
      rw [(pw_spec L hL _).2, hie, (pw_spec L hL s).2]
      exact eq_inv_of_mul_eq_one_left (ExtField.log_inv hL.gen_order (by omega))
    · rw [if_pos rfl]
      congr 1
      apply L.inj _ _ ha hiv
      have h1 := (L.isOne_iff a ha).1 ho
      rw [hie, h1, inv_one]
  · rw [if_pos rfl]
    exact (L.inv_none a ha ((L.isZero_iff a ha).1 hz)).symm

end Log
/-! ## 5. extfield -/

section Ext
variable {p n : Nat} {g : List Nat} {K : Type} [Field K] (L : Lawful (extOps p n g) K)
  (hL : Assemble.FieldFacts L p n)
  (hcanon : ∀ a, L.valid a → UPoly.Canon (primeOps p) a)
include hL

omit hL in
/-- the printed form (`String()`, the key of the Go map) is injective on valid elements -/
theorem ext_toStr_inj (hcanon : ∀ a, L.valid a → UPoly.Canon (primeOps p) a) :
    ∀ a b, L.valid a → L.valid b → (extOps p n g).toStr a = (extOps p n g).toStr b → a = b :=
  fun a b ha hb h =>
    Strings.utoStr_injective (v := "a") (x := 'a') (vt := []) (by decide) (by decide) (by decide)
      (hcanon a ha) (hcanon b hb) h

include hcanon

/-- tabled `Prod` of extfield = `Ext.mul` -/
theorem ext_mulT_eq (hq : p ^ n ≤ 2 ^ 63) {b c : UPoly Nat} (hb : L.valid b) (hc : L.valid c) :
    Ext.mulT p n g b c = Ext.mul p g b c :=
  mulWith_eq L hL (ext_toStr_inj L hcanon) hq hb hc

/-- tabled `Inv` of extfield = `Ext.inv` -/
theorem ext_invT_eq (h64 : p ^ n < 2 ^ 64) {a : UPoly Nat} (ha : L.valid a) :
    Ext.invT p n g a = Ext.inv p g a :=
  invWith_eq L hL (ext_toStr_inj L hcanon) h64 ha

/-- tabled `Pow` of extfield = `Ext.pow` -/
theorem ext_powT_eq (hq : p ^ n ≤ 2 ^ 63) {a : UPoly Nat} (ha : L.valid a) (k : Nat) :
    Ext.powT p n g a k = Ext.pow p n g a k := by
  unfold Ext.powT Ext.pow
  exact genericPow_congr _ _ _ _ (Ext.mul p g) (Ext.mulT p n g) L.valid L.one_valid
    L.mul_valid (fun x y hx hy => ext_mulT_eq L hL hcanon hq hx hy) a ha k

theorem ext_traceLoopT_eq (hq : p ^ n ≤ 2 ^ 63) {a : UPoly Nat} (ha : L.valid a) (k : Nat) :
    ∀ out, L.valid out → Ext.traceLoopT p n g a out k = Ext.traceLoop p n g a out k := by
  induction k with
  | zero => intro out _; rfl
  | succ k ih =>
    intro out ho
    rw [Ext.traceLoopT, Ext.traceLoop, ext_powT_eq L hL hcanon hq ho]
    exact ih _ (L.add_valid _ _ (hL.pow out p ho).1 ha)

/-- tabled `Trace` of extfield = `Ext.trace` -/
theorem ext_traceT_eq (hq : p ^ n ≤ 2 ^ 63) {a : UPoly Nat} (ha : L.valid a) :
    Ext.traceT p n g a = Ext.trace p n g a :=
  ext_traceLoopT_eq L hL hcanon hq ha _ a ha

/-- the tabled record of an extension field is the untabled one on valid elements -/
theorem extOpsT_agree (hq : p ^ n ≤ 2 ^ 63) (tab : Bool) :
    OpsAgree (extOps p n g) (extOpsT p n g tab) L.valid := by
  cases tab
  · exact OpsAgree.refl _ _
  · exact
      { char := rfl, card := rfl, zero := rfl, one := rfl, gen := rfl
        add := fun _ _ _ _ => rfl
        sub := fun _ _ _ _ => rfl
        mul := fun a b ha hb => ext_mulT_eq L hL hcanon hq ha hb
        neg := fun _ _ => rfl
        inv := fun a ha => ext_invT_eq L hL hcanon (lt_of_le_of_lt hq (by norm_num)) ha
        pow := fun a k ha => ext_powT_eq L hL hcanon hq ha k
        trace := fun a ha => ext_traceT_eq L hL hcanon hq ha
        isZero := rfl, isOne := rfl, beq := rfl, ofNat := rfl, ofInt := rfl, nTerms := rfl
        toStr := rfl, parse := rfl, regex := rfl, enc := rfl, dec := rfl, ownVar := rfl }

end Ext

/-! ## 6. expressions over the field operations -/

/-- terms built from registers and the element operations of `ff.Element`
    (`Zero One MultGenerator Plus Minus Times Neg Inv Pow Trace`) -/
inductive Expr where
  | reg (k : Nat)
  | zero | one | gen
  | add (a b : Expr) | sub (a b : Expr) | mul (a b : Expr)
  | neg (a : Expr) | inv (a : Expr) | pow (a : Expr) (k : Nat) | trace (a : Expr)

/-- value of a term in the record `F`; `none` = an `Inv()` of zero occurred (the InputValue error
    of the code, which every later operation hands on) -/
def Expr.eval {α : Type} (F : FOps α) (ρ : Nat → α) : Expr → Option α
  | .reg k => some (ρ k)
  | .zero => some F.zero
  | .one => some F.one
  | .gen => some F.gen
  | .add a b => (a.eval F ρ).bind fun x => (b.eval F ρ).map fun y => F.add x y
  | .sub a b => (a.eval F ρ).bind fun x => (b.eval F ρ).map fun y => F.sub x y
  | .mul a b => (a.eval F ρ).bind fun x => (b.eval F ρ).map fun y => F.mul x y
  | .neg a => (a.eval F ρ).map F.neg
  | .inv a => (a.eval F ρ).bind F.inv
  | .pow a k => (a.eval F ρ).map fun x => F.pow x k
  | .trace a => (a.eval F ρ).map F.trace

/-- two records that agree on a closed set evaluate every term alike (value and error status),
    and the value stays in the set -/
theorem Expr.eval_agree {α : Type} {F F' : FOps α} {V : α → Prop} (hA : OpsAgree F F' V)
    (hC : Closed F V) (ρ : Nat → α) (hρ : ∀ k, V (ρ k)) (e : Expr) :
    e.eval F' ρ = e.eval F ρ ∧ ∀ v, e.eval F ρ = some v → V v := by
  induction e with
  | reg k => exact ⟨rfl, fun v h => by cases h; exact hρ k⟩
  | zero => exact ⟨by simp only [Expr.eval, hA.zero], fun v h => by cases h; exact hC.zero⟩
  | one => exact ⟨by simp only [Expr.eval, hA.one], fun v h => by cases h; exact hC.one⟩
  | gen => exact ⟨by simp only [Expr.eval, hA.gen], fun v h => by cases h; exact hC.gen⟩
  | add a b iha ihb =>
    simp only [Expr.eval, iha.1, ihb.1]
    cases ha : a.eval F ρ with
    | none => simp
    | some x =>
      cases hb : b.eval F ρ with
      | none => simp
      | some y =>
        have hx := iha.2 x ha; have hy := ihb.2 y hb
        simp only [Option.bind_some, Option.map_some, hA.add x y hx hy, true_and]
        intro v h; cases h; exact hC.add x y hx hy
  | sub a b iha ihb =>
    simp only [Expr.eval, iha.1, ihb.1]
    cases ha : a.eval F ρ with
    | none => simp
    | some x =>
      cases hb : b.eval F ρ with
      | none => simp
      | some y =>
        have hx := iha.2 x ha; have hy := ihb.2 y hb
        simp only [Option.bind_some, Option.map_some, hA.sub x y hx hy, true_and]
        intro v h; cases h; exact hC.sub x y hx hy
  | mul a b iha ihb =>
    simp only [Expr.eval, iha.1, ihb.1]
    cases ha : a.eval F ρ with
    | none => simp
    | some x =>
      cases hb : b.eval F ρ with
      | none => simp
      | some y =>
        have hx := iha.2 x ha; have hy := ihb.2 y hb
        simp only [Option.bind_some, Option.map_some, hA.mul x y hx hy, true_and]
        intro v h; cases h; exact hC.mul x y hx hy
  | neg a iha =>
    simp only [Expr.eval, iha.1]
    cases ha : a.eval F ρ with
    | none => simp
    | some x =>
      have hx := iha.2 x ha
      simp only [Option.map_some, hA.neg x hx, true_and]
      intro v h; cases h; exact hC.neg x hx
  | inv a iha =>
    simp only [Expr.eval, iha.1]
    cases ha : a.eval F ρ with
    | none => simp
    | some x =>
      have hx := iha.2 x ha
      simp only [Option.bind_some, hA.inv x hx, true_and]
      intro v h; exact hC.inv x v hx h
  | pow a k iha =>
    simp only [Expr.eval, iha.1]
    cases ha : a.eval F ρ with
    | none => simp
    | some x =>
      have hx := iha.2 x ha
      simp only [Option.map_some, hA.pow x k hx, true_and]
      intro v h; cases h; exact hC.pow x k hx
  | trace a iha =>
    simp only [Expr.eval, iha.1]
    cases ha : a.eval F ρ with
    | none => simp
    | some x =>
      have hx := iha.2 x ha
      simp only [Option.map_some, hA.trace x hx, true_and]
      intro v h; cases h; exact hC.trace x hx

/-! ## 7. histories of element-level operations (`step` of Model/Hist.lean) -/

/-- the element-level operations of the line protocol whose results stay valid without any
    assumption on the constructors that read external data (`u s str enc`, `SetUnsigned`) -/
def elemOp : Op → Bool
  | .eCtor _ _ how _ => how == "zero" || how == "one" || how == "gen" || how == "foreign"
  | .eBin .. | .eUn .. | .ePow .. | .eIn .. | .eProd .. | .eSetNeg _ | .eEq .. | .eShow _ => true
  | .tables .. => true
  | _ => false

section Step
variable {α : Type} {env env' : Env α} {V : Nat → α → Prop}

/-- two environments whose field objects agree (index by index) on closed sets `V i` -/
structure EnvAgree (env env' : Env α) (V : Nat → α → Prop) : Prop where
  agree : ∀ i, OpsAgree (env.fld i) (env'.fld i) (V i)
  closed : ∀ i, Closed (env.fld i) (V i)

/-- every element register holds a valid representation of its home field -/
def StoreOK (V : Nat → α → Prop) (s : St α) : Prop :=
  ∀ k r, St.getL s.es k = some r → V r.home r.val

theorem StoreOK.setE {s : St α} (hs : StoreOK V s) (d : Nat) (r : EReg α) (hr : V r.home r.val) :
    StoreOK V { s with es := St.setL s.es d r } := by
  intro k r' hk
  rw [St.getL_setL] at hk
  split at hk
  · cases hk; exact hr
  · exact hs k r' hk

variable (h : EnvAgree env env' V)
include h

theorem showE_eq (r : EReg α) : showE env' r = showE env r := by
  unfold showE fld
  rw [(h.agree r.home).enc]

theorem eGet_eq (s : St α) (k : Nat) : eGet env' s k = eGet env s k := by
  unfold eGet F0
  rw [(h.agree 0).zero]

theorem eGet_ok {s : St α} (hs : StoreOK V s) (k : Nat) : V (eGet env s k).home (eGet env s k).val := by
  unfold eGet
  cases hg : St.getL s.es k with
  | none => exact (h.closed 0).zero
  | some r => exact hs k r hg

theorem eCheck_eq (a b : EReg α) : eCheck env' a b = eCheck env a b := by
  unfold eCheck fld
  rw [(h.agree a.home).zero]

theorem eBinFn_eq (i : Nat) (op : String) (x y : α) (hx : V i x) (hy : V i y) :
    eBinFn (env'.fld i) op x y = eBinFn (env.fld i) op x y ∧ V i (eBinFn (env.fld i) op x y) := by
  unfold eBinFn
  split
  · exact ⟨(h.agree i).add x y hx hy, (h.closed i).add x y hx hy⟩
  · split
    · exact ⟨(h.agree i).sub x y hx hy, (h.closed i).sub x y hx hy⟩
    · exact ⟨(h.agree i).mul x y hx hy, (h.closed i).mul x y hx hy⟩

theorem eInPlace_eq (op : String) (a b : EReg α) (ha : V a.home a.val) (hb : V b.home b.val) :
    eInPlace env' op a b = eInPlace env op a b ∧
      V (eInPlace env op a b).1.home (eInPlace env op a b).1.val ∧
      V (eInPlace env op a b).2.1.home (eInPlace env op a b).2.1.val := by
  unfold eInPlace
  rw [eCheck_eq h]
  unfold eCheck
  by_cases h1 : b.foreign = true
  · rw [if_pos h1]; exact ⟨rfl, ha, ha⟩
  · rw [if_neg h1]
    by_cases h2 : a.err.isErr = true
    · rw [if_pos h2]; exact ⟨rfl, ha, ha⟩
    · rw [if_neg h2]
      by_cases h3 : b.err.isErr = true
      · rw [if_pos h3]; exact ⟨rfl, ha, hb⟩
      · rw [if_neg h3]
        by_cases h4 : a.home ≠ b.home
        · rw [if_pos h4]
          exact ⟨rfl, ha, (h.closed a.home).zero⟩
        · rw [if_neg h4]
          have hab : a.home = b.home := not_not.1 h4
          obtain ⟨e1, e2⟩ := eBinFn_eq h a.home op a.val b.val ha (hab ▸ hb)
          show (_ : EReg α × EReg α × Bool) = _ ∧ _
          simp only [fld]
          rw [e1]
          exact ⟨rfl, e2, e2⟩

theorem eProdFn_eq (a b c : EReg α) (bIsA cIsA : Bool) (ha : V a.home a.val) (hb : V b.home b.val)
    (hc : V c.home c.val) :
    eProdFn env' a b c bIsA cIsA = eProdFn env a b c bIsA cIsA ∧
      V (eProdFn env a b c bIsA cIsA).1.home (eProdFn env a b c bIsA cIsA).1.val ∧
      V (eProdFn env a b c bIsA cIsA).2.1.home (eProdFn env a b c bIsA cIsA).2.1.val := by
  unfold eProdFn
  by_cases h1 : (b.foreign || c.foreign) = true
  · rw [if_pos h1, if_pos h1]; exact ⟨rfl, ha, ha⟩
  · rw [if_neg h1, if_neg h1]
    by_cases h2 : b.err.isErr = true
    · rw [if_pos h2, if_pos h2]
      cases bIsA
      · exact ⟨rfl, ha, hb⟩
      · exact ⟨rfl, hb, hb⟩
    · rw [if_neg h2, if_neg h2]
      by_cases h3 : c.err.isErr = true
      · rw [if_pos h3, if_pos h3]
        cases cIsA
        · exact ⟨rfl, ha, hc⟩
        · exact ⟨rfl, hc, hc⟩
      · rw [if_neg h3, if_neg h3]
        by_cases h4 : b.home ≠ c.home
        · rw [if_pos h4, if_pos h4]
          simp only [fld]
          rw [(h.agree b.home).zero]
          exact ⟨rfl, ha, (h.closed b.home).zero⟩
        · rw [if_neg h4, if_neg h4]
          have hbc : b.home = c.home := not_not.1 h4
          simp only [fld]
          rw [(h.agree b.home).mul b.val c.val hb (hbc ▸ hc)]
          have := (h.closed b.home).mul b.val c.val hb (hbc ▸ hc)
          exact ⟨rfl, this, this⟩

theorem eBinRes_eq {s : St α} (hs : StoreOK V s) (op : String) (a b : Nat) :
    eBinRes env' s op a b = eBinRes env s op a b ∧
      V (eBinRes env s op a b).1.home (eBinRes env s op a b).1.val ∧
      V (eBinRes env s op a b).2.1.home (eBinRes env s op a b).2.1.val := by
  unfold eBinRes
  rw [eGet_eq h, eGet_eq h]
  split
  · exact eProdFn_eq h _ _ _ _ _ (eGet_ok h hs a) (eGet_ok h hs a) (eGet_ok h hs b)
  · exact eInPlace_eq h _ _ _ (eGet_ok h hs a) (eGet_ok h hs b)

theorem eInRes_eq {s : St α} (hs : StoreOK V s) (op : String) (a b : Nat) :
    eInRes env' s op a b = eInRes env s op a b ∧
      V (eInRes env s op a b).1.home (eInRes env s op a b).1.val ∧
      V (eInRes env s op a b).2.1.home (eInRes env s op a b).2.1.val := by
  unfold eInRes
  rw [eGet_eq h, eGet_eq h]
  split
  · exact eProdFn_eq h _ _ _ _ _ (eGet_ok h hs a) (eGet_ok h hs a) (eGet_ok h hs b)
  · exact eInPlace_eq h _ _ _ (eGet_ok h hs a) (eGet_ok h hs b)

theorem eProdRes_eq {s : St α} (hs : StoreOK V s) (a b c : Nat) :
    eProdRes env' s a b c = eProdRes env s a b c ∧
      V (eProdRes env s a b c).1.home (eProdRes env s a b c).1.val ∧
      V (eProdRes env s a b c).2.1.home (eProdRes env s a b c).2.1.val := by
  unfold eProdRes
  rw [eGet_eq h, eGet_eq h, eGet_eq h]
  exact eProdFn_eq h _ _ _ _ _ (eGet_ok h hs a) (eGet_ok h hs b) (eGet_ok h hs c)

theorem ePowRes_eq {s : St α} (hs : StoreOK V s) (a n : Nat) :
    ePowRes env' s a n = ePowRes env s a n ∧ V (ePowRes env s a n).home (ePowRes env s a n).val := by
  unfold ePowRes
  rw [eGet_eq h]
  have ha := eGet_ok h hs a
  simp only [fld]
  split
  · exact ⟨rfl, ha⟩
  · rw [(h.agree _).pow _ n ha]
    exact ⟨rfl, (h.closed _).pow _ n ha⟩

theorem eUnRes_eq {s : St α} (hs : StoreOK V s) (op : String) (a : Nat) :
    eUnRes env' s op a = eUnRes env s op a ∧ V (eUnRes env s op a).home (eUnRes env s op a).val := by
  unfold eUnRes
  rw [eGet_eq h]
  have ha := eGet_ok h hs a
  simp only [fld]
  split
  · exact ⟨rfl, ha⟩
  · split
    · rw [(h.agree _).neg _ ha]; exact ⟨rfl, (h.closed _).neg _ ha⟩
    · split
      · split
        · exact ⟨rfl, ha⟩
        · rw [(h.agree _).trace _ ha]; exact ⟨rfl, (h.closed _).trace _ ha⟩
      · split
        · exact ⟨rfl, ha⟩
        · rw [(h.agree _).inv _ ha, (h.agree _).zero]
          cases hi : (env.fld (eGet env s a).home).inv (eGet env s a).val with
          | none => exact ⟨rfl, (h.closed _).zero⟩
          | some v => exact ⟨rfl, (h.closed _).inv _ v ha hi⟩

/-- one element-level operation: same new store, same reply, and the store stays valid -/
theorem step_elem_agree (desc : FieldDesc) {s : St α} (hs : StoreOK V s) (op : Op)
    (hop : elemOp op = true) :
    step env' desc s op = step env desc s op ∧ StoreOK V (step env desc s op).1 := by
  cases op <;> try (simp only [elemOp, Bool.false_eq_true] at hop; done)
  case eCtor dst f how arg =>
    simp only [elemOp, Bool.or_eq_true, beq_iff_eq] at hop
    have key : ∀ v v' : α, v' = v → V f v →
        (({ s with es := St.setL s.es dst { home := f, val := v' } },
          "ok " ++ showE env' ({ home := f, val := v' } : EReg α)) : St α × String)
        = ({ s with es := St.setL s.es dst { home := f, val := v } },
          "ok " ++ showE env ({ home := f, val := v } : EReg α)) ∧
        StoreOK V { s with es := St.setL s.es dst ({ home := f, val := v } : EReg α) } := by
      intro v v' e hv
      subst e
      exact ⟨by rw [showE_eq h], hs.setE dst _ hv⟩
    rcases hop with ((rfl | rfl) | rfl) | rfl
    · exact key (env.fld f).zero (env'.fld f).zero (h.agree f).zero (h.closed f).zero
    · exact key (env.fld f).one (env'.fld f).one (h.agree f).one (h.closed f).one
    · exact key (env.fld f).gen (env'.fld f).gen (h.agree f).gen (h.closed f).gen
    · refine ⟨?_, hs.setE dst { home := f, val := (env.fld f).zero, foreign := true } (h.closed f).zero⟩
      show (({ s with es := St.setL s.es dst { home := f, val := (env'.fld f).zero, foreign := true } },
        "ok foreign") : St α × String) = _
      rw [(h.agree f).zero]
      rfl
  case eBin dst o a b =>
    obtain ⟨e, -, hv⟩ := eBinRes_eq h hs o a b
    rw [step_eBin, step_eBin, e, showE_eq h]
    exact ⟨rfl, hs.setE _ _ hv⟩
  case eUn dst o a =>
    obtain ⟨e, hv⟩ := eUnRes_eq h hs o a
    rw [step_eUn, step_eUn, e, showE_eq h]
    exact ⟨rfl, hs.setE _ _ hv⟩
  case ePow dst a n =>
    obtain ⟨e, hv⟩ := ePowRes_eq h hs a n
    rw [step_ePow, step_ePow, e, showE_eq h]
    exact ⟨rfl, hs.setE _ _ hv⟩
  case eIn o a b =>
    obtain ⟨e, hv, -⟩ := eInRes_eq h hs o a b
    rw [step_eIn, step_eIn, e, showE_eq h]
    exact ⟨rfl, hs.setE _ _ hv⟩
  case eProd a b c =>
    obtain ⟨e, hv, -⟩ := eProdRes_eq h hs a b c
    rw [step_eProd, step_eProd, e, showE_eq h]
    exact ⟨rfl, hs.setE _ _ hv⟩
  case eSetNeg a =>
    have ha := eGet_ok h hs a
    rw [step_eSetNeg, step_eSetNeg]
    simp only [fld, eGet_eq h, showE_eq h]
    rw [(h.agree _).neg _ ha]
    exact ⟨rfl, hs.setE _ _ ((h.closed _).neg _ ha)⟩
  case eEq a b =>
    refine ⟨?_, hs⟩
    show ((s, "eq " ++ toString (!(eGet env' s a).foreign && !(eGet env' s b).foreign &&
        (eGet env' s a).home == (eGet env' s b).home &&
        (fld env' (eGet env' s a).home).beq (eGet env' s a).val (eGet env' s b).val)) : St α × String) = _
    simp only [fld, eGet_eq h, (h.agree _).beq]
    rfl
  case eShow a =>
    refine ⟨?_, hs⟩
    show ((s, "show z=" ++ toString ((fld env' (eGet env' s a).home).isZero (eGet env' s a).val) ++ " o=" ++
        toString ((fld env' (eGet env' s a).home).isOne (eGet env' s a).val) ++
        " n=" ++ toString ((fld env' (eGet env' s a).home).nTerms (eGet env' s a).val) ++ " s=" ++
        (fld env' (eGet env' s a).home).toStr (eGet env' s a).val) : St α × String) = _
    simp only [fld, eGet_eq h, (h.agree _).isZero, (h.agree _).isOne, (h.agree _).nTerms,
      (h.agree _).toStr]
    rfl
  case tables f a m mm =>
    exact ⟨rfl, fun k r hk => hs k r (by rw [(step_tables_regEq env desc s (.tables f a m mm) rfl).1]; exact hk)⟩

/-- a whole history of element-level operations and table requests: same replies, same stores -/
theorem runOps_elem_agree (desc : FieldDesc) (ops : List Op) (hops : ∀ op ∈ ops, elemOp op = true) :
    ∀ {s : St α}, StoreOK V s → runOps env' desc s ops = runOps env desc s ops := by
  induction ops with
  | nil => intro s _; rfl
  | cons op t ih =>
    intro s hs
    obtain ⟨e, hs'⟩ := step_elem_agree h desc hs op (hops op List.mem_cons_self)
    simp only [runOps]
    rw [e, ih (fun o ho => hops o (List.mem_cons_of_mem _ ho)) hs']

end Step
end Tables
end Algobra
