/-
  Proofs/Tables.lean — the tabled code paths of Model/Tables.lean compute what the untabled model
  computes (C18, concrete part).

  1. `OpsAgree F F' V` (two records are indistinguishable on the representations satisfying `V`) and
     `Closed F V` (the operations keep `V`); congruence of `powLoop` / `genericPow`.
  2. primefield: `addT`, `mulT`, `powT`, `multGeneratorT` equal their untabled counterparts on
     reduced words, for EVERY modulus `p` (`0 < p` only for the generator) — neither primality
     nor the `Define` guard `p - 1 < 2^32` is needed, because the closures that fill the tables are
     the very expressions of the untabled branches (wrap-around included).
  3. the Go map of `newLogTable` as an association list.
  4. the logarithm table over an arbitrary lawful record with a primitive generator.
  5. extfield: `Ext.mulT`, `Ext.invT`, `Ext.powT`, `Ext.traceT`.
-/
import Algobra.Model.Tables
import Algobra.Proofs.Assemble
import Algobra.Proofs.Strings

namespace Algobra
namespace Tables

/-! ## 1. agreement of records on valid representations -/

/-- `F'` cannot be told from `F` by any operation applied to representations satisfying `V`:
    the element-independent fields and the pure observers/constructors are EQUAL, the arithmetic
    operations agree on `V`. -/
structure OpsAgree {α : Type} (F F' : FOps α) (V : α → Prop) : Prop where
  char : F'.char = F.char
  card : F'.card = F.card
  zero : F'.zero = F.zero
  one : F'.one = F.one
  gen : F'.gen = F.gen
  add : ∀ a b, V a → V b → F'.add a b = F.add a b
  sub : ∀ a b, V a → V b → F'.sub a b = F.sub a b
  mul : ∀ a b, V a → V b → F'.mul a b = F.mul a b
  neg : ∀ a, V a → F'.neg a = F.neg a
  inv : ∀ a, V a → F'.inv a = F.inv a
  pow : ∀ a k, V a → F'.pow a k = F.pow a k
  trace : ∀ a, V a → F'.trace a = F.trace a
  isZero : F'.isZero = F.isZero
  isOne : F'.isOne = F.isOne
  beq : F'.beq = F.beq
  ofNat : F'.ofNat = F.ofNat
  ofInt : F'.ofInt = F.ofInt
  nTerms : F'.nTerms = F.nTerms
  toStr : F'.toStr = F.toStr
  parse : F'.parse = F.parse
  regex : F'.regex = F.regex
  enc : F'.enc = F.enc
  dec : F'.dec = F.dec
  ownVar : F'.ownVar = F.ownVar

theorem OpsAgree.refl {α : Type} (F : FOps α) (V : α → Prop) : OpsAgree F F V :=
  ⟨rfl, rfl, rfl, rfl, rfl, fun _ _ _ _ => rfl, fun _ _ _ _ => rfl, fun _ _ _ _ => rfl,
    fun _ _ => rfl, fun _ _ => rfl, fun _ _ _ => rfl, fun _ _ => rfl, rfl, rfl, rfl, rfl, rfl, rfl,
    rfl, rfl, rfl, rfl, rfl, rfl⟩

/-- the arithmetic of `F` keeps `V` -/
structure Closed {α : Type} (F : FOps α) (V : α → Prop) : Prop where
  zero : V F.zero
  one : V F.one
  gen : V F.gen
  add : ∀ a b, V a → V b → V (F.add a b)
  sub : ∀ a b, V a → V b → V (F.sub a b)
  mul : ∀ a b, V a → V b → V (F.mul a b)
  neg : ∀ a, V a → V (F.neg a)
  inv : ∀ a i, V a → F.inv a = some i → V i
  pow : ∀ a k, V a → V (F.pow a k)
  trace : ∀ a, V a → V (F.trace a)

/-- a lawful record with the facts of C01/C02/C03 is closed on its valid representations -/
theorem closed_of_facts {α K : Type} [Field K] {F : FOps α} {L : Lawful F K} {p n : Nat}
    (hL : Assemble.FieldFacts L p n) : Closed F L.valid where
  zero := L.zero_valid
  one := L.one_valid
  gen := hL.gen_valid
  add := L.add_valid
  sub := L.sub_valid
  mul := L.mul_valid
  neg := L.neg_valid
  inv := by
    intro a i ha hi
    by_cases h0 : L.embed a = 0
    · rw [L.inv_none a ha h0] at hi; cases hi
    · obtain ⟨j, hj, hv, -⟩ := L.inv_some a ha h0
      rw [hj] at hi
      cases hi
      exact hv
  pow := fun a k ha => (hL.pow a k ha).1
  trace := fun a ha => (hL.trace a ha).1

/-- square-and-multiply with two multiplications that agree on a set closed under one of them -/
theorem powLoop_congr {α : Type} (mul mul' : α → α → α) (V : α → Prop)
    (hv : ∀ x y, V x → V y → V (mul x y))
    (he : ∀ x y, V x → V y → mul' x y = mul x y) (n : Nat) :
    ∀ out b : α, V out → V b →
      powLoop mul' out b n = powLoop mul out b n ∧ V (powLoop mul out b n) := by
  induction n using Nat.strong_induction_on with
  | _ n ih =>
    intro out b ho hb
    rw [powLoop.eq_def mul' out b n, powLoop.eq_def mul out b n]
    by_cases h : n = 0
    · subst h; simpa using ho
    · rw [dif_neg h, dif_neg h]
      have hlt : n / 2 < n := by omega
      rw [he b b hb hb]
      by_cases hodd : n % 2 = 1
      · rw [if_pos hodd, if_pos hodd, he out b ho hb]
        exact ih (n / 2) hlt _ _ (hv out b ho hb) (hv b b hb hb)
      · rw [if_neg hodd, if_neg hodd]
        exact ih (n / 2) hlt _ _ ho (hv b b hb hb)

theorem genericPow_congr {α : Type} (card : Nat) (zero one : α) (isZero : α → Bool)
    (mul mul' : α → α → α) (V : α → Prop) (h1 : V one)
    (hv : ∀ x y, V x → V y → V (mul x y))
    (he : ∀ x y, V x → V y → mul' x y = mul x y) (a : α) (ha : V a) (n : Nat) :
    genericPow card zero one isZero mul' a n = genericPow card zero one isZero mul a n := by
  unfold genericPow
  split
  · rfl
  · exact (powLoop_congr mul mul' V hv he _ one a h1 ha).1

/-! ## 2. primefield -/

section Prime

theorem addT_eq {p a b : Nat} (ha : a < p) (hb : b < p) : Prime.addT p a b = Prime.add p a b := by
  unfold Prime.addT Prime.addWith Prime.addTable
  rw [Prime.lookup_newTable' _ ha hb (fun x y => by unfold Prime.addClosure; rw [Nat.add_comm])]
  rfl

theorem mulT_eq {p a b : Nat} (ha : a < p) (hb : b < p) : Prime.mulT p a b = Prime.mul p a b := by
  unfold Prime.mulT Prime.mulWith Prime.mulTable Prime.mul
  split
  · rfl
  · rw [Prime.lookup_newTable' _ ha hb (fun x y => by unfold Prime.mulClosure; rw [Nat.mul_comm])]
    rfl

theorem mul_lt {p : Nat} (hp : 0 < p) (a b : Nat) : Prime.mul p a b < p := by
  unfold Prime.mul
  split
  · exact hp
  · exact Nat.mod_lt _ hp

theorem powT_eq {p a : Nat} (hp : 0 < p) (ha : a < p) (n : Nat) :
    Prime.powT p a n = Prime.pow p a n := by
  unfold Prime.powT Prime.pow
  exact genericPow_congr p _ _ _ (Prime.mul p) (Prime.mulT p) (· < p)
    (Nat.mod_lt _ hp) (fun x y _ _ => mul_lt hp x y) (fun x y hx hy => mulT_eq hx hy) a ha n

theorem isGeneratorT_eq {p : Nat} (hp : 0 < p) (factors : List Nat) (i : Nat) :
    Prime.isGeneratorT p factors i = Prime.isGenerator p factors i := by
  unfold Prime.isGeneratorT Prime.isGenerator
  congr 1
  funext r
  rw [powT_eq hp (show Prime.element p i < p from Nat.mod_lt _ hp)]

theorem genSearchT_eq {p : Nat} (hp : 0 < p) (factors : List Nat) (fuel : Nat) :
    ∀ i, Prime.genSearchT p factors i fuel = Prime.genSearch p factors i fuel := by
  induction fuel with
  | zero => intro i; rfl
  | succ k ih =>
    intro i
    simp only [Prime.genSearchT, Prime.genSearch, isGeneratorT_eq hp, ih]

theorem multGeneratorT_eq {p : Nat} (hp : 0 < p) :
    Prime.multGeneratorT p = Prime.multGenerator p := by
  unfold Prime.multGeneratorT Prime.multGenerator
  rw [genSearchT_eq hp]

/-- the tabled record of a prime field is the untabled one on reduced words -/
theorem primeOpsT_agree {p : Nat} (hp : 0 < p) (addTab mulTab : Bool) :
    OpsAgree (primeOps p) (primeOpsT p addTab mulTab) (· < p) where
  char := rfl
  card := rfl
  zero := rfl
  one := rfl
  gen := by
    show (if mulTab then Prime.multGeneratorT p else Prime.multGenerator p) = Prime.multGenerator p
    cases mulTab
    · rfl
    · exact multGeneratorT_eq hp
  add := by
    intro a b ha hb
    show (if addTab then Prime.addT p else Prime.add p) a b = Prime.add p a b
    cases addTab
    · rfl
    · exact addT_eq ha hb
  sub := fun _ _ _ _ => rfl
  mul := by
    intro a b ha hb
    show (if mulTab then Prime.mulT p else Prime.mul p) a b = Prime.mul p a b
    cases mulTab
    · rfl
    · exact mulT_eq ha hb
  neg := fun _ _ => rfl
  inv := fun _ _ => rfl
  pow := by
    intro a k ha
    show (if mulTab then Prime.powT p else Prime.pow p) a k = Prime.pow p a k
    cases mulTab
    · rfl
    · exact powT_eq hp ha k
  trace := fun _ _ => rfl
  isZero := rfl
  isOne := rfl
  beq := rfl
  ofNat := rfl
  ofInt := rfl
  nTerms := rfl
  toStr := rfl
  parse := rfl
  regex := rfl
  enc := rfl
  dec := rfl
  ownVar := rfl

end Prime

end Tables
end Algobra
