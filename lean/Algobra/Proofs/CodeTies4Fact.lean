/-
  Proofs/CodeTies4Fact.lean — tie of the MACHINE-TRANSLATED `auxmath.Factorize`
  (`go_auxmath_Factorize` with its loops `go_auxmath_Factorize_loop1 … loop5` of `Algobra/Gen/Code.lean`)
  with the hand-written model `Auxmath.factorize` (`Auxmath.divOut`, `Auxmath.factScan`,
  `Auxmath.boundSqrt`) of Model/Auxmath.lean.

  Core Lean + the word lemmas and the tie `boundSqrt` of Proofs/CodeTies.lean; no Mathlib.

  Plan.
  * the three (textually equal) division loops `loop2`, `loop4`, `loop5` compute `Auxmath.divOut n p exp`
    when `2 ≤ p`, `0 < n`, `exp + n < 2^64` and the fuel is at least `n` (the cofactor strictly decreases;
    `exp + n` does not increase, so `exp++` never wraps);
  * `loop1` (p = 2, 3) is unrolled: at most three rounds;
  * `loop3` (k = 6, 12, …) follows `Auxmath.factScan n maxF k` with measure `maxF + 7 - k`; as
    `maxF = boundSqrt n ≤ 2^32`, none of `k-1`, `k+1`, `k+6` wraps;
  * the main theorem is an induction on the recursion fuel, which both sides use in the same way.
-/
import Algobra.Proofs.CodeTies
import Algobra.Model.Auxmath

namespace Algobra
namespace CodeTies4Proofs
open Algobra Algobra.Gen.Code
open Algobra.CodeTiesProofs (w64_of_lt wsub_of_le)

/-! ### `Auxmath.divOut` -/

theorem divOut_of_ne {n p : Nat} (e : Nat) (h : n % p ≠ 0) : Auxmath.divOut n p e = (e, n) := by
  rw [Auxmath.divOut]
  by_cases hc : p ≤ 1 ∨ n = 0
  · simp only [hc, ↓reduceDIte]
  · simp only [hc, ↓reduceDIte, h, ↓reduceIte]

theorem divOut_of_dvd {n p : Nat} (e : Nat) (hp : 2 ≤ p) (hn : 0 < n) (h : n % p = 0) :
    Auxmath.divOut n p e = Auxmath.divOut (n / p) p (e + 1) := by
  rw [Auxmath.divOut]
  have hc : ¬ (p ≤ 1 ∨ n = 0) := by omega
  simp only [hc, ↓reduceDIte, h, ↓reduceIte]

theorem divOut_fst_ge (n p e : Nat) : e ≤ (Auxmath.divOut n p e).1 := by
  fun_induction Auxmath.divOut n p e with
  | case1 n e h => exact Nat.le_refl _
  | case2 n e h hm ih => omega
  | case3 n e h hm => exact Nat.le_refl _

theorem divOut_snd_le (n p e : Nat) : (Auxmath.divOut n p e).2 ≤ n := by
  fun_induction Auxmath.divOut n p e with
  | case1 n e h => exact Nat.le_refl _
  | case2 n e h hm ih => exact Nat.le_trans ih (Nat.div_le_self _ _)
  | case3 n e h hm => exact Nat.le_refl _

theorem divOut_fst_pos {n p : Nat} (hp : 2 ≤ p) (hn : 0 < n) (h : n % p = 0) :
    0 < (Auxmath.divOut n p 0).1 := by
  rw [divOut_of_dvd 0 hp hn h]
  have := divOut_fst_ge (n / p) p (0 + 1)
  omega

/-! ### the division loops `loop2`, `loop4`, `loop5` -/

/-- any function with the two defining equations of the translated division loops computes `divOut` -/
theorem divLoop_spec {p : Nat} (L : Nat → Nat × Nat → Nat × Nat)
    (hs : ∀ f exp n, L (f + 1) (exp, n)
      = if n % p = 0 then L f (w64 (exp + 1), n / p) else (exp, n))
    (hp : 2 ≤ p) (fuel : Nat) : ∀ exp n, 0 < n → n ≤ fuel → exp + n < 2 ^ 64 →
    L fuel (exp, n) = Auxmath.divOut n p exp := by
  induction fuel with
  | zero => intro exp n h0 h1; omega
  | succ f ih =>
    intro exp n h0 h1 h2
    rw [hs]
    by_cases hm : n % p = 0
    · simp only [hm, ↓reduceIte]
      rw [divOut_of_dvd exp hp h0 hm, w64_of_lt (by omega)]
      have hle : p ≤ n := Nat.le_of_dvd h0 (Nat.dvd_of_mod_eq_zero hm)
      have hpos : 0 < n / p := Nat.div_pos hle (by omega)
      have hlt : n / p < n := Nat.div_lt_self h0 (by omega)
      exact ih (exp + 1) (n / p) hpos (by omega) (by omega)
    · simp only [hm, ↓reduceIte]
      rw [divOut_of_ne exp hm]

theorem loop2 {p n : Nat} (hp : 2 ≤ p) (h0 : 0 < n) (hn : n < 2 ^ 64) :
    go_auxmath_Factorize_loop2 p loopFuel (0, n) = Auxmath.divOut n p 0 :=
  divLoop_spec (go_auxmath_Factorize_loop2 p) (fun _ _ _ => rfl) hp loopFuel 0 n h0
    (Nat.le_of_lt hn) (by omega)

theorem loop4 {p n : Nat} (hp : 2 ≤ p) (h0 : 0 < n) (hn : n < 2 ^ 64) :
    go_auxmath_Factorize_loop4 p loopFuel (0, n) = Auxmath.divOut n p 0 :=
  divLoop_spec (go_auxmath_Factorize_loop4 p) (fun _ _ _ => rfl) hp loopFuel 0 n h0
    (Nat.le_of_lt hn) (by omega)

theorem loop5 {p n : Nat} (hp : 2 ≤ p) (h0 : 0 < n) (hn : n < 2 ^ 64) :
    go_auxmath_Factorize_loop5 p loopFuel (0, n) = Auxmath.divOut n p 0 :=
  divLoop_spec (go_auxmath_Factorize_loop5 p) (fun _ _ _ => rfl) hp loopFuel 0 n h0
    (Nat.le_of_lt hn) (by omega)

/-! ### `boundSqrt` of a word is at most `2^32` -/

theorem boundSqrt_le {n : Nat} (hn : n < 2 ^ 64) : Auxmath.boundSqrt n ≤ 2 ^ 32 := by
  have hb := CodeTiesProofs.bitLen_le_64 hn
  unfold Auxmath.boundSqrt
  by_cases h0 : n = 0
  · simp [h0]
  · simp only [h0, ↓reduceIte]
    refine Nat.le_trans (Nat.mod_le _ _) ?_
    rw [Nat.one_shiftLeft]
    apply Nat.pow_le_pow_right (by decide)
    split <;> omega

/-! ### one round of `loop1` -/

section Loop1
variable (self : Nat → List Nat × List Nat)

theorem loop1_done (f : Nat) (ex fa : List Nat) (n p : Nat) (v : List Nat × List Nat) :
    go_auxmath_Factorize_loop1 self f (ex, fa, n, p, some v) = (ex, fa, n, p, some v) := by
  cases f with
  | zero => rfl
  | succ f => simp [go_auxmath_Factorize_loop1]

theorem loop1_exit (f : Nat) (ex fa : List Nat) (n p : Nat) (hp : ¬ p ≤ 3) :
    go_auxmath_Factorize_loop1 self (f + 1) (ex, fa, n, p, none) = (ex, fa, n, p, none) := by
  simp [go_auxmath_Factorize_loop1, hp]

theorem loop1_hit (f : Nat) (ex fa : List Nat) {n p e n' : Nat} {rf re : List Nat} (hp : p ≤ 3)
    (hd : go_auxmath_Factorize_loop2 p loopFuel (0, n) = (e, n')) (he : 0 < e)
    (hself : self n' = (rf, re)) :
    go_auxmath_Factorize_loop1 self (f + 1) (ex, fa, n, p, none)
      = (ex ++ [e] ++ re, fa ++ [p] ++ rf, n', p, some (fa ++ [p] ++ rf, ex ++ [e] ++ re)) := by
  rw [← loop1_done self f]
  simp only [go_auxmath_Factorize_loop1, hp, hd, he, hself, Option.isNone_none, and_self, ↓reduceIte]

theorem loop1_miss (f : Nat) (ex fa : List Nat) {n p : Nat} (hp : p ≤ 3)
    (hd : go_auxmath_Factorize_loop2 p loopFuel (0, n) = (0, n)) :
    go_auxmath_Factorize_loop1 self (f + 1) (ex, fa, n, p, none)
      = go_auxmath_Factorize_loop1 self f (ex, fa, n, w64 (p + 1), none) := by
  simp only [go_auxmath_Factorize_loop1, hp, hd, Option.isNone_none, and_self, ↓reduceIte,
    gt_iff_lt, Nat.lt_irrefl]

end Loop1

/-- `loop1` from `p = 2` on a word `n ≥ 2`: the first of 2, 3 that divides `n` is divided out and the
    cofactor factorized by `self`; otherwise nothing changes except `p = 4` -/
theorem loop1_spec (self : Nat → List Nat × List Nat) {n : Nat} (h2 : 2 ≤ n) (hn : n < 2 ^ 64) :
    go_auxmath_Factorize_loop1 self loopFuel ([], [], n, 2, none)
      = if n % 2 = 0 then
          ([(Auxmath.divOut n 2 0).1] ++ (self (Auxmath.divOut n 2 0).2).2,
           [2] ++ (self (Auxmath.divOut n 2 0).2).1, (Auxmath.divOut n 2 0).2, 2,
           some ([2] ++ (self (Auxmath.divOut n 2 0).2).1,
                 [(Auxmath.divOut n 2 0).1] ++ (self (Auxmath.divOut n 2 0).2).2))
        else if n % 3 = 0 then
          ([(Auxmath.divOut n 3 0).1] ++ (self (Auxmath.divOut n 3 0).2).2,
           [3] ++ (self (Auxmath.divOut n 3 0).2).1, (Auxmath.divOut n 3 0).2, 3,
           some ([3] ++ (self (Auxmath.divOut n 3 0).2).1,
                 [(Auxmath.divOut n 3 0).1] ++ (self (Auxmath.divOut n 3 0).2).2))
        else ([], [], n, 4, none) := by
  have h0 : 0 < n := by omega
  rw [show loopFuel = (loopFuel - 3) + 1 + 1 + 1 by decide]
  by_cases hm2 : n % 2 = 0
  · simp only [hm2, ↓reduceIte]
    exact loop1_hit self _ [] [] (by decide) (loop2 (by decide) h0 hn)
      (divOut_fst_pos (by decide) h0 hm2) rfl
  · simp only [hm2, ↓reduceIte]
    rw [loop1_miss self _ [] [] (by decide) (by rw [loop2 (by decide) h0 hn, divOut_of_ne 0 hm2])]
    rw [show w64 (2 + 1) = 3 by decide]
    by_cases hm3 : n % 3 = 0
    · simp only [hm3, ↓reduceIte]
      exact loop1_hit self _ [] [] (by decide) (loop2 (by decide) h0 hn)
        (divOut_fst_pos (by decide) h0 hm3) rfl
    · simp only [hm3, ↓reduceIte]
      rw [loop1_miss self _ [] [] (by decide) (by rw [loop2 (by decide) h0 hn, divOut_of_ne 0 hm3])]
      rw [show w64 (3 + 1) = 4 by decide]
      exact loop1_exit self _ [] [] n 4 (by decide)

/-! ### one round of `loop3` -/

section Loop3
variable (self : Nat → List Nat × List Nat) (maxF : Nat)

theorem loop3_done (f : Nat) (ex fa : List Nat) (k n : Nat) (v : List Nat × List Nat) :
    go_auxmath_Factorize_loop3 self maxF f (ex, fa, k, n, some v) = (ex, fa, k, n, some v) := by
  cases f with
  | zero => rfl
  | succ f => simp [go_auxmath_Factorize_loop3]

theorem loop3_exit (f : Nat) (ex fa : List Nat) (k n : Nat) (hk : ¬ wsub k 1 ≤ maxF) :
    go_auxmath_Factorize_loop3 self maxF (f + 1) (ex, fa, k, n, none) = (ex, fa, k, n, none) := by
  simp [go_auxmath_Factorize_loop3, hk]

theorem loop3_hit_a (f : Nat) (ex fa : List Nat) {k n e n' : Nat} {rf re : List Nat}
    (hk : wsub k 1 ≤ maxF)
    (hd : go_auxmath_Factorize_loop4 (wsub k 1) loopFuel (0, n) = (e, n')) (he : 0 < e)
    (hself : self n' = (rf, re)) :
    go_auxmath_Factorize_loop3 self maxF (f + 1) (ex, fa, k, n, none)
      = (ex ++ [e] ++ re, fa ++ [wsub k 1] ++ rf, k, n',
          some (fa ++ [wsub k 1] ++ rf, ex ++ [e] ++ re)) := by
  rw [← loop3_done self maxF f]
  simp only [go_auxmath_Factorize_loop3, hk, hd, he, hself, Option.isNone_none, and_self, ↓reduceIte]

theorem loop3_hit_b (f : Nat) (ex fa : List Nat) {k n e n' : Nat} {rf re : List Nat}
    (hk : wsub k 1 ≤ maxF)
    (hd4 : go_auxmath_Factorize_loop4 (wsub k 1) loopFuel (0, n) = (0, n))
    (hd : go_auxmath_Factorize_loop5 (w64 (k + 1)) loopFuel (0, n) = (e, n')) (he : 0 < e)
    (hself : self n' = (rf, re)) :
    go_auxmath_Factorize_loop3 self maxF (f + 1) (ex, fa, k, n, none)
      = (ex ++ [e] ++ re, fa ++ [w64 (k + 1)] ++ rf, k, n',
          some (fa ++ [w64 (k + 1)] ++ rf, ex ++ [e] ++ re)) := by
  rw [← loop3_done self maxF f]
  simp only [go_auxmath_Factorize_loop3, hk, hd4, hd, he, hself, Option.isNone_none, and_self,
    ↓reduceIte, gt_iff_lt, Nat.lt_irrefl]

theorem loop3_miss (f : Nat) (ex fa : List Nat) {k n : Nat}
    (hk : wsub k 1 ≤ maxF)
    (hd4 : go_auxmath_Factorize_loop4 (wsub k 1) loopFuel (0, n) = (0, n))
    (hd5 : go_auxmath_Factorize_loop5 (w64 (k + 1)) loopFuel (0, n) = (0, n)) :
    go_auxmath_Factorize_loop3 self maxF (f + 1) (ex, fa, k, n, none)
      = go_auxmath_Factorize_loop3 self maxF f (ex, fa, w64 (k + 6), n, none) := by
  simp only [go_auxmath_Factorize_loop3, hk, hd4, hd5, Option.isNone_none, and_self,
    ↓reduceIte, gt_iff_lt, Nat.lt_irrefl]

end Loop3

/-- what `Factorize` returns after `loop3` -/
def fin3 : List Nat × List Nat × Nat × Nat × Option (List Nat × List Nat) → List Nat × List Nat
  | (exponents, factors, _, n, ret3) =>
    match ret3 with
    | some v => v
    | none => (factors ++ [n], exponents ++ [1])

/-- `loop3` follows `factScan`; fuel: `maxF + 7 - k` drops by 6 in every unsuccessful round -/
theorem loop3_spec (self : Nat → List Nat × List Nat) {maxF n : Nat} (hmax : maxF ≤ 2 ^ 32)
    (h0 : 0 < n) (hn : n < 2 ^ 64) (fuel : Nat) :
    ∀ k, 6 ≤ k → k ≤ maxF + 7 → maxF + 7 - k < fuel →
    fin3 (go_auxmath_Factorize_loop3 self maxF fuel ([], [], k, n, none))
      = if Auxmath.factScan n maxF k = 0 then ([n], [1])
        else (Auxmath.factScan n maxF k
                :: (self (Auxmath.divOut n (Auxmath.factScan n maxF k) 0).2).1,
              (Auxmath.divOut n (Auxmath.factScan n maxF k) 0).1
                :: (self (Auxmath.divOut n (Auxmath.factScan n maxF k) 0).2).2) := by
  induction fuel with
  | zero => intro k _ _ h; omega
  | succ f ih =>
    intro k hk6 hk hf
    have hkw : k < 2 ^ 64 := by omega
    have hs1 : wsub k 1 = k - 1 := wsub_of_le hkw (by omega)
    have hw1 : w64 (k + 1) = k + 1 := w64_of_lt (by omega)
    have hw6 : w64 (k + 6) = k + 6 := w64_of_lt (by omega)
    rw [Auxmath.factScan]
    by_cases hc : k - 1 ≤ maxF
    · simp only [hc, ↓reduceDIte]
      by_cases hma : n % (k - 1) = 0
      · simp only [hma, ↓reduceIte]
        rw [loop3_hit_a self maxF f [] [] (by rw [hs1]; exact hc)
          (by rw [hs1]; exact loop4 (by omega) h0 hn) (divOut_fst_pos (by omega) h0 hma) rfl]
        simp only [fin3, hs1, show k - 1 ≠ 0 by omega, ↓reduceIte, List.nil_append,
          List.cons_append]
      · have hd4 : go_auxmath_Factorize_loop4 (wsub k 1) loopFuel (0, n) = (0, n) := by
          rw [hs1, loop4 (by omega) h0 hn, divOut_of_ne 0 hma]
        simp only [hma, ↓reduceIte]
        by_cases hmb : n % (k + 1) = 0
        · simp only [hmb, ↓reduceIte]
          rw [loop3_hit_b self maxF f [] [] (by rw [hs1]; exact hc) hd4
            (by rw [hw1]; exact loop5 (by omega) h0 hn) (divOut_fst_pos (by omega) h0 hmb) rfl]
          simp only [fin3, hw1, show k + 1 ≠ 0 by omega, ↓reduceIte, List.nil_append,
            List.cons_append]
        · have hd5 : go_auxmath_Factorize_loop5 (w64 (k + 1)) loopFuel (0, n) = (0, n) := by
            rw [hw1, loop5 (by omega) h0 hn, divOut_of_ne 0 hmb]
          simp only [hmb, ↓reduceIte]
          rw [loop3_miss self maxF f [] [] (by rw [hs1]; exact hc) hd4 hd5, hw6]
          exact ih (k + 6) (by omega) (by omega) (by omega)
    · simp only [hc, ↓reduceDIte, ↓reduceIte]
      rw [loop3_exit self maxF f [] [] k n (by rw [hs1]; exact hc)]
      rfl

/-! ### the main theorem -/

/-- the model after the two trivial cases, with the pair of `divOut` written with projections -/
theorem model_succ (f : Nat) {n : Nat} (h0 : n ≠ 0) (h1 : n ≠ 1) (p : Nat)
    (hp : (if n % 2 = 0 then 2 else if n % 3 = 0 then 3
            else Auxmath.factScan n (Auxmath.boundSqrt n) 6) = p) :
    Auxmath.factorize (f + 1) n
      = if p = 0 then [(n, 1)]
        else (p, (Auxmath.divOut n p 0).1) :: Auxmath.factorize f (Auxmath.divOut n p 0).2 := by
  rw [Auxmath.factorize]
  simp only [h0, h1, ↓reduceIte, hp]

set_option maxRecDepth 4000 in
theorem factorize (fuel : Nat) {n : Nat} (hn : n < 2 ^ 64) :
    go_auxmath_Factorize fuel n
      = ((Auxmath.factorize fuel n).map Prod.fst, (Auxmath.factorize fuel n).map Prod.snd) := by
  induction fuel generalizing n with
  | zero => rw [go_auxmath_Factorize.eq_def, Auxmath.factorize]; rfl
  | succ f ih =>
    rw [go_auxmath_Factorize.eq_def]
    by_cases h0 : n = 0
    · subst h0; rfl
    by_cases h1 : n = 1
    · subst h1; rfl
    simp only [h0, h1, ↓reduceIte]
    have hpos : 0 < n := by omega
    rw [loop1_spec _ (by omega) hn]
    by_cases hm2 : n % 2 = 0
    · rw [model_succ f h0 h1 2 (by simp only [hm2, ↓reduceIte])]
      simp only [hm2, ↓reduceIte]
      rw [ih (Nat.lt_of_le_of_lt (divOut_snd_le n 2 0) hn)]
      simp only [show (2 : Nat) ≠ 0 by decide, ↓reduceIte, List.map_cons, List.cons_append,
        List.nil_append]
    · by_cases hm3 : n % 3 = 0
      · rw [model_succ f h0 h1 3 (by simp only [hm2, hm3, ↓reduceIte])]
        simp only [hm2, hm3, ↓reduceIte]
        rw [ih (Nat.lt_of_le_of_lt (divOut_snd_le n 3 0) hn)]
        simp only [show (3 : Nat) ≠ 0 by decide, ↓reduceIte, List.map_cons, List.cons_append,
          List.nil_append]
      · rw [model_succ f h0 h1 _ (by simp only [hm2, hm3, ↓reduceIte]; rfl)]
        simp only [hm2, hm3, ↓reduceIte]
        rw [CodeTiesProofs.boundSqrt hn]
        have h3 := loop3_spec (go_auxmath_Factorize f) (boundSqrt_le hn) hpos hn loopFuel 6
          (Nat.le_refl _) (by omega)
          (by have := boundSqrt_le hn; have : loopFuel = 2 ^ 64 := rfl; omega)
        generalize go_auxmath_Factorize_loop3 _ _ _ _ = st at h3 ⊢
        refine Eq.trans ?_ (h3.trans ?_)
        · rcases st with ⟨a, b, c, d, _ | v⟩ <;> rfl
        · by_cases hz : Auxmath.factScan n (Auxmath.boundSqrt n) 6 = 0
          · simp only [hz, ↓reduceIte, List.map_cons, List.map_nil]
          · simp only [hz, ↓reduceIte, List.map_cons]
            rw [ih (Nat.lt_of_le_of_lt (divOut_snd_le n _ 0) hn)]

/-! ### sanity: the model on `12 = 2^2 * 3` (well-founded `divOut` does not reduce by `decide`; the
    rounds are unfolded with the lemmas above), and hence the translated function through the tie -/

theorem divOut_12_2 : Auxmath.divOut 12 2 0 = (2, 3) := by
  rw [divOut_of_dvd 0 (by decide) (by decide) (by decide),
    divOut_of_dvd _ (by decide) (by decide) (by decide), divOut_of_ne _ (by decide)]

theorem divOut_3_3 : Auxmath.divOut 3 3 0 = (1, 1) := by
  rw [divOut_of_dvd 0 (by decide) (by decide) (by decide), divOut_of_ne _ (by decide)]

theorem model_12 : Auxmath.factorize 3 12 = [(2, 2), (3, 1)] := by
  rw [model_succ 2 (by decide) (by decide) 2 (by decide), divOut_12_2]
  simp only [show (2 : Nat) ≠ 0 by decide, ↓reduceIte]
  rw [model_succ 1 (by decide) (by decide) 3 (by decide), divOut_3_3]
  simp only [show (3 : Nat) ≠ 0 by decide, ↓reduceIte]
  rfl

example : go_auxmath_Factorize 3 12 = ([2, 3], [2, 1]) := by
  rw [factorize 3 (by decide), model_12]; rfl

/-- the scan branch: `35 = 5 * 7` (`boundSqrt 35 = 8`, `factScan` finds `k - 1 = 5`), then the prime 7
    (`boundSqrt 7 = 4`, `factScan` finds nothing) -/
theorem model_35 : Auxmath.factorize 2 35 = [(5, 1), (7, 1)] := by
  have hb : Auxmath.boundSqrt 35 = 8 := by decide
  have hs : Auxmath.factScan 35 8 6 = 5 := by rw [Auxmath.factScan]; decide
  have hb7 : Auxmath.boundSqrt 7 = 4 := by decide
  have hs7 : Auxmath.factScan 7 4 6 = 0 := by rw [Auxmath.factScan]; decide
  have hd : Auxmath.divOut 35 5 0 = (1, 7) := by
    rw [divOut_of_dvd 0 (by decide) (by decide) (by decide), divOut_of_ne _ (by decide)]
  rw [model_succ 1 (by decide) (by decide) 5 (by rw [hb, hs]; decide), hd]
  simp only [show (5 : Nat) ≠ 0 by decide, ↓reduceIte]
  rw [model_succ 0 (by decide) (by decide) 0 (by rw [hb7, hs7]; decide)]
  simp only [↓reduceIte]

example : go_auxmath_Factorize 2 35 = ([5, 7], [1, 1]) := by
  rw [factorize 2 (by decide), model_35]; rfl

end CodeTies4Proofs
end Algobra
