/-
  Proofs/Criterion4.lean — reducedness (C12, third flag) and the uniqueness of the reduced Gröbner
  basis.

  * `quoRemLoop_rem_nodiv` : (no guard) every exponent the division loop puts into the remainder is
    not divisible by the leading exponent of a non-ignored divisor;
  * `quoRemLoop_fixed`, `quoRem_fixed`, `rem_fixed` : a polynomial none of whose exponents is
    divisible by a leading exponent of the (non-ignored) divisors is returned unchanged, with the
    quotients untouched (FIXED POINT of the division);
  * `ReducedSem o G` : no exponent of a generator is divisible by the leading exponent of another
    generator; `reducedSem_of_decideReduced`, `decideReduced_of_reducedSem` : this is what the
    un-cached decision of `IsReduced()` says;
  * `Monic L o g` : leading coefficient one; `normalize_monic`;
  * `minimizeLoop_id` : on a minimal list the removal loop removes nothing;
  * `remByOthers_reduced`, `reduceLoop_reduced` : `ReduceBasis` produces a reduced list, keeps
    leading exponents and leading coefficients;
  * `reduced_unique`, `reduced_unique_perm` : UNIQUENESS of the reduced Gröbner basis.
-/
import Algobra.Proofs.Criterion3

namespace Algobra
namespace BPoly

open AddMonoidAlgebra (single)
open Algobra.Order

variable {α : Type} {F : FOps α} {K : Type} [Field K]

/-! ### the remainder of a division, without any guard -/

section NoGuard

/-- every exponent that the loop adds to the remainder is not divisible by the leading exponent of a
    non-ignored divisor (whatever the order does, wrapped or not) -/
theorem quoRemLoop_rem_nodiv {o : Order} {ignore : Option Nat} {gs : List (BPoly α)} :
    ∀ (fuel : Nat) (p : BPoly α) (qs : List (BPoly α)) (r : BPoly α) {qs' : List (BPoly α)}
      {r' : BPoly α}, quoRemLoop F o ignore gs fuel p qs r = some (qs', r') →
      ∀ d ∈ keys r', d ∈ keys r ∨
        ∀ (j : Nat) (g : BPoly α), gs[j]? = some g → ignore ≠ some j → subDegs d (ld o g) = none := by
  intro fuel
  induction fuel with
  | zero => intro p qs r qs' r' h; simp [quoRemLoop] at h
  | succ n ih =>
    intro p qs r qs' r' h
    rw [quoRemLoop] at h
    by_cases hpe : p.isEmpty = true
    · rw [if_pos hpe] at h
      simp only [Option.some.injEq, Prod.mk.injEq] at h
      obtain ⟨-, rfl⟩ := h
      exact fun d hd => Or.inl hd
    · rw [if_neg hpe] at h
      simp only at h
      cases hfd : firstDiv o (ld o p) ignore gs 0 with
      | none =>
        rw [hfd] at h
        simp only at h
        intro d hd
        rcases ih _ _ _ h d hd with h1 | h1
        · rcases mem_keys_incCoef h1 with h2 | rfl
          · exact Or.inl h2
          · exact Or.inr fun j g hj hig =>
              firstDiv_none gs 0 hfd j g hj (by rwa [Nat.zero_add])
        · exact Or.inr h1
      | some x =>
        obtain ⟨i, g, dd⟩ := x
        rw [hfd] at h
        simp only at h
        exact ih _ _ _ h

end NoGuard

/-! ### fixed points of the division -/

section Fixed
variable (L : Lawful F K)

/-- FIXED POINT: if no exponent of the dividend `p` is divisible by the leading exponent of a
    non-ignored divisor, the loop moves `p` term by term into the remainder and leaves the
    quotients as they are -/
theorem quoRemLoop_fixed {o : Order} (hadm : Admissible o) {ignore : Option Nat}
    {gs : List (BPoly α)} :
    ∀ (fuel : Nat) (p : BPoly α) (qs : List (BPoly α)) (r : BPoly α) {qs' : List (BPoly α)}
      {r' : BPoly α}, WF L p → (∀ d ∈ keys p, Exact o d) →
      (∀ d ∈ keys p, ∀ (j : Nat) (g : BPoly α), gs[j]? = some g → ignore ≠ some j →
        subDegs d (ld o g) = none) →
      WF L r → quoRemLoop F o ignore gs fuel p qs r = some (qs', r') →
      qs' = qs ∧ WF L r' ∧ toMv L r' = toMv L p + toMv L r := by
  intro fuel
  induction fuel with
  | zero => intro p qs r qs' r' _ _ _ _ h; simp [quoRemLoop] at h
  | succ n ih =>
    intro p qs r qs' r' wp hx hnd wr h
    rw [quoRemLoop] at h
    by_cases hpe : p.isEmpty = true
    · rw [if_pos hpe] at h
      simp only [Option.some.injEq, Prod.mk.injEq] at h
      obtain ⟨rfl, rfl⟩ := h
      have : p = [] := List.isEmpty_iff.1 hpe
      subst this
      exact ⟨rfl, wr, by simp⟩
    · rw [if_neg hpe] at h
      have hpne : p ≠ [] := fun h0 => hpe (List.isEmpty_iff.2 h0)
      have hld := ld_mem_keys' hadm hpne hx
      simp only at h
      cases hfd : firstDiv o (ld o p) ignore gs 0 with
      | some x =>
        obtain ⟨i, g, dd⟩ := x
        obtain ⟨-, hgi, hig, hsd⟩ := firstDiv_some gs 0 hfd
        rw [Nat.sub_zero] at hgi
        rw [hnd _ hld i g hgi hig] at hsd
        cases hsd
      | none =>
        rw [hfd] at h
        simp only at h
        have hc := coef_valid L wp.cv (ld o p)
        obtain ⟨c1, c2, c3⟩ := ih (erase p (ld o p)) qs
          (incCoef F r (ld o p) (coef F p (ld o p))) (WF_erase L wp _)
          (fun d hd => hx d ((mem_keys_erase p _ d).1 hd).1)
          (fun d hd => hnd d ((mem_keys_erase p _ d).1 hd).1)
          (WF_incCoef L wr _ hc) h
        refine ⟨c1, c2, ?_⟩
        rw [c3, toMv_erase L wp, toMv_incCoef L wr _ hc]
        abel

/-- `QuoRem` on a fixed point: zero quotients, the remainder is the dividend -/
theorem quoRem_fixed {o : Order} (hadm : Admissible o) {ignore : Option Nat}
    {gs : List (BPoly α)} {fuel : Nat} {f : BPoly α} {qs : List (BPoly α)} {r : BPoly α}
    (wf : WF L f) (hx : ∀ d ∈ keys f, Exact o d)
    (hnd : ∀ d ∈ keys f, ∀ (j : Nat) (g : BPoly α), gs[j]? = some g → ignore ≠ some j →
      subDegs d (ld o g) = none)
    (h : quoRem F o fuel ignore f gs = .ok (some (qs, r))) :
    qs = gs.map (fun _ => []) ∧ WF L r ∧ toMv L r = toMv L f ∧ equal F r f = true := by
  obtain ⟨-, hl⟩ := quoRem_ok h
  obtain ⟨c1, c2, c3⟩ := quoRemLoop_fixed L hadm fuel f _ [] wf hx hnd (WF_nil L) hl
  rw [toMv_nil, add_zero] at c3
  exact ⟨c1, c2, c3, (equal_iff L c2 wf).2 c3⟩

/-- `Rem` on a fixed point returns the dividend -/
theorem rem_fixed {o : Order} (hadm : Admissible o) {gs : List (BPoly α)} {fuel : Nat}
    {f r : BPoly α} (wf : WF L f) (hx : ∀ d ∈ keys f, Exact o d)
    (hnd : ∀ d ∈ keys f, ∀ g ∈ gs, subDegs d (ld o g) = none)
    (h : rem F o fuel f gs = .ok (some r)) :
    WF L r ∧ toMv L r = toMv L f ∧ equal F r f = true := by
  obtain ⟨qs, hq⟩ := rem_ok h
  exact (quoRem_fixed L hadm wf hx
    (fun d hd j g hj _ => hnd d hd g (List.mem_of_getElem? hj)) hq).2

end Fixed

/-! ### what `IsReduced()` decides -/

section Reduced

/-- no exponent of a generator is divisible by the leading exponent of ANOTHER generator -/
def ReducedSem (o : Order) (G : List (BPoly α)) : Prop :=
  ∀ (i j : Nat) (hi : i < G.length) (hj : j < G.length), j ≠ i →
    ∀ d ∈ keys G[i], subDegs d (ld o G[j]) = none

theorem ReducedSem.minimal (L : Lawful F K) {o : Order} (hadm : Admissible o)
    {G : List (BPoly α)} (hG : ∀ g ∈ G, WF L g ∧ g ≠ [] ∧ Bounded g ∧ ∀ d ∈ keys g, Exact o d)
    (h : ReducedSem o G) : MinimalLd o G := by
  intro i j hi hj hji
  have hm := hG _ (List.getElem_mem hi)
  exact h i j hi hj hji _ (ld_mem_keys' hadm hm.2.1 hm.2.2.2)

theorem remByOthers_some {o : Order} {G : List (BPoly α)} {i : Nat} {r : BPoly α}
    (h : remByOthers F o G i = some r) :
    ∃ qs, quoRemLoop F o (some i) G divFuel (G.getD i []) (G.map fun _ => []) [] = some (qs, r) := by
  unfold remByOthers at h
  cases hq : quoRemLoop F o (some i) G divFuel (G.getD i []) (G.map fun _ => []) [] with
  | none => rw [hq] at h; cases h
  | some pr =>
    rw [hq] at h
    simp only [Option.map_some, Option.some.injEq] at h
    exact ⟨pr.1, by rw [← h]⟩

/-- the entry of `decideReduced` for index `i` -/
def redEntry (F : FOps α) (o : Order) (G : List (BPoly α)) (i : Nat) : Option Bool :=
  (remByOthers F o G i).map fun r => equal F r (G.getD i [])

theorem decideReduced_eq (o : Order) (G : List (BPoly α)) :
    decideReduced F o G =
      if ((List.range G.length).map (redEntry F o G)).any (· == none) then none
      else some (((List.range G.length).map (redEntry F o G)).all (· == some true)) := rfl

theorem decideReduced_eq_some_true {o : Order} {G : List (BPoly α)} :
    decideReduced F o G = some true ↔ ∀ i < G.length, redEntry F o G i = some true := by
  rw [decideReduced_eq]
  constructor
  · intro h i hi
    split at h
    · cases h
    · simp only [Option.some.injEq, List.all_eq_true, List.mem_map, List.mem_range] at h
      have := h (redEntry F o G i) ⟨i, hi, rfl⟩
      simpa using this
  · intro h
    have hall : ∀ x ∈ (List.range G.length).map (redEntry F o G), x = some true := by
      intro x hx
      obtain ⟨i, hi, rfl⟩ := List.mem_map.1 hx
      exact h i (List.mem_range.1 hi)
    rw [if_neg]
    · congr 1
      rw [List.all_eq_true]
      intro x hx
      rw [hall x hx]; rfl
    · intro hany
      obtain ⟨x, hx, hxn⟩ := List.any_eq_true.1 hany
      rw [hall x hx] at hxn
      cases hxn

theorem decideReduced_ne_some_false {o : Order} {G : List (BPoly α)}
    (h : ∀ i < G.length, redEntry F o G i = none ∨ redEntry F o G i = some true) :
    decideReduced F o G ≠ some false := by
  rw [decideReduced_eq]
  split
  · simp
  · rename_i hany
    intro hc
    simp only [Option.some.injEq] at hc
    have hall : ((List.range G.length).map (redEntry F o G)).all (· == some true) = true := by
      rw [List.all_eq_true]
      intro x hx
      obtain ⟨i, hi, rfl⟩ := List.mem_map.1 hx
      rcases h i (List.mem_range.1 hi) with h0 | h1
      · exfalso
        apply hany
        exact List.any_eq_true.2 ⟨_, hx, by rw [h0]; rfl⟩
      · rw [h1]; rfl
    rw [hall] at hc
    cases hc

/-- a positive un-cached `IsReduced()` decision means `ReducedSem` (no guard needed) -/
theorem reducedSem_of_decideReduced (L : Lawful F K) {o : Order} {G : List (BPoly α)}
    (hG : ∀ g ∈ G, WF L g) (h : decideReduced F o G = some true) : ReducedSem o G := by
  rw [decideReduced_eq_some_true] at h
  intro i j hi hj hji d hd
  have hgi : G.getD i [] = G[i] := by simp [List.getD_eq_getElem?_getD, hi]
  have he := h i hi
  unfold redEntry at he
  cases hr : remByOthers F o G i with
  | none => rw [hr] at he; cases he
  | some r =>
    rw [hr, hgi] at he
    simp only [Option.map_some, Option.some.injEq] at he
    obtain ⟨qs, hq⟩ := remByOthers_some hr
    rw [hgi] at hq
    have wgi := hG _ (List.getElem_mem hi)
    obtain ⟨-, wr, -, -, -⟩ := Gb.quoRemLoop_wf L (fun x hx => (hG x hx).cv) divFuel _ _ []
      wgi (fun q hq => by obtain ⟨_, _, rfl⟩ := List.mem_map.1 hq; exact WF_nil L) (WF_nil L) hq
    have ht := (equal_iff L wr wgi).1 he
    have hdr : d ∈ keys r := by
      rw [show keys r = r.map (·.1) from rfl, mem_keys_iff L wr, ht, ← mem_keys_iff L wgi]
      exact hd
    rcases quoRemLoop_rem_nodiv _ _ _ _ hq d hdr with h0 | h1
    · cases h0
    · exact h1 j G[j] (by simp [hj]) (by intro hc; exact hji (Option.some.inj hc).symm)

/-- conversely, on a list with `ReducedSem` the un-cached decision never answers `false`
    (it answers `true`, or `none` when a generator has more terms than the division has fuel) -/
theorem decideReduced_of_reducedSem (L : Lawful F K) {o : Order} (hadm : Admissible o)
    {G : List (BPoly α)} (hG : ∀ g ∈ G, WF L g ∧ ∀ d ∈ keys g, Exact o d)
    (h : ReducedSem o G) : decideReduced F o G ≠ some false := by
  apply decideReduced_ne_some_false
  intro i hi
  have hgi : G.getD i [] = G[i] := by simp [List.getD_eq_getElem?_getD, hi]
  unfold redEntry
  cases hr : remByOthers F o G i with
  | none => exact Or.inl rfl
  | some r =>
    right
    obtain ⟨qs, hq⟩ := remByOthers_some hr
    rw [hgi] at hq
    have hm := hG _ (List.getElem_mem hi)
    obtain ⟨-, wr, e⟩ := quoRemLoop_fixed L hadm divFuel _ _ [] hm.1 hm.2
      (fun d hd j g hj hig => by
        obtain ⟨hj', rfl⟩ := List.getElem?_eq_some_iff.1 hj
        exact h i j hi hj' (by rintro rfl; exact hig rfl) d hd)
      (WF_nil L) hq
    rw [toMv_nil, add_zero] at e
    rw [hgi]
    simp only [Option.map_some, Option.some.injEq]
    exact (equal_iff L wr hm.1).2 e

end Reduced

/-! ### monic generators; the removal loop on a minimal list -/

section Monic

/-- leading coefficient one (what `Normalize` establishes) -/
def Monic (L : Lawful F K) (o : Order) (g : BPoly α) : Prop := L.embed (lc F o g) = 1

theorem embed_lc (L : Lawful F K) (o : Order) {g : BPoly α} (wg : WF L g) :
    L.embed (lc F o g) = (toMv L g).coeff (ld o g) := (toMv_apply L wg _).symm

theorem normalize_monic (L : Lawful F K) {o : Order} (hadm : Admissible o) {g : BPoly α}
    (hg : WF L g ∧ g ≠ [] ∧ Bounded g ∧ ∀ d ∈ keys g, Exact o d) :
    Monic L o (normalize F o g) := by
  obtain ⟨w, k, t⟩ := normalize_good L hadm hg.1 hg.2.1 hg.2.2.2
  have hld := ld_mem_keys' hadm hg.2.1 hg.2.2.2
  have h0 : L.embed (lc F o g) ≠ 0 := coef_ne_zero L hg.1 hld
  unfold Monic
  rw [embed_lc L o w, ld_congr_keys k, t]
  have : ld o g = 0 + ld o g := (zero_add _).symm
  conv_lhs => rw [this]
  rw [AddMonoidAlgebra.coeff_single_mul_add, ← embed_lc L o hg.1, inv_mul_cancel₀ h0]

/-- on a list in which no leading exponent divides another one the removal loop of
    `MinimizeBasis` removes nothing -/
theorem minimizeLoop_id (L : Lawful F K) {o : Order} (hadm : Admissible o) {gens : List (BPoly α)}
    (hG : ∀ g ∈ gens, WF L g ∧ g ≠ [] ∧ Bounded g ∧ ∀ d ∈ keys g, Exact o d)
    (hm : MinimalLd o gens) :
    ∀ (fuel i : Nat), minimizeLoop F o fuel i gens (gens.map (lt F o)) = gens := by
  intro fuel
  induction fuel with
  | zero => intro i; rfl
  | succ n ih =>
    intro i
    rw [minimizeLoop]
    by_cases hge : i ≥ gens.length
    · rw [if_pos hge]
    · rw [if_neg hge]
      have hi : i < gens.length := by omega
      have hsp : ¬ spannedByOthers F o (gens.map (lt F o)) i = true := by
        intro hsp
        rcases spanned_dvd L hadm (fun g hg => ⟨(hG g hg).1, (hG g hg).2.2.2⟩) hi hsp with
          h0 | ⟨j, hj, hji, -, hd⟩
        · exact (hG _ (List.getElem_mem hi)).2.1 h0
        · exact hd (hm i j hi hj hji)
      rw [if_neg hsp]
      exact ih (i + 1)

/-- `MinimizeBasis` on a minimal list only normalises -/
theorem minimized_of_minimal (L : Lawful F K) {o : Order} (hadm : Admissible o)
    {G : List (BPoly α)} (hG : ∀ g ∈ G, WF L g ∧ g ≠ [] ∧ Bounded g ∧ ∀ d ∈ keys g, Exact o d)
    (hm : MinimalLd o G) : minimized F o G = G.map (normalize F o) :=
  minimizeLoop_id L hadm (good_map_normalize L hadm hG)
    ((MinimalLd.map_normalize L hadm hG).2 hm) _ 0

theorem ReducedSem.map_normalize (L : Lawful F K) {o : Order} (hadm : Admissible o)
    {G : List (BPoly α)} (hG : ∀ g ∈ G, WF L g ∧ g ≠ [] ∧ Bounded g ∧ ∀ d ∈ keys g, Exact o d)
    (h : ReducedSem o G) : ReducedSem o (G.map (normalize F o)) := by
  intro i j hi hj hji d hd
  rw [List.length_map] at hi hj
  have ki := (normalize_keeps L hadm (hG _ (List.getElem_mem hi)))
  have kj := (normalize_keeps L hadm (hG _ (List.getElem_mem hj))).2
  obtain ⟨-, k, -⟩ := normalize_good L hadm (hG _ (List.getElem_mem hi)).1
    (hG _ (List.getElem_mem hi)).2.1 (hG _ (List.getElem_mem hi)).2.2.2
  rw [List.getElem_map] at hd ⊢
  rw [kj]
  rw [k] at hd
  exact h i j hi hj hji d hd

end Monic

/-! ### `ReduceBasis` produces a reduced list -/

section ReduceReduced

/-- one replacement of `ReduceBasis` on a good minimal list: the remainder is good, has the same
    leading exponent AND the same leading coefficient, and none of its exponents is divisible by
    the leading exponent of another generator -/
theorem remByOthers_reduced (L : Lawful F K) {o : Order} (hadm : Admissible o)
    {G : List (BPoly α)}
    (hG : ∀ g ∈ G, WF L g ∧ g ≠ [] ∧ Bounded g ∧ ∀ d ∈ keys g, Exact o d)
    (hm : MinimalLd o G) {i : Nat} (hi : i < G.length)
    (hs : RunSafe' F o (some i) G divFuel (G.getD i [])) {r : BPoly α}
    (hr : remByOthers F o G i = some r) :
    (WF L r ∧ r ≠ [] ∧ Bounded r ∧ ∀ d ∈ keys r, Exact o d) ∧ ld o r = ld o G[i] ∧
    L.embed (lc F o r) = L.embed (lc F o G[i]) ∧
    (∀ d ∈ keys r, ∀ (j : Nat) (hj : j < G.length), j ≠ i → subDegs d (ld o G[j]) = none) := by
  obtain ⟨gr, hld⟩ := remByOthers_minimal L hadm hG hm hi hs hr
  have T := cmp_isTot o
  have hgi : G.getD i [] = G[i] := by simp [List.getD_eq_getElem?_getD, hi]
  obtain ⟨qs, hq⟩ := remByOthers_some hr
  rw [hgi] at hq hs
  obtain ⟨-, hno, hrun⟩ := hs
  have hmi : G[i] ∈ G := List.getElem_mem hi
  have wgi := (hG _ hmi).1
  obtain ⟨-, wr, -, e, -, qok⟩ := quoRemLoop_init_spec L hadm (fun g hg => (hG g hg).1.cv)
    wgi hno hrun hq
  obtain ⟨-, -, -, -, hign⟩ := Gb.quoRemLoop_wf L (fun x hx => (hG x hx).1.cv) divFuel _ _ []
    wgi (fun q hq => by obtain ⟨_, _, rfl⟩ := List.mem_map.1 hq; exact WF_nil L) (WF_nil L) hq
  have hqi : qs[i]? = some [] := by
    rw [hign i rfl, List.getElem?_map]; simp [hi]
  refine ⟨gr, hld, ?_, ?_⟩
  · have hdz : (dot L qs G).coeff (ld o G[i]) = 0 := by
      apply dot_coeff_zero
      intro j q g hqj hgj
      by_contra hne
      obtain ⟨t, ht, d, hd, hsum⟩ := coeff_mul_ne_zero L hne
      obtain ⟨hj, rfl⟩ := List.getElem?_eq_some_iff.1 hgj
      have hji : j ≠ i := by
        rintro rfl
        rw [hqi] at hqj; cases hqj; cases ht
      obtain ⟨hsh, hle⟩ := qok j q _ hqj hgj t ht
      have hmj : G[j] ∈ G := List.getElem_mem hj
      obtain ⟨lj, -⟩ := ld_spec hadm (hG _ hmj).2.1 (hG _ hmj).2.2.2
      have hc := cmp_add' o d (ld o G[j]) t (hsh d hd) (hsh _ lj)
      have hle2 : o.cmp (d.1 + t.1, d.2 + t.2) ((ld o G[j]).1 + t.1, (ld o G[j]).2 + t.2) ≤ 0 := by
        rw [hc]; exact ld_ge o _ d hd
      have hsum' : ld o G[i] = (d.1 + t.1, d.2 + t.2) := by
        rw [hsum]; exact Prod.ext (Nat.add_comm _ _) (Nat.add_comm _ _)
      rw [hsum'] at hle
      have heq := T.le_antisymm hle hle2
      have : subDegs (ld o G[i]) (ld o G[j]) = some t := by
        rw [subDegs_eq_some_iff, hsum', ← heq]; rfl
      rw [hm i j hi hj hji] at this
      cases this
    rw [embed_lc L o wr, embed_lc L o wgi, hld]
    have := congrArg (fun p => p.coeff (ld o G[i])) e
    simp only [AddMonoidAlgebra.coeff_add, Finsupp.add_apply, hdz, zero_add] at this
    exact this.symm
  · intro d hd j hj hji
    rcases quoRemLoop_rem_nodiv _ _ _ _ hq d hd with h0 | h1
    · cases h0
    · exact h1 j G[j] (by simp [hj]) (by intro hc; exact hji (Option.some.inj hc).symm)

/-- index `k` is done: no exponent of `g[k]` is divisible by the leading exponent of another
    generator -/
def DoneAt (o : Order) (g : List (BPoly α)) (k : Nat) : Prop :=
  ∀ (hk : k < g.length) (j : Nat) (hj : j < g.length), j ≠ k →
    ∀ d ∈ keys g[k], subDegs d (ld o g[j]) = none

theorem ld_getElem_set {o : Order} {G : List (BPoly α)} {i : Nat} (hi : i < G.length)
    {r : BPoly α} (hr : ld o r = ld o G[i]) (a : Nat) (ha : a < (G.set i r).length) :
    ld o (G.set i r)[a] = ld o (G[a]'(by rw [List.length_set] at ha; exact ha)) := by
  rw [List.getElem_set]
  split
  · rename_i h; subst h; exact hr
  · rfl

/-- the replacement loop of `ReduceBasis` on a good, minimal, monic list: the result is good,
    minimal, monic and REDUCED -/
theorem reduceLoop_reduced (L : Lawful F K) {o : Order} (hadm : Admissible o)
    {G G' : List (BPoly α)}
    (hG : ∀ g ∈ G, WF L g ∧ g ≠ [] ∧ Bounded g ∧ ∀ d ∈ keys g, Exact o d)
    (hm : MinimalLd o G) (hmon : ∀ g ∈ G, Monic L o g)
    (hsafe : ReduceSafe F o (RunSafe' F o) (List.range G.length) G)
    (hl : reduceLoop F o G = some G') :
    (∀ g ∈ G', WF L g ∧ g ≠ [] ∧ Bounded g ∧ ∀ d ∈ keys g, Exact o d) ∧ MinimalLd o G' ∧
    (∀ g ∈ G', Monic L o g) ∧ ReducedSem o G' := by
  unfold reduceLoop at hl
  have key : ∀ (l : List Nat) (g : List (BPoly α)) (S : Nat → Prop), (∀ i ∈ l, i < g.length) →
      (∀ x ∈ g, WF L x ∧ x ≠ [] ∧ Bounded x ∧ ∀ d ∈ keys x, Exact o d) → MinimalLd o g →
      (∀ x ∈ g, Monic L o x) → (∀ k, S k → DoneAt o g k) →
      ReduceSafe F o (RunSafe' F o) l g →
      l.foldl (fun acc i => match acc with
        | none => none
        | some gens => (remByOthers F o gens i).map fun r => gens.set i r) (some g) = some G' →
      (∀ x ∈ G', WF L x ∧ x ≠ [] ∧ Bounded x ∧ ∀ d ∈ keys x, Exact o d) ∧ MinimalLd o G' ∧
      (∀ x ∈ G', Monic L o x) ∧ (∀ k, (S k ∨ k ∈ l) → DoneAt o G' k) ∧ G'.length = g.length := by
    intro l
    induction l with
    | nil =>
      intro g S _ hg hmg hmo hS _ hf
      simp only [List.foldl_nil, Option.some.injEq] at hf
      subst hf
      exact ⟨hg, hmg, hmo, fun k hk => hS k (hk.resolve_right (by simp)), rfl⟩
    | cons i t ih =>
      intro g S hlt hg hmg hmo hS hs hf
      rw [List.foldl_cons] at hf
      cases hr : remByOthers F o g i with
      | none =>
        simp only [hr, Option.map_none] at hf
        have : ∀ (t : List Nat), t.foldl (fun acc i => match acc with
            | none => none
            | some gens => (remByOthers F o gens i).map fun r => gens.set i r)
            (none : Option (List (BPoly α))) = none := by
          intro t; induction t with
          | nil => rfl
          | cons _ _ ih => rw [List.foldl_cons]; exact ih
        rw [this] at hf; cases hf
      | some r =>
        simp only [hr, Option.map_some] at hf
        have hi := hlt i List.mem_cons_self
        obtain ⟨gr, hld, hlc, hnd⟩ := remByOthers_reduced L hadm hg hmg hi hs.1 hr
        have hg' : ∀ x ∈ g.set i r, WF L x ∧ x ≠ [] ∧ Bounded x ∧ ∀ d ∈ keys x, Exact o d := by
          intro x hx
          rcases List.mem_or_eq_of_mem_set hx with hx | rfl
          · exact hg x hx
          · exact gr
        have hmo' : ∀ x ∈ g.set i r, Monic L o x := by
          intro x hx
          rcases List.mem_or_eq_of_mem_set hx with hx | rfl
          · exact hmo x hx
          · unfold Monic; rw [hlc]; exact hmo _ (List.getElem_mem hi)
        have hS' : ∀ k, (S k ∨ k = i) → DoneAt o (g.set i r) k := by
          intro k hk hk' j hj hjk d hd
          rw [ld_getElem_set hi hld j hj]
          have hk2 : k < g.length := by rw [List.length_set] at hk'; exact hk'
          have hj2 : j < g.length := by rw [List.length_set] at hj; exact hj
          by_cases hki : k = i
          · subst hki
            rw [List.getElem_set_self] at hd
            exact hnd d hd j hj2 hjk
          · rw [List.getElem_set_ne (Ne.symm hki)] at hd
            exact hS k (hk.resolve_right hki) hk2 j hj2 hjk d hd
        obtain ⟨c1, c2, c3, c4, c5⟩ := ih (g.set i r) (fun k => S k ∨ k = i)
          (fun j hj => by rw [List.length_set]; exact hlt j (List.mem_cons_of_mem _ hj)) hg'
          (hmg.set hi hld) hmo' hS' (hs.2 r hr) hf
        refine ⟨c1, c2, c3, fun k hk => c4 k ?_, by rw [c5, List.length_set]⟩
        rcases hk with hk | hk
        · exact Or.inl (Or.inl hk)
        · rcases List.mem_cons.1 hk with rfl | hk
          · exact Or.inl (Or.inr rfl)
          · exact Or.inr hk
  obtain ⟨c1, c2, c3, c4, c5⟩ := key _ G (fun _ => False) (fun i hi => List.mem_range.1 hi) hG hm
    hmon (fun k hk => hk.elim) hsafe hl
  refine ⟨c1, c2, c3, ?_⟩
  intro i j hi hj hji d hd
  exact c4 i (Or.inr (List.mem_range.2 (by rw [← c5]; exact hi))) hi j hj hji d hd

end ReduceReduced

/-! ### uniqueness of the reduced Gröbner basis -/

section Unique

theorem subDegs_ne_none_iff (a b : Deg) : subDegs a b ≠ none ↔ b.1 ≤ a.1 ∧ b.2 ≤ a.2 := by
  rw [Ne, subDegs_eq_none_iff, not_not]

variable {L : Lawful F K} {o : Order} {I : _root_.Ideal (AddMonoidAlgebra K (ℕ × ℕ))}

/-- one half of the uniqueness: every element of a reduced monic Gröbner basis `G1` of `I` occurs
    (as a polynomial) in every other reduced monic Gröbner basis `G2` of `I` -/
theorem reduced_unique_mem (hadm : Admissible o) {G1 G2 : List (BPoly α)}
    (h1 : GB L o I G1) (h2 : GB L o I G2)
    (g1 : ∀ g ∈ G1, WF L g ∧ g ≠ [] ∧ Bounded g ∧ ∀ d ∈ keys g, Exact o d)
    (g2 : ∀ g ∈ G2, WF L g ∧ g ≠ [] ∧ Bounded g ∧ ∀ d ∈ keys g, Exact o d)
    (r1 : ReducedSem o G1) (r2 : ReducedSem o G2)
    (mon1 : ∀ g ∈ G1, Monic L o g) (mon2 : ∀ g ∈ G2, Monic L o g) :
    ∀ g ∈ G1, ∃ g' ∈ G2, toMv L g = toMv L g' ∧ equal F g g' = true := by
  have H := tlt_monOrd hadm
  have m1 := r1.minimal L hadm g1
  intro g hg
  obtain ⟨i, hi, rfl⟩ := List.getElem_of_mem hg
  have gi := g1 _ hg
  obtain ⟨g', hg', -, hd1⟩ := h2.exact hadm gi.1 gi.2.1 gi.2.2.2 (h1.mem _ hg)
  obtain ⟨i', hi', rfl⟩ := List.getElem_of_mem hg'
  have gi' := g2 _ hg'
  obtain ⟨g'', hg'', -, hd2⟩ := h1.exact hadm gi'.1 gi'.2.1 gi'.2.2.2 (h2.mem _ hg')
  obtain ⟨k, hk, rfl⟩ := List.getElem_of_mem hg''
  rw [subDegs_ne_none_iff] at hd1 hd2
  have hki : k = i := by
    by_contra hki
    have := m1 i k hi hk hki
    rw [subDegs_eq_none_iff] at this
    exact this ⟨le_trans hd2.1 hd1.1, le_trans hd2.2 hd1.2⟩
  subst hki
  have e : ld o G2[i'] = ld o G1[k] :=
    Prod.ext (le_antisymm hd1.1 hd2.1) (le_antisymm hd1.2 hd2.2)
  have ws := WF_sub L gi.1 gi'.1.cv
  have ts := toMv_sub L gi.1 gi'.1.cv
  have hks : ∀ d ∈ keys (BPoly.sub F G1[k] G2[i']), d ∈ keys G1[k] ∨ d ∈ keys G2[i'] :=
    KeysIn_sub (P := fun d => d ∈ keys G1[k] ∨ d ∈ keys G2[i'])
      (fun d hd => Or.inl hd) (fun d hd => Or.inr hd)
  have hxs : ∀ d ∈ keys (BPoly.sub F G1[k] G2[i']), Exact o d :=
    KeysIn_sub (P := fun d => Exact o d) gi.2.2.2 gi'.2.2.2
  by_cases hs0 : BPoly.sub F G1[k] G2[i'] = []
  · rw [hs0, toMv_nil] at ts
    have : toMv L G1[k] = toMv L G2[i'] := sub_eq_zero.1 ts.symm
    exact ⟨G2[i'], hg', this, (equal_iff L gi.1 gi'.1).2 this⟩
  · exfalso
    obtain ⟨ls1, -⟩ := ld_spec hadm hs0 hxs
    have hms : toMv L (BPoly.sub F G1[k] G2[i']) ∈ I := by
      rw [ts]; exact I.sub_mem (h1.mem _ hg) (h2.mem _ hg')
    have c1 : (toMv L G1[k]).coeff (ld o G1[k]) = 1 := by
      rw [← embed_lc L o gi.1]; exact mon1 _ hg
    have c2 : (toMv L G2[i']).coeff (ld o G1[k]) = 1 := by
      rw [← e, ← embed_lc L o gi'.1]; exact mon2 _ hg'
    have hne : ld o (BPoly.sub F G1[k] G2[i']) ≠ ld o G1[k] := by
      intro he
      have := (mem_keys_iff L ws _).1 ls1
      rw [he, ts, AddMonoidAlgebra.coeff_sub, Finsupp.sub_apply, c1, c2, sub_self] at this
      exact this rfl
    -- the leading exponent of the difference is strictly below the common leading exponent
    have hlt : tlt o (ld o (BPoly.sub F G1[k] G2[i'])) (ld o G1[k]) := by
      apply H.lt_of_le_of_ne _ hne
      rcases hks _ ls1 with hin | hin
      · exact (ld_spec hadm gi.2.1 gi.2.2.2).2 _ hin
      · rw [← e]; exact (ld_spec hadm gi'.2.1 gi'.2.2.2).2 _ hin
    rcases hks _ ls1 with hin | hin
    · obtain ⟨g3, hg3, -, hd3⟩ := h1.exact hadm ws hs0 hxs hms
      obtain ⟨k3, hk3, rfl⟩ := List.getElem_of_mem hg3
      by_cases hk3i : k3 = k
      · subst hk3i
        rw [subDegs_ne_none_iff] at hd3
        exact H.le_of_dvd (show ld o G1[k3] ≤ _ from ⟨hd3.1, hd3.2⟩) hlt
      · exact hd3 (r1 k k3 hi hk3 hk3i _ hin)
    · obtain ⟨g3, hg3, -, hd3⟩ := h2.exact hadm ws hs0 hxs hms
      obtain ⟨k3, hk3, rfl⟩ := List.getElem_of_mem hg3
      by_cases hk3i : k3 = i'
      · subst hk3i
        rw [subDegs_ne_none_iff, e] at hd3
        exact H.le_of_dvd (show ld o G1[k] ≤ _ from ⟨hd3.1, hd3.2⟩) hlt
      · exact hd3 (r2 i' k3 hi' hk3 hk3i _ hin)

/-- **UNIQUENESS OF THE REDUCED GRÖBNER BASIS**: two Gröbner bases of the same ideal for the same
    admissible order, both reduced (`ReducedSem`: no exponent of a generator is divisible by the
    leading exponent of another generator) with leading coefficients one, consist of the same
    polynomials -/
theorem reduced_unique (hadm : Admissible o) {G1 G2 : List (BPoly α)}
    (h1 : GB L o I G1) (h2 : GB L o I G2)
    (g1 : ∀ g ∈ G1, WF L g ∧ g ≠ [] ∧ Bounded g ∧ ∀ d ∈ keys g, Exact o d)
    (g2 : ∀ g ∈ G2, WF L g ∧ g ≠ [] ∧ Bounded g ∧ ∀ d ∈ keys g, Exact o d)
    (r1 : ReducedSem o G1) (r2 : ReducedSem o G2)
    (mon1 : ∀ g ∈ G1, Monic L o g) (mon2 : ∀ g ∈ G2, Monic L o g) :
    (∀ g ∈ G1, ∃ g' ∈ G2, toMv L g = toMv L g' ∧ equal F g g' = true) ∧
    (∀ g ∈ G2, ∃ g' ∈ G1, toMv L g = toMv L g' ∧ equal F g g' = true) ∧
    (toMv L) '' {g | g ∈ G1} = (toMv L) '' {g | g ∈ G2} := by
  have a := reduced_unique_mem hadm h1 h2 g1 g2 r1 r2 mon1 mon2
  have b := reduced_unique_mem hadm h2 h1 g2 g1 r2 r1 mon2 mon1
  refine ⟨a, b, ?_⟩
  ext p
  constructor
  · rintro ⟨g, hg, rfl⟩
    obtain ⟨g', hg', e, -⟩ := a g hg
    exact ⟨g', hg', e.symm⟩
  · rintro ⟨g, hg, rfl⟩
    obtain ⟨g', hg', e, -⟩ := b g hg
    exact ⟨g', hg', e.symm⟩

end Unique

section Perm
variable {L : Lawful F K} {o : Order} {I : _root_.Ideal (AddMonoidAlgebra K (ℕ × ℕ))}

/-- the leading exponent only depends on the polynomial denoted -/
theorem ld_eq_of_toMv_eq (hadm : Admissible o) {g g' : BPoly α}
    (hg : WF L g ∧ g ≠ [] ∧ Bounded g ∧ ∀ d ∈ keys g, Exact o d)
    (hg' : WF L g' ∧ g' ≠ [] ∧ Bounded g' ∧ ∀ d ∈ keys g', Exact o d)
    (h : toMv L g = toMv L g') : ld o g = ld o g' := by
  have H := tlt_monOrd hadm
  obtain ⟨a1, a2⟩ := ld_spec hadm hg.2.1 hg.2.2.2
  obtain ⟨b1, b2⟩ := ld_spec hadm hg'.2.1 hg'.2.2.2
  have k1 : ld o g ∈ keys g' := by
    rw [show keys g' = g'.map (·.1) from rfl, mem_keys_iff L hg'.1, ← h, ← mem_keys_iff L hg.1]
    exact a1
  have k2 : ld o g' ∈ keys g := by
    rw [show keys g = g.map (·.1) from rfl, mem_keys_iff L hg.1, h, ← mem_keys_iff L hg'.1]
    exact b1
  exact H.eq_of_le_of_le (b2 _ k1) (a2 _ k2)

/-- the generators of a good minimal list denote pairwise different polynomials -/
theorem nodup_toMv_of_minimal (hadm : Admissible o) {G : List (BPoly α)}
    (hG : ∀ g ∈ G, WF L g ∧ g ≠ [] ∧ Bounded g ∧ ∀ d ∈ keys g, Exact o d)
    (hm : MinimalLd o G) : (G.map (toMv L)).Nodup := by
  rw [List.Nodup, List.pairwise_iff_getElem]
  intro i j hi hj hij
  rw [List.length_map] at hi hj
  rw [List.getElem_map, List.getElem_map]
  intro he
  have := ld_eq_of_toMv_eq hadm (hG _ (List.getElem_mem hi)) (hG _ (List.getElem_mem hj)) he
  have h2 := hm i j hi hj (by omega)
  rw [this] at h2
  exact subDegs_self _ h2

/-- … so two reduced monic Gröbner bases of the same ideal are permutations of each other as lists
    of polynomials, in particular they have the same number of elements -/
theorem reduced_unique_perm (hadm : Admissible o) {G1 G2 : List (BPoly α)}
    (h1 : GB L o I G1) (h2 : GB L o I G2)
    (g1 : ∀ g ∈ G1, WF L g ∧ g ≠ [] ∧ Bounded g ∧ ∀ d ∈ keys g, Exact o d)
    (g2 : ∀ g ∈ G2, WF L g ∧ g ≠ [] ∧ Bounded g ∧ ∀ d ∈ keys g, Exact o d)
    (r1 : ReducedSem o G1) (r2 : ReducedSem o G2)
    (mon1 : ∀ g ∈ G1, Monic L o g) (mon2 : ∀ g ∈ G2, Monic L o g) :
    (G1.map (toMv L)).Perm (G2.map (toMv L)) ∧ G1.length = G2.length := by
  obtain ⟨a, b, -⟩ := reduced_unique hadm h1 h2 g1 g2 r1 r2 mon1 mon2
  have n1 := nodup_toMv_of_minimal hadm g1 (r1.minimal L hadm g1)
  have n2 := nodup_toMv_of_minimal hadm g2 (r2.minimal L hadm g2)
  have hp : (G1.map (toMv L)).Perm (G2.map (toMv L)) := by
    rw [List.perm_ext_iff_of_nodup n1 n2]
    intro p
    constructor
    · intro hp
      obtain ⟨g, hg, rfl⟩ := List.mem_map.1 hp
      obtain ⟨g', hg', e, -⟩ := a g hg
      rw [e]; exact List.mem_map_of_mem hg'
    · intro hp
      obtain ⟨g, hg, rfl⟩ := List.mem_map.1 hp
      obtain ⟨g', hg', e, -⟩ := b g hg
      rw [e]; exact List.mem_map_of_mem hg'
  refine ⟨hp, ?_⟩
  have := hp.length_eq
  rwa [List.length_map, List.length_map] at this

end Perm

/-! ### remark (not formalised): can the hypothesis `hGx` of `C11.buchberger_criterion` be dropped?

  Probably yes, but by a case analysis that was not carried out in Lean (graded orders; for Lex
  `hGx` is no condition).  Write `A_g` for the TRUE leading exponent of `g` (for `tlt o`) and `e_g`
  for the model's `Ld`.  If `g` has an inexact exponent then `A_g` is inexact (degree first).
   1. If `e_g = A_g` for all `g ∈ G`, the proof of `sPairsOK_of_model` goes through with
      "`Ld` is the leading exponent" in place of exactness (the generators actually used in a guarded
      division are exact by `ShiftNO`).
   2. If some `g_i` has `e_i ≠ A_i` and some other `g_j` is exact, the guard fails: in
      `S(g_i,g_j) = m_i g_i − m_j g_j` the inexact term `m_i A_i` lies strictly above `γ = m_j e_j`,
      the top of `m_j g_j`, so it survives, but `RunSafe` asks for exact exponents of the S-polynomial.
   3. If no generator is exact, a guarded division can make no step at all (`ShiftNO` fails for
      every divisor), so every S-polynomial is the zero list: `m_i g_i = m_j g_j`.  Then the S-polynomials
      for the TRUE leading exponents vanish too (cancel the monomial `δ / lcm(A_i, A_j)`), `G` is a
      Gröbner basis for the true leading exponents by `Crit.criterion`, every nonzero element of the
      ideal has an inexact leading exponent, and `IsGroebnerBasisExact` holds vacuously.
  (When `Ld g` is not even a stored exponent, `SPolynomial` spins, as in `monoDiv_ld`.) -/

end BPoly
end Algobra
