/-
  Proofs/Extra.lean — helper lemmas for Props/C17Extra.lean (the operations of Model/Extra.lean).
  CORE LEAN ONLY.
-/
import Algobra.Model.Extra
import Algobra.Proofs.Step
set_option linter.unusedSimpArgs false
namespace Algobra

section helpers
variable {α : Type} (env : Env α)

/-- the remaining outcome of `checkErrAndCompatible` on two error-free polynomials: different rings -/
theorem bCheck_mismatch (f b : BReg α) (h : f.err.isErr = false) (hb : b.err.isErr = false)
    (hh : b.home ≠ f.home) :
    bCheck f [b] = some ({ home := f.home, val := [], err := .kind .arithmeticIncompat }, false) := by
  simp [bCheck, h, hb, hh]

/-- `Rem` fails only for a zero divisor, with InputValue -/
theorem BPoly.rem_error {F : FOps α} {o : Order} {fuel : Nat} {f : BPoly α} {gs : List (BPoly α)} {e : Kind}
    (h : BPoly.rem F o fuel f gs = .error e) : e = .inputValue ∧ gs.any (·.isEmpty) = true := by
  unfold BPoly.rem BPoly.quoRem at h
  by_cases hz : gs.any (·.isEmpty) = true
  · simp only [hz, if_true] at h
    injection h with h
    exact ⟨h.symm, hz⟩
  · simp only [hz, Bool.false_eq_true, if_false] at h
    exact absurd h (by simp)

theorem BPoly.rem_of_zero_divisor {F : FOps α} {o : Order} {fuel : Nat} {f : BPoly α} {gs : List (BPoly α)}
    (hz : gs.any (·.isEmpty) = true) : BPoly.rem F o fuel f gs = .error .inputValue := by
  simp [BPoly.rem, BPoly.quoRem, hz]

/-- `IsGroebner()` changes nothing but the cached flag, and the flag it leaves is its answer -/
theorem BPoly.Ideal.isGroebnerQ_eq {F : FOps α} {o : Order} {id id1 : BPoly.Ideal α} {b : Bool}
    (h : id.isGroebnerQ F o = some (id1, b)) :
    id1 = { id with isGroebner := if b then 1 else -1 } := by
  unfold BPoly.Ideal.isGroebnerQ at h
  by_cases h1 : id.isGroebner = 1
  · simp only [h1, if_true] at h
    injection h with h; injection h with ha hb
    subst ha; subst hb
    cases id; simp_all
  · simp only [h1, if_false] at h
    by_cases h2 : id.isGroebner = -1
    · simp only [h2, if_true] at h
      injection h with h; injection h with ha hb
      subst ha; subst hb
      cases id; simp_all
    · simp only [h2, if_false] at h
      cases hd : BPoly.decideGroebner F o id.gens with
      | none => rw [hd] at h; exact absurd h (by simp)
      | some b' =>
        rw [hd] at h
        simp only [Option.map_some] at h
        injection h with h; injection h with ha hb
        subst ha; subst hb; rfl

/-- after a negative answer of `IsGroebner()` the basis is computed afresh by Buchberger's algorithm -/
theorem BPoly.Ideal.groebnerBasis_of_not {F : FOps α} {o : Order} (id : BPoly.Ideal α) :
    ({ id with isGroebner := -1 } : BPoly.Ideal α).groebnerBasis F o =
      (BPoly.buchberger F o BPoly.groebnerFuel id.gens).map fun gb => { gens := gb, isGroebner := 1 } := by
  unfold BPoly.Ideal.groebnerBasis
  simp

end helpers
end Algobra

namespace Algobra

/-- a concrete environment for the non-vacuity examples: GF(5); univariate ring 1 = GF(5)[X]/(X²+1),
    bivariate ring 1 = GF(5)[X,Y]/(Y²) (lex, X > Y); all other indices: base rings -/
def env5q : Env Nat where
  fld := fun _ => primeOps 5
  uring := fun i => { F := primeOps 5, varName := "X", modulus := if i == 1 then some [1, 0, 1] else none }
  bring := fun i => { F := primeOps 5, ord := ⟨.lex, true⟩, varNames := ("X", "Y"),
                      ideal := if i == 1 then some [[((0, 2), 1)]] else none }

/-- a concrete store: p0 = 1+2X+X³+3X⁴, p1 erroneous (Parsing), p2 = 1+X in ring 2;
    q0 = X+2Y, q1 = Y², q2 erroneous (Parsing), q3 = XY in ring 1, q4 = 0, q5 = XY² + 1;
    i0 = ⟨X+2Y, Y²⟩ (a Gröbner basis, not yet known to be one), i1 = ⟨XY+1, Y²⟩ (not a Gröbner basis),
    i2 = ⟨Y²⟩ (flagged as a Gröbner basis) -/
def sX : St Nat :=
  { us := [(0, { home := 0, val := [1, 2, 0, 1, 3] }), (1, { home := 0, val := [0], err := .kind .parsing }),
           (2, { home := 2, val := [1, 1] })],
    bs := [(0, { home := 0, val := [((1, 0), 1), ((0, 1), 2)] }), (1, { home := 0, val := [((0, 2), 1)] }),
           (2, { home := 0, val := [], err := .kind .parsing }), (3, { home := 1, val := [((1, 1), 1)] }),
           (4, { home := 0, val := [] }), (5, { home := 0, val := [((1, 2), 1), ((0, 0), 1)] })],
    ids := [(0, { gens := [[((1, 0), 1), ((0, 1), 2)], [((0, 2), 1)]] }),
            (1, { gens := [[((1, 1), 1), ((0, 0), 1)], [((0, 2), 1)]] }),
            (2, { gens := [[((0, 2), 1)]], isGroebner := 1 })] }

end Algobra

namespace Algobra

/-- GF(9) = GF(3)[a]/(a²+2a+2) as field object of an environment (for the `any…` examples) -/
def env9 : Env (UPoly Nat) where
  fld := fun _ => extOps 3 2 [2, 2, 1]
  uring := fun _ => { F := extOps 3 2 [2, 2, 1], varName := "X", modulus := none }
  bring := fun _ => { F := extOps 3 2 [2, 2, 1], ord := ⟨.lex, true⟩, varNames := ("X", "Y"), ideal := none }

end Algobra
