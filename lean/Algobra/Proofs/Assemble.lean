/-
  Proofs/Assemble.lean — glue between the per-implementation theorems (C01Prime, C01Bin, C01Ext),
  the `Define` classification (C03) and the Conway database theorems (C04): bridges between the
  three polynomial encodings of a coefficient list, what `extfield.Define` does to an already monic
  list, the generic facts about a lawful record whose `gen` has multiplicative order `q - 1`
  (enumeration `0, 1, g, g², …`), the summary structure `FieldFacts` (what C01/C02/C03 say about one
  field beyond `Lawful`), and its instances `prime_field`, `bin_field`, `ext_field` for a prime
  resp. for a coefficient list whose polynomial is irreducible with a primitive root.

  No `native_decide` and no dependency on the database text in this file: everything is stated for
  an arbitrary coefficient list `cs` with the shape facts as hypotheses.  The instantiation with
  `Conway.lookupIn Gen.dbText` is in Props/C01.lean.
-/
import Mathlib.GroupTheory.OrderOfElement
import Algobra.Proofs.Conway
import Algobra.Props.C01Bin
import Algobra.Props.C01Ext
import Algobra.Props.C03

open Polynomial

namespace Algobra
namespace Assemble
open UPoly ExtField

/-! ## 1. the three encodings of a coefficient list -/

/-- bit mask ↔ `ZMod 2` polynomial: `binfield.Define` turns the Conway list into the bit mask
    `polyFromCoefs cs`, whose polynomial is the polynomial of the list -/
theorem toPoly2_polyFromCoefs (cs : List Nat) (h : ∀ c ∈ cs, c < 2) (hlen : cs.length ≤ 64) :
    BinField.toPoly2 (Bin.polyFromCoefs cs) = C04.toPolyZMod 2 cs := by
  ext i
  rw [BinField.coeff_polyFromCoefs cs h hlen, C04.coeff_toPolyZMod]

/-- list over the lawful prime field ↔ `ZMod p` polynomial (for every list) -/
theorem toPoly_eq_toPolyZMod (p : Nat) [Fact p.Prime] (h32 : p - 1 < 2 ^ 32) (cs : List Nat) :
    toPoly (primeLawfulFact p h32) cs = C04.toPolyZMod p cs := by
  induction cs with
  | nil => rfl
  | cons c t ih => rw [toPoly_cons, ih]; rfl

/-- `getLast? = some 1` in the `getD` form used by the C01 files -/
theorem getD_last {cs : List Nat} {n : Nat} (hlen : cs.length = n + 1)
    (hlast : cs.getLast? = some 1) : cs.getD n 0 = 1 :=
  C04.getD_of_getLast? hlen hlast

/-- `ElementFromUnsigned` is the identity on reduced coefficients -/
theorem map_ofNat_of_lt {p : Nat} {cs : List Nat} (hc : ∀ c ∈ cs, c < p) :
    cs.map (primeOps p).ofNat = cs := by
  conv_rhs => rw [← List.map_id cs]
  apply List.map_congr_left
  intro c hcm
  exact Nat.mod_eq_of_lt (hc c hcm)

section Ext
variable {p n : Nat} [Fact p.Prime] (h32 : p - 1 < 2 ^ 32) {cs g : List Nat}

/-- `PolynomialFromUnsigned` in the ring without modulus returns a reduced canonical list
    unchanged -/
theorem ofNats_of_wf (hwf : WF (PL h32) cs)
    (hg : UPoly.ofNats ⟨primeOps p, "a", none⟩ cs = some g) : g = cs := by
  have hmap := map_ofNat_of_lt (p := p) hwf.1
  unfold UPoly.ofNats UPoly.ofCoefs UPoly.reduceIn at hg
  simp only [hmap] at hg
  injection hg with hg
  subst hg
  obtain ⟨h1, h2⟩ := UPoly.ofCoefs_unreduced (PL h32) cs hwf.1
  exact toPoly_injective_on_WF (PL h32) h1 hwf h2

omit [Fact (Nat.Prime p)] in
/-- `Normalize` leaves a list with leading coefficient `1` unchanged -/
theorem normalize_of_lc_one (hlen : cs.length = n + 1) (hlast : cs.getD n 0 = 1) :
    UPoly.normalize (primeOps p) cs = cs := by
  have hlc : UPoly.lc (primeOps p) cs = 1 := by
    unfold UPoly.lc UPoly.coef UPoly.ld
    rw [hlen]; exact hlast
  unfold UPoly.normalize
  rw [hlc]
  have : (primeOps p).isOne 1 = true := rfl
  rw [this, Bool.or_true, if_pos rfl]

/-- what `extfield.Define` computes from a Conway list (`n + 1` coefficients below `p`, the last
    one `1`): `PolynomialFromUnsigned` followed by `Normalize` returns the list itself, it is a
    `Modulus`, and its polynomial is the `ZMod p` polynomial of the list. -/
theorem ext_modulus (hn : 1 ≤ n) (hlen : cs.length = n + 1) (hc : ∀ c ∈ cs, c < p)
    (hlast : cs.getLast? = some 1)
    (hg : UPoly.ofNats ⟨primeOps p, "a", none⟩ cs = some g) :
    UPoly.normalize (primeOps p) g = cs ∧ Modulus h32 n cs ∧
      toPoly (PL h32) cs = C04.toPolyZMod p cs := by
  have hl := getD_last hlen hlast
  have M : Modulus h32 n cs := ExtField.modulus_of_list hn hlen hc hl
  have := ofNats_of_wf h32 M.wf hg
  subst this
  exact ⟨normalize_of_lc_one hlen hl, M, toPoly_eq_toPolyZMod p h32 g⟩

end Ext

/-! ## 2. a lawful record whose `gen` is primitive -/

section Gen
variable {α : Type} {F : FOps α} {K : Type} [Field K] (L : Lawful F K)

/-- `i` in-place multiplications by `gen`, starting from `one`, give `gen^i` -/
theorem iterate_mul_gen (hv : L.valid F.gen) (i : Nat) :
    L.valid ((fun e => F.mul e F.gen)^[i] F.one) ∧
      L.embed ((fun e => F.mul e F.gen)^[i] F.one) = L.embed F.gen ^ i := by
  induction i with
  | zero => exact ⟨L.one_valid, by rw [Function.iterate_zero, id, L.embed_one, pow_zero]⟩
  | succ i ih =>
    rw [Function.iterate_succ_apply']
    exact ⟨L.mul_valid _ _ ih.1 hv, by rw [L.embed_mul _ _ ih.1 hv, ih.2, pow_succ]⟩

/-- an element of order `q - 1 ≥ 1` of a field is not zero -/
theorem ne_zero_of_orderOf {γ : K} {q : Nat} (hq : 2 ≤ q) (hord : orderOf γ = q - 1) : γ ≠ 0 := by
  rintro rfl
  have h1 : (0 : K) ^ orderOf (0 : K) = 1 := pow_orderOf_eq_one 0
  rw [hord, zero_pow (by omega)] at h1
  exact zero_ne_one h1

/-- **Elements()** of `binfield`/`extfield` (`C03.elementsByGen`): if `Card() = q ≥ 2` and the
    generator has order `q - 1`, the enumeration `0, 1, g, …, g^(q-2)` has `q` entries, no
    repetition, consists of valid representations, and `g^(q-1) = 1`. -/
theorem elementsByGen_spec {q : Nat} (hcard : F.card = q) (hq : 2 ≤ q) (hv : L.valid F.gen)
    (hord : orderOf (L.embed F.gen) = q - 1) :
    (C03.elementsByGen F).length = q ∧ (C03.elementsByGen F).Nodup ∧
      (fun e => F.mul e F.gen)^[q - 1] F.one = F.one ∧
      ∀ a ∈ C03.elementsByGen F, L.valid a := by
  have hγ0 : L.embed F.gen ≠ 0 := ne_zero_of_orderOf hq hord
  refine ⟨by rw [C03.elementsByGen_length F (by omega), hcard], ?_, ?_, ?_⟩
  · unfold C03.elementsByGen
    rw [List.nodup_cons]
    constructor
    · intro hmem
      obtain ⟨i, -, hi⟩ := List.mem_map.1 hmem
      have := congrArg L.embed hi
      rw [(iterate_mul_gen L hv i).2, L.embed_zero] at this
      exact pow_ne_zero i hγ0 this
    · apply List.Nodup.map_on _ List.nodup_range
      intro i hi j hj hij
      rw [List.mem_range, hcard, ← hord] at hi hj
      have := congrArg L.embed hij
      rw [(iterate_mul_gen L hv i).2, (iterate_mul_gen L hv j).2] at this
      exact pow_injOn_Iio_orderOf (Set.mem_Iio.2 hi) (Set.mem_Iio.2 hj) this
  · apply L.inj _ _ (iterate_mul_gen L hv _).1 L.one_valid
    rw [(iterate_mul_gen L hv _).2, L.embed_one, ← hord, pow_orderOf_eq_one]
  · intro a ha
    unfold C03.elementsByGen at ha
    rcases List.mem_cons.1 ha with rfl | ha
    · exact L.zero_valid
    · obtain ⟨i, -, rfl⟩ := List.mem_map.1 ha
      exact (iterate_mul_gen L hv i).1

/-- … and the enumeration is complete: when `K` has exactly `q` elements, every valid
    representation occurs in it (with the previous theorem: exactly once). -/
theorem elementsByGen_complete {q : Nat} (hcard : F.card = q) (hK : Nat.card K = q) (hq : 2 ≤ q)
    (hv : L.valid F.gen) (hord : orderOf (L.embed F.gen) = q - 1) (a : α) (ha : L.valid a) :
    a ∈ C03.elementsByGen F := by
  have : Finite K := Nat.finite_of_card_ne_zero (by rw [hK]; omega)
  have := Fintype.ofFinite K
  have hK' : Fintype.card K = q := by rw [← Nat.card_eq_fintype_card, hK]
  unfold C03.elementsByGen
  by_cases h0 : L.embed a = 0
  · rw [L.eq_zero_of_embed a ha h0]
    exact List.mem_cons_self
  · obtain ⟨s, hs, hpow⟩ := ExtField.log_exists (γ := L.embed F.gen) (by rw [hK', hord]) h0
    apply List.mem_cons_of_mem
    rw [List.mem_map]
    refine ⟨s, List.mem_range.2 (by rw [hcard, ← hK']; exact hs), ?_⟩
    apply L.inj _ _ (iterate_mul_gen L hv s).1 ha
    rw [(iterate_mul_gen L hv s).2, hpow]

end Gen

/-! ## 3. what C01/C02/C03 say about one field -/

/-- The facts of C01/C02/C03 about a lawful record `L : Lawful F K` (C01: `+ − × neg`, canonical
    forms, and the `Inv` part of C02 are the fields of `Lawful` itself) that are not part of
    `Lawful`: `K` is a field with `p^n` elements of characteristic `p = Char()`, `Card() = p^n`,
    `Pow` is the power for EVERY exponent, `Trace` is `a + a^p + … + a^(p^(n-1))`, and
    `MultGenerator()` is a valid element of multiplicative order exactly `p^n - 1`. -/
structure FieldFacts {α : Type} {F : FOps α} {K : Type} [Field K] (L : Lawful F K) (p n : Nat) :
    Prop where
  prime : p.Prime
  npos : 1 ≤ n
  card_K : Nat.card K = p ^ n
  charP : CharP K p
  char_eq : F.char = p
  card_eq : F.card = p ^ n
  pow : ∀ a k, L.valid a → L.valid (F.pow a k) ∧ L.embed (F.pow a k) = L.embed a ^ k
  trace : ∀ a, L.valid a → L.valid (F.trace a) ∧
    L.embed (F.trace a) = ∑ i ∈ Finset.range n, L.embed a ^ p ^ i
  gen_valid : L.valid F.gen
  gen_order : orderOf (L.embed F.gen) = p ^ n - 1

/-- the prime field `primeOps p` (`p` prime, `p - 1 < 2^32`) -/
theorem prime_field (p : Nat) [hp : Fact p.Prime] (h32 : p - 1 < 2 ^ 32) :
    FieldFacts (primeLawfulFact p h32) p 1 where
  prime := hp.out
  npos := le_rfl
  card_K := by rw [Nat.card_zmod, pow_one]
  charP := ZMod.charP p
  char_eq := rfl
  card_eq := (pow_one p).symm
  pow := fun a k ha => C01Prime.primeOps_pow p h32 a k ha
  trace := fun a ha => ⟨ha, by
    show (primeLawfulFact p h32).embed a = _
    rw [Finset.sum_range_one, pow_zero, pow_one]⟩
  gen_valid := (C03.generator_prime hp.out h32).1
  gen_order := by
    rw [pow_one]
    exact (C03.generator_prime hp.out h32).2

namespace FieldFacts
variable {α : Type} {F : FOps α} {K : Type} [Field K] {L : Lawful F K} {p n : Nat}

theorem two_le (h : FieldFacts L p n) : 2 ≤ p ^ n := Define.two_le_pp h.prime h.npos

/-- `Elements()` of `binfield`/`extfield` (`C03.elementsByGen`: `0, 1, g, g², …`): `p^n` entries, no
    repetition, `g^(p^n-1) = 1`, and the entries are exactly the valid representations — each of
    the `p^n` field elements is listed exactly once. -/
theorem elements (h : FieldFacts L p n) :
    (C03.elementsByGen F).length = p ^ n ∧ (C03.elementsByGen F).Nodup ∧
      (fun e => F.mul e F.gen)^[p ^ n - 1] F.one = F.one ∧
      ∀ a, a ∈ C03.elementsByGen F ↔ L.valid a := by
  obtain ⟨h1, h2, h3, h4⟩ := elementsByGen_spec L h.card_eq h.two_le h.gen_valid h.gen_order
  exact ⟨h1, h2, h3, fun a => ⟨h4 a,
    elementsByGen_complete L h.card_eq h.card_K h.two_le h.gen_valid h.gen_order a⟩⟩

/-- the trace lies in the prime subfield: it is fixed by the Frobenius `x ↦ x^p` -/
theorem trace_frobenius (h : FieldFacts L p n) (a : α) (ha : L.valid a) :
    L.embed (F.trace a) ^ p = L.embed (F.trace a) := by
  have := h.charP
  have : Fact p.Prime := ⟨h.prime⟩
  have hfin : Finite K := Nat.finite_of_card_ne_zero (by rw [h.card_K]; have := h.two_le; omega)
  have := Fintype.ofFinite K
  have hcard : ∀ x : K, x ^ p ^ n = x := by
    intro x
    have := FiniteField.pow_card x
    rwa [← Nat.card_eq_fintype_card, h.card_K] at this
  rw [(h.trace a ha).2, sum_pow_char]
  have e : ∀ i, (L.embed a ^ p ^ i) ^ p = L.embed a ^ p ^ (i + 1) := by
    intro i; rw [← pow_mul, ← pow_succ]
  simp only [e]
  have h1 := Finset.sum_range_succ' (fun i => L.embed a ^ p ^ i) n
  have h2 := Finset.sum_range_succ (fun i => L.embed a ^ p ^ i) n
  simp only [pow_zero, pow_one] at h1
  rw [hcard] at h2
  rw [h2] at h1
  exact (add_right_cancel h1).symm

/-- `Equal` decides equality in the field (C02 of the design: canonical representations) -/
theorem beq_iff_embed (L : Lawful F K) {a b : α} (ha : L.valid a) (hb : L.valid b) :
    F.beq a b = true ↔ L.embed a = L.embed b :=
  (L.beq_iff a b ha hb).trans ⟨fun h => h ▸ rfl, L.inj a b ha hb⟩

end FieldFacts

/-! ## 4. the binary field of a Conway list -/

section Bin
open BinField

/-- the characteristic of `GF(2)[X]/(m)` is 2 -/
theorem charP_bin (m : Nat) [Fact (Irreducible (toPoly2 m))] : CharP (AdjoinRoot (toPoly2 m)) 2 :=
  charP_of_injective_algebraMap (algebraMap (ZMod 2) (AdjoinRoot (toPoly2 m))).injective 2

/-- A list of `n + 1` bits ending in `1` (`1 ≤ n ≤ 32`) whose `ZMod 2` polynomial is irreducible
    with a root of order `2^n - 1`: the mask `m = polyFromCoefs cs` is a valid modulus mask,
    `toPoly2 m` is that polynomial, `binOps n m` is lawful for `GF(2)[X]/(m)` on the masks
    `a < 2^n`, `binOps.gen` is (embedded to) the root, and all of `FieldFacts` holds. -/
theorem bin_field {n : Nat} {cs : List Nat} (h1 : 1 ≤ n) (h32 : n ≤ 32)
    (hlen : cs.length = n + 1) (hc : ∀ c ∈ cs, c < 2) (hlast : cs.getLast? = some 1)
    (hirr : Irreducible (C04.toPolyZMod 2 cs))
    (hord : orderOf (AdjoinRoot.root (C04.toPolyZMod 2 cs)) = 2 ^ n - 1) :
    (2 ^ n ≤ Bin.polyFromCoefs cs ∧ Bin.polyFromCoefs cs < 2 ^ (n + 1)) ∧
    toPoly2 (Bin.polyFromCoefs cs) = C04.toPolyZMod 2 cs ∧
    ∃ (_ : Fact (Irreducible (toPoly2 (Bin.polyFromCoefs cs))))
      (L : Lawful (binOps n (Bin.polyFromCoefs cs)) (AdjoinRoot (toPoly2 (Bin.polyFromCoefs cs)))),
      (∀ a, L.valid a ↔ a < 2 ^ n) ∧
      (∀ a, L.embed a = AdjoinRoot.mk (toPoly2 (Bin.polyFromCoefs cs)) (toPoly2 a)) ∧
      L.embed (binOps n (Bin.polyFromCoefs cs)).gen
        = AdjoinRoot.root (toPoly2 (Bin.polyFromCoefs cs)) ∧
      FieldFacts L 2 n := by
  have hbr := toPoly2_polyFromCoefs cs hc (by omega)
  have hm := polyFromCoefs_bounds cs hc hlen (by omega) (getD_last hlen hlast)
  refine ⟨hm, hbr, ?_⟩
  generalize Bin.polyFromCoefs cs = m at hbr hm ⊢
  rw [← hbr] at hirr hord
  have hF : Fact (Irreducible (toPoly2 m)) := ⟨hirr⟩
  obtain ⟨hg1, hg2⟩ := BinField.gen_spec hm.1 hm.2
  refine ⟨hF, C01Bin.binLawful h1 h32 hm, fun _ => Iff.rfl, fun _ => rfl, hg2, ?_⟩
  exact
    { prime := Nat.prime_two
      npos := h1
      card_K := natCard_adjoinRoot hm.1 hm.2
      charP := charP_bin m
      char_eq := rfl
      card_eq := BinField.card_eq (by omega)
      pow := fun a k ha => C01Bin.binLawful_pow h1 h32 hm ha k
      trace := fun a ha =>
        ⟨(C01Bin.trace_spec h1 h32 hm ha).1, (C01Bin.trace_spec h1 h32 hm ha).2.1⟩
      gen_valid := hg1
      gen_order := by
        show orderOf (emb m (Bin.reduce n m 2)) = _
        rw [hg2, hord] }

end Bin

/-! ## 5. the extension field of a Conway list -/

section ExtF
variable {p n : Nat} [Fact p.Prime] (h32 : p - 1 < 2 ^ 32) {cs : List Nat}

/-- A list of `n + 1` coefficients below `p` ending in `1` (`n ≥ 1`, `p^n` a machine word) whose
    `ZMod p` polynomial is irreducible with a root of order `p^n - 1`: `extOps p n cs` is lawful
    for `F_p[X]/(cs)` on the well-formed lists of length `≤ n`, `extOps.gen` is (embedded to) the
    root, and all of `FieldFacts` holds. -/
theorem ext_field (hn : 1 ≤ n) (hq : p ^ n < 2 ^ 64) (hlen : cs.length = n + 1)
    (hc : ∀ c ∈ cs, c < p) (hlast : cs.getLast? = some 1)
    (hirr : Irreducible (C04.toPolyZMod p cs))
    (hord : orderOf (AdjoinRoot.root (C04.toPolyZMod p cs)) = p ^ n - 1) :
    Modulus h32 n cs ∧ toPoly (PL h32) cs = C04.toPolyZMod p cs ∧
    ∃ (_ : Fact (Irreducible (toPoly (PL h32) cs)))
      (L : Lawful (extOps p n cs) (AdjoinRoot (toPoly (PL h32) cs))),
      (∀ a, L.valid a ↔ Valid h32 n a) ∧
      (∀ a, L.embed a = AdjoinRoot.mk (toPoly (PL h32) cs) (toPoly (PL h32) a)) ∧
      L.embed (extOps p n cs).gen = AdjoinRoot.root (toPoly (PL h32) cs) ∧
      FieldFacts L p n := by
  have M : Modulus h32 n cs := ExtField.modulus_of_list hn hlen hc (getD_last hlen hlast)
  have hbr := toPoly_eq_toPolyZMod p h32 cs
  refine ⟨M, hbr, ?_⟩
  rw [← hbr] at hirr hord
  have hF : Fact (Irreducible (toPoly (PL h32) cs)) := ⟨hirr⟩
  obtain ⟨hg1, hg2⟩ := ExtField.gen_spec M
  refine ⟨hF, ExtField.extLawful M, fun _ => Iff.rfl, fun _ => rfl, hg2, ?_⟩
  exact
    { prime := Fact.out
      npos := hn
      card_K := natCard_adjoinRoot M
      charP := charP_adjoinRoot
      char_eq := rfl
      card_eq := Ext.card_eq p n hq
      pow := fun a k ha => ExtField.pow_spec M hq ha k
      trace := fun a ha => ExtField.trace_spec M hq ha
      gen_valid := hg1
      gen_order := by
        show orderOf (emb h32 cs (extOps p n cs).gen) = _
        rw [hg2, hord] }

end ExtF

/-! ## 6. non-vacuity: the hypotheses of `bin_field` and `ext_field` hold for the Conway polynomials
      of GF(8) (`[1,1,0,1]`, mask 11) and GF(9) (`[2,2,1]`) — proved here without the database -/

section NonVacuity
open BinField

theorem gf8_bridge : toPoly2 11 = C04.toPolyZMod 2 [1, 1, 0, 1] := by
  have h := toPoly2_polyFromCoefs [1, 1, 0, 1] (by decide) (by decide)
  rwa [show Bin.polyFromCoefs [1, 1, 0, 1] = 11 by decide] at h

theorem gf8_irreducible : Irreducible (C04.toPolyZMod 2 [1, 1, 0, 1]) :=
  gf8_bridge ▸ irreducible_toPoly2_eleven

/-- the class of `X` has order 7 in `GF(2)[X]/(X³+X+1)` -/
theorem gf8_order : orderOf (AdjoinRoot.root (C04.toPolyZMod 2 [1, 1, 0, 1])) = 2 ^ 3 - 1 := by
  rw [← gf8_bridge]
  have : Fact (Irreducible (toPoly2 11)) := ⟨irreducible_toPoly2_eleven⟩
  have hm1 : 2 ^ 3 ≤ 11 := by decide
  have hm2 : 11 < 2 ^ (3 + 1) := by decide
  have : Fact (Nat.Prime 7) := ⟨by norm_num⟩
  rw [← emb_two]
  show orderOf (emb 11 2) = 7
  apply orderOf_eq_prime
  · refine pow_card_sub_one (n := 3) hm1 hm2 _ ?_
    rw [Ne, emb_eq_zero_iff hm1 hm2 (by decide)]; decide
  · rw [Ne, emb_eq_one_iff (n := 3) (by decide) hm1 hm2 (by decide)]; decide

example := bin_field (n := 3) (cs := [1, 1, 0, 1]) (by decide) (by decide) rfl (by decide) rfl
  gf8_irreducible gf8_order

theorem gf9_irreducible' : Irreducible (C04.toPolyZMod 3 [2, 2, 1]) :=
  toPoly_eq_toPolyZMod 3 h32_three [2, 2, 1] ▸ gf9_irreducible

/-- the class of `a` has order 8 in `F_3[a]/(a²+2a+2)`: `a⁴ = 2 ≠ 1` is computed by the verified
    `Ext.pow`, `a⁸ = 1` holds in every field with 9 elements -/
theorem gf9_order : orderOf (AdjoinRoot.root (C04.toPolyZMod 3 [2, 2, 1])) = 3 ^ 2 - 1 := by
  rw [← toPoly_eq_toPolyZMod 3 h32_three]
  have : Fact (Irreducible (toPoly (PL h32_three) [2, 2, 1])) := ⟨gf9_irreducible⟩
  have M := gf9_modulus
  have hgen : (extOps 3 2 [2, 2, 1]).gen = [0, 1] := by decide
  have hroot := (ExtField.gen_spec M).2
  rw [hgen] at hroot
  rw [← hroot]
  have hv : Valid h32_three 2 [0, 1] := C01Ext.v01
  have h4 : Ext.pow 3 2 [2, 2, 1] [0, 1] 4 = [2] := by decide +kernel
  obtain ⟨hv4, he4⟩ := ExtField.pow_spec M (by norm_num) hv 4
  rw [h4] at hv4 he4
  have hx0 : emb h32_three [2, 2, 1] [0, 1] ≠ 0 := by
    intro h
    rw [← emb_zero (h32 := h32_three) (g := [2, 2, 1])] at h
    exact absurd (emb_injective M hv (valid_zero M) h) (by decide)
  show orderOf (emb h32_three [2, 2, 1] [0, 1]) = 2 ^ (2 + 1)
  apply orderOf_eq_prime_pow
  · show ¬ emb h32_three [2, 2, 1] [0, 1] ^ 4 = 1
    rw [← he4, ← emb_one (h32 := h32_three) (g := [2, 2, 1])]
    intro h
    exact absurd (emb_injective M hv4 (valid_one M) h) (by decide)
  · exact ExtField.pow_card_sub_one M _ hx0

example := ext_field h32_three (n := 2) (cs := [2, 2, 1]) (by decide) (by norm_num) rfl (by decide)
  rfl gf9_irreducible' gf9_order

example : ∃ g, UPoly.ofNats ⟨primeOps 3, "a", none⟩ [2, 2, 1] = some g ∧
    UPoly.normalize (primeOps 3) g = [2, 2, 1] :=
  ⟨_, rfl, (ext_modulus h32_three (n := 2) (by decide) rfl (by decide) rfl rfl).1⟩

end NonVacuity

end Assemble
end Algobra
