/-
  Proofs/Order.lean — helper lemmas for C09 (monomial orders of /repo/bivariate/orders.go and the
  leading data `Ld`, `Lc`, `Lt`, `SortedDegrees` of polynomial.go).

  Layers:
  1. `lexBase`, `lex` : an order on all of `Nat × Nat` (no word-size hypotheses needed).
  2. `IsOrd t` : the five laws of a tiebreak; `lex x` and `-1 * lex x` satisfy them.
  3. `degCompare` : range / zero / antisymmetry / transitivity hold for *wrapped* degrees as well;
     least element, translation invariance and degree-first need `wdeg = trueDeg`, i.e. `NoOverflow`.
  4. `insertDesc`, `sortedDegrees`, `ld` for any comparison that is a strict total order.
-/
import Mathlib.Tactic.SplitIfs
import Algobra.Model.BPoly

namespace Algobra
namespace Order

/-! ### definitions used by the property statements -/

/-- the weighted degree as a natural number (no truncation) -/
def trueDeg (wx wy : Nat) (a : Deg) : Nat := a.1 * wx + a.2 * wy

/-- the weighted degree of the order `o` (0 for the pure lexicographic order) -/
def weightedDeg (o : Order) (a : Deg) : Nat :=
  match o.kind with
  | .lex => 0
  | .wdeglex wx wy => trueDeg wx wy a
  | .wdegrevlex wx wy => trueDeg wx wy a

/-- the exponent pair and its weighted degree fit into a Go `uint` (64 bit) -/
def NoOverflow (o : Order) (a : Deg) : Prop :=
  a.1 < 2 ^ 64 ∧ a.2 < 2 ^ 64 ∧ weightedDeg o a < 2 ^ 64

/-- the constructor arguments for which the documentation promises a monomial order:
    `Lex`, `WDegLex` with arbitrary weights, `WDegRevLex` with positive weights
    (`DegLex = WDegLex 1 1`, `DegRevLex = WDegRevLex 1 1`). -/
def Admissible (o : Order) : Prop :=
  match o.kind with
  | .lex => True
  | .wdeglex _ _ => True
  | .wdegrevlex wx wy => 0 < wx ∧ 0 < wy

instance (o : Order) : Decidable (Admissible o) := by
  unfold Admissible; cases o.kind <;> infer_instance

instance (o : Order) (a : Deg) : Decidable (NoOverflow o a) := by
  unfold NoOverflow; infer_instance

/-! ### layer 1: `lexBase`, `lex` -/

theorem lexBase_range (a b : Deg) : lexBase a b = -1 ∨ lexBase a b = 0 ∨ lexBase a b = 1 := by
  unfold lexBase; split_ifs <;> simp

theorem lexBase_eq_zero_iff (a b : Deg) : lexBase a b = 0 ↔ a = b := by
  obtain ⟨a1, a2⟩ := a; obtain ⟨b1, b2⟩ := b
  simp only [lexBase, Prod.mk.injEq]
  split_ifs <;> first | omega | simp_all

theorem lexBase_antisymm (a b : Deg) : lexBase a b = - lexBase b a := by
  obtain ⟨a1, a2⟩ := a; obtain ⟨b1, b2⟩ := b
  simp only [lexBase, Prod.mk.injEq]
  split_ifs <;> omega

theorem lexBase_eq_one_iff (a b : Deg) :
    lexBase a b = 1 ↔ a.1 > b.1 ∨ (a.1 = b.1 ∧ a.2 > b.2) := by
  obtain ⟨a1, a2⟩ := a; obtain ⟨b1, b2⟩ := b
  simp only [lexBase, Prod.mk.injEq]
  split_ifs <;> (try simp only [false_iff, true_iff]) <;> omega

theorem lexBase_trans (a b c : Deg) (h1 : lexBase a b = 1) (h2 : lexBase b c = 1) :
    lexBase a c = 1 := by
  rw [lexBase_eq_one_iff] at *; omega

theorem lexBase_add (a b c : Deg) :
    lexBase (a.1 + c.1, a.2 + c.2) (b.1 + c.1, b.2 + c.2) = lexBase a b := by
  obtain ⟨a1, a2⟩ := a; obtain ⟨b1, b2⟩ := b; obtain ⟨c1, c2⟩ := c
  simp only [lexBase, Prod.mk.injEq]
  split_ifs <;> omega

theorem lexBase_zero_le (a : Deg) : lexBase (0, 0) a ≤ 0 := by
  obtain ⟨a1, a2⟩ := a
  simp only [lexBase, Prod.mk.injEq]
  split_ifs <;> omega

theorem swap_inj {a b : Deg} : swap a = swap b ↔ a = b := by
  obtain ⟨a1, a2⟩ := a; obtain ⟨b1, b2⟩ := b
  simp only [swap, Prod.mk.injEq]; omega

/-! ### layer 2: tiebreak laws -/

/-- the laws of a (translation invariant) strict total order given as a three-valued comparison -/
structure IsOrd (t : Deg → Deg → Int) : Prop where
  range : ∀ a b, t a b = -1 ∨ t a b = 0 ∨ t a b = 1
  eq_zero : ∀ a b, t a b = 0 ↔ a = b
  antisymm : ∀ a b, t a b = - t b a
  trans : ∀ a b c, t a b = 1 → t b c = 1 → t a c = 1
  add : ∀ a b c : Deg, t (a.1 + c.1, a.2 + c.2) (b.1 + c.1, b.2 + c.2) = t a b

theorem lex_isOrd (x : Bool) : IsOrd (lex x) := by
  cases x
  · refine ⟨?_, ?_, ?_, ?_, ?_⟩ <;> simp only [lex, Bool.false_eq_true, if_false]
    · exact fun a b => lexBase_range _ _
    · exact fun a b => (lexBase_eq_zero_iff _ _).trans swap_inj
    · exact fun a b => lexBase_antisymm _ _
    · exact fun a b c => lexBase_trans _ _ _
    · exact fun a b c => lexBase_add (swap a) (swap b) (swap c)
  · refine ⟨?_, ?_, ?_, ?_, ?_⟩ <;> simp only [lex, if_true]
    · exact fun a b => lexBase_range _ _
    · exact fun a b => lexBase_eq_zero_iff _ _
    · exact fun a b => lexBase_antisymm _ _
    · exact fun a b c => lexBase_trans _ _ _
    · exact fun a b c => lexBase_add a b c

theorem IsOrd.neg {t : Deg → Deg → Int} (h : IsOrd t) : IsOrd (fun a b => -1 * t a b) := by
  refine ⟨?_, ?_, ?_, ?_, ?_⟩
  · intro a b; have := h.range a b; omega
  · intro a b; rw [← h.eq_zero a b]; omega
  · intro a b; have := h.antisymm a b; omega
  · intro a b c h1 h2
    have e1 := h.antisymm a b; have e2 := h.antisymm b c; have e3 := h.antisymm a c
    have := h.trans c b a (by omega) (by omega)
    omega
  · intro a b c; simp only [h.add]

theorem lex_zero_le (x : Bool) (a : Deg) : lex x (0, 0) a ≤ 0 := by
  cases x
  · simp only [lex, Bool.false_eq_true, if_false]; exact lexBase_zero_le _
  · simp only [lex, if_true]; exact lexBase_zero_le _

/-! ### layer 3: `degCompare` -/

section degCompare
variable {t : Deg → Deg → Int} (ht : IsOrd t) (wx wy : Nat)
include ht

theorem degCompare_range (a b : Deg) :
    degCompare wx wy t a b = -1 ∨ degCompare wx wy t a b = 0 ∨ degCompare wx wy t a b = 1 := by
  unfold degCompare
  split_ifs
  · simp
  · simp
  · simp
  · exact ht.range a b

theorem degCompare_eq_zero_iff (a b : Deg) : degCompare wx wy t a b = 0 ↔ a = b := by
  unfold degCompare
  split_ifs with h1 h2 h3
  · simp [h1]
  · simp [h1]
  · simp [h1]
  · exact ht.eq_zero a b

theorem degCompare_antisymm (a b : Deg) :
    degCompare wx wy t a b = - degCompare wx wy t b a := by
  unfold degCompare
  have := ht.antisymm a b
  by_cases hab : a = b
  · subst hab; simp
  · have hba : ¬ b = a := fun h => hab h.symm
    simp only [hab, hba, if_false]
    split_ifs <;> omega

theorem degCompare_eq_one_iff (a b : Deg) :
    degCompare wx wy t a b = 1 ↔
      wdeg wx wy a > wdeg wx wy b ∨ (wdeg wx wy a = wdeg wx wy b ∧ t a b = 1) := by
  unfold degCompare
  have h0 := ht.eq_zero a b
  split_ifs with h1 h2 h3
  · have := h0.mpr h1; subst h1; omega
  · simp only [true_iff]; omega
  · simp only [false_iff]; omega
  · omega

theorem degCompare_trans (a b c : Deg) (h1 : degCompare wx wy t a b = 1)
    (h2 : degCompare wx wy t b c = 1) : degCompare wx wy t a c = 1 := by
  rw [degCompare_eq_one_iff ht] at *
  rcases h1 with h1 | ⟨h1, h1'⟩ <;> rcases h2 with h2 | ⟨h2, h2'⟩
  · left; omega
  · left; omega
  · left; omega
  · right; exact ⟨by omega, ht.trans a b c h1' h2'⟩

theorem degCompare_isOrdNoAdd :
    (∀ a b, degCompare wx wy t a b = -1 ∨ degCompare wx wy t a b = 0 ∨ degCompare wx wy t a b = 1) ∧
    (∀ a b, degCompare wx wy t a b = 0 ↔ a = b) ∧
    (∀ a b, degCompare wx wy t a b = - degCompare wx wy t b a) ∧
    (∀ a b c, degCompare wx wy t a b = 1 → degCompare wx wy t b c = 1 → degCompare wx wy t a c = 1) :=
  ⟨degCompare_range ht wx wy, degCompare_eq_zero_iff ht wx wy, degCompare_antisymm ht wx wy,
   degCompare_trans ht wx wy⟩

end degCompare

/-- without wrap-around the machine weighted degree is the true one -/
theorem wdeg_eq_trueDeg (wx wy : Nat) (a : Deg) (h : trueDeg wx wy a < 2 ^ 64) :
    wdeg wx wy a = trueDeg wx wy a := by
  unfold trueDeg at h
  unfold wdeg trueDeg w64
  rw [Nat.mod_eq_of_lt (a := a.1 * wx) (by omega), Nat.mod_eq_of_lt (a := a.2 * wy) (by omega),
    Nat.mod_eq_of_lt h]

theorem trueDeg_add (wx wy : Nat) (a c : Deg) :
    trueDeg wx wy (a.1 + c.1, a.2 + c.2) = trueDeg wx wy a + trueDeg wx wy c := by
  simp only [trueDeg, Nat.add_mul]; omega

theorem trueDeg_zero (wx wy : Nat) : trueDeg wx wy (0, 0) = 0 := by simp [trueDeg]

theorem trueDeg_pos (wx wy : Nat) (hx : 0 < wx) (hy : 0 < wy) (a : Deg) (ha : a ≠ (0, 0)) :
    0 < trueDeg wx wy a := by
  obtain ⟨a1, a2⟩ := a
  simp only [trueDeg]
  rcases Nat.eq_zero_or_pos a1 with h1 | h1
  · rcases Nat.eq_zero_or_pos a2 with h2 | h2
    · subst h1; subst h2; exact absurd rfl ha
    · have := Nat.mul_pos h2 hy; omega
  · have := Nat.mul_pos h1 hx; omega

theorem degCompare_add {t : Deg → Deg → Int} (ht : IsOrd t) (wx wy : Nat) (a b c : Deg)
    (ha : trueDeg wx wy (a.1 + c.1, a.2 + c.2) < 2 ^ 64)
    (hb : trueDeg wx wy (b.1 + c.1, b.2 + c.2) < 2 ^ 64) :
    degCompare wx wy t (a.1 + c.1, a.2 + c.2) (b.1 + c.1, b.2 + c.2) = degCompare wx wy t a b := by
  have ea := trueDeg_add wx wy a c
  have eb := trueDeg_add wx wy b c
  have ha' : trueDeg wx wy a < 2 ^ 64 := by omega
  have hb' : trueDeg wx wy b < 2 ^ 64 := by omega
  unfold degCompare
  rw [wdeg_eq_trueDeg _ _ _ ha, wdeg_eq_trueDeg _ _ _ hb, wdeg_eq_trueDeg _ _ _ ha',
    wdeg_eq_trueDeg _ _ _ hb', ea, eb, ht.add]
  have hiff : ((a.1 + c.1, a.2 + c.2) = (b.1 + c.1, b.2 + c.2)) ↔ a = b := by
    obtain ⟨a1, a2⟩ := a; obtain ⟨b1, b2⟩ := b
    simp only [Prod.mk.injEq]; omega
  by_cases hab : a = b
  · simp [hab]
  · have : ¬ ((a.1 + c.1, a.2 + c.2) = (b.1 + c.1, b.2 + c.2)) := fun h => hab (hiff.mp h)
    simp only [hab, this, if_false]
    split_ifs <;> omega

theorem degCompare_degree_first {t : Deg → Deg → Int} (wx wy : Nat) (a b : Deg)
    (ha : trueDeg wx wy a < 2 ^ 64) (hb : trueDeg wx wy b < 2 ^ 64)
    (h : trueDeg wx wy b < trueDeg wx wy a) : degCompare wx wy t a b = 1 := by
  unfold degCompare
  rw [wdeg_eq_trueDeg _ _ _ ha, wdeg_eq_trueDeg _ _ _ hb]
  have : a ≠ b := by rintro rfl; omega
  simp [this, h]

/-- equal weighted degrees: the tiebreak decides -/
theorem degCompare_tie {t : Deg → Deg → Int} (ht : IsOrd t) (wx wy : Nat) (a b : Deg)
    (ha : trueDeg wx wy a < 2 ^ 64) (hb : trueDeg wx wy b < 2 ^ 64)
    (h : trueDeg wx wy a = trueDeg wx wy b) : degCompare wx wy t a b = t a b := by
  unfold degCompare
  rw [wdeg_eq_trueDeg _ _ _ ha, wdeg_eq_trueDeg _ _ _ hb]
  split_ifs with h1 h2 h3
  · exact ((ht.eq_zero a b).mpr h1).symm
  · omega
  · omega
  · rfl

/-- `(0,0)` is least as soon as the tiebreak makes it least among the pairs of weighted degree 0 -/
theorem degCompare_zero_le {t : Deg → Deg → Int} (wx wy : Nat) (a : Deg)
    (ha : trueDeg wx wy a < 2 ^ 64)
    (htie : trueDeg wx wy a = 0 → t (0, 0) a ≤ 0) : degCompare wx wy t (0, 0) a ≤ 0 := by
  unfold degCompare
  rw [wdeg_eq_trueDeg _ _ _ ha, wdeg_eq_trueDeg _ _ (0, 0) (by rw [trueDeg_zero]; omega),
    trueDeg_zero]
  split_ifs with h1 h2 h3
  · omega
  · omega
  · omega
  · exact htie (by omega)

/-! ### the model comparison `cmp` -/

/-- three-valued strict total order (no translation invariance) -/
structure IsTot (t : Deg → Deg → Int) : Prop where
  range : ∀ a b, t a b = -1 ∨ t a b = 0 ∨ t a b = 1
  eq_zero : ∀ a b, t a b = 0 ↔ a = b
  antisymm : ∀ a b, t a b = - t b a
  trans : ∀ a b c, t a b = 1 → t b c = 1 → t a c = 1

theorem IsOrd.toTot {t : Deg → Deg → Int} (h : IsOrd t) : IsTot t :=
  ⟨h.range, h.eq_zero, h.antisymm, h.trans⟩

theorem IsTot.le_trans {t : Deg → Deg → Int} (h : IsTot t) {a b c : Deg}
    (h1 : t a b ≤ 0) (h2 : t b c ≤ 0) : t a c ≤ 0 := by
  rcases h.range a c with e | e | e
  · omega
  · omega
  · exfalso
    by_cases hab : t a b = 0
    · rw [h.eq_zero] at hab; subst hab; omega
    · by_cases hbc : t b c = 0
      · rw [h.eq_zero] at hbc; subst hbc; omega
      · have r2 := h.range b c
        have a2 := h.antisymm b c
        have := h.trans a c b e (by omega)
        omega

theorem IsTot.le_antisymm {t : Deg → Deg → Int} (h : IsTot t) {a b : Deg}
    (h1 : t a b ≤ 0) (h2 : t b a ≤ 0) : a = b := by
  have := h.antisymm a b
  exact (h.eq_zero a b).mp (by omega)

/-- every constructor yields a strict total order on all of `Nat × Nat`
    (also for wrapped weighted degrees and arbitrary weights) -/
theorem cmp_isTot (o : Order) : IsTot o.cmp := by
  obtain ⟨k, x⟩ := o
  cases k with
  | lex => exact (lex_isOrd x).toTot
  | wdeglex wx wy =>
    have ht := lex_isOrd x
    exact ⟨degCompare_range ht wx wy, degCompare_eq_zero_iff ht wx wy,
      degCompare_antisymm ht wx wy, degCompare_trans ht wx wy⟩
  | wdegrevlex wx wy =>
    have ht := (lex_isOrd (!x)).neg
    exact ⟨degCompare_range ht wx wy, degCompare_eq_zero_iff ht wx wy,
      degCompare_antisymm ht wx wy, degCompare_trans ht wx wy⟩

theorem cmp_add' (o : Order) (a b c : Deg)
    (ha : NoOverflow o (a.1 + c.1, a.2 + c.2)) (hb : NoOverflow o (b.1 + c.1, b.2 + c.2)) :
    o.cmp (a.1 + c.1, a.2 + c.2) (b.1 + c.1, b.2 + c.2) = o.cmp a b := by
  obtain ⟨k, x⟩ := o
  cases k with
  | lex => exact (lex_isOrd x).add a b c
  | wdeglex wx wy => exact degCompare_add (lex_isOrd x) wx wy a b c ha.2.2 hb.2.2
  | wdegrevlex wx wy => exact degCompare_add (lex_isOrd (!x)).neg wx wy a b c ha.2.2 hb.2.2

theorem cmp_zero_le' (o : Order) (hadm : Admissible o) (a : Deg) (ha : NoOverflow o a) :
    o.cmp (0, 0) a ≤ 0 := by
  obtain ⟨k, x⟩ := o
  cases k with
  | lex => exact lex_zero_le x a
  | wdeglex wx wy => exact degCompare_zero_le wx wy a ha.2.2 (fun _ => lex_zero_le x a)
  | wdegrevlex wx wy =>
    show degCompare wx wy (fun a b => -1 * lex (!x) a b) (0, 0) a ≤ 0
    refine degCompare_zero_le (t := fun a b => -1 * lex (!x) a b) wx wy a ha.2.2 (fun h0 => ?_)
    have hz : a = (0, 0) := by
      by_cases hne : a = (0, 0)
      · exact hne
      · have := trueDeg_pos wx wy hadm.1 hadm.2 a hne
        omega
    subst hz
    have := ((lex_isOrd (!x)).neg.eq_zero (0, 0) (0, 0)).mpr rfl
    omega

theorem cmp_degree_first' (o : Order) (hk : o.kind ≠ .lex) (a b : Deg)
    (ha : NoOverflow o a) (hb : NoOverflow o b) (h : weightedDeg o b < weightedDeg o a) :
    o.cmp a b = 1 := by
  obtain ⟨k, x⟩ := o
  cases k with
  | lex => exact absurd rfl hk
  | wdeglex wx wy => exact degCompare_degree_first wx wy a b ha.2.2 hb.2.2 h
  | wdegrevlex wx wy =>
    exact degCompare_degree_first (t := fun a b => -1 * lex (!x) a b) wx wy a b ha.2.2 hb.2.2 h

theorem cmp_tie_wdeglex (wx wy : Nat) (x : Bool) (a b : Deg)
    (ha : trueDeg wx wy a < 2 ^ 64) (hb : trueDeg wx wy b < 2 ^ 64)
    (h : trueDeg wx wy a = trueDeg wx wy b) :
    cmp ⟨.wdeglex wx wy, x⟩ a b = lex x a b :=
  degCompare_tie (lex_isOrd x) wx wy a b ha hb h

theorem cmp_tie_wdegrevlex (wx wy : Nat) (x : Bool) (a b : Deg)
    (ha : trueDeg wx wy a < 2 ^ 64) (hb : trueDeg wx wy b < 2 ^ 64)
    (h : trueDeg wx wy a = trueDeg wx wy b) :
    cmp ⟨.wdegrevlex wx wy, x⟩ a b = - lex (!x) a b := by
  have := degCompare_tie (lex_isOrd (!x)).neg wx wy a b ha hb h
  show degCompare wx wy (fun a b => -1 * lex (!x) a b) a b = _
  rw [this]; omega

end Order

/-! ### layer 4: `insertDesc`, `sortedDegrees`, `ld`, `lc`, `lt` -/

namespace BPoly
open Order
variable {α : Type}

/-- the key list (support) of a polynomial -/
abbrev okeys (f : BPoly α) : List Deg := f.map (·.1)

theorem insertDesc_perm (o : Order) (d : Deg) (l : List Deg) :
    (insertDesc o d l).Perm (d :: l) := by
  induction l with
  | nil => exact List.Perm.refl _
  | cons e t ih =>
    simp only [insertDesc]
    split_ifs
    · exact List.Perm.refl _
    · exact (List.Perm.cons e ih).trans (List.Perm.swap d e t)

theorem insertDesc_sorted (o : Order) (d : Deg) (l : List Deg) (hd : d ∉ l)
    (hs : l.Pairwise (fun a b => o.cmp a b = 1)) :
    (insertDesc o d l).Pairwise (fun a b => o.cmp a b = 1) := by
  have T := cmp_isTot o
  induction l with
  | nil => simp [insertDesc]
  | cons e t ih =>
    rw [List.pairwise_cons] at hs
    have hde : d ≠ e := fun h => hd (h ▸ List.mem_cons_self)
    have hdt : d ∉ t := fun h => hd (List.mem_cons_of_mem _ h)
    have hne : o.cmp d e ≠ 0 := fun h => hde ((T.eq_zero d e).mp h)
    have hr := T.range d e
    simp only [insertDesc]
    split_ifs with hge
    · have h1 : o.cmp d e = 1 := by omega
      refine List.Pairwise.cons ?_ (List.Pairwise.cons hs.1 hs.2)
      intro y hy
      rcases List.mem_cons.mp hy with rfl | hy
      · exact h1
      · exact T.trans d e y h1 (hs.1 y hy)
    · have h1 : o.cmp e d = 1 := by have := T.antisymm d e; omega
      refine List.Pairwise.cons ?_ (ih hdt hs.2)
      intro y hy
      have hy' := (insertDesc_perm o d t).mem_iff.mp hy
      rcases List.mem_cons.mp hy' with rfl | hy'
      · exact h1
      · exact hs.1 y hy'

theorem sortedDegrees_aux (o : Order) (f : BPoly α) (acc : List Deg)
    (hnd : (okeys f ++ acc).Nodup) (hs : acc.Pairwise (fun a b => o.cmp a b = 1)) :
    (f.foldl (fun acc (x : Deg × α) => insertDesc o x.1 acc) acc).Perm (okeys f ++ acc) ∧
    (f.foldl (fun acc (x : Deg × α) => insertDesc o x.1 acc) acc).Pairwise
      (fun a b => o.cmp a b = 1) := by
  induction f generalizing acc with
  | nil => exact ⟨List.Perm.refl _, hs⟩
  | cons p f ih =>
    simp only [List.foldl_cons]
    have hp : (insertDesc o p.1 acc).Perm (p.1 :: acc) := insertDesc_perm o p.1 acc
    have hmid : (okeys f ++ insertDesc o p.1 acc).Perm (okeys (p :: f) ++ acc) := by
      refine (List.Perm.append_left _ hp).trans ?_
      simp [okeys]
    have hnd' : (okeys f ++ insertDesc o p.1 acc).Nodup := hmid.nodup_iff.mpr hnd
    have hpacc : p.1 ∉ acc := by
      intro h
      have h' : (p.1 :: (okeys f ++ acc)).Nodup := by simpa [okeys] using hnd
      exact (List.nodup_cons.mp h').1 (List.mem_append_right _ h)
    obtain ⟨h1, h2⟩ := ih (insertDesc o p.1 acc) hnd' (insertDesc_sorted o p.1 acc hpacc hs)
    exact ⟨h1.trans hmid, h2⟩

theorem sortedDegrees_eq_foldl (o : Order) (f : BPoly α) :
    sortedDegrees o f = f.foldl (fun acc (x : Deg × α) => insertDesc o x.1 acc) [] := rfl

theorem sortedDegrees_perm (o : Order) (f : BPoly α) (hnd : (okeys f).Nodup) :
    (sortedDegrees o f).Perm (okeys f) := by
  have := (sortedDegrees_aux o f [] (by simpa using hnd) List.Pairwise.nil).1
  simpa [sortedDegrees_eq_foldl] using this

theorem sortedDegrees_sorted (o : Order) (f : BPoly α) (hnd : (okeys f).Nodup) :
    (sortedDegrees o f).Pairwise (fun a b => o.cmp a b = 1) := by
  have := (sortedDegrees_aux o f [] (by simpa using hnd) List.Pairwise.nil).2
  simpa [sortedDegrees_eq_foldl] using this

/-- the fold inside `Ld` started from an arbitrary `l0` -/
theorem ld_aux (o : Order) (f : BPoly α) (l0 r : Deg)
    (hr : f.foldl (fun l (x : Deg × α) => if o.cmp x.1 l = 1 then x.1 else l) l0 = r) :
    (r = l0 ∨ r ∈ okeys f) ∧ o.cmp l0 r ≤ 0 ∧ ∀ d ∈ okeys f, o.cmp d r ≤ 0 := by
  have T := cmp_isTot o
  induction f generalizing l0 with
  | nil =>
    simp only [List.foldl_nil] at hr
    subst hr
    refine ⟨Or.inl rfl, ?_, by simp [okeys]⟩
    have := (T.eq_zero l0 l0).mpr rfl
    omega
  | cons p f ih =>
    simp only [List.foldl_cons] at hr
    by_cases hc : o.cmp p.1 l0 = 1
    · simp only [hc, if_true] at hr
      obtain ⟨i1, i2, i3⟩ := ih p.1 hr
      refine ⟨?_, ?_, ?_⟩
      · rcases i1 with h | h
        · right; rw [h]; exact List.mem_cons_self
        · right; exact List.mem_cons_of_mem _ h
      · have : o.cmp l0 p.1 ≤ 0 := by have := T.antisymm p.1 l0; omega
        exact T.le_trans this i2
      · intro d hd
        rcases List.mem_cons.mp hd with rfl | hd
        · exact i2
        · exact i3 d hd
    · simp only [hc, if_false] at hr
      obtain ⟨i1, i2, i3⟩ := ih l0 hr
      refine ⟨?_, i2, ?_⟩
      · rcases i1 with h | h
        · left; exact h
        · right; exact List.mem_cons_of_mem _ h
      · intro d hd
        rcases List.mem_cons.mp hd with rfl | hd
        · have : o.cmp p.1 l0 ≤ 0 := by have := T.range p.1 l0; omega
          exact T.le_trans this i2
        · exact i3 d hd

theorem ld_eq_foldl (o : Order) (f : BPoly α) :
    ld o f = f.foldl (fun l (x : Deg × α) => if o.cmp x.1 l = 1 then x.1 else l) (0, 0) := rfl

/-- `Ld` dominates every key (no hypotheses on the order needed) -/
theorem ld_ge (o : Order) (f : BPoly α) : ∀ d ∈ okeys f, o.cmp d (ld o f) ≤ 0 := by
  exact (ld_aux o f (0, 0) _ (ld_eq_foldl o f).symm).2.2

theorem ld_mem_or (o : Order) (f : BPoly α) : ld o f = (0, 0) ∨ ld o f ∈ okeys f := by
  exact (ld_aux o f (0, 0) _ (ld_eq_foldl o f).symm).1

/-- `Ld` is a key as soon as `(0,0)` is below every key -/
theorem ld_mem (o : Order) (f : BPoly α) (hne : f ≠ [])
    (hleast : ∀ d ∈ okeys f, o.cmp (0, 0) d ≤ 0) : ld o f ∈ okeys f := by
  have T := cmp_isTot o
  rcases ld_mem_or o f with h | h
  · obtain ⟨p, hp⟩ := List.exists_mem_of_ne_nil f hne
    have hk : p.1 ∈ okeys f := List.mem_map_of_mem hp
    have h1 := ld_ge o f p.1 hk
    rw [h] at h1
    have : p.1 = (0, 0) := T.le_antisymm h1 (hleast p.1 hk)
    rw [h, ← this]; exact hk
  · exact h

/-- a key dominating all okeys is the head of the sorted support -/
theorem head_sorted_eq (o : Order) (l : List Deg) (hs : l.Pairwise (fun a b => o.cmp a b = 1))
    (m : Deg) (hm : m ∈ l) (hmax : ∀ d ∈ l, o.cmp d m ≤ 0) : l.head? = some m := by
  cases l with
  | nil => cases hm
  | cons e t =>
    rw [List.pairwise_cons] at hs
    simp only [List.head?_cons, Option.some.injEq]
    rcases List.mem_cons.mp hm with rfl | hm
    · rfl
    · have := hs.1 m hm
      have := hmax e List.mem_cons_self
      omega

theorem ld_eq_head (o : Order) (f : BPoly α) (hnd : (okeys f).Nodup) (hne : f ≠ [])
    (hleast : ∀ d ∈ okeys f, o.cmp (0, 0) d ≤ 0) :
    (sortedDegrees o f).head? = some (ld o f) := by
  have hp := sortedDegrees_perm o f hnd
  refine head_sorted_eq o _ (sortedDegrees_sorted o f hnd) _
    (hp.mem_iff.mpr (ld_mem o f hne hleast)) ?_
  intro d hd
  exact ld_ge o f d (hp.mem_iff.mp hd)

/-- with distinct okeys `Coef` returns the stored coefficient -/
theorem coef_of_mem_nodup (F : FOps α) (f : BPoly α) (hnd : (okeys f).Nodup) (d : Deg) (c : α)
    (h : (d, c) ∈ f) : coef F f d = c := by
  induction f with
  | nil => cases h
  | cons p f ih =>
    have hnd' : (p.1 :: okeys f).Nodup := by simpa [okeys] using hnd
    rw [List.nodup_cons] at hnd'
    unfold coef
    rw [List.find?_cons]
    rcases List.mem_cons.mp h with rfl | h
    · simp
    · have hne : (p.1 == d) = false := by
        apply beq_false_of_ne
        rintro rfl
        exact hnd'.1 (List.mem_map_of_mem (f := (·.1)) h)
      simp only [hne]
      exact ih hnd'.2 h

theorem lt_eq_single (F : FOps α) (o : Order) (f : BPoly α)
    (hnz : F.isZero (lc F o f) = false) : lt F o f = [(ld o f, lc F o f)] := by
  simp [lt, setCoef, hnz, put, has]

end BPoly
end Algobra
