/-
  Proofs/ParseRTAdd.lean — additivity of the univariate parser: the degree map of
  `polynomialStringToMap` accumulates repeated degrees (`mapAdd`), so the printed forms of two
  polynomials joined by " + " parse to their sum.  Helper of `Props/C15Full.lean`.
-/
import Algobra.Proofs.ParseRTPoly
import Algobra.Proofs.UPolyDiv

namespace Algobra.ParseRT
open Algobra Algobra.Strings Algobra.Parse Polynomial Algobra.UPoly

variable {α : Type} {F : FOps α} {K : Type} [Field K] (L : Lawful F K)

/-! ### joined lists -/

theorem JG_append (F : FOps α) (v : String) :
    ∀ (l1 l2 : List (α × Nat)), l1 ≠ [] → l2 ≠ [] →
    JG F v (l1 ++ l2) = JG F v l1 ++ ' ' :: '+' :: ' ' :: JG F v l2 := by
  intro l1
  induction l1 with
  | nil => intro _ h; exact absurd rfl h
  | cons t l1 ih =>
    intro l2 _ h2
    rw [List.cons_append, JG_cons, JG_cons]
    by_cases h1 : l1 = []
    · subst h1
      simp [RG, h2]
    · have : l1 ++ l2 ≠ [] := by simp [h1]
      simp only [RG, this, h1, if_false]
      rw [ih l2 h1 h2]
      simp

/-! ### the degree map as a coefficient function -/

section Rep
set_option linter.unusedSectionVars false
variable {κ : Type} [BEq κ] [LawfulBEq κ] [DecidableEq κ]

/-- `m` represents the coefficient function `φ` -/
def Rep (m : List (κ × α)) (φ : κ → K) : Prop :=
  (m.map (·.1)).Nodup ∧ (∀ t ∈ m, L.valid t.2 ∧ L.embed t.2 = φ t.1) ∧
    ∀ i, i ∉ m.map (·.1) → φ i = 0

theorem rep_nil : Rep L ([] : List (κ × α)) (fun _ => 0) := ⟨by simp, by simp, fun _ _ => rfl⟩

theorem Rep.congr {m : List (κ × α)} {φ ψ : κ → K} (h : Rep L m φ) (e : ∀ i, φ i = ψ i) :
    Rep L m ψ := by
  have : φ = ψ := funext e
  rw [← this]; exact h

theorem rep_mapAdd {m : List (κ × α)} {φ : κ → K} (h : Rep L m φ) (d : κ) {c : α}
    (hc : L.valid c) :
    Rep L (UPoly.mapAdd F m d c) (fun i => φ i + if i = d then L.embed c else 0) := by
  obtain ⟨hnd, hval, hzero⟩ := h
  unfold UPoly.mapAdd
  by_cases hd : d ∈ m.map (·.1)
  · have hany : m.any (fun x => x.1 == d) = true := by
      rw [List.any_eq_true]
      obtain ⟨x, hx, rfl⟩ := List.mem_map.1 hd
      exact ⟨x, hx, by simp⟩
    rw [hany]
    simp only [if_true]
    have hkeys : (m.map fun (x : κ × α) => match x with
        | (k', v) => if k' == d then (k', F.add v c) else (k', v)).map (·.1) = m.map (·.1) := by
      rw [List.map_map]
      apply List.map_congr_left
      rintro ⟨k', v⟩ _
      simp only [Function.comp]
      split <;> rfl
    refine ⟨by rw [hkeys]; exact hnd, ?_, ?_⟩
    · intro t' ht'
      obtain ⟨t, ht, rfl⟩ := List.mem_map.1 ht'
      obtain ⟨k', v⟩ := t
      obtain ⟨hv1, hv2⟩ := hval _ ht
      dsimp only at hv1 hv2 ⊢
      by_cases hk : k' = d
      · subst hk
        simp only [beq_self_eq_true, if_true]
        exact ⟨L.add_valid _ _ hv1 hc, by rw [L.embed_add _ _ hv1 hc, hv2]⟩
      · have : (k' == d) = false := by simpa using hk
        simp only [this, Bool.false_eq_true, if_false, hk]
        exact ⟨hv1, by rw [hv2]; simp⟩
    · intro i hi
      rw [hkeys] at hi
      have : i ≠ d := fun e => hi (e ▸ hd)
      simp [hzero i hi, this]
  · have hany : m.any (fun x => x.1 == d) = false := by
      rw [List.any_eq_false]
      intro x hx hxd
      exact hd (List.mem_map.2 ⟨x, hx, by simpa using hxd⟩)
    rw [hany]
    simp only [Bool.false_eq_true, if_false]
    refine ⟨?_, ?_, ?_⟩
    · rw [List.map_append]
      exact List.Nodup.append hnd (by simp) (by simpa using hd)
    · intro t ht
      rcases List.mem_append.1 ht with h1 | h1
      · obtain ⟨hv1, hv2⟩ := hval t h1
        have : t.1 ≠ d := fun e => hd (List.mem_map.2 ⟨t, h1, e⟩)
        exact ⟨hv1, by rw [hv2]; simp [this]⟩
      · simp only [List.mem_singleton] at h1
        subst h1
        exact ⟨hc, by simp [hzero d hd]⟩
    · intro i hi
      rw [List.map_append, List.mem_append, not_or] at hi
      have : i ≠ d := by simpa using hi.2
      simp [hzero i hi.1, this]

/-- the contribution of a term list to the coefficient of degree `i` -/
noncomputable def S (l : List (α × κ)) (i : κ) : K :=
  (l.map fun t => if i = t.2 then L.embed t.1 else 0).sum

theorem S_append (l1 l2 : List (α × κ)) (i : κ) : S L (l1 ++ l2) i = S L l1 i + S L l2 i := by
  simp [S]

theorem S_nodup (g : κ → α) : ∀ (ds : List κ), ds.Nodup → ∀ i,
    S L (ds.map fun d => (g d, d)) i = if i ∈ ds then L.embed (g i) else 0 := by
  intro ds
  induction ds with
  | nil => intro _ i; simp [S]
  | cons d ds ih =>
    intro hnd i
    have hd := (List.nodup_cons.1 hnd).1
    have := ih (List.nodup_cons.1 hnd).2 i
    simp only [S, List.map_cons, List.sum_cons] at this ⊢
    rw [this]
    by_cases h1 : i = d
    · subst h1; simp [hd]
    · by_cases h2 : i ∈ ds
      · simp [h1, h2]
      · simp [h1, h2]

theorem rep_foldl : ∀ (l : List (α × κ)), (∀ t ∈ l, L.valid t.1) →
    ∀ {m : List (κ × α)} {φ : κ → K}, Rep L m φ →
    Rep L (l.foldl (fun o t => UPoly.mapAdd F o t.2 t.1) m) (fun i => φ i + S L l i) := by
  intro l
  induction l with
  | nil => intro _ m φ h; exact h.congr L (fun i => by simp [S])
  | cons t l ih =>
    intro hl m φ h
    rw [List.foldl_cons]
    have := ih (fun u hu => hl u (by simp [hu])) (rep_mapAdd L h t.2 (hl t (by simp)))
    refine this.congr L (fun i => ?_)
    simp only [S, List.map_cons, List.sum_cons]
    ring

end Rep

/-! ### rebuilding from a represented map -/

theorem build_rep (φ : Nat → K) :
    ∀ (m : List (Nat × α)), (m.map (·.1)).Nodup → (∀ t ∈ m, L.valid t.2 ∧ L.embed t.2 = φ t.1) →
    ∀ (acc : UPoly α), WF L acc →
    WF L (m.foldl (fun f (x : Nat × α) => setCoef F f x.1 x.2) acc) ∧
    ∀ i, (toPoly L (m.foldl (fun f (x : Nat × α) => setCoef F f x.1 x.2) acc)).coeff i =
      if i ∈ m.map (·.1) then φ i else (toPoly L acc).coeff i := by
  intro m
  induction m with
  | nil => intro _ _ acc h; exact ⟨h, fun i => by simp⟩
  | cons t m ih =>
    intro hnd hval acc h
    rw [List.foldl_cons]
    obtain ⟨hv1, hv2⟩ := hval t (by simp)
    have hnd' : t.1 ∉ m.map (·.1) ∧ (m.map (·.1)).Nodup := by
      rw [List.map_cons] at hnd; exact List.nodup_cons.1 hnd
    obtain ⟨w1, w2⟩ := ih hnd'.2 (fun u hu => hval u (by simp [hu])) _ (setCoef_wf L h t.1 hv1)
    refine ⟨w1, fun i => ?_⟩
    rw [w2 i, coeff_setCoef L h t.1 hv1]
    by_cases h1 : i = t.1
    · subst h1
      have : t.1 ∉ m.map (·.1) := hnd'.1
      simp [this, hv2]
    · by_cases h2 : i ∈ m.map (·.1)
      · simp [h2]
      · simp [h1, h2]


/-- The printed forms of two well-formed polynomials joined by " + " parse to (the reduction of) a
    well-formed polynomial denoting their sum. -/
theorem upoly_parse_add (H : CoefRT F L.valid) (hz1 : F.toStr F.zero = "0")
    (hz2 : ¬ F.nTerms F.zero > 1) {v : String} (hdir : UPoly.directOK F v = true)
    (hun : ∀ w X, F.ownVar = some w → strip w.toList (v.toList ++ X) = none)
    (mod : Option (UPoly α)) {f1 f2 : UPoly α} (hf1 : WF L f1) (hf2 : WF L f2)
    (hl1 : f1.length ≤ 2 ^ 63) (hl2 : f2.length ≤ 2 ^ 63) :
    ∃ b, WF L b ∧ toPoly L b = toPoly L f1 + toPoly L f2 ∧
      UPoly.parse { F := F, varName := v, modulus := mod }
        (UPoly.toStr F v f1 ++ " + " ++ UPoly.toStr F v f2) =
          .ok (reduceIn { F := F, varName := v, modulus := mod } b) := by
  have hsv : simpleName v = true := by
    unfold UPoly.directOK at hdir
    exact (Bool.and_eq_true_iff.1 hdir).1
  obtain ⟨x0, vt, hv, hx, _⟩ := simpleName_iff.1 hsv
  obtain ⟨ds1, g1, hnd1, hne1, hg1, hlt1, hstr1, hco1⟩ := printed_terms L hz1 hz2 v hf1
  obtain ⟨ds2, g2, hnd2, hne2, hg2, hlt2, hstr2, hco2⟩ := printed_terms L hz1 hz2 v hf2
  have hn1 : ds1.map (fun d => (g1 d, d)) ≠ [] := by simpa using hne1
  have hn2 : ds2.map (fun d => (g2 d, d)) ≠ [] := by simpa using hne2
  let l := ds1.map (fun d => (g1 d, d)) ++ ds2.map (fun d => (g2 d, d))
  have hstr : (UPoly.toStr F v f1 ++ " + " ++ UPoly.toStr F v f2).toList = JG F v l := by
    rw [JG_append F v _ _ hn1 hn2, ← hstr1, ← hstr2]
    simp
  have hlv : ∀ t ∈ l, L.valid t.1 ∧ t.2 < 2 ^ 63 := by
    intro t ht
    rcases List.mem_append.1 ht with h | h
    · obtain ⟨d, hd, rfl⟩ := List.mem_map.1 h
      exact ⟨hg1 d, by have := hlt1 d hd; omega⟩
    · obtain ⟨d, hd, rfl⟩ := List.mem_map.1 h
      exact ⟨hg2 d, by have := hlt2 d hd; omega⟩
  have hln : l ≠ [] := by simp [l, hn1]
  obtain ⟨ms, h1, h2⟩ := loopU_terms H hv hx hun l hln hlv [] (Or.inl rfl) (JG F v l).length []
    (by simp)
  have hrep := rep_foldl L l (fun t ht => (hlv t ht).1) (rep_nil L)
  obtain ⟨hnd, hval, hzero⟩ := hrep
  obtain ⟨hwf, hcoef⟩ := build_rep L (fun i => 0 + S L l i) _ hnd hval (zero F) (wf_zero L)
  refine ⟨_, hwf, ?_, ?_⟩
  · ext i
    rw [hcoef i, coeff_add, hco1 i, hco2 i, toPoly_zero]
    by_cases hi : i ∈ (l.foldl (fun o t => UPoly.mapAdd F o t.2 t.1) []).map (·.1)
    · rw [if_pos hi]
      show (0 : K) + S L l i = _
      rw [S_append, S_nodup L g1 ds1 hnd1, S_nodup L g2 ds2 hnd2]; simp
    · rw [if_neg hi]
      have := hzero i hi
      dsimp only at this
      rw [S_append, S_nodup L g1 ds1 hnd1, S_nodup L g2 ds2 hnd2] at this
      simpa using this.symm
  · have hmap : UPoly.stringToMap F v (UPoly.toStr F v f1 ++ " + " ++ UPoly.toStr F v f2) =
        .ok (l.foldl (fun o t => UPoly.mapAdd F o t.2 t.1) []) := by
      unfold UPoly.stringToMap
      rw [if_pos hdir]
      have hm : matchesU F.ownVar v (UPoly.toStr F v f1 ++ " + " ++ UPoly.toStr F v f2) =
          some ms := by
        unfold matchesU
        have hnil : (UPoly.toStr F v f1 ++ " + " ++ UPoly.toStr F v f2).toList.isEmpty = false := by
          simp
        rw [hnil]
        simp only [Bool.false_eq_true, if_false]
        rw [hstr]
        exact h1
      rw [hm]
      dsimp only
      rw [h2]
    unfold UPoly.parse
    rw [hmap]

end Algobra.ParseRT
