/-
  Proofs/ParseRTPoly.lean — from the matches of a printed univariate polynomial back to the
  polynomial: the degree map, the coefficient list rebuilt from it (`setCoef` from zero), for any
  lawful coefficient record with a `CoefRT` coefficient syntax.  Helper of `Props/C15Full.lean`.
-/
import Algobra.Proofs.ParseRTU
import Algobra.Proofs.UPolyRefine

namespace Algobra.ParseRT
open Algobra Algobra.Strings Algobra.Parse Polynomial Algobra.UPoly

variable {α : Type} {F : FOps α} {K : Type} [Field K] (L : Lawful F K)

/-! ### the degree map of distinct degrees -/

theorem mapAdd_new (F : FOps α) (m : List (Nat × α)) (k : Nat) (c : α) (h : ∀ x ∈ m, x.1 ≠ k) :
    UPoly.mapAdd F m k c = m ++ [(k, c)] := by
  unfold UPoly.mapAdd
  have : m.any (fun x => x.1 == k) = false := by
    rw [List.any_eq_false]; intro x hx; simpa using h x hx
  rw [this]; rfl

theorem foldl_mapAdd_nodup (F : FOps α) (g : Nat → α) :
    ∀ (ds : List Nat), ds.Nodup → ∀ (out : List (Nat × α)), (∀ x ∈ out, x.1 ∉ ds) →
    (ds.map (fun d => (g d, d))).foldl (fun o t => UPoly.mapAdd F o t.2 t.1) out =
      out ++ ds.map (fun d => (d, g d)) := by
  intro ds
  induction ds with
  | nil => intro _ out _; simp
  | cons d ds ih =>
    intro hnd out hout
    rw [List.map_cons, List.foldl_cons]
    dsimp only
    rw [mapAdd_new F out d (g d) (fun x hx e => hout x hx (by simp [e])),
      ih (List.nodup_cons.1 hnd).2]
    · simp
    · intro x hx
      rcases List.mem_append.1 hx with h | h
      · exact fun hm => hout x h (List.mem_cons_of_mem _ hm)
      · simp only [List.mem_singleton] at h
        rw [h]; exact (List.nodup_cons.1 hnd).1

/-! ### rebuilding the coefficient list -/

theorem build_wf (g : Nat → α) (hg : ∀ d, L.valid (g d)) :
    ∀ (ds : List Nat) (acc : UPoly α), WF L acc →
    WF L ((ds.map (fun d => (d, g d))).foldl (fun f (x : Nat × α) => setCoef F f x.1 x.2) acc) := by
  intro ds
  induction ds with
  | nil => intro acc h; exact h
  | cons d ds ih =>
    intro acc h
    rw [List.map_cons, List.foldl_cons]
    exact ih _ (setCoef_wf L h d (hg d))

theorem coeff_build (g : Nat → α) (hg : ∀ d, L.valid (g d)) :
    ∀ (ds : List Nat), ds.Nodup → ∀ (acc : UPoly α), WF L acc → ∀ i,
    (toPoly L ((ds.map (fun d => (d, g d))).foldl
        (fun f (x : Nat × α) => setCoef F f x.1 x.2) acc)).coeff i =
      if i ∈ ds then L.embed (g i) else (toPoly L acc).coeff i := by
  intro ds
  induction ds with
  | nil => intro _ acc _ i; simp
  | cons d ds ih =>
    intro hnd acc h i
    rw [List.map_cons, List.foldl_cons, ih (List.nodup_cons.1 hnd).2 _ (setCoef_wf L h d (hg d)),
      coeff_setCoef L h d (hg d)]
    have hd := (List.nodup_cons.1 hnd).1
    by_cases h1 : i = d
    · subst h1; simp [hd]
    · by_cases h2 : i ∈ ds
      · simp [h2]
      · simp [h1, h2]

/-- a well-formed polynomial is rebuilt from the map of its support -/
theorem build_eq (g : Nat → α) (hg : ∀ d, L.valid (g d)) (ds : List Nat) (hnd : ds.Nodup)
    {f : UPoly α} (hf : WF L f)
    (hco : ∀ i, (toPoly L f).coeff i = if i ∈ ds then L.embed (g i) else 0) :
    (ds.map (fun d => (d, g d))).foldl (fun f (x : Nat × α) => setCoef F f x.1 x.2) (zero F) = f := by
  apply toPoly_injective_on_WF L (build_wf L g hg ds _ (wf_zero L)) hf
  ext i
  rw [coeff_build L g hg ds hnd _ (wf_zero L), hco, toPoly_zero]
  simp


/-! ### the printed form as a joined term list -/

theorem toStr_eq_terms (F : FOps α) (v : String) (f : UPoly α) :
    UPoly.toStr F v f =
      if isZero F f then "0"
      else " + ".intercalate ((degrees F f).map fun d => termStr F v (coef F f d) d) := rfl

theorem coef_valid {f : UPoly α} (hf : AllValid L f) (d : Nat) : L.valid (coef F f d) := by
  unfold coef
  rw [List.getD_eq_getElem?_getD]
  cases h : f[d]? with
  | none => exact L.zero_valid
  | some c => exact hf c (List.mem_of_getElem? h)

/-- support, coefficients and printed form of a well-formed polynomial -/
theorem printed_terms (hz1 : F.toStr F.zero = "0") (hz2 : ¬ F.nTerms F.zero > 1) (v : String)
    {f : UPoly α} (hf : WF L f) :
    ∃ (ds : List Nat) (g : Nat → α), ds.Nodup ∧ ds ≠ [] ∧ (∀ d, L.valid (g d)) ∧
      (∀ d ∈ ds, d < f.length) ∧
      (UPoly.toStr F v f).toList = JG F v (ds.map fun d => (g d, d)) ∧
      (∀ i, (toPoly L f).coeff i = if i ∈ ds then L.embed (g i) else 0) := by
  by_cases hz : isZero F f = true
  · refine ⟨[0], fun _ => F.zero, by simp, by simp, fun _ => L.zero_valid, ?_, ?_, ?_⟩
    · intro d hd
      have : f ≠ [] := hf.2.1
      have := List.length_pos_iff.2 this
      simp at hd; omega
    · rw [toStr_eq_terms, if_pos hz]
      simp [JG, termStr, hz1, hz2]
    · intro i
      have : f = zero F := by
        cases f with
        | nil => simp [isZero] at hz
        | cons c t =>
          cases t with
          | nil =>
            have hc : L.valid c := hf.1 c (by simp)
            have h0 : F.isZero c = true := by simpa [isZero] using hz
            rw [L.eq_zero_of_embed c hc ((L.isZero_iff c hc).1 h0)]; rfl
          | cons _ _ => simp [isZero] at hz
      rw [this, toPoly_zero, L.embed_zero]; simp
  · have hne : degrees F f ≠ [] := by
      intro he
      apply hz
      have : toPoly L f = 0 := by
        ext i
        have := (mem_degrees L hf.1 i).not
        rw [he] at this
        simpa using this
      rw [eq_zero_of_toPoly_eq_zero L hf this]
      simpa [isZero, zero] using (L.isZero_iff F.zero L.zero_valid).2 L.embed_zero
    refine ⟨degrees F f, coef F f, degrees_nodup f, hne, coef_valid L hf.1, ?_, ?_, ?_⟩
    · intro d hd
      by_contra hlt
      exact (mem_degrees L hf.1 d).1 hd (coeff_toPoly_of_le L f d (by omega))
    · rw [toStr_eq_terms, if_neg hz]
      simp [JG, List.map_map, Function.comp_def]
    · intro i
      by_cases hi : i ∈ degrees F f
      · rw [if_pos hi, coeff_toPoly_coef]
      · rw [if_neg hi]
        by_contra h
        exact hi ((mem_degrees L hf.1 i).2 h)

/-- Round trip of univariate polynomials through the total tokeniser, for a lawful coefficient
    record whose printed elements the coefficient syntax reads back. -/
theorem upoly_parse_toStr (H : CoefRT F L.valid) (hz1 : F.toStr F.zero = "0")
    (hz2 : ¬ F.nTerms F.zero > 1) {v : String} (hdir : UPoly.directOK F v = true)
    (hun : ∀ w X, F.ownVar = some w → strip w.toList (v.toList ++ X) = none)
    (mod : Option (UPoly α)) {f : UPoly α} (hf : WF L f) (hlen : f.length ≤ 2 ^ 63)
    (hred : reduceIn { F := F, varName := v, modulus := mod } f = some f) :
    UPoly.parse { F := F, varName := v, modulus := mod } (UPoly.toStr F v f) = .ok (some f) := by
  have hsv : simpleName v = true := by
    unfold UPoly.directOK at hdir
    exact (Bool.and_eq_true_iff.1 hdir).1
  obtain ⟨x0, vt, hv, hx, _⟩ := simpleName_iff.1 hsv
  obtain ⟨ds, g, hnd, hne, hg, hlt, hstr, hco⟩ := printed_terms L hz1 hz2 v hf
  have hne' : ds.map (fun d => (g d, d)) ≠ [] := by simpa using hne
  obtain ⟨ms, h1, h2⟩ := loopU_terms H hv hx hun (ds.map fun d => (g d, d)) hne'
    (by
      intro t ht
      obtain ⟨d, hd, rfl⟩ := List.mem_map.1 ht
      exact ⟨hg d, by have := hlt d hd; omega⟩)
    [] (Or.inl rfl) (JG F v (ds.map fun d => (g d, d))).length [] (by simp)
  have hmap : UPoly.stringToMap F v (UPoly.toStr F v f) = .ok (ds.map fun d => (d, g d)) := by
    unfold UPoly.stringToMap
    rw [if_pos hdir]
    have hm : matchesU F.ownVar v (UPoly.toStr F v f) = some ms := by
      unfold matchesU
      have hnil : (UPoly.toStr F v f).toList.isEmpty = false := by
        rw [hstr]
        cases hj : JG F v (ds.map fun d => (g d, d)) with
        | nil =>
          exfalso
          obtain ⟨d, ds', rfl⟩ := List.exists_cons_of_ne_nil hne
          rw [List.map_cons, JG_cons] at hj
          obtain ⟨y, t, hT, _⟩ := termChars_head H hv hx (hg d) d (RG F v (ds'.map fun d => (g d, d)))
          rw [hT] at hj; cases hj
        | cons _ _ => rfl
      rw [hnil]
      simp only [Bool.false_eq_true, if_false]
      rw [hstr]
      exact h1
    rw [hm]
    dsimp only
    rw [h2, foldl_mapAdd_nodup F g ds hnd [] (by simp)]
    simp
  unfold UPoly.parse
  rw [hmap]
  dsimp only
  have hb := build_eq L g hg ds hnd hf hco
  have : (ds.map fun d => (d, g d)).foldl
      (fun f (x : Nat × α) => match x with | (d, c) => setCoef F f d c) (zero F) = f := hb
  rw [this, hred]

end Algobra.ParseRT
