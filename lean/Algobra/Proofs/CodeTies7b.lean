/-
  Proofs/CodeTies7b.lean — helper lemmas for Props/CodeTies7.lean, part 2: the word-level element
  constructors / observers of binfield and primefield.
-/
import Algobra.Gen.Code
import Algobra.Model.Ext
import Algobra.Proofs.CodeTies

namespace Algobra
namespace CodeTies7Proofs
open Algobra Algobra.Gen.Code Algobra.CodeTiesProofs

theorem popCount_le_bitLen : ∀ (fuel a : Nat), a < 2 ^ fuel → popCount a ≤ fuel := by
  intro fuel
  induction fuel with
  | zero => intro a h; have : a = 0 := by omega
            subst this; rw [popCount]; simp
  | succ f ih =>
    intro a h
    rw [popCount]
    split
    · omega
    · have := ih (a / 2) (by rw [Nat.pow_succ] at h; omega)
      omega

theorem bin_nTerms {a : Nat} (ha : a < 2 ^ 64) : go_binfield_Element_NTerms a = popCount a := by
  unfold go_binfield_Element_NTerms
  have := popCount_le_bitLen 64 a ha
  exact intToWord_ofNat (by omega)

theorem bin_fromSigned (v : Int) : go_binfield_Field_ElementFromSigned v = some (Bin.fromSigned v) := by
  unfold go_binfield_Field_ElementFromSigned Bin.fromSigned goMod
  have h1 : -2 < Int.tmod v 2 := Int.lt_tmod_of_pos v (by decide)
  have h2 : Int.tmod v 2 < 2 := Int.tmod_lt_of_pos v (by decide)
  generalize Int.tmod v 2 = r at h1 h2
  by_cases hneg : r < 0
  · have hw : wrapInt (r + 2) = r + 2 := wrapInt_of_small (by omega) (by omega)
    simp only [hneg, ↓reduceIte, hw]
  · simp only [hneg, ↓reduceIte]

end CodeTies7Proofs
end Algobra
