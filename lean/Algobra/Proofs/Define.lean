/-
  Proofs/Define.lean — helper lemmas for property C03 (the four `Define` functions, `Card`, `Char`,
  `MultGenerator` of prime fields).  Closed forms of the model functions
  `Algobra.Prime.define`, `Algobra.Define.{prime, bin, ext, any}`, `Algobra.Bin.card`,
  `Algobra.Ext.card` obtained from the C19 specification of `Auxmath.factorizePrimePower`.
-/
import Mathlib.Tactic.NormNum.Prime
import Mathlib.Data.Nat.Prime.Pow
import Algobra.Props.C19
import Algobra.Props.C01Prime
import Algobra.Model.Conway

namespace Algobra
open Algobra

namespace Define

/-- the size limit of `primefield.Define`: `1 << (bits.UintSize/2) = 2^32` -/
theorem shift_half : (1 : Nat) <<< (uintSize / 2) = 2 ^ 32 := by decide

/-- the size limit of `binfield.Define`: `bits.UintSize/2 = 32` -/
theorem uintSize_half : uintSize / 2 = 32 := by decide

/-- a prime power `p^n` (`n > 0`) is at least 2 -/
theorem two_le_pp {p n : Nat} (hp : p.Prime) (hn : 0 < n) : 2 ≤ p ^ n :=
  calc 2 ≤ p := hp.two_le
    _ = p ^ 1 := (Nat.pow_one _).symm
    _ ≤ p ^ n := Nat.pow_le_pow_right hp.pos hn

/-- uniqueness of the prime-power decomposition -/
theorem pp_unique {p n p' n' : Nat} (hp : p.Prime) (hp' : p'.Prime) (hn : 0 < n) (_hn' : 0 < n')
    (h : p ^ n = p' ^ n') : p = p' ∧ n = n' := by
  have hpp : p = p' := by
    have h1 : p ∣ p' ^ n' := h ▸ dvd_pow_self p (by omega)
    exact (Nat.prime_dvd_prime_iff_eq hp hp').1 (hp.dvd_of_dvd_pow h1)
  subst hpp
  exact ⟨rfl, Nat.pow_right_injective hp.two_le h⟩

/-! ### primefield.Define -/

/-- closed form of `primefield.Define` (the size test precedes the primality test) -/
theorem primeDefine_eq {q : Nat} (hq : q < 2 ^ 64) :
    Prime.define q =
      if q = 0 then .error .inputValue
      else if q - 1 ≥ 2 ^ 32 then .error .inputTooLarge
      else if q.Prime then .ok q else .error .inputValue := by
  unfold Prime.define
  rw [shift_half]
  split
  · rfl
  · split
    · rfl
    · by_cases hp : q.Prime
      · rw [if_pos hp, C19.factorizePrimePower_complete hq hp Nat.one_pos (pow_one q)]
        simp
      · rw [if_neg hp]
        cases hres : Auxmath.factorizePrimePower q with
        | error k => rw [C19.factorizePrimePower_error hres]
        | ok pn =>
          obtain ⟨p, n⟩ := pn
          obtain ⟨hpp, hn, hpn⟩ := C19.factorizePrimePower_sound hq hres
          have : n ≠ 1 := by
            rintro rfl
            rw [pow_one] at hpn
            exact hp (hpn ▸ hpp)
          simp [this]

/-- on a prime argument only the size test remains -/
theorem primeDefine_prime {p : Nat} (hp : p.Prime) (hq : p < 2 ^ 64) :
    Prime.define p = if p - 1 ≥ 2 ^ 32 then .error .inputTooLarge else .ok p := by
  rw [primeDefine_eq hq, if_neg hp.ne_zero, if_pos hp]

theorem prime_eq {q : Nat} (hq : q < 2 ^ 64) :
    Define.prime q =
      if q = 0 then .error .inputValue
      else if q - 1 ≥ 2 ^ 32 then .error .inputTooLarge
      else if q.Prime then .ok (.prime q) else .error .inputValue := by
  unfold Define.prime
  rw [primeDefine_eq hq]
  split
  · rfl
  · split
    · rfl
    · split <;> rfl

/-! ### binfield.Define -/

/-- `binfield.Define` on a power of two -/
theorem bin_pow (db : String) {n : Nat} (hn : 0 < n) (hq : 2 ^ n < 2 ^ 64) :
    Define.bin db (2 ^ n) =
      if n > 32 then .error .inputTooLarge
      else match Conway.lookupIn db 2 n with
        | .error k => .error k
        | .ok cs => .ok (.bin n (Bin.polyFromCoefs cs)) := by
  unfold Define.bin
  rw [if_neg (by positivity), C19.factorizePrimePower_complete hq Nat.prime_two hn rfl]
  simp only [ne_eq, not_true_eq_false, if_false, uintSize_half]
  rfl

/-- `binfield.Define` on anything else -/
theorem bin_not_pow (db : String) {q : Nat} (hq : q < 2 ^ 64) (h : ¬ ∃ n, 0 < n ∧ q = 2 ^ n) :
    Define.bin db q = .error .inputValue := by
  unfold Define.bin
  split
  · rfl
  · cases hres : Auxmath.factorizePrimePower q with
    | error k => simp [C19.factorizePrimePower_error hres]
    | ok pn =>
      obtain ⟨p, k⟩ := pn
      obtain ⟨hpp, hk, hpk⟩ := C19.factorizePrimePower_sound hq hres
      have : p ≠ 2 := by
        rintro rfl
        exact h ⟨k, hk, hpk.symm⟩
      simp [this]

/-! ### extfield.Define -/

/-- `PolynomialFromUnsigned` in a ring without modulus never fails -/
theorem ofNats_none_some {α : Type} (F : FOps α) (v : String) (cs : List Nat) :
    ∃ g, UPoly.ofNats ⟨F, v, none⟩ cs = some g :=
  ⟨_, rfl⟩

/-- `extfield.Define` on a prime power -/
theorem ext_pp (db : String) {p n : Nat} (hp : p.Prime) (hn : 0 < n) (hq : p ^ n < 2 ^ 64) :
    Define.ext db (p ^ n) =
      if p - 1 ≥ 2 ^ 32 then .error .inputTooLarge
      else match Conway.lookupIn db p n with
        | .error k => .error k
        | .ok cs =>
          match UPoly.ofNats ⟨primeOps p, "a", none⟩ cs with
          | none => .error .internal
          | some g => .ok (.ext p n (UPoly.normalize (primeOps p) g)) := by
  have hp64 : p < 2 ^ 64 := by
    calc p = p ^ 1 := (Nat.pow_one _).symm
      _ ≤ p ^ n := Nat.pow_le_pow_right hp.pos hn
      _ < 2 ^ 64 := hq
  unfold Define.ext
  rw [if_neg (by have := two_le_pp hp hn; omega),
    C19.factorizePrimePower_complete hq hp hn rfl]
  simp only [primeDefine_prime hp hp64]
  by_cases h : p - 1 ≥ 2 ^ 32
  · simp only [if_pos h]
  · simp only [if_neg h]
    rfl

/-- `extfield.Define` on anything else -/
theorem ext_not_pp (db : String) {q : Nat} (hq : q < 2 ^ 64)
    (h : ¬ ∃ p n, p.Prime ∧ 0 < n ∧ q = p ^ n) : Define.ext db q = .error .inputValue := by
  unfold Define.ext
  split
  · rfl
  · cases hres : Auxmath.factorizePrimePower q with
    | error k => simp [C19.factorizePrimePower_error hres]
    | ok pn =>
      obtain ⟨p, k⟩ := pn
      obtain ⟨hpp, hk, hpk⟩ := C19.factorizePrimePower_sound hq hres
      exact absurd ⟨p, k, hpp, hk, hpk.symm⟩ h

/-! ### finitefield.Define -/

theorem any_pp (db : String) {p n : Nat} (hp : p.Prime) (hn : 0 < n) (hq : p ^ n < 2 ^ 64) :
    Define.any db (p ^ n) =
      if p = 2 then Define.bin db (p ^ n)
      else if n = 1 then Define.prime (p ^ n)
      else Define.ext db (p ^ n) := by
  conv_lhs => unfold Define.any
  rw [C19.factorizePrimePower_complete hq hp hn rfl]

theorem any_not_pp (db : String) {q : Nat} (hq : q < 2 ^ 64)
    (h : ¬ ∃ p n, p.Prime ∧ 0 < n ∧ q = p ^ n) : Define.any db q = .error .inputValue := by
  unfold Define.any
  cases hres : Auxmath.factorizePrimePower q with
  | error k => rfl
  | ok pn =>
    obtain ⟨p, k⟩ := pn
    obtain ⟨hpp, hk, hpk⟩ := C19.factorizePrimePower_sound hq hres
    exact absurd ⟨p, k, hpp, hk, hpk.symm⟩ h

end Define

/-! ### Card -/

/-- `binfield.Card`: `1 << n` does not wrap for `n < 64` -/
theorem Bin.card_eq {n : Nat} (hn : n < 64) : Bin.card n = 2 ^ n := by
  unfold Bin.card w64
  rw [Nat.one_shiftLeft]
  exact Nat.mod_eq_of_lt (Nat.pow_lt_pow_right (by omega) hn)

/-- `extfield.Card`: the wrapping product `p·p·…·p` never wraps when `p^n` fits a word -/
theorem Ext.card_eq (p : Nat) : ∀ n : Nat, p ^ n < 2 ^ 64 → Ext.card p n = p ^ n := by
  intro n
  induction n with
  | zero => intro _; rfl
  | succ k ih =>
    intro h
    have hstep : Ext.card p (k + 1) = w64 (Ext.card p k * p) := by
      unfold Ext.card
      rw [List.range_succ, List.foldl_append]
      rfl
    rw [hstep]
    rcases Nat.eq_zero_or_pos p with h0 | h0
    · subst h0; simp [w64]
    · have hk : p ^ k < 2 ^ 64 :=
        lt_of_le_of_lt (Nat.pow_le_pow_right h0 (Nat.le_succ k)) h
      rw [ih hk, ← Nat.pow_succ]
      exact Nat.mod_eq_of_lt h

/-! ### MultGenerator -/

/-- the hypothesis `hfac` of `C01Prime.multGenerator_spec`, from the C19 specification of
    `Factorize` -/
theorem factorize_pred_mem {p : Nat} (hp : 2 ≤ p) (h64 : p - 1 < 2 ^ 64) (r : Nat) :
    r ∈ (Auxmath.factorize 64 (p - 1)).map (·.1) ↔ r.Prime ∧ r ∣ p - 1 := by
  have h1 : 1 ≤ p - 1 := by omega
  constructor
  · intro hr
    obtain ⟨pe, hmem, rfl⟩ := List.mem_map.1 hr
    obtain ⟨a, _, c⟩ := (C19.factorize_spec h1 h64).2.1 pe hmem
    exact ⟨a, c⟩
  · rintro ⟨hr, hd⟩
    exact C19.factorize_complete h1 h64 hr hd

end Algobra
