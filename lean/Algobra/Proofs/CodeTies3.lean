/-
  Proofs/CodeTies3.lean — helper lemmas for Props/CodeTies3.lean: equivalence of the MACHINE-TRANSLATED
  core of `binfield.(*Element).Inv` (`go_binfield_Element_Inv_core_loop1`, `go_binfield_Element_Inv_core`
  of `Algobra/Gen/Code.lean`, regenerated from /repo by /verif/extract/translate.go on every run) with the
  hand-written model `Bin.invLoop` / `Bin.inv` of Model/Field.lean.

  Core Lean + the model + the word / `bitLen` lemmas and the ties `bitQuoRem`, `bitProd`, `reduce` of
  Proofs/CodeTies.lean; no Mathlib.

  Plan.
  * word bounds of the model helpers: `Bin.bitProd` always returns a word (every summand is truncated
    with `w64`), `Bin.bitQuoRem a b` for a word `a` and `b ≠ 0` returns a word quotient and a remainder
    `≤ a` whose bit length is below that of `b`;
  * hence one round of the extended Euclid loop keeps `r0, r1, i0, i1 < 2^64` and strictly decreases
    `bitLen r1`; with the ties for the two helpers one translated round is one model round;
  * both loops are fuel-independent once the fuel is at least `bitLen r1` (measure `bitLen r1`).
-/
import Algobra.Proofs.CodeTies

namespace Algobra
namespace CodeTies3Proofs
open Algobra Algobra.Gen.Code Algobra.CodeTiesProofs

/-! ### word bounds of the model helpers -/

theorem w64_lt (x : Nat) : w64 x < 2 ^ 64 := Nat.mod_lt _ (Nat.two_pow_pos 64)

theorem xor_w64_lt {x : Nat} (hx : x < 2 ^ 64) (y : Nat) : x ^^^ w64 y < 2 ^ 64 :=
  Nat.xor_lt_two_pow hx (w64_lt y)

/-- the accumulator of `bitProdLoop` only ever gets truncated summands xor-ed in -/
theorem bitProdLoop_lt (b : Nat) : ∀ out a, out < 2 ^ 64 → Bin.bitProdLoop out a b < 2 ^ 64 := by
  induction b using Nat.strongRecOn with
  | _ b ih =>
    intro out a hout
    rw [Bin.bitProdLoop]
    by_cases hb0 : b = 0
    · simp only [hb0, ↓reduceDIte]; exact hout
    · simp only [hb0, ↓reduceDIte]
      exact ih (b / 2) (by omega) _ _ (xor_w64_lt hout _)

/-- `Bin.bitProd` returns a word, for all arguments -/
theorem bitProd_lt (a b : Nat) : Bin.bitProd a b < 2 ^ 64 :=
  bitProdLoop_lt b 0 a (Nat.two_pow_pos 64)

/-- `bitQuoRemLoop` for a non-zero divisor and a word dividend: the quotient stays a word, the remainder
    does not exceed the dividend and is shorter than the divisor -/
theorem bitQuoRemLoop_bounds {b : Nat} (hb : b ≠ 0) (a : Nat) : ∀ quo, a < 2 ^ 64 → quo < 2 ^ 64 →
    (Bin.bitQuoRemLoop b (bitLen b) quo a).1 < 2 ^ 64 ∧
    (Bin.bitQuoRemLoop b (bitLen b) quo a).2 ≤ a ∧
    bitLen (Bin.bitQuoRemLoop b (bitLen b) quo a).2 < bitLen b := by
  have hlb : 1 ≤ bitLen b := bitLen_pos hb
  induction a using Nat.strongRecOn with
  | _ a ih =>
    intro quo ha hquo
    by_cases ha0 : a = 0
    · subst ha0
      rw [Bin.bitQuoRemLoop]
      simp only [↓reduceDIte, bitLen_zero]
      exact ⟨hquo, Nat.le_refl _, by omega⟩
    · by_cases hl : bitLen a ≥ bitLen b
      · obtain ⟨s, hs⟩ : ∃ s, bitLen a = bitLen b + s := ⟨bitLen a - bitLen b, by omega⟩
        have hs' : bitLen a - bitLen b = s := by omega
        have hL64 : bitLen a ≤ 64 := bitLen_le_64 ha
        obtain ⟨k, hk⟩ : ∃ k, bitLen b = k + 1 := ⟨bitLen b - 1, by omega⟩
        have hblo : 2 ^ k ≤ b := by
          have := two_pow_bitLen_pred_le hb; rwa [hk] at this
        have hbhi : b < 2 ^ (k + 1) := by
          have := lt_two_pow_bitLen b; rwa [hk] at this
        have hlo : 2 ^ (k + s) ≤ b <<< s := by
          rw [Nat.shiftLeft_eq, Nat.pow_add]; exact Nat.mul_le_mul_right _ hblo
        have hhi : b <<< s < 2 ^ (k + s + 1) := by
          rw [Nat.shiftLeft_eq, show k + s + 1 = (k + 1) + s by omega, Nat.pow_add]
          exact Nat.mul_lt_mul_of_pos_right hbhi (Nat.two_pow_pos s)
        have halo : 2 ^ (k + s) ≤ a := by
          have := two_pow_bitLen_pred_le ha0
          rwa [show bitLen a - 1 = k + s by omega] at this
        have hahi : a < 2 ^ (k + s + 1) := by
          have := lt_two_pow_bitLen a
          rwa [show bitLen a = k + s + 1 by omega] at this
        have hw : w64 (b <<< s) = b <<< s :=
          w64_of_lt (Nat.lt_of_lt_of_le hhi (Nat.pow_le_pow_right (by decide) (by omega)))
        have hlt : a ^^^ b <<< s < a :=
          Nat.lt_of_lt_of_le (xor_lt_of_same_top halo hahi hlo hhi) halo
        rw [Bin.bitQuoRemLoop]
        simp only [ha0, ↓reduceDIte, hl, hs', hw, hlt, ↓reduceIte]
        obtain ⟨h1, h2, h3⟩ := ih _ hlt (quo ^^^ w64 (1 <<< s)) (Nat.lt_trans hlt ha)
          (xor_w64_lt hquo _)
        exact ⟨h1, Nat.le_trans h2 (Nat.le_of_lt hlt), h3⟩
      · rw [Bin.bitQuoRemLoop]
        simp only [ha0, ↓reduceDIte, hl]
        exact ⟨hquo, Nat.le_refl _, by omega⟩

theorem bitQuoRem_bounds {a b : Nat} (ha : a < 2 ^ 64) (hb : b ≠ 0) :
    (Bin.bitQuoRem a b).1 < 2 ^ 64 ∧ (Bin.bitQuoRem a b).2 ≤ a ∧
      bitLen (Bin.bitQuoRem a b).2 < bitLen b :=
  bitQuoRemLoop_bounds hb a 0 ha (Nat.two_pow_pos 64)

/-! ### one round -/

theorem invLoop_zero (r0 r1 i0 i1 : Nat) : Bin.invLoop r0 r1 i0 i1 0 = i0 := rfl

theorem invLoop_succ_zero (r0 i0 i1 fuel : Nat) : Bin.invLoop r0 0 i0 i1 (fuel + 1) = i0 := by
  simp [Bin.invLoop]

theorem invLoop_r1_zero (r0 i0 i1 fuel : Nat) : Bin.invLoop r0 0 i0 i1 fuel = i0 := by
  cases fuel
  · rfl
  · exact invLoop_succ_zero _ _ _ _

theorem invLoop_succ (r0 r1 i0 i1 fuel : Nat) (h : r1 ≠ 0) :
    Bin.invLoop r0 r1 i0 i1 (fuel + 1)
      = Bin.invLoop r1 (Bin.bitQuoRem r0 r1).2 i1
          (i0 ^^^ Bin.bitProd i1 (Bin.bitQuoRem r0 r1).1) fuel := by
  simp [Bin.invLoop, h]

/-- one translated round, with the two helper calls replaced by the model helpers -/
theorem go_inv_loop_succ (f i0 i1 : Nat) {r0 r1 : Nat} (hr0 : r0 < 2 ^ 64) (h : r1 ≠ 0) :
    go_binfield_Element_Inv_core_loop1 (f + 1) (i0, i1, r0, r1)
      = go_binfield_Element_Inv_core_loop1 f
          (i1, i0 ^^^ Bin.bitProd i1 (Bin.bitQuoRem r0 r1).1, r1, (Bin.bitQuoRem r0 r1).2) := by
  have hpos : r1 > 0 := Nat.pos_of_ne_zero h
  have hq : (Bin.bitQuoRem r0 r1).1 < 2 ^ 64 := (bitQuoRem_bounds hr0 h).1
  simp only [go_binfield_Element_Inv_core_loop1, hpos, ↓reduceIte, bitQuoRem hr0 h,
    bitProd i1 hq]

theorem go_inv_loop_r1_zero (f i0 i1 r0 : Nat) :
    go_binfield_Element_Inv_core_loop1 f (i0, i1, r0, 0) = (i0, i1, r0, 0) := by
  cases f <;> simp [go_binfield_Element_Inv_core_loop1]

/-! ### the loops -/

/-- the translated loop on `fuel` and the model loop on `fuel'` agree as soon as both fuels reach the
    bit length of the current remainder `r1` (which strictly decreases in every round) -/
theorem inv_loop (fuel : Nat) : ∀ (fuel' i0 i1 r0 r1 : Nat), r0 < 2 ^ 64 → r1 < 2 ^ 64 →
    bitLen r1 ≤ fuel → bitLen r1 ≤ fuel' →
    (go_binfield_Element_Inv_core_loop1 fuel (i0, i1, r0, r1)).1
      = Bin.invLoop r0 r1 i0 i1 fuel' := by
  induction fuel with
  | zero =>
    intro fuel' i0 i1 r0 r1 _ _ hf _
    have h0 : r1 = 0 := bitLen_eq_zero_iff.1 (by omega)
    subst h0
    rw [invLoop_r1_zero, go_inv_loop_r1_zero]
  | succ f ih =>
    intro fuel' i0 i1 r0 r1 hr0 hr1 hf hf'
    by_cases h0 : r1 = 0
    · subst h0
      rw [invLoop_r1_zero, go_inv_loop_r1_zero]
    · have hb := bitLen_pos h0
      obtain ⟨g, hg⟩ : ∃ g, fuel' = g + 1 := ⟨fuel' - 1, by omega⟩
      subst hg
      obtain ⟨_, hrem, hlen⟩ := bitQuoRem_bounds hr0 h0
      rw [go_inv_loop_succ f i0 i1 hr0 h0, invLoop_succ _ _ _ _ _ h0]
      exact ih g _ _ _ _ hr1 (Nat.lt_of_le_of_lt hrem hr0) (by omega) (by omega)

/-- the model loop does not depend on the fuel once it reaches `bitLen r1` -/
theorem invLoop_fuel_indep {fuel fuel' r0 r1 : Nat} (i0 i1 : Nat) (hr0 : r0 < 2 ^ 64)
    (hr1 : r1 < 2 ^ 64) (hf : bitLen r1 ≤ fuel) (hf' : bitLen r1 ≤ fuel') :
    Bin.invLoop r0 r1 i0 i1 fuel = Bin.invLoop r0 r1 i0 i1 fuel' := by
  rw [← inv_loop fuel fuel i0 i1 r0 r1 hr0 hr1 hf hf, inv_loop fuel fuel' i0 i1 r0 r1 hr0 hr1 hf hf']

/-- the model loop returns a word when started on word coefficients -/
theorem invLoop_lt (fuel : Nat) : ∀ (i0 i1 r0 r1 : Nat), i0 < 2 ^ 64 → i1 < 2 ^ 64 →
    Bin.invLoop r0 r1 i0 i1 fuel < 2 ^ 64 := by
  induction fuel with
  | zero => intro i0 i1 r0 r1 h0 _; exact h0
  | succ f ih =>
    intro i0 i1 r0 r1 h0 h1
    by_cases hr : r1 = 0
    · subst hr; rw [invLoop_succ_zero]; exact h0
    · rw [invLoop_succ _ _ _ _ _ hr]
      exact ih _ _ _ _ h1 (Nat.xor_lt_two_pow h0 (bitProd_lt _ _))

theorem bitLen_le_loopFuel {a : Nat} (ha : a < 2 ^ 64) : bitLen a ≤ loopFuel := by
  have := bitLen_le_64 ha
  have : (64 : Nat) ≤ loopFuel := by decide
  omega

/-- the translated core with an arbitrary final `reduce` -/
theorem bin_inv_gen {m a : Nat} (hm : m < 2 ^ 64) (ha : a < 2 ^ 64) (R : Nat → Nat) {fuel : Nat}
    (hf : bitLen a ≤ fuel) :
    go_binfield_Element_Inv_core m a R = R (Bin.invLoop m a 0 1 fuel) := by
  rw [← inv_loop loopFuel fuel 0 1 m a hm ha (bitLen_le_loopFuel ha) hf]
  rfl

/-- the model's fuel `2 * n + 4` is sufficient for every reduced element -/
theorem model_fuel_suffices {n a : Nat} (ha : a < 2 ^ n) : bitLen a ≤ 2 * n + 4 := by
  have := bitLen_le_iff.2 ha
  omega

theorem bin_inv {n m a : Nat} (hm : m < 2 ^ 64) (ha64 : a < 2 ^ 64) (hf : bitLen a ≤ 2 * n + 4)
    (h0 : a ≠ 0) (h1 : a ≠ 1) :
    Bin.inv n m a = some (go_binfield_Element_Inv_core m a (Bin.reduce n m)) := by
  rw [bin_inv_gen hm ha64 (Bin.reduce n m) hf]
  unfold Bin.inv
  simp only [h0, h1, ↓reduceIte]

end CodeTies3Proofs
end Algobra
