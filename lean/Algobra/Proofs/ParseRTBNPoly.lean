/-
  Proofs/ParseRTBNPoly.lean — bivariate round trip in every notation: from the matches of a
  polynomial printed in a notation back to its canonical listing.  Helper of `Props/C15Full.lean`.
-/
import Algobra.Proofs.ParseRTBN
import Algobra.Proofs.ParseRTBPoly

namespace Algobra.ParseRT
open Algobra Algobra.Strings Algobra.Parse Algobra.BPoly

variable {α : Type} {K : Type} [Field K]

/-- the terms a bivariate polynomial prints: coefficient and exponent pair, in printing order -/
def btermsOf (R : BPoly.Ring α) (f : BPoly α) : List (α × Deg) :=
  if f.isEmpty then [(R.F.zero, (0, 0))]
  else (sortedDegrees R.ord f).map fun d => (coef R.F f d, d)

theorem btermsOf_spec (R : BPoly.Ring α) (L : Lawful R.F K) {f : BPoly α} (hf : WF L f)
    (hb : Bounded f) :
    ∃ (ds : List Deg) (g : Deg → α), btermsOf R f = ds.map (fun d => (g d, d)) ∧ ds.Nodup ∧
      ds ≠ [] ∧ (∀ d ∈ ds, L.valid (g d) ∧ d.1 < 2 ^ 64 ∧ d.2 < 2 ^ 64) ∧
      (ds.map (fun d => (d, g d))).foldl
          (fun acc (x : Deg × α) => if R.F.isZero x.2 then acc else put acc x.1 x.2) [] =
        sortedTerms R.F R.ord f := by
  unfold btermsOf
  by_cases h0 : f = []
  · subst h0
    refine ⟨[(0, 0)], fun _ => R.F.zero, by simp, by simp, by simp,
      fun d hd => ⟨L.zero_valid, by simp at hd; subst hd; exact ⟨by norm_num, by norm_num⟩⟩, ?_⟩
    have : R.F.isZero R.F.zero = true := (L.isZero_iff _ L.zero_valid).2 L.embed_zero
    simp [this, sortedTerms, sortedDegrees]
  · have hperm := sortedDegrees_perm R.ord f hf.1
    have hmem : ∀ d ∈ sortedDegrees R.ord f, d ∈ keys f := fun d hd => hperm.mem_iff.1 hd
    have hne : sortedDegrees R.ord f ≠ [] := by
      intro he
      have := hperm.length_eq
      rw [he] at this
      cases f with
      | nil => exact h0 rfl
      | cons _ _ => simp at this
    have hemp : f.isEmpty = false := by cases f <;> simp_all
    refine ⟨sortedDegrees R.ord f, coef R.F f, by simp [hemp], hperm.nodup_iff.2 hf.1, hne, ?_, ?_⟩
    · intro d hd
      refine ⟨BPoly.coef_valid L hf.cv d, ?_⟩
      obtain ⟨x, hx, rfl⟩ := List.mem_map.1 (hmem d hd)
      exact hb x hx
    · rw [foldl_put_nodup (coef R.F f) _
        (fun d hd => (L.isZero_false_iff _ (BPoly.coef_valid L hf.cv d)).2
          (coef_ne_zero L hf (hmem d hd)))
        (hperm.nodup_iff.2 hf.1) [] (by simp)]
      rfl

/-- Parsing a well-formed bivariate polynomial printed in a notation gives the canonical listing
    `sortedTerms` of the same polynomial, reduced in the ring. -/
theorem bpoly_parse_N (R : BPoly.Ring α) (L : Lawful R.F K) (H : CoefRT R.F L.valid)
    {x' y' : String} (N : BNamesN R.F R.varNames.1 R.varNames.2 x' y')
    (hdir : BPoly.directOK R = true) (caret star yf : Bool) (k l : Nat)
    {f : BPoly α} (hf : WF L f) (hb : Bounded f) {s : String}
    (hs : s.toList = joinS (sepN k l) ((btermsOf R f).map (btermN R.F x' y' caret star yf))) :
    BPoly.parse R s = .ok (reduceIn R (sortedTerms R.F R.ord f)) := by
  obtain ⟨ds, g, hto, hnd, hne, hg, hfold⟩ := btermsOf_spec R L hf hb
  rw [hto] at hs
  have hne' : ds.map (fun d => (g d, d)) ≠ [] := by simpa using hne
  obtain ⟨ms, h1, h2⟩ := matchesB_termsN H N caret star yf k l hne'
    (by
      intro t ht
      obtain ⟨d, hd, rfl⟩ := List.mem_map.1 ht
      exact hg d hd) hs
  have hmap : BPoly.stringToMap R s = .ok (ds.map fun d => (d, g d)) := by
    unfold BPoly.stringToMap
    rw [if_pos hdir, h1]
    dsimp only
    rw [h2, foldl_mapAdd_nodup' R.F g ds hnd [] (by simp)]
    simp
  unfold BPoly.parse
  rw [hmap]
  dsimp only
  unfold ofMap
  have : (ds.map fun d => (d, g d)).foldl
      (fun acc (x : Deg × α) => match x with
        | (d, c) => if R.F.isZero c then acc else put acc d c) [] = sortedTerms R.F R.ord f := hfold
  rw [this]

end Algobra.ParseRT
