/-
  Proofs/CodeTies5.lean — helper lemmas for Props/CodeTies5.lean, part 1: the MACHINE-TRANSLATED
  `auxmath.CombinIter` (`NewCombinIter`, `Next`, `Active`, `Current` of /repo/auxmath/combination.go,
  `Algobra/Gen/Code.lean`) against the model `Auxmath.next` / `Auxmath.nextAux` (Model/Auxmath.lean).
  Go `int`s are Lean `Int`s with `wrapInt`, `[]int` is `List Int`, slice indexing is guarded: the
  translated functions return `Option`, `none` = run-time panic.  Core Lean + the model only.
-/
import Algobra.Gen.Code
import Algobra.Model.Auxmath
import Algobra.Proofs.CodeTies

namespace Algobra
namespace CodeTies5Proofs
open Algobra Algobra.Gen.Code Algobra.CodeTiesProofs

/-- the model's slices (`List Nat`) as Go `[]int` -/
def toInts (s : List Nat) : List Int := s.map Int.ofNat

theorem wrapInt_nat {x : Nat} (h : x < 2 ^ 63) : wrapInt (x : Int) = x :=
  wrapInt_of_small (by omega) (by omega)

theorem wrap_add (a b : Nat) (h : a + b < 2 ^ 63) : wrapInt ((a : Int) + (b : Int)) = ((a + b : Nat) : Int) := by
  rw [wrapInt_of_small (by omega) (by omega)]; omega

theorem wrap_add1 (a : Nat) (h : a + 1 < 2 ^ 63) : wrapInt ((a : Int) + 1) = ((a + 1 : Nat) : Int) := by
  rw [wrapInt_of_small (by omega) (by omega)]; omega

theorem wrap_sub1 (a : Nat) (h : a < 2 ^ 63) : wrapInt ((a : Int) - 1) = (a : Int) - 1 :=
  wrapInt_of_small (by omega) (by omega)

theorem wrap_sub (a b : Int) (h1 : -(2 ^ 63) ≤ a - b) (h2 : a - b < 2 ^ 63) : wrapInt (a - b) = a - b :=
  wrapInt_of_small h1 h2

/-! ### `NewCombinIter` -/

/-- a loop whose return slot is filled does not run -/
theorem new_loop1_ret (len : Int) (fuel : Nat) (i : Int) (s : List Int) (v) :
    go_auxmath_NewCombinIter_loop1 len fuel (i, s, some v) = (i, s, some v) := by
  cases fuel <;> simp [go_auxmath_NewCombinIter_loop1]

theorem new_loop1 (K : Nat) (hK : K < 2 ^ 63) : ∀ (d m : Nat) (s : List Int) (fuel : Nat),
    K - m = d → m ≤ K → s.length = K → d ≤ fuel →
    ∃ s', go_auxmath_NewCombinIter_loop1 ((K : Int)) fuel ((m : Int), s, none) = ((K : Int), s', none)
      ∧ s'.length = K ∧ ∀ x, x < K → s'[x]? = if m ≤ x then some ((x : Int)) else s[x]? := by
  intro d
  induction d with
  | zero =>
    intro m s fuel hd hm hs _
    have : m = K := by omega
    subst this
    refine ⟨s, ?_, hs, ?_⟩
    · cases fuel <;> simp [go_auxmath_NewCombinIter_loop1]
    · intro x hx; rw [if_neg (by omega)]
  | succ d ih =>
    intro m s fuel hd hm hs hf
    obtain ⟨f, rfl⟩ : ∃ f, fuel = f + 1 := ⟨fuel - 1, by omega⟩
    have hmK : m < K := by omega
    have c1 : (m : Int) < (K : Int) := by omega
    have c2 : (0 : Int) ≤ (m : Int) := by omega
    have c3 : (m : Int) < ((List.length s : Nat) : Int) := by omega
    have hw : wrapInt ((m : Int) + 1) = ((m + 1 : Nat) : Int) := by
      rw [wrapInt_of_small (by omega) (by omega)]; omega
    obtain ⟨s', h1, h2, h3⟩ := ih (m + 1) (s.set m ((m : Int))) f (by omega) (by omega)
      (by rw [List.length_set]; exact hs) (by omega)
    refine ⟨s', ?_, h2, ?_⟩
    · rw [go_auxmath_NewCombinIter_loop1]
      simp only [Int.ofNat_eq_natCast, c1, c2, c3, Option.isNone_none, and_self, ↓reduceIte, hw, Int.toNat_natCast]
      exact h1
    · intro x hx
      rw [h3 x hx]
      by_cases hx1 : m + 1 ≤ x
      · rw [if_pos hx1, if_pos (by omega)]
      · rw [if_neg hx1]
        by_cases hx2 : m = x
        · subst hx2
          rw [if_pos (Nat.le_refl _), List.getElem?_set_self (by omega)]
        · rw [if_neg (by omega), List.getElem?_set_ne hx2]

theorem newCombinIter (n : Int) {k : Int} (h0 : 0 ≤ k) (hk : k < 2 ^ 63) :
    go_auxmath_NewCombinIter n k = some (n, toInts (List.range k.toNat), false) := by
  obtain ⟨K, rfl⟩ := Int.eq_ofNat_of_zero_le h0
  have hK : K < 2 ^ 63 := by omega
  obtain ⟨s', h1, h2, h3⟩ := new_loop1 K hK K 0 (List.replicate K (0 : Int)) loopFuel (by omega)
    (by omega) (by simp) (by unfold loopFuel; omega)
  have hs' : s' = toInts (List.range K) := by
    apply List.ext_getElem?
    intro x
    by_cases hx : x < K
    · rw [h3 x hx, if_pos (by omega)]
      simp [toInts, hx]
    · rw [List.getElem?_eq_none (by omega), List.getElem?_eq_none (by simp [toInts]; omega)]
  unfold go_auxmath_NewCombinIter
  simp only [h0, ↓reduceIte, Int.toNat_natCast, List.length_replicate, Int.ofNat_eq_natCast]
  have h1' : go_auxmath_NewCombinIter_loop1 ((K : Int)) loopFuel (0, List.replicate K 0, none)
      = ((K : Int), s', none) := h1
  rw [h1', hs']

theorem newCombinIter_neg (n : Int) {k : Int} (h0 : k < 0) : go_auxmath_NewCombinIter n k = none := by
  unfold go_auxmath_NewCombinIter
  rw [if_neg (by omega)]

/-! ### `Next` -/

theorem next_loop2_ret (i j : Int) (fuel : Nat) (sl : List Int) (l : Int) (v) :
    go_auxmath_CombinIter_Next_loop2 i j fuel (sl, l, some v) = (sl, l, some v) := by
  cases fuel <;> simp [go_auxmath_CombinIter_Next_loop2]

theorem next_loop1_ret (a : Bool) (n len : Int) (fuel : Nat) (sl : List Int) (i : Int) (v) :
    go_auxmath_CombinIter_Next_loop1 a n len fuel (sl, i, some v) = (sl, i, some v) := by
  cases fuel <;> simp [go_auxmath_CombinIter_Next_loop1]

/-- the refill loop `for l := 1; l <= i; l++ { slice[j+l] = slice[j] + l }` -/
theorem next_loop2 (I J v : Nat) (hv : v + I < 2 ^ 63) : ∀ (d l : Nat) (sl : List Int) (fuel : Nat),
    I + 1 - l = d → 1 ≤ l → l ≤ I + 1 → J + I < sl.length → sl.length < 2 ^ 63 →
    sl[J]? = some (v : Int) → d ≤ fuel →
    ∃ sl', go_auxmath_CombinIter_Next_loop2 (I : Int) (J : Int) fuel (sl, (l : Int), none)
        = (sl', ((I + 1 : Nat) : Int), none)
      ∧ sl'.length = sl.length
      ∧ ∀ x, sl'[x]? = if J + l ≤ x ∧ x ≤ J + I then some (((v + (x - J) : Nat)) : Int) else sl[x]? := by
  intro d
  induction d with
  | zero =>
    intro l sl fuel hd h1 h2 _ _ _ _
    have : l = I + 1 := by omega
    subst this
    refine ⟨sl, ?_, rfl, ?_⟩
    · cases fuel with
      | zero => rfl
      | succ f =>
        rw [go_auxmath_CombinIter_Next_loop2]
        have c : ¬ (((I + 1 : Nat) : Int) ≤ (I : Int)) := by omega
        simp only [c, false_and, ↓reduceIte]
    · intro x; rw [if_neg (by omega)]
  | succ d ih =>
    intro l sl fuel hd h1 h2 hlen hlen2 hJ hf
    obtain ⟨f, rfl⟩ : ∃ f, fuel = f + 1 := ⟨fuel - 1, by omega⟩
    have c1 : (l : Int) ≤ (I : Int) := by omega
    have c2 : (0 : Int) ≤ (J : Int) := by omega
    have c3 : (J : Int) < ((List.length sl : Nat) : Int) := by omega
    have c4 : (0 : Int) ≤ ((J + l : Nat) : Int) := by omega
    have c5 : ((J + l : Nat) : Int) < ((List.length sl : Nat) : Int) := by omega
    have b1 : J + l < 2 ^ 63 := by omega
    have b2 : v + l < 2 ^ 63 := by omega
    have b3 : l + 1 < 2 ^ 63 := by omega
    obtain ⟨sl', e1, e2, e3⟩ := ih (l + 1) (sl.set (J + l) ((v + l : Nat) : Int)) f (by omega) (by omega)
      (by omega) (by rw [List.length_set]; exact hlen) (by rw [List.length_set]; exact hlen2)
      (by rw [List.getElem?_set_ne (by omega)]; exact hJ) (by omega)
    have hpt : ∀ x, sl'[x]? = if J + l ≤ x ∧ x ≤ J + I then some (((v + (x - J) : Nat)) : Int) else sl[x]? := by
      intro x
      rw [e3 x]
      by_cases hx1 : J + (l + 1) ≤ x ∧ x ≤ J + I
      · rw [if_pos hx1, if_pos (by omega)]
      · rw [if_neg hx1]
        by_cases hx2 : J + l = x
        · subst hx2
          have e : v + (J + l - J) = v + l := by omega
          rw [if_pos (by omega), List.getElem?_set_self (by omega), e]
        · rw [if_neg (by omega), List.getElem?_set_ne hx2]
    refine ⟨sl', ?_, by rw [e2, List.length_set], hpt⟩
    have hg : sl.getD J 0 = (v : Int) := by
      rw [List.getD_eq_getElem?_getD, hJ]; rfl
    have hw1 := wrap_add J l b1
    have hw2 := wrap_add v l b2
    have hw3 := wrap_add1 l b3
    rw [go_auxmath_CombinIter_Next_loop2]
    simp only [Int.ofNat_eq_natCast, c1, c2, c3, hw1, c4, c5, Option.isNone_none, and_self, ↓reduceIte,
      Int.toNat_natCast, hg, hw2, hw3]
    exact e1

theorem refill_getElem? : ∀ (l : List Nat) (v x : Nat), x < l.length →
    (Auxmath.refill l v)[x]? = some (v + x + 1)
  | [], _, _, h => by simp at h
  | _ :: t, v, 0, _ => by simp [Auxmath.refill]
  | _ :: t, v, x + 1, h => by
    simp only [Auxmath.refill, List.getElem?_cons_succ]
    rw [refill_getElem? t (v + 1) x (by simpa using h)]
    congr 1; omega

theorem refill_length : ∀ (l : List Nat) (v : Nat), (Auxmath.refill l v).length = l.length
  | [], _ => rfl
  | _ :: t, v => by simp [Auxmath.refill, refill_length t]

theorem toInts_getElem? (s : List Nat) (x : Nat) : (toInts s)[x]? = (s[x]?).map Int.ofNat := by
  simp [toInts]

theorem toInts_length (s : List Nat) : (toInts s).length = s.length := by simp [toInts]

/-- what `Next` leaves in the slice when position `J` can be incremented -/
theorem next_found (s : List Nat) (J I : Nat) (hJ : J + I + 1 = s.length) (sl' : List Int)
    (hlen : sl'.length = s.length)
    (h : ∀ x, sl'[x]? = if J + 1 ≤ x ∧ x ≤ J + I then some (((s.getD J 0 + 1 + (x - J) : Nat)) : Int)
      else ((toInts s).set J ((s.getD J 0 + 1 : Nat) : Int))[x]?) :
    sl' = toInts (s.take J ++ [s.getD J 0 + 1] ++ Auxmath.refill (s.drop (J + 1)) (s.getD J 0 + 1)) := by
  apply List.ext_getElem?
  intro x
  rw [h x, toInts_getElem?]
  by_cases hx1 : x < J
  · rw [if_neg (by omega), List.getElem?_set_ne (by omega), toInts_getElem?]
    rw [List.append_assoc, List.getElem?_append_left (by rw [List.length_take]; omega),
      List.getElem?_take_of_lt hx1]
  · by_cases hx2 : x = J
    · subst hx2
      rw [if_neg (by omega), List.getElem?_set_self (by rw [toInts_length]; omega)]
      rw [List.append_assoc, List.getElem?_append_right (by rw [List.length_take]; omega)]
      have : x - (List.take x s).length = 0 := by rw [List.length_take]; omega
      rw [this]; rfl
    · by_cases hx3 : x < s.length
      · rw [if_pos (by omega)]
        rw [List.getElem?_append_right (by simp [List.length_take]; omega)]
        have e : x - (List.take J s ++ [s.getD J 0 + 1]).length = x - J - 1 := by
          simp [List.length_take]; omega
        rw [e, refill_getElem? _ _ _ (by rw [List.length_drop]; omega)]
        show _ = some _
        congr 1
        show ((s.getD J 0 + 1 + (x - J) : Nat) : Int) = ((s.getD J 0 + 1 + (x - J - 1) + 1 : Nat) : Int)
        congr 1; omega
      · rw [if_neg (by omega), List.getElem?_set_ne (by omega), toInts_getElem?,
          List.getElem?_eq_none (by omega)]
        rw [List.getElem?_eq_none (by simp [List.length_take, refill_length, List.length_drop]; omega)]

/-- the value of `Next` from the final state of its outer loop -/
def nextFin (r : List Int × Int × Option (Option (Bool × List Int))) : Option (Bool × List Int) :=
  match r.2.2 with
  | some v => v
  | none => some (true, r.1)

theorem toInts_getD (s : List Nat) {J : Nat} (h : J < s.length) :
    (toInts s).getD J 0 = ((s.getD J 0 : Nat) : Int) := by
  simp [toInts, List.getD_eq_getElem?_getD, h]

set_option maxHeartbeats 400000 in
theorem next_loop1 (n : Nat) (s : List Nat) (hn : n < 2 ^ 63) (hL : s.length < 2 ^ 63) :
    ∀ (d i f1 f2 : Nat), s.length - i = d → i ≤ s.length → d + 1 ≤ f1 → d + 1 ≤ f2 →
    nextFin (go_auxmath_CombinIter_Next_loop1 false (n : Int) (s.length : Int) f1 (toInts s, (i : Int), none))
      = some (match Auxmath.nextAux n s i f2 with
              | none => (true, toInts s)
              | some s' => (false, toInts s')) := by
  intro d
  induction d with
  | zero =>
    intro i f1 f2 hd hi h1 h2
    have : i = s.length := by omega
    subst this
    obtain ⟨g1, rfl⟩ : ∃ g, f1 = g + 1 := ⟨f1 - 1, by omega⟩
    obtain ⟨g2, rfl⟩ : ∃ g, f2 = g + 1 := ⟨f2 - 1, by omega⟩
    rw [go_auxmath_CombinIter_Next_loop1, Auxmath.nextAux]
    simp [nextFin]
  | succ d ih =>
    intro i f1 f2 hd hi h1 h2
    obtain ⟨g1, rfl⟩ : ∃ g, f1 = g + 1 := ⟨f1 - 1, by omega⟩
    obtain ⟨g2, rfl⟩ : ∃ g, f2 = g + 1 := ⟨f2 - 1, by omega⟩
    have hiL : i < s.length := by omega
    have c1 : (i : Int) < (s.length : Int) := by omega
    have c2 : (0 : Int) ≤ ((s.length - 1 - i : Nat) : Int) := by omega
    have c3 : ((s.length - 1 - i : Nat) : Int) < (((toInts s).length : Nat) : Int) := by
      rw [toInts_length]; omega
    have hg := toInts_getD s (J := s.length - 1 - i) (by omega)
    have hjj : (s.length : Int) - 1 - (i : Int) = ((s.length - 1 - i : Nat) : Int) := by omega
    have b1 : -(2 ^ 63) ≤ (s.length : Int) - 1 - (i : Int) := by omega
    have b2 : (s.length : Int) - 1 - (i : Int) < 2 ^ 63 := by omega
    have b3 : -(2 ^ 63) ≤ (n : Int) - (i : Int) := by omega
    have b4 : (n : Int) - (i : Int) < 2 ^ 63 := by omega
    have b5 : -(2 ^ 63) ≤ (n : Int) - (i : Int) - 1 := by omega
    have b6 : (n : Int) - (i : Int) - 1 < 2 ^ 63 := by omega
    have b7 : i + 1 < 2 ^ 63 := by omega
    by_cases hc : s.getD (s.length - 1 - i) 0 + i + 1 < n
    · have hc' : ((s.getD (s.length - 1 - i) 0 : Nat) : Int) < (n : Int) - (i : Int) - 1 := by omega
      have b8 : s.getD (s.length - 1 - i) 0 + 1 < 2 ^ 63 := by omega
      obtain ⟨sl', e1, e2, e3⟩ := next_loop2 i (s.length - 1 - i) (s.getD (s.length - 1 - i) 0 + 1)
        (by omega) i 1 ((toInts s).set (s.length - 1 - i) ((s.getD (s.length - 1 - i) 0 + 1 : Nat) : Int))
        loopFuel (by omega) (by omega) (by omega) (by rw [List.length_set, toInts_length]; omega)
        (by rw [List.length_set, toInts_length]; exact hL)
        (by rw [List.getElem?_set_self (by rw [toInts_length]; omega)])
        (by unfold loopFuel; omega)
      have hsl := next_found s (s.length - 1 - i) i (by omega) sl'
        (by rw [e2, List.length_set, toInts_length]) e3
      have e1' : go_auxmath_CombinIter_Next_loop2 (↑i) (↑(s.length - 1 - i)) loopFuel
          ((toInts s).set (s.length - 1 - i) ↑(s.getD (s.length - 1 - i) 0 + 1), 1, none)
          = (sl', ((i + 1 : Nat) : Int), none) := e1
      have hj0 := wrap_sub1 s.length hL
      have hj : wrapInt (wrapInt (((toInts s).length : Nat) - 1) - (i : Int)) = ((s.length - 1 - i : Nat) : Int) := by
        rw [toInts_length, hj0, wrap_sub _ _ b1 b2, hjj]
      have hw0 := wrap_sub (n : Int) (i : Int) b3 b4
      have hw : wrapInt (wrapInt ((n : Int) - (i : Int)) - 1) = (n : Int) - (i : Int) - 1 := by
        rw [hw0, wrap_sub _ _ b5 b6]
      have hw2 := wrap_add1 (s.getD (s.length - 1 - i) 0) b8
      rw [go_auxmath_CombinIter_Next_loop1, Auxmath.nextAux]
      simp only [Int.ofNat_eq_natCast, c1, Option.isNone_none, and_self, ↓reduceIte, hj, c2, c3,
        Int.toNat_natCast, hg, hw, if_neg (show ¬ i ≥ s.length from Nat.not_le.mpr hiL), hc, hc', hw2]
      rw [e1']
      simp only [next_loop1_ret, nextFin]
      rw [hsl]
    · have hc' : ¬ ((s.getD (s.length - 1 - i) 0 : Nat) : Int) < (n : Int) - (i : Int) - 1 := by omega
      have ih' := ih (i + 1) g1 g2 (by omega) (by omega) (by omega) (by omega)
      have hj0 := wrap_sub1 s.length hL
      have hj : wrapInt (wrapInt (((toInts s).length : Nat) - 1) - (i : Int)) = ((s.length - 1 - i : Nat) : Int) := by
        rw [toInts_length, hj0, wrap_sub _ _ b1 b2, hjj]
      have hw0 := wrap_sub (n : Int) (i : Int) b3 b4
      have hw : wrapInt (wrapInt ((n : Int) - (i : Int)) - 1) = (n : Int) - (i : Int) - 1 := by
        rw [hw0, wrap_sub _ _ b5 b6]
      have hw3 := wrap_add1 i b7
      rw [go_auxmath_CombinIter_Next_loop1, Auxmath.nextAux]
      simp only [Int.ofNat_eq_natCast, c1, Option.isNone_none, and_self, ↓reduceIte, hj, c2, c3,
        Int.toNat_natCast, hg, hw, if_neg (show ¬ i ≥ s.length from Nat.not_le.mpr hiL), hc, hc', hw3]
      exact ih'

/-- `Next` on an iterator that is not at its end -/
theorem next_active {n : Nat} {s : List Nat} (hn : n < 2 ^ 63) (hL : s.length < 2 ^ 63) :
    go_auxmath_CombinIter_Next (toInts s) false (n : Int)
      = some (match Auxmath.next n s with
              | none => (true, toInts s)
              | some s' => (false, toInts s')) := by
  have h := next_loop1 n s hn hL s.length 0 loopFuel (s.length + 1) (by omega) (by omega)
    (by unfold loopFuel; omega) (by omega)
  unfold go_auxmath_CombinIter_Next
  simp only [Bool.false_eq_true, ↓reduceIte, Int.ofNat_eq_natCast, toInts_length]
  unfold nextFin at h
  unfold Auxmath.next
  rw [← h]
  rfl

/-- `Next` on an iterator at its end returns immediately -/
theorem next_atEnd (sl : List Int) (n : Int) :
    go_auxmath_CombinIter_Next sl true n = some (true, sl) := by
  unfold go_auxmath_CombinIter_Next
  simp

end CodeTies5Proofs
end Algobra
