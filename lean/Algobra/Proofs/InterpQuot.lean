/-
  Proofs/InterpQuot.lean — helper lemmas for C14 in a bivariate quotient ring `F[X,Y]/⟨gs⟩`
  (`BPoly.interpolate R` with `R.ideal = some gs`, Go: /repo/bivariate/interpolation.go).

  Every product inside `Interpolate` is a `Times` (`tmp.Mult(...)`), i.e. the exact product followed
  by `reduce` = division by the stored generators.  With the division theorem (Proofs/BPolyDiv.lean,
  packaged as `BPoly.QuotCtx` in Proofs/Groebner.lean) each round adds a normal form congruent to
  `v · Lx · Ly`, hence the result is congruent to the interpolant computed without ideal.
  The guard `Safe` of the division theorem ("no exponent wraps around during the run") is needed for
  every reduction made: `StepSafe` (one point), `InterpSafe` (the whole run).
  Further sections: a Boolean checker for the guard (`interpSafeB`, for `decide`); for the graded
  orders the guard follows from a static bound on the number of points (`stepSafe_of_graded`);
  under the guard of Proofs/BPolyDiv.lean the exponents of the result are exact
  (`qinterpolate_noOverflow`).
-/
import Algobra.Proofs.Interp
import Algobra.Proofs.Groebner
import Algobra.Proofs.BPolyDiv

namespace Algobra
namespace Interp

open AddMonoidAlgebra (single)

section Quot
variable {α : Type} {K : Type} [Field K]

/-- the guard `Safe` holds for the two reductions made for the point `p`:
    `reduce(1 · Lx)` and `reduce(t1 · Ly)` where `t1` is the result of the first one -/
def StepSafe (R : BPoly.Ring α) (Safe : Option Nat → List (BPoly α) → Nat → BPoly α → Prop)
    (gs : List (BPoly α)) (dx dy : List α) (p : α × α) : Prop :=
  BPoly.TimesSafe R Safe gs (BPoly.setCoef R.F [] (0, 0) R.F.one)
      (BPoly.lagrangeBasis R.F dx p.1 0) ∧
  ∀ t1, BPoly.times R (BPoly.setCoef R.F [] (0, 0) R.F.one)
      (BPoly.lagrangeBasis R.F dx p.1 0) = .ok (some t1) →
    BPoly.TimesSafe R Safe gs t1 (BPoly.lagrangeBasis R.F dy p.2 1)

/-- the guard `Safe` holds for every reduction made by `Interpolate(points, values)`: for every
    point with a nonzero value the two reductions of `StepSafe` -/
def InterpSafe (R : BPoly.Ring α) (Safe : Option Nat → List (BPoly α) → Nat → BPoly α → Prop)
    (gs : List (BPoly α)) (points : List (α × α)) (values : List α) : Prop :=
  ∀ pv ∈ points.zip values, R.F.isZero pv.2 = false →
    StepSafe R Safe gs (BPoly.distinctStrs R.F (points.map (·.1)))
      (BPoly.distinctStrs R.F (points.map (·.2))) pv.1

variable {R : BPoly.Ring α} {L : Lawful R.F K}
  {Safe : Option Nat → List (BPoly α) → Nat → BPoly α → Prop} {gs : List (BPoly α)}

theorem istep_ok_inv {dx dy : List α} {acc : Except Kind (Option (BPoly α))} {pv : (α × α) × α}
    {f' : BPoly α} (h : istep R dx dy acc pv = .ok (some f')) : ∃ f, acc = .ok (some f) := by
  unfold istep at h
  split at h
  · cases h
  · cases h
  · exact ⟨_, rfl⟩

theorem goodNF_nil : BPoly.GoodNF L gs ([] : BPoly α) :=
  ⟨BPoly.WF_nil L, BPoly.Bounded_nil, BPoly.KeysIn_nil _⟩

theorem goodNF_add_scale {f t : BPoly α} (hf : BPoly.GoodNF L gs f) (ht : BPoly.GoodNF L gs t)
    {v : α} (hv : L.valid v) : BPoly.GoodNF L gs (BPoly.add R.F f (BPoly.scale R.F t v)) := by
  obtain ⟨f1, f2, f3⟩ := hf
  obtain ⟨t1, t2, t3⟩ := ht
  refine ⟨BPoly.WF_add L f1 (BPoly.WF_scale L t1 hv).cv, ?_, ?_⟩
  · rw [BPoly.Bounded_iff_KeysIn] at f2 t2 ⊢
    exact BPoly.KeysIn_add f2 (BPoly.KeysIn_scale t2 v)
  · exact BPoly.KeysIn_add f3 (BPoly.KeysIn_scale t3 v)

/-- the univariate basis polynomials have machine-word exponents -/
theorem bounded_of_keys_dg {g : BPoly α} {n v : ℕ} (hn : n < 2 ^ 64)
    (hk : BPoly.KeysIn (fun d => ∃ k < n, d = dg v k) g) : BPoly.Bounded g := by
  rw [BPoly.Bounded_iff_KeysIn]
  intro e he
  obtain ⟨k, hk', rfl⟩ := hk e he
  unfold dg
  split <;> simp <;> omega

/-- one round of `Interpolate` in a quotient ring: the new accumulator is a normal form and
    congruent to the old one plus the exact term `v · Lx · Ly` -/
theorem qistep_spec (Q : BPoly.QuotCtx R L Safe gs) {dx dy : List α}
    (hdx : ∀ a ∈ dx, L.valid a) (hdxn : dx.Nodup) (hdy : ∀ a ∈ dy, L.valid a) (hdyn : dy.Nodup)
    (hone : L.valid (R.F.ofNat 1) ∧ L.embed (R.F.ofNat 1) = 1)
    (hlx : dx.length < 2 ^ 64) (hly : dy.length < 2 ^ 64) {f f' : BPoly α}
    (hf : BPoly.GoodNF L gs f) {p : α × α} {v : α}
    (hpx : p.1 ∈ dx) (hpy : p.2 ∈ dy) (hv : L.valid v)
    (hs : R.F.isZero v = false → StepSafe R Safe gs dx dy p)
    (h : istep R dx dy (.ok (some f)) (p, v) = .ok (some f')) :
    BPoly.GoodNF L gs f' ∧
      BPoly.toMv L f' - (BPoly.toMv L f + bterm L dx dy p v) ∈ BPoly.spanOf L gs := by
  unfold istep at h
  simp only [] at h
  by_cases hz : R.F.isZero v = true
  · rw [if_pos hz] at h
    cases h
    refine ⟨hf, ?_⟩
    rw [bterm, (L.isZero_iff v hv).1 hz]
    simp
  · rw [if_neg hz] at h
    obtain ⟨hs1, hs2⟩ := hs (by simpa using hz)
    rw [setCoef_one L] at h hs1 hs2
    obtain ⟨ix, hix, hixe⟩ := List.getElem_of_mem hpx
    obtain ⟨iy, hiy, hiye⟩ := List.getElem_of_mem hpy
    have hpx' : p.1 = dx.getD ix R.F.zero := by rw [List.getD_eq_getElem _ _ hix, hixe]
    have hpy' : p.2 = dy.getD iy R.F.zero := by rw [List.getD_eq_getElem _ _ hiy, hiye]
    obtain ⟨wx, kx, _⟩ := blagrangeBasis_spec L hdx hone hdxn hix 0
    obtain ⟨wy, ky, _⟩ := blagrangeBasis_spec L hdy hone hdyn hiy 1
    rw [← hpx'] at wx kx
    rw [← hpy'] at wy ky
    have bx := bounded_of_keys_dg hlx kx
    have by' := bounded_of_keys_dg hly ky
    cases e1 : BPoly.times R [((0, 0), R.F.one)] (BPoly.lagrangeBasis R.F dx p.1 0) with
    | error k => rw [e1] at h; cases h
    | ok o1 =>
      cases o1 with
      | none => rw [e1] at h; cases h
      | some t1 =>
        rw [e1] at h
        simp only [] at h
        cases e2 : BPoly.times R t1 (BPoly.lagrangeBasis R.F dy p.2 1) with
        | error k => rw [e2] at h; cases h
        | ok o2 =>
          cases o2 with
          | none => rw [e2] at h; cases h
          | some t2 =>
            rw [e2] at h
            simp only [] at h
            cases h
            obtain ⟨g1, c1⟩ := Q.times_spec (BPoly.WF_one L) wx bx hs1 e1
            obtain ⟨g2, c2⟩ := Q.times_spec g1.1 wy by' (hs2 t1 e1) e2
            refine ⟨goodNF_add_scale hf g2 hv, ?_⟩
            have hc : BPoly.toMv L t2 -
                BPoly.toMv L (BPoly.lagrangeBasis R.F dx p.1 0) *
                  BPoly.toMv L (BPoly.lagrangeBasis R.F dy p.2 1) ∈ BPoly.spanOf L gs := by
              rw [← BPoly.cls_eq_iff, c2, c1, BPoly.toMv_one]
              simp only [BPoly.cls, map_mul, map_one, one_mul]
            have ws := BPoly.WF_scale L g2.1 hv
            rw [BPoly.toMv_add L hf.1 ws.cv, BPoly.toMv_scale L g2.1.cv hv, bterm]
            have : BPoly.toMv L f + single 0 (L.embed v) * BPoly.toMv L t2 -
                (BPoly.toMv L f + single 0 (L.embed v) *
                  (BPoly.toMv L (BPoly.lagrangeBasis R.F dx p.1 0) *
                    BPoly.toMv L (BPoly.lagrangeBasis R.F dy p.2 1))) =
                single 0 (L.embed v) * (BPoly.toMv L t2 -
                  BPoly.toMv L (BPoly.lagrangeBasis R.F dx p.1 0) *
                    BPoly.toMv L (BPoly.lagrangeBasis R.F dy p.2 1)) := by ring
            rw [this]
            exact Ideal.mul_mem_left _ _ hc

/-- the main loop of `Interpolate` in a quotient ring -/
theorem qinterp_fold (Q : BPoly.QuotCtx R L Safe gs) {dx dy : List α}
    (hdx : ∀ a ∈ dx, L.valid a) (hdxn : dx.Nodup) (hdy : ∀ a ∈ dy, L.valid a) (hdyn : dy.Nodup)
    (hone : L.valid (R.F.ofNat 1) ∧ L.embed (R.F.ofNat 1) = 1)
    (hlx : dx.length < 2 ^ 64) (hly : dy.length < 2 ^ 64)
    {points : List (α × α)} {values : List α} (hpx : ∀ p ∈ points, p.1 ∈ dx)
    (hpy : ∀ p ∈ points, p.2 ∈ dy) (hv : ∀ v ∈ values, L.valid v)
    (hlen : points.length = values.length)
    (hs : ∀ pv ∈ points.zip values, R.F.isZero pv.2 = false → StepSafe R Safe gs dx dy pv.1)
    (m : ℕ) (hm : m ≤ points.length) {f : BPoly α}
    (h : ((points.zip values).take m).foldl (istep R dx dy) (.ok (some [])) = .ok (some f)) :
    BPoly.GoodNF L gs f ∧
      BPoly.toMv L f - ∑ i ∈ Finset.range m,
        bterm L dx dy (points.getD i (R.F.zero, R.F.zero)) (values.getD i R.F.zero)
          ∈ BPoly.spanOf L gs := by
  induction m generalizing f with
  | zero =>
    simp only [List.take_zero, List.foldl_nil, Except.ok.injEq, Option.some.injEq] at h
    subst h
    refine ⟨goodNF_nil, ?_⟩
    simp
  | succ m ih =>
    have hmp : m < points.length := by omega
    have hmv : m < values.length := by omega
    have hmz : m < (points.zip values).length := by simp; omega
    rw [List.take_succ_eq_append_getElem hmz, List.foldl_append, List.getElem_zip] at h
    simp only [List.foldl_cons, List.foldl_nil] at h
    obtain ⟨f1, e1⟩ := istep_ok_inv h
    obtain ⟨g1, m1⟩ := ih (by omega) e1
    rw [e1] at h
    have hmem : (points[m], values[m]) ∈ points.zip values := by
      rw [← List.getElem_zip (h := hmz)]
      exact List.getElem_mem hmz
    obtain ⟨g2, m2⟩ := qistep_spec Q hdx hdxn hdy hdyn hone hlx hly g1
      (hpx _ (List.getElem_mem hmp)) (hpy _ (List.getElem_mem hmp)) (hv _ (List.getElem_mem hmv))
      (hs _ hmem) h
    refine ⟨g2, ?_⟩
    rw [Finset.sum_range_succ, List.getD_eq_getElem _ _ hmp, List.getD_eq_getElem _ _ hmv]
    have := (BPoly.spanOf L gs).add_mem m2 m1
    convert this using 1
    ring

/-- `Interpolate` in the quotient ring `R` (`R.ideal = some gs`, bundled in `Q`) against the same call
    in the ring without ideal: whenever the former returns a polynomial `f`, the latter returns a
    polynomial `f0`, `f` is a normal form (well-formed, word-size exponents, no exponent divisible
    by a leading exponent of `gs`) and `f ≡ f0` modulo `⟨gs⟩`. -/
theorem qinterpolate_spec (Q : BPoly.QuotCtx R L Safe gs)
    {points : List (α × α)} {values : List α}
    (hp : ∀ p ∈ points, L.valid p.1 ∧ L.valid p.2) (hv : ∀ v ∈ values, L.valid v)
    (hone : L.valid (R.F.ofNat 1) ∧ L.embed (R.F.ofNat 1) = 1)
    (htoStr : ∀ a b, L.valid a → L.valid b → (R.F.toStr a = R.F.toStr b ↔ a = b))
    (hnd : points.Nodup) (hlen : points.length = values.length)
    (hsize : points.length < 2 ^ 64)
    (hs : InterpSafe R Safe gs points values) {f : BPoly α}
    (h : BPoly.interpolate R points values = .ok (some f)) :
    BPoly.GoodNF L gs f ∧
    ∃ f0, BPoly.interpolate { R with ideal := none } points values = .ok (some f0) ∧
      BPoly.WF L f0 ∧ BPoly.toMv L f - BPoly.toMv L f0 ∈ BPoly.spanOf L gs := by
  have hxs : ∀ x ∈ points.map (·.1), L.valid x := by
    intro x hx; obtain ⟨p, hp', rfl⟩ := List.mem_map.1 hx; exact (hp p hp').1
  have hys : ∀ y ∈ points.map (·.2), L.valid y := by
    intro y hy; obtain ⟨p, hp', rfl⟩ := List.mem_map.1 hy; exact (hp p hp').2
  obtain ⟨dxn, dxm, dxl⟩ := distinctStrs_spec L htoStr _ hxs
  obtain ⟨dyn, dym, dyl⟩ := distinctStrs_spec L htoStr _ hys
  rw [List.length_map] at dxl dyl
  have hdx : ∀ a ∈ BPoly.distinctStrs R.F (points.map (·.1)), L.valid a :=
    fun a ha => hxs a ((dxm a).1 ha)
  have hdy : ∀ a ∈ BPoly.distinctStrs R.F (points.map (·.2)), L.valid a :=
    fun a ha => hys a ((dym a).1 ha)
  have hpx : ∀ p ∈ points, p.1 ∈ BPoly.distinctStrs R.F (points.map (·.1)) :=
    fun p hp' => (dxm _).2 (List.mem_map.2 ⟨p, hp', rfl⟩)
  have hpy : ∀ p ∈ points, p.2 ∈ BPoly.distinctStrs R.F (points.map (·.2)) :=
    fun p hp' => (dym _).2 (List.mem_map.2 ⟨p, hp', rfl⟩)
  have hd := (ballDistinct_iff_nodup L hp htoStr).2 hnd
  -- the run in the quotient ring
  rw [interpolate_eq, if_neg (by simpa using hlen), hd] at h
  simp only [Bool.not_true, Bool.false_eq_true, if_false] at h
  have h' : ((points.zip values).take points.length).foldl
      (istep R (BPoly.distinctStrs R.F (points.map (·.1)))
        (BPoly.distinctStrs R.F (points.map (·.2)))) (.ok (some [])) = .ok (some f) := by
    rw [List.take_of_length_le (by simp [hlen])]; exact h
  obtain ⟨g1, m1⟩ := qinterp_fold Q hdx dxn hdy dyn hone (lt_of_le_of_lt dxl hsize)
    (lt_of_le_of_lt dyl hsize) hpx hpy hv hlen hs points.length le_rfl h'
  -- the run in the ring without ideal
  obtain ⟨f0, h0, w0, -, t0⟩ := binterp_fold (R := { R with ideal := none }) rfl L hdx dxn hdy dyn
    hone (lt_of_le_of_lt dxl hsize) (lt_of_le_of_lt dyl hsize) hpx hpy hv hlen points.length le_rfl
  rw [List.take_of_length_le (by simp [hlen])] at h0
  refine ⟨g1, f0, ?_, w0, ?_⟩
  · rw [interpolate_eq, if_neg (by simpa using hlen)]
    show (if (!BPoly.allDistinct R.F points) = true then _ else _) = _
    rw [hd]
    exact h0
  · rw [t0]; exact m1

end Quot

/-! ### the guard can be checked by evaluation -/

section Check
variable {α : Type}

/-- Boolean version of `StepSafe` for a decidable guard (mirrors one round of the loop) -/
def stepSafeB (R : BPoly.Ring α) (Safe : Option Nat → List (BPoly α) → Nat → BPoly α → Prop)
    (gs : List (BPoly α)) [∀ f, Decidable (Safe none gs BPoly.divFuel f)]
    (dx dy : List α) (p : α × α) : Bool :=
  match BPoly.mulNoReduce R.F (BPoly.setCoef R.F [] (0, 0) R.F.one)
      (BPoly.lagrangeBasis R.F dx p.1 0) with
  | none => true
  | some h1 =>
    decide (Safe none gs BPoly.divFuel h1) &&
    match BPoly.reduceIn R h1 with
    | none => true
    | some t1 =>
      match BPoly.mulNoReduce R.F t1 (BPoly.lagrangeBasis R.F dy p.2 1) with
      | none => true
      | some h2 => decide (Safe none gs BPoly.divFuel h2)

theorem stepSafe_of_B {R : BPoly.Ring α}
    {Safe : Option Nat → List (BPoly α) → Nat → BPoly α → Prop} {gs : List (BPoly α)}
    [∀ f, Decidable (Safe none gs BPoly.divFuel f)] {dx dy : List α} {p : α × α}
    (h : stepSafeB R Safe gs dx dy p = true) : StepSafe R Safe gs dx dy p := by
  unfold stepSafeB at h
  unfold StepSafe
  refine ⟨fun h1 e1 => ?_, fun t1 e h2 e2 => ?_⟩
  · rw [e1] at h
    simp only [Bool.and_eq_true, decide_eq_true_eq] at h
    exact h.1
  · obtain ⟨h1, e1, r1⟩ := BPoly.times_ok_iff.1 e
    rw [e1] at h
    simp only [Bool.and_eq_true, decide_eq_true_eq] at h
    have h' := h.2
    rw [r1] at h'
    simp only [] at h'
    rw [e2] at h'
    simpa using h'

/-- Boolean version of `InterpSafe` -/
def interpSafeB (R : BPoly.Ring α) (Safe : Option Nat → List (BPoly α) → Nat → BPoly α → Prop)
    (gs : List (BPoly α)) [∀ f, Decidable (Safe none gs BPoly.divFuel f)]
    (points : List (α × α)) (values : List α) : Bool :=
  (points.zip values).all fun pv => R.F.isZero pv.2 ||
    stepSafeB R Safe gs (BPoly.distinctStrs R.F (points.map (·.1)))
      (BPoly.distinctStrs R.F (points.map (·.2))) pv.1

theorem interpSafe_of_B {R : BPoly.Ring α}
    {Safe : Option Nat → List (BPoly α) → Nat → BPoly α → Prop} {gs : List (BPoly α)}
    [∀ f, Decidable (Safe none gs BPoly.divFuel f)] {points : List (α × α)} {values : List α}
    (h : interpSafeB R Safe gs points values = true) : InterpSafe R Safe gs points values := by
  intro pv hpv hz
  unfold interpSafeB at h
  rw [List.all_eq_true] at h
  have := h pv hpv
  rw [hz, Bool.false_or] at this
  exact stepSafe_of_B this

end Check

/-! ### graded orders: the guard follows from a static bound -/

section Graded
open BPoly Algobra.Order
variable {α : Type} {K : Type} [Field K]

/-- the guard of the division theorem of Proofs/BPolyDiv.lean, spelled out (it is `C11.RunSafe`):
    admissible order, exponents and weighted degrees of the dividend are machine words, and no
    exponent wraps around during the run -/
def RunSafeG (F : FOps α) (o : Order) : Option Nat → List (BPoly α) → Nat → BPoly α → Prop :=
  fun ignore gs fuel f =>
    Admissible o ∧ (∀ d ∈ keys f, NoOverflow o d) ∧ RunOK F o ignore gs fuel f

/-- For a graded order (WDegLex / WDegRevLex with positive weights) the two reductions made for a
    point cannot wrap around, provided the exponents and weighted degrees of the generators are
    machine words and so is the weighted degree of `X^|dx| Y^|dy|`. -/
theorem stepSafe_of_graded {R : BPoly.Ring α} (L : Lawful R.F K) {gs : List (BPoly α)}
    (hR : R.ideal = some gs) (hw : ∀ g ∈ gs, WF L g) (hgr : Graded R.ord)
    (hgs : ∀ g ∈ gs, ∀ d ∈ keys g, NoOverflow R.ord d) {dx dy : List α}
    (hdx : ∀ a ∈ dx, L.valid a) (hdxn : dx.Nodup) (hdy : ∀ a ∈ dy, L.valid a) (hdyn : dy.Nodup)
    (hone : L.valid (R.F.ofNat 1) ∧ L.embed (R.F.ofNat 1) = 1)
    (hno : NoOverflow R.ord (dx.length, dy.length)) {p : α × α}
    (hpx : p.1 ∈ dx) (hpy : p.2 ∈ dy) :
    StepSafe R (RunSafeG R.F R.ord) gs dx dy p := by
  have hadm := hgr.admissible
  have hlx : dx.length < 2 ^ 64 := hno.1
  have hly : dy.length < 2 ^ 64 := hno.2.1
  obtain ⟨ix, hix, hixe⟩ := List.getElem_of_mem hpx
  obtain ⟨iy, hiy, hiye⟩ := List.getElem_of_mem hpy
  have hpx' : p.1 = dx.getD ix R.F.zero := by rw [List.getD_eq_getElem _ _ hix, hixe]
  have hpy' : p.2 = dy.getD iy R.F.zero := by rw [List.getD_eq_getElem _ _ hiy, hiye]
  obtain ⟨wx, kx, _⟩ := blagrangeBasis_spec L hdx hone hdxn hix 0
  obtain ⟨wy, ky, _⟩ := blagrangeBasis_spec L hdy hone hdyn hiy 1
  rw [← hpx'] at wx kx
  rw [← hpy'] at wy ky
  have bx := bounded_of_keys_dg hlx kx
  have by' := bounded_of_keys_dg hly ky
  have k1 : ∀ h1, mulNoReduce R.F [((0, 0), R.F.one)] (BPoly.lagrangeBasis R.F dx p.1 0) = some h1 →
      KeysIn (fun d => d.1 < dx.length ∧ d.2 = 0) h1 := by
    intro h1 e1
    refine KeysIn_mulNoReduce (fun a ha b hb s hs => ?_) e1
    simp only [keys, List.map_cons, List.map_nil, List.mem_singleton] at ha
    obtain ⟨k, hk', hkd⟩ := kx b hb
    subst ha hkd
    rw [addDegs_of_noOvf (by unfold NoOvf dg; simp; omega)] at hs
    cases hs
    simp [dg, hk']
  have n1 : ∀ d : Deg, d.1 < dx.length ∧ d.2 = 0 → NoOverflow R.ord d := fun d hd =>
    NoOverflow_mono hno (le_of_lt hd.1) (by rw [hd.2]; exact Nat.zero_le _)
  unfold StepSafe
  rw [setCoef_one L]
  refine ⟨fun h1 e1 => ?_, fun t1 e h2 e2 => ?_⟩
  · have no1 : ∀ d ∈ keys h1, NoOverflow R.ord d := fun d hd => n1 d (k1 h1 e1 d hd)
    exact ⟨hadm, no1, RunOK_of_graded hgr hgs divFuel h1 no1⟩
  · obtain ⟨h1, e1, r1⟩ := times_ok_iff.1 e
    obtain ⟨qs, hq⟩ := reduceIn_run hR r1
    have wf1 := (Gb.mulNoReduce_spec2 L (WF_one L).cv wx.cv bx e1).1
    have no1 : ∀ d ∈ keys h1, NoOverflow R.ord d := fun d hd => n1 d (k1 h1 e1 d hd)
    have sp := (quoRemLoop_init_spec L hadm (fun g hg => (hw g hg).cv) wf1 no1
      (RunOK_of_graded hgr hgs divFuel h1 no1) hq).2.2.2.2.1
    have hld : (ld R.ord h1).1 < dx.length ∧ (ld R.ord h1).2 = 0 := by
      rcases ld_mem_or R.ord h1 with h0 | hm
      · rw [h0]; exact ⟨by omega, rfl⟩
      · exact k1 h1 e1 _ hm
    have no2 : ∀ s ∈ keys h2, NoOverflow R.ord s := by
      refine KeysIn_mulNoReduce (fun a ha b hb s hs => ?_) e2
      obtain ⟨k, hk', hkd⟩ := ky b hb
      have hb' : b.1 < 2 ^ 64 ∧ b.2 < 2 ^ 64 := by
        rw [hkd]; unfold dg; simp; omega
      have nov := Gb.addDegs_some_noOvf hb' hs
      rw [addDegs_of_noOvf nov] at hs
      cases hs
      subst hkd
      obtain ⟨na, ca, -⟩ := sp a ha
      have w1 := weightedDeg_le_of_cmp_le hgr.ne_lex na (n1 _ hld) ca
      have w2 := weightedDeg_mono R.ord (a := ld R.ord h1) (b := (dx.length - 1, 0))
        (by show _ ≤ dx.length - 1; omega) (by show _ ≤ 0; omega)
      have w3 : weightedDeg R.ord (a + dg 1 k) = weightedDeg R.ord a + weightedDeg R.ord (dg 1 k) :=
        weightedDeg_add R.ord a (dg 1 k)
      have w4 : weightedDeg R.ord ((dx.length - 1 + 0, 0 + k) : Deg) =
          weightedDeg R.ord ((dx.length - 1, 0) : Deg) + weightedDeg R.ord ((0, k) : Deg) :=
        weightedDeg_add R.ord (dx.length - 1, 0) (0, k)
      have w5 := weightedDeg_mono R.ord (a := ((dx.length - 1 + 0, 0 + k) : Deg))
        (b := (dx.length, dy.length)) (by show _ ≤ dx.length; omega) (by show _ ≤ dy.length; omega)
      have w6 := hgr.le_weightedDeg (a + dg 1 k)
      have w7 : dg 1 k = (0, k) := by simp [dg]
      rw [w7] at w3 w6 ⊢
      have := hno.2.2
      exact ⟨by omega, by omega, by omega⟩
    exact ⟨hadm, no2, RunOK_of_graded hgr hgs divFuel h2 no2⟩

/-! ### under the guard `RunSafeG` the exponents of the result are exact -/

/-- one round: the exponents (and weighted degrees) of the accumulator stay machine words -/
theorem qistep_noOverflow {R : BPoly.Ring α} (L : Lawful R.F K) {gs : List (BPoly α)}
    (hR : R.ideal = some gs) (hw : ∀ g ∈ gs, WF L g) {dx dy : List α}
    (hdx : ∀ a ∈ dx, L.valid a) (hdxn : dx.Nodup) (hdy : ∀ a ∈ dy, L.valid a) (hdyn : dy.Nodup)
    (hone : L.valid (R.F.ofNat 1) ∧ L.embed (R.F.ofNat 1) = 1)
    (hlx : dx.length < 2 ^ 64) (hly : dy.length < 2 ^ 64) {f f' : BPoly α}
    (hf : KeysIn (NoOverflow R.ord) f) {p : α × α} {v : α} (hpx : p.1 ∈ dx) (hpy : p.2 ∈ dy)
    (hs : R.F.isZero v = false → StepSafe R (RunSafeG R.F R.ord) gs dx dy p)
    (h : istep R dx dy (.ok (some f)) (p, v) = .ok (some f')) :
    KeysIn (NoOverflow R.ord) f' := by
  unfold istep at h
  simp only [] at h
  by_cases hz : R.F.isZero v = true
  · rw [if_pos hz] at h
    cases h
    exact hf
  · rw [if_neg hz] at h
    obtain ⟨hs1, hs2⟩ := hs (by simpa using hz)
    rw [setCoef_one L] at h hs1 hs2
    obtain ⟨ix, hix, hixe⟩ := List.getElem_of_mem hpx
    obtain ⟨iy, hiy, hiye⟩ := List.getElem_of_mem hpy
    have hpx' : p.1 = dx.getD ix R.F.zero := by rw [List.getD_eq_getElem _ _ hix, hixe]
    have hpy' : p.2 = dy.getD iy R.F.zero := by rw [List.getD_eq_getElem _ _ hiy, hiye]
    obtain ⟨wx, kx, _⟩ := blagrangeBasis_spec L hdx hone hdxn hix 0
    obtain ⟨wy, ky, _⟩ := blagrangeBasis_spec L hdy hone hdyn hiy 1
    rw [← hpx'] at wx kx
    rw [← hpy'] at wy ky
    have bx := bounded_of_keys_dg hlx kx
    have by' := bounded_of_keys_dg hly ky
    have hcv : ∀ g ∈ gs, CV L g := fun g hg => (hw g hg).cv
    cases e1 : BPoly.times R [((0, 0), R.F.one)] (BPoly.lagrangeBasis R.F dx p.1 0) with
    | error k => rw [e1] at h; cases h
    | ok o1 =>
      cases o1 with
      | none => rw [e1] at h; cases h
      | some t1 =>
        rw [e1] at h
        simp only [] at h
        cases e2 : BPoly.times R t1 (BPoly.lagrangeBasis R.F dy p.2 1) with
        | error k => rw [e2] at h; cases h
        | ok o2 =>
          cases o2 with
          | none => rw [e2] at h; cases h
          | some t2 =>
            rw [e2] at h
            simp only [] at h
            cases h
            obtain ⟨h1, e1', r1⟩ := times_ok_iff.1 e1
            obtain ⟨qs1, hq1⟩ := reduceIn_run hR r1
            have s1 := hs1 h1 e1'
            have wf1 := (Gb.mulNoReduce_spec2 L (WF_one L).cv wx.cv bx e1').1
            have wt1 := (quoRemLoop_init_spec L s1.1 hcv wf1 s1.2.1 s1.2.2 hq1).2.1
            obtain ⟨h2, e2', r2⟩ := times_ok_iff.1 e2
            obtain ⟨qs2, hq2⟩ := reduceIn_run hR r2
            have s2 := hs2 t1 e1 h2 e2'
            have wf2 := (Gb.mulNoReduce_spec2 L wt1.cv wy.cv by' e2').1
            have sp := (quoRemLoop_init_spec L s2.1 hcv wf2 s2.2.1 s2.2.2 hq2).2.2.2.2.1
            exact KeysIn_add hf (KeysIn_scale (fun d hd => (sp d hd).1) v)

/-- the main loop: the exponents (and weighted degrees) of the result are machine words -/
theorem qinterp_fold_noOverflow {R : BPoly.Ring α} (L : Lawful R.F K) {gs : List (BPoly α)}
    (hR : R.ideal = some gs) (hw : ∀ g ∈ gs, WF L g) {dx dy : List α}
    (hdx : ∀ a ∈ dx, L.valid a) (hdxn : dx.Nodup) (hdy : ∀ a ∈ dy, L.valid a) (hdyn : dy.Nodup)
    (hone : L.valid (R.F.ofNat 1) ∧ L.embed (R.F.ofNat 1) = 1)
    (hlx : dx.length < 2 ^ 64) (hly : dy.length < 2 ^ 64)
    {points : List (α × α)} {values : List α} (hpx : ∀ p ∈ points, p.1 ∈ dx)
    (hpy : ∀ p ∈ points, p.2 ∈ dy) (hlen : points.length = values.length)
    (hs : ∀ pv ∈ points.zip values, R.F.isZero pv.2 = false →
      StepSafe R (RunSafeG R.F R.ord) gs dx dy pv.1)
    (m : ℕ) (hm : m ≤ points.length) {f : BPoly α}
    (h : ((points.zip values).take m).foldl (istep R dx dy) (.ok (some [])) = .ok (some f)) :
    KeysIn (NoOverflow R.ord) f := by
  induction m generalizing f with
  | zero =>
    simp only [List.take_zero, List.foldl_nil, Except.ok.injEq, Option.some.injEq] at h
    subst h
    exact KeysIn_nil _
  | succ m ih =>
    have hmp : m < points.length := by omega
    have hmz : m < (points.zip values).length := by simp; omega
    rw [List.take_succ_eq_append_getElem hmz, List.foldl_append, List.getElem_zip] at h
    simp only [List.foldl_cons, List.foldl_nil] at h
    obtain ⟨f1, e1⟩ := istep_ok_inv h
    have k1 := ih (by omega) e1
    rw [e1] at h
    have hmem : (points[m], values[m]) ∈ points.zip values := by
      rw [← List.getElem_zip (h := hmz)]
      exact List.getElem_mem hmz
    exact qistep_noOverflow L hR hw hdx hdxn hdy hdyn hone hlx hly k1
      (hpx _ (List.getElem_mem hmp)) (hpy _ (List.getElem_mem hmp)) (hs _ hmem) h

/-- `Interpolate` in a quotient ring under the guard `RunSafeG`: every exponent of the result and
    its weighted degree are machine words (the comparisons of the order are exact on them) -/
theorem qinterpolate_noOverflow {R : BPoly.Ring α} (L : Lawful R.F K) {gs : List (BPoly α)}
    (hR : R.ideal = some gs) (hw : ∀ g ∈ gs, WF L g)
    {points : List (α × α)} {values : List α}
    (hp : ∀ p ∈ points, L.valid p.1 ∧ L.valid p.2)
    (hone : L.valid (R.F.ofNat 1) ∧ L.embed (R.F.ofNat 1) = 1)
    (htoStr : ∀ a b, L.valid a → L.valid b → (R.F.toStr a = R.F.toStr b ↔ a = b))
    (hnd : points.Nodup) (hlen : points.length = values.length)
    (hsize : points.length < 2 ^ 64)
    (hs : InterpSafe R (RunSafeG R.F R.ord) gs points values) {f : BPoly α}
    (h : BPoly.interpolate R points values = .ok (some f)) :
    KeysIn (NoOverflow R.ord) f := by
  have hxs : ∀ x ∈ points.map (·.1), L.valid x := by
    intro x hx; obtain ⟨p, hp', rfl⟩ := List.mem_map.1 hx; exact (hp p hp').1
  have hys : ∀ y ∈ points.map (·.2), L.valid y := by
    intro y hy; obtain ⟨p, hp', rfl⟩ := List.mem_map.1 hy; exact (hp p hp').2
  obtain ⟨dxn, dxm, dxl⟩ := distinctStrs_spec L htoStr _ hxs
  obtain ⟨dyn, dym, dyl⟩ := distinctStrs_spec L htoStr _ hys
  rw [List.length_map] at dxl dyl
  have hd := (ballDistinct_iff_nodup L hp htoStr).2 hnd
  rw [interpolate_eq, if_neg (by simpa using hlen), hd] at h
  simp only [Bool.not_true, Bool.false_eq_true, if_false] at h
  have h' : ((points.zip values).take points.length).foldl
      (istep R (BPoly.distinctStrs R.F (points.map (·.1)))
        (BPoly.distinctStrs R.F (points.map (·.2)))) (.ok (some [])) = .ok (some f) := by
    rw [List.take_of_length_le (by simp [hlen])]; exact h
  exact qinterp_fold_noOverflow L hR hw (fun a ha => hxs a ((dxm a).1 ha)) dxn
    (fun a ha => hys a ((dym a).1 ha)) dyn hone (lt_of_le_of_lt dxl hsize)
    (lt_of_le_of_lt dyl hsize) (fun p hp' => (dxm _).2 (List.mem_map.2 ⟨p, hp', rfl⟩))
    (fun p hp' => (dym _).2 (List.mem_map.2 ⟨p, hp', rfl⟩)) hlen hs points.length le_rfl h'

end Graded

end Interp
end Algobra
