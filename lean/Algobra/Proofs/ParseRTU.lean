/-
  Proofs/ParseRTU.lean — the univariate tokeniser `Parse.tokU` / `Parse.matchesU` on printed terms,
  for an arbitrary coefficient field whose printed elements the coefficient scanner reads back
  (`CoefRT`).  Helper file of `Props/C15Full.lean`.
-/
import Algobra.Proofs.ParseRT

namespace Algobra.ParseRT
open Algobra Algobra.Strings Algobra.Parse Algobra.Regex

variable {α : Type}

/-- the own variable of the coefficient field, as the tokenisers receive it -/
def ovOf (F : FOps α) : Option Cs := F.ownVar.map String.toList

/-- `X` may follow a coefficient: the coefficient scanner stops in front of it -/
def Stop (ov : Option Cs) (X : Cs) : Prop :=
  (∀ c ∈ X.head?, c.isDigit = false ∧ c ≠ '^') ∧ ∀ w, ov = some w → strip w X = none

/-- a coefficient as the polynomial printers write it -/
def coefText (F : FOps α) (c : α) : Cs :=
  (if F.nTerms c > 1 then "(" ++ F.toStr c ++ ")" else F.toStr c).toList

/-- what the round trip needs of the coefficient field: the coefficient pattern matches a printed
    element exactly, the element parser reads it back, `IsOne` identifies the one element -/
structure CoefRT (F : FOps α) (Valid : α → Prop) : Prop where
  scan : ∀ c, Valid c → ∀ X, Stop (ovOf F) X → scanCoef (ovOf F) (coefText F c ++ X) = some X
  parse : ∀ c, Valid c → F.parse (UPoly.trimParens (String.ofList (coefText F c))) = .ok c
  head : ∀ c, Valid c → ∃ x t, coefText F c = x :: t ∧ isWs x = false ∧ isSign x = false
  one : ∀ c, Valid c → F.isOne c = true → c = F.one
  own : ∀ w, F.ownVar = some w → ∃ y t, w.toList = y :: t ∧ y.isAlpha = true

/-- coefficient part of a printed term (`uVarPart` of `Proofs/Strings.lean` is the other part) -/
def coefPart (F : FOps α) (c : α) (d : Nat) : Cs :=
  if (!F.isOne c || d == 0) = true then coefText F c else []

def termChars (F : FOps α) (v : String) (c : α) (d : Nat) : Cs := coefPart F c d ++ uVarPart v d

/-- the ways a printed term ends: end of input, or the separator -/
def Post (post : Cs) : Prop := post = [] ∨ ∃ t, post = ' ' :: '+' :: ' ' :: t

theorem dropWs_post {post : Cs} (h : Post post) :
    dropWs post = [] ∨ ∃ t, dropWs post = '+' :: ' ' :: t := by
  rcases h with rfl | ⟨t, rfl⟩
  · exact Or.inl rfl
  · exact Or.inr ⟨t, by rw [dropWs_space, dropWs_of_head (by simp [isWs])]⟩

theorem post_head {post : Cs} (h : Post post) :
    ∀ c ∈ post.head?, c.isDigit = false ∧ c ≠ '^' ∧ c ≠ '*' := by
  rcases h with rfl | ⟨t, rfl⟩ <;> simp

theorem skipMult_post {post : Cs} (h : Post post) : skipMult post = dropWs post := by
  unfold skipMult
  rcases dropWs_post h with e | ⟨t, e⟩
  · rw [e]; rfl
  · rw [e, dropStar_of_head (by simp), dropWs_of_head (by simp [isWs])]

theorem skipMult_of_head {X : Cs} (h : ∀ c ∈ X.head?, isWs c = false ∧ c ≠ '*') :
    skipMult X = X := by
  unfold skipMult
  have e1 : dropWs X = X := dropWs_of_head (fun c hc => (h c hc).1)
  rw [e1]
  have e2 : dropStar X = X := dropStar_of_head (fun c hc => (h c hc).2)
  rw [e2, e1]

section
variable {F : FOps α} {Valid : α → Prop} {v : String} {x0 : Char} {vt : Cs}

theorem lower_alpha_ne {x : Char} (hx : x.isAlpha = true) {y : Char} (hy : y.isAlpha = false)
    (hy' : lower y = y) : lower x ≠ lower y := by
  intro e
  have := (alpha_facts hx).2.2.2.2.2.2.2.2.2
  rw [e, hy', hy] at this
  cases this

theorem varDeg_post (hv : v.toList = x0 :: vt) (hx : x0.isAlpha = true) {post : Cs} (h : Post post) :
    varDeg v.toList (skipMult post) = ("", "", dropWs post) := by
  rw [skipMult_post h]
  unfold varDeg
  rcases dropWs_post h with e | ⟨t, e⟩
  · rw [e, hv]; rfl
  · rw [e, hv, stripCi_head_ne _ _ (lower_alpha_ne hx (by decide) (by decide))]
    dsimp only
    rw [dropWs_of_head (by simp [isWs])]

theorem uVarPart_pos (v : String) {d : Nat} (hd : d ≠ 0) :
    uVarPart v d = v.toList ++ (if d = 1 then [] else '^' :: (toString d).toList) := by
  unfold uVarPart; rw [if_neg hd]

theorem varDeg_var (hv : v.toList = x0 :: vt) (hx : x0.isAlpha = true) {d : Nat} (hd : d ≠ 0)
    {post : Cs} (h : Post post) :
    varDeg v.toList (skipMult (uVarPart v d ++ post)) =
      (v, if d ≤ 1 then "" else toString d, dropWs post) := by
  obtain ⟨_, hws, _, hstar, _⟩ := alpha_facts hx
  have hsk : skipMult (uVarPart v d ++ post) = uVarPart v d ++ post := by
    have hh : ∀ c ∈ (uVarPart v d ++ post).head?, c = x0 := by
      rw [uVarPart_pos v hd, hv]; simp
    exact skipMult_of_head (fun c hc => by rw [hh c hc]; exact ⟨hws, hstar⟩)
  rw [hsk, uVarPart_pos v hd, List.append_assoc]
  unfold varDeg
  rw [stripCi_append rfl]
  dsimp only
  rw [consumed_append, String.ofList_toList]
  have hp := post_head h
  by_cases hd1 : d = 1
  · subst hd1
    rw [if_pos rfl, List.nil_append, dropCaret_of_head (fun c hc => (hp c hc).2.1),
      digits_of_head (fun c hc => (hp c hc).1), dropDigits_of_head (fun c hc => (hp c hc).1)]
    rfl
  · rw [if_neg hd1, List.cons_append, dropCaret_caret,
      digits_append (toString_digits d) (fun c hc => (hp c hc).1),
      dropDigits_append (toString_digits d) (fun c hc => (hp c hc).1), String.ofList_toList,
      if_neg (by omega)]

theorem stop_post (H : CoefRT F Valid) {post : Cs} (h : Post post) : Stop (ovOf F) post := by
  refine ⟨fun c hc => ⟨(post_head h c hc).1, (post_head h c hc).2.1⟩, ?_⟩
  intro w hw
  unfold ovOf at hw
  obtain ⟨w', hw', rfl⟩ := Option.map_eq_some_iff.1 hw
  obtain ⟨y, t, hy, hya⟩ := H.own w' hw'
  rw [hy]
  rcases h with rfl | ⟨t', rfl⟩
  · rfl
  · exact strip_head_ne _ _ (fun e => by rw [e] at hya; exact absurd hya (by decide))

theorem stop_var (H : CoefRT F Valid) (hv : v.toList = x0 :: vt) (hx : x0.isAlpha = true)
    (hun : ∀ w X, F.ownVar = some w → strip w.toList (v.toList ++ X) = none) {d : Nat} (hd : d ≠ 0)
    (post : Cs) : Stop (ovOf F) (uVarPart v d ++ post) := by
  obtain ⟨hdig, _, _, _, hcar, _⟩ := alpha_facts hx
  rw [uVarPart_pos v hd, List.append_assoc]
  refine ⟨?_, ?_⟩
  · rw [hv]; simpa using ⟨hdig, hcar⟩
  · intro w hw
    unfold ovOf at hw
    obtain ⟨w', hw', rfl⟩ := Option.map_eq_some_iff.1 hw
    exact hun w' _ hw'

/-- no coefficient in front of a variable: the optional coefficient group matches nothing -/
theorem scanCoef_none_var (H : CoefRT F Valid) (hv : v.toList = x0 :: vt) (hx : x0.isAlpha = true)
    (hun : ∀ w X, F.ownVar = some w → strip w.toList (v.toList ++ X) = none) (X : Cs) :
    (scanCoef (ovOf F) (v.toList ++ X)).getD (v.toList ++ X) = v.toList ++ X := by
  obtain ⟨hdig, _, _, _, _, hpar, _⟩ := alpha_facts hx
  have hh : ∀ c ∈ (v.toList ++ X).head?, c.isDigit = false := by rw [hv]; simpa using hdig
  cases hov : ovOf F with
  | none => simp [scanCoef, dropDigits_of_head hh]
  | some w =>
    unfold ovOf at hov
    obtain ⟨w', hw', rfl⟩ := Option.map_eq_some_iff.1 hov
    have h1 : scanCoefNamed w'.toList (v.toList ++ X) = scanTerm w'.toList (v.toList ++ X) := by
      rw [hv]; simp [scanCoefNamed, hpar]
    have h2 : scanTerm w'.toList (v.toList ++ X) = none := by
      unfold scanTerm
      rw [dropDigits_of_head hh, hun w' X hw', digits_of_head hh]; rfl
    simp [scanCoef, h1, h2]


theorem coefPart_cases (F : FOps α) (c : α) (d : Nat) :
    (coefPart F c d = coefText F c) ∨ (coefPart F c d = [] ∧ d ≠ 0 ∧ F.isOne c = true) := by
  unfold coefPart
  by_cases h : (!F.isOne c || d == 0) = true
  · exact Or.inl (if_pos h)
  · refine Or.inr ⟨if_neg h, ?_, ?_⟩
    · intro e; apply h; simp [e]
    · cases h1 : F.isOne c with
      | true => rfl
      | false => exfalso; apply h; simp [h1]

theorem termChars_head (H : CoefRT F Valid) (hv : v.toList = x0 :: vt) (hx : x0.isAlpha = true)
    {c : α} (hc : Valid c) (d : Nat) (X : Cs) :
    ∃ y t, termChars F v c d ++ X = y :: t ∧ isWs y = false ∧ isSign y = false := by
  obtain ⟨_, hws, hsg, _⟩ := alpha_facts hx
  unfold termChars
  rcases coefPart_cases F c d with e | ⟨e, hd, _⟩
  · obtain ⟨y, t, h1, h2, h3⟩ := H.head c hc
    exact ⟨y, t ++ (uVarPart v d ++ X), by rw [e, h1]; simp, h2, h3⟩
  · rw [e, uVarPart_pos v hd, hv]
    exact ⟨x0, _, by simp; rfl, hws, hsg⟩

theorem takeSign_plain {y : Char} {t : Cs} (h : isSign y = false) : takeSign (y :: t) = ("", y :: t) := by
  simp [takeSign, h]

theorem takeSign_plus (t : Cs) : takeSign ('+' :: t) = ("+", t) := by
  simp [takeSign, isSign]

/-- the match of `tokU` on a printed term: groups and remaining input -/
theorem tokU_term (H : CoefRT F Valid) (hv : v.toList = x0 :: vt) (hx : x0.isAlpha = true)
    (hun : ∀ w X, F.ownVar = some w → strip w.toList (v.toList ++ X) = none)
    {pre : Cs} (hpre : pre = [] ∨ pre = ['+', ' ']) {c : α} (hc : Valid c) (d : Nat)
    {post : Cs} (hpost : Post post) :
    ∃ full, tokU (ovOf F) v.toList (pre ++ (termChars F v c d ++ post)) =
      (#[full, if pre = [] then "" else "+", String.ofList (coefPart F c d),
         if d = 0 then "" else v, if d ≤ 1 then "" else toString d], dropWs post) := by
  obtain ⟨y, t, hT, hws, hsg⟩ := termChars_head H hv hx hc d post
  -- (a) sign
  have ha : ∃ r2, takeSign (dropWs (pre ++ (termChars F v c d ++ post))) =
      (if pre = [] then "" else "+", r2) ∧ dropWs r2 = termChars F v c d ++ post := by
    rcases hpre with rfl | rfl
    · refine ⟨termChars F v c d ++ post, ?_, ?_⟩
      · rw [List.nil_append, hT, dropWs_of_head (by simpa using hws), takeSign_plain hsg]; rfl
      · rw [hT]; exact dropWs_of_head (by simpa using hws)
    · refine ⟨' ' :: (termChars F v c d ++ post), ?_, ?_⟩
      · rw [show ['+', ' '] ++ (termChars F v c d ++ post) = '+' :: ' ' :: (termChars F v c d ++ post) from rfl,
          dropWs_of_head (by simp [isWs]), takeSign_plus]; rfl
      · rw [dropWs_space, hT]; exact dropWs_of_head (by simpa using hws)
  obtain ⟨r2, ha1, ha2⟩ := ha
  -- (b) coefficient
  have hb : (scanCoef (ovOf F) (termChars F v c d ++ post)).getD (termChars F v c d ++ post) =
        uVarPart v d ++ post ∧
      consumed (termChars F v c d ++ post) (uVarPart v d ++ post) = String.ofList (coefPart F c d) := by
    unfold termChars
    rw [List.append_assoc]
    refine ⟨?_, consumed_append _ _⟩
    rcases coefPart_cases F c d with e | ⟨e, hd, _⟩
    · rw [e]
      have hst : Stop (ovOf F) (uVarPart v d ++ post) := by
        by_cases hd : d = 0
        · have : uVarPart v d = [] := by unfold uVarPart; rw [if_pos hd]
          rw [this]; exact stop_post H hpost
        · exact stop_var H hv hx hun hd post
      rw [H.scan c hc _ hst]; rfl
    · rw [e, List.nil_append, uVarPart_pos v hd, List.append_assoc]
      exact scanCoef_none_var H hv hx hun _
  -- (c) variable and exponent
  have hcd : varDeg v.toList (skipMult (uVarPart v d ++ post)) =
      (if d = 0 then "" else v, if d ≤ 1 then "" else toString d, dropWs post) := by
    by_cases hd : d = 0
    · have : uVarPart v d = [] := by unfold uVarPart; rw [if_pos hd]
      rw [this, List.nil_append, varDeg_post hv hx hpost, if_pos hd, if_pos (by omega)]
    · rw [varDeg_var hv hx hd hpost, if_neg hd]
  unfold tokU
  dsimp only
  rw [ha1]
  dsimp only
  rw [ha2, hb.1, hb.2, hcd]
  exact ⟨_, rfl⟩


theorem strLower_ne_empty (hv : v.toList = x0 :: vt) : UPoly.strLower v ≠ "" := by
  intro e
  have := congrArg String.toList e
  simp [UPoly.strLower, hv] at this

theorem ofList_eq_empty_iff (l : Cs) : String.ofList l = "" ↔ l = [] := by
  constructor
  · intro h; have := congrArg String.toList h; simpa using this
  · rintro rfl; rfl

/-- the post-processing step of `polynomialStringToMap` on the match of a printed term -/
theorem u_go_term (H : CoefRT F Valid) (hv : v.toList = x0 :: vt) (full sign : String)
    (hsign : sign ≠ "-") {c : α} (hc : Valid c) {d : Nat} (hd : d < 2 ^ 63)
    (t : List (Array String)) (out : List (Nat × α)) :
    UPoly.stringToMapRx.go F (#[full, sign, String.ofList (coefPart F c d),
        if d = 0 then "" else v, if d ≤ 1 then "" else toString d] :: t) out =
      UPoly.stringToMapRx.go F t (UPoly.mapAdd F out d c) := by
  rw [UPoly.stringToMapRx.go]
  have hl := strLower_ne_empty hv
  have hsl : UPoly.strLower "" = "" := rfl
  have hpi : parseIntDigits d.repr = some d := parseIntDigits_toString (n := d) hd
  have hne : d.repr ≠ "" := toString_ne_empty d
  rcases coefPart_cases F c d with e | ⟨e, hd0, h1⟩
  · obtain ⟨y, t', hy, _⟩ := H.head c hc
    have hne' : String.ofList (coefText F c) ≠ "" := by
      rw [Ne, ofList_eq_empty_iff, hy]; simp
    rw [e]
    by_cases hd0 : d = 0
    · subst hd0
      simp [hne', H.parse c hc, hsign, hsl]
    · by_cases hd1 : d = 1
      · subst hd1
        simp [hne', H.parse c hc, hsign, hl]
      · have : ¬ d ≤ 1 := by omega
        simp [hne', H.parse c hc, hsign, hl, hd0, this, hpi, hne]
  · rw [e, ← H.one c hc h1]
    by_cases hd1 : d = 1
    · subst hd1
      simp [hsign, hl]
    · have : ¬ d ≤ 1 := by omega
      simp [hsign, hl, hd0, this, hpi, hne]


end

/-! ### joined term lists -/

/-- one printed term of `UPoly.toStr F v` -/
def termStr (F : FOps α) (v : String) (c : α) (d : Nat) : String :=
  (if !F.isOne c || d == 0 then
      (if F.nTerms c > 1 then "(" ++ F.toStr c ++ ")" else F.toStr c) else "") ++
    (if d == 1 then v else if d > 1 then v ++ "^" ++ toString d else "")

theorem termStr_toList (F : FOps α) (v : String) (c : α) (d : Nat) :
    (termStr F v c d).toList = termChars F v c d := by
  unfold termStr termChars coefPart coefText uVarPart
  rw [String.toList_append]
  congr 1
  · split <;> simp
  · by_cases h0 : d = 0
    · simp [h0]
    · by_cases h1 : d = 1
      · simp [h1]
      · have : d > 1 := by omega
        simp [h0, h1, this]

def JG (F : FOps α) (v : String) (l : List (α × Nat)) : Cs :=
  (" + ".intercalate (l.map fun t => termStr F v t.1 t.2)).toList

def RG (F : FOps α) (v : String) (l : List (α × Nat)) : Cs :=
  if l = [] then [] else ' ' :: '+' :: ' ' :: JG F v l

theorem JG_cons (F : FOps α) (v : String) (t : α × Nat) (l : List (α × Nat)) :
    JG F v (t :: l) = termChars F v t.1 t.2 ++ RG F v l := by
  rw [← termStr_toList]
  cases l with
  | nil => simp [JG, RG]
  | cons e t => simp [JG, RG]

theorem RG_post (F : FOps α) (v : String) (l : List (α × Nat)) : Post (RG F v l) := by
  unfold RG; split
  · exact Or.inl rfl
  · exact Or.inr ⟨_, rfl⟩

theorem dropWs_RG (F : FOps α) (v : String) (l : List (α × Nat)) :
    dropWs (RG F v l) = if l = [] then [] else ['+', ' '] ++ JG F v l := by
  unfold RG; split
  · rfl
  · rw [dropWs_space, dropWs_of_head (by simp [isWs])]; rfl

section
variable {F : FOps α} {Valid : α → Prop} {v : String} {x0 : Char} {vt : Cs}

theorem loopU_nil (ov : Option Cs) (V : Cs) (f : Nat) : loopU ov V f [] = some [] := by
  cases f <;> rfl

theorem loopU_terms (H : CoefRT F Valid) (hv : v.toList = x0 :: vt) (hx : x0.isAlpha = true)
    (hun : ∀ w X, F.ownVar = some w → strip w.toList (v.toList ++ X) = none) :
    ∀ (l : List (α × Nat)), l ≠ [] → (∀ t ∈ l, Valid t.1 ∧ t.2 < 2 ^ 63) →
    ∀ (pre : Cs), (pre = [] ∨ pre = ['+', ' ']) → ∀ (f : Nat) (out : List (Nat × α)),
    (pre ++ JG F v l).length ≤ f →
    ∃ ms, loopU (ovOf F) v.toList f (pre ++ JG F v l) = some ms ∧
      UPoly.stringToMapRx.go F ms out =
        .ok (l.foldl (fun o t => UPoly.mapAdd F o t.2 t.1) out) := by
  intro l
  induction l with
  | nil => intro h; exact absurd rfl h
  | cons t l ih =>
    intro _ hl pre hpre f out hf
    rw [JG_cons] at hf ⊢
    obtain ⟨hc, hd⟩ := hl t (by simp)
    obtain ⟨full, htok⟩ := tokU_term H hv hx hun hpre hc t.2 (RG_post F v l)
    obtain ⟨y, tl, hT, _⟩ := termChars_head H hv hx hc t.2 (RG F v l)
    have hsign : (if pre = [] then "" else "+" : String) ≠ "-" := by split <;> decide
    have hs : (pre ++ (termChars F v t.1 t.2 ++ RG F v l)).isEmpty = false := by
      rw [hT]; cases pre <;> rfl
    have hlt : (dropWs (RG F v l)).length < (pre ++ (termChars F v t.1 t.2 ++ RG F v l)).length := by
      have h1 : (dropWs (RG F v l)).length ≤ (RG F v l).length := by
        rw [dropWs_RG]; unfold RG; split <;> simp
      obtain ⟨y', tl', hT', _⟩ := termChars_head H hv hx hc t.2 []
      have h2 : (termChars F v t.1 t.2).length = tl'.length + 1 := by
        rw [List.append_nil] at hT'; rw [hT']; rfl
      rw [List.length_append, List.length_append]
      omega
    cases f with
    | zero => rw [hT] at hf; simp at hf
    | succ f =>
      rw [loopU, hs, htok]
      simp only [Bool.false_eq_true, if_false, hlt, if_true]
      by_cases hl0 : l = []
      · subst hl0
        have hrest : dropWs (RG F v []) = [] := by simp [RG, dropWs]
        rw [hrest, loopU_nil]
        refine ⟨[_], rfl, ?_⟩
        rw [u_go_term H hv full _ hsign hc hd]
        simp [UPoly.stringToMapRx.go]
      · rw [dropWs_RG, if_neg hl0] at hlt ⊢
        obtain ⟨ms, h1, h2⟩ := ih hl0 (fun e he => hl e (by simp [he])) ['+', ' '] (Or.inr rfl) f
          (UPoly.mapAdd F out t.2 t.1) (by omega)
        refine ⟨_ :: ms, by rw [h1]; rfl, ?_⟩
        rw [u_go_term H hv full _ hsign hc hd, h2]
        simp

end

end Algobra.ParseRT
