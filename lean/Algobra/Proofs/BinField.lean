/-
  Proofs/BinField.lean — binary fields GF(2^n) on bit masks (C01/C02, binfield part).
  Bridge `toPoly2 : Nat → (ZMod 2)[X]` (bit i = coefficient of X^i) and the specifications of
  `Bin.reduce`, `Bin.mul`, `Bin.pow`, `Bin.bitProd`, `Bin.bitQuoRem`, `Bin.inv`.
  Congruences modulo the Conway polynomial are stated as equalities in `AdjoinRoot (toPoly2 m)`
  through `emb m a = AdjoinRoot.mk (toPoly2 m) (toPoly2 a)`; `emb_eq_iff` translates to divisibility.
-/
import Mathlib.Algebra.Polynomial.Basic
import Mathlib.Algebra.Polynomial.Degree.Defs
import Mathlib.Algebra.Polynomial.Degree.Lemmas
import Mathlib.Data.ZMod.Basic
import Mathlib.Algebra.Field.ZMod
import Mathlib.Algebra.Polynomial.Degree.Domain
import Mathlib.Tactic.Ring
import Mathlib.RingTheory.AdjoinRoot
import Mathlib.FieldTheory.Finite.Basic
import Mathlib.FieldTheory.Finiteness
import Mathlib.Tactic.LinearCombination
import Mathlib.FieldTheory.Finite.Trace
import Mathlib.Algebra.Polynomial.SpecificDegree
import Algobra.Model.Field
import Algobra.Model.Ext
import Algobra.Proofs.Lawful

open Polynomial

namespace Algobra
namespace BinField

/-! ## `bitLen` -/

theorem bitLen_zero : bitLen 0 = 0 := by simp [bitLen]

theorem bitLen_eq_zero_iff {v : Nat} : bitLen v = 0 ↔ v = 0 := by
  unfold bitLen; split <;> simp_all

theorem bitLen_le_iff {v k : Nat} : bitLen v ≤ k ↔ v < 2 ^ k := by
  unfold bitLen
  split
  · next h => subst h; simp
  · next h => rw [Nat.add_one_le_iff, Nat.log2_lt h]

theorem lt_bitLen_iff {v k : Nat} : k < bitLen v ↔ 2 ^ k ≤ v := by
  rw [← Nat.not_le, bitLen_le_iff, Nat.not_lt]

theorem lt_two_pow_bitLen (v : Nat) : v < 2 ^ bitLen v := bitLen_le_iff.1 (Nat.le_refl _)

theorem two_pow_bitLen_pred_le {v : Nat} (h : v ≠ 0) : 2 ^ (bitLen v - 1) ≤ v := by
  have : bitLen v ≠ 0 := fun h0 => h (bitLen_eq_zero_iff.1 h0)
  exact lt_bitLen_iff.1 (by omega)

theorem bitLen_eq_of_bounds {v k : Nat} (h1 : 2 ^ k ≤ v) (h2 : v < 2 ^ (k + 1)) : bitLen v = k + 1 := by
  have := lt_bitLen_iff.2 h1
  have := bitLen_le_iff.2 h2
  omega

/-- xor of two numbers with the same top bit `k` is below `2^k` -/
theorem xor_lt_of_same_top {a b k : Nat} (ha1 : 2 ^ k ≤ a) (ha2 : a < 2 ^ (k + 1))
    (hb1 : 2 ^ k ≤ b) (hb2 : b < 2 ^ (k + 1)) : a ^^^ b < 2 ^ k := by
  have hd : ∀ x, 2 ^ k ≤ x → x < 2 ^ (k + 1) → x >>> k = 1 := by
    intro x h1 h2
    rw [Nat.shiftRight_eq_div_pow]
    have hpos : 0 < 2 ^ k := Nat.two_pow_pos k
    apply Nat.div_eq_of_lt_le
    · simpa using h1
    · rw [Nat.pow_succ] at h2; omega
  have h : (a ^^^ b) >>> k = 0 := by
    rw [Nat.shiftRight_xor_distrib, hd a ha1 ha2, hd b hb1 hb2]; rfl
  rw [Nat.shiftRight_eq_div_pow] at h
  exact (Nat.div_eq_zero_iff_lt (Nat.two_pow_pos k)).1 h

/-! ## the bridge -/

noncomputable def toPoly2 (v : Nat) : (ZMod 2)[X] :=
  if h : v = 0 then 0 else C ((v % 2 : Nat) : ZMod 2) + X * toPoly2 (v / 2)
decreasing_by omega

theorem toPoly2_zero : toPoly2 0 = 0 := by rw [toPoly2]; simp

theorem toPoly2_step (v : Nat) :
    toPoly2 v = C ((v % 2 : Nat) : ZMod 2) + X * toPoly2 (v / 2) := by
  by_cases h : v = 0
  · subst h; simp [toPoly2_zero]
  · rw [toPoly2]; simp [h]

theorem cast_xor_bit (a b : Nat) :
    (((a ^^^ b) % 2 : Nat) : ZMod 2) = ((a % 2 : Nat) : ZMod 2) + ((b % 2 : Nat) : ZMod 2) := by
  have h1 : (a ^^^ b) % 2 = (a % 2 + b % 2) % 2 := by
    have := @Nat.xor_mod_two_pow a b 1
    simp only [pow_one] at this
    rw [this]
    rcases Nat.mod_two_eq_zero_or_one a with ha | ha <;>
      rcases Nat.mod_two_eq_zero_or_one b with hb | hb <;> simp [ha, hb]
  rw [h1, ← Nat.cast_add, ZMod.natCast_mod]

theorem toPoly2_xor (a b : Nat) : toPoly2 (a ^^^ b) = toPoly2 a + toPoly2 b := by
  induction a using Nat.strong_induction_on generalizing b with
  | _ a ih =>
    by_cases ha : a = 0
    · subst ha; simp [toPoly2_zero]
    · rw [toPoly2_step (a ^^^ b), toPoly2_step a, toPoly2_step b, Nat.xor_div_two,
        ih (a/2) (by omega), cast_xor_bit]
      simp only [map_add]; ring

theorem toPoly2_shl (a k : Nat) : toPoly2 (a <<< k) = X^k * toPoly2 a := by
  induction k generalizing a with
  | zero => simp
  | succ k ih =>
    rw [Nat.shiftLeft_succ_inside, ih, toPoly2_step (2*a)]
    simp [pow_succ]; ring

theorem toPoly2_one : toPoly2 1 = 1 := by
  rw [toPoly2_step]; simp [toPoly2_zero]

theorem toPoly2_two : toPoly2 2 = X := by
  rw [toPoly2_step]; simp [toPoly2_one]

theorem toPoly2_two_pow (k : Nat) : toPoly2 (2 ^ k) = X ^ k := by
  have := toPoly2_shl 1 k
  rwa [Nat.shiftLeft_eq, one_mul, toPoly2_one, mul_one] at this

/-- bit `i` is the coefficient of `X^i` -/
theorem coeff_toPoly2 (v i : Nat) : (toPoly2 v).coeff i = if v.testBit i then 1 else 0 := by
  induction i generalizing v with
  | zero =>
    rw [toPoly2_step, coeff_add, coeff_C_zero, mul_coeff_zero, coeff_X_zero, zero_mul, add_zero,
      Nat.testBit_zero]
    rcases Nat.mod_two_eq_zero_or_one v with h | h <;> simp [h]
  | succ i ih =>
    rw [toPoly2_step, coeff_add, coeff_C_succ, coeff_X_mul, ih, Nat.testBit_succ, zero_add]

theorem toPoly2_injective : Function.Injective toPoly2 := by
  intro a b h
  apply Nat.eq_of_testBit_eq
  intro i
  have := congrArg (fun p => p.coeff i) h
  simp only [coeff_toPoly2] at this
  by_cases ha : a.testBit i <;> by_cases hb : b.testBit i <;> simp_all

theorem toPoly2_eq_zero_iff {v : Nat} : toPoly2 v = 0 ↔ v = 0 := by
  constructor
  · intro h; exact toPoly2_injective (h.trans toPoly2_zero.symm)
  · intro h; subst h; exact toPoly2_zero

theorem degree_toPoly2_lt_iff {v k : Nat} : (toPoly2 v).degree < k ↔ v < 2 ^ k := by
  rw [degree_lt_iff_coeff_zero]
  constructor
  · intro h
    apply Nat.lt_pow_two_of_testBit
    intro i hi
    have := h i hi
    rw [coeff_toPoly2] at this
    by_cases ht : v.testBit i <;> simp_all
  · intro h i hi
    rw [coeff_toPoly2, Nat.testBit_lt_two_pow (Nat.lt_of_lt_of_le h (Nat.pow_le_pow_right (by decide) hi))]
    simp

theorem degree_toPoly2_lt_bitLen (v : Nat) : (toPoly2 v).degree < bitLen v :=
  degree_toPoly2_lt_iff.2 (lt_two_pow_bitLen v)

theorem natDegree_toPoly2 {v : Nat} (h : v ≠ 0) : (toPoly2 v).natDegree + 1 = bitLen v := by
  have hne : toPoly2 v ≠ 0 := fun h0 => h (toPoly2_eq_zero_iff.1 h0)
  have h1 := degree_toPoly2_lt_bitLen v
  rw [degree_eq_natDegree hne, Nat.cast_lt] at h1
  have h2 : ¬ (toPoly2 v).degree < ((bitLen v - 1 : Nat) : WithBot Nat) := by
    rw [degree_toPoly2_lt_iff, Nat.not_lt]; exact two_pow_bitLen_pred_le h
  rw [degree_eq_natDegree hne, Nat.cast_lt] at h2
  omega

theorem natDegree_toPoly2_lt_bitLen {v : Nat} (h : v ≠ 0) : (toPoly2 v).natDegree < bitLen v := by
  have := natDegree_toPoly2 h; omega

/-! ## the quotient ring and the embedding -/

/-- the element of `GF(2)[X]/(m)` represented by the bit mask `a` -/
noncomputable def emb (m a : Nat) : AdjoinRoot (toPoly2 m) := AdjoinRoot.mk (toPoly2 m) (toPoly2 a)

theorem emb_eq_iff {m a b : Nat} : emb m a = emb m b ↔ toPoly2 m ∣ toPoly2 a - toPoly2 b :=
  AdjoinRoot.mk_eq_mk

theorem emb_zero (m : Nat) : emb m 0 = 0 := by simp [emb, toPoly2_zero]
theorem emb_one (m : Nat) : emb m 1 = 1 := by simp [emb, toPoly2_one]
theorem emb_self (m : Nat) : emb m m = 0 := by simp [emb]
theorem emb_xor (m a b : Nat) : emb m (a ^^^ b) = emb m a + emb m b := by
  simp [emb, toPoly2_xor]
theorem emb_shl (m a k : Nat) : emb m (a <<< k) = AdjoinRoot.root (toPoly2 m) ^ k * emb m a := by
  simp [emb, toPoly2_shl]
theorem emb_two (m : Nat) : emb m 2 = AdjoinRoot.root (toPoly2 m) := by
  simp [emb, toPoly2_two]

/-- characteristic two -/
theorem emb_add_self (m : Nat) (x : AdjoinRoot (toPoly2 m)) : x + x = 0 := by
  induction x using AdjoinRoot.induction_on with
  | ih p =>
    rw [← map_add]
    have : p + p = 0 := by
      have h2 : (2 : (ZMod 2)[X]) = 0 := by
        have : (2 : ZMod 2) = 0 := by decide
        rw [← C_ofNat, this, C_0]
      rw [← two_mul, h2, zero_mul]
    rw [this, map_zero]

theorem emb_neg (m : Nat) (x : AdjoinRoot (toPoly2 m)) : -x = x :=
  neg_eq_of_add_eq_zero_left (emb_add_self m x)

theorem emb_sub (m : Nat) (x y : AdjoinRoot (toPoly2 m)) : x - y = x + y := by
  rw [sub_eq_add_neg, emb_neg]

theorem w64_of_lt {x : Nat} (h : x < 2 ^ 64) : w64 x = x := Nat.mod_eq_of_lt h

/-! ## `reduce` -/

theorem reduce_step {n m v : Nat} (hm1 : 2 ^ n ≤ m) (hm2 : m < 2 ^ (n + 1))
    (hv : v < 2 ^ 64) (h : bitLen v > n) :
    w64 (m <<< (bitLen v - n - 1)) = m <<< (bitLen v - n - 1) ∧
      bitLen (v ^^^ m <<< (bitLen v - n - 1)) < bitLen v := by
  have hv0 : v ≠ 0 := by
    intro h0; subst h0; simp [bitLen_zero] at h
  have hL64 : bitLen v ≤ 64 := bitLen_le_iff.2 hv
  obtain ⟨s, hs⟩ : ∃ s, bitLen v = n + 1 + s := ⟨bitLen v - n - 1, by omega⟩
  have hs' : bitLen v - n - 1 = s := by omega
  rw [hs']
  have hlo : 2 ^ (n + s) ≤ m <<< s := by
    rw [Nat.shiftLeft_eq, Nat.pow_add]; exact Nat.mul_le_mul_right _ hm1
  have hhi : m <<< s < 2 ^ (n + s + 1) := by
    rw [Nat.shiftLeft_eq, show n + s + 1 = (n + 1) + s by omega, Nat.pow_add]
    exact Nat.mul_lt_mul_of_pos_right hm2 (Nat.two_pow_pos s)
  have hvlo : 2 ^ (n + s) ≤ v := by
    have := two_pow_bitLen_pred_le hv0
    rwa [show bitLen v - 1 = n + s by omega] at this
  have hvhi : v < 2 ^ (n + s + 1) := by
    have := lt_two_pow_bitLen v
    rwa [show bitLen v = n + s + 1 by omega] at this
  constructor
  · apply w64_of_lt
    exact Nat.lt_of_lt_of_le hhi (Nat.pow_le_pow_right (by decide) (by omega))
  · have := xor_lt_of_same_top hvlo hvhi hlo hhi
    have := bitLen_le_iff.2 this
    omega

theorem reduce_of_le {n m v : Nat} (h : bitLen v ≤ n) : Bin.reduce n m v = v := by
  rw [Bin.reduce]; simp [Nat.not_lt.2 h]

theorem reduce_of_lt {n m v : Nat} (h : v < 2 ^ n) : Bin.reduce n m v = v :=
  reduce_of_le (bitLen_le_iff.2 h)

theorem reduce_spec {n m : Nat} (hm1 : 2 ^ n ≤ m) (hm2 : m < 2 ^ (n + 1)) (v : Nat)
    (hv : v < 2 ^ 64) :
    Bin.reduce n m v < 2 ^ n ∧ emb m (Bin.reduce n m v) = emb m v := by
  induction hL : bitLen v using Nat.strong_induction_on generalizing v with
  | _ L ih =>
    by_cases h : bitLen v > n
    · obtain ⟨hw, hlt⟩ := reduce_step hm1 hm2 hv h
      rw [Bin.reduce]
      simp only [h, ↓reduceDIte, hw, hlt, ↓reduceIte]
      have hv' : v ^^^ m <<< (bitLen v - n - 1) < 2 ^ 64 := by
        apply bitLen_le_iff.1
        have := bitLen_le_iff.2 hv
        omega
      obtain ⟨h1, h2⟩ := ih _ (by rw [← hL]; exact hlt) _ hv' rfl
      refine ⟨h1, ?_⟩
      rw [h2, emb_xor, emb_shl, emb_self, mul_zero, add_zero]
    · rw [reduce_of_le (Nat.not_lt.1 h)]
      exact ⟨bitLen_le_iff.1 (Nat.not_lt.1 h), rfl⟩

/-! ## `mul` -/

theorem emb_step_even (m : Nat) {x : Nat} (h : x % 2 = 0) :
    emb m x = AdjoinRoot.root (toPoly2 m) * emb m (x / 2) := by
  unfold emb; rw [toPoly2_step x, h]; simp

theorem emb_step_odd (m : Nat) {x : Nat} (h : x % 2 = 1) :
    emb m x = 1 + AdjoinRoot.root (toPoly2 m) * emb m (x / 2) := by
  unfold emb; rw [toPoly2_step x, h]; simp

/-- the update of `y` in the `Prod` loop: multiply by `X` and reduce once; nothing wraps -/
theorem mul_step_y {n m y : Nat} (hn : n ≤ 63) (hm1 : 2 ^ n ≤ m) (hm2 : m < 2 ^ (n + 1))
    (hy : y < 2 ^ n) :
    w64 (y <<< 1) ^^^ w64 ((w64 (y <<< 1) >>> n) * m) < 2 ^ n ∧
      emb m (w64 (y <<< 1) ^^^ w64 ((w64 (y <<< 1) >>> n) * m))
        = AdjoinRoot.root (toPoly2 m) * emb m y := by
  have hpow : (2 : Nat) ^ (n + 1) ≤ 2 ^ 64 := Nat.pow_le_pow_right (by decide) (by omega)
  have hy1 : y <<< 1 < 2 ^ (n + 1) := by
    rw [Nat.shiftLeft_eq, Nat.pow_succ]; omega
  have hw1 : w64 (y <<< 1) = y <<< 1 := w64_of_lt (Nat.lt_of_lt_of_le hy1 hpow)
  rw [hw1]
  have hembshl : emb m (y <<< 1) = AdjoinRoot.root (toPoly2 m) * emb m y := by
    rw [emb_shl, pow_one]
  by_cases hc : y <<< 1 < 2 ^ n
  · have h0 : (y <<< 1) >>> n = 0 := by
      rw [Nat.shiftRight_eq_div_pow]; exact Nat.div_eq_of_lt hc
    rw [h0, Nat.zero_mul]
    simp only [w64, Nat.zero_mod, Nat.xor_zero]
    exact ⟨hc, hembshl⟩
  · have hc' : 2 ^ n ≤ y <<< 1 := Nat.not_lt.1 hc
    have h1 : (y <<< 1) >>> n = 1 := by
      rw [Nat.shiftRight_eq_div_pow]
      apply Nat.div_eq_of_lt_le
      · simpa using hc'
      · rw [Nat.pow_succ] at hy1; omega
    rw [h1, Nat.one_mul, w64_of_lt (Nat.lt_of_lt_of_le hm2 hpow)]
    refine ⟨xor_lt_of_same_top hc' hy1 hm1 hm2, ?_⟩
    rw [emb_xor, emb_self, add_zero, hembshl]

theorem mulLoop_spec {n m : Nat} (hn : n ≤ 63) (hm1 : 2 ^ n ≤ m) (hm2 : m < 2 ^ (n + 1))
    (x : Nat) : ∀ res y, res < 2 ^ n → y < 2 ^ n →
      Bin.mulLoop n m res x y < 2 ^ n ∧
        emb m (Bin.mulLoop n m res x y) = emb m res + emb m x * emb m y := by
  induction x using Nat.strong_induction_on with
  | _ x ih =>
    intro res y hres hy
    by_cases hx : x = 0
    · subst hx
      rw [Bin.mulLoop]
      simp [hres, emb_zero]
    · rw [Bin.mulLoop]
      simp only [hx, ↓reduceDIte]
      obtain ⟨hy', hey'⟩ := mul_step_y hn hm1 hm2 hy
      have hpow : (2 : Nat) ^ n ≤ 2 ^ 64 := Nat.pow_le_pow_right (by decide) (by omega)
      rcases Nat.mod_two_eq_zero_or_one x with hb | hb
      · have hres' : res ^^^ w64 (y * (x % 2)) = res := by
          rw [hb]; simp [w64]
        rw [hres']
        obtain ⟨h1, h2⟩ := ih (x / 2) (by omega) res _ hres hy'
        refine ⟨h1, ?_⟩
        rw [h2, hey', emb_step_even m hb]; ring
      · have hres' : res ^^^ w64 (y * (x % 2)) = res ^^^ y := by
          rw [hb, Nat.mul_one, w64_of_lt (Nat.lt_of_lt_of_le hy hpow)]
        rw [hres']
        obtain ⟨h1, h2⟩ := ih (x / 2) (by omega) (res ^^^ y) _ (Nat.xor_lt_two_pow hres hy) hy'
        refine ⟨h1, ?_⟩
        rw [h2, hey', emb_xor, emb_step_odd m hb]; ring

theorem mul_spec {n m : Nat} (hn : n ≤ 63) (hm1 : 2 ^ n ≤ m) (hm2 : m < 2 ^ (n + 1))
    {a b : Nat} (hb : b < 2 ^ n) :
    Bin.mul n m a b < 2 ^ n ∧ emb m (Bin.mul n m a b) = emb m a * emb m b := by
  obtain ⟨h1, h2⟩ := mulLoop_spec hn hm1 hm2 a 0 b (Nat.two_pow_pos n) hb
  refine ⟨h1, ?_⟩
  rw [Bin.mul, h2, emb_zero, zero_add]

/-! ## canonical representatives -/

theorem modulus_ne_zero {n m : Nat} (hm1 : 2 ^ n ≤ m) : m ≠ 0 := by
  have := Nat.two_pow_pos n; omega

theorem natDegree_modulus {n m : Nat} (hm1 : 2 ^ n ≤ m) (hm2 : m < 2 ^ (n + 1)) :
    (toPoly2 m).natDegree = n := by
  have h := natDegree_toPoly2 (modulus_ne_zero hm1)
  rw [bitLen_eq_of_bounds hm1 hm2] at h
  omega

theorem toPoly2_modulus_ne_zero {n m : Nat} (hm1 : 2 ^ n ≤ m) : toPoly2 m ≠ 0 :=
  fun h => modulus_ne_zero hm1 (toPoly2_eq_zero_iff.1 h)

theorem degree_modulus {n m : Nat} (hm1 : 2 ^ n ≤ m) (hm2 : m < 2 ^ (n + 1)) :
    (toPoly2 m).degree = n := by
  rw [degree_eq_natDegree (toPoly2_modulus_ne_zero hm1), natDegree_modulus hm1 hm2]

/-- two reduced bit masks are congruent modulo the Conway polynomial only if they are equal -/
theorem emb_injective {n m : Nat} (hm1 : 2 ^ n ≤ m) (hm2 : m < 2 ^ (n + 1)) {a b : Nat}
    (ha : a < 2 ^ n) (hb : b < 2 ^ n) (h : emb m a = emb m b) : a = b := by
  rw [emb_eq_iff] at h
  apply toPoly2_injective
  apply sub_eq_zero.1
  apply eq_zero_of_dvd_of_degree_lt h
  rw [degree_modulus hm1 hm2]
  refine lt_of_le_of_lt (degree_sub_le _ _) (max_lt ?_ ?_)
  · exact degree_toPoly2_lt_iff.2 ha
  · exact degree_toPoly2_lt_iff.2 hb

theorem emb_eq_emb_iff {n m : Nat} (hm1 : 2 ^ n ≤ m) (hm2 : m < 2 ^ (n + 1)) {a b : Nat}
    (ha : a < 2 ^ n) (hb : b < 2 ^ n) : emb m a = emb m b ↔ a = b :=
  ⟨emb_injective hm1 hm2 ha hb, fun h => by rw [h]⟩

theorem emb_eq_zero_iff {n m : Nat} (hm1 : 2 ^ n ≤ m) (hm2 : m < 2 ^ (n + 1)) {a : Nat}
    (ha : a < 2 ^ n) : emb m a = 0 ↔ a = 0 := by
  rw [← emb_zero m, emb_eq_emb_iff hm1 hm2 ha (Nat.two_pow_pos n)]

theorem emb_eq_one_iff {n m : Nat} (hn : 1 ≤ n) (hm1 : 2 ^ n ≤ m) (hm2 : m < 2 ^ (n + 1)) {a : Nat}
    (ha : a < 2 ^ n) : emb m a = 1 ↔ a = 1 := by
  rw [← emb_one m, emb_eq_emb_iff hm1 hm2 ha (Nat.one_lt_two_pow (by omega))]

/-! ## `bitProd` and `bitQuoRem` (polynomial arithmetic on 64-bit masks) -/

theorem poly_add_self (p : (ZMod 2)[X]) : p + p = 0 := by
  have h2 : (2 : (ZMod 2)[X]) = 0 := by
    have : (2 : ZMod 2) = 0 := by decide
    rw [← C_ofNat, this, C_0]
  rw [← two_mul, h2, zero_mul]

theorem poly_sub_eq_add (p q : (ZMod 2)[X]) : p - q = p + q := by
  rw [sub_eq_add_neg, neg_eq_of_add_eq_zero_left (poly_add_self q)]

theorem bitProdLoop_zero (out a : Nat) : Bin.bitProdLoop out a 0 = out := by
  rw [Bin.bitProdLoop]; simp

theorem bitProdLoop_spec (b : Nat) : ∀ out a i j, a < 2 ^ i → b < 2 ^ j → i + j ≤ 65 →
    toPoly2 (Bin.bitProdLoop out a b) = toPoly2 out + toPoly2 a * toPoly2 b := by
  induction b using Nat.strong_induction_on with
  | _ b ih =>
    intro out a i j ha hb hij
    by_cases hb0 : b = 0
    · subst hb0; rw [bitProdLoop_zero]; simp [toPoly2_zero]
    · have hj : 1 ≤ j := by
        rcases j with _ | j
        · simp at hb; omega
        · omega
      have ha64 : a < 2 ^ 64 :=
        Nat.lt_of_lt_of_le ha (Nat.pow_le_pow_right (by decide) (by omega))
      rw [Bin.bitProdLoop]
      simp only [hb0, ↓reduceDIte]
      have hout : toPoly2 (out ^^^ w64 (a * (b % 2)))
          = toPoly2 out + toPoly2 a * C (((b % 2 : Nat)) : ZMod 2) := by
        rcases Nat.mod_two_eq_zero_or_one b with h | h
        · rw [h]; simp [w64]
        · rw [h, Nat.mul_one, w64_of_lt ha64, toPoly2_xor]; simp
      by_cases hb2 : b / 2 = 0
      · rw [hb2, bitProdLoop_zero, hout, toPoly2_step b, hb2, toPoly2_zero]; ring
      · have hj2 : 2 ≤ j := by
          rcases j with _ | _ | j
          · omega
          · simp at hb; omega
          · omega
        have hb' : b / 2 < 2 ^ (j - 1) := by
          have : 2 ^ j = 2 * 2 ^ (j - 1) := by
            rw [show j = (j - 1) + 1 by omega, Nat.pow_succ]; simp; ring
          omega
        have ha' : a <<< 1 < 2 ^ (i + 1) := by
          rw [Nat.shiftLeft_eq, Nat.pow_succ]; omega
        have ha'64 : a <<< 1 < 2 ^ 64 :=
          Nat.lt_of_lt_of_le ha' (Nat.pow_le_pow_right (by decide) (by omega))
        rw [w64_of_lt ha'64, ih (b / 2) (by omega) _ _ (i + 1) (j - 1) ha' hb' (by omega),
          hout, toPoly2_shl, toPoly2_step b]
        ring

/-- `bitProd` is polynomial multiplication whenever the product fits in a word -/
theorem bitProd_spec' {a b i j : Nat} (ha : a < 2 ^ i) (hb : b < 2 ^ j) (hij : i + j ≤ 65) :
    toPoly2 (Bin.bitProd a b) = toPoly2 a * toPoly2 b := by
  rw [Bin.bitProd, bitProdLoop_spec b 0 a i j ha hb hij, toPoly2_zero, zero_add]

theorem bitProd_spec_bitLen {a b : Nat} (h : bitLen a + bitLen b ≤ 65) :
    toPoly2 (Bin.bitProd a b) = toPoly2 a * toPoly2 b :=
  bitProd_spec' (lt_two_pow_bitLen a) (lt_two_pow_bitLen b) h

theorem bitProd_spec {a b : Nat} (ha : a < 2 ^ 32) (hb : b < 2 ^ 32) :
    toPoly2 (Bin.bitProd a b) = toPoly2 a * toPoly2 b :=
  bitProd_spec' ha hb (by decide)

theorem bitQuoRemLoop_spec {b : Nat} (hb : b ≠ 0) (a : Nat) : ∀ quo, a < 2 ^ 64 →
    toPoly2 (Bin.bitQuoRemLoop b (bitLen b) quo a).1 * toPoly2 b
        + toPoly2 (Bin.bitQuoRemLoop b (bitLen b) quo a).2
      = toPoly2 quo * toPoly2 b + toPoly2 a ∧
    bitLen (Bin.bitQuoRemLoop b (bitLen b) quo a).2 < bitLen b := by
  have hlb : 1 ≤ bitLen b := by
    have := (bitLen_eq_zero_iff (v := b)).not.2 hb; omega
  induction a using Nat.strong_induction_on with
  | _ a ih =>
    intro quo ha
    by_cases ha0 : a = 0
    · subst ha0
      rw [Bin.bitQuoRemLoop]
      simp only [↓reduceDIte, bitLen_zero]
      exact ⟨trivial, by omega⟩
    · by_cases hl : bitLen a ≥ bitLen b
      · obtain ⟨s, hs⟩ : ∃ s, bitLen a = bitLen b + s := ⟨bitLen a - bitLen b, by omega⟩
        have hs' : bitLen a - bitLen b = s := by omega
        have hL64 : bitLen a ≤ 64 := bitLen_le_iff.2 ha
        obtain ⟨k, hk⟩ : ∃ k, bitLen b = k + 1 := ⟨bitLen b - 1, by omega⟩
        have hblo : 2 ^ k ≤ b := by
          have := two_pow_bitLen_pred_le hb; rwa [hk] at this
        have hbhi : b < 2 ^ (k + 1) := by
          have := lt_two_pow_bitLen b; rwa [hk] at this
        have hlo : 2 ^ (k + s) ≤ b <<< s := by
          rw [Nat.shiftLeft_eq, Nat.pow_add]; exact Nat.mul_le_mul_right _ hblo
        have hhi : b <<< s < 2 ^ (k + s + 1) := by
          rw [Nat.shiftLeft_eq, show k + s + 1 = (k + 1) + s by omega, Nat.pow_add]
          exact Nat.mul_lt_mul_of_pos_right hbhi (Nat.two_pow_pos s)
        have halo : 2 ^ (k + s) ≤ a := by
          have := two_pow_bitLen_pred_le ha0
          rwa [show bitLen a - 1 = k + s by omega] at this
        have hahi : a < 2 ^ (k + s + 1) := by
          have := lt_two_pow_bitLen a
          rwa [show bitLen a = k + s + 1 by omega] at this
        have hw : w64 (b <<< s) = b <<< s :=
          w64_of_lt (Nat.lt_of_lt_of_le hhi (Nat.pow_le_pow_right (by decide) (by omega)))
        have hw1 : w64 (1 <<< s) = 1 <<< s := by
          apply w64_of_lt
          rw [Nat.shiftLeft_eq, Nat.one_mul]
          exact Nat.pow_lt_pow_right (by decide) (by omega)
        have hlt : a ^^^ b <<< s < a :=
          Nat.lt_of_lt_of_le (xor_lt_of_same_top halo hahi hlo hhi) halo
        rw [Bin.bitQuoRemLoop]
        simp only [ha0, ↓reduceDIte, hl, hs', hw, hw1, hlt, ↓reduceIte]
        obtain ⟨h1, h2⟩ := ih _ hlt (quo ^^^ 1 <<< s) (Nat.lt_trans hlt ha)
        refine ⟨?_, h2⟩
        rw [h1, toPoly2_xor, toPoly2_xor, toPoly2_shl, toPoly2_shl, toPoly2_one]
        have := poly_add_self (X ^ s * toPoly2 b)
        linear_combination this
      · rw [Bin.bitQuoRemLoop]
        simp only [ha0, ↓reduceDIte, hl]
        exact ⟨trivial, by omega⟩

theorem bitQuoRem_spec {a b : Nat} (hb : b ≠ 0) (ha : a < 2 ^ 64) :
    toPoly2 a = toPoly2 (Bin.bitQuoRem a b).1 * toPoly2 b + toPoly2 (Bin.bitQuoRem a b).2 ∧
      bitLen (Bin.bitQuoRem a b).2 < bitLen b := by
  obtain ⟨h1, h2⟩ := bitQuoRemLoop_spec hb a 0 ha
  refine ⟨?_, h2⟩
  rw [Bin.bitQuoRem, h1, toPoly2_zero, zero_mul, zero_add]

/-! ## generic square-and-multiply (`powLoop`, `genericPow`) -/

theorem powLoop_spec {α M : Type*} [Monoid M] (mul : α → α → α) (e : α → M) (P : α → Prop)
    (hmul : ∀ x y, P x → P y → P (mul x y) ∧ e (mul x y) = e x * e y) (k : Nat) :
    ∀ out b, P out → P b →
      P (powLoop mul out b k) ∧ e (powLoop mul out b k) = e out * e b ^ k := by
  induction k using Nat.strong_induction_on with
  | _ k ih =>
    intro out b hout hb
    by_cases hk : k = 0
    · subst hk; rw [powLoop]; simp [hout]
    · rw [powLoop]
      simp only [hk, ↓reduceDIte]
      obtain ⟨hbb, ebb⟩ := hmul b b hb hb
      by_cases hodd : k % 2 = 1
      · simp only [hodd, ↓reduceIte]
        obtain ⟨hob, eob⟩ := hmul out b hout hb
        obtain ⟨h1, h2⟩ := ih (k / 2) (by omega) _ _ hob hbb
        refine ⟨h1, ?_⟩
        rw [h2, eob, ebb, ← pow_two, ← pow_mul, mul_assoc, ← pow_succ']
        congr 2; omega
      · simp only [hodd, ↓reduceIte]
        obtain ⟨h1, h2⟩ := ih (k / 2) (by omega) _ _ hout hbb
        refine ⟨h1, ?_⟩
        rw [h2, ebb, ← pow_two, ← pow_mul]
        congr 2; omega

theorem pow_mod_of_pow_eq_one {M : Type*} [Monoid M] {x : M} {c : Nat} (h : x ^ c = 1) (k : Nat) :
    x ^ (k % c) = x ^ k := by
  conv_rhs => rw [← Nat.div_add_mod k c]
  rw [pow_add, pow_mul, h, one_pow, one_mul]

/-- `genericPow` computes the power in any monoid-with-zero into which the valid representations
    embed multiplicatively, provided nonzero elements satisfy `x^(card-1) = 1`. -/
theorem genericPow_spec {α M : Type*} [MonoidWithZero M] [NoZeroDivisors M] [Nontrivial M]
    (card : Nat) (zero one : α) (isZero : α → Bool) (mul : α → α → α) (e : α → M) (P : α → Prop)
    (hzero : P zero) (ezero : e zero = 0) (hone : P one) (eone : e one = 1)
    (hisZero : ∀ x, P x → (isZero x = true ↔ e x = 0))
    (hmul : ∀ x y, P x → P y → P (mul x y) ∧ e (mul x y) = e x * e y)
    (hcard : ∀ x, P x → e x ≠ 0 → e x ^ (card - 1) = 1)
    (a : α) (ha : P a) (k : Nat) :
    P (genericPow card zero one isZero mul a k) ∧
      e (genericPow card zero one isZero mul a k) = e a ^ k := by
  unfold genericPow
  by_cases hz : isZero a = true
  · have h0 : e a = 0 := (hisZero a ha).1 hz
    simp only [hz, ↓reduceIte]
    by_cases hk : k = 0
    · simp [hk, hone, eone]
    · simp [hk, hzero, ezero, h0]
  · have h0 : e a ≠ 0 := fun h => hz ((hisZero a ha).2 h)
    simp only [hz]
    obtain ⟨h1, h2⟩ := powLoop_spec mul e P hmul (if k ≥ card then k % (card - 1) else k)
      one a hone ha
    refine ⟨h1, ?_⟩
    simp only [Bool.false_eq_true, ↓reduceIte] at h1 h2 ⊢
    rw [h2, eone, one_mul]
    split
    · exact pow_mod_of_pow_eq_one (hcard a ha h0) k
    · rfl

/-! ## the field `GF(2)[X]/(m)` for an irreducible `m`, and `pow` -/

theorem card_eq {n : Nat} (hn : n ≤ 63) : Bin.card n = 2 ^ n := by
  unfold Bin.card
  rw [Nat.shiftLeft_eq, Nat.one_mul]
  exact w64_of_lt (Nat.pow_lt_pow_right (by decide) (by omega))

section Field
variable {n m : Nat}

theorem natCard_adjoinRoot (hm1 : 2 ^ n ≤ m) (hm2 : m < 2 ^ (n + 1))
    [Fact (Irreducible (toPoly2 m))] : Nat.card (AdjoinRoot (toPoly2 m)) = 2 ^ n := by
  have hf : toPoly2 m ≠ 0 := toPoly2_modulus_ne_zero hm1
  have := (AdjoinRoot.powerBasis hf).finite
  rw [Module.natCard_eq_pow_finrank (K := ZMod 2), (AdjoinRoot.powerBasis hf).finrank,
    AdjoinRoot.powerBasis_dim, Nat.card_zmod, natDegree_modulus hm1 hm2]

theorem pow_card_sub_one (hm1 : 2 ^ n ≤ m) (hm2 : m < 2 ^ (n + 1))
    [Fact (Irreducible (toPoly2 m))] (x : AdjoinRoot (toPoly2 m)) (hx : x ≠ 0) :
    x ^ (2 ^ n - 1) = 1 := by
  have hc := natCard_adjoinRoot hm1 hm2
  have : Finite (AdjoinRoot (toPoly2 m)) := by
    apply Nat.finite_of_card_ne_zero
    rw [hc]; exact (Nat.two_pow_pos n).ne'
  have := Fintype.ofFinite (AdjoinRoot (toPoly2 m))
  have := FiniteField.pow_card_sub_one_eq_one x hx
  rwa [← Nat.card_eq_fintype_card, hc] at this

theorem pow_spec (hn1 : 1 ≤ n) (hn : n ≤ 63) (hm1 : 2 ^ n ≤ m) (hm2 : m < 2 ^ (n + 1))
    [Fact (Irreducible (toPoly2 m))] {a : Nat} (ha : a < 2 ^ n) (k : Nat) :
    Bin.pow n m a k < 2 ^ n ∧ emb m (Bin.pow n m a k) = emb m a ^ k := by
  unfold Bin.pow
  apply genericPow_spec (Bin.card n) 0 1 (· == 0) (Bin.mul n m) (emb m) (fun x => x < 2 ^ n)
    (Nat.two_pow_pos n) (emb_zero m) (Nat.one_lt_two_pow (by omega)) (emb_one m)
  · intro x hx
    rw [emb_eq_zero_iff hm1 hm2 hx]; simp
  · intro x y _ hy
    exact mul_spec hn hm1 hm2 hy
  · intro x _ hx0
    rw [card_eq hn]
    exact pow_card_sub_one hm1 hm2 _ hx0
  · exact ha

end Field

/-! ## `inv`: extended Euclid on bit masks -/

theorem bitLen_xor_of_lt {x y : Nat} (h : bitLen x < bitLen y) : bitLen (x ^^^ y) = bitLen y := by
  have hy0 : y ≠ 0 := by
    intro h0; subst h0; simp [bitLen_zero] at h
  obtain ⟨k, hk⟩ : ∃ k, bitLen y = k + 1 := ⟨bitLen y - 1, by omega⟩
  have hx : x < 2 ^ k := bitLen_le_iff.1 (by omega)
  have hylo : 2 ^ k ≤ y := by
    have := two_pow_bitLen_pred_le hy0; rwa [hk] at this
  have hyhi : y < 2 ^ (k + 1) := by
    have := lt_two_pow_bitLen y; rwa [hk] at this
  have hx' : x < 2 ^ (k + 1) := Nat.lt_of_lt_of_le hx (Nat.pow_le_pow_right (by decide) (by omega))
  rw [hk]
  apply bitLen_eq_of_bounds
  · apply Nat.le_of_not_lt
    intro hlt
    have := Nat.xor_lt_two_pow hx hlt
    rw [← Nat.xor_assoc, Nat.xor_self, Nat.zero_xor] at this
    omega
  · exact Nat.xor_lt_two_pow hx' hyhi

theorem bitLen_of_toPoly2_mul {a b c : Nat} (h : toPoly2 c = toPoly2 a * toPoly2 b)
    (ha : a ≠ 0) (hb : b ≠ 0) : c ≠ 0 ∧ bitLen c + 1 = bitLen a + bitLen b := by
  have hpa : toPoly2 a ≠ 0 := fun h0 => ha (toPoly2_eq_zero_iff.1 h0)
  have hpb : toPoly2 b ≠ 0 := fun h0 => hb (toPoly2_eq_zero_iff.1 h0)
  have hc : c ≠ 0 := by
    intro h0; subst h0
    rw [toPoly2_zero] at h
    exact mul_ne_zero hpa hpb h.symm
  refine ⟨hc, ?_⟩
  have h1 := natDegree_toPoly2 ha
  have h2 := natDegree_toPoly2 hb
  have h3 := natDegree_toPoly2 hc
  rw [h, natDegree_mul hpa hpb] at h3
  omega

theorem bitQuoRem_fst_bitLen {a b : Nat} (hb : b ≠ 0) (ha : a < 2 ^ 64) (hab : bitLen b ≤ bitLen a) :
    (Bin.bitQuoRem a b).1 ≠ 0 ∧ bitLen (Bin.bitQuoRem a b).1 + bitLen b = bitLen a + 1 := by
  obtain ⟨h1, h2⟩ := bitQuoRem_spec hb ha
  have hq : (Bin.bitQuoRem a b).1 ≠ 0 := by
    intro h0
    rw [h0, toPoly2_zero, zero_mul, zero_add] at h1
    have := toPoly2_injective h1
    rw [← this] at h2; omega
  refine ⟨hq, ?_⟩
  have hc : toPoly2 ((Bin.bitQuoRem a b).2 ^^^ a)
      = toPoly2 (Bin.bitQuoRem a b).1 * toPoly2 b := by
    rw [toPoly2_xor, h1]
    have := poly_add_self (toPoly2 (Bin.bitQuoRem a b).2)
    linear_combination this
  obtain ⟨_, h3⟩ := bitLen_of_toPoly2_mul hc hq hb
  rw [bitLen_xor_of_lt (by omega)] at h3
  omega

theorem invLoop_zero (r0 r1 i0 i1 : Nat) : Bin.invLoop r0 r1 i0 i1 0 = i0 := rfl

theorem invLoop_succ_zero (r0 i0 i1 fuel : Nat) : Bin.invLoop r0 0 i0 i1 (fuel + 1) = i0 := by
  simp [Bin.invLoop]

theorem invLoop_succ (r0 r1 i0 i1 fuel : Nat) (h : r1 ≠ 0) :
    Bin.invLoop r0 r1 i0 i1 (fuel + 1)
      = Bin.invLoop r1 (Bin.bitQuoRem r0 r1).2 i1
          (i0 ^^^ Bin.bitProd i1 (Bin.bitQuoRem r0 r1).1) fuel := by
  simp [Bin.invLoop, h]

/-- invariant of the extended Euclidean loop: `i_k · a ≡ r_k (mod m)`, the degree identity
    `bitLen i1 + bitLen r0 = n + 2` that keeps `bitProd` inside a word, and coprimality. -/
theorem invLoop_spec {n m a : Nat} (hn : n ≤ 63) (fuel : Nat) :
    ∀ r0 r1 i0 i1,
      emb m i0 * emb m a = emb m r0 → emb m i1 * emb m a = emb m r1 →
      bitLen r1 < bitLen r0 → bitLen r0 ≤ n + 1 → bitLen i0 < bitLen i1 →
      bitLen i1 + bitLen r0 = n + 2 → IsCoprime (toPoly2 r0) (toPoly2 r1) → bitLen r1 < fuel →
      bitLen (Bin.invLoop r0 r1 i0 i1 fuel) ≤ n ∧
        emb m (Bin.invLoop r0 r1 i0 i1 fuel) * emb m a = 1 := by
  induction fuel with
  | zero => intro r0 r1 i0 i1 _ _ _ _ _ _ _ hf; omega
  | succ fuel ih =>
    intro r0 r1 i0 i1 e0 e1 hr hr0 hi hir hcop hf
    have hr0ne : r0 ≠ 0 := by
      intro h0; subst h0; simp [bitLen_zero] at hr
    by_cases h1 : r1 = 0
    · subst h1
      rw [invLoop_succ_zero]
      rw [toPoly2_zero, isCoprime_zero_right] at hcop
      have hd := natDegree_eq_zero_of_isUnit hcop
      have hb := natDegree_toPoly2 hr0ne
      have hr01 : r0 = 1 := by
        have : r0 < 2 ^ 1 := bitLen_le_iff.1 (by omega)
        omega
      subst hr01
      refine ⟨by omega, ?_⟩
      rw [e0, emb_one]
    · rw [invLoop_succ _ _ _ _ _ h1]
      have hr064 : r0 < 2 ^ 64 :=
        Nat.lt_of_lt_of_le (bitLen_le_iff.1 hr0) (Nat.pow_le_pow_right (by decide) (by omega))
      obtain ⟨hq1, hq2⟩ := bitQuoRem_spec h1 hr064
      obtain ⟨hq0, hqlen⟩ := bitQuoRem_fst_bitLen h1 hr064 (by omega)
      have hlr1 : 1 ≤ bitLen r1 := by
        have := (bitLen_eq_zero_iff (v := r1)).not.2 h1; omega
      have hi1ne : i1 ≠ 0 := by
        intro h0; subst h0; simp [bitLen_zero] at hi
      have hprod : toPoly2 (Bin.bitProd i1 (Bin.bitQuoRem r0 r1).1)
          = toPoly2 i1 * toPoly2 (Bin.bitQuoRem r0 r1).1 :=
        bitProd_spec_bitLen (by omega)
      obtain ⟨_, hplen⟩ := bitLen_of_toPoly2_mul hprod hi1ne hq0
      have hxlen := bitLen_xor_of_lt (x := i0) (y := Bin.bitProd i1 (Bin.bitQuoRem r0 r1).1)
        (by omega)
      apply ih
      · exact e1
      · -- (i0 + i1·q)·a = r0 + q·r1 = rem
        have hprod' : emb m (Bin.bitProd i1 (Bin.bitQuoRem r0 r1).1)
            = emb m i1 * emb m (Bin.bitQuoRem r0 r1).1 := by
          unfold emb; rw [hprod, map_mul]
        have hq1' : emb m r0 = emb m (Bin.bitQuoRem r0 r1).1 * emb m r1
            + emb m (Bin.bitQuoRem r0 r1).2 := by
          unfold emb; rw [hq1, map_add, map_mul]
        rw [emb_xor, hprod', add_mul, e0, mul_right_comm, e1, hq1']
        have := emb_add_self m (emb m (Bin.bitQuoRem r0 r1).1 * emb m r1)
        linear_combination this
      · exact hq2
      · omega
      · omega
      · omega
      · rw [hq1, add_comm, mul_comm, IsCoprime.add_mul_left_left_iff] at hcop
        exact hcop.symm
      · omega

theorem inv_zero (n m : Nat) : Bin.inv n m 0 = none := by simp [Bin.inv]

theorem inv_spec {n m : Nat} (hn1 : 1 ≤ n) (hn : n ≤ 63) (hm1 : 2 ^ n ≤ m) (hm2 : m < 2 ^ (n + 1))
    (hirr : Irreducible (toPoly2 m)) {a : Nat} (ha0 : a ≠ 0) (ha : a < 2 ^ n) :
    ∃ i, Bin.inv n m a = some i ∧ i < 2 ^ n ∧ emb m i * emb m a = 1 := by
  unfold Bin.inv
  simp only [ha0, ↓reduceIte]
  by_cases h1 : a = 1
  · subst h1
    exact ⟨1, by simp, ha, by rw [emb_one, one_mul]⟩
  · simp only [h1, ↓reduceIte]
    have hcop : IsCoprime (toPoly2 m) (toPoly2 a) := by
      rw [hirr.coprime_iff_not_dvd, ← AdjoinRoot.mk_eq_zero]
      exact fun h => ha0 ((emb_eq_zero_iff hm1 hm2 ha).1 h)
    have hla : bitLen a ≤ n := bitLen_le_iff.2 ha
    have hlm : bitLen m = n + 1 := bitLen_eq_of_bounds hm1 hm2
    have hl1 : bitLen 1 = 1 := bitLen_eq_of_bounds (k := 0) (by decide) (by decide)
    obtain ⟨h2, h3⟩ := invLoop_spec (n := n) (m := m) (a := a) hn (2 * n + 4) m a 0 1
      (by rw [emb_zero, emb_self, zero_mul]) (by rw [emb_one, one_mul])
      (by omega) (by omega) (by rw [bitLen_zero, hl1]; omega) (by omega) hcop (by omega)
    refine ⟨_, rfl, ?_, ?_⟩
    · rw [reduce_of_le h2]; exact bitLen_le_iff.1 h2
    · rw [reduce_of_le h2]; exact h3

/-! ## the `Lawful` instance -/

section Lawful
variable {n m : Nat}

/-- `binOps n m` implements the field `GF(2)[X]/(m)` on the reduced bit masks `a < 2^n`. -/
noncomputable def binLawful (hn1 : 1 ≤ n) (hn : n ≤ 63) (hm1 : 2 ^ n ≤ m) (hm2 : m < 2 ^ (n + 1))
    [hirr : Fact (Irreducible (toPoly2 m))] (varName : String := "a") :
    Lawful (binOps n m varName) (AdjoinRoot (toPoly2 m)) where
  embed := emb m
  valid := fun a => a < 2 ^ n
  inj := fun _ _ ha hb h => emb_injective hm1 hm2 ha hb h
  zero_valid := Nat.two_pow_pos n
  one_valid := Nat.one_lt_two_pow (by omega)
  embed_zero := emb_zero m
  embed_one := emb_one m
  add_valid := fun _ _ ha hb => Nat.xor_lt_two_pow ha hb
  embed_add := fun a b _ _ => emb_xor m a b
  sub_valid := fun _ _ ha hb => Nat.xor_lt_two_pow ha hb
  embed_sub := fun a b _ _ => by
    show emb m (a ^^^ b) = _
    rw [emb_xor, emb_sub]
  mul_valid := fun _ _ _ hb => (mul_spec hn hm1 hm2 hb).1
  embed_mul := fun _ _ _ hb => (mul_spec hn hm1 hm2 hb).2
  neg_valid := fun _ ha => ha
  embed_neg := fun a _ => by
    show emb m a = _
    rw [emb_neg]
  inv_some := fun a ha h0 => by
    have ha0 : a ≠ 0 := fun h => h0 (by rw [h, emb_zero])
    obtain ⟨i, h1, h2, h3⟩ := inv_spec hn1 hn hm1 hm2 hirr.out ha0 ha
    exact ⟨i, h1, h2, eq_inv_of_mul_eq_one_left h3⟩
  inv_none := fun a ha h0 => by
    have : a = 0 := (emb_eq_zero_iff hm1 hm2 ha).1 h0
    subst this
    exact inv_zero n m
  isZero_iff := fun a ha => by
    show ((a == 0) = true) ↔ _
    rw [emb_eq_zero_iff hm1 hm2 ha]; simp
  isOne_iff := fun a ha => by
    show ((a == 1) = true) ↔ _
    rw [emb_eq_one_iff hn1 hm1 hm2 ha]; simp
  beq_iff := fun a b _ _ => by
    show ((a == b) = true) ↔ _
    simp

end Lawful

/-! ## translation to divisibility, a concrete field for non-vacuity -/

theorem emb_eq_mk_iff {m r : Nat} {p : (ZMod 2)[X]} :
    emb m r = AdjoinRoot.mk (toPoly2 m) p ↔ toPoly2 m ∣ toPoly2 r - p :=
  AdjoinRoot.mk_eq_mk

theorem toPoly2_eleven : toPoly2 11 = X ^ 3 + X + 1 := by
  rw [show (11 : Nat) = 2 ^ 3 ^^^ 2 ^^^ 1 by decide, toPoly2_xor, toPoly2_xor, toPoly2_two_pow,
    toPoly2_two, toPoly2_one]

/-- `X^3 + X + 1` (mask 11, the Conway polynomial of GF(8)) is irreducible over GF(2). -/
theorem irreducible_toPoly2_eleven : Irreducible (toPoly2 11) := by
  apply irreducible_of_degree_le_three_of_not_isRoot
  · rw [natDegree_modulus (n := 3) (by decide) (by decide)]; decide
  · intro x
    rw [toPoly2_eleven, IsRoot.def]
    simp only [eval_add, eval_pow, eval_X, eval_one]
    revert x; decide

/-! ## `trace` and the generator -/

theorem add_sq_char2 (m : Nat) (x y : AdjoinRoot (toPoly2 m)) : (x + y) ^ 2 = x ^ 2 + y ^ 2 := by
  have := emb_add_self m (x * y)
  linear_combination this

theorem add_pow_two_pow (m : Nat) (x y : AdjoinRoot (toPoly2 m)) (k : Nat) :
    (x + y) ^ 2 ^ k = x ^ 2 ^ k + y ^ 2 ^ k := by
  induction k with
  | zero => simp
  | succ k ih => rw [pow_succ, pow_mul, ih, add_sq_char2, ← pow_mul, ← pow_mul]

section Trace
variable {n m : Nat}

theorem traceLoop_spec (hn1 : 1 ≤ n) (hn : n ≤ 63) (hm1 : 2 ^ n ≤ m) (hm2 : m < 2 ^ (n + 1))
    [Fact (Irreducible (toPoly2 m))] {a : Nat} (ha : a < 2 ^ n) (k : Nat) :
    ∀ out, out < 2 ^ n →
      Bin.traceLoop n m a out k < 2 ^ n ∧
        emb m (Bin.traceLoop n m a out k)
          = emb m out ^ 2 ^ k + ∑ i ∈ Finset.range k, emb m a ^ 2 ^ i := by
  induction k with
  | zero => intro out hout; simp [Bin.traceLoop, hout]
  | succ k ih =>
    intro out hout
    obtain ⟨hp1, hp2⟩ := pow_spec hn1 hn hm1 hm2 hout 2
    obtain ⟨h1, h2⟩ := ih (Bin.pow n m out 2 ^^^ a) (Nat.xor_lt_two_pow hp1 ha)
    rw [Bin.traceLoop]
    refine ⟨h1, ?_⟩
    rw [h2, emb_xor, hp2, add_pow_two_pow, ← pow_mul, ← pow_succ', Finset.sum_range_succ]
    ring

/-- `Trace` computes `∑_{i<n} a^(2^i)` -/
theorem trace_spec (hn1 : 1 ≤ n) (hn : n ≤ 63) (hm1 : 2 ^ n ≤ m) (hm2 : m < 2 ^ (n + 1))
    [Fact (Irreducible (toPoly2 m))] {a : Nat} (ha : a < 2 ^ n) :
    Bin.trace n m a < 2 ^ n ∧
      emb m (Bin.trace n m a) = ∑ i ∈ Finset.range n, emb m a ^ 2 ^ i := by
  obtain ⟨h1, h2⟩ := traceLoop_spec hn1 hn hm1 hm2 ha (n - 1) a ha
  refine ⟨h1, ?_⟩
  rw [Bin.trace, h2]
  conv_rhs => rw [show n = (n - 1) + 1 by omega, Finset.sum_range_succ]
  ring

/-- the field trace to the prime field: `Tr_{GF(2^n)/GF(2)}` -/
theorem trace_eq_algebra_trace (hn1 : 1 ≤ n) (hn : n ≤ 63) (hm1 : 2 ^ n ≤ m)
    (hm2 : m < 2 ^ (n + 1)) [Fact (Irreducible (toPoly2 m))] {a : Nat} (ha : a < 2 ^ n) :
    emb m (Bin.trace n m a)
      = algebraMap (ZMod 2) (AdjoinRoot (toPoly2 m))
          (Algebra.trace (ZMod 2) (AdjoinRoot (toPoly2 m)) (emb m a)) := by
  have hf : toPoly2 m ≠ 0 := toPoly2_modulus_ne_zero hm1
  have hc := natCard_adjoinRoot hm1 hm2
  have : Finite (AdjoinRoot (toPoly2 m)) := by
    apply Nat.finite_of_card_ne_zero
    rw [hc]; exact (Nat.two_pow_pos n).ne'
  rw [(trace_spec hn1 hn hm1 hm2 ha).2, FiniteField.algebraMap_trace_eq_sum_pow,
    (AdjoinRoot.powerBasis hf).finrank, AdjoinRoot.powerBasis_dim, Nat.card_zmod,
    natDegree_modulus hm1 hm2]

/-- `binOps.gen = reduce 2` is the class of `X` (which generates the multiplicative group when
    `m` is a Conway polynomial; that is C02/Conway, not proved here). -/
theorem gen_spec (hm1 : 2 ^ n ≤ m) (hm2 : m < 2 ^ (n + 1)) :
    Bin.reduce n m 2 < 2 ^ n ∧ emb m (Bin.reduce n m 2) = AdjoinRoot.root (toPoly2 m) := by
  obtain ⟨h1, h2⟩ := reduce_spec hm1 hm2 2 (by decide)
  exact ⟨h1, by rw [h2, emb_two]⟩

end Trace

/-! ## `polyFromCoefs`: the bit mask of a coefficient list -/

/-- reference: `c₀ + 2·c₁ + 4·c₂ + …` -/
def maskOf : List Nat → Nat
  | [] => 0
  | c :: cs => c + 2 * maskOf cs

theorem maskOf_lt (cs : List Nat) (h : ∀ c ∈ cs, c < 2) : maskOf cs < 2 ^ cs.length := by
  induction cs with
  | nil => simp [maskOf]
  | cons c cs ih =>
    have h1 := h c (by simp)
    have h2 := ih (fun x hx => h x (by simp [hx]))
    simp only [maskOf, List.length_cons, Nat.pow_succ]
    omega

theorem testBit_maskOf (cs : List Nat) (h : ∀ c ∈ cs, c < 2) (i : Nat) :
    (maskOf cs).testBit i = decide (cs.getD i 0 = 1) := by
  induction cs generalizing i with
  | nil => simp [maskOf]
  | cons c cs ih =>
    have h1 := h c (by simp)
    have h2 := ih (fun x hx => h x (by simp [hx]))
    cases i with
    | zero =>
      simp only [maskOf, Nat.testBit_zero, List.getD_cons_zero]
      congr 1
      apply propext
      omega
    | succ i =>
      rw [Nat.testBit_succ, List.getD_cons_succ, ← h2 i]
      simp only [maskOf]
      congr 1
      omega

theorem polyFromCoefs_fold (cs : List Nat) : ∀ k acc, (∀ c ∈ cs, c < 2) → k + cs.length ≤ 64 →
    acc < 2 ^ k →
    (cs.zipIdx k).foldl (fun acc (x : Nat × Nat) => w64 (acc + w64 (x.1 <<< x.2))) acc
      = acc + 2 ^ k * maskOf cs := by
  induction cs with
  | nil => intro k acc _ _ _; simp [maskOf]
  | cons c cs ih =>
    intro k acc h hlen hacc
    have h1 := h c (by simp)
    simp only [List.length_cons] at hlen
    have hpow : (2 : Nat) ^ (k + 1) ≤ 2 ^ 64 := Nat.pow_le_pow_right (by decide) (by omega)
    have hk : 2 ^ (k + 1) = 2 * 2 ^ k := by rw [Nat.pow_succ]; omega
    have hc : c <<< k ≤ 2 ^ k := by
      rw [Nat.shiftLeft_eq]
      calc c * 2 ^ k ≤ 1 * 2 ^ k := Nat.mul_le_mul_right _ (by omega)
        _ = 2 ^ k := Nat.one_mul _
    have hw1 : w64 (c <<< k) = c <<< k := w64_of_lt (by omega)
    have hw2 : w64 (acc + c <<< k) = acc + c <<< k := w64_of_lt (by omega)
    rw [List.zipIdx_cons, List.foldl_cons]
    simp only [hw1, hw2]
    rw [ih (k + 1) _ (fun x hx => h x (by simp [hx])) (by omega) (by omega)]
    simp only [maskOf, Nat.shiftLeft_eq, hk]
    ring

theorem polyFromCoefs_eq (cs : List Nat) (h : ∀ c ∈ cs, c < 2) (hlen : cs.length ≤ 64) :
    Bin.polyFromCoefs cs = maskOf cs := by
  have := polyFromCoefs_fold cs 0 0 h (by omega) (by decide)
  simp only [Nat.pow_zero, Nat.one_mul, Nat.zero_add] at this
  rw [← this]
  rfl

/-- bit `i` of `polyFromCoefs cs` is `cs[i]`: the Conway coefficient list (lowest degree first)
    becomes the polynomial with these coefficients -/
theorem coeff_polyFromCoefs (cs : List Nat) (h : ∀ c ∈ cs, c < 2) (hlen : cs.length ≤ 64) (i : Nat) :
    (toPoly2 (Bin.polyFromCoefs cs)).coeff i = ((cs.getD i 0 : Nat) : ZMod 2) := by
  rw [polyFromCoefs_eq cs h hlen, coeff_toPoly2, testBit_maskOf cs h]
  have : cs.getD i 0 < 2 := by
    rw [List.getD_eq_getElem?_getD]
    cases hi : cs[i]? with
    | none => simp
    | some x => exact h x (List.mem_of_getElem? hi)
  generalize cs.getD i 0 = x at this ⊢
  have hx : x = 0 ∨ x = 1 := by omega
  rcases hx with rfl | rfl <;> simp

/-- a monic coefficient list of length `n+1` gives a valid modulus mask -/
theorem polyFromCoefs_bounds {n : Nat} (cs : List Nat) (h : ∀ c ∈ cs, c < 2)
    (hlen : cs.length = n + 1) (hn : n ≤ 63) (hlead : cs.getD n 0 = 1) :
    2 ^ n ≤ Bin.polyFromCoefs cs ∧ Bin.polyFromCoefs cs < 2 ^ (n + 1) := by
  rw [polyFromCoefs_eq cs h (by omega)]
  constructor
  · apply Nat.ge_two_pow_of_testBit
    rw [testBit_maskOf cs h, hlead]; rfl
  · rw [← hlen]; exact maskOf_lt cs h

end BinField
end Algobra
