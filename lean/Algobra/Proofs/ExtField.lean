/-
  Proofs/ExtField.lean — extension fields GF(p^n) = F_p[a]/(g) (C01/C02/C18, extfield part).
  Elements are coefficient lists over `primeOps p` (`UPoly Nat`), the arithmetic is delegated to the
  univariate quotient ring `Ext.ring p g` (Model/Ext.lean, Model/UPoly.lean).
  Bridge: `emb h32 g a = AdjoinRoot.mk (toPoly L g) (toPoly L a)` with `L = primeLawfulFact p h32`;
  valid representations are the well-formed lists of length `≤ n` (degree `< n`).
-/
import Mathlib.RingTheory.AdjoinRoot
import Mathlib.FieldTheory.Finite.Basic
import Mathlib.FieldTheory.Finite.Trace
import Mathlib.Algebra.CharP.Lemmas
import Mathlib.Algebra.CharP.Algebra
import Mathlib.Algebra.Polynomial.SpecificDegree
import Algobra.Model.Ext
import Algobra.Proofs.UPolyDiv
import Algobra.Proofs.PrimeField
import Algobra.Proofs.BinField
import Algobra.Proofs.Define

open Polynomial

namespace Algobra
namespace ExtField
open UPoly

section Setting
variable {p : Nat} [Fact p.Prime] (h32 : p - 1 < 2 ^ 32)

/-- the lawful prime-field record the extension field is built on (C01, prime part) -/
noncomputable abbrev PL : Lawful (primeOps p) (ZMod p) := primeLawfulFact p h32

/-- the modulus of an extension field of degree `n`: a well-formed monic list of degree `n ≥ 1` -/
structure Modulus (n : Nat) (g : List Nat) : Prop where
  wf : WF (PL h32) g
  monic : (toPoly (PL h32) g).Monic
  deg : (toPoly (PL h32) g).natDegree = n
  npos : 1 ≤ n

/-- valid representations: well-formed coefficient lists of length `≤ n` (degree `< n`) -/
def Valid (n : Nat) (a : UPoly Nat) : Prop := WF (PL h32) a ∧ a.length ≤ n

/-- the class of `a` in `F_p[X]/(g)` -/
noncomputable def emb (g a : UPoly Nat) : AdjoinRoot (toPoly (PL h32) g) :=
  AdjoinRoot.mk (toPoly (PL h32) g) (toPoly (PL h32) a)

variable {h32} {n : Nat} {g : List Nat}

theorem Modulus.isQuot (M : Modulus h32 n g) : IsQuot (Ext.ring p g) (PL h32) g :=
  ⟨rfl, M.wf, M.monic, le_of_le_of_eq M.npos M.deg.symm⟩

theorem Modulus.degree_eq (M : Modulus h32 n g) : (toPoly (PL h32) g).degree = (n : WithBot ℕ) := by
  rw [degree_eq_natDegree M.monic.ne_zero, M.deg]

theorem Modulus.length_eq (M : Modulus h32 n g) : g.length = n + 1 := by
  rw [length_eq_natDegree_succ _ M.wf, M.deg]

/-- length `≤ n` is degree `< deg g` -/
theorem length_le_iff_degree_lt (M : Modulus h32 n g) {a : UPoly Nat} (ha : WF (PL h32) a) :
    a.length ≤ n ↔ (toPoly (PL h32) a).degree < (toPoly (PL h32) g).degree := by
  rw [M.degree_eq, length_eq_natDegree_succ _ ha]
  by_cases h0 : toPoly (PL h32) a = 0
  · rw [h0, degree_zero, natDegree_zero]
    exact ⟨fun _ => WithBot.bot_lt_coe _, fun _ => M.npos⟩
  · rw [degree_eq_natDegree h0]
    constructor
    · intro h; exact_mod_cast (by omega : (toPoly (PL h32) a).natDegree < n)
    · intro h
      have : (toPoly (PL h32) a).natDegree < n := by exact_mod_cast h
      omega

theorem Valid.degree_lt (M : Modulus h32 n g) {a : UPoly Nat} (ha : Valid h32 n a) :
    (toPoly (PL h32) a).degree < (toPoly (PL h32) g).degree :=
  (length_le_iff_degree_lt M ha.1).1 ha.2

theorem valid_of_degree_lt (M : Modulus h32 n g) {a : UPoly Nat} (ha : WF (PL h32) a)
    (hd : (toPoly (PL h32) a).degree < (toPoly (PL h32) g).degree) : Valid h32 n a :=
  ⟨ha, (length_le_iff_degree_lt M ha).2 hd⟩

theorem valid_iff (M : Modulus h32 n g) (a : UPoly Nat) :
    Valid h32 n a ↔ WF (PL h32) a ∧ (toPoly (PL h32) a).degree < (toPoly (PL h32) g).degree :=
  ⟨fun h => ⟨h.1, h.degree_lt M⟩, fun h => valid_of_degree_lt M h.1 h.2⟩

/-! ### the quotient map and remainders -/

theorem mk_modByMonic {G : (ZMod p)[X]} (f : (ZMod p)[X]) :
    AdjoinRoot.mk G (f %ₘ G) = AdjoinRoot.mk G f :=
  AdjoinRoot.mk_eq_mk.2 (dvd_modByMonic_sub f G)

theorem emb_eq_iff {a b : UPoly Nat} :
    emb h32 g a = emb h32 g b ↔ toPoly (PL h32) g ∣ toPoly (PL h32) a - toPoly (PL h32) b :=
  AdjoinRoot.mk_eq_mk

theorem emb_eq_mk_iff {a : UPoly Nat} {f : (ZMod p)[X]} :
    emb h32 g a = AdjoinRoot.mk (toPoly (PL h32) g) f ↔
      toPoly (PL h32) g ∣ toPoly (PL h32) a - f :=
  AdjoinRoot.mk_eq_mk

theorem valid_zero (M : Modulus h32 n g) : Valid h32 n [0] :=
  ⟨wf_zero (PL h32), M.npos⟩

theorem emb_zero : emb h32 g [0] = 0 := by
  unfold emb
  rw [show ([0] : UPoly Nat) = zero (primeOps p) from rfl, toPoly_zero, map_zero]

theorem valid_one (M : Modulus h32 n g) : Valid h32 n [1 % p] :=
  ⟨wf_one (PL h32), M.npos⟩

theorem emb_one : emb h32 g [1 % p] = 1 := by
  unfold emb
  rw [show ([1 % p] : UPoly Nat) = one (primeOps p) from rfl, toPoly_one, map_one]

/-! ### 1. `add`, `sub`, `neg`, `mul` -/

theorem add_spec (M : Modulus h32 n g) {a b : UPoly Nat} (ha : Valid h32 n a)
    (hb : Valid h32 n b) :
    Valid h32 n (UPoly.add (primeOps p) a b) ∧
      emb h32 g (UPoly.add (primeOps p) a b) = emb h32 g a + emb h32 g b := by
  have e := toPoly_add (PL h32) ha.1 hb.1.1
  refine ⟨valid_of_degree_lt M (add_wf (PL h32) ha.1 hb.1.1) ?_, ?_⟩
  · rw [e]
    exact lt_of_le_of_lt (degree_add_le _ _) (max_lt (ha.degree_lt M) (hb.degree_lt M))
  · unfold emb; rw [e, map_add]

theorem sub_spec (M : Modulus h32 n g) {a b : UPoly Nat} (ha : Valid h32 n a)
    (hb : Valid h32 n b) :
    Valid h32 n (UPoly.sub (primeOps p) a b) ∧
      emb h32 g (UPoly.sub (primeOps p) a b) = emb h32 g a - emb h32 g b := by
  have e := toPoly_sub (PL h32) ha.1 hb.1.1
  refine ⟨valid_of_degree_lt M (sub_wf (PL h32) ha.1 hb.1.1) ?_, ?_⟩
  · rw [e]
    exact lt_of_le_of_lt (degree_sub_le _ _) (max_lt (ha.degree_lt M) (hb.degree_lt M))
  · unfold emb; rw [e, map_sub]

theorem neg_spec (M : Modulus h32 n g) {a : UPoly Nat} (ha : Valid h32 n a) :
    Valid h32 n (UPoly.neg (primeOps p) a) ∧
      emb h32 g (UPoly.neg (primeOps p) a) = - emb h32 g a := by
  have e := toPoly_neg (PL h32) ha.1.1
  refine ⟨valid_of_degree_lt M (neg_wf (PL h32) ha.1) ?_, ?_⟩
  · rw [e, degree_neg]; exact ha.degree_lt M
  · unfold emb; rw [e, map_neg]

/-- `UPoly.times_spec` with the coefficient record written as `primeOps p` -/
theorem times_spec' (M : Modulus h32 n g) {b c : UPoly Nat} (hb : AllValid (PL h32) b)
    (hc : AllValid (PL h32) c) :
    ∃ r, UPoly.times (Ext.ring p g) b c = some r ∧ WF (PL h32) r ∧
      toPoly (PL h32) r = (toPoly (PL h32) b * toPoly (PL h32) c) %ₘ toPoly (PL h32) g ∧
      (toPoly (PL h32) r).degree < (toPoly (PL h32) g).degree :=
  UPoly.times_spec M.isQuot hb hc

/-- `UPoly.ofCoefs_spec` with the coefficient record written as `primeOps p` -/
theorem ofCoefs_spec' (M : Modulus h32 n g) {cs : List Nat} (hcs : AllValid (PL h32) cs) :
    ∃ r, UPoly.ofCoefs (Ext.ring p g) cs = some r ∧ WF (PL h32) r ∧
      toPoly (PL h32) r = toPoly (PL h32) cs %ₘ toPoly (PL h32) g ∧
      (toPoly (PL h32) r).degree < (toPoly (PL h32) g).degree :=
  UPoly.ofCoefs_spec M.isQuot hcs

/-- the ring product of the quotient ring, unwrapped -/
theorem times_unwrap (M : Modulus h32 n g) {b c : UPoly Nat} (hb : AllValid (PL h32) b)
    (hc : AllValid (PL h32) c) :
    Valid h32 n (Ext.unwrap (UPoly.times (Ext.ring p g) b c)) ∧
      emb h32 g (Ext.unwrap (UPoly.times (Ext.ring p g) b c)) = emb h32 g b * emb h32 g c := by
  obtain ⟨r, h1, h2, h3, h4⟩ := times_spec' M hb hc
  rw [h1]
  refine ⟨valid_of_degree_lt M h2 h4, ?_⟩
  show emb h32 g r = _
  unfold emb
  rw [h3, mk_modByMonic, map_mul]

theorem mul_spec (M : Modulus h32 n g) {b c : UPoly Nat} (hb : Valid h32 n b)
    (hc : Valid h32 n c) :
    Valid h32 n (Ext.mul p g b c) ∧ emb h32 g (Ext.mul p g b c) = emb h32 g b * emb h32 g c := by
  unfold Ext.mul
  simp only []
  split
  · next hz =>
    refine ⟨valid_zero M, ?_⟩
    rw [emb_zero]
    rw [Bool.or_eq_true] at hz
    rcases hz with hz | hz
    · have : emb h32 g b = 0 := by
        unfold emb; rw [(UPoly.isZero_iff (PL h32) hb.1).1 hz, map_zero]
      rw [this, zero_mul]
    · have : emb h32 g c = 0 := by
        unfold emb; rw [(UPoly.isZero_iff (PL h32) hc.1).1 hz, map_zero]
      rw [this, mul_zero]
  · exact times_unwrap M hb.1.1 hc.1.1

/-! ### 2. canonical representatives -/

theorem emb_injective (M : Modulus h32 n g) {a b : UPoly Nat} (ha : Valid h32 n a)
    (hb : Valid h32 n b) (h : emb h32 g a = emb h32 g b) : a = b :=
  reduced_unique' M ha hb h
where
  reduced_unique' (M : Modulus h32 n g) {a b : UPoly Nat} (ha : Valid h32 n a)
      (hb : Valid h32 n b) (h : emb h32 g a = emb h32 g b) : a = b :=
    toPoly_injective_on_WF (PL h32) ha.1 hb.1
      ((equal_iff (PL h32) ha.1 hb.1).1
        ((equal_iff_dvd_sub (PL h32) ha.1 hb.1 (ha.degree_lt M) (hb.degree_lt M)).2
          (emb_eq_iff.1 h)))

theorem equal_iff_emb (M : Modulus h32 n g) {a b : UPoly Nat} (ha : Valid h32 n a)
    (hb : Valid h32 n b) :
    UPoly.equal (primeOps p) a b = true ↔ emb h32 g a = emb h32 g b := by
  rw [equal_iff_dvd_sub (PL h32) ha.1 hb.1 (ha.degree_lt M) (hb.degree_lt M), emb_eq_iff]

theorem emb_eq_zero_iff (M : Modulus h32 n g) {a : UPoly Nat} (ha : Valid h32 n a) :
    emb h32 g a = 0 ↔ toPoly (PL h32) a = 0 := by
  constructor
  · intro h
    by_contra h0
    exact AdjoinRoot.mk_ne_zero_of_degree_lt M.monic h0 (ha.degree_lt M) h
  · intro h; unfold emb; rw [h, map_zero]

theorem isZero_iff_emb (M : Modulus h32 n g) {a : UPoly Nat} (ha : Valid h32 n a) :
    UPoly.isZero (primeOps p) a = true ↔ emb h32 g a = 0 := by
  rw [UPoly.isZero_iff (PL h32) ha.1, emb_eq_zero_iff M ha]

theorem isOne_iff_emb (M : Modulus h32 n g) {a : UPoly Nat} (ha : Valid h32 n a) :
    UPoly.isOne (primeOps p) a = true ↔ emb h32 g a = 1 := by
  rw [UPoly.isOne_iff (PL h32) ha.1]
  constructor
  · intro h; unfold emb; rw [h, map_one]
  · intro h
    rw [← emb_one] at h
    have := emb_injective M ha (valid_one M) h
    rw [this]
    exact toPoly_one (PL h32)

/-! ### 3. `ofNat`, `ofInt` -/

theorem emb_singleton (c : Nat) :
    emb h32 g [c] = ((c : ZMod p) : AdjoinRoot (toPoly (PL h32) g)) := by
  unfold emb
  rw [toPoly_singleton, primeLawfulFact_embed, AdjoinRoot.mk_C]

/-- a constant polynomial brought into the ring -/
theorem ofCoefs_singleton (M : Modulus h32 n g) {c : Nat} (hc : c < p) :
    Valid h32 n (Ext.unwrap (UPoly.ofCoefs (Ext.ring p g) [c])) ∧
      emb h32 g (Ext.unwrap (UPoly.ofCoefs (Ext.ring p g) [c])) =
        ((c : ZMod p) : AdjoinRoot (toPoly (PL h32) g)) := by
  have hcs : AllValid (PL h32) [c] := by
    intro x hx; rw [List.mem_singleton] at hx; subst hx; exact hc
  obtain ⟨r, h1, h2, h3, h4⟩ := ofCoefs_spec' M hcs
  rw [h1]
  refine ⟨valid_of_degree_lt M h2 h4, ?_⟩
  show emb h32 g r = _
  rw [← emb_singleton (h32 := h32) (g := g) c]
  unfold emb
  rw [h3, mk_modByMonic]

theorem ofNat_spec (M : Modulus h32 n g) (v : Nat) :
    Valid h32 n ((extOps p n g).ofNat v) ∧
      emb h32 g ((extOps p n g).ofNat v) = (v : AdjoinRoot (toPoly (PL h32) g)) := by
  have hp : 0 < p := (Fact.out : p.Prime).pos
  obtain ⟨h1, h2⟩ := ofCoefs_singleton M (Prime.element_lt (v := v) hp)
  refine ⟨h1, ?_⟩
  show emb h32 g (Ext.unwrap (UPoly.ofCoefs (Ext.ring p g) [Prime.element p v])) = _
  rw [h2, Prime.cast_element, map_natCast]

theorem ofInt_spec (M : Modulus h32 n g) (v : Int) :
    Valid h32 n ((extOps p n g).ofInt v) ∧
      emb h32 g ((extOps p n g).ofInt v) = (v : AdjoinRoot (toPoly (PL h32) g)) := by
  have hp : 0 < p := (Fact.out : p.Prime).pos
  obtain ⟨h1, h2⟩ := ofCoefs_singleton M (Prime.fromSigned_lt hp h32 v)
  refine ⟨h1, ?_⟩
  show emb h32 g (Ext.unwrap (UPoly.ofCoefs (Ext.ring p g) [Prime.fromSigned p v])) = _
  rw [h2, Prime.cast_fromSigned hp h32, map_intCast]

/-! ### 4. the field `F_p[X]/(g)` and `pow` -/

theorem natCard_adjoinRoot (M : Modulus h32 n g) :
    Nat.card (AdjoinRoot (toPoly (PL h32) g)) = p ^ n := by
  have := (AdjoinRoot.powerBasis' M.monic).finite
  rw [Module.natCard_eq_pow_finrank (K := ZMod p), (AdjoinRoot.powerBasis' M.monic).finrank,
    AdjoinRoot.powerBasis'_dim, Nat.card_zmod, M.deg]

theorem finite_adjoinRoot (M : Modulus h32 n g) : Finite (AdjoinRoot (toPoly (PL h32) g)) := by
  apply Nat.finite_of_card_ne_zero
  rw [natCard_adjoinRoot M]
  exact (pow_pos (Fact.out : p.Prime).pos n).ne'

section Field
variable [Fact (Irreducible (toPoly (PL h32) g))]

theorem pow_card_sub_one (M : Modulus h32 n g) (x : AdjoinRoot (toPoly (PL h32) g))
    (hx : x ≠ 0) : x ^ (p ^ n - 1) = 1 := by
  have := finite_adjoinRoot M
  have := Fintype.ofFinite (AdjoinRoot (toPoly (PL h32) g))
  have := FiniteField.pow_card_sub_one_eq_one x hx
  rwa [← Nat.card_eq_fintype_card, natCard_adjoinRoot M] at this

theorem pow_card (M : Modulus h32 n g) (x : AdjoinRoot (toPoly (PL h32) g)) :
    x ^ (p ^ n) = x := by
  have := finite_adjoinRoot M
  have := Fintype.ofFinite (AdjoinRoot (toPoly (PL h32) g))
  have := FiniteField.pow_card x
  rwa [← Nat.card_eq_fintype_card, natCard_adjoinRoot M] at this

instance charP_adjoinRoot : CharP (AdjoinRoot (toPoly (PL h32) g)) p :=
  charP_of_injective_algebraMap (algebraMap (ZMod p) (AdjoinRoot (toPoly (PL h32) g))).injective p

/-- `Pow`, including the zero cases and the exponent shortcut `k ≥ p^n ↦ k mod (p^n - 1)`;
    `Ext.card` does not wrap because `p^n < 2^64`. -/
theorem pow_spec (M : Modulus h32 n g) (hq : p ^ n < 2 ^ 64) {a : UPoly Nat}
    (ha : Valid h32 n a) (k : Nat) :
    Valid h32 n (Ext.pow p n g a k) ∧ emb h32 g (Ext.pow p n g a k) = emb h32 g a ^ k := by
  unfold Ext.pow
  apply BinField.genericPow_spec (Ext.card p n) [0] [1 % p] (UPoly.isZero (primeOps p))
    (Ext.mul p g) (emb h32 g) (Valid h32 n) (valid_zero M) emb_zero (valid_one M) emb_one
  · intro x hx; exact isZero_iff_emb M hx
  · intro x y hx hy; exact mul_spec M hx hy
  · intro x _ hx0
    rw [Ext.card_eq p n hq]
    exact pow_card_sub_one M _ hx0
  · exact ha

/-! ### 6. `trace` -/

theorem traceLoop_spec (M : Modulus h32 n g) (hq : p ^ n < 2 ^ 64) {a : UPoly Nat}
    (ha : Valid h32 n a) (k : Nat) :
    ∀ out, Valid h32 n out →
      Valid h32 n (Ext.traceLoop p n g a out k) ∧
        emb h32 g (Ext.traceLoop p n g a out k)
          = emb h32 g out ^ p ^ k + ∑ i ∈ Finset.range k, emb h32 g a ^ p ^ i := by
  induction k with
  | zero => intro out hout; simp [Ext.traceLoop, hout]
  | succ k ih =>
    intro out hout
    obtain ⟨hp1, hp2⟩ := pow_spec M hq hout p
    obtain ⟨ha1, ha2⟩ := add_spec M hp1 ha
    obtain ⟨h1, h2⟩ := ih _ ha1
    rw [Ext.traceLoop]
    refine ⟨h1, ?_⟩
    rw [h2, ha2, hp2, add_pow_char_pow, ← pow_mul, ← pow_succ', Finset.sum_range_succ]
    ring

/-- `Trace` computes `∑_{i<n} a^(p^i)` -/
theorem trace_spec (M : Modulus h32 n g) (hq : p ^ n < 2 ^ 64) {a : UPoly Nat}
    (ha : Valid h32 n a) :
    Valid h32 n (Ext.trace p n g a) ∧
      emb h32 g (Ext.trace p n g a) = ∑ i ∈ Finset.range n, emb h32 g a ^ p ^ i := by
  obtain ⟨h1, h2⟩ := traceLoop_spec M hq ha (n - 1) a ha
  refine ⟨h1, ?_⟩
  rw [Ext.trace, h2]
  have hn := M.npos
  conv_rhs => rw [show n = (n - 1) + 1 by omega, Finset.sum_range_succ]
  ring

/-- the trace is fixed by the Frobenius `x ↦ x^p`, i.e. it lies in the prime field -/
theorem trace_pow_char (M : Modulus h32 n g) (hq : p ^ n < 2 ^ 64) {a : UPoly Nat}
    (ha : Valid h32 n a) :
    emb h32 g (Ext.trace p n g a) ^ p = emb h32 g (Ext.trace p n g a) := by
  rw [(trace_spec M hq ha).2, sum_pow_char]
  have e : ∀ i, (emb h32 g a ^ p ^ i) ^ p = emb h32 g a ^ p ^ (i + 1) := by
    intro i; rw [← pow_mul, ← pow_succ]
  simp only [e]
  have h1 := Finset.sum_range_succ' (fun i => emb h32 g a ^ p ^ i) n
  have h2 := Finset.sum_range_succ (fun i => emb h32 g a ^ p ^ i) n
  simp only [pow_zero, pow_one] at h1
  rw [pow_card M] at h2
  rw [h2] at h1
  exact (add_right_cancel h1).symm

/-- the field trace to the prime field: `Tr_{GF(p^n)/GF(p)}` -/
theorem trace_eq_algebra_trace (M : Modulus h32 n g) (hq : p ^ n < 2 ^ 64) {a : UPoly Nat}
    (ha : Valid h32 n a) :
    emb h32 g (Ext.trace p n g a)
      = algebraMap (ZMod p) (AdjoinRoot (toPoly (PL h32) g))
          (Algebra.trace (ZMod p) (AdjoinRoot (toPoly (PL h32) g)) (emb h32 g a)) := by
  have := finite_adjoinRoot M
  rw [(trace_spec M hq ha).2, FiniteField.algebraMap_trace_eq_sum_pow,
    (AdjoinRoot.powerBasis' M.monic).finrank, AdjoinRoot.powerBasis'_dim, Nat.card_zmod, M.deg]

end Field

end Setting

end ExtField
end Algobra
