/-
  Proofs/ExtField.lean — extension fields GF(p^n) = F_p[a]/(g) (C01/C02/C18, extfield part).
  Elements are coefficient lists over `primeOps p` (`UPoly Nat`), the arithmetic is delegated to the
  univariate quotient ring `Ext.ring p g` (Model/Ext.lean, Model/UPoly.lean).
  Bridge: `emb h32 g a = AdjoinRoot.mk (toPoly L g) (toPoly L a)` with `L = primeLawfulFact p h32`;
  valid representations are the well-formed lists of length `≤ n` (degree `< n`).
-/
import Mathlib.RingTheory.AdjoinRoot
import Mathlib.FieldTheory.Finite.Basic
import Mathlib.FieldTheory.Finite.Trace
import Mathlib.Algebra.CharP.Lemmas
import Mathlib.Algebra.CharP.Algebra
import Mathlib.Algebra.Polynomial.SpecificDegree
import Algobra.Model.Ext
import Algobra.Proofs.UPolyDiv
import Algobra.Proofs.PrimeField
import Algobra.Proofs.BinField
import Algobra.Proofs.Define

open Polynomial

namespace Algobra
namespace ExtField
open UPoly

section Setting
variable {p : Nat} [Fact p.Prime] (h32 : p - 1 < 2 ^ 32)

/-- the lawful prime-field record the extension field is built on (C01, prime part) -/
noncomputable abbrev PL : Lawful (primeOps p) (ZMod p) := primeLawfulFact p h32

/-- the modulus of an extension field of degree `n`: a well-formed monic list of degree `n ≥ 1` -/
structure Modulus (n : Nat) (g : List Nat) : Prop where
  wf : WF (PL h32) g
  monic : (toPoly (PL h32) g).Monic
  deg : (toPoly (PL h32) g).natDegree = n
  npos : 1 ≤ n

/-- valid representations: well-formed coefficient lists of length `≤ n` (degree `< n`) -/
def Valid (n : Nat) (a : UPoly Nat) : Prop := WF (PL h32) a ∧ a.length ≤ n

/-- the class of `a` in `F_p[X]/(g)` -/
noncomputable def emb (g a : UPoly Nat) : AdjoinRoot (toPoly (PL h32) g) :=
  AdjoinRoot.mk (toPoly (PL h32) g) (toPoly (PL h32) a)

variable {h32} {n : Nat} {g : List Nat}

theorem Modulus.isQuot (M : Modulus h32 n g) : IsQuot (Ext.ring p g) (PL h32) g :=
  ⟨rfl, M.wf, M.monic, le_of_le_of_eq M.npos M.deg.symm⟩

theorem Modulus.degree_eq (M : Modulus h32 n g) : (toPoly (PL h32) g).degree = (n : WithBot ℕ) := by
  rw [degree_eq_natDegree M.monic.ne_zero, M.deg]

theorem Modulus.length_eq (M : Modulus h32 n g) : g.length = n + 1 := by
  rw [length_eq_natDegree_succ _ M.wf, M.deg]

/-- length `≤ n` is degree `< deg g` -/
theorem length_le_iff_degree_lt (M : Modulus h32 n g) {a : UPoly Nat} (ha : WF (PL h32) a) :
    a.length ≤ n ↔ (toPoly (PL h32) a).degree < (toPoly (PL h32) g).degree := by
  rw [M.degree_eq, length_eq_natDegree_succ _ ha]
  by_cases h0 : toPoly (PL h32) a = 0
  · rw [h0, degree_zero, natDegree_zero]
    exact ⟨fun _ => WithBot.bot_lt_coe _, fun _ => M.npos⟩
  · rw [degree_eq_natDegree h0]
    constructor
    · intro h; exact_mod_cast (by omega : (toPoly (PL h32) a).natDegree < n)
    · intro h
      have : (toPoly (PL h32) a).natDegree < n := by exact_mod_cast h
      omega

theorem Valid.degree_lt (M : Modulus h32 n g) {a : UPoly Nat} (ha : Valid h32 n a) :
    (toPoly (PL h32) a).degree < (toPoly (PL h32) g).degree :=
  (length_le_iff_degree_lt M ha.1).1 ha.2

theorem valid_of_degree_lt (M : Modulus h32 n g) {a : UPoly Nat} (ha : WF (PL h32) a)
    (hd : (toPoly (PL h32) a).degree < (toPoly (PL h32) g).degree) : Valid h32 n a :=
  ⟨ha, (length_le_iff_degree_lt M ha).2 hd⟩

theorem valid_iff (M : Modulus h32 n g) (a : UPoly Nat) :
    Valid h32 n a ↔ WF (PL h32) a ∧ (toPoly (PL h32) a).degree < (toPoly (PL h32) g).degree :=
  ⟨fun h => ⟨h.1, h.degree_lt M⟩, fun h => valid_of_degree_lt M h.1 h.2⟩

/-! ### the quotient map and remainders -/

theorem mk_modByMonic {G : (ZMod p)[X]} (f : (ZMod p)[X]) :
    AdjoinRoot.mk G (f %ₘ G) = AdjoinRoot.mk G f :=
  AdjoinRoot.mk_eq_mk.2 (dvd_modByMonic_sub f G)

theorem emb_eq_iff {a b : UPoly Nat} :
    emb h32 g a = emb h32 g b ↔ toPoly (PL h32) g ∣ toPoly (PL h32) a - toPoly (PL h32) b :=
  AdjoinRoot.mk_eq_mk

theorem emb_eq_mk_iff {a : UPoly Nat} {f : (ZMod p)[X]} :
    emb h32 g a = AdjoinRoot.mk (toPoly (PL h32) g) f ↔
      toPoly (PL h32) g ∣ toPoly (PL h32) a - f :=
  AdjoinRoot.mk_eq_mk

theorem valid_zero (M : Modulus h32 n g) : Valid h32 n [0] :=
  ⟨wf_zero (PL h32), M.npos⟩

theorem emb_zero : emb h32 g [0] = 0 := by
  unfold emb
  rw [show ([0] : UPoly Nat) = zero (primeOps p) from rfl, toPoly_zero, map_zero]

theorem valid_one (M : Modulus h32 n g) : Valid h32 n [1 % p] :=
  ⟨wf_one (PL h32), M.npos⟩

theorem emb_one : emb h32 g [1 % p] = 1 := by
  unfold emb
  rw [show ([1 % p] : UPoly Nat) = one (primeOps p) from rfl, toPoly_one, map_one]

/-! ### 1. `add`, `sub`, `neg`, `mul` -/

theorem add_spec (M : Modulus h32 n g) {a b : UPoly Nat} (ha : Valid h32 n a)
    (hb : Valid h32 n b) :
    Valid h32 n (UPoly.add (primeOps p) a b) ∧
      emb h32 g (UPoly.add (primeOps p) a b) = emb h32 g a + emb h32 g b := by
  have e := toPoly_add (PL h32) ha.1 hb.1.1
  refine ⟨valid_of_degree_lt M (add_wf (PL h32) ha.1 hb.1.1) ?_, ?_⟩
  · rw [e]
    exact lt_of_le_of_lt (degree_add_le _ _) (max_lt (ha.degree_lt M) (hb.degree_lt M))
  · unfold emb; rw [e, map_add]

theorem sub_spec (M : Modulus h32 n g) {a b : UPoly Nat} (ha : Valid h32 n a)
    (hb : Valid h32 n b) :
    Valid h32 n (UPoly.sub (primeOps p) a b) ∧
      emb h32 g (UPoly.sub (primeOps p) a b) = emb h32 g a - emb h32 g b := by
  have e := toPoly_sub (PL h32) ha.1 hb.1.1
  refine ⟨valid_of_degree_lt M (sub_wf (PL h32) ha.1 hb.1.1) ?_, ?_⟩
  · rw [e]
    exact lt_of_le_of_lt (degree_sub_le _ _) (max_lt (ha.degree_lt M) (hb.degree_lt M))
  · unfold emb; rw [e, map_sub]

theorem neg_spec (M : Modulus h32 n g) {a : UPoly Nat} (ha : Valid h32 n a) :
    Valid h32 n (UPoly.neg (primeOps p) a) ∧
      emb h32 g (UPoly.neg (primeOps p) a) = - emb h32 g a := by
  have e := toPoly_neg (PL h32) ha.1.1
  refine ⟨valid_of_degree_lt M (neg_wf (PL h32) ha.1) ?_, ?_⟩
  · rw [e, degree_neg]; exact ha.degree_lt M
  · unfold emb; rw [e, map_neg]

/-- `UPoly.times_spec` with the coefficient record written as `primeOps p` -/
theorem times_spec' (M : Modulus h32 n g) {b c : UPoly Nat} (hb : AllValid (PL h32) b)
    (hc : AllValid (PL h32) c) :
    ∃ r, UPoly.times (Ext.ring p g) b c = some r ∧ WF (PL h32) r ∧
      toPoly (PL h32) r = (toPoly (PL h32) b * toPoly (PL h32) c) %ₘ toPoly (PL h32) g ∧
      (toPoly (PL h32) r).degree < (toPoly (PL h32) g).degree :=
  UPoly.times_spec M.isQuot hb hc

/-- `UPoly.ofCoefs_spec` with the coefficient record written as `primeOps p` -/
theorem ofCoefs_spec' (M : Modulus h32 n g) {cs : List Nat} (hcs : AllValid (PL h32) cs) :
    ∃ r, UPoly.ofCoefs (Ext.ring p g) cs = some r ∧ WF (PL h32) r ∧
      toPoly (PL h32) r = toPoly (PL h32) cs %ₘ toPoly (PL h32) g ∧
      (toPoly (PL h32) r).degree < (toPoly (PL h32) g).degree :=
  UPoly.ofCoefs_spec M.isQuot hcs

/-- the ring product of the quotient ring, unwrapped -/
theorem times_unwrap (M : Modulus h32 n g) {b c : UPoly Nat} (hb : AllValid (PL h32) b)
    (hc : AllValid (PL h32) c) :
    Valid h32 n (Ext.unwrap (UPoly.times (Ext.ring p g) b c)) ∧
      emb h32 g (Ext.unwrap (UPoly.times (Ext.ring p g) b c)) = emb h32 g b * emb h32 g c := by
  obtain ⟨r, h1, h2, h3, h4⟩ := times_spec' M hb hc
  rw [h1]
  refine ⟨valid_of_degree_lt M h2 h4, ?_⟩
  show emb h32 g r = _
  unfold emb
  rw [h3, mk_modByMonic, map_mul]

theorem mul_spec (M : Modulus h32 n g) {b c : UPoly Nat} (hb : Valid h32 n b)
    (hc : Valid h32 n c) :
    Valid h32 n (Ext.mul p g b c) ∧ emb h32 g (Ext.mul p g b c) = emb h32 g b * emb h32 g c := by
  unfold Ext.mul
  simp only []
  split
  · next hz =>
    refine ⟨valid_zero M, ?_⟩
    rw [emb_zero]
    rw [Bool.or_eq_true] at hz
    rcases hz with hz | hz
    · have : emb h32 g b = 0 := by
        unfold emb; rw [(UPoly.isZero_iff (PL h32) hb.1).1 hz, map_zero]
      rw [this, zero_mul]
    · have : emb h32 g c = 0 := by
        unfold emb; rw [(UPoly.isZero_iff (PL h32) hc.1).1 hz, map_zero]
      rw [this, mul_zero]
  · exact times_unwrap M hb.1.1 hc.1.1

/-- the product is literally the Euclidean remainder of the product in `F_p[X]` -/
theorem mul_toPoly (M : Modulus h32 n g) {b c : UPoly Nat} (hb : Valid h32 n b)
    (hc : Valid h32 n c) :
    toPoly (PL h32) (Ext.mul p g b c) =
      (toPoly (PL h32) b * toPoly (PL h32) c) %ₘ toPoly (PL h32) g := by
  unfold Ext.mul
  simp only []
  split
  · next hz =>
    rw [show ([0] : UPoly Nat) = zero (primeOps p) from rfl, toPoly_zero]
    rw [Bool.or_eq_true] at hz
    rcases hz with hz | hz
    · rw [(UPoly.isZero_iff (PL h32) hb.1).1 hz, zero_mul, zero_modByMonic]
    · rw [(UPoly.isZero_iff (PL h32) hc.1).1 hz, mul_zero, zero_modByMonic]
  · obtain ⟨r, h1, -, h3, -⟩ := times_spec' M hb.1.1 hc.1.1
    rw [h1]
    exact h3

/-- a list of `n+1` coefficients `< p` ending in `1` is a modulus of degree `n` -/
theorem modulus_of_list (hn : 1 ≤ n) (hlen : g.length = n + 1) (hc : ∀ c ∈ g, c < p)
    (hlast : g.getD n 0 = 1) : Modulus h32 n g := by
  have hne : g ≠ [] := by intro h; rw [h] at hlen; simp at hlen
  have hlc : UPoly.lc (primeOps p) g = 1 := by
    unfold UPoly.lc UPoly.coef UPoly.ld
    rw [hlen]; exact hlast
  have hwf : WF (PL h32) g := by
    refine ⟨hc, (canon_iff_lc g).2 ⟨hne, fun _ => ?_⟩⟩
    rw [hlc]; rfl
  have hdeg : (toPoly (PL h32) g).natDegree = n := by
    rw [natDegree_toPoly (PL h32) hwf]; unfold UPoly.ld; omega
  refine ⟨hwf, ?_, hdeg, hn⟩
  rw [Monic, ← embed_lc (PL h32) hwf, hlc]
  show ((1 : ℕ) : ZMod p) = 1
  exact Nat.cast_one

/-! ### 2. canonical representatives -/

theorem emb_injective (M : Modulus h32 n g) {a b : UPoly Nat} (ha : Valid h32 n a)
    (hb : Valid h32 n b) (h : emb h32 g a = emb h32 g b) : a = b :=
  reduced_unique' M ha hb h
where
  reduced_unique' (M : Modulus h32 n g) {a b : UPoly Nat} (ha : Valid h32 n a)
      (hb : Valid h32 n b) (h : emb h32 g a = emb h32 g b) : a = b :=
    toPoly_injective_on_WF (PL h32) ha.1 hb.1
      ((equal_iff (PL h32) ha.1 hb.1).1
        ((equal_iff_dvd_sub (PL h32) ha.1 hb.1 (ha.degree_lt M) (hb.degree_lt M)).2
          (emb_eq_iff.1 h)))

theorem equal_iff_emb (M : Modulus h32 n g) {a b : UPoly Nat} (ha : Valid h32 n a)
    (hb : Valid h32 n b) :
    UPoly.equal (primeOps p) a b = true ↔ emb h32 g a = emb h32 g b := by
  rw [equal_iff_dvd_sub (PL h32) ha.1 hb.1 (ha.degree_lt M) (hb.degree_lt M), emb_eq_iff]

theorem emb_eq_zero_iff (M : Modulus h32 n g) {a : UPoly Nat} (ha : Valid h32 n a) :
    emb h32 g a = 0 ↔ toPoly (PL h32) a = 0 := by
  constructor
  · intro h
    by_contra h0
    exact AdjoinRoot.mk_ne_zero_of_degree_lt M.monic h0 (ha.degree_lt M) h
  · intro h; unfold emb; rw [h, map_zero]

theorem isZero_iff_emb (M : Modulus h32 n g) {a : UPoly Nat} (ha : Valid h32 n a) :
    UPoly.isZero (primeOps p) a = true ↔ emb h32 g a = 0 := by
  rw [UPoly.isZero_iff (PL h32) ha.1, emb_eq_zero_iff M ha]

theorem isOne_iff_emb (M : Modulus h32 n g) {a : UPoly Nat} (ha : Valid h32 n a) :
    UPoly.isOne (primeOps p) a = true ↔ emb h32 g a = 1 := by
  rw [UPoly.isOne_iff (PL h32) ha.1]
  constructor
  · intro h; unfold emb; rw [h, map_one]
  · intro h
    rw [← emb_one] at h
    have := emb_injective M ha (valid_one M) h
    rw [this]
    exact toPoly_one (PL h32)

/-! ### 3. `ofNat`, `ofInt` -/

theorem emb_singleton (c : Nat) :
    emb h32 g [c] = ((c : ZMod p) : AdjoinRoot (toPoly (PL h32) g)) := by
  unfold emb
  rw [toPoly_singleton, primeLawfulFact_embed, AdjoinRoot.mk_C]

/-- a constant polynomial brought into the ring -/
theorem ofCoefs_singleton (M : Modulus h32 n g) {c : Nat} (hc : c < p) :
    Valid h32 n (Ext.unwrap (UPoly.ofCoefs (Ext.ring p g) [c])) ∧
      emb h32 g (Ext.unwrap (UPoly.ofCoefs (Ext.ring p g) [c])) =
        ((c : ZMod p) : AdjoinRoot (toPoly (PL h32) g)) := by
  have hcs : AllValid (PL h32) [c] := by
    intro x hx; rw [List.mem_singleton] at hx; subst hx; exact hc
  obtain ⟨r, h1, h2, h3, h4⟩ := ofCoefs_spec' M hcs
  rw [h1]
  refine ⟨valid_of_degree_lt M h2 h4, ?_⟩
  show emb h32 g r = _
  rw [← emb_singleton (h32 := h32) (g := g) c]
  unfold emb
  rw [h3, mk_modByMonic]

theorem ofNat_spec (M : Modulus h32 n g) (v : Nat) :
    Valid h32 n ((extOps p n g).ofNat v) ∧
      emb h32 g ((extOps p n g).ofNat v) = (v : AdjoinRoot (toPoly (PL h32) g)) := by
  have hp : 0 < p := (Fact.out : p.Prime).pos
  obtain ⟨h1, h2⟩ := ofCoefs_singleton M (Prime.element_lt (v := v) hp)
  refine ⟨h1, ?_⟩
  show emb h32 g (Ext.unwrap (UPoly.ofCoefs (Ext.ring p g) [Prime.element p v])) = _
  rw [h2, Prime.cast_element, map_natCast]

theorem ofInt_spec (M : Modulus h32 n g) (v : Int) :
    Valid h32 n ((extOps p n g).ofInt v) ∧
      emb h32 g ((extOps p n g).ofInt v) = (v : AdjoinRoot (toPoly (PL h32) g)) := by
  have hp : 0 < p := (Fact.out : p.Prime).pos
  obtain ⟨h1, h2⟩ := ofCoefs_singleton M (Prime.fromSigned_lt hp h32 v)
  refine ⟨h1, ?_⟩
  show emb h32 g (Ext.unwrap (UPoly.ofCoefs (Ext.ring p g) [Prime.fromSigned p v])) = _
  rw [h2, Prime.cast_fromSigned hp h32, map_intCast]

/-- `extOps.gen = PolynomialFromUnsigned [0, 1]` is the class of `X` (which generates the
    multiplicative group when `g` is a Conway polynomial; that is C04/Conway, not proved here) -/
theorem gen_spec (M : Modulus h32 n g) :
    Valid h32 n (extOps p n g).gen ∧
      emb h32 g (extOps p n g).gen = AdjoinRoot.root (toPoly (PL h32) g) := by
  have hp : 0 < p := (Fact.out : p.Prime).pos
  have hcs : AllValid (PL h32) [Prime.element p 0, Prime.element p 1] := by
    intro x hx
    simp only [List.mem_cons, List.not_mem_nil, or_false] at hx
    rcases hx with rfl | rfl <;> exact Prime.element_lt hp
  obtain ⟨r, h1, h2, h3, h4⟩ := ofCoefs_spec' M hcs
  have e : (extOps p n g).gen = Ext.unwrap (UPoly.ofCoefs (Ext.ring p g)
      [Prime.element p 0, Prime.element p 1]) := rfl
  rw [e, h1]
  refine ⟨valid_of_degree_lt M h2 h4, ?_⟩
  show emb h32 g r = _
  unfold emb
  rw [h3, mk_modByMonic, ← AdjoinRoot.mk_X]
  congr 1
  simp only [toPoly_cons, toPoly_nil, primeLawfulFact_embed, Prime.cast_element]
  simp

/-! ### 4. the field `F_p[X]/(g)` and `pow` -/

theorem natCard_adjoinRoot (M : Modulus h32 n g) :
    Nat.card (AdjoinRoot (toPoly (PL h32) g)) = p ^ n := by
  have := (AdjoinRoot.powerBasis' M.monic).finite
  rw [Module.natCard_eq_pow_finrank (K := ZMod p), (AdjoinRoot.powerBasis' M.monic).finrank,
    AdjoinRoot.powerBasis'_dim, Nat.card_zmod, M.deg]

theorem finite_adjoinRoot (M : Modulus h32 n g) : Finite (AdjoinRoot (toPoly (PL h32) g)) := by
  apply Nat.finite_of_card_ne_zero
  rw [natCard_adjoinRoot M]
  exact (pow_pos (Fact.out : p.Prime).pos n).ne'

section Field
variable [Fact (Irreducible (toPoly (PL h32) g))]

theorem pow_card_sub_one (M : Modulus h32 n g) (x : AdjoinRoot (toPoly (PL h32) g))
    (hx : x ≠ 0) : x ^ (p ^ n - 1) = 1 := by
  have := finite_adjoinRoot M
  have := Fintype.ofFinite (AdjoinRoot (toPoly (PL h32) g))
  have := FiniteField.pow_card_sub_one_eq_one x hx
  rwa [← Nat.card_eq_fintype_card, natCard_adjoinRoot M] at this

theorem pow_card (M : Modulus h32 n g) (x : AdjoinRoot (toPoly (PL h32) g)) :
    x ^ (p ^ n) = x := by
  have := finite_adjoinRoot M
  have := Fintype.ofFinite (AdjoinRoot (toPoly (PL h32) g))
  have := FiniteField.pow_card x
  rwa [← Nat.card_eq_fintype_card, natCard_adjoinRoot M] at this

instance charP_adjoinRoot : CharP (AdjoinRoot (toPoly (PL h32) g)) p :=
  charP_of_injective_algebraMap (algebraMap (ZMod p) (AdjoinRoot (toPoly (PL h32) g))).injective p

/-- `Pow`, including the zero cases and the exponent shortcut `k ≥ p^n ↦ k mod (p^n - 1)`;
    `Ext.card` does not wrap because `p^n < 2^64`. -/
theorem pow_spec (M : Modulus h32 n g) (hq : p ^ n < 2 ^ 64) {a : UPoly Nat}
    (ha : Valid h32 n a) (k : Nat) :
    Valid h32 n (Ext.pow p n g a k) ∧ emb h32 g (Ext.pow p n g a k) = emb h32 g a ^ k := by
  unfold Ext.pow
  apply BinField.genericPow_spec (Ext.card p n) [0] [1 % p] (UPoly.isZero (primeOps p))
    (Ext.mul p g) (emb h32 g) (Valid h32 n) (valid_zero M) emb_zero (valid_one M) emb_one
  · intro x hx; exact isZero_iff_emb M hx
  · intro x y hx hy; exact mul_spec M hx hy
  · intro x _ hx0
    rw [Ext.card_eq p n hq]
    exact pow_card_sub_one M _ hx0
  · exact ha

/-! ### 6. `trace` -/

theorem traceLoop_spec (M : Modulus h32 n g) (hq : p ^ n < 2 ^ 64) {a : UPoly Nat}
    (ha : Valid h32 n a) (k : Nat) :
    ∀ out, Valid h32 n out →
      Valid h32 n (Ext.traceLoop p n g a out k) ∧
        emb h32 g (Ext.traceLoop p n g a out k)
          = emb h32 g out ^ p ^ k + ∑ i ∈ Finset.range k, emb h32 g a ^ p ^ i := by
  induction k with
  | zero => intro out hout; simp [Ext.traceLoop, hout]
  | succ k ih =>
    intro out hout
    obtain ⟨hp1, hp2⟩ := pow_spec M hq hout p
    obtain ⟨ha1, ha2⟩ := add_spec M hp1 ha
    obtain ⟨h1, h2⟩ := ih _ ha1
    rw [Ext.traceLoop]
    refine ⟨h1, ?_⟩
    rw [h2, ha2, hp2, add_pow_char_pow, ← pow_mul, ← pow_succ', Finset.sum_range_succ]
    ring

/-- `Trace` computes `∑_{i<n} a^(p^i)` -/
theorem trace_spec (M : Modulus h32 n g) (hq : p ^ n < 2 ^ 64) {a : UPoly Nat}
    (ha : Valid h32 n a) :
    Valid h32 n (Ext.trace p n g a) ∧
      emb h32 g (Ext.trace p n g a) = ∑ i ∈ Finset.range n, emb h32 g a ^ p ^ i := by
  obtain ⟨h1, h2⟩ := traceLoop_spec M hq ha (n - 1) a ha
  refine ⟨h1, ?_⟩
  rw [Ext.trace, h2]
  have hn := M.npos
  conv_rhs => rw [show n = (n - 1) + 1 by omega, Finset.sum_range_succ]
  ring

/-- the trace is fixed by the Frobenius `x ↦ x^p`, i.e. it lies in the prime field -/
theorem trace_pow_char (M : Modulus h32 n g) (hq : p ^ n < 2 ^ 64) {a : UPoly Nat}
    (ha : Valid h32 n a) :
    emb h32 g (Ext.trace p n g a) ^ p = emb h32 g (Ext.trace p n g a) := by
  rw [(trace_spec M hq ha).2, sum_pow_char]
  have e : ∀ i, (emb h32 g a ^ p ^ i) ^ p = emb h32 g a ^ p ^ (i + 1) := by
    intro i; rw [← pow_mul, ← pow_succ]
  simp only [e]
  have h1 := Finset.sum_range_succ' (fun i => emb h32 g a ^ p ^ i) n
  have h2 := Finset.sum_range_succ (fun i => emb h32 g a ^ p ^ i) n
  simp only [pow_zero, pow_one] at h1
  rw [pow_card M] at h2
  rw [h2] at h1
  exact (add_right_cancel h1).symm

/-- the field trace to the prime field: `Tr_{GF(p^n)/GF(p)}` -/
theorem trace_eq_algebra_trace (M : Modulus h32 n g) (hq : p ^ n < 2 ^ 64) {a : UPoly Nat}
    (ha : Valid h32 n a) :
    emb h32 g (Ext.trace p n g a)
      = algebraMap (ZMod p) (AdjoinRoot (toPoly (PL h32) g))
          (Algebra.trace (ZMod p) (AdjoinRoot (toPoly (PL h32) g)) (emb h32 g a)) := by
  have := finite_adjoinRoot M
  rw [(trace_spec M hq ha).2, FiniteField.algebraMap_trace_eq_sum_pow,
    (AdjoinRoot.powerBasis' M.monic).finrank, AdjoinRoot.powerBasis'_dim, Nat.card_zmod, M.deg]

end Field

/-! ### 5. `inv`: extended Euclid with monic renormalisation -/

omit [Fact (Nat.Prime p)] in
theorem invLoop_succ (fuel : Nat) (r0 r1 i0 i1 : UPoly Nat) :
    Ext.invLoop p g (fuel + 1) r0 r1 i0 i1 =
      match UPoly.quoRemLoop (primeOps p) [r1] (UPoly.quoRemFuel r0) r0 [UPoly.zero (primeOps p)]
          (UPoly.zero (primeOps p)) with
      | none => i1
      | some (quo, rem) =>
        if UPoly.isZero (primeOps p) rem then i1
        else
          Ext.invLoop p g fuel r1
            (UPoly.scale (primeOps p) rem
              (((primeOps p).inv (UPoly.lc (primeOps p) rem)).getD 0)) i1
            (UPoly.scale (primeOps p)
              (UPoly.sub (primeOps p) i0
                (Ext.unwrap (UPoly.times (Ext.ring p g) (quo.headD (UPoly.zero (primeOps p))) i1)))
              (((primeOps p).inv (UPoly.lc (primeOps p) rem)).getD 0)) := rfl

/-- one-step data of the loop: the inverse of the leading coefficient of a nonzero polynomial -/
theorem lcInv_spec {f : UPoly Nat} (hf : WF (PL h32) f) (h0 : toPoly (PL h32) f ≠ 0) :
    ∃ li, (primeOps p).inv (UPoly.lc (primeOps p) f) = some li ∧ li < p ∧
      ((li : ℕ) : ZMod p) = ((toPoly (PL h32) f).leadingCoeff)⁻¹ ∧
      ((li : ℕ) : ZMod p) ≠ 0 := by
  have hlc : (PL h32).embed (UPoly.lc (primeOps p) f) ≠ 0 := by
    rw [embed_lc (PL h32) hf]; exact leadingCoeff_ne_zero.2 h0
  obtain ⟨li, h1, h2, h3⟩ := (PL h32).inv_some _ (lc_valid (PL h32) hf.1) hlc
  rw [embed_lc (PL h32) hf] at h3
  refine ⟨li, h1, h2, h3, ?_⟩
  have : ((li : ℕ) : ZMod p) = ((toPoly (PL h32) f).leadingCoeff)⁻¹ := h3
  rw [this]
  exact inv_ne_zero (leadingCoeff_ne_zero.2 h0)

/-- Invariant of the Euclid loop of `Inv`: `r1` monic, `i_k · x ≡ r_k (mod g)`, `(r0, r1)` coprime,
    and the fuel exceeds `deg r1`.  Then the loop ends with `r1 = 1` and returns the inverse. -/
theorem invLoop_spec (M : Modulus h32 n g) (x : AdjoinRoot (toPoly (PL h32) g)) (fuel : Nat) :
    ∀ r0 r1 i0 i1 : UPoly Nat,
      WF (PL h32) r0 → WF (PL h32) r1 → (toPoly (PL h32) r1).Monic →
      Valid h32 n i0 → Valid h32 n i1 →
      emb h32 g i0 * x = emb h32 g r0 → emb h32 g i1 * x = emb h32 g r1 →
      IsCoprime (toPoly (PL h32) r0) (toPoly (PL h32) r1) →
      (toPoly (PL h32) r1).natDegree < fuel →
      Valid h32 n (Ext.invLoop p g fuel r0 r1 i0 i1) ∧
        emb h32 g (Ext.invLoop p g fuel r0 r1 i0 i1) * x = 1 := by
  induction fuel with
  | zero => intro r0 r1 i0 i1 _ _ _ _ _ _ _ _ hf; omega
  | succ fuel ih =>
    intro r0 r1 i0 i1 h0 h1 hmon hi0 hi1 e0 e1 hcop hfuel
    have hne : toPoly (PL h32) r1 ≠ 0 := hmon.ne_zero
    have hgs : ∀ f ∈ [r1], WF (PL h32) f ∧ toPoly (PL h32) f ≠ 0 := by
      intro f hf; rw [List.mem_singleton] at hf; subst hf; exact ⟨h1, hne⟩
    obtain ⟨qs, rem, hq⟩ := quoRemLoop_total (PL h32) hgs h0 (quoRemFuel r0)
      (by unfold quoRemFuel; omega)
    have hq' : quoRemLoop (primeOps p) [r1] (quoRemFuel r0) r0 [zero (primeOps p)]
        (zero (primeOps p)) = some (qs, rem) := hq
    obtain ⟨q, hqs, hqw, hremw, eq, erem⟩ := quoRemLoop_single (PL h32) h0 h1 hne hq'
    subst hqs
    rw [invLoop_succ, hq']
    simp only [List.headD_cons]
    split
    · next hz =>
      -- the remainder vanishes: `r1 ∣ r0`, so the monic `r1` is the gcd `1`
      have hrem0 : toPoly (PL h32) rem = 0 := (UPoly.isZero_iff (PL h32) hremw).1 hz
      have hdvd : toPoly (PL h32) r1 ∣ toPoly (PL h32) r0 := by
        rw [← EuclideanDomain.mod_eq_zero, ← erem, hrem0]
      have hunit : IsUnit (toPoly (PL h32) r1) := hcop.isUnit_of_dvd' hdvd dvd_rfl
      have hone : toPoly (PL h32) r1 = 1 := hmon.eq_one_of_isUnit hunit
      refine ⟨hi1, ?_⟩
      rw [e1]; unfold emb; rw [hone, map_one]
    · next hz =>
      have hrem0 : toPoly (PL h32) rem ≠ 0 := fun h => hz ((UPoly.isZero_iff (PL h32) hremw).2 h)
      obtain ⟨li, hli, hliv, hlie, hli0⟩ := lcInv_spec hremw hrem0
      rw [hli, Option.getD_some]
      have hliv' : (PL h32).valid li := hliv
      have hlie' : (PL h32).embed li = ((toPoly (PL h32) rem).leadingCoeff)⁻¹ := hlie
      have hli0' : (PL h32).embed li ≠ 0 := hli0
      -- new remainder
      have hr1'w := scale_wf (PL h32) hremw hliv'
      have hr1'e := toPoly_scale (PL h32) hremw.1 hliv'
      have hr1'mon : (toPoly (PL h32) (scale (primeOps p) rem li)).Monic := by
        rw [hr1'e, Monic, leadingCoeff_mul, leadingCoeff_C, hlie',
          inv_mul_cancel₀ (leadingCoeff_ne_zero.2 hrem0)]
      -- new cofactor
      obtain ⟨htv, hte⟩ := times_unwrap M hqw.1 hi1.1.1
      obtain ⟨hsv, hse⟩ := sub_spec M hi0 htv
      have hi1'w := scale_wf (PL h32) hsv.1 hliv'
      have hi1'e := toPoly_scale (PL h32) hsv.1.1 hliv'
      have hi1'v : Valid h32 n (scale (primeOps p) (UPoly.sub (primeOps p) i0
          (Ext.unwrap (times (Ext.ring p g) q i1))) li) := by
        apply valid_of_degree_lt M hi1'w
        rw [hi1'e, degree_C_mul hli0']
        exact hsv.degree_lt M
      have hmod : toPoly (PL h32) rem =
          toPoly (PL h32) r0 - toPoly (PL h32) r1 * toPoly (PL h32) q := by
        rw [erem, eq, EuclideanDomain.mod_eq_sub_mul_div]
      apply ih _ _ _ _ h1 hr1'w hr1'mon hi1 hi1'v e1
      · -- (c·(i0 - q·i1))·x = c·(r0 - q·r1) = c·rem
        have ec : emb h32 g (scale (primeOps p) (UPoly.sub (primeOps p) i0
            (Ext.unwrap (times (Ext.ring p g) q i1))) li) =
            AdjoinRoot.mk (toPoly (PL h32) g) (C ((PL h32).embed li)) *
              (emb h32 g i0 - emb h32 g q * emb h32 g i1) := by
          rw [← hte, ← hse]; unfold emb; rw [hi1'e, map_mul]
        have er : emb h32 g (scale (primeOps p) rem li) =
            AdjoinRoot.mk (toPoly (PL h32) g) (C ((PL h32).embed li)) *
              (emb h32 g r0 - emb h32 g r1 * emb h32 g q) := by
          unfold emb; rw [hr1'e, hmod, map_mul, map_sub, map_mul]
        rw [ec, er, ← e0, ← e1]
        ring
      · rw [hr1'e, isCoprime_mul_unit_left_right (isUnit_C.2 (IsUnit.mk0 _ hli0')), hmod]
        have := (hcop.add_mul_left_left (-toPoly (PL h32) q)).symm
        rwa [mul_neg, ← sub_eq_add_neg] at this
      · rw [hr1'e, natDegree_C_mul hli0']
        have hlt : (toPoly (PL h32) rem).degree < (toPoly (PL h32) r1).degree := by
          rw [erem]; exact degree_mod_lt _ hne
        have := natDegree_lt_natDegree hrem0 hlt
        omega

theorem inv_zero (M : Modulus h32 n g) {a : UPoly Nat} (ha : Valid h32 n a)
    (h0 : emb h32 g a = 0) : Ext.inv p g a = none := by
  unfold Ext.inv
  simp only []
  rw [if_pos ((isZero_iff_emb M ha).2 h0)]

/-- `Inv` returns the inverse of every nonzero element (`g` irreducible) -/
theorem inv_spec (M : Modulus h32 n g) (hirr : Irreducible (toPoly (PL h32) g)) {a : UPoly Nat}
    (ha : Valid h32 n a) (h0 : emb h32 g a ≠ 0) :
    ∃ i, Ext.inv p g a = some i ∧ Valid h32 n i ∧ emb h32 g i * emb h32 g a = 1 := by
  unfold Ext.inv
  simp only []
  rw [if_neg (fun h => h0 ((isZero_iff_emb M ha).1 h))]
  by_cases h1 : UPoly.isOne (primeOps p) a = true
  · rw [if_pos h1]
    have := (isOne_iff_emb M ha).1 h1
    exact ⟨a, rfl, ha, by rw [this, one_mul]⟩
  · rw [if_neg h1]
    refine ⟨_, rfl, ?_⟩
    have ha0 : toPoly (PL h32) a ≠ 0 := fun h => h0 ((emb_eq_zero_iff M ha).2 h)
    obtain ⟨li, hli, hliv, hlie, hli0⟩ := lcInv_spec ha.1 ha0
    rw [hli, Option.getD_some]
    have hliv' : (PL h32).valid li := hliv
    have hlie' : (PL h32).embed li = ((toPoly (PL h32) a).leadingCoeff)⁻¹ := hlie
    have hli0' : (PL h32).embed li ≠ 0 := hli0
    obtain ⟨hr0w, hr0e⟩ := normalize_spec (PL h32) M.wf
    rw [M.monic.leadingCoeff, inv_one, C_1, one_mul] at hr0e
    obtain ⟨hr1w, hr1e⟩ := normalize_spec (PL h32) ha.1
    have hr1mon := normalize_monic (PL h32) ha.1 ha0
    obtain ⟨hi1v, hi1e⟩ := ofCoefs_singleton M hliv
    have hc0 : (C ((toPoly (PL h32) a).leadingCoeff)⁻¹ : (ZMod p)[X]) ≠ 0 := by
      rw [Ne, C_eq_zero]; exact inv_ne_zero (leadingCoeff_ne_zero.2 ha0)
    apply invLoop_spec M (emb h32 g a) (g.length + 2) _ _ _ _ hr0w hr1w hr1mon (valid_zero M) hi1v
    · rw [emb_zero, zero_mul]; unfold emb; rw [hr0e, AdjoinRoot.mk_self]
    · rw [hi1e]; unfold emb
      rw [hr1e, map_mul, AdjoinRoot.mk_C]
      congr 2
    · rw [hr0e, hr1e, hirr.coprime_iff_not_dvd]
      apply M.monic.not_dvd_of_degree_lt (mul_ne_zero hc0 ha0)
      rw [degree_C_mul (inv_ne_zero (leadingCoeff_ne_zero.2 ha0))]
      exact ha.degree_lt M
    · rw [hr1e, natDegree_C_mul (inv_ne_zero (leadingCoeff_ne_zero.2 ha0)), M.length_eq]
      have := length_eq_natDegree_succ (PL h32) ha.1
      have := ha.2
      omega

/-! ### 7. the `Lawful` instance -/

section Lawful
variable [hirr : Fact (Irreducible (toPoly (PL h32) g))]

/-- `extOps p n g` implements the field `F_p[X]/(g)` on the reduced well-formed lists. -/
noncomputable def extLawful (M : Modulus h32 n g) :
    Lawful (extOps p n g) (AdjoinRoot (toPoly (PL h32) g)) where
  embed := emb h32 g
  valid := Valid h32 n
  inj := fun _ _ ha hb h => emb_injective M ha hb h
  zero_valid := valid_zero M
  one_valid := valid_one M
  embed_zero := emb_zero
  embed_one := emb_one
  add_valid := fun _ _ ha hb => (add_spec M ha hb).1
  embed_add := fun _ _ ha hb => (add_spec M ha hb).2
  sub_valid := fun _ _ ha hb => (sub_spec M ha hb).1
  embed_sub := fun _ _ ha hb => (sub_spec M ha hb).2
  mul_valid := fun _ _ ha hb => (mul_spec M ha hb).1
  embed_mul := fun _ _ ha hb => (mul_spec M ha hb).2
  neg_valid := fun _ ha => (neg_spec M ha).1
  embed_neg := fun _ ha => (neg_spec M ha).2
  inv_some := fun a ha h0 => by
    obtain ⟨i, h1, h2, h3⟩ := inv_spec M hirr.out ha h0
    exact ⟨i, h1, h2, eq_inv_of_mul_eq_one_left h3⟩
  inv_none := fun _ ha h0 => inv_zero M ha h0
  isZero_iff := fun _ ha => isZero_iff_emb M ha
  isOne_iff := fun _ ha => isOne_iff_emb M ha
  beq_iff := fun _ _ ha hb => equal_iff_eq (PL h32) ha.1.1 hb.1.1

end Lawful

end Setting

/-! ### 8. the log table (C18): products and inverses through discrete logarithms -/

section Log
variable {G : Type*} [Monoid G]

/-- `invLog[(log x + log y) mod (q-1)] = x·y` for `invLog[i] = γ^i` -/
theorem log_mul {γ : G} {N : Nat} (hγ : orderOf γ = N) (s t : Nat) :
    γ ^ ((s + t) % N) = γ ^ s * γ ^ t := by
  rw [← hγ, pow_mod_orderOf, pow_add]

/-- `invLog[q-1-log x] = x⁻¹` -/
theorem log_inv {γ : G} {N : Nat} (hγ : orderOf γ = N) {s : Nat} (hs : s ≤ N) :
    γ ^ (N - s) * γ ^ s = 1 := by
  rw [← pow_add, Nat.sub_add_cancel hs, ← hγ, pow_orderOf_eq_one]

/-- every nonzero element of a finite field has a discrete logarithm to a primitive base -/
theorem log_exists {K : Type*} [Field K] [Fintype K] {γ : K}
    (hγ : orderOf γ = Fintype.card K - 1) {x : K} (hx : x ≠ 0) :
    ∃ s, s < Fintype.card K - 1 ∧ γ ^ s = x := by
  classical
  have hcard : 1 < Fintype.card K := Fintype.one_lt_card
  have hγ0 : γ ≠ 0 := by
    rintro rfl
    have h1 : (0 : K) ^ orderOf (0 : K) = 1 := pow_orderOf_eq_one 0
    rw [hγ, zero_pow (by omega)] at h1
    exact zero_ne_one h1
  let u : Kˣ := Units.mk0 γ hγ0
  have hu : orderOf u = Fintype.card Kˣ := by
    rw [← orderOf_units, Units.val_mk0, hγ, Fintype.card_units]
  have htop : Subgroup.zpowers u = ⊤ := by
    rw [← Subgroup.card_eq_iff_eq_top, Nat.card_zpowers, hu, Nat.card_eq_fintype_card]
  have hmem : Units.mk0 x hx ∈ Subgroup.zpowers u := htop ▸ Subgroup.mem_top _
  rw [← mem_powers_iff_mem_zpowers] at hmem
  obtain ⟨k, hk'⟩ := hmem
  have hk : γ ^ k = x := by
    have := congrArg Units.val hk'
    simpa [u] using this
  refine ⟨k % (Fintype.card K - 1), Nat.mod_lt _ (by omega), ?_⟩
  rw [← hγ, pow_mod_orderOf]
  exact hk

end Log

/-! ### a concrete field for non-vacuity: GF(9) = F_3[a]/(a² + 2a + 2) (the Conway polynomial) -/

section GF9

theorem h32_three : 3 - 1 < 2 ^ 32 := by norm_num

theorem toPoly_gf9 : toPoly (PL h32_three) [2, 2, 1] = X ^ 2 + (C 2 * X + C 2) := by
  simp only [toPoly_cons, toPoly_nil, primeLawfulFact_embed]
  simp only [Nat.cast_ofNat, Nat.cast_one, map_one]
  ring

theorem gf9_modulus : Modulus h32_three 2 [2, 2, 1] where
  wf := ⟨fun c hc => by
    have : c ∈ [2, 2, 1] := hc
    show c < 3
    revert c; decide, by unfold Canon; decide⟩
  monic := by
    rw [toPoly_gf9]
    exact monic_X_pow_add (lt_of_le_of_lt degree_linear_le (by decide))
  deg := by
    rw [toPoly_gf9]
    rw [natDegree_add_eq_left_of_degree_lt, natDegree_X_pow]
    rw [degree_X_pow]
    exact lt_of_le_of_lt degree_linear_le (by decide)
  npos := by decide

/-- `a² + 2a + 2` has no root in GF(3), hence is irreducible -/
theorem gf9_irreducible : Irreducible (toPoly (PL h32_three) [2, 2, 1]) := by
  apply irreducible_of_degree_le_three_of_not_isRoot
  · rw [gf9_modulus.deg]; decide
  · intro x
    rw [toPoly_gf9, IsRoot.def]
    simp only [eval_add, eval_mul, eval_pow, eval_X, eval_C]
    revert x; decide

theorem gf9_valid {a : UPoly Nat} (h1 : ∀ c ∈ a, c < 3) (h2 : Canon (primeOps 3) a)
    (h3 : a.length ≤ 2) : Valid h32_three 2 a := ⟨⟨h1, h2⟩, h3⟩

end GF9

end ExtField
end Algobra
