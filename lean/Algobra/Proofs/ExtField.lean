/-
  Proofs/ExtField.lean — extension fields GF(p^n) = F_p[a]/(g) (C01/C02/C18, extfield part).
  Elements are coefficient lists over `primeOps p` (`UPoly Nat`), the arithmetic is delegated to the
  univariate quotient ring `Ext.ring p g` (Model/Ext.lean, Model/UPoly.lean).
  Bridge: `emb h32 g a = AdjoinRoot.mk (toPoly L g) (toPoly L a)` with `L = primeLawfulFact p h32`;
  valid representations are the well-formed lists of length `≤ n` (degree `< n`).
-/
import Mathlib.RingTheory.AdjoinRoot
import Mathlib.FieldTheory.Finite.Basic
import Mathlib.FieldTheory.Finite.Trace
import Mathlib.Algebra.CharP.Lemmas
import Mathlib.Algebra.CharP.Algebra
import Mathlib.Algebra.Polynomial.SpecificDegree
import Algobra.Model.Ext
import Algobra.Proofs.UPolyDiv
import Algobra.Proofs.PrimeField
import Algobra.Proofs.BinField
import Algobra.Proofs.Define

open Polynomial

namespace Algobra
namespace ExtField
open UPoly

section Setting
variable {p : Nat} [Fact p.Prime] (h32 : p - 1 < 2 ^ 32)

/-- the lawful prime-field record the extension field is built on (C01, prime part) -/
noncomputable abbrev PL : Lawful (primeOps p) (ZMod p) := primeLawfulFact p h32

/-- the modulus of an extension field of degree `n`: a well-formed monic list of degree `n ≥ 1` -/
structure Modulus (n : Nat) (g : List Nat) : Prop where
  wf : WF (PL h32) g
  monic : (toPoly (PL h32) g).Monic
  deg : (toPoly (PL h32) g).natDegree = n
  npos : 1 ≤ n

/-- valid representations: well-formed coefficient lists of length `≤ n` (degree `< n`) -/
def Valid (n : Nat) (a : UPoly Nat) : Prop := WF (PL h32) a ∧ a.length ≤ n

/-- the class of `a` in `F_p[X]/(g)` -/
noncomputable def emb (g a : UPoly Nat) : AdjoinRoot (toPoly (PL h32) g) :=
  AdjoinRoot.mk (toPoly (PL h32) g) (toPoly (PL h32) a)

variable {h32} {n : Nat} {g : List Nat}

theorem Modulus.isQuot (M : Modulus h32 n g) : IsQuot (Ext.ring p g) (PL h32) g :=
  ⟨rfl, M.wf, M.monic, by rw [M.deg]; exact M.npos⟩

theorem Modulus.degree_eq (M : Modulus h32 n g) : (toPoly (PL h32) g).degree = (n : WithBot ℕ) := by
  rw [degree_eq_natDegree M.monic.ne_zero, M.deg]

theorem Modulus.length_eq (M : Modulus h32 n g) : g.length = n + 1 := by
  rw [length_eq_natDegree_succ _ M.wf, M.deg]

/-- length `≤ n` is degree `< deg g` -/
theorem length_le_iff_degree_lt (M : Modulus h32 n g) {a : UPoly Nat} (ha : WF (PL h32) a) :
    a.length ≤ n ↔ (toPoly (PL h32) a).degree < (toPoly (PL h32) g).degree := by
  rw [M.degree_eq, length_eq_natDegree_succ _ ha]
  by_cases h0 : toPoly (PL h32) a = 0
  · rw [h0, degree_zero, natDegree_zero]
    exact ⟨fun _ => WithBot.bot_lt_coe _, fun _ => M.npos⟩
  · rw [degree_eq_natDegree h0]
    constructor
    · intro h; exact_mod_cast (by omega : (toPoly (PL h32) a).natDegree < n)
    · intro h
      have : (toPoly (PL h32) a).natDegree < n := by exact_mod_cast h
      omega

theorem Valid.degree_lt (M : Modulus h32 n g) {a : UPoly Nat} (ha : Valid h32 n a) :
    (toPoly (PL h32) a).degree < (toPoly (PL h32) g).degree :=
  (length_le_iff_degree_lt M ha.1).1 ha.2

theorem valid_of_degree_lt (M : Modulus h32 n g) {a : UPoly Nat} (ha : WF (PL h32) a)
    (hd : (toPoly (PL h32) a).degree < (toPoly (PL h32) g).degree) : Valid h32 n a :=
  ⟨ha, (length_le_iff_degree_lt M ha).2 hd⟩

theorem valid_iff (M : Modulus h32 n g) (a : UPoly Nat) :
    Valid h32 n a ↔ WF (PL h32) a ∧ (toPoly (PL h32) a).degree < (toPoly (PL h32) g).degree :=
  ⟨fun h => ⟨h.1, h.degree_lt M⟩, fun h => valid_of_degree_lt M h.1 h.2⟩

/-! ### the quotient map and remainders -/

theorem mk_modByMonic {G : (ZMod p)[X]} (f : (ZMod p)[X]) :
    AdjoinRoot.mk G (f %ₘ G) = AdjoinRoot.mk G f :=
  AdjoinRoot.mk_eq_mk.2 (dvd_modByMonic_sub f G)

theorem emb_eq_iff {a b : UPoly Nat} :
    emb h32 g a = emb h32 g b ↔ toPoly (PL h32) g ∣ toPoly (PL h32) a - toPoly (PL h32) b :=
  AdjoinRoot.mk_eq_mk

theorem emb_eq_mk_iff {a : UPoly Nat} {f : (ZMod p)[X]} :
    emb h32 g a = AdjoinRoot.mk (toPoly (PL h32) g) f ↔
      toPoly (PL h32) g ∣ toPoly (PL h32) a - f :=
  AdjoinRoot.mk_eq_mk

theorem valid_zero (M : Modulus h32 n g) : Valid h32 n [0] :=
  ⟨wf_zero (PL h32), M.npos⟩

theorem emb_zero : emb h32 g [0] = 0 := by
  unfold emb
  rw [show ([0] : UPoly Nat) = zero (primeOps p) from rfl, toPoly_zero, map_zero]

theorem valid_one (M : Modulus h32 n g) : Valid h32 n [1 % p] :=
  ⟨wf_one (PL h32), M.npos⟩

theorem emb_one : emb h32 g [1 % p] = 1 := by
  unfold emb
  rw [show ([1 % p] : UPoly Nat) = one (primeOps p) from rfl, toPoly_one, map_one]

/-! ### 1. `add`, `sub`, `neg`, `mul` -/

theorem add_spec (M : Modulus h32 n g) {a b : UPoly Nat} (ha : Valid h32 n a)
    (hb : Valid h32 n b) :
    Valid h32 n (UPoly.add (primeOps p) a b) ∧
      emb h32 g (UPoly.add (primeOps p) a b) = emb h32 g a + emb h32 g b := by
  have e := toPoly_add (PL h32) ha.1 hb.1.1
  refine ⟨valid_of_degree_lt M (add_wf (PL h32) ha.1 hb.1.1) ?_, ?_⟩
  · rw [e]
    exact lt_of_le_of_lt (degree_add_le _ _) (max_lt (ha.degree_lt M) (hb.degree_lt M))
  · unfold emb; rw [e, map_add]

theorem sub_spec (M : Modulus h32 n g) {a b : UPoly Nat} (ha : Valid h32 n a)
    (hb : Valid h32 n b) :
    Valid h32 n (UPoly.sub (primeOps p) a b) ∧
      emb h32 g (UPoly.sub (primeOps p) a b) = emb h32 g a - emb h32 g b := by
  have e := toPoly_sub (PL h32) ha.1 hb.1.1
  refine ⟨valid_of_degree_lt M (sub_wf (PL h32) ha.1 hb.1.1) ?_, ?_⟩
  · rw [e]
    exact lt_of_le_of_lt (degree_sub_le _ _) (max_lt (ha.degree_lt M) (hb.degree_lt M))
  · unfold emb; rw [e, map_sub]

theorem neg_spec (M : Modulus h32 n g) {a : UPoly Nat} (ha : Valid h32 n a) :
    Valid h32 n (UPoly.neg (primeOps p) a) ∧
      emb h32 g (UPoly.neg (primeOps p) a) = - emb h32 g a := by
  have e := toPoly_neg (PL h32) ha.1.1
  refine ⟨valid_of_degree_lt M (neg_wf (PL h32) ha.1) ?_, ?_⟩
  · rw [e, degree_neg]; exact ha.degree_lt M
  · unfold emb; rw [e, map_neg]

/-- the ring product of the quotient ring, unwrapped -/
theorem times_unwrap (M : Modulus h32 n g) {b c : UPoly Nat} (hb : AllValid (PL h32) b)
    (hc : AllValid (PL h32) c) :
    Valid h32 n (Ext.unwrap (UPoly.times (Ext.ring p g) b c)) ∧
      emb h32 g (Ext.unwrap (UPoly.times (Ext.ring p g) b c)) = emb h32 g b * emb h32 g c := by
  obtain ⟨r, h1, h2, h3, h4⟩ := UPoly.times_spec M.isQuot hb hc
  rw [h1]
  refine ⟨valid_of_degree_lt M h2 h4, ?_⟩
  show emb h32 g r = _
  unfold emb
  rw [h3, mk_modByMonic, map_mul]

theorem mul_spec (M : Modulus h32 n g) {b c : UPoly Nat} (hb : Valid h32 n b)
    (hc : Valid h32 n c) :
    Valid h32 n (Ext.mul p g b c) ∧ emb h32 g (Ext.mul p g b c) = emb h32 g b * emb h32 g c := by
  unfold Ext.mul
  simp only []
  split
  · next hz =>
    refine ⟨valid_zero M, ?_⟩
    rw [emb_zero]
    rw [Bool.or_eq_true] at hz
    rcases hz with hz | hz
    · have : emb h32 g b = 0 := by
        unfold emb; rw [(UPoly.isZero_iff (PL h32) hb.1).1 hz, map_zero]
      rw [this, zero_mul]
    · have : emb h32 g c = 0 := by
        unfold emb; rw [(UPoly.isZero_iff (PL h32) hc.1).1 hz, map_zero]
      rw [this, mul_zero]
  · exact times_unwrap M hb.1.1 hc.1.1

/-! ### 2. canonical representatives -/

theorem emb_injective (M : Modulus h32 n g) {a b : UPoly Nat} (ha : Valid h32 n a)
    (hb : Valid h32 n b) (h : emb h32 g a = emb h32 g b) : a = b :=
  reduced_unique' M ha hb h
where
  reduced_unique' (M : Modulus h32 n g) {a b : UPoly Nat} (ha : Valid h32 n a)
      (hb : Valid h32 n b) (h : emb h32 g a = emb h32 g b) : a = b :=
    toPoly_injective_on_WF (PL h32) ha.1 hb.1
      ((equal_iff (PL h32) ha.1 hb.1).1
        ((equal_iff_dvd_sub (PL h32) ha.1 hb.1 (ha.degree_lt M) (hb.degree_lt M)).2
          (emb_eq_iff.1 h)))

theorem equal_iff_emb (M : Modulus h32 n g) {a b : UPoly Nat} (ha : Valid h32 n a)
    (hb : Valid h32 n b) :
    UPoly.equal (primeOps p) a b = true ↔ emb h32 g a = emb h32 g b := by
  rw [equal_iff_dvd_sub (PL h32) ha.1 hb.1 (ha.degree_lt M) (hb.degree_lt M), emb_eq_iff]

theorem emb_eq_zero_iff (M : Modulus h32 n g) {a : UPoly Nat} (ha : Valid h32 n a) :
    emb h32 g a = 0 ↔ toPoly (PL h32) a = 0 := by
  constructor
  · intro h
    by_contra h0
    exact AdjoinRoot.mk_ne_zero_of_degree_lt M.monic h0 (ha.degree_lt M) h
  · intro h; unfold emb; rw [h, map_zero]

theorem isZero_iff_emb (M : Modulus h32 n g) {a : UPoly Nat} (ha : Valid h32 n a) :
    UPoly.isZero (primeOps p) a = true ↔ emb h32 g a = 0 := by
  rw [UPoly.isZero_iff (PL h32) ha.1, emb_eq_zero_iff M ha]

theorem isOne_iff_emb (M : Modulus h32 n g) {a : UPoly Nat} (ha : Valid h32 n a) :
    UPoly.isOne (primeOps p) a = true ↔ emb h32 g a = 1 := by
  rw [UPoly.isOne_iff (PL h32) ha.1]
  constructor
  · intro h; unfold emb; rw [h, map_one]
  · intro h
    rw [← emb_one] at h
    have := emb_injective M ha (valid_one M) h
    rw [this]
    exact toPoly_one (PL h32)

end Setting

end ExtField
end Algobra
