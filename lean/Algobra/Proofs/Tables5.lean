import Algobra.Proofs.Tables4
import Algobra.Proofs.ExtField
import Algobra.Model.Extra

namespace Algobra
namespace Tables
open UPoly

/-! ## `Ext.parse` returns valid elements -/
section ExtParse
variable {p : Nat} [hpf : Fact p.Prime] {h32 : p - 1 < 2 ^ 32} {n : Nat} {g : List Nat}

theorem foldl_setCoef_wf (m : List (Nat × Nat)) (hm : AllM (· < p) m) :
    ∀ f, WF (ExtField.PL h32) f →
      WF (ExtField.PL h32) (m.foldl (fun f (x : Nat × Nat) => setCoef (primeOps p) f x.1 x.2) f) := by
  induction m with
  | nil => intro f hf; exact hf
  | cons x t ih =>
    intro f hf
    exact ih (fun y hy => hm y (List.mem_cons_of_mem _ hy)) _
      (setCoef_wf (ExtField.PL h32) hf x.1 (hm x List.mem_cons_self))

/-- `PolynomialFromString` in the ring `F_p[a]/(g)` of an extension field: every successful result
    is a valid element -/
theorem uparse_ext_valid (M : ExtField.Modulus h32 n g) (s : String) (o : Option (UPoly Nat))
    (ho : UPoly.parse (Ext.ring p g) s = .ok o) : ∃ f, o = some f ∧ ExtField.Valid h32 n f := by
  have hp : p.Prime := hpf.out
  have hC : Closed (primeOps p) (· < p) := closed_of_facts (Assemble.prime_field p h32)
  obtain ⟨-, hv⟩ := ustringToMap_par (OpsAgree.refl (primeOps p) (· < p)) hC
    (fun str v h => prime_parse_lt hp.pos h32 h) "a" s
  unfold UPoly.parse at ho
  have hF : (Ext.ring p g).F = primeOps p := rfl
  have hn : (Ext.ring p g).varName = "a" := rfl
  rw [hF, hn] at ho
  cases hm : stringToMap (primeOps p) "a" s with
  | error k => rw [hm] at ho; cases ho
  | ok m =>
    rw [hm] at ho
    have hwf := foldl_setCoef_wf (h32 := h32) m (hv m hm) _ (wf_zero (ExtField.PL h32))
    obtain ⟨f', h1, h2, -, h4⟩ := reduceIn_spec M.isQuot hwf
    injection ho with ho
    refine ⟨f', ?_, ExtField.valid_of_degree_lt M h2 h4⟩
    rw [← ho]
    exact h1

theorem ext_parse_valid (M : ExtField.Modulus h32 n g) (s : String) (v : UPoly Nat)
    (hv : (extOps p n g).parse s = .ok v) : ExtField.Valid h32 n v := by
  have hv' : Ext.parse p g s = .ok v := hv
  unfold Ext.parse at hv'
  cases ho : UPoly.parse (Ext.ring p g) s with
  | error k => rw [ho] at hv'; cases hv'
  | ok o =>
    obtain ⟨f, rfl, hf⟩ := uparse_ext_valid M s o ho
    rw [ho] at hv'
    cases hv'
    exact hf

end ExtParse

/-! ## the driver-level operations of Model/Extra.lean -/
section Extra
variable {α : Type} {env env' : Env α} {V : Nat → α → Prop} (h : EnvAgreeB env env' V)
include h

theorem escrOp_agree (st : St α) (f : Nat) : escrOp env' st f = escrOp env st f := by
  unfold escrOp; rw [(h.u.base.agree f).card]

theorem tcheckOp_agree (st : St α) (f : Nat) : tcheckOp env' st f = tcheckOp env st f := by
  unfold tcheckOp; rw [(h.u.base.agree f).card]

theorem quotient1Op_agree (st : St α) (n : Nat) : quotient1Op env' st n = quotient1Op env st n := by
  unfold quotient1Op bring; rw [h.bring']; rfl

theorem quotient2Op_agree (desc : FieldDesc) {st : St α} (hs : StoreOK4 V st) (n : Nat) :
    quotient2Op env' desc st n = quotient2Op env desc st n := by
  unfold quotient2Op
  rw [(step_full_agree h desc hs (.iXform "quotient" n) rfl).1]

theorem quotientGens_V (o : Order) {id : BPoly.Ideal α} (hid : B.AllMM (V 0) id.gens) :
    B.OptMM (V 0) (BPoly.quotientGens (env.fld 0) o id) := by
  have A := h.u.base.agree 0
  have C := h.u.base.closed 0
  unfold BPoly.quotientGens
  obtain ⟨-, hv⟩ := B.groebnerBasis_par A C o hid
  split
  · exact fun l hl => by cases hl; exact hid
  · cases hg : id.groebnerBasis (env.fld 0) o with
    | none => exact fun l hl => by cases hl
    | some gb =>
      obtain ⟨-, hv2⟩ := B.reduceBasis_par A C o (hv gb hg)
      cases hr : gb.reduceBasis (env.fld 0) o with
      | none => exact fun l hl => by dsimp only at hl; rw [hr] at hl; cases hl
      | some r => exact fun l hl => by dsimp only at hl; rw [hr] at hl; cases hl; exact hv2 r hr

/-- `quotient iN`: same store, same remembered generators, same reply; store and remembered
    generators stay valid -/
theorem quotientOp_agree (desc : FieldDesc) {stq : St α × Option (List (BPoly α))}
    (hs : StoreOK4 V stq.1) (hq : B.OptMM (V 0) stq.2) (n : Nat) :
    quotientOp env' desc stq n = quotientOp env desc stq n ∧
      StoreOK4 V (quotientOp env desc stq n).1.1 ∧ B.OptMM (V 0) (quotientOp env desc stq n).1.2 := by
  obtain ⟨e, hv⟩ := step_full_agree h desc hs (.iXform "quotient" n) rfl
  unfold quotientOp
  simp only [F0, bord_eq h]
  rw [e, B.quotientGens_congr (h.u.base.agree 0) (h.u.base.closed 0) (bord env 0) (iGet_ok hs n)]
  refine ⟨rfl, hv, ?_⟩
  split
  · exact quotientGens_V h _ (iGet_ok hs n)
  · exact hq


/-- `qK=embed@3 src:r` into the ring remembered by the last `quotient` (valid generators `gs`) -/
theorem embedQOp_agree {st : St α} (hs : StoreOK4 V st) {gs : List (BPoly α)}
    (hgs : B.AllMM (V 0) gs) (dst src : Nat) (reduce : Bool) :
    embedQOp env' st gs dst src reduce = embedQOp env st gs dst src reduce ∧
      StoreOK4 V (embedQOp env st gs dst src reduce).1 := by
  have A := h.u.base.agree 0
  have C := h.u.base.closed 0
  have ha := bGet_ok hs.1 src
  have hR : B.BRingOK (env.fld 0) (V 0) ({ bring env 0 with ideal := some gs } : BPoly.Ring α) :=
    ⟨(h.bringOK 0).hF, fun l hl => by cases hl; exact hgs⟩
  have hR' : ({ bring env' 0 with ideal := some gs } : BPoly.Ring α)
      = B.withFB { bring env 0 with ideal := some gs } (env'.fld 0) := by
    unfold bring; rw [h.bring']; rfl
  obtain ⟨e, hv⟩ := B.reduceIn_par A C hR ha
  unfold embedQOp
  dsimp only
  rw [hR', e]
  split
  · exact ⟨rfl, hs⟩
  · have hv' : B.OptM (V 0) (if reduce = true
        then BPoly.reduceIn { bring env 0 with ideal := some gs } (bGet st src).val
        else some (bGet st src).val) := by
      split
      · exact hv
      · exact fun v hv => by cases hv; exact ha
    generalize (if reduce = true
        then BPoly.reduceIn { bring env 0 with ideal := some gs } (bGet st src).val
        else some (bGet st src).val) = res at hv' ⊢
    cases res with
    | none => exact ⟨rfl, hs⟩
    | some v =>
      obtain ⟨e2, hv2⟩ := putB h hs.1 dst (r := { home := 3, val := v, err := (bGet st src).err })
        rfl (hv' v rfl) "ok "
      exact ⟨e2, hv2, hs.2⟩

theorem uRingExists_eq (i : Nat) : uRingExists env' i = uRingExists env i := by
  unfold uRingExists uring; rw [h.u.ring', h.u.ring']; rfl

/-- `uquot@k j:gens` (generators with valid coefficients) -/
theorem uquotOp_agree (st : St α) (k j : Nat) {gens : List (UPoly α)} (hg : AllVV (V 0) gens) :
    uquotOp env' st k j gens = uquotOp env st k j gens := by
  have A : OpsAgree (F0 env) (F0 env') (V 0) := h.u.base.agree 0
  have C : Closed (F0 env) (V 0) := h.u.base.closed 0
  unfold uquotOp
  rw [uRingExists_eq h, uRingExists_eq h, (newIdeal_par A C hg).1]
  simp only [isZero_congr A]

/-- `uireduce j:gens pK` -/
theorem uireduceOp_agree {st : St α} (hs : StoreOK4 V st) (j : Nat) {gens : List (UPoly α)}
    (hg : AllVV (V 0) gens) (k : Nat) :
    uireduceOp env' st j gens k = uireduceOp env st j gens k ∧
      StoreOK4 V (uireduceOp env st j gens k).1 := by
  have A : OpsAgree (F0 env) (F0 env') (V 0) := h.u.base.agree 0
  have C : Closed (F0 env) (V 0) := h.u.base.closed 0
  have hp := uGet_ok h.u hs.1.1 k
  obtain ⟨e, hv⟩ := newIdeal_par A C hg
  unfold uireduceOp
  dsimp only
  rw [uGet_eq h.u, e]
  cases hn : UPoly.newIdeal (F0 env) gens with
  | none => exact ⟨rfl, hs⟩
  | some g =>
    obtain ⟨e2, hv2⟩ := reduce_par A C (hv g hn) hp
    dsimp only
    rw [isZero_congr A, e2]
    split_ifs with c1 c2 c3
    · exact ⟨rfl, hs⟩
    · exact ⟨rfl, hs⟩
    · exact ⟨rfl, hs⟩
    · cases hr : UPoly.reduce (F0 env) g (uGet env st k).val with
      | none => exact ⟨rfl, hs⟩
      | some v =>
        obtain ⟨e3, hv3⟩ := putU h.u hs.1.1 k (r := { (uGet env st k) with val := v }) rfl
          (hv2 v hr) "ok "
        exact ⟨e3, ⟨hv3, hs.1.2⟩, hs.2⟩

/-- `qK=spoly qA qB` -/
theorem spolyOp_agree {st : St α} (hs : StoreOK4 V st) (dst a b : Nat) :
    spolyOp env' st dst a b = spolyOp env st dst a b ∧ StoreOK4 V (spolyOp env st dst a b).1 := by
  have A := h.u.base.agree 0
  have C := h.u.base.closed 0
  have ha := bGet_ok hs.1 a
  have hb := bGet_ok hs.1 b
  obtain ⟨e, hv⟩ := B.sPoly_par A C (bord env (bGet st a).home) ha hb
  unfold spolyOp
  simp only [F0, bord_eq h, bring]
  rw [e, h.bring']
  cases hc : bCheck (bGet st a) [bGet st b] with
  | some rb => exact ⟨rfl, hs⟩
  | none =>
    dsimp only
    split_ifs with c1
    · exact ⟨rfl, hs⟩
    · cases hsp : BPoly.sPoly (env.fld 0) (bord env (bGet st a).home) (bGet st a).val (bGet st b).val with
      | none => exact ⟨rfl, hs⟩
      | some sp =>
        obtain ⟨e2, hv2⟩ := B.reduceIn_par A C (h.bringOK (bGet st a).home) (hv sp hsp)
        dsimp only
        rw [e2]
        cases hr : BPoly.reduceIn (env.bring (bGet st a).home) sp with
        | none => exact ⟨rfl, hs⟩
        | some v =>
          obtain ⟨e3, hv3⟩ := putB h hs.1 dst (r := { home := (bGet st a).home, val := v }) rfl
            (hv2 v hr) "ok "
          exact ⟨e3, hv3, hs.2⟩


/-- `ireduce iN qK` -/
theorem ireduceOp_agree {st : St α} (hs : StoreOK4 V st) (n k : Nat) :
    ireduceOp env' st n k = ireduceOp env st n k ∧ StoreOK4 V (ireduceOp env st n k).1 := by
  have A : OpsAgree (F0 env) (F0 env') (V 0) := h.u.base.agree 0
  have C : Closed (F0 env) (V 0) := h.u.base.closed 0
  have hid := iGet_ok hs n
  have hf := bGet_ok hs.1 k
  obtain ⟨e, hv⟩ := B.isGroebnerQ_par A C (bord env 0) hid
  unfold ireduceOp
  dsimp only
  rw [bord_eq h, e]
  cases hq : (iGet st n).isGroebnerQ (F0 env) (bord env 0) with
  | none => exact ⟨rfl, hs⟩
  | some r =>
    obtain ⟨id1, isG⟩ := r
    have hid1 : B.AllMM (V 0) id1.gens := hv _ hq
    have hs1 : StoreOK4 V { st with ids := St.setL st.ids n id1 } := hs.setI n id1 hid1
    obtain ⟨e2, hv2⟩ := B.groebnerBasis_par A C (bord env 0) hid1
    dsimp only
    rw [e2]
    have hgb : ∀ gb, (if isG = true then some id1 else id1.groebnerBasis (F0 env) (bord env 0))
        = some gb → B.AllMM (V 0) gb.gens := by
      intro gb hgb
      split at hgb
      · cases hgb; exact hid1
      · exact hv2 gb hgb
    generalize (if isG = true then some id1 else id1.groebnerBasis (F0 env) (bord env 0)) = res
      at hgb ⊢
    cases res with
    | none => exact ⟨rfl, hs1⟩
    | some gb =>
      obtain ⟨e3, hv3⟩ := B.rem_par A C (bord env 0) BPoly.divFuel hf (hgb gb rfl)
      dsimp only
      rw [e3]
      split_ifs with c1 c2
      · exact ⟨rfl, hs1⟩
      · exact ⟨rfl, hs1⟩
      · cases hr : BPoly.rem (F0 env) (bord env 0) BPoly.divFuel (bGet st k).val gb.gens with
        | error ek => exact ⟨rfl, hs1⟩
        | ok o =>
          cases o with
          | none => exact ⟨rfl, hs1⟩
          | some v =>
            obtain ⟨e4, hv4⟩ := putB h hs1.1 k (r := { (bGet st k) with val := v }) rfl
              (hv3 v hr) "ok "
            exact ⟨e4, hv4, hs1.2⟩


omit h in
theorem hornerGen_par {F F' : FOps α} {W : α → Prop} (hA : OpsAgree F F' W) (hC : Closed F W) :
    ∀ (cs : List α), AllV W cs → hornerGen F' cs = hornerGen F cs ∧ W (hornerGen F cs) := by
  intro cs
  induction cs with
  | nil => intro _; exact ⟨hA.zero, hC.zero⟩
  | cons c t ih =>
    intro hcs
    obtain ⟨e, hv⟩ := ih (fun x hx => hcs x (List.mem_cons_of_mem _ hx))
    have hc := hcs c List.mem_cons_self
    have e' : hornerGen F' (c :: t) = F'.add (F'.mul (hornerGen F' t) F'.gen) c := rfl
    have e'' : hornerGen F (c :: t) = F.add (F.mul (hornerGen F t) F.gen) c := rfl
    rw [e', e'', e, hA.gen, hA.mul _ _ hv hC.gen, hA.add _ _ (hC.mul _ _ hv hC.gen) hc]
    exact ⟨rfl, hC.add _ _ (hC.mul _ _ hv hC.gen) hc⟩

theorem anyRewrite_eq (desc : FieldDesc) (dst idx : Nat) (op a0 : String) :
    anyRewrite env' desc dst idx op a0 = anyRewrite env desc dst idx op a0 := by
  have A := h.u.base.agree idx
  have C := h.u.base.closed idx
  have h1 : AllV (V idx) ((anyItems a0).map fun t => (env.fld idx).ofNat t.toNat!) := by
    intro c hc; obtain ⟨t, _, rfl⟩ := List.mem_map.1 hc; exact h.u.ofNat idx _
  have h2 : AllV (V idx) ((anyItems a0).map fun t => (env.fld idx).ofInt (parseInt t)) := by
    intro c hc; obtain ⟨t, _, rfl⟩ := List.mem_map.1 hc; exact h.u.ofInt idx _
  unfold anyRewrite
  dsimp only
  rw [A.enc, A.ofNat, A.ofInt, (hornerGen_par A C _ h1).1, (hornerGen_par A C _ h2).1]

/-- `eN=any…@f arg`.  For the slice forms (`anysl`, `anyisl`, extension fields only) the model
    goes through the raw decoder `eCtor … "enc"` applied to the ENCODING of a valid element; the
    store stays valid provided decoding an encoded valid element gives a valid element (`hdec`). -/
theorem anyOp_agree (desc : FieldDesc) {st : St α} (hs : StoreOK4 V st)
    (hdec : ∀ i x v, V i x → (env.fld i).dec ((env.fld i).enc x) = some v → V i v)
    (dst idx : Nat) (op a0 : String) :
    anyOp env' desc st dst idx op a0 = anyOp env desc st dst idx op a0 ∧
      StoreOK4 V (anyOp env desc st dst idx op a0).1 := by
  have A := h.u.base.agree idx
  have C := h.u.base.closed idx
  unfold anyOp
  rw [anyRewrite_eq h]
  have enc_case : ∀ x, V idx x →
      step env' desc st (.eCtor dst idx "enc" ((env.fld idx).enc x))
        = step env desc st (.eCtor dst idx "enc" ((env.fld idx).enc x)) ∧
      StoreOK4 V (step env desc st (.eCtor dst idx "enc" ((env.fld idx).enc x))).1 := by
    intro x hx
    simp only [step, stepE, String.reduceBEq, Bool.false_eq_true, if_false, if_true, fld]
    rw [A.dec]
    cases hd : (env.fld idx).dec ((env.fld idx).enc x) with
    | none => exact ⟨rfl, hs⟩
    | some v =>
      obtain ⟨e, hv⟩ := putE h.u hs.1.1 dst (r := { home := idx, val := v }) rfl
        (hdec idx x v hx hd) "ok "
      exact ⟨e, ⟨hv, hs.1.2⟩, hs.2⟩
  unfold anyRewrite
  dsimp only
  split_ifs with c1 c2 c3 c4 c5
  · exact step_full_agree h desc hs _ rfl
  · exact step_full_agree h desc hs _ rfl
  · exact step_full_agree h desc hs _ rfl
  · exact enc_case _ (hornerGen_par A C _ (fun c hc => by
      obtain ⟨t, _, rfl⟩ := List.mem_map.1 hc; exact h.u.ofNat idx _)).2
  · exact enc_case _ (hornerGen_par A C _ (fun c hc => by
      obtain ⟨t, _, rfl⟩ := List.mem_map.1 hc; exact h.u.ofInt idx _)).2
  · exact ⟨rfl, hs⟩

end Extra
end Tables
end Algobra
