import Algobra.Proofs.Tables4
import Algobra.Proofs.ExtField

namespace Algobra
namespace Tables
open UPoly

/-! ## `Ext.parse` returns valid elements -/
section ExtParse
variable {p : Nat} [hpf : Fact p.Prime] {h32 : p - 1 < 2 ^ 32} {n : Nat} {g : List Nat}

theorem foldl_setCoef_wf (m : List (Nat × Nat)) (hm : AllM (· < p) m) :
    ∀ f, WF (ExtField.PL h32) f →
      WF (ExtField.PL h32) (m.foldl (fun f (x : Nat × Nat) => setCoef (primeOps p) f x.1 x.2) f) := by
  induction m with
  | nil => intro f hf; exact hf
  | cons x t ih =>
    intro f hf
    exact ih (fun y hy => hm y (List.mem_cons_of_mem _ hy)) _
      (setCoef_wf (ExtField.PL h32) hf x.1 (hm x List.mem_cons_self))

/-- `PolynomialFromString` in the ring `F_p[a]/(g)` of an extension field: every successful result
    is a valid element -/
theorem uparse_ext_valid (M : ExtField.Modulus h32 n g) (s : String) (o : Option (UPoly Nat))
    (ho : UPoly.parse (Ext.ring p g) s = .ok o) : ∃ f, o = some f ∧ ExtField.Valid h32 n f := by
  have hp : p.Prime := hpf.out
  have hC : Closed (primeOps p) (· < p) := closed_of_facts (Assemble.prime_field p h32)
  obtain ⟨-, hv⟩ := ustringToMap_par (OpsAgree.refl (primeOps p) (· < p)) hC
    (fun str v h => prime_parse_lt hp.pos h32 h) "a" s
  unfold UPoly.parse at ho
  have hF : (Ext.ring p g).F = primeOps p := rfl
  have hn : (Ext.ring p g).varName = "a" := rfl
  rw [hF, hn] at ho
  cases hm : stringToMap (primeOps p) "a" s with
  | error k => rw [hm] at ho; cases ho
  | ok m =>
    rw [hm] at ho
    have hwf := foldl_setCoef_wf (h32 := h32) m (hv m hm) _ (wf_zero (ExtField.PL h32))
    obtain ⟨f', h1, h2, -, h4⟩ := reduceIn_spec M.isQuot hwf
    injection ho with ho
    refine ⟨f', ?_, ExtField.valid_of_degree_lt M h2 h4⟩
    rw [← ho]
    exact h1

theorem ext_parse_valid (M : ExtField.Modulus h32 n g) (s : String) (v : UPoly Nat)
    (hv : (extOps p n g).parse s = .ok v) : ExtField.Valid h32 n v := by
  have hv' : Ext.parse p g s = .ok v := hv
  unfold Ext.parse at hv'
  cases ho : UPoly.parse (Ext.ring p g) s with
  | error k => rw [ho] at hv'; cases hv'
  | ok o =>
    obtain ⟨f, rfl, hf⟩ := uparse_ext_valid M s o ho
    rw [ho] at hv'
    cases hv'
    exact hf

end ExtParse
end Tables
end Algobra
