/-
  Proofs/ParseRTCoef.lean — the coefficient scanner `Parse.scanCoefNamed` on printed elements of
  fields with their own variable (binary and extension fields): a printed element is a " + "-joined
  list of terms `digits* (W (^digits+)?)?`; the scanner consumes exactly one such term, or a
  parenthesised list of them.  Helper file of `Props/C15Full.lean`.
-/
import Algobra.Proofs.ParseRTPoly
import Algobra.Proofs.Auxmath

namespace Algobra.ParseRT
open Algobra Algobra.Strings Algobra.Parse Algobra.Regex

/-! ### joined lists of character lists -/

def joinC : List Cs → Cs
  | [] => []
  | [t] => t
  | t :: u :: ts => t ++ ' ' :: '+' :: ' ' :: joinC (u :: ts)

def restC (ts : List Cs) : Cs := if ts = [] then [] else ' ' :: '+' :: ' ' :: joinC ts

theorem joinC_cons (t : Cs) (ts : List Cs) : joinC (t :: ts) = t ++ restC ts := by
  cases ts <;> simp [joinC, restC]

theorem intercalate_toList (l : List String) :
    (" + ".intercalate l).toList = joinC (l.map String.toList) := by
  induction l with
  | nil => simp [joinC]
  | cons s l ih =>
    cases l with
    | nil => simp [joinC]
    | cons u t =>
      have : (" + ".intercalate (s :: u :: t)).toList =
          s.toList ++ ' ' :: '+' :: ' ' :: (" + ".intercalate (u :: t)).toList := by simp
      rw [this, ih]; rfl

/-! ### terms -/

/-- a term of a printed element over the variable `W` -/
def NTerm (W t : Cs) : Prop :=
  ∃ D V, (∀ c ∈ D, c.isDigit = true) ∧ t = D ++ V ∧
    ((V = [] ∧ D ≠ []) ∨ V = W ∨
      ∃ E, E ≠ [] ∧ (∀ c ∈ E, c.isDigit = true) ∧ V = W ++ '^' :: E)

theorem digit_facts {c : Char} (h : c.isDigit = true) :
    isWs c = false ∧ isSign c = false ∧ c ≠ '(' ∧ isParen c = false := by
  have := alnum_forall (P := fun y => y.isDigit = true →
      (isWs y = false ∧ isSign y = false ∧ y ≠ '(' ∧ isParen y = false))
    (by decide) (c := c) (by simp [Char.isAlphanum, h])
  exact this h

theorem alnum_noParen {c : Char} (h : c.isAlphanum = true) : isParen c = false :=
  alnum_forall (P := fun y => isParen y = false) (by decide) h

theorem scanExp_stop {Y : Cs} (h : ∀ c ∈ Y.head?, c.isDigit = false ∧ c ≠ '^') : scanExp Y = Y := by
  unfold scanExp
  rw [dropCaret_of_head (fun c hc => (h c hc).2)]
  cases Y with
  | nil => rfl
  | cons y t => have := (h y (by simp)).1; simp [this]

theorem scanExp_exp {E Y : Cs} (hne : E ≠ []) (hE : ∀ c ∈ E, c.isDigit = true)
    (hY : ∀ c ∈ Y.head?, c.isDigit = false) : scanExp ('^' :: (E ++ Y)) = Y := by
  unfold scanExp
  rw [dropCaret_caret]
  obtain ⟨x, xs, rfl⟩ := List.exists_cons_of_ne_nil hne
  have hx : x.isDigit = true := hE x (by simp)
  have e : x :: xs ++ Y = x :: (xs ++ Y) := rfl
  rw [e]
  simp only [hx, if_true]
  rw [← e, dropDigits_append hE hY]

section
variable {W : Cs} {y0 : Char} {wt : Cs}

theorem nterm_head (hW : W = y0 :: wt) (hy : y0.isAlpha = true) {t : Cs} (ht : NTerm W t) (Z : Cs) :
    ∃ x r, t ++ Z = x :: r ∧ isWs x = false ∧ isSign x = false ∧ x ≠ '(' := by
  obtain ⟨_, hws, hsg, _, _, hpar, _⟩ := alpha_facts hy
  obtain ⟨D, V, hD, rfl, hV⟩ := ht
  cases D with
  | cons x D' =>
    obtain ⟨h1, h2, h3, _⟩ := digit_facts (hD x (by simp))
    exact ⟨x, D' ++ V ++ Z, by simp, h1, h2, h3⟩
  | nil =>
    rcases hV with ⟨_, h⟩ | rfl | ⟨E, _, _, rfl⟩
    · exact absurd rfl h
    · exact ⟨y0, wt ++ Z, by rw [hW]; simp, hws, hsg, hpar⟩
    · exact ⟨y0, wt ++ '^' :: E ++ Z, by rw [hW]; simp, hws, hsg, hpar⟩

/-- the term pattern consumes exactly a printed term -/
theorem scanTerm_nterm (hW : W = y0 :: wt) (hy : y0.isAlpha = true) {t : Cs} (ht : NTerm W t)
    {Y : Cs} (hY : Stop (some W) Y) : scanTerm W (t ++ Y) = some Y := by
  obtain ⟨hdig, _⟩ := alpha_facts hy
  obtain ⟨D, V, hD, rfl, hV⟩ := ht
  have hYd : ∀ c ∈ Y.head?, c.isDigit = false := fun c hc => (hY.1 c hc).1
  have hWh : ∀ (Z : Cs), ∀ c ∈ (W ++ Z).head?, c.isDigit = false := by
    intro Z c hc; rw [hW] at hc; simp at hc; rw [← hc]; exact hdig
  unfold scanTerm
  rw [List.append_assoc]
  rcases hV with ⟨rfl, hne⟩ | rfl | ⟨E, hne, hE, rfl⟩
  · rw [List.nil_append, dropDigits_append hD hYd, hY.2 W rfl, digits_append hD hYd]
    cases D with
    | nil => exact absurd rfl hne
    | cons _ _ => rfl
  · rw [dropDigits_append hD (hWh Y), strip_append]
    dsimp only
    rw [scanExp_stop hY.1]
  · rw [List.append_assoc, dropDigits_append hD (hWh _), strip_append]
    dsimp only
    rw [List.cons_append, scanExp_exp hne hE hYd]

theorem stop_restC (hW : W = y0 :: wt) (hy : y0.isAlpha = true) (ts : List Cs) (X : Cs) :
    Stop (some W) (restC ts ++ ')' :: X) := by
  have hyp : y0 ≠ ')' ∧ y0 ≠ ' ' := by
    obtain ⟨_, hws, _, _, _, _, hp, _⟩ := alpha_facts hy
    exact ⟨hp, fun e => by rw [e] at hws; exact absurd hws (by decide)⟩
  unfold restC
  split
  · refine ⟨by simp, ?_⟩
    intro w hw; injection hw with hw; subst hw
    rw [hW]; exact strip_head_ne _ _ hyp.1
  · refine ⟨by simp, ?_⟩
    intro w hw; injection hw with hw; subst hw
    rw [hW]; exact strip_head_ne _ _ hyp.2

theorem scanMore_rest (hW : W = y0 :: wt) (hy : y0.isAlpha = true) :
    ∀ (ts : List Cs), (∀ t ∈ ts, NTerm W t) → ∀ (f : Nat), (restC ts).length ≤ f → ∀ (X : Cs),
    scanMore W f (restC ts ++ ')' :: X) = ')' :: X := by
  intro ts
  induction ts with
  | nil =>
    intro _ f _ X
    cases f with
    | zero => rfl
    | succ f =>
      show scanMore W (f + 1) (')' :: X) = _
      rw [scanMore, dropWs_of_head (by simp [isWs])]
      simp [isSign]
  | cons t ts ih =>
    intro hts f hf X
    have hr : restC (t :: ts) = ' ' :: '+' :: ' ' :: (t ++ restC ts) := by
      simp [restC, joinC_cons]
    rw [hr] at hf ⊢
    cases f with
    | zero => simp at hf
    | succ f =>
      obtain ⟨x, r, hx, hws, _⟩ := nterm_head hW hy (hts t (by simp)) (restC ts ++ ')' :: X)
      have h1 : dropWs (' ' :: '+' :: ' ' :: (t ++ restC ts) ++ ')' :: X) =
          '+' :: ' ' :: (t ++ (restC ts ++ ')' :: X)) := by
        simp only [List.cons_append, List.append_assoc]
        rw [dropWs_space, dropWs_of_head (by simp [isWs])]
      have h2 : dropWs (' ' :: (t ++ (restC ts ++ ')' :: X))) = t ++ (restC ts ++ ')' :: X) := by
        rw [dropWs_space, hx]; exact dropWs_of_head (by simpa using hws)
      rw [scanMore, h1]
      simp only [isSign, beq_self_eq_true, Bool.true_or, if_true]
      rw [h2, scanTerm_nterm hW hy (hts t (by simp)) (stop_restC hW hy ts X)]
      dsimp only
      exact ih (fun u hu => hts u (by simp [hu])) f
        (by simp only [List.length_cons, List.length_append] at hf; omega) X

/-- a parenthesised list of printed terms is consumed exactly -/
theorem scanCoefNamed_parens (hW : W = y0 :: wt) (hy : y0.isAlpha = true) {ts : List Cs}
    (hne : ts ≠ []) (hts : ∀ t ∈ ts, NTerm W t) (X : Cs) :
    scanCoefNamed W ('(' :: (joinC ts ++ ')' :: X)) = some X := by
  obtain ⟨t, ts', rfl⟩ := List.exists_cons_of_ne_nil hne
  obtain ⟨x, r, hx, hws, _⟩ := nterm_head hW hy (hts t (by simp)) (restC ts' ++ ')' :: X)
  rw [joinC_cons, List.append_assoc]
  unfold scanCoefNamed
  simp only [beq_self_eq_true, if_true]
  have h1 : dropWs (t ++ (restC ts' ++ ')' :: X)) = t ++ (restC ts' ++ ')' :: X) := by
    rw [hx]; exact dropWs_of_head (by simpa using hws)
  rw [h1, scanTerm_nterm hW hy (hts t (by simp)) (stop_restC hW hy ts' X)]
  dsimp only
  rw [scanMore_rest hW hy ts' (fun u hu => hts u (by simp [hu])) _ (by simp) X,
    dropWs_of_head (by simp [isWs])]
  simp

/-- a single printed term is consumed exactly -/
theorem scanCoefNamed_single (hW : W = y0 :: wt) (hy : y0.isAlpha = true) {t : Cs}
    (ht : NTerm W t) {X : Cs} (hX : Stop (some W) X) : scanCoefNamed W (t ++ X) = some X := by
  obtain ⟨x, r, hx, _, _, hpar⟩ := nterm_head hW hy ht X
  have : scanCoefNamed W (t ++ X) = scanTerm W (t ++ X) := by
    rw [hx]; simp [scanCoefNamed, hpar]
  rw [this, scanTerm_nterm hW hy ht hX]

theorem nterm_noParen (hWa : ∀ c ∈ W, c.isAlphanum = true) {t : Cs} (ht : NTerm W t) :
    ∀ c ∈ t, isParen c = false := by
  obtain ⟨D, V, hD, rfl, hV⟩ := ht
  intro c hc
  rcases List.mem_append.1 hc with h | h
  · exact (digit_facts (hD c h)).2.2.2
  · rcases hV with ⟨rfl, _⟩ | rfl | ⟨E, _, hE, rfl⟩
    · cases h
    · exact alnum_noParen (hWa c h)
    · rcases List.mem_append.1 h with h | h
      · exact alnum_noParen (hWa c h)
      · rcases List.mem_cons.1 h with rfl | h
        · decide
        · exact (digit_facts (hE c h)).2.2.2

theorem joinC_noParen {ts : List Cs} (h : ∀ t ∈ ts, ∀ c ∈ t, isParen c = false) :
    ∀ c ∈ joinC ts, isParen c = false := by
  induction ts with
  | nil => intro c hc; cases hc
  | cons t ts ih =>
    intro c hc
    rw [joinC_cons] at hc
    rcases List.mem_append.1 hc with h1 | h1
    · exact h t (by simp) c h1
    · unfold restC at h1
      split at h1
      · cases h1
      · simp only [List.mem_cons] at h1
        rcases h1 with rfl | rfl | rfl | h1
        · decide
        · decide
        · decide
        · exact ih (fun u hu => h u (by simp [hu])) c h1

end

/-- `strings.Trim(·, "()")` on the coefficient text of an element printed without parentheses inside -/
theorem trimParens_coef {s : String} (h : ∀ c ∈ s.toList, isParen c = false) (P : Prop)
    [Decidable P] :
    UPoly.trimParens (String.ofList ((if P then "(" ++ s ++ ")" else s).toList)) = s := by
  rw [String.ofList_toList]
  have h1 : ∀ c ∈ s.toList.head?, (c == '(' || c == ')') = false :=
    fun c hc => h c (List.mem_of_mem_head? hc)
  have h2 : ∀ c ∈ s.toList.getLast?, (c == '(' || c == ')') = false :=
    fun c hc => h c (List.mem_of_getLast? hc)
  split
  · exact trimParens_wrap h1 h2
  · exact trimParens_eq_self h1 h2

theorem CoefRT.mono {α : Type} {F : FOps α} {V V' : α → Prop} (H : CoefRT F V)
    (h : ∀ a, V' a → V a) : CoefRT F V' where
  scan := fun c hc => H.scan c (h c hc)
  parse := fun c hc => H.parse c (h c hc)
  head := fun c hc => H.head c (h c hc)
  one := fun c hc => H.one c (h c hc)
  own := H.own

/-! ### binary fields -/

section Bin
variable {w : String} {y0 : Char} {wt : Cs}

theorem binTerm_nterm (d : Nat) : NTerm w.toList (binTerm w d).toList := by
  rw [binTerm_toList]
  by_cases hd0 : d = 0
  · rw [if_pos hd0]
    exact ⟨['1'], [], by simp, rfl, Or.inl ⟨rfl, by simp⟩⟩
  · rw [if_neg hd0]
    by_cases hd1 : d = 1
    · rw [if_pos hd1]
      exact ⟨[], w.toList, by simp, by simp, Or.inr (Or.inl rfl)⟩
    · rw [if_neg hd1]
      exact ⟨[], _, by simp, by simp,
        Or.inr (Or.inr ⟨_, toString_toList_ne_nil d, toString_digits d, rfl⟩)⟩

theorem bin_toStr_toList (n : Nat) {a : Nat} (ha : a ≠ 0) :
    (Bin.toStr w n a).toList = joinC ((degs n a).map fun d => (binTerm w d).toList) := by
  rw [toStr_eq, if_neg ha, intercalate_toList, List.map_map]
  rfl

theorem degs_two_pow {n k : Nat} (hk : k ≤ n) : degs n (2 ^ k) = [k] := by
  have hall : ∀ d ∈ degs n (2 ^ k), d = k := by
    intro d hd
    have := (mem_degs.1 hd).2
    rw [Nat.testBit_two_pow] at this
    exact (of_decide_eq_true this).symm
  have hmem : k ∈ degs n (2 ^ k) := mem_degs.2 ⟨hk, by rw [Nat.testBit_two_pow]; simp⟩
  have hpw := degs_pairwise n (2 ^ k)
  cases h : degs n (2 ^ k) with
  | nil => rw [h] at hmem; cases hmem
  | cons x t =>
    rw [h] at hall hpw
    cases t with
    | nil => rw [hall x (by simp)]
    | cons y t' =>
      exfalso
      have h1 := hall x (by simp)
      have h2 := hall y (by simp)
      have := (List.pairwise_cons.1 hpw).1 y (by simp)
      omega

theorem popCount_zero : popCount 0 = 0 := by rw [popCount]; simp

/-- an element printed without parentheses is a single term -/
theorem bin_single_nterm {n a : Nat} (ha : a < 2 ^ n) (hp : ¬ popCount a > 1) :
    NTerm w.toList (Bin.toStr w n a).toList := by
  by_cases h0 : a = 0
  · subst h0
    exact ⟨['0'], [], by simp, by simp [toStr_eq], Or.inl ⟨rfl, by simp⟩⟩
  · have h1 : popCount a = 1 := by
      have : popCount a ≠ 0 := fun h => h0 (Auxmath.popCount_eq_zero h)
      omega
    obtain ⟨k, rfl⟩ := Auxmath.popCount_eq_one h1
    have hk : k < n := (Nat.pow_lt_pow_iff_right (by omega)).1 ha
    rw [bin_toStr_toList n h0, degs_two_pow (by omega)]
    exact binTerm_nterm k

theorem bin_toStr_noParen (hw : w.toList = y0 :: wt) (hy : y0.isAlpha = true)
    (hwt : ∀ x ∈ wt, x.isAlphanum = true) (n a : Nat) :
    ∀ c ∈ (Bin.toStr w n a).toList, isParen c = false := by
  have hWa : ∀ c ∈ w.toList, c.isAlphanum = true := by
    intro c hc; rw [hw] at hc
    rcases List.mem_cons.1 hc with rfl | h
    · exact isAlpha_isAlphanum hy
    · exact hwt c h
  by_cases h0 : a = 0
  · subst h0; intro c hc; simp [toStr_eq] at hc; subst hc; decide
  · rw [bin_toStr_toList n h0]
    apply joinC_noParen
    intro t ht
    obtain ⟨d, _, rfl⟩ := List.mem_map.1 ht
    exact nterm_noParen hWa (binTerm_nterm d)

/-- the coefficient syntax of a binary field with an admissible variable name reads printed
    elements back -/
theorem bin_coefRT (hsw : simpleName w = true) {n : Nat} (m : Nat) (hn : n < 64) :
    CoefRT (binOps n m w) (fun a => a < 2 ^ n) := by
  obtain ⟨y0, wt, hw, hy, hwt⟩ := simpleName_iff.1 hsw
  have hov : ovOf (binOps n m w) = some w.toList := rfl
  have htext : ∀ a, coefText (binOps n m w) a =
      (if popCount a > 1 then "(" ++ Bin.toStr w n a ++ ")" else Bin.toStr w n a).toList := fun _ => rfl
  refine ⟨?_, ?_, ?_, ?_, ?_⟩
  · intro a ha X hX
    rw [hov] at hX ⊢
    rw [htext]
    show scanCoefNamed w.toList _ = _
    by_cases hp : popCount a > 1
    · have h0 : a ≠ 0 := by rintro rfl; rw [popCount_zero] at hp; omega
      have hne : (degs n a).map (fun d => (binTerm w d).toList) ≠ [] := by
        have := (degs_eq_nil_iff (n := n) (v := a) (by rw [Nat.pow_succ]; omega)).not.2 h0
        simpa using this
      rw [if_pos hp]
      have : ("(" ++ Bin.toStr w n a ++ ")").toList ++ X =
          '(' :: ((Bin.toStr w n a).toList ++ ')' :: X) := by simp
      rw [this, bin_toStr_toList n h0]
      exact scanCoefNamed_parens hw hy hne
        (fun t ht => by obtain ⟨d, _, rfl⟩ := List.mem_map.1 ht; exact binTerm_nterm d) X
    · rw [if_neg hp]
      exact scanCoefNamed_single hw hy (bin_single_nterm ha hp) hX
  · intro a ha
    rw [htext]
    have := trimParens_coef (bin_toStr_noParen hw hy hwt n a) (popCount a > 1)
    rw [this]
    exact bin_parse_toStr hsw hn ha
  · intro a ha
    rw [htext]
    by_cases hp : popCount a > 1
    · rw [if_pos hp]
      exact ⟨'(', ((Bin.toStr w n a).toList ++ [')']), by simp, by decide, by decide⟩
    · rw [if_neg hp]
      obtain ⟨x, r, hx, h1, h2, _⟩ := nterm_head hw hy (bin_single_nterm (w := w) ha hp) []
      exact ⟨x, r, by simpa using hx, h1, h2⟩
  · intro a _ h
    have : a = 1 := by simpa using (show (a == 1) = true from h)
    exact this
  · intro w' hw'
    have : w' = w := by injection hw' with e; exact e.symm
    subst this
    exact ⟨y0, wt, hw, hy⟩

end Bin

/-! ### extension fields: elements print through `UPoly.toStr (primeOps p) "a"` -/

section Ext
open Algobra.UPoly Polynomial
variable {p : Nat} {K : Type} [Field K] (L : Lawful (primeOps p) K)

theorem coefText_prime (p c : Nat) : coefText (primeOps p) c = (toString c).toList := by
  unfold coefText
  have : ¬ (primeOps p).nTerms c > 1 := by show ¬ (1 > 1); omega
  rw [if_neg this]; rfl

theorem degrees_ne_nil {α : Type} {F : FOps α} {K : Type} [Field K] (L : Lawful F K)
    {f : UPoly α} (hf : WF L f) (hz : ¬ isZero F f = true) : degrees F f ≠ [] := by
  intro he
  apply hz
  have : toPoly L f = 0 := by
    ext i
    have := (mem_degrees L hf.1 i).not
    rw [he] at this
    simpa using this
  rw [eq_zero_of_toPoly_eq_zero L hf this]
  simpa [isZero, zero] using (L.isZero_iff F.zero L.zero_valid).2 L.embed_zero

theorem extTerm_nterm (p c d : Nat) :
    NTerm ['a'] (termStr (primeOps p) "a" c d).toList := by
  rw [termStr_toList]
  unfold termChars
  have hD : ∀ x ∈ coefPart (primeOps p) c d, x.isDigit = true := by
    unfold coefPart; split
    · rw [coefText_prime]; exact toString_digits c
    · simp
  refine ⟨coefPart (primeOps p) c d, uVarPart "a" d, hD, rfl, ?_⟩
  unfold uVarPart
  by_cases hd0 : d = 0
  · refine Or.inl ⟨by rw [if_pos hd0], ?_⟩
    unfold coefPart
    rw [if_pos (by simp [hd0]), coefText_prime]
    exact toString_toList_ne_nil c
  · rw [if_neg hd0]
    by_cases hd1 : d = 1
    · exact Or.inr (Or.inl (by rw [if_pos hd1]; rfl))
    · exact Or.inr (Or.inr ⟨_, toString_toList_ne_nil d, toString_digits d, by rw [if_neg hd1]; rfl⟩)

theorem ext_toStr_toList {a : UPoly Nat} (hz : ¬ isZero (primeOps p) a = true) :
    (UPoly.toStr (primeOps p) "a" a).toList =
      joinC ((degrees (primeOps p) a).map fun d =>
        (termStr (primeOps p) "a" (coef (primeOps p) a d) d).toList) := by
  rw [toStr_eq_terms, if_neg hz, intercalate_toList, List.map_map]
  rfl

theorem ext_zero_toStr {a : UPoly Nat} (hz : isZero (primeOps p) a = true) :
    UPoly.toStr (primeOps p) "a" a = "0" := by
  rw [toStr_eq_terms, if_pos hz]

/-- an element printed without parentheses is a single term -/
theorem ext_single_nterm {a : UPoly Nat} (hf : WF L a)
    (hp : ¬ UPoly.nTerms (primeOps p) a > 1) :
    NTerm ['a'] (UPoly.toStr (primeOps p) "a" a).toList := by
  by_cases hz : isZero (primeOps p) a = true
  · rw [ext_zero_toStr hz]
    exact ⟨['0'], [], by simp, by simp, Or.inl ⟨rfl, by simp⟩⟩
  · have hne := degrees_ne_nil L hf hz
    unfold UPoly.nTerms at hp
    rw [if_neg hz] at hp
    rw [ext_toStr_toList hz]
    cases h : degrees (primeOps p) a with
    | nil => exact absurd h hne
    | cons d t =>
      cases t with
      | nil => exact extTerm_nterm p _ d
      | cons _ _ => rw [h] at hp; simp at hp

theorem ext_toStr_noParen (a : UPoly Nat) :
    ∀ c ∈ (UPoly.toStr (primeOps p) "a" a).toList, isParen c = false := by
  by_cases hz : isZero (primeOps p) a = true
  · rw [ext_zero_toStr hz]; intro c hc; simp at hc; subst hc; decide
  · rw [ext_toStr_toList hz]
    apply joinC_noParen
    intro t ht
    obtain ⟨d, _, rfl⟩ := List.mem_map.1 ht
    exact nterm_noParen (W := ['a']) (by decide) (extTerm_nterm p _ d)

/-- the coefficient pattern of an extension field consumes exactly a printed element -/
theorem ext_scan {a : UPoly Nat} (hf : WF L a) (X : Cs) (hX : Stop (some ['a']) X) :
    scanCoefNamed ['a']
      ((if UPoly.nTerms (primeOps p) a > 1 then "(" ++ UPoly.toStr (primeOps p) "a" a ++ ")"
        else UPoly.toStr (primeOps p) "a" a).toList ++ X) = some X := by
  by_cases hp : UPoly.nTerms (primeOps p) a > 1
  · rw [if_pos hp]
    have hz : ¬ isZero (primeOps p) a = true := by
      intro hz; unfold UPoly.nTerms at hp; rw [if_pos hz] at hp; omega
    have hne : (degrees (primeOps p) a).map (fun d =>
        (termStr (primeOps p) "a" (coef (primeOps p) a d) d).toList) ≠ [] := by
      simpa using degrees_ne_nil L hf hz
    have : ("(" ++ UPoly.toStr (primeOps p) "a" a ++ ")").toList ++ X =
        '(' :: ((UPoly.toStr (primeOps p) "a" a).toList ++ ')' :: X) := by simp
    rw [this, ext_toStr_toList hz]
    exact scanCoefNamed_parens (y0 := 'a') (wt := []) rfl (by decide) hne
      (fun t ht => by obtain ⟨d, _, rfl⟩ := List.mem_map.1 ht; exact extTerm_nterm p _ d) X
  · rw [if_neg hp]
    exact scanCoefNamed_single (y0 := 'a') (wt := []) rfl (by decide) (ext_single_nterm L hf hp) hX

theorem ext_head {a : UPoly Nat} (hf : WF L a) :
    ∃ x t, (if UPoly.nTerms (primeOps p) a > 1 then "(" ++ UPoly.toStr (primeOps p) "a" a ++ ")"
        else UPoly.toStr (primeOps p) "a" a).toList = x :: t ∧ isWs x = false ∧ isSign x = false := by
  by_cases hp : UPoly.nTerms (primeOps p) a > 1
  · rw [if_pos hp]
    exact ⟨'(', ((UPoly.toStr (primeOps p) "a" a).toList ++ [')']), by simp, by decide, by decide⟩
  · rw [if_neg hp]
    obtain ⟨x, r, hx, h1, h2, _⟩ :=
      nterm_head (y0 := 'a') (wt := []) rfl (by decide) (ext_single_nterm L hf hp) []
    exact ⟨x, r, by simpa using hx, h1, h2⟩

end Ext

end Algobra.ParseRT
