/-
  Proofs/ParseRTB.lean — the bivariate tokeniser `Parse.bodyB` / `Parse.tokB` / `Parse.matchesB` on
  printed terms, for any coefficient syntax satisfying `CoefRT`.  Helper of `Props/C15Full.lean`.
-/
import Algobra.Proofs.ParseRTU
import Algobra.Model.BPoly

namespace Algobra.ParseRT
open Algobra Algobra.Strings Algobra.Parse Algobra.Regex

variable {α : Type}

theorem stripCi_eq_some {p s r : Cs} (h : stripCi p s = some r) :
    ∃ q, s = q ++ r ∧ q.map lower = p.map lower := by
  induction p generalizing s with
  | nil =>
    have : s = r := by cases s <;> simpa [stripCi] using h
    exact ⟨[], by simp [this], rfl⟩
  | cons a p ih =>
    cases s with
    | nil => simp [stripCi] at h
    | cons b s =>
      simp only [stripCi] at h
      split at h
      · rename_i hab
        obtain ⟨q, hq, hl⟩ := ih h
        exact ⟨b :: q, by rw [hq]; rfl, by simp [hl, (eq_of_beq hab).symm]⟩
      · cases h

/-- a name does not match where an unconfusable name stands -/
theorem stripCi_none_of_unconf {x y : Cs}
    (h : ¬ (x.map lower) <+: (y.map lower) ∧ ¬ (y.map lower) <+: (x.map lower)) (Z : Cs) :
    stripCi x (y ++ Z) = none := by
  cases hs : stripCi x (y ++ Z) with
  | none => rfl
  | some r =>
    exfalso
    obtain ⟨q, hq, hl⟩ := stripCi_eq_some hs
    have h1 : x.map lower <+: (y ++ Z).map lower := ⟨r.map lower, by rw [hq, ← hl]; simp⟩
    have h2 : y.map lower <+: (y ++ Z).map lower := ⟨Z.map lower, by simp⟩
    rcases List.prefix_or_prefix_of_prefix h1 h2 with h3 | h3
    · exact h.1 h3
    · exact h.2 h3

/-- exponent text of the printers -/
def expS (e : Nat) : String := if e ≤ 1 then "" else toString e

section
variable {v : String} {x0 : Char} {vt : Cs}

/-- variable with optional exponent, as `var1\^?deg1` / `var2\^?deg2` scan it -/
theorem varExp_scan {e : Nat} (he : e ≠ 0) {Z : Cs}
    (hZ : ∀ c ∈ Z.head?, c.isDigit = false ∧ c ≠ '^') :
    ∃ r2, stripCi v.toList (uVarPart v e ++ Z) = some r2 ∧
      consumed (uVarPart v e ++ Z) r2 = v ∧
      String.ofList (digits (dropCaret r2)) = expS e ∧ dropDigits (dropCaret r2) = Z := by
  rw [uVarPart_pos v he, List.append_assoc]
  refine ⟨_, stripCi_append rfl _, ?_, ?_⟩
  · rw [consumed_append, String.ofList_toList]
  · unfold expS
    by_cases h1 : e = 1
    · subst h1
      rw [if_pos rfl, List.nil_append, dropCaret_of_head (fun c hc => (hZ c hc).2),
        digits_of_head (fun c hc => (hZ c hc).1), dropDigits_of_head (fun c hc => (hZ c hc).1)]
      exact ⟨rfl, rfl⟩
    · rw [if_neg h1, List.cons_append, dropCaret_caret,
        digits_append (toString_digits e) (fun c hc => (hZ c hc).1),
        dropDigits_append (toString_digits e) (fun c hc => (hZ c hc).1), String.ofList_toList,
        if_neg (by omega)]
      exact ⟨rfl, rfl⟩

theorem uVarPart_head (hv : v.toList = x0 :: vt) {e : Nat} (he : e ≠ 0) (Z : Cs) :
    ∃ t, uVarPart v e ++ Z = x0 :: t := by
  rw [uVarPart_pos v he, hv]; exact ⟨_, by simp; rfl⟩

end

/-- what is left after a term: nothing, or the `+` of the next term -/
def Tail (P : Cs) : Prop := P = [] ∨ ∃ t, P = '+' :: ' ' :: t

theorem tail_of_post {post : Cs} (h : Post post) : Tail (dropWs post) := dropWs_post h

section
variable {x y : String} {x0 y0 : Char} {xt yt : Cs}

theorem tail_facts (hx : x.toList = x0 :: xt) (hx0 : x0.isAlpha = true)
    (hy : y.toList = y0 :: yt) (hy0 : y0.isAlpha = true) {P : Cs} (hP : Tail P) :
    scanVar x.toList y.toList P = none ∧ dropCaret P = P ∧ digits P = [] ∧ dropDigits P = P ∧
      dropWs P = P ∧ skipMult P = P := by
  rcases hP with rfl | ⟨t, rfl⟩
  · refine ⟨?_, rfl, rfl, rfl, rfl, rfl⟩
    unfold scanVar; rw [hx, hy]; rfl
  · refine ⟨?_, by simp [dropCaret], digits_of_head (by simp), dropDigits_of_head (by simp),
      dropWs_of_head (by simp [isWs]), skipMult_of_head (by simp [isWs])⟩
    unfold scanVar
    rw [hx, hy, stripCi_head_ne _ _ (lower_alpha_ne hx0 (by decide) (by decide)),
      stripCi_head_ne _ _ (lower_alpha_ne hy0 (by decide) (by decide))]

end


/-! ### one printed bivariate term -/

def bcoefPart (F : FOps α) (c : α) (i j : Nat) : Cs :=
  if (!F.isOne c || (i == 0 && j == 0)) = true then coefText F c else []

def btermChars (F : FOps α) (x y : String) (c : α) (i j : Nat) : Cs :=
  bcoefPart F c i j ++ (uVarPart x i ++ uVarPart y j)

theorem bcoefPart_cases (F : FOps α) (c : α) (i j : Nat) :
    (bcoefPart F c i j = coefText F c) ∨
      (bcoefPart F c i j = [] ∧ (i ≠ 0 ∨ j ≠ 0) ∧ F.isOne c = true) := by
  unfold bcoefPart
  by_cases h : (!F.isOne c || (i == 0 && j == 0)) = true
  · exact Or.inl (if_pos h)
  · refine Or.inr ⟨if_neg h, ?_, ?_⟩
    · by_cases hi : i = 0
      · by_cases hj : j = 0
        · exfalso; apply h; simp [hi, hj]
        · exact Or.inr hj
      · exact Or.inl hi
    · cases h1 : F.isOne c with
      | true => rfl
      | false => exfalso; apply h; simp [h1]

/-- what the round trip needs of the two variable names -/
structure BNames (F : FOps α) (x y : String) : Prop where
  hx : ∃ x0 xt, x.toList = x0 :: xt ∧ x0.isAlpha = true
  hy : ∃ y0 yt, y.toList = y0 :: yt ∧ y0.isAlpha = true
  xy : ∀ Z, stripCi x.toList (y.toList ++ Z) = none
  ne : UPoly.strLower x ≠ UPoly.strLower y
  ux : ∀ w X, F.ownVar = some w → strip w.toList (x.toList ++ X) = none
  uy : ∀ w X, F.ownVar = some w → strip w.toList (y.toList ++ X) = none

def bv1 (x y : String) (i j : Nat) : String := if i ≠ 0 then x else if j ≠ 0 then y else ""
def bd1 (i j : Nat) : String := if i ≠ 0 then expS i else if j ≠ 0 then expS j else ""
def bv2 (y : String) (i j : Nat) : String := if i ≠ 0 ∧ j ≠ 0 then y else ""
def bd2 (i j : Nat) : String := if i ≠ 0 ∧ j ≠ 0 then expS j else ""

section
variable {F : FOps α} {Valid : α → Prop} {x y : String}

theorem uVarPart_zero (v : String) : uVarPart v 0 = [] := by unfold uVarPart; rw [if_pos rfl]

/-- after the coefficient: the variables -/
theorem bcoef_scan (H : CoefRT F Valid) (N : BNames F x y) {c : α} (hc : Valid c) (i j : Nat)
    {post : Cs} (hp : Post post) :
    (scanCoef (ovOf F) (btermChars F x y c i j ++ post)).getD (btermChars F x y c i j ++ post) =
        uVarPart x i ++ uVarPart y j ++ post ∧
      consumed (btermChars F x y c i j ++ post) (uVarPart x i ++ uVarPart y j ++ post) =
        String.ofList (bcoefPart F c i j) ∧
      (bcoefPart F c i j = coefText F c →
        scanCoef (ovOf F) (btermChars F x y c i j ++ post) =
          some (uVarPart x i ++ uVarPart y j ++ post)) := by
  obtain ⟨x0, xt, hx, hx0⟩ := N.hx
  obtain ⟨y0, yt, hy, hy0⟩ := N.hy
  have hst : Stop (ovOf F) (uVarPart x i ++ uVarPart y j ++ post) := by
    by_cases hi : i = 0
    · subst hi
      rw [uVarPart_zero, List.nil_append]
      by_cases hj : j = 0
      · subst hj; rw [uVarPart_zero, List.nil_append]; exact stop_post H hp
      · exact stop_var H hy hy0 N.uy hj post
    · rw [List.append_assoc]; exact stop_var H hx hx0 N.ux hi _
  unfold btermChars
  rw [List.append_assoc]
  refine ⟨?_, consumed_append _ _, ?_⟩
  · rcases bcoefPart_cases F c i j with e | ⟨e, hij, _⟩
    · rw [e, H.scan c hc _ hst]; rfl
    · rw [e, List.nil_append]
      by_cases hi : i = 0
      · subst hi
        have hj : j ≠ 0 := by omega
        rw [uVarPart_zero, List.nil_append, uVarPart_pos y hj, List.append_assoc]
        exact scanCoef_none_var H hy hy0 N.uy _
      · rw [uVarPart_pos x hi, List.append_assoc, List.append_assoc]
        exact scanCoef_none_var H hx hx0 N.ux _
  · intro e
    rw [e, H.scan c hc _ hst]

theorem skipMult_var {v : String} {v0 : Char} {vt : Cs} (hv : v.toList = v0 :: vt)
    (hv0 : v0.isAlpha = true) {e : Nat} (he : e ≠ 0) (Z : Cs) :
    skipMult (uVarPart v e ++ Z) = uVarPart v e ++ Z := by
  obtain ⟨_, hws, _, hstar, _⟩ := alpha_facts hv0
  obtain ⟨t, ht⟩ := uVarPart_head hv he Z
  rw [ht]
  exact skipMult_of_head (by simpa using ⟨hws, hstar⟩)

/-- the second, optional variable group and the trailing blanks -/
theorem second_none (N : BNames F x y) {post : Cs} (hp : Post post) :
    let r5 := skipMult post
    let r6 := (scanVar x.toList y.toList r5).getD r5
    consumed r5 r6 = "" ∧ String.ofList (digits (dropCaret r6)) = "" ∧
      dropWs (dropDigits (dropCaret r6)) = dropWs post := by
  obtain ⟨x0, xt, hx, hx0⟩ := N.hx
  obtain ⟨y0, yt, hy, hy0⟩ := N.hy
  dsimp only
  rw [skipMult_post hp]
  obtain ⟨h1, h2, h3, h4, h5, _⟩ := tail_facts hx hx0 hy hy0 (tail_of_post hp)
  rw [h1]
  simp only [Option.getD_none]
  rw [consumed_self, h2, h3, h4, h5]
  exact ⟨rfl, rfl, rfl⟩

theorem second_var (N : BNames F x y) {j : Nat} (hj : j ≠ 0) {post : Cs} (hp : Post post) :
    let r5 := skipMult (uVarPart y j ++ post)
    let r6 := (scanVar x.toList y.toList r5).getD r5
    consumed r5 r6 = y ∧ String.ofList (digits (dropCaret r6)) = expS j ∧
      dropWs (dropDigits (dropCaret r6)) = dropWs post := by
  obtain ⟨y0, yt, hy, hy0⟩ := N.hy
  dsimp only
  rw [skipMult_var hy hy0 hj]
  obtain ⟨r2, h1, h2, h3, h4⟩ := varExp_scan (v := y) hj
    (fun c hc => ⟨(post_head hp c hc).1, (post_head hp c hc).2.1⟩)
  have hX : stripCi x.toList (uVarPart y j ++ post) = none := by
    rw [uVarPart_pos y hj, List.append_assoc]; exact N.xy _
  have : scanVar x.toList y.toList (uVarPart y j ++ post) = some r2 := by
    unfold scanVar; rw [hX]; exact h1
  rw [this]
  simp only [Option.getD_some]
  rw [h2, h3, h4]
  exact ⟨rfl, rfl, rfl⟩

/-- the match of `A1|A2` on a printed term -/
theorem bodyB_term (H : CoefRT F Valid) (N : BNames F x y) {c : α} (hc : Valid c) (i j : Nat)
    {post : Cs} (hp : Post post) :
    ∃ g2 g7 : String, g2 ++ g7 = String.ofList (bcoefPart F c i j) ∧
      bodyB (ovOf F) x.toList y.toList (btermChars F x y c i j ++ post) =
        some (#[g2, bv1 x y i j, bd1 i j, bv2 y i j, bd2 i j, g7], dropWs post) := by
  obtain ⟨x0, xt, hx, hx0⟩ := N.hx
  obtain ⟨y0, yt, hy, hy0⟩ := N.hy
  obtain ⟨hr0, hcons, hsome⟩ := bcoef_scan H N hc i j hp
  unfold bodyB
  dsimp only
  rw [hr0, hcons]
  by_cases hi : i = 0
  · by_cases hj : j = 0
    · -- constant term: the second alternative
      subst hi hj
      have hcoef : bcoefPart F c 0 0 = coefText F c := by unfold bcoefPart; rw [if_pos (by simp)]
      rw [hsome hcoef]
      simp only [uVarPart_zero, List.nil_append]
      obtain ⟨x0', xt', hx', hx0'⟩ := N.hx
      have ht := tail_facts hx hx0 hy hy0 (tail_of_post hp)
      rw [skipMult_post hp, ht.1]
      dsimp only
      refine ⟨"", String.ofList (bcoefPart F c 0 0), by simp, ?_⟩
      unfold btermChars at hcons
      simp only [uVarPart_zero, List.nil_append, List.append_nil] at hcons
      unfold btermChars
      simp only [uVarPart_zero, List.append_nil]
      rw [hcons]
      simp [bv1, bd1, bv2, bd2]
    · -- only the second variable
      subst hi
      simp only [uVarPart_zero, List.nil_append]
      rw [skipMult_var hy hy0 hj]
      obtain ⟨r2, h1, h2, h3, h4⟩ := varExp_scan (v := y) hj
        (fun c hc => ⟨(post_head hp c hc).1, (post_head hp c hc).2.1⟩)
      have hX : stripCi x.toList (uVarPart y j ++ post) = none := by
        rw [uVarPart_pos y hj, List.append_assoc]; exact N.xy _
      have hsv : scanVar x.toList y.toList (uVarPart y j ++ post) = some r2 := by
        unfold scanVar; rw [hX]; exact h1
      rw [hsv]
      dsimp only
      obtain ⟨k1, k2, k3⟩ := second_none N hp
      rw [h2, h3, h4, k1, k2, k3]
      exact ⟨String.ofList (bcoefPart F c 0 j), "", by simp, by simp [bv1, bd1, bv2, bd2, hj]⟩
  · -- the first variable is present
    rw [List.append_assoc, skipMult_var hx hx0 hi]
    have hZ : ∀ c ∈ (uVarPart y j ++ post).head?, c.isDigit = false ∧ c ≠ '^' := by
      by_cases hj : j = 0
      · subst hj; rw [uVarPart_zero, List.nil_append]
        exact fun c hc => ⟨(post_head hp c hc).1, (post_head hp c hc).2.1⟩
      · obtain ⟨t, ht⟩ := uVarPart_head hy hj post
        obtain ⟨hd, _, _, _, hcar, _⟩ := alpha_facts hy0
        rw [ht]; simpa using ⟨hd, hcar⟩
    obtain ⟨r2, h1, h2, h3, h4⟩ := varExp_scan (v := x) hi hZ
    have hsv : scanVar x.toList y.toList (uVarPart x i ++ (uVarPart y j ++ post)) = some r2 := by
      unfold scanVar; rw [h1]
    rw [hsv]
    dsimp only
    rw [h2, h3, h4]
    by_cases hj : j = 0
    · subst hj
      rw [uVarPart_zero, List.nil_append]
      obtain ⟨k1, k2, k3⟩ := second_none N hp
      rw [k1, k2, k3]
      exact ⟨String.ofList (bcoefPart F c i 0), "", by simp, by simp [bv1, bd1, bv2, bd2, hi]⟩
    · obtain ⟨k1, k2, k3⟩ := second_var N hj hp
      rw [k1, k2, k3]
      exact ⟨String.ofList (bcoefPart F c i j), "", by simp, by simp [bv1, bd1, bv2, bd2, hi, hj]⟩


theorem btermChars_head (H : CoefRT F Valid) (N : BNames F x y) {c : α} (hc : Valid c) (i j : Nat)
    (Z : Cs) : ∃ a t, btermChars F x y c i j ++ Z = a :: t ∧ isWs a = false ∧ isSign a = false := by
  obtain ⟨x0, xt, hx, hx0⟩ := N.hx
  obtain ⟨y0, yt, hy, hy0⟩ := N.hy
  unfold btermChars
  rcases bcoefPart_cases F c i j with e | ⟨e, hij, _⟩
  · obtain ⟨a, t, h1, h2, h3⟩ := H.head c hc
    exact ⟨a, t ++ (uVarPart x i ++ uVarPart y j) ++ Z, by rw [e, h1]; simp, h2, h3⟩
  · rw [e, List.nil_append]
    by_cases hi : i = 0
    · subst hi
      have hj : j ≠ 0 := by omega
      obtain ⟨t, ht⟩ := uVarPart_head hy hj Z
      obtain ⟨_, hws, hsg, _⟩ := alpha_facts hy0
      exact ⟨y0, t, by rw [uVarPart_zero, List.nil_append, ht], hws, hsg⟩
    · obtain ⟨t, ht⟩ := uVarPart_head hx hi (uVarPart y j ++ Z)
      obtain ⟨_, hws, hsg, _⟩ := alpha_facts hx0
      exact ⟨x0, t, by rw [List.append_assoc, ht], hws, hsg⟩

/-- the match of `tokB` on a printed term -/
theorem tokB_term (H : CoefRT F Valid) (N : BNames F x y) {c : α} (hc : Valid c) (i j : Nat)
    {post : Cs} (hp : Post post) (first : Bool) {pre : Cs} {sign : String}
    (hpre : (pre = [] ∧ first = true ∧ sign = "") ∨ (pre = ['+', ' '] ∧ first = false ∧ sign = "+")) :
    ∃ full g2 g7 : String, g2 ++ g7 = String.ofList (bcoefPart F c i j) ∧
      tokB (ovOf F) x.toList y.toList first (pre ++ (btermChars F x y c i j ++ post)) =
        some (#[full, sign, g2, bv1 x y i j, bd1 i j, bv2 y i j, bd2 i j, g7], dropWs post) := by
  obtain ⟨g2, g7, hg, hb⟩ := bodyB_term H N hc i j hp
  obtain ⟨a, t, hT, hws, hsg⟩ := btermChars_head H N hc i j post
  have hdw : dropWs (btermChars F x y c i j ++ post) = btermChars F x y c i j ++ post := by
    rw [hT]; exact dropWs_of_head (by simpa using hws)
  rcases hpre with ⟨rfl, rfl, rfl⟩ | ⟨rfl, rfl, rfl⟩
  · refine ⟨consumed (btermChars F x y c i j ++ post) (dropWs post), g2, g7, hg, ?_⟩
    unfold tokB
    simp only [List.nil_append, if_true]
    rw [hdw, hb]
    simp
  · refine ⟨consumed ('+' :: ' ' :: (btermChars F x y c i j ++ post)) (dropWs post), g2, g7, hg, ?_⟩
    unfold tokB
    have : ['+', ' '] ++ (btermChars F x y c i j ++ post) =
        '+' :: ' ' :: (btermChars F x y c i j ++ post) := rfl
    rw [this]
    simp only [Bool.false_eq_true, if_false, isSign, beq_self_eq_true, Bool.true_or, if_true]
    rw [dropWs_space, hdw, hb]
    simp

theorem parseExponent_expS {e : Nat} (he : e ≠ 0) (h : e < 2 ^ 64) :
    BPoly.parseExponent (expS e) = some e := by
  unfold expS
  by_cases h1 : e ≤ 1
  · rw [if_pos h1, parseExponent_empty]
    congr 1; omega
  · rw [if_neg h1]; exact parseExponent_toString h

/-- the post-processing step of the bivariate `polynomialStringToMap` on the match of a printed term -/
theorem b_go_term (H : CoefRT F Valid) (N : BNames F x y) (full sign g2 g7 : String) {c : α}
    (hc : Valid c) {i j : Nat} (hg : g2 ++ g7 = String.ofList (bcoefPart F c i j))
    (hsign : sign ≠ "-") (hi : i < 2 ^ 64) (hj : j < 2 ^ 64)
    (t : List (Array String)) (out : List (Deg × α)) :
    BPoly.stringToMapRx.go F (UPoly.strLower x) (UPoly.strLower y)
        (#[full, sign, g2, bv1 x y i j, bd1 i j, bv2 y i j, bd2 i j, g7] :: t) out =
      BPoly.stringToMapRx.go F (UPoly.strLower x) (UPoly.strLower y) t
        (UPoly.mapAdd F out (i, j) c) := by
  obtain ⟨x0, xt, hx, _⟩ := N.hx
  obtain ⟨y0, yt, hy, _⟩ := N.hy
  have hlx := strLower_ne_empty hx
  have hly := strLower_ne_empty hy
  have hlx' : ("" : String) ≠ UPoly.strLower x := fun e => hlx e.symm
  have hly' : ("" : String) ≠ UPoly.strLower y := fun e => hly e.symm
  have hne := N.ne
  have hne' : UPoly.strLower y ≠ UPoly.strLower x := fun e => hne e.symm
  have hsl : UPoly.strLower "" = "" := rfl
  rw [BPoly.stringToMapRx.go]
  simp only [List.size_toArray, List.length_cons, List.length_nil, ne_eq, not_true_eq_false,
    if_false, Nat.reduceAdd]
  have hget : ∀ (k : Nat) (hk : k < 8), (#[full, sign, g2, bv1 x y i j, bd1 i j, bv2 y i j, bd2 i j, g7] : Array String)[k]! =
      [full, sign, g2, bv1 x y i j, bd1 i j, bv2 y i j, bd2 i j, g7][k]! := by
    intro k hk; simp
  simp only [hget 1 (by omega), hget 2 (by omega), hget 3 (by omega), hget 4 (by omega),
    hget 5 (by omega), hget 6 (by omega), hget 7 (by omega)]
  simp only [List.getElem!_cons_succ, List.getElem!_cons_zero]
  rw [hg]
  rcases bcoefPart_cases F c i j with e | ⟨e, hij, h1⟩
  · obtain ⟨a, t', ha, _⟩ := H.head c hc
    have hne'' : String.ofList (coefText F c) ≠ "" := by
      rw [Ne, ofList_eq_empty_iff, ha]; simp
    rw [e]
    by_cases hi0 : i = 0
    · by_cases hj0 : j = 0
      · subst hi0 hj0
        simp [bv1, bd1, bv2, bd2, hne'', H.parse c hc, hsign, hsl, hlx', hly']
      · subst hi0
        have hpe := parseExponent_expS hj0 hj
        simp [bv1, bd1, bv2, bd2, hj0, hne'', H.parse c hc, hsign, hsl, hly, hne', hpe]
    · have hpi := parseExponent_expS hi0 hi
      by_cases hj0 : j = 0
      · subst hj0
        simp [bv1, bd1, bv2, bd2, hi0, hne'', H.parse c hc, hsign, hsl, hlx, hpi]
      · have hpe := parseExponent_expS hj0 hj
        simp [bv1, bd1, bv2, bd2, hi0, hj0, hne'', H.parse c hc, hsign, hlx, hly, hpi, hpe]
  · rw [e, ← H.one c hc h1]
    by_cases hi0 : i = 0
    · subst hi0
      have hj0 : j ≠ 0 := by omega
      have hpe := parseExponent_expS hj0 hj
      simp [bv1, bd1, bv2, bd2, hj0, hsign, hsl, hly, hne', hpe]
    · have hpi := parseExponent_expS hi0 hi
      by_cases hj0 : j = 0
      · subst hj0
        simp [bv1, bd1, bv2, bd2, hi0, hsign, hsl, hlx, hpi]
      · have hpe := parseExponent_expS hj0 hj
        simp [bv1, bd1, bv2, bd2, hi0, hj0, hsign, hlx, hly, hpi, hpe]

end

/-! ### joined term lists -/

/-- one printed term of `BPoly.toStr` -/
def btermStr (F : FOps α) (x y : String) (c : α) (d : Deg) : String :=
  (if !F.isOne c || (d.1 == 0 && d.2 == 0) then
      (if F.nTerms c > 1 then "(" ++ F.toStr c ++ ")" else F.toStr c) else "") ++
    ((if d.1 ≥ 1 then x else "") ++ (if d.1 > 1 then "^" ++ toString d.1 else "")) ++
    ((if d.2 ≥ 1 then y else "") ++ (if d.2 > 1 then "^" ++ toString d.2 else ""))

theorem varStr_toList (v : String) (e : Nat) :
    ((if e ≥ 1 then v else "") ++ (if e > 1 then "^" ++ toString e else "")).toList = uVarPart v e := by
  unfold uVarPart
  by_cases h0 : e = 0
  · simp [h0]
  · by_cases h1 : e = 1
    · simp [h1]
    · have h2 : e ≥ 1 := by omega
      have h3 : e > 1 := by omega
      simp [h0, h1, h2, h3]

theorem btermStr_toList (F : FOps α) (x y : String) (c : α) (d : Deg) :
    (btermStr F x y c d).toList = btermChars F x y c d.1 d.2 := by
  unfold btermStr btermChars bcoefPart coefText
  rw [String.toList_append, String.toList_append, varStr_toList, varStr_toList, List.append_assoc]
  congr 1
  split <;> simp

def JB (F : FOps α) (x y : String) (l : List (α × Deg)) : Cs :=
  (" + ".intercalate (l.map fun t => btermStr F x y t.1 t.2)).toList

def RB (F : FOps α) (x y : String) (l : List (α × Deg)) : Cs :=
  if l = [] then [] else ' ' :: '+' :: ' ' :: JB F x y l

theorem JB_cons (F : FOps α) (x y : String) (t : α × Deg) (l : List (α × Deg)) :
    JB F x y (t :: l) = btermChars F x y t.1 t.2.1 t.2.2 ++ RB F x y l := by
  rw [← btermStr_toList]
  cases l with
  | nil => simp [JB, RB]
  | cons e t => simp [JB, RB]

theorem RB_post (F : FOps α) (x y : String) (l : List (α × Deg)) : Post (RB F x y l) := by
  unfold RB; split
  · exact Or.inl rfl
  · exact Or.inr ⟨_, rfl⟩

theorem dropWs_RB (F : FOps α) (x y : String) (l : List (α × Deg)) :
    dropWs (RB F x y l) = if l = [] then [] else ['+', ' '] ++ JB F x y l := by
  unfold RB; split
  · rfl
  · rw [dropWs_space, dropWs_of_head (by simp [isWs])]; rfl

section
variable {F : FOps α} {Valid : α → Prop} {x y : String}

theorem loopB_nil (ov : Option Cs) (X Y : Cs) (f : Nat) : loopB ov X Y f [] = some [] := by
  cases f <;> rfl

/-- one step of the loops: the token of the first term, and what is left -/
theorem tok_step (H : CoefRT F Valid) (N : BNames F x y) (t : α × Deg) (l : List (α × Deg))
    (hc : Valid t.1) (hi : t.2.1 < 2 ^ 64) (hj : t.2.2 < 2 ^ 64) (first : Bool) {pre : Cs}
    {sign : String}
    (hpre : (pre = [] ∧ first = true ∧ sign = "") ∨ (pre = ['+', ' '] ∧ first = false ∧ sign = "+")) :
    ∃ g, tokB (ovOf F) x.toList y.toList first (pre ++ JB F x y (t :: l)) =
        some (g, dropWs (RB F x y l)) ∧
      (dropWs (RB F x y l)).length < (pre ++ JB F x y (t :: l)).length ∧
      (pre ++ JB F x y (t :: l)).isEmpty = false ∧
      ∀ ms out, BPoly.stringToMapRx.go F (UPoly.strLower x) (UPoly.strLower y) (g :: ms) out =
        BPoly.stringToMapRx.go F (UPoly.strLower x) (UPoly.strLower y) ms
          (UPoly.mapAdd F out t.2 t.1) := by
  rw [JB_cons]
  obtain ⟨full, g2, g7, hg, htok⟩ := tokB_term H N hc t.2.1 t.2.2 (RB_post F x y l) first hpre
  obtain ⟨a, tl, hT, _⟩ := btermChars_head H N hc t.2.1 t.2.2 []
  have hsign : sign ≠ "-" := by
    rcases hpre with ⟨_, _, rfl⟩ | ⟨_, _, rfl⟩ <;> decide
  refine ⟨_, htok, ?_, ?_, ?_⟩
  · have h1 : (dropWs (RB F x y l)).length ≤ (RB F x y l).length := by
      rw [dropWs_RB]; unfold RB; split <;> simp
    have h2 : (btermChars F x y t.1 t.2.1 t.2.2).length = tl.length + 1 := by
      rw [List.append_nil] at hT; rw [hT]; rfl
    rw [List.length_append, List.length_append]
    omega
  · rw [List.append_nil] at hT
    rw [hT]; cases pre <;> rfl
  · intro ms out
    exact b_go_term H N full sign g2 g7 hc hg hsign hi hj ms out

theorem loopB_terms (H : CoefRT F Valid) (N : BNames F x y) :
    ∀ (l : List (α × Deg)), l ≠ [] → (∀ t ∈ l, Valid t.1 ∧ t.2.1 < 2 ^ 64 ∧ t.2.2 < 2 ^ 64) →
    ∀ (f : Nat) (out : List (Deg × α)), (['+', ' '] ++ JB F x y l).length ≤ f →
    ∃ ms, loopB (ovOf F) x.toList y.toList f (['+', ' '] ++ JB F x y l) = some ms ∧
      BPoly.stringToMapRx.go F (UPoly.strLower x) (UPoly.strLower y) ms out =
        .ok (l.foldl (fun o t => UPoly.mapAdd F o t.2 t.1) out) := by
  intro l
  induction l with
  | nil => intro h; exact absurd rfl h
  | cons t l ih =>
    intro _ hl f out hf
    obtain ⟨hc, hi, hj⟩ := hl t (by simp)
    obtain ⟨g, htok, hlt, hs, hgo⟩ := tok_step H N t l hc hi hj false (Or.inr ⟨rfl, rfl, rfl⟩)
    cases f with
    | zero => rw [List.isEmpty_eq_false_iff] at hs; exact absurd (List.length_eq_zero_iff.1 (by omega)) hs
    | succ f =>
      rw [loopB, hs, htok]
      simp only [Bool.false_eq_true, if_false, hlt, if_true]
      by_cases hl0 : l = []
      · subst hl0
        have hrest : dropWs (RB F x y []) = [] := by simp [RB, dropWs]
        rw [hrest, loopB_nil]
        refine ⟨[g], rfl, ?_⟩
        rw [hgo]
        simp [BPoly.stringToMapRx.go]
      · rw [dropWs_RB, if_neg hl0] at hlt ⊢
        obtain ⟨ms, h1, h2⟩ := ih hl0 (fun e he => hl e (by simp [he])) f
          (UPoly.mapAdd F out t.2 t.1) (by omega)
        refine ⟨g :: ms, by rw [h1]; rfl, ?_⟩
        rw [hgo, h2]
        simp

/-- all matches of a printed term list, post-processed -/
theorem matchesB_terms (H : CoefRT F Valid) (N : BNames F x y) {l : List (α × Deg)} (hne : l ≠ [])
    (hl : ∀ t ∈ l, Valid t.1 ∧ t.2.1 < 2 ^ 64 ∧ t.2.2 < 2 ^ 64) {s : String}
    (hs : s.toList = JB F x y l) :
    ∃ ms, matchesB F.ownVar x y s = some ms ∧
      BPoly.stringToMapRx.go F (UPoly.strLower x) (UPoly.strLower y) ms [] =
        .ok (l.foldl (fun o t => UPoly.mapAdd F o t.2 t.1) []) := by
  obtain ⟨t, l', rfl⟩ := List.exists_cons_of_ne_nil hne
  obtain ⟨hc, hi, hj⟩ := hl t (by simp)
  obtain ⟨g, htok, hlt, hse, hgo⟩ := tok_step H N t l' hc hi hj true (Or.inl ⟨rfl, rfl, rfl⟩)
  rw [List.nil_append] at htok hlt hse
  unfold matchesB
  dsimp only
  rw [hs]
  have hov : Option.map String.toList F.ownVar = ovOf F := rfl
  rw [hov, htok]
  simp only [hlt, if_true]
  by_cases hl0 : l' = []
  · subst hl0
    have hrest : dropWs (RB F x y []) = [] := by simp [RB, dropWs]
    rw [hrest, loopB_nil]
    refine ⟨[g], rfl, ?_⟩
    rw [hgo]
    simp [BPoly.stringToMapRx.go]
  · rw [dropWs_RB, if_neg hl0] at hlt ⊢
    obtain ⟨ms, h1, h2⟩ := loopB_terms H N l' hl0 (fun e he => hl e (by simp [he]))
      (JB F x y (t :: l')).length (UPoly.mapAdd F [] t.2 t.1) (by omega)
    refine ⟨g :: ms, by rw [h1]; rfl, ?_⟩
    rw [hgo, h2]
    simp

end

end Algobra.ParseRT
